#!/bin/sh
# MANIFEST.setup_cmd: build everything from files on disk only (offline).
set -e
cd "$(dirname "$0")"
export GOFLAGS=-mod=mod GOPROXY=off GOSUMDB=off GOTOOLCHAIN=local
( cd coq && coq_makefile -f _CoqProject -o Makefile >/dev/null && timeout 3000 make -j"$(nproc)" )
./ocaml/build.sh
( cd harness && ./mkmod.sh && mkdir -p bin && go build -tags verif -o bin/fsdbh . )
echo setup-ok
