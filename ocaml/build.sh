#!/bin/sh
# builds the extracted model + driver into /verif/ocaml/gen/driver
set -e
cd "$(dirname "$0")"
mkdir -p gen
cd gen
coqc -Q ../../coq FsDb ../../coq/Extract.v >/dev/null
cp ../driver.ml .
ocamlfind ocamlopt -w -a -O2 fsdb_model.mli fsdb_model.ml driver.ml -o driver 2>/dev/null || \
ocamlfind ocamlopt -w -a fsdb_model.mli fsdb_model.ml driver.ml -o driver
