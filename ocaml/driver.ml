(* driver: runs the extracted Coq models (Fsdb_model) on case files.
   Usage: driver <cmd> <casefile>   — prints one result line per case. *)
open Fsdb_model

(* ---------- conversion shim (hand-written, trusted) ---------- *)
let rec pos_of_i64 (x : int64) : positive =
  (* x > 0 as unsigned *)
  if Int64.equal x 1L then XH
  else
    let half = Int64.shift_right_logical x 1 in
    if Int64.equal (Int64.logand x 1L) 1L then XI (pos_of_i64 half) else XO (pos_of_i64 half)

let n_of_i64 (x : int64) : n = if Int64.equal x 0L then N0 else Npos (pos_of_i64 x)

let rec i64_of_pos (p : positive) : int64 =
  match p with
  | XH -> 1L
  | XO q -> Int64.shift_left (i64_of_pos q) 1
  | XI q -> Int64.logor (Int64.shift_left (i64_of_pos q) 1) 1L

let i64_of_n (x : n) : int64 = match x with N0 -> 0L | Npos p -> i64_of_pos p

let n_of_string (s : string) : n = n_of_i64 (Int64.of_string ("0u" ^ s))
let string_of_n (x : n) : string = Printf.sprintf "%Lu" (i64_of_n x)

let rec nat_of_int (i : int) : nat = if i <= 0 then O else S (nat_of_int (i - 1))
let rec int_of_nat (x : nat) : int = match x with O -> 0 | S y -> 1 + int_of_nat y

let split_ws (s : string) : string list =
  List.filter (fun t -> t <> "") (String.split_on_char ' ' (String.trim s))

let read_lines (path : string) : string list =
  let ic = open_in path in
  let rec go acc =
    match input_line ic with
    | l -> go (l :: acc)
    | exception End_of_file -> close_in ic; List.rev acc
  in
  go []

let tail_from (s : string) (i : int) : string = String.sub s i (String.length s - i)

(* ---------- vlist (C18) ---------- *)
(* case line: <id> tok tok ...; tok = p<seq> | f | b | c<h> | l<s> | t *)
let vtok_of_string (tok : string) : vtok =
  let arg () = n_of_string (tail_from tok 1) in
  match tok.[0] with
  | 'p' -> TPush (arg ())
  | 'f' -> TPopFront
  | 'b' -> TPopBack
  | 'c' -> TCollect (arg ())
  | 'l' -> TLookup (arg ())
  | 't' -> TLatest
  | _ -> failwith ("bad vlist token " ^ tok)

let string_of_vres (r : vres) : string =
  match r with
  | RUnit -> "-"
  | RNone -> "n"
  | RSome x -> string_of_n x
  | RList l -> "[" ^ String.concat "," (List.map string_of_n l) ^ "]"
  | RFuel -> "FUEL"

let vlist_case (run : vtok list -> vres list) (line : string) : string =
  match split_ws line with
  | [] -> ""
  | id :: toks ->
    let rs = run (List.map vtok_of_string toks) in
    String.concat " " (id :: List.map string_of_vres rs)

(* ---------- codec (C19) ---------- *)
let hexval c = match c with
  | '0'..'9' -> Char.code c - 48 | 'a'..'f' -> Char.code c - 87 | 'A'..'F' -> Char.code c - 55
  | _ -> failwith "bad hex"
let bytes_of_hex (s : string) : n list =
  if s = "-" then [] else
  List.init (String.length s / 2) (fun i -> n_of_i64 (Int64.of_int (16 * hexval s.[2*i] + hexval s.[2*i+1])))
let hex_of_bytes (l : n list) : string =
  if l = [] then "-" else
  String.concat "" (List.map (fun b -> Printf.sprintf "%02x" (Int64.to_int (i64_of_n b))) l)

let codec_case (line : string) : string =
  match split_ws line with
  | [id; "m"; sq; tx; cid; key] ->
    (match run_marshal { r_seq = n_of_string sq; r_tx = bytes_of_hex tx; r_cid = bytes_of_hex cid; r_key = bytes_of_hex key } with
     | CBytes b -> id ^ " b " ^ hex_of_bytes b
     | _ -> id ^ " err")
  | [id; "u"; hx] ->
    (match run_unmarshal (bytes_of_hex hx) with
     | CRec r -> String.concat " " [id; "r"; string_of_n r.r_seq; hex_of_bytes r.r_tx; hex_of_bytes r.r_cid; hex_of_bytes r.r_key]
     | _ -> id ^ " err")
  | [id; "F"; hx] -> id ^ " s " ^ hex_of_bytes (uuid_format (bytes_of_hex hx))
  | [id; "P"; hx] ->
    (match uuid_parse (bytes_of_hex hx) with
     | Some b -> id ^ " b " ^ hex_of_bytes b
     | None -> id ^ " err")
  | _ -> failwith ("bad codec case: " ^ line)

(* ---------- histories (Core model / spec) ---------- *)
let n_of_dec = n_of_string
let level_of_string = function
  | "RU" -> RU | "RC" | "DEF" -> RC | "RR" -> RR | _ -> SER
let string_of_err = function
  | ENotFound -> "NotFound" | EEmptyKey -> "EmptyKey" | ETxNotFound -> "TxNotFound"
  | ETxSerialization -> "TxSerialization"
let string_of_out = function
  | OutUnit -> "ok"
  | OutHandle h -> "h " ^ string_of_n h
  | OutVal v -> "val " ^ string_of_n v
  | OutKeys ks -> String.concat " " ("keys" :: List.map string_of_n ks)
  | OutErr e -> "err " ^ string_of_err e

let op_of_tokens (t : string list) : op option =
  match t with
  | "begin" :: l :: _ -> Some (OBegin (level_of_string l))
  | "set" :: h :: k :: v :: _ -> Some (OSet (n_of_dec h, n_of_dec k, n_of_dec v))
  | "del" :: h :: k :: _ -> Some (ODel (n_of_dec h, n_of_dec k))
  | "get" :: h :: k :: _ -> Some (OGet (n_of_dec h, n_of_dec k))
  | "keys" :: h :: _ -> Some (OKeys (n_of_dec h))
  | "commit" :: h :: _ -> Some (OCommit (n_of_dec h))
  | "rollback" :: h :: _ -> Some (ORollback (n_of_dec h))
  | "gc" :: _ -> Some OGC
  | "drain" :: _ -> Some ODrain
  | "reopen" :: _ -> Some OReopen
  | _ -> None

let cmp_n a b = compare (i64_of_n a) (i64_of_n b)  (* values are small here *)

(* generic history runner over a step function and a disk query *)
let hist_run (init : 'st) (step : 'st -> op -> 'st * out) (disk : 'st -> n list) (lines : string list) : unit =
  let st = ref init in
  List.iter
    (fun l ->
      let l = String.trim l in
      if l <> "" && l.[0] <> '#' then
        match split_ws l with
        | "case" :: id :: _ -> st := init; print_endline ("case " ^ id)
        | "keytab" :: _ -> ()
        | "end" :: _ -> print_endline "end"
        | "disk" :: _ ->
          (* the harness waits for pool quiescence before walking the roots *)
          let (st', _) = step !st ODrain in st := st';
          let vs = List.sort cmp_n (disk !st) in
          print_endline (String.trim ("disk other=0 vals " ^ String.concat " " (List.map string_of_n vs)))
        | t ->
          (match op_of_tokens t with
           | Some o -> let (st', r) = step !st o in st := st'; print_endline (string_of_out r)
           | None -> print_endline ("BAD-OP " ^ l)))
    lines

let () =
  let cmd = Sys.argv.(1) in
  let lines = read_lines Sys.argv.(2) in
  if cmd = "hist" then (hist_run m_init mstep (fun m -> List.map snd m.m_cont) lines; exit 0);
  if cmd = "hist-spec" then
    (hist_run a_init astep
       (fun a -> List.concat_map (fun (_, l) -> List.filter_map (fun e -> e.a_val) l) a.a_vers) lines; exit 0);
  if cmd = "hist-kv" then
    (hist_run [] kvstep (fun s -> List.filter_map snd s) lines; exit 0);
  if cmd = "hist-h" then begin
    (* per case: does hypothesis H (no late writes) hold; is it autocommit-only *)
    let cur = ref [] and id = ref "" in
    let flush () =
      if !id <> "" then begin
        let ops = List.rev !cur in
        Printf.printf "%s H=%b auto=%b\n" !id (no_late_writes ops) (autocommit_only ops)
      end in
    List.iter (fun l ->
      match split_ws l with
      | "case" :: i :: _ -> id := i; cur := []
      | "end" :: _ -> flush (); id := ""
      | t -> (match op_of_tokens t with Some o -> cur := o :: !cur | None -> ())) lines;
    exit 0 end;
  let f =
    match cmd with
    | "vlist" -> vlist_case vrun
    | "vlist-spec" -> vlist_case vrun_spec
    | "codec" -> codec_case
    | _ -> failwith ("unknown command " ^ cmd)
  in
  List.iter (fun l -> if String.trim l <> "" && l.[0] <> '#' then print_endline (f l)) lines
