(* driver: runs the extracted Coq models (Fsdb_model) on case files.
   Usage: driver <cmd> <casefile>   — prints one result line per case. *)
open Fsdb_model

(* ---------- conversion shim (hand-written, trusted) ---------- *)
let rec pos_of_i64 (x : int64) : positive =
  (* x > 0 as unsigned *)
  if Int64.equal x 1L then XH
  else
    let half = Int64.shift_right_logical x 1 in
    if Int64.equal (Int64.logand x 1L) 1L then XI (pos_of_i64 half) else XO (pos_of_i64 half)

let n_of_i64 (x : int64) : n = if Int64.equal x 0L then N0 else Npos (pos_of_i64 x)

let rec i64_of_pos (p : positive) : int64 =
  match p with
  | XH -> 1L
  | XO q -> Int64.shift_left (i64_of_pos q) 1
  | XI q -> Int64.logor (Int64.shift_left (i64_of_pos q) 1) 1L

let i64_of_n (x : n) : int64 = match x with N0 -> 0L | Npos p -> i64_of_pos p

let n_of_string (s : string) : n = n_of_i64 (Int64.of_string ("0u" ^ s))
let string_of_n (x : n) : string = Printf.sprintf "%Lu" (i64_of_n x)

let rec nat_of_int (i : int) : nat = if i <= 0 then O else S (nat_of_int (i - 1))
let rec int_of_nat (x : nat) : int = match x with O -> 0 | S y -> 1 + int_of_nat y

let split_ws (s : string) : string list =
  List.filter (fun t -> t <> "") (String.split_on_char ' ' (String.trim s))

let read_lines (path : string) : string list =
  let ic = open_in path in
  let rec go acc =
    match input_line ic with
    | l -> go (l :: acc)
    | exception End_of_file -> close_in ic; List.rev acc
  in
  go []

let tail_from (s : string) (i : int) : string = String.sub s i (String.length s - i)

(* ---------- vlist (C18) ---------- *)
(* case line: <id> tok tok ...; tok = p<seq> | f | b | c<h> | l<s> | t *)
let vtok_of_string (tok : string) : vtok =
  let arg () = n_of_string (tail_from tok 1) in
  match tok.[0] with
  | 'p' -> TPush (arg ())
  | 'f' -> TPopFront
  | 'b' -> TPopBack
  | 'c' -> TCollect (arg ())
  | 'l' -> TLookup (arg ())
  | 't' -> TLatest
  | _ -> failwith ("bad vlist token " ^ tok)

let string_of_vres (r : vres) : string =
  match r with
  | RUnit -> "-"
  | RNone -> "n"
  | RSome x -> string_of_n x
  | RList l -> "[" ^ String.concat "," (List.map string_of_n l) ^ "]"
  | RFuel -> "FUEL"

let vlist_case (run : vtok list -> vres list) (line : string) : string =
  match split_ws line with
  | [] -> ""
  | id :: toks ->
    let rs = run (List.map vtok_of_string toks) in
    String.concat " " (id :: List.map string_of_vres rs)

(* ---------- codec (C19) ---------- *)
let hexval c = match c with
  | '0'..'9' -> Char.code c - 48 | 'a'..'f' -> Char.code c - 87 | 'A'..'F' -> Char.code c - 55
  | _ -> failwith "bad hex"
let bytes_of_hex (s : string) : n list =
  if s = "-" then [] else
  List.init (String.length s / 2) (fun i -> n_of_i64 (Int64.of_int (16 * hexval s.[2*i] + hexval s.[2*i+1])))
let hex_of_bytes (l : n list) : string =
  if l = [] then "-" else
  String.concat "" (List.map (fun b -> Printf.sprintf "%02x" (Int64.to_int (i64_of_n b))) l)

let codec_case (line : string) : string =
  match split_ws line with
  | [id; "m"; sq; tx; cid; key] ->
    (match run_marshal { r_seq = n_of_string sq; r_tx = bytes_of_hex tx; r_cid = bytes_of_hex cid; r_key = bytes_of_hex key } with
     | CBytes b -> id ^ " b " ^ hex_of_bytes b
     | _ -> id ^ " err")
  | [id; "u"; hx] ->
    (match run_unmarshal (bytes_of_hex hx) with
     | CRec r -> String.concat " " [id; "r"; string_of_n r.r_seq; hex_of_bytes r.r_tx; hex_of_bytes r.r_cid; hex_of_bytes r.r_key]
     | _ -> id ^ " err")
  | [id; "F"; hx] -> id ^ " s " ^ hex_of_bytes (uuid_format (bytes_of_hex hx))
  | [id; "P"; hx] ->
    (match uuid_parse (bytes_of_hex hx) with
     | Some b -> id ^ " b " ^ hex_of_bytes b
     | None -> id ^ " err")
  | [id; "B"; _mode; recs] ->
    (* batch through the repository: <seq>,<tx>,<cid>,<key>;...  (key may be empty) *)
    let parse s = match String.split_on_char ',' s with
      | [sq; tx; cid; key] -> { r_seq = n_of_string sq; r_tx = bytes_of_hex tx; r_cid = bytes_of_hex cid; r_key = bytes_of_hex key }
      | _ -> failwith ("bad record: " ^ s) in
    let rs = if recs = "-" then [] else List.map parse (String.split_on_char ';' recs) in
    (match run_batch rs with
     | Some out -> id ^ " R " ^ (if out = [] then "-" else String.concat ";" (List.map (fun r ->
         String.concat "," [string_of_n r.r_seq; hex_of_bytes r.r_tx; hex_of_bytes r.r_cid; hex_of_bytes r.r_key]) out))
     | None -> id ^ " err")
  | _ -> failwith ("bad codec case: " ^ line)

(* ---------- histories (Core model / spec) ---------- *)
let n_of_dec = n_of_string
let level_of_string = function
  | "RU" -> RU | "RC" | "DEF" -> RC | "RR" -> RR | _ -> SER
let string_of_err = function
  | ENotFound -> "NotFound" | EEmptyKey -> "EmptyKey" | ETxNotFound -> "TxNotFound"
  | ETxSerialization -> "TxSerialization"
let string_of_out = function
  | OutUnit -> "ok"
  | OutHandle h -> "h " ^ string_of_n h
  | OutVal v -> "val " ^ string_of_n v
  | OutKeys ks -> String.concat " " ("keys" :: List.map string_of_n ks)
  | OutErr e -> "err " ^ string_of_err e

let op_of_tokens (t : string list) : op option =
  match t with
  | "begin" :: l :: _ -> Some (OBegin (level_of_string l))
  | "set" :: h :: k :: v :: _ -> Some (OSet (n_of_dec h, n_of_dec k, n_of_dec v))
  | "del" :: h :: k :: _ -> Some (ODel (n_of_dec h, n_of_dec k))
  | "get" :: h :: k :: _ -> Some (OGet (n_of_dec h, n_of_dec k))
  | "keys" :: h :: _ -> Some (OKeys (n_of_dec h))
  | "commit" :: h :: _ -> Some (OCommit (n_of_dec h))
  | "rollback" :: h :: _ -> Some (ORollback (n_of_dec h))
  | "gc" :: _ -> Some OGC
  | "drain" :: _ -> Some ODrain
  | "reopen" :: _ -> Some OReopen
  | _ -> None

let cmp_n a b = compare (i64_of_n a) (i64_of_n b)  (* values are small here *)

(* generic history runner over a step function and a disk query *)
let hist_run (init : 'st) (step : 'st -> op -> 'st * out) (disk : 'st -> n list) (lines : string list) : unit =
  let st = ref init in
  List.iter
    (fun l ->
      let l = String.trim l in
      if l <> "" && l.[0] <> '#' then
        match split_ws l with
        | "case" :: id :: _ -> st := init; print_endline ("case " ^ id)
        | "keytab" :: _ -> ()
        | "end" :: _ -> print_endline "end"
        | "setabort" :: _ -> print_endline "err foreign"   (* an aborted write: an error, and no effect *)
        | "disk" :: _ ->
          (* the harness waits for pool quiescence before walking the roots *)
          let (st', _) = step !st ODrain in st := st';
          let vs = List.sort cmp_n (disk !st) in
          print_endline (String.trim ("disk other=0 vals " ^ String.concat " " (List.map string_of_n vs)))
        | t ->
          (match op_of_tokens t with
           | Some o -> let (st', r) = step !st o in st := st'; print_endline (string_of_out r)
           | None -> print_endline ("BAD-OP " ^ l)))
    lines

(* ---------- errmap (C11) ---------- *)
(* names as the Go side prints them: sentinel variable names, codes.Code.String(), store.ErrorCode.String() *)
let sentinel_names = [
  ErrUnknown, "ErrUnknown"; ErrNoFreeSpace, "ErrNoFreeSpace"; ErrNotFound, "ErrNotFound";
  ErrEmptyKey, "ErrEmptyKey"; ErrHeaderNotFound, "ErrHeaderNotFound"; ErrTxNotFound, "ErrTxNotFound";
  ErrTxAlreadyExists, "ErrTxAlreadyExists"; ErrTxSerialization, "ErrTxSerialization";
  ErrEmptyDbPath, "ErrEmptyDbPath"; ErrEmptyRootDirs, "ErrEmptyRootDirs" ]
let sentinel_of_string (s : string) : sentinel =
  match List.find_opt (fun (_, n) -> n = s) sentinel_names with
  | Some (c, _) -> c
  | None -> failwith ("unknown sentinel " ^ s)
let string_of_sentinel (c : sentinel) : string = List.assoc c sentinel_names
let string_of_code (c : code) : string =
  match c with
  | Codes_OK -> "OK" | Codes_Canceled -> "Canceled" | Codes_Unknown -> "Unknown"
  | Codes_InvalidArgument -> "InvalidArgument" | Codes_DeadlineExceeded -> "DeadlineExceeded"
  | Codes_NotFound -> "NotFound" | Codes_AlreadyExists -> "AlreadyExists"
  | Codes_PermissionDenied -> "PermissionDenied" | Codes_ResourceExhausted -> "ResourceExhausted"
  | Codes_FailedPrecondition -> "FailedPrecondition" | Codes_Aborted -> "Aborted"
  | Codes_OutOfRange -> "OutOfRange" | Codes_Unimplemented -> "Unimplemented" | Codes_Internal -> "Internal"
  | Codes_Unavailable -> "Unavailable" | Codes_DataLoss -> "DataLoss" | Codes_Unauthenticated -> "Unauthenticated"
  | Codes_Other -> "Other"
let string_of_detail (d : detail option) : string =
  match d with
  | None -> "none"
  | Some ErrorCode_ErrUnknown -> "ErrUnknown" | Some ErrorCode_ErrNoFreeSpace -> "ErrNoFreeSpace"
  | Some ErrorCode_ErrNotFound -> "ErrNotFound" | Some ErrorCode_ErrEmptyKey -> "ErrEmptyKey"
  | Some ErrorCode_ErrHeaderNotFound -> "ErrHeaderNotFound" | Some ErrorCode_ErrTxNotFound -> "ErrTxNotFound"
  | Some ErrorCode_ErrTxAlreadyExists -> "ErrTxAlreadyExists"
  | Some ErrorCode_ErrTxSerialization -> "ErrTxSerialization" | Some ErrorCode_Other -> "Other"
let string_of_set (l : sentinel list) : string =
  if l = [] then "-" else String.concat "," (List.map string_of_sentinel l)
let string_of_onat (x : nat option) : string =
  match x with Some n -> string_of_int (int_of_nat n) | None -> "other"

(* prefix notation: L<Sentinel> | O | W <tree> | J<n> <tree>*n *)
let rec parse_tree (toks : string list) : errv * string list =
  match toks with
  | [] -> failwith "tree ends early"
  | t :: rest ->
    (match t.[0] with
     | 'L' -> (Leaf (sentinel_of_string (tail_from t 1)), rest)
     | 'O' -> (Other, rest)
     | 'W' -> let (k, r) = parse_tree rest in (Wrap k, r)
     | 'J' ->
       let n = int_of_string (tail_from t 1) in
       let rec kids i r acc =
         if i = 0 then (List.rev acc, r)
         else let (k, r') = parse_tree r in kids (i - 1) r' (k :: acc) in
       let (ks, r) = kids n rest [] in
       (Join ks, r)
     | _ -> failwith ("bad tree token " ^ t))

let errmap_case (line : string) : string =
  match split_ws line with
  | id :: "e" :: toks ->
    let (e, rest) = parse_tree toks in
    if rest <> [] then failwith ("trailing tokens: " ^ line);
    let r = errmap_run_err e in
    Printf.sprintf "%s e %s %s in=%s full=%s code=%s" id (string_of_code r.er_code) (string_of_detail r.er_detail)
      (string_of_set r.er_in) (string_of_set r.er_full) (string_of_set r.er_codeonly)
  | id :: "primary" :: toks ->
    let (e, _) = parse_tree toks in
    id ^ " primary " ^ string_of_sentinel (errmap_run_err e).er_primary
  | [id; "w"; c; d] ->
    let dn = if d = "-" then None else Some (nat_of_int (int_of_string d)) in
    id ^ " w " ^ string_of_set (errmap_run_wire (nat_of_int (int_of_string c)) dn)
  | [id; "l"; n] ->
    let (g, b) = errmap_run_level (nat_of_int (int_of_string n)) in
    Printf.sprintf "%s l %s %s" id (string_of_onat g) (string_of_onat b)
  | [id; "p"; n] ->
    let k = int_of_string n in
    let (m, g) = errmap_run_plevel (if k < 0 || k > 65535 then None (* not a declared number: TxIsoLevel_Other *) else Some (nat_of_int k)) in
    Printf.sprintf "%s p %s %s" id (string_of_onat m) (string_of_onat g)
  | _ -> failwith ("bad errmap case: " ^ line)


(* ---------- config (C20) ---------- *)
(* case lines: see harness/config.go *)
let z_of_string (s : string) : z =
  let x = Int64.of_string s in
  if Int64.equal x 0L then Z0
  else if Int64.compare x 0L > 0 then Zpos (pos_of_i64 x)
  else Zneg (pos_of_i64 (Int64.neg x))
let string_of_z (x : z) : string =
  match x with
  | Z0 -> "0"
  | Zpos p -> Printf.sprintf "%Lu" (i64_of_pos p)
  | Zneg p -> "-" ^ Printf.sprintf "%Lu" (i64_of_pos p)

let cstr (tok : string) : n list =
  if tok = "" || tok.[0] <> 'x' then failwith ("bad string token " ^ tok)
  else if String.length tok = 1 then [] else bytes_of_hex (tail_from tok 1)
let cstr_enc (l : n list) : string = if l = [] then "x" else "x" ^ hex_of_bytes l
let clist (tok : string) : n list list =
  if tok = "-" then [] else List.map cstr (String.split_on_char ',' tok)
let clist_enc (l : n list list) : string =
  if l = [] then "-" else String.concat "," (List.map cstr_enc l)

let cfile conv (tok : string) =
  if tok = "-" then FAbsent
  else if tok.[0] = '!' then FBad
  else if tok.[0] = '=' then FValue (conv (tail_from tok 1))
  else failwith ("bad file token " ^ tok)
let cenv conv (tok : string) =
  if tok = "-" then EUnset
  else if tok = "e" then EEmpty
  else if tok.[0] = '!' then EBad
  else if tok.[0] = '=' then EValue (conv (tail_from tok 1))
  else failwith ("bad env token " ^ tok)
let cenv_str (tok : string) : n list option =
  if tok = "-" then None
  else if tok = "e" then Some []
  else if tok.[0] = '=' then Some (cstr (tail_from tok 1))
  else failwith ("bad env token for a string setting " ^ tok)

let string_of_validres (v : validres) : string =
  match v with
  | VErr VErrEmptyDbPath -> "ErrEmptyDbPath"
  | VErr VErrEmptyRootDirs -> "ErrEmptyRootDirs"
  | VOK s -> String.concat "/" ["ok"; cstr_enc s.s_db_path; string_of_n s.s_max_dir_count;
                                clist_enc s.s_root_dirs; string_of_z s.s_gc_period]

let config_case (line : string) : string =
  match split_ws line with
  | [id; "P"; g; mode; f0; f1; f2; f3; f4; f5; f6; e0; e1; e2; e3; e4; e5; e6] ->
    let fc = { f_port = cfile z_of_string f0; f_db = cfile cstr f1; f_dc = cfile n_of_string f2;
               f_rd = cfile clist f3; f_gc = cfile z_of_string f4; f_nw = cfile z_of_string f5;
               f_sd = cfile z_of_string f6 } in
    let fa = (match mode with
        | "N" -> NoFile | "M" -> MissingFile | "E" -> EmptyFile | "F" -> File fc
        | _ -> failwith ("bad file mode " ^ mode)) in
    let ev = { e_port = cenv z_of_string e0; e_db = cenv_str e1; e_dc = cenv n_of_string e2;
               e_rd = cenv_str e3; e_gc = cenv z_of_string e4; e_nw = cenv z_of_string e5;
               e_sd = cenv z_of_string e6 } in
    (match run_parse { i_file = fa; i_env = ev; i_procs = z_of_string g } with
     | CfgErr -> id ^ " err parse"
     | CfgOk (c, v) ->
       Printf.sprintf "%s ok p=%s db=%s dc=%s rd=%s gc=%s nw=%s sd=%s valid=%s" id
         (string_of_z c.c_port) (cstr_enc c.c_storage.s_db_path) (string_of_n c.c_storage.s_max_dir_count)
         (clist_enc c.c_storage.s_root_dirs) (string_of_z c.c_storage.s_gc_period)
         (string_of_z c.c_wpool.w_num_workers) (string_of_z c.c_wpool.w_send_duration)
         (string_of_validres v))
  | [id; "V"; db; dc; rd; gc] ->
    id ^ " valid=" ^ string_of_validres
      (run_valid { s_db_path = cstr db; s_max_dir_count = n_of_string dc; s_root_dirs = clist rd;
                   s_gc_period = z_of_string gc })
  | _ -> failwith ("bad config case: " ^ line)

(* ---------- dirs (C17) ---------- *)
(* model input (written by lib/props/c17.py from the harness observations):
   case <id> roots=<n> max=<m> | w <r> <i> | w - | f <r>:<i> ... | ro [<r>:<i> ...] | nop | end
   one output line per step: "<allowed=0/1 or -> | R0 counts=.. act=.. ctr=..;R1 ..." *)
let dirs_roots_string (s : dr_state) : string =
  let acts = List.map (fun (r, i) -> (int_of_nat r, int_of_nat i)) s.dr_active in
  let ctrs = List.map int_of_nat s.dr_counts in
  let lst l = if l = [] then "-" else String.concat "," (List.map string_of_int l) in
  String.concat ";"
    (List.mapi
       (fun r l ->
         let act = List.sort compare (List.filter_map (fun (r', i) -> if r' = r then Some i else None) acts) in
         Printf.sprintf "R%d counts=%s act=%s ctr=%d" r (lst (List.map int_of_nat l)) (lst act)
           (match List.nth_opt ctrs r with Some c -> c | None -> -1))
       s.dr_disk)

let dirs_id (tok : string) : dr_id =
  match String.split_on_char ':' tok with
  | [r; i] -> (nat_of_int (int_of_string r), nat_of_int (int_of_string i))
  | _ -> failwith ("bad directory token " ^ tok)

let dirs_run (lines : string list) : unit =
  let st = ref (dr_init (nat_of_int 1) (nat_of_int 1)) in
  let kv key toks =
    let p = key ^ "=" in
    match List.find_opt (fun t -> String.length t > String.length p && String.sub t 0 (String.length p) = p) toks with
    | Some t -> int_of_string (tail_from t (String.length p))
    | None -> failwith ("missing " ^ key) in
  List.iter
    (fun l ->
      let l = String.trim l in
      if l <> "" && l.[0] <> '#' then
        match split_ws l with
        | "case" :: id :: rest ->
          st := dr_init (nat_of_int (kv "roots" rest)) (nat_of_int (kv "max" rest));
          print_endline ("case " ^ id)
        | "end" :: _ -> print_endline "end"
        | ["w"; "-"] ->
          st := dr_get_phase !st;
          print_endline ("- | " ^ dirs_roots_string !st)
        | ["w"; r; i] ->
          let c = (nat_of_int (int_of_string r), nat_of_int (int_of_string i)) in
          let a = dr_allowed !st c in
          st := dr_step !st (DAlloc ([], c));
          print_endline ((if a then "allowed=1" else "allowed=0") ^ " | " ^ dirs_roots_string !st)
        | "f" :: ds ->
          List.iter (fun t -> st := dr_step !st (DFree (dirs_id t))) ds;
          print_endline ("- | " ^ dirs_roots_string !st)
        | "ro" :: ds ->
          (* reopen; core.Load then hands superseded versions to the cleaner *)
          st := dr_step !st DReopen;
          List.iter (fun t -> st := dr_step !st (DFree (dirs_id t))) ds;
          print_endline ("- | " ^ dirs_roots_string !st)
        | ["nop"] -> print_endline ("- | " ^ dirs_roots_string !st)
        | _ -> failwith ("bad dirs line: " ^ l))
    lines

(* ---------- faults (C10, inline part) ---------- *)
(* case line: <id> dedup=0|1 late=0|1 buf=N order=<rid>:<free>:<cap>:<keep>|<rid>:<free>:-,... seed=S chunks=<n>,<n>,F,...
   the source bytes come from the same LCG as harness/faults.go (srcBytes); chunks = sizes of the
   source's Read results in order, F = the Read that fails *)
let byte_tab : n array = Array.init 256 (fun i -> n_of_i64 (Int64.of_int i))
let lcg_stream (seed : int) : unit -> n =
  let x = ref ((seed * 1000003 + 12345) land 0x7fffffff) in
  fun () ->
    x := (!x * 1103515245 + 12345) land 0x7fffffff;
    byte_tab.((!x lsr 16) land 0xff)
let ident_of_bytes (l : n list) : string =
  let b = Buffer.create 1024 in
  List.iter (fun x -> Buffer.add_char b (Char.chr (Int64.to_int (i64_of_n x)))) l;
  let d = Digest.to_hex (Digest.string (Buffer.contents b)) in
  Printf.sprintf "%d:%s" (Buffer.length b) (String.sub d 0 12)
let kv_of_tokens (toks : string list) : (string * string) list =
  List.filter_map (fun t ->
      match String.index_opt t '=' with
      | Some i -> Some (String.sub t 0 i, tail_from t (i + 1))
      | None -> None) toks
let faults_case (line : string) : string =
  match split_ws line with
  | [] -> ""
  | id :: toks ->
    let kv = kv_of_tokens toks in
    let get k = try List.assoc k kv with Not_found -> failwith ("faults case lacks " ^ k ^ ": " ^ line) in
    let order =
      if get "order" = "-" then [] else
      List.map (fun r ->
          match String.split_on_char ':' r with
          | [rid; fr; "-"] -> { r_id = n_of_string rid; r_free = n_of_string fr; r_fault = NoFault }
          | [rid; fr; cap; keep] ->
            { r_id = n_of_string rid; r_free = n_of_string fr; r_fault = EnospcAt (n_of_string cap, n_of_string keep) }
          | _ -> failwith ("bad root " ^ r)) (String.split_on_char ',' (get "order")) in
    let next = lcg_stream (int_of_string (get "seed")) in
    let src =
      if get "chunks" = "-" then [] else
      List.map (fun c ->
          if c = "F" then Fail
          else Data (List.init (int_of_string c) (fun _ -> next ())))
        (String.split_on_char ',' (get "chunks")) in
    let r = run_faults (get "dedup" = "1") (get "late" = "1") (nat_of_int (int_of_string (get "buf"))) order src in
    let dash s = if s = "" then "-" else s in
    let coq_bytes l = "[" ^ String.concat ";" (List.map string_of_n l) ^ "]" in
    if List.mem_assoc "raw" kv then
      (* the result as a Coq term, for the vm_compute cross-check of the extraction *)
      id ^ " | coq=mkres (" ^
      (match r.res_out with
       | Stored (rid, c) -> "Stored " ^ string_of_n rid ^ " " ^ coq_bytes c
       | Err ENoFreeSpace -> "Err ENoFreeSpace" | Err EReader -> "Err EReader" | Err EClosed -> "Err EClosed") ^
      ") [" ^ String.concat ";" (List.map (fun (rid, c) -> "(" ^ string_of_n rid ^ "," ^ coq_bytes c ^ ")") r.res_orphans) ^
      "] [" ^ String.concat ";" (List.map string_of_n r.res_visited) ^ "] " ^ string_of_int (int_of_nat r.res_leaked) ^ "%nat"
    else
    let err, stored =
      match r.res_out with
      | Stored (rid, c) -> "ok", string_of_n rid ^ ":" ^ ident_of_bytes c
      | Err ENoFreeSpace -> "NoFreeSpace", "-"
      | Err EReader -> "other:reader", "-"
      | Err EClosed -> "other:closed", "-" in
    String.concat " | " [
      id;
      "visited=" ^ dash (String.concat "," (List.map string_of_n r.res_visited));
      "err=" ^ err;
      "stored=" ^ stored;
      "orph=" ^ dash (String.concat ";" (List.map (fun (rid, c) -> string_of_n rid ^ ":" ^ ident_of_bytes c) r.res_orphans));
      "leaks=" ^ string_of_int (int_of_nat r.res_leaked);
      "src=" ^ ident_of_bytes (src_bytes src) ]


(* ---------- read-writer (C12) ---------- *)
(* case line: <id> <var> <B> <fail> <writes> <sched>
     var    o = original code | f = repaired | l = loop only | c = Close under the mutex only
     B      read-buffer size of the storing side
     fail   - | k   (the storing side fails at its k-th Read return, 0-based)
     writes - | n1,n2,...   (sizes; byte j of the whole stream is 'a' + j mod 26)
     sched  - | string over W,R (lower case = same thread, the controller expects it to block)
   output: <id> <ev>* ; end=<final|stuck|open> close=<ok|err|none> w=<o/e per write|-> pub=<hex|none> stored=<hex|-> *)
let rw_params_of (var : string) (b : string) (fl : string) : params0 =
  let (lp, lk) = match var with
    | "o" -> (false, false) | "f" -> (true, true) | "l" -> (true, false) | "c" -> (false, true)
    | _ -> failwith ("bad rw variant " ^ var) in
  rw_params lp lk (nat_of_int (int_of_string b)) (if fl = "-" then None else Some (nat_of_int (int_of_string fl)))
let rw_sizes (w : string) : nat list =
  if w = "-" then [] else List.map (fun x -> nat_of_int (int_of_string x)) (String.split_on_char ',' w)
let rw_tid_of_char (c : char) : tid =
  match c with 'W' | 'w' -> W | 'R' | 'r' -> R | _ -> failwith "bad thread letter"
let rw_sched (s : string) : tid list =
  if s = "-" then [] else List.init (String.length s) (fun i -> rw_tid_of_char s.[i])
let string_of_tid = function W -> "W" | R -> "R"
let string_of_point = function
  | PWriteEnter -> "rw.write.enter" | PWriteBeforeSignal -> "rw.write.beforeSignal"
  | PCloseEnter -> "rw.close.enter" | PCloseAfterStore -> "rw.close.afterStore"
  | PCloseBeforeWait -> "rw.close.beforeWait" | PReadEnter -> "rw.read.enter"
  | PReadBeforeWait -> "rw.read.beforeWait" | PReadAfterWake -> "rw.read.afterWake"
  | PSinkEof -> "sink.eof" | PSinkFail -> "sink.fail"
let string_of_ev ((t, o) : tid * obs) : string =
  match o with
  | OAt p -> string_of_tid t ^ "@" ^ string_of_point p
  | OBlocked -> string_of_tid t ^ ":blocked"
  | OFinished -> string_of_tid t ^ ":done"
let hex_plain (l : n list) : string =
  String.concat "" (List.map (fun b -> Printf.sprintf "%02x" (Int64.to_int (i64_of_n b))) l)

let rw_case (line : string) : string =
  match split_ws line with
  | [id; var; b; fl; w; sc] ->
    let p = rw_params_of var b fl in
    let s0 = rw_init (rw_writes (rw_sizes w)) in
    let (evs, s) = rw_trace p (rw_sched sc) s0 [] in
    let (cr, (wr, (pub, st))) = rw_outcome s in
    let fin = if rw_final s then "final" else if rw_stuck p s then "stuck" else "open" in
    Printf.sprintf "%s %s ; end=%s close=%s w=%s pub=%s stored=%s" id
      (String.concat " " (List.map string_of_ev (rw_initial_obs s0 @ evs))) fin
      (match cr with Some true -> "ok" | Some false -> "err" | None -> "none")
      (if wr = [] then "-" else String.concat "" (List.map (fun x -> if x then "o" else "e") wr))
      (match pub with Some c -> hex_plain c | None -> "none")
      (if st = [] then "-" else hex_plain st)
  | _ -> failwith ("bad rw case: " ^ line)

(* enumeration line: <id> <var> <B> <fail> <writes> <all|eager> <probes>
   prints one rw case line per complete schedule: <id>.<n> <var> <B> <fail> <writes> <sched> *)
let rw_enum_case (line : string) : string =
  match split_ws line with
  | [id; var; b; fl; w; mode; probes] ->
    let p = rw_params_of var b fl in
    let ws = rw_writes (rw_sizes w) in
    let l = rw_enum p (mode = "eager") (rw_bound ws) (nat_of_int (int_of_string probes)) (rw_init ws) [] in
    String.concat "\n" (List.mapi (fun i sc ->
      Printf.sprintf "%s.%d %s %s %s %s %s" id i var b fl w
        (if sc = [] then "-" else String.concat "" (List.map string_of_tid sc))) l)
  | _ -> failwith ("bad rw-enum case: " ^ line)

(* stream writer: <id> <chunkSize> <writes>  ->  <id> <chunk lengths|-> ok *)
let sw_case (line : string) : string =
  match split_ws line with
  | [id; cs; w] ->
    let ws = rw_writes (rw_sizes w) in
    let cks = sw_chunks (nat_of_int (int_of_string cs)) ws in
    let lens = List.map (fun c -> string_of_int (List.length c)) cks in
    Printf.sprintf "%s %s %s" id (if lens = [] then "-" else String.concat "," lens)
      (if List.concat cks = List.concat ws then "ok" else "BAD")
  | _ -> failwith ("bad sw case: " ^ line)

(* upload reader (C10): <id> <aborted 0|1> <chunk lengths|-> <read buffer lengths|->  ->  <id> <results|-> <ok|BAD> *)
let sr_case (line : string) : string =
  match split_ws line with
  | [id; ab; cl; sizes] ->
    let ints s = if s = "-" then [] else List.map int_of_string (String.split_on_char ',' s) in
    let off = ref 0 in
    let chunks = List.map (fun n -> let c = List.init n (fun i -> 97 + (!off + i) mod 26) in off := !off + n; c) (ints cl) in
    let all = List.concat chunks in
    let rs = sr_run false chunks (ab = "1") (List.map nat_of_int (ints sizes)) in
    let got = List.concat (List.map (function SrData d -> d | _ -> []) rs) in
    let rec is_prefix a b = match a, b with [], _ -> true | x :: a', y :: b' -> x = y && is_prefix a' b' | _ -> false in
    Printf.sprintf "%s %s %s" id
      (if rs = [] then "-" else String.concat "," (List.map (function SrData d -> "d" ^ string_of_int (List.length d) | SrEof -> "eof" | SrErr -> "err") rs))
      (if is_prefix got all then "ok" else "BAD")
  | _ -> failwith ("bad sr case: " ^ line)


(* ---------- worker pool (C16) ---------- *)
(* case line: <id> <var> <nw> <run> <lprogs> <sprogs> <sched>
     var     o = original code | f = repaired flusher
     nw      number of workers (channel capacity 2*nw)
     run     1 = the state after New + the first Run | 0 = never run
     lprogs  - | lifecycle clients separated by '|', each a string over T (Stop) and R (Run)
     sprogs  - | sender clients separated by '|', each a comma-separated list of job numbers (or 'e' = no Send)
     sched   - | controller steps separated by '.', each <L|S|F|W><index>[!]  ('!' = the done branch of a select in
             which both branches are ready; lower-case letter = the controller expects the thread to block)
   output: <id> <ev>* ; end=<quiet|open|panic> log=<executions in order|-> acc=<jobs|-> chan=<jobs|-> def=<jobs|->
           flock=<0|1> live=<0|1> stranded=<0|1> panic=<kind|none> *)
let pl_ints (s : string) : nat list =
  if s = "e" || s = "-" then [] else List.map (fun x -> nat_of_int (int_of_string x)) (String.split_on_char ',' s)
let pl_sprogs (s : string) : nat list list =
  if s = "-" then [] else List.map pl_ints (String.split_on_char '|' s)
let pl_lprogs (s : string) : pl_lop list list =
  if s = "-" then [] else
    List.map (fun c -> if c = "e" then [] else
      List.init (String.length c) (fun i -> match c.[i] with 'T' -> PlStop | 'R' -> PlRun | _ -> failwith "bad lifecycle op"))
      (String.split_on_char '|' s)
let pl_lab_of (tok : string) : pl_tid * bool =
  let alt = String.length tok > 0 && tok.[String.length tok - 1] = '!' in
  let body = if alt then String.sub tok 0 (String.length tok - 1) else tok in
  let idx = nat_of_int (int_of_string (String.sub body 1 (String.length body - 1))) in
  ((match body.[0] with
    | 'L' | 'l' -> PtL idx | 'S' | 's' -> PtS idx | 'F' | 'f' -> PtF idx | 'W' | 'w' -> PtW idx
    | _ -> failwith ("bad pool thread " ^ tok)), alt)
let pl_sched (s : string) : (pl_tid * bool) list =
  if s = "-" then [] else List.map pl_lab_of (String.split_on_char '.' s)
let pl_string_of_tid = function
  | PtL i -> "L" ^ string_of_int (int_of_nat i) | PtS i -> "S" ^ string_of_int (int_of_nat i)
  | PtF i -> "F" ^ string_of_int (int_of_nat i) | PtW i -> "W" ^ string_of_int (int_of_nat i)
let pl_string_of_lab ((t, alt) : pl_tid * bool) : string = pl_string_of_tid t ^ (if alt then "!" else "")
let pl_string_of_point = function
  | PpSendEnter -> "wpool.send.enter" | PpSendBeforeSelect -> "wpool.send.beforeSelect"
  | PpLazyEnter -> "wpool.lazy.enter" | PpLazyFail -> "wpool.lazy.afterTryLockFail"
  | PpStopEnter -> "wpool.stop.enter" | PpStopNotRunning -> "wpool.stop.notRunning"
  | PpStopAfterCancel -> "wpool.stop.afterCancel" | PpStopAfterSendWait -> "wpool.stop.afterSendWait"
  | PpStopBeforeClose -> "wpool.stop.beforeClose" | PpRunEnter -> "wpool.run.enter"
  | PpRunAfterTryLock -> "wpool.run.afterTryLock" | PpRunAfterCtx -> "wpool.run.afterCtx" | PpFlLoop -> "wpool.flusher.loop"
  | PpFlAfterPop -> "wpool.flusher.afterPop" | PpFlAfterPopNil -> "wpool.flusher.afterPopNil"
  | PpFlBeforeExit -> "wpool.flusher.beforeExit" | PpWkStart -> "wpool.worker.start"
  | PpWkBegin -> "wpool.exec.begin" | PpWkEnd -> "wpool.exec.end"
let pl_string_of_ev ((t, o) : pl_tid * pl_obs) : string =
  match o with
  | PoAt p -> pl_string_of_tid t ^ "@" ^ pl_string_of_point p
  | PoBlocked -> pl_string_of_tid t ^ ":blocked"
  | PoDone -> pl_string_of_tid t ^ ":done"
  | PoNone -> pl_string_of_tid t ^ ":none"
let pl_string_of_pk = function
  | PkNilCtx -> "nil-ctx" | PkNilCancel -> "nil-cancel" | PkCloseClosed -> "close-closed" | PkCloseNil -> "close-nil"
  | PkSendClosed -> "send-closed" | PkRecvClosed -> "recv-closed" | PkUnlock -> "unlock-unlocked"
  | PkOutOfModel -> "out-of-model"
let pl_jobs (l : nat list) : string =
  if l = [] then "-" else String.concat "," (List.map (fun j -> string_of_int (int_of_nat j)) l)
let pl_setup (var : string) (nw : string) (run : string) (lp : string) (sp : string) =
  let p = pl_mkpar (match var with "o" -> false | "f" -> true | _ -> failwith ("bad pool variant " ^ var))
            (nat_of_int (int_of_string nw)) in
  (p, pl_init p (run = "1") (pl_lprogs lp) (pl_sprogs sp))
let pool_case (line : string) : string =
  match split_ws line with
  | [id; var; nw; run; lp; sp; sc] ->
    let (p, s0) = pl_setup var nw run lp sp in
    let (evs, s) = pl_trace p (pl_sched sc) s0 [] in
    let (log, (acc, (chan, (def, (flock, pk))))) = pl_outcome s in
    let init = List.filter (fun (t, _) -> match t with PtL _ | PtS _ -> true | _ -> false) (pl_initial_obs s0) in
    Printf.sprintf "%s %s ; end=%s log=%s acc=%s chan=%s def=%s flock=%d live=%d stranded=%d panic=%s" id
      (String.concat " " (List.map pl_string_of_ev (init @ evs)))
      (match pk with Some _ -> "panic" | None -> if pl_quiet p s then "quiet" else "open")
      (pl_jobs log) (pl_jobs (List.sort compare acc)) (pl_jobs chan) (pl_jobs def)
      (if flock then 1 else 0) (if pl_is_live s then 1 else 0) (if pl_stranded s then 1 else 0)
      (match pk with Some k -> pl_string_of_pk k | None -> "none")
  | _ -> failwith ("bad pool case: " ^ line)

(* enumeration line: <id> <var> <nw> <run> <lprogs> <sprogs> <all|eager> <probes> <fuel>
   prints one pool case line per complete controller schedule *)
let pool_enum_case (line : string) : string =
  match split_ws line with
  | [id; var; nw; run; lp; sp; mode; probes; fuel] ->
    let (p, s0) = pl_setup var nw run lp sp in
    let l = pl_enum p (mode = "eager") (nat_of_int (int_of_string fuel)) (nat_of_int (int_of_string probes)) s0 [] in
    String.concat "\n" (List.mapi (fun i sc ->
      Printf.sprintf "%s.%d %s %s %s %s %s %s" id i var nw run lp sp
        (if sc = [] then "-" else String.concat "." (List.map pl_string_of_lab sc))) l)
  | _ -> failwith ("bad pool-enum case: " ^ line)



let () =
  let cmd = Sys.argv.(1) in
  let lines = read_lines Sys.argv.(2) in
  if cmd = "dirs" then (dirs_run lines; exit 0);
  (* "hist": the use-case model behind the client layer (a handle that ended refuses writes itself);
     "hist-uc": the use-case model alone (what the server does with a late write: finding D7 before its repair) *)
  if cmd = "hist" then (hist_run m_init cstep (fun m -> List.map snd m.m_cont) lines; exit 0);
  if cmd = "hist-uc" then (hist_run m_init mstep (fun m -> List.map snd m.m_cont) lines; exit 0);
  if cmd = "hist-spec" then
    (hist_run a_init astep
       (fun a -> List.concat_map (fun (_, l) -> List.filter_map (fun e -> e.a_val) l) a.a_vers) lines; exit 0);
  if cmd = "hist-kv" then
    (hist_run [] kvstep (fun s -> List.filter_map snd s) lines; exit 0);
  if cmd = "hist-h" then begin
    (* per case: does hypothesis H (no late writes) hold; is it autocommit-only *)
    let cur = ref [] and id = ref "" in
    let flush () =
      if !id <> "" then begin
        let ops = List.rev !cur in
        Printf.printf "%s H=%b auto=%b\n" !id (no_late_writes ops) (autocommit_only ops)
      end in
    List.iter (fun l ->
      match split_ws l with
      | "case" :: i :: _ -> id := i; cur := []
      | "end" :: _ -> flush (); id := ""
      | t -> (match op_of_tokens t with Some o -> cur := o :: !cur | None -> ())) lines;
    exit 0 end;
  let f =
    match cmd with
    | "vlist" -> vlist_case vrun
    | "vlist-spec" -> vlist_case vrun_spec
    | "codec" -> codec_case
    | "faults" -> faults_case
    | "config" -> config_case
    | "errmap" -> errmap_case
    | "rw" -> rw_case
    | "rw-enum" -> rw_enum_case
    | "sw" -> sw_case
    | "sr" -> sr_case
    | "pool" -> pool_case
    | "pool-enum" -> pool_enum_case
    | _ -> failwith ("unknown command " ^ cmd)
  in
  List.iter (fun l -> if String.trim l <> "" && l.[0] <> '#' then print_endline (f l)) lines
