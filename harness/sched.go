package main

// sched.go — generic schedule-replay controller.
//
// A Controller runs a fixed set of named threads (goroutines executing Go
// closures) and lets the caller decide, step by step, which thread runs from
// one pause point to the next.  Pause points are the `verifhook.At("name")`
// calls compiled into the code under test (build tag `verif`) plus explicit
// `th.At("name")` calls in harness code.  Nothing in this file knows about any
// particular property; it is shared by all schedule-replay commands.
//
// API
//
//	type EventKind int                       // EvAt | EvDone | EvBlocked
//	type Event struct {
//		Thread string                        // thread name
//		Kind   EventKind
//		Point  string                        // EvAt: the pause point reached
//		Result string                        // EvDone: value returned by the body
//	}
//	func (e Event) String() string           // "W@rw.write.enter" | "W:done" | "R:blocked"
//
//	type SchedStep struct { Name string; ExpectBlock bool }
//
//	type SchedOpts struct {
//		Quiet        time.Duration           // wait before "blocked" when a block is expected (300ms)
//		Arrive       time.Duration           // wait before "blocked" when progress is expected (5s)
//		Global       time.Duration           // budget of Drain (3s)
//		FastBlock    bool                    // detect blocking from goroutine wait states (true)
//		FastInterval time.Duration           // poll period of the wait state (1ms)
//		FastPolls    int                     // consecutive blocked polls required (4)
//		FastHold     time.Duration           // extra: blocked continuously this long when progress was expected (50ms)
//	}
//	func DefaultSchedOpts() SchedOpts
//
//	func NewController(o SchedOpts) *Controller       // also installs the global pause handler (once)
//	func (c *Controller) Thread(name string, body func(th *Thread) string) *Thread
//	func (c *Controller) Start() []Event               // launch threads in registration order, each to its first event
//	func (c *Controller) Step(name string, expectBlock bool) Event
//	func (c *Controller) Run(schedule []SchedStep) []Event
//	func (c *Controller) Drain() (finished bool, stuck []string)
//	func (c *Controller) AllDone() bool
//	func (c *Controller) Where(name string) string     // "W@point" | "W:inflight" | "W:blocked" | "W:done" (no waiting)
//	func (c *Controller) Result(name string) (string, bool)  // body result once the thread is done
//	func (c *Controller) Trace() []Event               // every event returned so far (Start, Step/Run, Drain)
//	func (c *Controller) Abandon()                     // give up: threads never pause again, parked ones are released
//
//	func (th *Thread) Name() string
//	func (th *Thread) At(point string)                 // pause point in harness code (call it on the thread's own goroutine)
//
//	func schedAt(point string)                         // the global handler given to verifapi.SetHandlers
//	var  schedBlockedStates map[string]bool            // goroutine wait states that count as blocked
//
// Semantics
//
//   - Each thread registers its goroutine id in a process-wide registry before
//     running its body.  The global handler looks up the calling goroutine;
//     goroutines that belong to no controller (including goroutines spawned BY a
//     thread body) never pause.  Several controllers may run concurrently.
//   - A thread is atPoint(p), inFlight (released, possibly blocked in a Go
//     primitive) or done(result).  A thread reaching a pause point posts the
//     arrival event to its own queue FIRST and then parks until released.
//   - Step(name, expectBlock): if the thread is atPoint it is released; then the
//     next event of THAT thread is awaited: arrival ("name@point"), finish
//     ("name:done") or "name:blocked".  If the thread was already inFlight (it
//     blocked earlier) nothing is released, Step just waits for its next event
//     again.  Events are queued per thread: a thread that moves by itself while
//     another one is being stepped (e.g. a woken cond waiter) has its arrival
//     waiting in its queue and stays parked at that point; the Step that consumes
//     the arrival returns it, and only a later Step releases it.  Step on a thread
//     that is done returns its done event again.
//   - "blocked" is reported (state stays inFlight) when
//     (1) no event arrived within Quiet (expectBlock) or Arrive (!expectBlock), or
//     (2) FastBlock: the thread's goroutine (header "goroutine N [state...]:" of
//     runtime.Stack(all)) is in a blocked wait state on FastPolls consecutive
//     polls FastInterval apart and, when !expectBlock, continuously for at least
//     FastHold (sampled every 5*FastInterval).  One stack dump is shared by all
//     controllers polling within FastInterval/2, and only samples taken after
//     the Step began are used.  The event queue is always consulted once more before "blocked"
//     is returned, so a thread parked inside our own handler (wait state
//     "select") is never mistaken for blocked: its arrival was posted before it
//     parked.
//   - Drain(): round-robin Step over the unfinished threads (each step limited
//     to Quiet and to what is left of Global) until all are done (finished=true),
//     the Global budget is spent, or — FastBlock only — a full round released
//     nobody and every unfinished thread was found blocked by its wait state
//     (a deadlock).  stuck describes the unfinished threads:
//     "W:blocked(after rw.close.beforeWait)", "R@rw.read.enter".
//   - Goroutines of a deadlocked case cannot be killed; Abandon() unregisters
//     them so they never pause again and releases those that are parked.  What
//     they do afterwards is the caller's business (leaking them is fine).
//   - A Controller's methods must be called from one goroutine at a time.
//
// Wait states observed with go1.23.5: "sync.Cond.Wait", "sync.Mutex.Lock",
// "sync.RWMutex.Lock", "sync.RWMutex.RLock", "semacquire" (this is what
// sync.WaitGroup.Wait shows; later Go versions print "sync.WaitGroup.Wait"),
// "chan receive", "chan send", "select", "select (no cases)", "IO wait",
// "sleep" (NOT counted as blocked), optionally followed by ", N minutes" and/or
// ", locked to thread".

import (
	"bytes"
	"fmt"
	"runtime"
	"strconv"
	"sync"
	"sync/atomic"
	"time"

	"github.com/glebziz/fs_db/pkg/verifapi"
)

// EventKind tells what a thread did.
type EventKind int

const (
	EvAt      EventKind = iota // reached a pause point
	EvDone                     // body returned
	EvBlocked                  // released (or still in flight) and not moving
)

// Event is one observation of one thread.
type Event struct {
	Thread string
	Kind   EventKind
	Point  string
	Result string
}

func (e Event) String() string {
	switch e.Kind {
	case EvAt:
		return e.Thread + "@" + e.Point
	case EvDone:
		return e.Thread + ":done"
	default:
		return e.Thread + ":blocked"
	}
}

// SchedStep is one element of a schedule.
type SchedStep struct {
	Name        string
	ExpectBlock bool
}

// SchedOpts are the timing parameters of a controller.
type SchedOpts struct {
	Quiet        time.Duration
	Arrive       time.Duration
	Global       time.Duration
	FastBlock    bool
	FastInterval time.Duration
	FastPolls    int
	FastHold     time.Duration
}

// DefaultSchedOpts returns the default parameters.
func DefaultSchedOpts() SchedOpts {
	return SchedOpts{
		Quiet:        300 * time.Millisecond,
		Arrive:       5 * time.Second,
		Global:       3 * time.Second,
		FastBlock:    true,
		FastInterval: time.Millisecond,
		FastPolls:    4,
		FastHold:     50 * time.Millisecond,
	}
}

// schedBlockedStates are the goroutine wait states (text between the brackets of
// a stack-dump header, cut at the first comma) that count as blocked.
var schedBlockedStates = map[string]bool{
	"sync.Cond.Wait":          true,
	"sync.Mutex.Lock":         true,
	"sync.RWMutex.Lock":       true,
	"sync.RWMutex.RLock":      true,
	"sync.WaitGroup.Wait":     true,
	"semacquire":              true,
	"chan receive":            true,
	"chan receive (nil chan)": true,
	"chan send":               true,
	"chan send (nil chan)":    true,
	"select":                  true,
	"select (no cases)":       true,
	"IO wait":                 true,
}

type threadState int

const (
	tsNew threadState = iota
	tsAtPoint
	tsInFlight
	tsDone
)

// Thread is one controlled goroutine.
type Thread struct {
	name string
	ctl  *Controller
	body func(th *Thread) string

	goid      atomic.Int64
	events    chan Event
	release   chan struct{}
	gone      chan struct{}
	abandoned atomic.Bool

	// owned by the goroutine driving the controller
	state           threadState
	point           string // atPoint: where; inFlight: the point it was released from ("" = start)
	reportedBlocked bool
	blockedByState  bool // the last "blocked" came from the wait state, not from a timeout
	result          string
}

// Name returns the thread's name.
func (th *Thread) Name() string { return th.name }

// At is a pause point: post the arrival, then park until released (or abandoned).
func (th *Thread) At(point string) {
	if th.abandoned.Load() {
		return
	}
	th.events <- Event{Thread: th.name, Kind: EvAt, Point: point}
	select {
	case <-th.release:
	case <-th.gone:
	}
}

// Controller replays schedules over its threads.
type Controller struct {
	opts    SchedOpts
	threads []*Thread
	byName  map[string]*Thread
	trace   []Event
	started bool
}

var (
	schedRegistry sync.Map // goroutine id (int64) -> *Thread
	schedInstall  sync.Once
)

// schedAt is the process-wide pause handler.
func schedAt(point string) {
	v, ok := schedRegistry.Load(curGoid())
	if !ok {
		return
	}
	v.(*Thread).At(point)
}

// curGoid parses "goroutine N [" from the current goroutine's stack header.
func curGoid() int64 {
	var b [40]byte
	n := runtime.Stack(b[:], false)
	s := b[:n]
	s = bytes.TrimPrefix(s, []byte("goroutine "))
	if i := bytes.IndexByte(s, ' '); i >= 0 {
		s = s[:i]
	}
	id, err := strconv.ParseInt(string(s), 10, 64)
	if err != nil {
		return -1
	}
	return id
}

// NewController returns an empty controller; zero fields of o take their defaults
// (FastBlock is taken as given).
func NewController(o SchedOpts) *Controller {
	d := DefaultSchedOpts()
	if o.Quiet <= 0 {
		o.Quiet = d.Quiet
	}
	if o.Arrive <= 0 {
		o.Arrive = d.Arrive
	}
	if o.Global <= 0 {
		o.Global = d.Global
	}
	if o.FastInterval <= 0 {
		o.FastInterval = d.FastInterval
	}
	if o.FastPolls <= 0 {
		o.FastPolls = d.FastPolls
	}
	if o.FastHold <= 0 {
		o.FastHold = d.FastHold
	}
	schedInstall.Do(func() { verifapi.SetHandlers(schedAt, nil) })
	return &Controller{opts: o, byName: map[string]*Thread{}}
}

// Thread registers a thread; it is launched by Start.
func (c *Controller) Thread(name string, body func(th *Thread) string) *Thread {
	if c.started {
		panic("sched: Thread after Start")
	}
	if _, dup := c.byName[name]; dup {
		panic("sched: duplicate thread " + name)
	}
	th := &Thread{
		name:    name,
		ctl:     c,
		body:    body,
		events:  make(chan Event, 4),
		release: make(chan struct{}, 1),
		gone:    make(chan struct{}),
	}
	c.threads = append(c.threads, th)
	c.byName[name] = th
	return th
}

func (th *Thread) run() {
	id := curGoid()
	th.goid.Store(id)
	schedRegistry.Store(id, th)
	res := ""
	func() {
		defer func() {
			if r := recover(); r != nil {
				res = "PANIC: " + fmt.Sprint(r)
			}
		}()
		res = th.body(th)
	}()
	schedRegistry.Delete(id)
	select {
	case th.events <- Event{Thread: th.name, Kind: EvDone, Result: res}:
	default: // abandoned and nobody listens
	}
}

// Start launches the threads in registration order, each until its first event.
func (c *Controller) Start() []Event {
	if c.started {
		panic("sched: Start twice")
	}
	c.started = true
	evs := make([]Event, 0, len(c.threads))
	for _, th := range c.threads {
		th.state = tsInFlight
		go th.run()
		evs = append(evs, c.await(th, c.opts.Arrive, c.opts.FastHold))
	}
	return evs
}

// Step releases the thread if it sits at a pause point and returns its next event.
func (c *Controller) Step(name string, expectBlock bool) Event {
	th := c.byName[name]
	if th == nil {
		panic("sched: unknown thread " + name)
	}
	if expectBlock {
		return c.step(th, c.opts.Quiet, 0)
	}
	return c.step(th, c.opts.Arrive, c.opts.FastHold)
}

func (c *Controller) step(th *Thread, limit, hold time.Duration) Event {
	switch th.state {
	case tsNew:
		panic("sched: Step before Start")
	case tsDone:
		ev := Event{Thread: th.name, Kind: EvDone, Result: th.result}
		c.trace = append(c.trace, ev)
		return ev
	case tsAtPoint:
		th.state = tsInFlight
		th.reportedBlocked = false
		th.release <- struct{}{}
	}
	return c.await(th, limit, hold)
}

// await waits for the next event of th: at most limit, or less when the wait
// state of its goroutine says it is blocked (FastPolls consecutive polls and
// continuously for hold).  Polls are FastInterval apart until the streak has
// FastPolls samples, then (while waiting for hold to elapse) 5x sparser.
func (c *Controller) await(th *Thread, limit, hold time.Duration) Event {
	select {
	case ev := <-th.events:
		return c.got(th, ev)
	default:
	}
	begin := time.Now()
	timer := time.NewTimer(limit)
	defer timer.Stop()
	var poll *time.Timer
	var tick <-chan time.Time
	if c.opts.FastBlock {
		poll = time.NewTimer(c.opts.FastInterval)
		defer poll.Stop()
		tick = poll.C
	}
	streak := 0
	var since time.Time
	for {
		select {
		case ev := <-th.events:
			return c.got(th, ev)
		case <-timer.C:
			return c.blocked(th, false)
		case <-tick:
			st, at := schedGoroutineState(th.goid.Load(), begin, c.opts.FastInterval/2)
			next := c.opts.FastInterval
			if !schedBlockedStates[st] {
				streak = 0
			} else {
				if streak == 0 {
					since = at
				}
				streak++
				if streak >= c.opts.FastPolls {
					left := hold - at.Sub(since)
					if left <= 0 {
						return c.blocked(th, true)
					}
					next = 5 * c.opts.FastInterval
					if left < next {
						next = left
					}
				}
			}
			poll.Reset(next)
		}
	}
}

// blocked consults the queue one last time (the thread may be parked in our own
// handler, its arrival already posted) and then reports "blocked".
func (c *Controller) blocked(th *Thread, byState bool) Event {
	select {
	case ev := <-th.events:
		return c.got(th, ev)
	default:
	}
	th.reportedBlocked = true
	th.blockedByState = byState
	ev := Event{Thread: th.name, Kind: EvBlocked}
	c.trace = append(c.trace, ev)
	return ev
}

func (c *Controller) got(th *Thread, ev Event) Event {
	th.reportedBlocked = false
	switch ev.Kind {
	case EvAt:
		th.state = tsAtPoint
		th.point = ev.Point
	case EvDone:
		th.state = tsDone
		th.result = ev.Result
	}
	c.trace = append(c.trace, ev)
	return ev
}

// schedSampler caches the wait states of all goroutines (one stop-the-world
// stack dump serves every controller polling at about the same time).
var schedSampler struct {
	mu     sync.Mutex
	at     time.Time
	states map[int64]string
	buf    []byte
}

// schedGoroutineState returns the wait state of goroutine id ("" when it does
// not exist), cut at the first comma, and the time of the sample it comes from.
// A cached sample is reused only if it was taken after notBefore and is younger
// than maxAge.
func schedGoroutineState(id int64, notBefore time.Time, maxAge time.Duration) (string, time.Time) {
	sm := &schedSampler
	sm.mu.Lock()
	defer sm.mu.Unlock()
	if sm.states == nil || !sm.at.After(notBefore) || time.Since(sm.at) > maxAge {
		if sm.buf == nil {
			sm.buf = make([]byte, 64<<10)
		}
		var dump []byte
		for {
			n := runtime.Stack(sm.buf, true)
			if n < len(sm.buf) {
				dump = sm.buf[:n]
				break
			}
			sm.buf = make([]byte, 2*len(sm.buf))
		}
		sm.at = time.Now()
		sm.states = schedParseStates(dump)
	}
	return sm.states[id], sm.at
}

// schedParseStates extracts id -> state from the "goroutine N [state, ...]:"
// headers of a dump of all goroutines (records are separated by blank lines).
func schedParseStates(dump []byte) map[int64]string {
	states := map[int64]string{}
	hdr := []byte("goroutine ")
	for len(dump) > 0 {
		rec := dump
		if i := bytes.Index(dump, []byte("\n\n")); i >= 0 {
			rec, dump = dump[:i], dump[i+2:]
		} else {
			dump = nil
		}
		if !bytes.HasPrefix(rec, hdr) {
			continue
		}
		rec = rec[len(hdr):]
		sp := bytes.IndexByte(rec, ' ')
		if sp < 0 || sp+1 >= len(rec) || rec[sp+1] != '[' {
			continue
		}
		id, err := strconv.ParseInt(string(rec[:sp]), 10, 64)
		if err != nil {
			continue
		}
		st := rec[sp+2:]
		j := bytes.IndexByte(st, ']')
		if j < 0 {
			continue
		}
		st = st[:j]
		if k := bytes.IndexByte(st, ','); k >= 0 {
			st = st[:k]
		}
		states[id] = string(st)
	}
	return states
}

// Run performs the schedule and returns one event per step.
func (c *Controller) Run(schedule []SchedStep) []Event {
	evs := make([]Event, 0, len(schedule))
	for _, s := range schedule {
		evs = append(evs, c.Step(s.Name, s.ExpectBlock))
	}
	return evs
}

// AllDone tells whether every thread has finished.
func (c *Controller) AllDone() bool {
	for _, th := range c.threads {
		if th.state != tsDone {
			return false
		}
	}
	return true
}

// Drain lets the remaining threads run to completion, round-robin.
func (c *Controller) Drain() (finished bool, stuck []string) {
	deadline := time.Now().Add(c.opts.Global)
	for {
		if c.AllDone() {
			return true, nil
		}
		released, progressed, allByState := false, false, true
		for _, th := range c.threads {
			if th.state == tsDone {
				continue
			}
			left := time.Until(deadline)
			if left <= 0 {
				return false, c.stuck()
			}
			if th.state == tsAtPoint {
				released = true
			}
			limit := c.opts.Quiet
			if left < limit {
				limit = left
			}
			hold := c.opts.FastHold
			if th.state == tsInFlight && th.reportedBlocked {
				hold = 0 // already found blocked: a confirmation is enough
			}
			ev := c.step(th, limit, hold)
			if ev.Kind != EvBlocked {
				progressed = true
			} else if !th.blockedByState {
				allByState = false
			}
		}
		if c.opts.FastBlock && !released && !progressed && allByState {
			return false, c.stuck()
		}
	}
}

func (c *Controller) stuck() []string {
	var out []string
	for _, th := range c.threads {
		switch th.state {
		case tsAtPoint:
			out = append(out, th.name+"@"+th.point)
		case tsInFlight, tsNew:
			after := th.point
			if after == "" {
				after = "start"
			}
			what := "inflight"
			if th.reportedBlocked {
				what = "blocked"
			}
			out = append(out, th.name+":"+what+"(after "+after+")")
		}
	}
	return out
}

// Where tells, without waiting, what the controller knows about a thread:
// "W@point", "W:inflight" (released, nothing heard since), "W:blocked"
// (in flight and last reported blocked) or "W:done".
func (c *Controller) Where(name string) string {
	th := c.byName[name]
	switch {
	case th == nil:
		return name + ":unknown"
	case th.state == tsAtPoint:
		return name + "@" + th.point
	case th.state == tsDone:
		return name + ":done"
	case th.reportedBlocked:
		return name + ":blocked"
	}
	return name + ":inflight"
}

// Result returns the body's result once the thread is done.
func (c *Controller) Result(name string) (string, bool) {
	th := c.byName[name]
	if th == nil || th.state != tsDone {
		return "", false
	}
	return th.result, true
}

// Trace returns every event observed so far.
func (c *Controller) Trace() []Event { return append([]Event(nil), c.trace...) }

// Abandon gives the threads up: they never pause again, parked ones are released.
func (c *Controller) Abandon() {
	for _, th := range c.threads {
		if th.abandoned.Swap(true) {
			continue
		}
		close(th.gone)
		if id := th.goid.Load(); id > 0 {
			schedRegistry.Delete(id)
		}
	}
}
