package main

// lockskel: translator from the Go source of internal/usecase/core to the lock/effect skeleton of its
// operations, printed as Coq data (coq/LockSkelGen.v).
//
//	fsdbh gen-lockskel <repo root>
//
// For every exported method of UseCase the translator enumerates the paths through the body (both arms
// of every if/switch, every loop zero or one time, defers run last-in-first-out at every return, methods
// of the same package and function literals passed to RunTransaction inlined) and records, in execution
// order, the events that matter for the locking discipline:
//
//	Acq l w / Rel l w   Lock/RLock/Unlock/RUnlock on a version store (l: LTx = the store named tx,
//	                    LNew = newTx/sTx, LAll = u.allStore; w = write mode)
//	Rd l / Wr l         reads (File, Files, Len, Latest, LastBefore, IterateBeforeSeq) and mutations
//	                    (PushBack, PopBack, PopFront; DeleteLink mutates the all-store's lists) of store l
//	SeqNext             sequence.Next()
//	KvSet, KvTxnBegin, KvTxnEnd   fileRepo.Set, fileRepo.RunTransaction
//	Unknown             something the translator cannot interpret (a lock on an unknown receiver, goto,
//	                    select, go ...): the Coq checker rejects the path
//
// Nothing here judges the code: the discipline is stated and checked in coq/LockSkel.v.

import (
	"fmt"
	"go/ast"
	"go/parser"
	"go/token"
	"os"
	"path/filepath"
	"sort"
	"strings"
)

func init() { commands["gen-lockskel"] = lockskelMain }

type skFrame struct {
	env    map[string]string // identifier -> lock name
	taint  map[string]string // identifier (a per-key list) -> lock name of its store
	params map[string]bool
	defers []*ast.DeferStmt
	recv   string // receiver name (monitor mode)
}

type skState struct {
	evs    []string
	frames []*skFrame
	ctl    int // 0 normal, 1 return, 2 break, 3 continue
}

func (s *skState) top() *skFrame { return s.frames[len(s.frames)-1] }

func (s *skState) clone() *skState {
	n := &skState{evs: append([]string(nil), s.evs...), ctl: s.ctl}
	for _, f := range s.frames {
		g := &skFrame{env: map[string]string{}, taint: map[string]string{}, params: f.params, defers: append([]*ast.DeferStmt(nil), f.defers...), recv: f.recv}
		for k, v := range f.env {
			g.env[k] = v
		}
		for k, v := range f.taint {
			g.taint[k] = v
		}
		n.frames = append(n.frames, g)
	}
	return n
}

type skx struct {
	funcs   map[string]*ast.FuncDecl
	fset    *token.FileSet
	depth   int
	blownUp bool
	mon     *skMon // nil: the use-case mode
}

// skMon: a "monitor" type - a struct with one mutex field that its own methods lock (LSelf)
type skMon struct {
	mutex string
	// fields some method assigns (or calls methods on): only these need the lock; a field set once by the
	// constructor and only read afterwards (roots, clearF) is immutable and may be read freely
	mutable map[string]bool
	// calls on a field that is itself safe for concurrent use: (field, method) -> "none" | "Rd" | "Wr"
	fieldCalls map[string]string
}

// recvField: e is <receiver>.<field> (possibly indexed / sliced) in monitor mode; returns the field name
func (x *skx) recvField(e ast.Expr, st *skState) string {
	if x.mon == nil {
		return ""
	}
	for {
		switch v := e.(type) {
		case *ast.IndexExpr:
			e = v.X
			continue
		case *ast.SliceExpr:
			e = v.X
			continue
		case *ast.ParenExpr:
			e = v.X
			continue
		case *ast.StarExpr:
			e = v.X
			continue
		}
		break
	}
	if sel, ok := e.(*ast.SelectorExpr); ok {
		if id, ok := sel.X.(*ast.Ident); ok && id.Name == st.top().recv && sel.Sel.Name != x.mon.mutex && x.mon.mutable[sel.Sel.Name] {
			return sel.Sel.Name
		}
	}
	return ""
}

var skNames = map[string]string{"tx": "LTx", "newTx": "LNew", "sTx": "LNew", "mainTx": "LNew"}

const skMaxStates = 60000

func exprStr(e ast.Expr) string {
	switch e := e.(type) {
	case *ast.Ident:
		return e.Name
	case *ast.SelectorExpr:
		return exprStr(e.X) + "." + e.Sel.Name
	case *ast.ParenExpr:
		return exprStr(e.X)
	case *ast.UnaryExpr:
		if e.Op == token.AND {
			return exprStr(e.X)
		}
	case *ast.StarExpr:
		return exprStr(e.X)
	case *ast.CallExpr:
		return exprStr(e.Fun) + "()"
	}
	return "?"
}

// lockOf: the store an expression denotes ("" if none)
func (x *skx) lockOf(e ast.Expr, st *skState) string {
	s := exprStr(e)
	if x.mon != nil {
		if s == st.top().recv+"."+x.mon.mutex {
			return "LSelf"
		}
		return ""
	}
	if s == "u.allStore" {
		return "LAll"
	}
	if id, ok := stripAddr(e).(*ast.Ident); ok {
		f := st.top()
		if l, ok := f.env[id.Name]; ok {
			return l
		}
		if f.params[id.Name] {
			return ""
		}
		return skNames[id.Name]
	}
	return ""
}

func stripAddr(e ast.Expr) ast.Expr {
	for {
		switch v := e.(type) {
		case *ast.ParenExpr:
			e = v.X
		case *ast.UnaryExpr:
			if v.Op != token.AND {
				return e
			}
			e = v.X
		default:
			return e
		}
	}
}

// ownerOf: the store whose per-key list an expression denotes ("" if none)
func (x *skx) ownerOf(e ast.Expr, st *skState) string {
	e = stripAddr(e)
	if id, ok := e.(*ast.Ident); ok {
		return st.top().taint[id.Name]
	}
	if c, ok := e.(*ast.CallExpr); ok {
		if sel, ok := c.Fun.(*ast.SelectorExpr); ok && sel.Sel.Name == "File" {
			return x.lockOf(sel.X, st)
		}
	}
	return ""
}

func each(sts []*skState, f func(*skState) []*skState) []*skState {
	var out []*skState
	for _, s := range sts {
		if s.ctl != 0 {
			out = append(out, s)
			continue
		}
		out = append(out, f(s)...)
	}
	return out
}

func (x *skx) emit(sts []*skState, ev string) []*skState {
	for _, s := range sts {
		if s.ctl == 0 {
			s.evs = append(s.evs, ev)
		}
	}
	return sts
}

func (x *skx) evalExprs(es []ast.Expr, sts []*skState) []*skState {
	for _, e := range es {
		sts = x.evalExpr(e, sts)
	}
	return sts
}

func (x *skx) evalExpr(e ast.Expr, sts []*skState) []*skState {
	switch e := e.(type) {
	case nil:
		return sts
	case *ast.CallExpr:
		switch f := e.Fun.(type) {
		case *ast.SelectorExpr:
			handled := false
			if x.mon != nil && len(sts) > 0 {
				if fld := x.recvField(f.X, sts[0]); fld != "" {
					if _, direct := f.X.(*ast.SelectorExpr); direct {
						switch x.mon.fieldCalls[fld+"."+f.Sel.Name] {
						case "none":
							handled = true
						case "Wr":
							handled = true
							sts = x.emit(sts, "Wr LSelf")
						}
					}
				}
			}
			if !handled {
				sts = x.evalExpr(f.X, sts)
			}
		case *ast.FuncLit:
		default:
			sts = x.evalExpr(e.Fun, sts)
		}
		for _, a := range e.Args {
			if _, isLit := a.(*ast.FuncLit); !isLit {
				sts = x.evalExpr(a, sts)
			}
		}
		return each(sts, func(s *skState) []*skState { return x.call(e, s) })
	case *ast.BinaryExpr:
		return x.evalExpr(e.Y, x.evalExpr(e.X, sts))
	case *ast.UnaryExpr:
		return x.evalExpr(e.X, sts)
	case *ast.ParenExpr:
		return x.evalExpr(e.X, sts)
	case *ast.StarExpr:
		return x.evalExpr(e.X, sts)
	case *ast.SelectorExpr:
		if len(sts) > 0 && x.recvField(e, sts[0]) != "" {
			return x.emit(sts, "Rd LSelf")
		}
		return x.evalExpr(e.X, sts)
	case *ast.IndexExpr:
		return x.evalExpr(e.Index, x.evalExpr(e.X, sts))
	case *ast.SliceExpr:
		return x.evalExprs([]ast.Expr{e.X, e.Low, e.High, e.Max}, sts)
	case *ast.CompositeLit:
		return x.evalExprs(e.Elts, sts)
	case *ast.KeyValueExpr:
		return x.evalExpr(e.Value, sts)
	case *ast.TypeAssertExpr:
		return x.evalExpr(e.X, sts)
	}
	return sts
}

func (x *skx) call(e *ast.CallExpr, s *skState) []*skState {
	one := []*skState{s}
	if lit, ok := e.Fun.(*ast.FuncLit); ok { // func(){...}()
		return x.execFunc(lit.Type, lit.Body, nil, e.Args, s, true)
	}
	if id, ok := e.Fun.(*ast.Ident); ok && (id.Name == "delete" || id.Name == "clear") && len(e.Args) > 0 {
		if x.recvField(e.Args[0], s) != "" {
			return x.emit(one, "Wr LSelf")
		}
		return one
	}
	sel, ok := e.Fun.(*ast.SelectorExpr)
	if !ok {
		return one
	}
	recv, m := exprStr(sel.X), sel.Sel.Name
	if x.mon != nil {
		switch m {
		case "Lock", "RLock", "Unlock", "RUnlock":
			if x.lockOf(sel.X, s) == "LSelf" {
				kind, w := "Acq", "true"
				if m == "Unlock" || m == "RUnlock" {
					kind = "Rel"
				}
				if m == "RLock" || m == "RUnlock" {
					w = "false"
				}
				return x.emit(one, kind+" LSelf "+w)
			}
			return one
		}
		if recv == s.top().recv {
			if fd, ok := x.funcs[m]; ok {
				return x.execFunc(fd.Type, fd.Body, fd, e.Args, s, false)
			}
		}
		return one
	}
	switch m {
	case "Lock", "RLock", "Unlock", "RUnlock":
		l := x.lockOf(sel.X, s)
		if l == "" {
			return x.emit(one, "Unknown (* "+m+" on "+recv+" *)")
		}
		kind, w := "Acq", "true"
		if m == "Unlock" || m == "RUnlock" {
			kind = "Rel"
		}
		if m == "RLock" || m == "RUnlock" {
			w = "false"
		}
		return x.emit(one, kind+" "+l+" "+w)
	case "PushBack", "PushFront":
		if l := x.lockOf(sel.X, s); l != "" {
			return x.emit(one, "Wr "+l)
		}
		if l := x.ownerOf(sel.X, s); l != "" {
			return x.emit(one, "Wr "+l)
		}
	case "File", "Files", "Len":
		if l := x.lockOf(sel.X, s); l != "" {
			return x.emit(one, "Rd "+l)
		}
	case "PopBack", "PopFront":
		if l := x.ownerOf(sel.X, s); l != "" {
			return x.emit(one, "Wr "+l)
		}
	case "Latest", "LastBefore", "IterateBeforeSeq", "IsEmpty":
		if l := x.ownerOf(sel.X, s); l != "" {
			return x.emit(one, "Rd "+l)
		}
	case "DeleteLink":
		return x.emit(one, "Wr LAll")
	case "Next":
		if recv == "sequence" {
			return x.emit(one, "SeqNext")
		}
	case "Set":
		if recv == "u.fileRepo" {
			return x.emit(one, "KvSet")
		}
	case "RunTransaction":
		if recv == "u.fileRepo" {
			sts := x.emit(one, "KvTxnBegin")
			for _, a := range e.Args {
				if lit, ok := a.(*ast.FuncLit); ok {
					sts = each(sts, func(t *skState) []*skState { return x.execFunc(lit.Type, lit.Body, nil, nil, t, true) })
				}
			}
			return x.emit(sts, "KvTxnEnd")
		}
	}
	if recv == "u" || recv == "UseCase" {
		if fd, ok := x.funcs[m]; ok {
			return x.execFunc(fd.Type, fd.Body, fd, e.Args, s, false)
		}
	}
	return one
}

// execFunc runs a body in a new frame (closure=true: the frame shares the caller's names)
func (x *skx) execFunc(ft *ast.FuncType, body *ast.BlockStmt, fd *ast.FuncDecl, args []ast.Expr, s *skState, closure bool) []*skState {
	if x.depth > 8 {
		return x.emit([]*skState{s}, "Unknown (* inlining depth *)")
	}
	x.depth++
	defer func() { x.depth-- }()
	fr := &skFrame{env: map[string]string{}, taint: map[string]string{}, params: map[string]bool{}}
	if closure && len(s.frames) > 0 {
		for k, v := range s.top().env {
			fr.env[k] = v
		}
		for k, v := range s.top().taint {
			fr.taint[k] = v
		}
		fr.params = s.top().params
	} else if ft != nil && ft.Params != nil {
		i := 0
		for _, fld := range ft.Params.List {
			for _, nm := range fld.Names {
				fr.params[nm.Name] = true
				if i < len(args) && len(s.frames) > 0 {
					if l := x.lockOf(args[i], s); l != "" {
						fr.env[nm.Name] = l
					} else if l := x.ownerOf(args[i], s); l != "" {
						fr.taint[nm.Name] = l
					}
				}
				i++
			}
		}
		if len(s.frames) == 0 { // a top-level operation: its store parameters/locals go by name
			fr.params = map[string]bool{}
		}
	}
	if closure && len(s.frames) > 0 {
		fr.recv = s.top().recv
	} else if fd != nil && fd.Recv != nil && len(fd.Recv.List) > 0 && len(fd.Recv.List[0].Names) > 0 {
		fr.recv = fd.Recv.List[0].Names[0].Name
	}
	s.frames = append(s.frames, fr)
	sts := x.execBlock(body.List, []*skState{s})
	var out []*skState
	for _, t := range sts {
		if t.ctl == 2 || t.ctl == 3 {
			t.evs = append(t.evs, "Unknown (* break/continue outside a loop *)")
		}
		out = append(out, x.unwind(t, closure)...)
	}
	return out
}

func (x *skx) unwind(s *skState, closure bool) []*skState {
	fr := s.top()
	if len(fr.defers) == 0 {
		if closure && len(s.frames) > 1 { // names assigned inside the closure stay visible
			up := s.frames[len(s.frames)-2]
			for k, v := range fr.taint {
				up.taint[k] = v
			}
		}
		s.frames = s.frames[:len(s.frames)-1]
		s.ctl = 0
		return []*skState{s}
	}
	d := fr.defers[len(fr.defers)-1]
	fr.defers = fr.defers[:len(fr.defers)-1]
	s.ctl = 0
	var sts []*skState
	if lit, ok := d.Call.Fun.(*ast.FuncLit); ok {
		sts = x.execFunc(lit.Type, lit.Body, nil, nil, s, true)
	} else {
		sts = x.evalExpr(d.Call, []*skState{s})
	}
	var out []*skState
	for _, t := range sts {
		out = append(out, x.unwind(t, closure)...)
	}
	return out
}

func (x *skx) execBlock(stmts []ast.Stmt, sts []*skState) []*skState {
	for _, st := range stmts {
		if len(sts) > skMaxStates {
			x.blownUp = true
			return sts[:1]
		}
		sts = each(sts, func(s *skState) []*skState { return x.execStmt(st, s) })
	}
	return sts
}

func (x *skx) fork(s *skState, arms ...func(*skState) []*skState) []*skState {
	var out []*skState
	for i, a := range arms {
		t := s
		if i < len(arms)-1 {
			t = s.clone()
		}
		out = append(out, a(t)...)
	}
	return out
}

func (x *skx) loop(s *skState, pre func([]*skState) []*skState, body *ast.BlockStmt, post ast.Stmt) []*skState {
	return x.fork(s,
		func(t *skState) []*skState { return []*skState{t} },
		func(t *skState) []*skState {
			sts := pre([]*skState{t})
			sts = x.execBlock(body.List, sts)
			for _, r := range sts {
				if r.ctl == 2 || r.ctl == 3 {
					r.ctl = 0
				}
			}
			if post != nil {
				sts = each(sts, func(r *skState) []*skState { return x.execStmt(post, r) })
			}
			return sts
		})
}

func (x *skx) execStmt(st ast.Stmt, s *skState) []*skState {
	one := []*skState{s}
	switch st := st.(type) {
	case nil, *ast.EmptyStmt:
		return one
	case *ast.IncDecStmt:
		if x.recvField(st.X, s) != "" {
			if ix, ok := st.X.(*ast.IndexExpr); ok {
				one = x.evalExpr(ix.Index, one)
			}
			return x.emit(one, "Wr LSelf")
		}
		return one
	case *ast.ExprStmt:
		return x.evalExpr(st.X, one)
	case *ast.AssignStmt:
		sts := x.evalExprs(st.Rhs, one)
		if x.mon != nil {
			for _, l := range st.Lhs {
				if ix, ok := l.(*ast.IndexExpr); ok {
					sts = x.evalExpr(ix.Index, sts)
				}
				if len(sts) > 0 && x.recvField(l, sts[0]) != "" {
					sts = x.emit(sts, "Wr LSelf")
				}
			}
			return sts
		}
		if len(st.Lhs) == len(st.Rhs) {
			for i := range st.Lhs {
				id, ok := st.Lhs[i].(*ast.Ident)
				if !ok {
					continue
				}
				for _, t := range sts {
					if t.ctl != 0 {
						continue
					}
					if c, ok := st.Rhs[i].(*ast.CallExpr); ok {
						if sel, ok := c.Fun.(*ast.SelectorExpr); ok && (sel.Sel.Name == "File" || sel.Sel.Name == "Files") {
							if l := x.lockOf(sel.X, t); l != "" {
								// File(k): a per-key list of store l; Files(): the store's live map of them
								if sel.Sel.Name == "Files" {
									t.top().taint["map:"+id.Name] = l
								} else {
									t.top().taint[id.Name] = l
								}
								continue
							}
						}
					}
					delete(t.top().taint, id.Name)
					delete(t.top().taint, "map:"+id.Name)
				}
			}
		}
		return sts
	case *ast.DeclStmt:
		if gd, ok := st.Decl.(*ast.GenDecl); ok {
			sts := one
			for _, sp := range gd.Specs {
				if vs, ok := sp.(*ast.ValueSpec); ok {
					sts = x.evalExprs(vs.Values, sts)
				}
			}
			return sts
		}
		return one
	case *ast.ReturnStmt:
		sts := x.evalExprs(st.Results, one)
		for _, t := range sts {
			if t.ctl == 0 {
				t.ctl = 1
			}
		}
		return sts
	case *ast.BranchStmt:
		switch st.Tok {
		case token.BREAK:
			s.ctl = 2
		case token.CONTINUE:
			s.ctl = 3
		default:
			s.evs = append(s.evs, "Unknown (* "+st.Tok.String()+" *)")
		}
		if st.Label != nil {
			s.evs = append(s.evs, "Unknown (* labelled branch *)")
		}
		return one
	case *ast.BlockStmt:
		return x.execBlock(st.List, one)
	case *ast.IfStmt:
		sts := one
		if st.Init != nil {
			sts = each(sts, func(t *skState) []*skState { return x.execStmt(st.Init, t) })
		}
		sts = x.evalExpr(st.Cond, sts)
		return each(sts, func(t *skState) []*skState {
			return x.fork(t,
				func(a *skState) []*skState { return x.execBlock(st.Body.List, []*skState{a}) },
				func(b *skState) []*skState {
					if st.Else == nil {
						return []*skState{b}
					}
					return x.execStmt(st.Else, b)
				})
		})
	case *ast.ForStmt:
		sts := one
		if st.Init != nil {
			sts = each(sts, func(t *skState) []*skState { return x.execStmt(st.Init, t) })
		}
		sts = x.evalExpr(st.Cond, sts)
		return each(sts, func(t *skState) []*skState {
			return x.loop(t, func(p []*skState) []*skState { return p }, st.Body, st.Post)
		})
	case *ast.RangeStmt:
		sts := x.evalExpr(st.X, one)
		return each(sts, func(t *skState) []*skState {
			return x.loop(t, func(p []*skState) []*skState {
				for _, r := range p {
					if mid, ok := st.X.(*ast.Ident); ok {
						if l, ok := r.top().taint["map:"+mid.Name]; ok {
							// iterating the store's live map of per-key lists: a read of store l, and its values are lists of l
							r.evs = append(r.evs, "Rd "+l)
							if id, ok := st.Value.(*ast.Ident); ok {
								r.top().taint[id.Name] = l
							}
						}
					}
					if c, ok := st.X.(*ast.CallExpr); ok {
						if sel, ok := c.Fun.(*ast.SelectorExpr); ok && sel.Sel.Name == "Files" {
							if id, ok := st.Value.(*ast.Ident); ok {
								if l := x.lockOf(sel.X, r); l != "" {
									r.top().taint[id.Name] = l
								}
							}
						}
					}
				}
				return p
			}, st.Body, nil)
		})
	case *ast.DeferStmt:
		s.top().defers = append(s.top().defers, st)
		return one
	case *ast.SwitchStmt:
		sts := one
		if st.Init != nil {
			sts = each(sts, func(t *skState) []*skState { return x.execStmt(st.Init, t) })
		}
		sts = x.evalExpr(st.Tag, sts)
		return each(sts, func(t *skState) []*skState {
			var arms []func(*skState) []*skState
			hasDefault := false
			for _, c := range st.Body.List {
				cc := c.(*ast.CaseClause)
				if cc.List == nil {
					hasDefault = true
				}
				arms = append(arms, func(a *skState) []*skState {
					r := x.execBlock(cc.Body, x.evalExprs(cc.List, []*skState{a}))
					for _, q := range r {
						if q.ctl == 2 {
							q.ctl = 0
						}
					}
					return r
				})
			}
			if !hasDefault {
				arms = append(arms, func(a *skState) []*skState { return []*skState{a} })
			}
			return x.fork(t, arms...)
		})
	}
	s.evs = append(s.evs, fmt.Sprintf("Unknown (* %T *)", st))
	return one
}

// skParseDir: the methods declared in the non-test, non-verif files of a package directory, by receiver type
func skParseDir(dir string) (map[string]map[string]*ast.FuncDecl, map[string]string, []string, error) {
	fset := token.NewFileSet()
	ents, err := os.ReadDir(dir)
	if err != nil {
		return nil, nil, nil, err
	}
	byType := map[string]map[string]*ast.FuncDecl{}
	mutexOf := map[string]string{} // type -> name of its only sync.(RW)Mutex field
	var files []string
	for _, e := range ents {
		n := e.Name()
		if !strings.HasSuffix(n, ".go") || strings.HasSuffix(n, "_test.go") {
			continue
		}
		src, err := os.ReadFile(filepath.Join(dir, n))
		if err != nil {
			return nil, nil, nil, err
		}
		if strings.Contains(string(src), "//go:build verif") {
			continue
		}
		f, err := parser.ParseFile(fset, filepath.Join(dir, n), src, 0)
		if err != nil {
			return nil, nil, nil, err
		}
		files = append(files, n)
		for _, d := range f.Decls {
			switch d := d.(type) {
			case *ast.FuncDecl:
				if d.Recv == nil || d.Body == nil || len(d.Recv.List) == 0 {
					continue
				}
				t := d.Recv.List[0].Type
				for {
					switch v := t.(type) {
					case *ast.StarExpr:
						t = v.X
						continue
					case *ast.IndexExpr:
						t = v.X
						continue
					case *ast.IndexListExpr:
						t = v.X
						continue
					}
					break
				}
				if id, ok := t.(*ast.Ident); ok {
					if byType[id.Name] == nil {
						byType[id.Name] = map[string]*ast.FuncDecl{}
					}
					byType[id.Name][d.Name.Name] = d
				}
			case *ast.GenDecl:
				for _, sp := range d.Specs {
					ts, ok := sp.(*ast.TypeSpec)
					if !ok {
						continue
					}
					stt, ok := ts.Type.(*ast.StructType)
					if !ok {
						continue
					}
					n := 0
					for _, fld := range stt.Fields.List {
						if sel, ok := fld.Type.(*ast.SelectorExpr); ok && exprStr(sel.X) == "sync" && (sel.Sel.Name == "Mutex" || sel.Sel.Name == "RWMutex") {
							n += len(fld.Names)
							if len(fld.Names) == 1 {
								mutexOf[ts.Name.Name] = fld.Names[0].Name
							}
						}
					}
					if n != 1 {
						delete(mutexOf, ts.Name.Name)
					}
				}
			}
		}
	}
	return byType, mutexOf, files, nil
}

func (x *skx) printOp(first *bool, name string, fd *ast.FuncDecl) {
	x.blownUp = false
	sts := x.execFunc(fd.Type, fd.Body, fd, nil, &skState{}, false)
	seen := map[string]bool{}
	var paths []string
	for _, s := range sts {
		p := "[" + strings.Join(s.evs, "; ") + "]"
		if !seen[p] {
			seen[p] = true
			paths = append(paths, p)
		}
	}
	if x.blownUp {
		paths = append(paths, "[Unknown (* too many paths *)]")
	}
	sort.Strings(paths)
	lead := "  ; "
	if *first {
		lead = "  [ "
		*first = false
	}
	fmt.Printf("%s(\"%s\", (* %d paths *)\n", lead, name, len(paths))
	for j, p := range paths {
		pl := "      ; "
		if j == 0 {
			pl = "      [ "
		}
		fmt.Println(pl + p)
	}
	fmt.Println("      ])")
}

// the monitor types: structs whose own methods take their single mutex
var skMonitors = []struct {
	dir, typ, label string
	fieldCalls      map[string]string
}{
	{"internal/model/core", "Transactions", "core.Transactions", nil},
	{"internal/model/core", "Pool", "core.Pool", nil},
	{"internal/repository/dir", "Repo", "dir.Repo", nil},
	// the ordered map is safe for concurrent Load/Store/Delete; its iterator is not: mutators write-lock, Iter read-locks
	{"internal/repository/transaction", "Repo", "txrepo.Repo",
		map[string]string{"storage.Load": "none", "storage.Store": "Wr", "storage.Delete": "Wr"}},
	{"internal/di", "lockedSource", "di.lockedSource", nil},
}

func lockskelMain(args []string) int {
	if len(args) < 1 {
		fmt.Fprintln(os.Stderr, "usage: fsdbh gen-lockskel <repo root>")
		return 2
	}
	byType, _, files, err := skParseDir(filepath.Join(args[0], "internal", "usecase", "core"))
	if err != nil {
		fmt.Fprintln(os.Stderr, err)
		return 2
	}
	fmt.Println("(* GENERATED by `fsdbh gen-lockskel` from internal/usecase/core/{" + strings.Join(files, ",") + "}")
	fmt.Println("   and the monitor types core.Transactions, core.Pool, dir.Repo, txrepo.Repo, di.lockedSource - do not edit.")
	fmt.Println("   One entry per operation: the event sequences of all its paths (see harness/lockskel.go). *)")
	fmt.Println("From Coq Require Import List String.")
	fmt.Println("From FsDb Require Import LockSkel.")
	fmt.Println("Import ListNotations.")
	fmt.Println("Open Scope string_scope.")
	fmt.Println()
	fmt.Println("Definition skeleton : list (string * list (list ev)) :=")
	first := true
	x := &skx{funcs: byType["UseCase"]}
	if x.funcs == nil {
		x.funcs = map[string]*ast.FuncDecl{}
	}
	var names []string
	for n := range x.funcs {
		if ast.IsExported(n) {
			names = append(names, n)
		}
	}
	sort.Strings(names)
	for _, n := range names {
		x.printOp(&first, n, x.funcs[n])
	}
	for _, m := range skMonitors {
		bt, mutexOf, _, err := skParseDir(filepath.Join(args[0], m.dir))
		if err != nil {
			fmt.Fprintln(os.Stderr, err)
			return 2
		}
		mx := &skx{funcs: bt[m.typ], mon: &skMon{mutex: mutexOf[m.typ], fieldCalls: m.fieldCalls, mutable: map[string]bool{}}}
		for _, fd := range mx.funcs {
			recv := ""
			if len(fd.Recv.List[0].Names) > 0 {
				recv = fd.Recv.List[0].Names[0].Name
			}
			root := func(e ast.Expr) string {
				for {
					switch v := e.(type) {
					case *ast.IndexExpr:
						e = v.X
						continue
					case *ast.SliceExpr:
						e = v.X
						continue
					case *ast.ParenExpr:
						e = v.X
						continue
					case *ast.StarExpr:
						e = v.X
						continue
					}
					break
				}
				if sel, ok := e.(*ast.SelectorExpr); ok {
					if id, ok := sel.X.(*ast.Ident); ok && id.Name == recv {
						return sel.Sel.Name
					}
				}
				return ""
			}
			ast.Inspect(fd.Body, func(n ast.Node) bool {
				switch v := n.(type) {
				case *ast.AssignStmt:
					for _, l := range v.Lhs {
						if f := root(l); f != "" {
							mx.mon.mutable[f] = true
						}
					}
				case *ast.IncDecStmt:
					if f := root(v.X); f != "" {
						mx.mon.mutable[f] = true
					}
				case *ast.CallExpr:
					if id, ok := v.Fun.(*ast.Ident); ok && (id.Name == "delete" || id.Name == "clear") && len(v.Args) > 0 {
						if f := root(v.Args[0]); f != "" {
							mx.mon.mutable[f] = true
						}
					}
					if sel, ok := v.Fun.(*ast.SelectorExpr); ok { // a method call on a field: the field has state
						if f := root(sel.X); f != "" {
							if _, isSel := sel.X.(*ast.SelectorExpr); isSel {
								mx.mon.mutable[f] = true
							}
						}
					}
				}
				return true
			})
		}
		if mx.funcs == nil || mx.mon.mutex == "" {
			// the type or its mutex is gone: say so in the skeleton (the checker rejects Unknown)
			lead := "  ; "
			if first {
				lead, first = "  [ ", false
			}
			fmt.Printf("%s(\"%s\", [ [Unknown (* type or its single mutex not found *)] ])\n", lead, m.label)
			continue
		}
		// methods called by other methods of the type are inlined there, the others are the operations
		called := map[string]bool{}
		for _, fd := range mx.funcs {
			recv := ""
			if len(fd.Recv.List[0].Names) > 0 {
				recv = fd.Recv.List[0].Names[0].Name
			}
			ast.Inspect(fd.Body, func(n ast.Node) bool {
				if c, ok := n.(*ast.CallExpr); ok {
					if sel, ok := c.Fun.(*ast.SelectorExpr); ok {
						if id, ok := sel.X.(*ast.Ident); ok && id.Name == recv && mx.funcs[sel.Sel.Name] != nil {
							called[sel.Sel.Name] = true
						}
					}
				}
				return true
			})
		}
		var ns []string
		for n := range mx.funcs {
			if !called[n] {
				ns = append(ns, n)
			}
		}
		sort.Strings(ns)
		for _, n := range ns {
			mx.printOp(&first, m.label+"."+n, mx.funcs[n])
		}
	}
	fmt.Println("  ].")
	return 0
}
