package main

// rootchange: a store is written with n roots, closed, and reopened with only the first `keep` of them (the
// configuration changed between two runs); keys are deleted and collected, then new contents are written.
// Oracle (C17): every NEW content file lies in <configured root>/<uuid>/<uuid>.
//
//	case line: <id> <seed> <nroots> <keep> <writes1> <deletes> <writes2> <inline|server>

import (
	"context"
	"fmt"
	"math/rand"
	"os"
	"path/filepath"
	"strconv"
	"strings"
	"time"

	"github.com/glebziz/fs_db/config"
	"github.com/glebziz/fs_db/pkg/verifapi"
	"github.com/google/uuid"
)

func init() { perLine("rootchange", rootchangeCase) }

func rootchangeCase(line string) (res string) {
	t := strings.Fields(line)
	id := t[0]
	defer func() {
		if r := recover(); r != nil {
			res = id + " PANIC " + strings.ReplaceAll(fmt.Sprint(r), "\n", " ")
		}
	}()
	atoi := func(s string) int { n, _ := strconv.Atoi(s); return n }
	seed, nroots, keep, w1, nd, w2, mode := int64(atoi(t[1])), atoi(t[2]), atoi(t[3]), atoi(t[4]), atoi(t[5]), atoi(t[6]), t[7]
	rng := rand.New(rand.NewSource(seed))
	dir, err := os.MkdirTemp("", "fsdbh-rc-")
	if err != nil {
		return id + " HARNESS-ERROR " + err.Error()
	}
	defer os.RemoveAll(dir)
	var roots []string
	for i := 0; i < nroots; i++ {
		roots = append(roots, filepath.Join(dir, fmt.Sprintf("r%d", i)))
	}
	mk := func(rs []string) config.Config {
		var cfg config.Config
		cfg.Storage.DbPath = filepath.Join(dir, "db")
		cfg.Storage.RootDirs = append([]string{}, rs...)
		cfg.Storage.MaxDirCount = 100
		cfg.Storage.GCPeriod = time.Hour
		cfg.WPool.NumWorkers = 2
		cfg.WPool.SendDuration = time.Millisecond
		if mode == "server" {
			cfg.Port = freePort()
		}
		return cfg
	}
	open := func(rs []string) (*verifapi.Handle, error) {
		if mode == "server" {
			return verifapi.OpenServer(context.Background(), mk(rs))
		}
		return verifapi.OpenInline(context.Background(), mk(rs))
	}
	ctx := context.Background()
	files := func() map[string]int { // content file -> root index
		m := map[string]int{}
		for r, root := range roots {
			_ = filepath.Walk(root, func(p string, info os.FileInfo, err error) error {
				if err == nil && !info.IsDir() {
					m[p] = r
				}
				return nil
			})
		}
		return m
	}
	h, err := open(roots)
	if err != nil {
		return id + " OPEN-FAILED " + err.Error()
	}
	var keys []string
	for i := 0; i < w1; i++ {
		k := fmt.Sprintf("k%d", i)
		if err := h.DB.Set(ctx, k, []byte(fmt.Sprintf("v%d-%d", i, rng.Intn(1000)))); err != nil {
			h.Close()
			return id + " SET1-FAILED " + errClass(err)
		}
		keys = append(keys, k)
	}
	drainPool()
	if err := h.Close(); err != nil {
		return id + " CLOSE-FAILED " + err.Error()
	}
	h, err = open(roots[:keep])
	if err != nil {
		return id + " REOPEN-FAILED " + err.Error()
	}
	defer func() {
		drainPool()
		h.Close()
	}()
	rng.Shuffle(len(keys), func(i, j int) { keys[i], keys[j] = keys[j], keys[i] })
	for i := 0; i < nd && i < len(keys); i++ {
		if err := h.DB.Delete(ctx, keys[i]); err != nil {
			return id + " DELETE-FAILED " + errClass(err)
		}
	}
	if err := h.GC(ctx); err != nil {
		return id + " GC-FAILED " + err.Error()
	}
	drainPool()
	before := files()
	for i := 0; i < w2; i++ {
		if err := h.DB.Set(ctx, fmt.Sprintf("n%d", i), []byte(fmt.Sprintf("w%d", i))); err != nil {
			return id + " SET2-FAILED " + errClass(err)
		}
	}
	drainPool()
	after := files()
	per := make([]int, nroots)
	badShape, outside := 0, 0
	for p, r := range after {
		if _, old := before[p]; old {
			continue
		}
		per[r]++
		if r >= keep {
			outside++
		}
		rel, _ := filepath.Rel(roots[r], p)
		parts := strings.Split(rel, string(filepath.Separator))
		if len(parts) != 2 || uuid.Validate(parts[0]) != nil || uuid.Validate(parts[1]) != nil {
			badShape++
		}
	}
	s := make([]string, nroots)
	for i, n := range per {
		s[i] = strconv.Itoa(n)
	}
	verdict := "ok"
	if outside > 0 {
		verdict = "BAD:new-content-outside-the-configured-roots"
	} else if badShape > 0 {
		verdict = "BAD:new-content-not-root/uuid/uuid"
	}
	return fmt.Sprintf("%s %s new-per-root=%s configured=%d", id, verdict, strings.Join(s, ","), keep)
}
