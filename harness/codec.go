package main

import (
	"bytes"
	"encoding/hex"
	"fmt"
	"os"
	"strconv"
	"strings"

	"github.com/google/uuid"

	"github.com/glebziz/fs_db/pkg/verifapi"
)

func init() { perLine("codec", codecCase) }

func unhex(s string) []byte {
	if s == "-" {
		return nil
	}
	b, err := hex.DecodeString(s)
	if err != nil {
		panic(err)
	}
	return b
}

func hx(b []byte) string {
	if len(b) == 0 {
		return "-"
	}
	return hex.EncodeToString(b)
}

func uuidStr(b []byte) string {
	var u uuid.UUID
	copy(u[:], b)
	return u.String()
}

func uuidBytes(s string) string {
	u, err := uuid.Parse(s)
	if err != nil {
		return "??"
	}
	return hex.EncodeToString(u[:])
}

func codecCase(line string) (res string) {
	t := strings.Fields(line)
	id := t[0]
	defer func() {
		if r := recover(); r != nil {
			res = id + " PANIC " + fmt.Sprint(r)
		}
	}()
	switch t[1] {
	case "m":
		seq, _ := strconv.ParseUint(t[2], 10, 64)
		rec := verifapi.Record{Seq: seq, TxId: uuidStr(unhex(t[3])), ContentId: uuidStr(unhex(t[4])), Key: string(unhex(t[5]))}
		b, err := verifapi.MarshalRecord(rec)
		if err != nil {
			return id + " err"
		}
		// the same record through the repository's Set over a recording provider
		kv := verifapi.NewMemKV()
		if err := verifapi.RepoSet(kv, rec); err != nil {
			return id + " REPO-ERR " + err.Error()
		}
		v, ok := kv.Data["file/"+rec.ContentId]
		if !ok || len(kv.Data) != 1 {
			return id + " REPO-KEY-MISMATCH"
		}
		if !bytes.Equal(v, b) {
			return id + " REPO-VALUE-MISMATCH " + hx(v)
		}
		return id + " b " + hx(b)
	case "u":
		data := unhex(t[2])
		rec, err := verifapi.UnmarshalRecord(data)
		// the same bytes through the repository's GetAll
		kv := verifapi.NewMemKV()
		kv.Data["file/x"] = data
		recs, gerr := verifapi.RepoGetAll(kv)
		if (err == nil) != (gerr == nil) {
			return id + " REPO-ERR-MISMATCH"
		}
		if err != nil {
			return id + " err"
		}
		if len(recs) != 1 || recs[0] != rec {
			return id + " REPO-VALUE-MISMATCH"
		}
		return strings.Join([]string{id, "r", strconv.FormatUint(rec.Seq, 10), uuidBytes(rec.TxId), uuidBytes(rec.ContentId), hx([]byte(rec.Key))}, " ")
	case "B":
		// a batch through the real file repository over a real Badger database: Set (in one key-value
		// transaction or one by one), then GetAll
		var recs []verifapi.Record
		if t[3] != "-" {
			for _, rs := range strings.Split(t[3], ";") {
				f := strings.Split(rs, ",")
				seq, _ := strconv.ParseUint(f[0], 10, 64)
				recs = append(recs, verifapi.Record{Seq: seq, TxId: uuidStr(unhex(f[1])), ContentId: uuidStr(unhex(f[2])), Key: string(unhex(f[3]))})
			}
		}
		dir, derr := os.MkdirTemp("", "fsdbh-c19-")
		if derr != nil {
			return id + " HARNESS-ERROR " + derr.Error()
		}
		defer os.RemoveAll(dir)
		out, err := verifapi.RepoBatch(dir, recs, t[2] == "tx")
		if err != nil {
			return id + " err"
		}
		if len(out) == 0 {
			return id + " R -"
		}
		var parts []string
		for _, r := range out {
			parts = append(parts, strings.Join([]string{strconv.FormatUint(r.Seq, 10), uuidBytes(r.TxId), uuidBytes(r.ContentId), hx([]byte(r.Key))}, ","))
		}
		return id + " R " + strings.Join(parts, ";")
	case "F":
		return id + " s " + hx([]byte(uuidStr(unhex(t[2]))))
	case "P":
		u, err := uuid.Parse(string(unhex(t[2])))
		if err != nil {
			return id + " err"
		}
		return id + " b " + hx(u[:])
	}
	return id + " ?"
}
