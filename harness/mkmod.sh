#!/bin/sh
# regenerate go.mod/go.sum for the harness from the repository's own (same dependency versions)
set -e
cd "$(dirname "$0")"
REPO="${VERIF_REPO:-/repo}"
{
  echo "module verifharness"
  echo
  sed -n '/^go /p' "$REPO/go.mod"
  echo
  echo "require github.com/glebziz/fs_db v0.0.0"
  echo
  echo "replace github.com/glebziz/fs_db => $REPO"
  echo
  awk '/^require \(/{p=1} p{print} /^\)/{p=0}' "$REPO/go.mod" | sed 's#^\(\t[^ ]* [^ ]*\)$#\1 // indirect#'
} > go.mod
cp "$REPO/go.sum" go.sum
