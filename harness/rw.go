package main

// rw.go — C12: schedule replay over the asynchronous read-writer
// (internal/utils/async/read_writer.go) and chunking of the external client's
// stream writer (internal/utils/grpc/streamwriter).
//
//	fsdbh rw <casefile> [-j N] [-quiet MS] [-arrive MS] [-global MS] [-hold MS] [-nofast]
//	  case:   <id> <var> <B> <fail> <writes> <sched>
//	  output: <id> <ev> ... ; end=<final|open> tail=<none|finished|DEADLOCK[..]> close=<ok|err|none>
//	          w=<o/e.. or -> pub=<hex|none> stored=<hex or ->
//	fsdbh swchunks <casefile>
//	  case:   <id> <chunkSize> <writes>
//	  output: <id> <chunk lengths or -> <ok|BAD>   |   <id> ERR

import (
	"bufio"
	"bytes"
	"encoding/hex"
	"errors"
	"flag"
	"fmt"
	"io"
	"math/rand"
	"os"
	"runtime"
	"strconv"
	"strings"
	"sync"
	"time"

	"github.com/glebziz/fs_db/pkg/verifapi"
)

func init() {
	commands["rw"] = rwCmd
	commands["rw-smoke"] = rwSmoke
	perLine("swchunks", swchunksCase)
}

// rwPattern returns bytes [off, off+n) of the global stream 'a'+j%26.
func rwPattern(off, n int) []byte {
	b := make([]byte, n)
	for i := range b {
		b[i] = byte('a' + (off+i)%26)
	}
	return b
}

// rwSizes parses "-" or "0,5".
func rwSizes(s string) ([]int, error) {
	if s == "-" {
		return nil, nil
	}
	var out []int
	for _, f := range strings.Split(s, ",") {
		n, err := strconv.Atoi(f)
		if err != nil || n < 0 {
			return nil, fmt.Errorf("bad size %q", f)
		}
		out = append(out, n)
	}
	return out, nil
}

func rwSchedule(s string) ([]SchedStep, error) {
	if s == "-" {
		return nil, nil
	}
	out := make([]SchedStep, 0, len(s))
	for _, ch := range s {
		switch ch {
		case 'W', 'R':
			out = append(out, SchedStep{Name: string(ch)})
		case 'w', 'r':
			out = append(out, SchedStep{Name: strings.ToUpper(string(ch)), ExpectBlock: true})
		default:
			return nil, fmt.Errorf("bad schedule letter %q", ch)
		}
	}
	return out, nil
}

// rwOutcome is what the two threads have observed so far.
type rwOutcome struct {
	mu        sync.Mutex
	w         []byte // 'o' / 'e' per Write
	closeRes  string // "" until Close returned
	stored    []byte
	published []byte
	isPub     bool
}

type rwCaseSpec struct {
	id     string
	bufLen int
	fail   int // -1 = never
	writes []int
	sched  []SchedStep
}

func rwParse(line string) (rwCaseSpec, error) {
	t := strings.Fields(line)
	var c rwCaseSpec
	if len(t) > 0 {
		c.id = t[0]
	}
	if len(t) != 6 {
		return c, fmt.Errorf("want 6 fields, got %d", len(t))
	}
	var err error
	if c.bufLen, err = strconv.Atoi(t[2]); err != nil || c.bufLen < 1 {
		return c, fmt.Errorf("bad B %q", t[2])
	}
	c.fail = -1
	if t[3] != "-" {
		if c.fail, err = strconv.Atoi(t[3]); err != nil || c.fail < 0 {
			return c, fmt.Errorf("bad fail %q", t[3])
		}
	}
	if c.writes, err = rwSizes(t[4]); err != nil {
		return c, err
	}
	if c.sched, err = rwSchedule(t[5]); err != nil {
		return c, err
	}
	return c, nil
}

// rwSetup builds the controller with the threads W (caller) and R (storing side)
// over a fresh read-writer.
func rwSetup(c rwCaseSpec, opts SchedOpts) (*Controller, *rwOutcome, verifapi.ReadWriter) {
	rw := verifapi.NewReadWriter()
	out := &rwOutcome{}
	ctl := NewController(opts)

	ctl.Thread("W", func(*Thread) string {
		off := 0
		for _, n := range c.writes {
			_, err := writeScratch(rw, rwPattern(off, n))
			off += n
			out.mu.Lock()
			if err == nil {
				out.w = append(out.w, 'o')
			} else {
				out.w = append(out.w, 'e')
			}
			out.mu.Unlock()
		}
		err := rw.Close()
		res := "ok"
		if err != nil {
			res = "err"
		}
		out.mu.Lock()
		out.closeRes = res
		out.mu.Unlock()
		return res
	})

	ctl.Thread("R", func(th *Thread) string {
		buf := make([]byte, c.bufLen)
		for idx := 0; ; idx++ {
			n, err := rw.Read(buf)
			if c.fail == idx || (err != nil && err != io.EOF) {
				th.At("sink.fail")
				rw.SetError(errors.New("sink failed"))
				rw.Done()
				return "fail"
			}
			if n > 0 {
				out.mu.Lock()
				out.stored = append(out.stored, buf[:n]...)
				out.mu.Unlock()
			}
			if err == io.EOF {
				th.At("sink.eof")
				out.mu.Lock()
				out.published = append([]byte{}, out.stored...)
				out.isPub = true
				out.mu.Unlock()
				rw.Done()
				return "eof"
			}
		}
	})

	return ctl, out, rw
}

// rwUnstick lets the goroutines of an abandoned case finish instead of leaking:
// empty writes signal a parked reader, which then sees EOF and calls Done,
// which in turn lets a Close stuck in wg.Wait return.
func rwUnstick(rw verifapi.ReadWriter) {
	go func() {
		for i := 0; i < 3; i++ {
			_, _ = rw.Write(nil)
			time.Sleep(time.Millisecond)
		}
	}()
}

func rwEvents(evs []Event) string {
	s := make([]string, len(evs))
	for i, e := range evs {
		s[i] = e.String()
	}
	return strings.Join(s, " ")
}

func rwCase(line string, opts SchedOpts) (res string) {
	c, err := rwParse(line)
	if err != nil {
		return c.id + " BADCASE " + err.Error()
	}
	defer func() {
		if r := recover(); r != nil {
			res = c.id + " PANIC " + fmt.Sprint(r)
		}
	}()

	ctl, out, rw := rwSetup(c, opts)
	evs := ctl.Start()
	evs = append(evs, ctl.Run(c.sched)...)

	end, tail := "final", "none"
	if !ctl.AllDone() {
		end = "open"
		finished, stuck := ctl.Drain()
		if finished {
			tail = "finished"
		} else {
			tail = "DEADLOCK[" + strings.Join(stuck, ",") + "]"
		}
	}

	// Threads that are not done are parked or blocked: they do not touch the
	// outcome until Abandon lets them go, so take the snapshot first.
	out.mu.Lock()
	closeRes := out.closeRes
	if closeRes == "" {
		closeRes = "none"
	}
	w := "-"
	if len(out.w) > 0 {
		w = string(out.w)
	}
	pub := "none"
	if out.isPub {
		pub = hex.EncodeToString(out.published)
	}
	stored := hx(out.stored)
	out.mu.Unlock()

	if !ctl.AllDone() {
		ctl.Abandon()
		rwUnstick(rw)
	}

	return fmt.Sprintf("%s %s ; end=%s tail=%s close=%s w=%s pub=%s stored=%s",
		c.id, rwEvents(evs), end, tail, closeRes, w, pub, stored)
}

func rwFlags(name string, args []string) (file string, jobs int, opts SchedOpts, extra map[string]*int, err error) {
	fs := flag.NewFlagSet(name, flag.ContinueOnError)
	j := fs.Int("j", runtime.NumCPU(), "parallel cases")
	quiet := fs.Int("quiet", 300, "ms without an event before an expected block is reported")
	arrive := fs.Int("arrive", 5000, "ms without an event before an unexpected block is reported")
	global := fs.Int("global", 3000, "ms budget of the drain phase")
	hold := fs.Int("hold", 50, "ms a wait state must persist when progress was expected")
	nofast := fs.Bool("nofast", false, "do not use goroutine wait states")
	extra = map[string]*int{
		"n":    fs.Int("n", 200, "rw-smoke: number of random cases"),
		"seed": fs.Int("seed", 1, "rw-smoke: random seed"),
	}
	// flags may follow the case file
	var pos []string
	rest := args
	for len(rest) > 0 {
		if err = fs.Parse(rest); err != nil {
			return
		}
		rest = fs.Args()
		if len(rest) > 0 {
			pos = append(pos, rest[0])
			rest = rest[1:]
		}
	}
	if len(pos) > 0 {
		file = pos[0]
	}
	jobs = *j
	if jobs < 1 {
		jobs = 1
	}
	opts = DefaultSchedOpts()
	opts.Quiet = time.Duration(*quiet) * time.Millisecond
	opts.Arrive = time.Duration(*arrive) * time.Millisecond
	opts.Global = time.Duration(*global) * time.Millisecond
	opts.FastHold = time.Duration(*hold) * time.Millisecond
	opts.FastBlock = !*nofast
	return
}

func rwCmd(args []string) int {
	file, jobs, opts, _, err := rwFlags("rw", args)
	if err != nil || file == "" {
		fmt.Fprintln(os.Stderr, "usage: fsdbh rw <casefile> [-j N] [-quiet MS] [-arrive MS] [-global MS] [-hold MS] [-nofast]")
		return 2
	}
	in, err := os.Open(file)
	if err != nil {
		fmt.Fprintln(os.Stderr, err)
		return 2
	}
	defer in.Close()
	var lines []string
	sc := bufio.NewScanner(in)
	sc.Buffer(make([]byte, 1<<20), 1<<28)
	for sc.Scan() {
		l := strings.TrimSpace(sc.Text())
		if l == "" || l[0] == '#' {
			continue
		}
		lines = append(lines, l)
	}

	results := make([]string, len(lines))
	ready := make([]chan struct{}, len(lines))
	for i := range ready {
		ready[i] = make(chan struct{})
	}
	next := make(chan int)
	var wg sync.WaitGroup
	for k := 0; k < jobs; k++ {
		wg.Add(1)
		go func() {
			defer wg.Done()
			for i := range next {
				results[i] = rwCase(lines[i], opts)
				close(ready[i])
			}
		}()
	}
	go func() {
		for i := range lines {
			next <- i
		}
		close(next)
	}()
	w := bufio.NewWriter(os.Stdout)
	for i := range lines {
		<-ready[i]
		fmt.Fprintln(w, results[i])
	}
	w.Flush()
	wg.Wait()
	return 0
}

// rwSmoke: throw-away sanity/timing mode. Random complete schedules for writes
// 1,2 and B=1.  Pass 1 (discovery) picks a random thread and steps it expecting
// progress; when it reports blocked the other thread goes next.  Pass 2 replays
// the discovered schedule (lower case = block expected) as `rw` would and must
// observe exactly the same events.
//
//	fsdbh rw-smoke [-n 200] [-seed 1] [-j N] [... rw flags]
func rwSmoke(args []string) int {
	_, jobs, opts, extra, err := rwFlags("rw-smoke", args)
	if err != nil {
		return 2
	}
	n, seed := *extra["n"], *extra["seed"]
	type timing struct {
		steps, blocks       int
		stepTime, blockTime time.Duration
		maxStep, maxBlock   time.Duration
		total               time.Duration
	}
	type stat struct {
		disc, repl timing
		line       string
		deadlock   bool
		pub        string
		mismatch   string
	}
	note := func(t *timing, ev Event, d time.Duration) {
		if ev.Kind == EvBlocked {
			t.blocks++
			t.blockTime += d
			if d > t.maxBlock {
				t.maxBlock = d
			}
			return
		}
		t.steps++
		t.stepTime += d
		if d > t.maxStep {
			t.maxStep = d
		}
	}
	finish := func(ctl *Controller, out *rwOutcome, rw verifapi.ReadWriter) string {
		tail := "final"
		if !ctl.AllDone() {
			tail = "finished"
			if fin, stuck := ctl.Drain(); !fin {
				tail = "DEADLOCK[" + strings.Join(stuck, ",") + "]"
			}
		}
		out.mu.Lock()
		pub := "none"
		if out.isPub {
			pub = "'" + string(out.published) + "'"
		}
		res := fmt.Sprintf("%s close=%s w=%s pub=%s", tail, out.closeRes, out.w, pub)
		out.mu.Unlock()
		if !ctl.AllDone() {
			ctl.Abandon()
			rwUnstick(rw)
		}
		return res
	}
	stats := make([]stat, n)
	next := make(chan int)
	var wg sync.WaitGroup
	t0 := time.Now()
	for k := 0; k < jobs; k++ {
		wg.Add(1)
		go func() {
			defer wg.Done()
			for i := range next {
				st := &stats[i]
				rng := rand.New(rand.NewSource(int64(seed)*1000003 + int64(i)))
				c := rwCaseSpec{id: fmt.Sprintf("s%d", i), bufLen: 1, fail: -1, writes: []int{1, 2}}

				// pass 1: discovery
				c0 := time.Now()
				ctl, out, rw := rwSetup(c, opts)
				evs := ctl.Start()
				var sched []byte
				names := []string{"W", "R"}
				step := func(name string, expectBlock bool) Event {
					s0 := time.Now()
					ev := ctl.Step(name, expectBlock)
					note(&st.disc, ev, time.Since(s0))
					evs = append(evs, ev)
					if ev.Kind == EvBlocked {
						sched = append(sched, name[0]+'a'-'A')
					} else {
						sched = append(sched, name[0])
					}
					return ev
				}
				// threads in flight move by themselves as soon as they can: after
				// every step re-probe them (block expected) until none of them moves,
				// so that the recorded schedule is replayable (cf. "eager" in RW.v)
				settle := func(except string) {
					for again := true; again; {
						again = false
						for _, nm := range names {
							w := ctl.Where(nm)
							if nm != except && (strings.HasSuffix(w, ":blocked") || strings.HasSuffix(w, ":inflight")) {
								if step(nm, true).Kind != EvBlocked {
									again = true
								}
							}
						}
						except = ""
					}
				}
				for !ctl.AllDone() && len(sched) < 300 {
					var cands []string
					stuckAll := true
					for _, nm := range names {
						w := ctl.Where(nm)
						if !strings.HasSuffix(w, ":done") {
							cands = append(cands, nm)
							if !strings.HasSuffix(w, ":blocked") {
								stuckAll = false
							}
						}
					}
					if stuckAll {
						break // every unfinished thread was just re-probed and is blocked
					}
					nm := cands[rng.Intn(len(cands))]
					if strings.HasSuffix(ctl.Where(nm), ":blocked") {
						continue
					}
					step(nm, false)
					settle(nm)
				}
				st.deadlock = !ctl.AllDone()
				res1 := rwEvents(evs) + " ; " + finish(ctl, out, rw)
				st.disc.total = time.Since(c0)
				if i := strings.Index(res1, "pub="); i >= 0 {
					st.pub = res1[i+4:]
				}

				// pass 2: replay
				c.sched, _ = rwSchedule(string(sched))
				c0 = time.Now()
				ctl, out, rw = rwSetup(c, opts)
				evs = ctl.Start()
				for _, s := range c.sched {
					s0 := time.Now()
					ev := ctl.Step(s.Name, s.ExpectBlock)
					note(&st.repl, ev, time.Since(s0))
					evs = append(evs, ev)
				}
				res2 := rwEvents(evs) + " ; " + finish(ctl, out, rw)
				st.repl.total = time.Since(c0)
				st.line = fmt.Sprintf("%s o 1 - 1,2 %s => %s", c.id, sched, res2)
				if res1 != res2 {
					st.mismatch = fmt.Sprintf("%s MISMATCH sched=%s\n  discovery: %s\n  replay:    %s", c.id, sched, res1, res2)
				}
			}
		}()
	}
	for i := 0; i < n; i++ {
		next <- i
	}
	close(next)
	wg.Wait()
	wall := time.Since(t0)

	div := func(d time.Duration, k int) time.Duration {
		if k == 0 {
			return 0
		}
		return d / time.Duration(k)
	}
	report := func(name string, get func(*stat) *timing) {
		var a timing
		for i := range stats {
			t := get(&stats[i])
			a.steps += t.steps
			a.blocks += t.blocks
			a.stepTime += t.stepTime
			a.blockTime += t.blockTime
			a.total += t.total
			if t.maxStep > a.maxStep {
				a.maxStep = t.maxStep
			}
			if t.maxBlock > a.maxBlock {
				a.maxBlock = t.maxBlock
			}
		}
		fmt.Printf("%-9s avg/case=%v | progress steps=%d avg=%v max=%v | blocked steps=%d avg=%v max=%v\n",
			name, div(a.total, n), a.steps, div(a.stepTime, a.steps), a.maxStep, a.blocks, div(a.blockTime, a.blocks), a.maxBlock)
	}
	fmt.Printf("cases=%d jobs=%d wall=%v (both passes)\n", n, jobs, wall)
	report("discovery", func(s *stat) *timing { return &s.disc })
	report("replay", func(s *stat) *timing { return &s.repl })
	deadlocks, mism := 0, 0
	pubs := map[string]int{}
	for _, s := range stats {
		if s.deadlock {
			deadlocks++
		}
		pubs[s.pub]++
		if s.mismatch != "" {
			mism++
			fmt.Println(s.mismatch)
		}
	}
	fmt.Printf("deadlock=%d replay-mismatches=%d pub=%v goroutines-left=%d\n", deadlocks, mism, pubs, runtime.NumGoroutine())
	shown := 0
	for _, s := range stats {
		if n <= 20 || (shown < 4 && (s.deadlock || s.pub != "'abc'")) {
			fmt.Println(s.line)
			shown++
		}
	}
	return 0
}

func swchunksCase(line string) (res string) {
	t := strings.Fields(line)
	id := t[0]
	defer func() {
		if r := recover(); r != nil {
			res = id + " ERR"
		}
	}()
	if len(t) != 3 {
		return id + " BADCASE"
	}
	chunkSize, err := strconv.Atoi(t[1])
	if err != nil {
		return id + " BADCASE"
	}
	sizes, err := rwSizes(t[2])
	if err != nil {
		return id + " BADCASE"
	}
	var writes [][]byte
	var all []byte
	off := 0
	for _, n := range sizes {
		w := rwPattern(off, n)
		off += n
		writes = append(writes, w)
		all = append(all, w...)
	}
	chunks, err := verifapi.StreamChunks(chunkSize, writes)
	if err != nil {
		return id + " ERR"
	}
	lens := make([]string, len(chunks))
	var got []byte
	for i, c := range chunks {
		lens[i] = strconv.Itoa(len(c))
		got = append(got, c...)
	}
	l := "-"
	if len(lens) > 0 {
		l = strings.Join(lens, ",")
	}
	verdict := "ok"
	if !bytes.Equal(got, all) {
		verdict = "BAD"
	}
	return id + " " + l + " " + verdict
}
