package main

import (
	"strconv"
	"strings"

	"github.com/glebziz/fs_db/pkg/verifapi"
)

func init() { perLine("vlist", vlistCase) }

// case line: <id> tok...; tok = p<seq> | f | b | c<h> | l<s> | t
func vlistCase(line string) (res string) {
	toks := strings.Fields(line)
	var sb strings.Builder
	sb.WriteString(toks[0])
	defer func() {
		if r := recover(); r != nil {
			res = sb.String() + " PANIC"
		}
	}()
	// a first token N selects a list WITHOUT the search array (the all-store's configuration): p, f, b, t only
	type vl interface {
		Push(uint64)
		PopFront() (uint64, bool)
		PopBack() (uint64, bool)
		Latest() (uint64, bool)
	}
	full := verifapi.NewVList()
	var v vl = full
	if len(toks) > 1 && toks[1] == "N" {
		v = verifapi.NewVListNoSearch()
		full = nil
		toks = append(toks[:1], toks[2:]...)
	}
	optn := func(x uint64, ok bool) string {
		if !ok {
			return "n"
		}
		return strconv.FormatUint(x, 10)
	}
	for _, t := range toks[1:] {
		var arg uint64
		if len(t) > 1 {
			arg, _ = strconv.ParseUint(t[1:], 10, 64)
		}
		var r string
		switch t[0] {
		case 'p':
			v.Push(arg)
			r = "-"
		case 'f':
			r = optn(v.PopFront())
		case 'b':
			r = optn(v.PopBack())
		case 'c':
			if full == nil {
				r = "?"
				break
			}
			d := full.Collect(arg)
			ss := make([]string, len(d))
			for i, x := range d {
				ss[i] = strconv.FormatUint(x, 10)
			}
			r = "[" + strings.Join(ss, ",") + "]"
		case 'l', 'L':
			if full == nil {
				r = "?"
				break
			}
			r = optn(full.LastBefore(arg))
		case 't':
			r = optn(v.Latest())
		default:
			r = "?"
		}
		sb.WriteByte(' ')
		sb.WriteString(r)
	}
	return sb.String()
}
