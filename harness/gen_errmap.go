package main

// gen-errmap: the C11 translator.  Reads the ordered switch tables of
//   internal/adapter/errors/error.go     (Error, errorToPbError, detailsToError, ClientError)
//   internal/adapter/iso_level/convert.go (Convert, ConvertToGrpc)
// and the declarations they refer to (errors.go, db.go, internal/proto/*.pb.go)
// with go/parser + go/ast and prints coq/ErrMapGen.v: the tables as Coq lists of
// pairs of constructors of the hand-written types in coq/ErrMap.v, in source
// order.  Any shape it does not know is a hard error (exit 1): the tie between
// the proofs and the source is then broken and the check must say so.

import (
	"fmt"
	"go/ast"
	"go/parser"
	"go/token"
	"os"
	"path/filepath"
	"sort"
	"strconv"
	"strings"
)

func init() {
	commands["gen-errmap"] = func(args []string) int {
		if len(args) < 1 {
			fmt.Fprintln(os.Stderr, "usage: fsdbh gen-errmap <repo root>")
			return 2
		}
		out, err := genErrMap(args[0])
		if err != nil {
			fmt.Fprintln(os.Stderr, "gen-errmap: cannot translate:", err)
			return 1
		}
		fmt.Print(out)
		return 0
	}
}

type gen struct {
	fset      *token.FileSet
	sentinels []string          // errors.go, declaration order
	alias     map[string]string // backward-compat name -> sentinel
	levels    []string          // db.go iota block, value order
	lvlAlias  map[string]string
}

func (g *gen) errAt(n ast.Node, format string, a ...any) error {
	return fmt.Errorf("%s: %s", g.fset.Position(n.Pos()), fmt.Sprintf(format, a...))
}

func (g *gen) parse(path string) (*ast.File, error) {
	return parser.ParseFile(g.fset, path, nil, parser.SkipObjectResolution)
}

// sel returns name when e is `pkg.name`.
func sel(e ast.Expr, pkg string) (string, bool) {
	s, ok := e.(*ast.SelectorExpr)
	if !ok {
		return "", false
	}
	x, ok := s.X.(*ast.Ident)
	if !ok || x.Name != pkg {
		return "", false
	}
	return s.Sel.Name, true
}

func isIdent(e ast.Expr, name string) bool {
	i, ok := e.(*ast.Ident)
	return ok && i.Name == name
}

// call returns the arguments when e is `pkg.fn(args...)` (pkg == "" for a plain function or x.fn with recv).
func call(e ast.Expr, pkg, fn string) ([]ast.Expr, bool) {
	c, ok := e.(*ast.CallExpr)
	if !ok {
		return nil, false
	}
	if pkg == "" {
		if isIdent(c.Fun, fn) {
			return c.Args, true
		}
		return nil, false
	}
	if n, ok := sel(c.Fun, pkg); ok && n == fn {
		return c.Args, true
	}
	return nil, false
}

func funcDecl(f *ast.File, name string) *ast.FuncDecl {
	for _, d := range f.Decls {
		if fd, ok := d.(*ast.FuncDecl); ok && fd.Recv == nil && fd.Name.Name == name {
			return fd
		}
	}
	return nil
}

// ---- declarations ------------------------------------------------------------

func (g *gen) readSentinels(root string) error {
	f, err := g.parse(filepath.Join(root, "errors.go"))
	if err != nil {
		return err
	}
	g.alias = map[string]string{}
	for _, d := range f.Decls {
		gd, ok := d.(*ast.GenDecl)
		if !ok || gd.Tok != token.VAR {
			continue
		}
		for _, sp := range gd.Specs {
			vs := sp.(*ast.ValueSpec)
			if len(vs.Names) != 1 || len(vs.Values) != 1 {
				return g.errAt(vs, "errors.go: expected `name = value`")
			}
			name := vs.Names[0].Name
			if args, ok := call(vs.Values[0], "errors", "New"); ok && len(args) == 1 {
				g.sentinels = append(g.sentinels, name)
			} else if id, ok := vs.Values[0].(*ast.Ident); ok {
				g.alias[name] = id.Name
			} else {
				return g.errAt(vs, "errors.go: %s is neither errors.New(...) nor an alias of a sentinel", name)
			}
		}
	}
	for a, t := range g.alias {
		if !contains(g.sentinels, t) {
			return fmt.Errorf("errors.go: alias %s = %s does not name a sentinel", a, t)
		}
	}
	if len(g.sentinels) == 0 {
		return fmt.Errorf("errors.go: no sentinels found")
	}
	return nil
}

func contains(l []string, s string) bool {
	for _, x := range l {
		if x == s {
			return true
		}
	}
	return false
}

func (g *gen) sentinel(e ast.Expr) (string, error) {
	n, ok := sel(e, "fs_db")
	if !ok {
		return "", g.errAt(e, "expected fs_db.<sentinel>")
	}
	if t, ok := g.alias[n]; ok {
		n = t
	}
	if !contains(g.sentinels, n) {
		return "", g.errAt(e, "fs_db.%s is not a sentinel declared in errors.go", n)
	}
	return n, nil
}

// readLevels reads the iota block of model.TxIsoLevel constants in db.go.
func (g *gen) readLevels(root string) error {
	f, err := g.parse(filepath.Join(root, "db.go"))
	if err != nil {
		return err
	}
	g.lvlAlias = map[string]string{}
	for _, d := range f.Decls {
		gd, ok := d.(*ast.GenDecl)
		if !ok || gd.Tok != token.CONST {
			continue
		}
		inBlock := false
		for i, sp := range gd.Specs {
			vs := sp.(*ast.ValueSpec)
			if len(vs.Names) != 1 {
				return g.errAt(vs, "db.go: one name per constant expected")
			}
			name := vs.Names[0].Name
			switch {
			case len(vs.Values) == 0:
				if !inBlock {
					return g.errAt(vs, "db.go: implicit constant %s outside an iota block", name)
				}
				g.levels = append(g.levels, name)
			case len(vs.Values) == 1:
				if args, ok := call(vs.Values[0], "model", "TxIsoLevel"); ok && len(args) == 1 && isIdent(args[0], "iota") {
					if i != 0 {
						return g.errAt(vs, "db.go: iota block must start the const declaration (iota would not be 0)")
					}
					inBlock = true
					g.levels = append(g.levels, name)
				} else if id, ok := vs.Values[0].(*ast.Ident); ok {
					inBlock = false
					g.lvlAlias[name] = id.Name
				} else {
					return g.errAt(vs, "db.go: constant %s has a shape the translator does not know", name)
				}
			default:
				return g.errAt(vs, "db.go: constant %s has a shape the translator does not know", name)
			}
		}
	}
	if len(g.levels) == 0 {
		return fmt.Errorf("db.go: no model.TxIsoLevel(iota) block found")
	}
	for a, t := range g.lvlAlias {
		if !contains(g.levels, t) {
			return fmt.Errorf("db.go: %s = %s does not name an isolation level", a, t)
		}
	}
	return nil
}

func (g *gen) level(e ast.Expr) (string, error) {
	n, ok := sel(e, "fs_db")
	if !ok {
		return "", g.errAt(e, "expected fs_db.<IsoLevel…>")
	}
	if t, ok := g.lvlAlias[n]; ok {
		n = t
	}
	if !contains(g.levels, n) {
		return "", g.errAt(e, "fs_db.%s is not an isolation level declared in db.go", n)
	}
	return n, nil
}

type enumVal struct {
	name string
	val  int
}

// readEnum reads `const ( Name Type = <int> ... )` of the given type from a generated .pb.go file.
func (g *gen) readEnum(path, typ string) ([]enumVal, error) {
	f, err := g.parse(path)
	if err != nil {
		return nil, err
	}
	var res []enumVal
	for _, d := range f.Decls {
		gd, ok := d.(*ast.GenDecl)
		if !ok || gd.Tok != token.CONST {
			continue
		}
		for _, sp := range gd.Specs {
			vs := sp.(*ast.ValueSpec)
			if !isIdent(vs.Type, typ) {
				continue
			}
			if len(vs.Names) != 1 || len(vs.Values) != 1 {
				return nil, g.errAt(vs, "enum %s: expected `Name %s = <int>`", typ, typ)
			}
			lit, ok := vs.Values[0].(*ast.BasicLit)
			if !ok || lit.Kind != token.INT {
				return nil, g.errAt(vs, "enum %s: value is not an integer literal", typ)
			}
			v, err := strconv.Atoi(lit.Value)
			if err != nil || v < 0 {
				return nil, g.errAt(vs, "enum %s: bad value %s", typ, lit.Value)
			}
			res = append(res, enumVal{vs.Names[0].Name, v})
		}
	}
	if len(res) == 0 {
		return nil, fmt.Errorf("%s: no constants of type %s", path, typ)
	}
	sort.SliceStable(res, func(i, j int) bool { return res[i].val < res[j].val })
	return res, nil
}

func enumZero(vals []enumVal) (string, bool) {
	for _, v := range vals {
		if v.val == 0 {
			return v.name, true
		}
	}
	return "", false
}

func enumHas(vals []enumVal, name string) bool {
	for _, v := range vals {
		if v.name == name {
			return true
		}
	}
	return false
}

// ---- switch tables -----------------------------------------------------------

type pair struct{ a, b string }

// The 17 status codes of google.golang.org/grpc/codes.
var grpcCodes = []string{"OK", "Canceled", "Unknown", "InvalidArgument", "DeadlineExceeded", "NotFound",
	"AlreadyExists", "PermissionDenied", "ResourceExhausted", "FailedPrecondition", "Aborted", "OutOfRange",
	"Unimplemented", "Internal", "Unavailable", "DataLoss", "Unauthenticated"}

func (g *gen) grpcCode(e ast.Expr) (string, error) {
	n, ok := sel(e, "codes")
	if !ok || !contains(grpcCodes, n) {
		return "", g.errAt(e, "expected codes.<status code>")
	}
	return "codes_" + n, nil
}

// onlySwitch returns the single switch statement directly inside the statement list.
func (g *gen) onlySwitch(where ast.Node, stmts []ast.Stmt) (*ast.SwitchStmt, error) {
	var sw *ast.SwitchStmt
	for _, s := range stmts {
		if x, ok := s.(*ast.SwitchStmt); ok {
			if sw != nil {
				return nil, g.errAt(x, "second switch statement")
			}
			sw = x
		}
	}
	if sw == nil {
		return nil, g.errAt(where, "no switch statement")
	}
	if sw.Init != nil {
		return nil, g.errAt(sw, "switch with init statement")
	}
	return sw, nil
}

// isSwitch reads `switch { case errors.Is(err, fs_db.S): <v> = <value> ... [default: <v> = <value>] }`.
// value parses the right-hand side.  Returns the ordered table and the default ("" if there is none).
func (g *gen) isSwitch(sw *ast.SwitchStmt, v string, value func(ast.Expr) (string, error)) ([]pair, string, error) {
	if sw.Tag != nil {
		return nil, "", g.errAt(sw, "expected a tagless switch")
	}
	var tab []pair
	def := ""
	for i, st := range sw.Body.List {
		cc := st.(*ast.CaseClause)
		if len(cc.Body) != 1 {
			return nil, "", g.errAt(cc, "case body must be exactly one assignment to %s", v)
		}
		as, ok := cc.Body[0].(*ast.AssignStmt)
		if !ok || as.Tok != token.ASSIGN || len(as.Lhs) != 1 || len(as.Rhs) != 1 || !isIdent(as.Lhs[0], v) {
			return nil, "", g.errAt(cc.Body[0], "case body must be `%s = <constant>`", v)
		}
		val, err := value(as.Rhs[0])
		if err != nil {
			return nil, "", err
		}
		if cc.List == nil {
			if i != len(sw.Body.List)-1 {
				return nil, "", g.errAt(cc, "default clause must come last")
			}
			def = val
			continue
		}
		if len(cc.List) != 1 {
			return nil, "", g.errAt(cc, "one condition per case expected")
		}
		args, ok := call(cc.List[0], "errors", "Is")
		if !ok || len(args) != 2 || !isIdent(args[0], "err") {
			return nil, "", g.errAt(cc.List[0], "expected errors.Is(err, fs_db.<sentinel>)")
		}
		s, err := g.sentinel(args[1])
		if err != nil {
			return nil, "", err
		}
		tab = append(tab, pair{s, val})
	}
	return tab, def, nil
}

// varDeclared checks that `var <name> <pkg>.<typ>` (no initial value) is among stmts.
func varDeclared(stmts []ast.Stmt, name, pkg, typ string) bool {
	for _, s := range stmts {
		ds, ok := s.(*ast.DeclStmt)
		if !ok {
			continue
		}
		gd, ok := ds.Decl.(*ast.GenDecl)
		if !ok || gd.Tok != token.VAR {
			continue
		}
		for _, sp := range gd.Specs {
			vs := sp.(*ast.ValueSpec)
			if len(vs.Names) == 1 && vs.Names[0].Name == name && len(vs.Values) == 0 {
				if n, ok := sel(vs.Type, pkg); ok && n == typ {
					return true
				}
			}
		}
	}
	return false
}

// noOtherWrites: v must not be assigned outside the switch (between declaration and use).
func (g *gen) noOtherWrites(stmts []ast.Stmt, sw *ast.SwitchStmt, v string) error {
	var bad ast.Node
	for _, s := range stmts {
		if s == ast.Stmt(sw) {
			continue
		}
		ast.Inspect(s, func(n ast.Node) bool {
			switch x := n.(type) {
			case *ast.AssignStmt:
				for _, l := range x.Lhs {
					if isIdent(l, v) {
						bad = x
					}
				}
			case *ast.IncDecStmt:
				if isIdent(x.X, v) {
					bad = x
				}
			case *ast.UnaryExpr:
				if x.Op == token.AND && isIdent(x.X, v) {
					bad = x
				}
			}
			return true
		})
	}
	if bad != nil {
		return g.errAt(bad, "%s is written outside the switch", v)
	}
	return nil
}

// wrapReturn reads `return fmt.Errorf("…%w", …, fs_db.S)` (exactly one %w, sentinel last) → CWrap S,
// or `return errors.Join(err, fs_db.S)` → CJoinNil S (err is nil at that point in ClientError).
func (g *gen) wrapReturn(st ast.Stmt, allowJoin bool) (string, error) {
	rs, ok := st.(*ast.ReturnStmt)
	if !ok || len(rs.Results) != 1 {
		return "", g.errAt(st, "expected a single `return <error>`")
	}
	if args, ok := call(rs.Results[0], "fmt", "Errorf"); ok {
		if len(args) < 2 {
			return "", g.errAt(st, "fmt.Errorf without wrapped error")
		}
		lit, ok := args[0].(*ast.BasicLit)
		if !ok || lit.Kind != token.STRING {
			return "", g.errAt(st, "fmt.Errorf format is not a literal")
		}
		f, _ := strconv.Unquote(lit.Value)
		if strings.Count(f, "%w") != 1 || !strings.HasSuffix(f, "%w") || strings.Count(f, "%")-2*strings.Count(f, "%%") != len(args)-1 {
			return "", g.errAt(st, "fmt.Errorf format %q: expected exactly one %%w, in last position", f)
		}
		s, err := g.sentinel(args[len(args)-1])
		if err != nil {
			return "", err
		}
		return "CWrap " + s, nil
	}
	if args, ok := call(rs.Results[0], "errors", "Join"); ok && allowJoin {
		if len(args) != 2 || !isIdent(args[0], "err") {
			return "", g.errAt(st, "expected errors.Join(err, fs_db.<sentinel>)")
		}
		s, err := g.sentinel(args[1])
		if err != nil {
			return "", err
		}
		return "CJoinNil " + s, nil
	}
	return "", g.errAt(st, "return value is neither fmt.Errorf(\"…%%w\", …, sentinel) nor errors.Join(err, sentinel)")
}

// tagSwitch reads `switch <tag> { case K1[, K2…]: return … }` with constant keys.
func (g *gen) tagSwitch(sw *ast.SwitchStmt, key func(ast.Expr) (string, error), body func(*ast.CaseClause) (string, error)) ([]pair, string, error) {
	var tab []pair
	def := ""
	seen := map[string]bool{}
	for i, st := range sw.Body.List {
		cc := st.(*ast.CaseClause)
		val, err := body(cc)
		if err != nil {
			return nil, "", err
		}
		if cc.List == nil {
			if i != len(sw.Body.List)-1 {
				return nil, "", g.errAt(cc, "default clause must come last")
			}
			def = val
			continue
		}
		for _, k := range cc.List {
			ks, err := key(k)
			if err != nil {
				return nil, "", err
			}
			if seen[ks] {
				return nil, "", g.errAt(k, "duplicate case %s", ks)
			}
			seen[ks] = true
			tab = append(tab, pair{ks, val})
		}
	}
	return tab, def, nil
}

func isCallOn(e ast.Expr, recv, method string) bool {
	c, ok := e.(*ast.CallExpr)
	if !ok || len(c.Args) != 0 {
		return false
	}
	n, ok := sel(c.Fun, recv)
	return ok && n == method
}

func (g *gen) genErrors(root string, details []enumVal, b *strings.Builder) error {
	path := filepath.Join(root, "internal", "adapter", "errors", "error.go")
	f, err := g.parse(path)
	if err != nil {
		return err
	}

	// (i) Error
	fd := funcDecl(f, "Error")
	if fd == nil {
		return fmt.Errorf("%s: func Error not found", path)
	}
	if !varDeclared(fd.Body.List, "code", "codes", "Code") {
		return g.errAt(fd, "Error: `var code codes.Code` not found")
	}
	sw, err := g.onlySwitch(fd, fd.Body.List)
	if err != nil {
		return err
	}
	if err := g.noOtherWrites(fd.Body.List, sw, "code"); err != nil {
		return err
	}
	codeTab, codeDef, err := g.isSwitch(sw, "code", g.grpcCode)
	if err != nil {
		return err
	}
	if codeDef == "" {
		codeDef = "codes_OK" // zero value of codes.Code
	}
	// the chosen code and the detail must be what goes into the status
	okTail := false
	for _, s := range fd.Body.List {
		as, ok := s.(*ast.AssignStmt)
		if !ok || len(as.Rhs) != 1 {
			continue
		}
		c, ok := as.Rhs[0].(*ast.CallExpr)
		if !ok || len(c.Args) != 1 {
			continue
		}
		se, ok := c.Fun.(*ast.SelectorExpr)
		if !ok || se.Sel.Name != "WithDetails" {
			continue
		}
		nargs, ok := call(se.X, "status", "New")
		if !ok || len(nargs) != 2 || !isIdent(nargs[0], "code") {
			continue
		}
		dargs, ok := call(c.Args[0], "", "errorToPbError")
		if ok && len(dargs) == 1 && isIdent(dargs[0], "err") {
			okTail = true
		}
	}
	if !okTail {
		return g.errAt(fd, "Error: expected status.New(code, …).WithDetails(errorToPbError(err))")
	}
	if rs, ok := fd.Body.List[len(fd.Body.List)-1].(*ast.ReturnStmt); !ok || len(rs.Results) != 1 || !isCallOn(rs.Results[0], "st", "Err") {
		return g.errAt(fd, "Error: expected final `return st.Err()`")
	}

	// (ii) errorToPbError
	fd = funcDecl(f, "errorToPbError")
	if fd == nil {
		return fmt.Errorf("%s: func errorToPbError not found", path)
	}
	if !varDeclared(fd.Body.List, "errCode", "store", "ErrorCode") {
		return g.errAt(fd, "errorToPbError: `var errCode store.ErrorCode` not found")
	}
	sw, err = g.onlySwitch(fd, fd.Body.List)
	if err != nil {
		return err
	}
	if err := g.noOtherWrites(fd.Body.List, sw, "errCode"); err != nil {
		return err
	}
	detailConst := func(e ast.Expr) (string, error) {
		n, ok := sel(e, "store")
		if !ok || !enumHas(details, n) {
			return "", g.errAt(e, "expected store.ErrorCode_<…> declared in error.pb.go")
		}
		return n, nil
	}
	pbTab, pbDef, err := g.isSwitch(sw, "errCode", detailConst)
	if err != nil {
		return err
	}
	if pbDef == "" {
		z, ok := enumZero(details)
		if !ok {
			return fmt.Errorf("error.pb.go: no ErrorCode constant with value 0 (zero value of errCode)")
		}
		pbDef = z
	}
	// errCode must be what is put into the message
	okTail = false
	ast.Inspect(fd.Body, func(n ast.Node) bool {
		if kv, ok := n.(*ast.KeyValueExpr); ok && isIdent(kv.Key, "Code") && isIdent(kv.Value, "errCode") {
			okTail = true
		}
		return true
	})
	if !okTail {
		return g.errAt(fd, "errorToPbError: expected &store.Error{Code: errCode, …}")
	}

	// (iii) detailsToError: for _, e := range d { err, ok := e.(*store.Error); if !ok { continue }; switch err.GetCode() {…} }; return nil
	fd = funcDecl(f, "detailsToError")
	if fd == nil {
		return fmt.Errorf("%s: func detailsToError not found", path)
	}
	if len(fd.Body.List) != 2 {
		return g.errAt(fd, "detailsToError: expected `for … range …` followed by `return nil`")
	}
	rg, ok := fd.Body.List[0].(*ast.RangeStmt)
	if !ok || len(rg.Body.List) != 3 {
		return g.errAt(fd, "detailsToError: expected a range loop with type assertion, `if !ok {continue}` and a switch")
	}
	if as, ok := rg.Body.List[0].(*ast.AssignStmt); !ok || len(as.Lhs) != 2 || !isIdent(as.Lhs[0], "err") || len(as.Rhs) != 1 {
		return g.errAt(rg.Body.List[0], "detailsToError: expected `err, ok := e.(*store.Error)`")
	} else if ta, ok := as.Rhs[0].(*ast.TypeAssertExpr); !ok {
		return g.errAt(as, "detailsToError: expected a type assertion")
	} else if st, ok := ta.Type.(*ast.StarExpr); !ok {
		return g.errAt(as, "detailsToError: expected assertion to *store.Error")
	} else if n, ok := sel(st.X, "store"); !ok || n != "Error" {
		return g.errAt(as, "detailsToError: expected assertion to *store.Error")
	}
	if ifs, ok := rg.Body.List[1].(*ast.IfStmt); !ok || ifs.Else != nil || len(ifs.Body.List) != 1 {
		return g.errAt(rg.Body.List[1], "detailsToError: expected `if !ok { continue }`")
	} else if br, ok := ifs.Body.List[0].(*ast.BranchStmt); !ok || br.Tok != token.CONTINUE {
		return g.errAt(ifs, "detailsToError: expected `if !ok { continue }`")
	}
	sw, ok = rg.Body.List[2].(*ast.SwitchStmt)
	if !ok || sw.Init != nil || !isCallOn(sw.Tag, "err", "GetCode") {
		return g.errAt(rg.Body.List[2], "detailsToError: expected `switch err.GetCode()`")
	}
	if rs, ok := fd.Body.List[1].(*ast.ReturnStmt); !ok || len(rs.Results) != 1 || !isIdent(rs.Results[0], "nil") {
		return g.errAt(fd.Body.List[1], "detailsToError: expected final `return nil`")
	}
	detTab, detDef, err := g.tagSwitch(sw, detailConst, func(cc *ast.CaseClause) (string, error) {
		if len(cc.Body) != 1 {
			return "", g.errAt(cc, "detailsToError: case body must be one return")
		}
		return g.wrapReturn(cc.Body[0], false)
	})
	if err != nil {
		return err
	}
	if detDef != "" {
		return g.errAt(sw, "detailsToError: a default clause is not modelled")
	}

	// (iv) ClientError: st := status.Convert(err); err = detailsToError(st.Details()); if err != nil { return err }; switch st.Code() {…}
	fd = funcDecl(f, "ClientError")
	if fd == nil {
		return fmt.Errorf("%s: func ClientError not found", path)
	}
	if len(fd.Body.List) != 4 {
		return g.errAt(fd, "ClientError: expected four statements (Convert, detailsToError, if err != nil, switch)")
	}
	if as, ok := fd.Body.List[0].(*ast.AssignStmt); !ok || len(as.Lhs) != 1 || !isIdent(as.Lhs[0], "st") || len(as.Rhs) != 1 {
		return g.errAt(fd.Body.List[0], "ClientError: expected `st := status.Convert(err)`")
	} else if a, ok := call(as.Rhs[0], "status", "Convert"); !ok || len(a) != 1 || !isIdent(a[0], "err") {
		return g.errAt(as, "ClientError: expected `st := status.Convert(err)`")
	}
	if as, ok := fd.Body.List[1].(*ast.AssignStmt); !ok || len(as.Lhs) != 1 || !isIdent(as.Lhs[0], "err") || len(as.Rhs) != 1 {
		return g.errAt(fd.Body.List[1], "ClientError: expected `err = detailsToError(st.Details())`")
	} else if a, ok := call(as.Rhs[0], "", "detailsToError"); !ok || len(a) != 1 || !isCallOn(a[0], "st", "Details") {
		return g.errAt(as, "ClientError: expected `err = detailsToError(st.Details())`")
	}
	if ifs, ok := fd.Body.List[2].(*ast.IfStmt); !ok || ifs.Else != nil || ifs.Init != nil || len(ifs.Body.List) != 1 {
		return g.errAt(fd.Body.List[2], "ClientError: expected `if err != nil { return err }`")
	} else if be, ok := ifs.Cond.(*ast.BinaryExpr); !ok || be.Op != token.NEQ || !isIdent(be.X, "err") || !isIdent(be.Y, "nil") {
		return g.errAt(ifs, "ClientError: expected `if err != nil { return err }`")
	} else if rs, ok := ifs.Body.List[0].(*ast.ReturnStmt); !ok || len(rs.Results) != 1 || !isIdent(rs.Results[0], "err") {
		return g.errAt(ifs, "ClientError: expected `if err != nil { return err }`")
	}
	sw, ok = fd.Body.List[3].(*ast.SwitchStmt)
	if !ok || sw.Init != nil || !isCallOn(sw.Tag, "st", "Code") {
		return g.errAt(fd.Body.List[3], "ClientError: expected `switch st.Code()`")
	}
	cliTab, cliDef, err := g.tagSwitch(sw, g.grpcCode, func(cc *ast.CaseClause) (string, error) {
		if len(cc.Body) != 1 {
			return "", g.errAt(cc, "ClientError: case body must be one return")
		}
		return g.wrapReturn(cc.Body[0], true)
	})
	if err != nil {
		return err
	}
	if cliDef == "" {
		return g.errAt(sw, "ClientError: switch without default (function would fall off its end)")
	}

	emitPairs(b, "error_code_table", "sentinel * code", codeTab, "adapter/errors.Error: first case whose errors.Is matches")
	emitDef(b, "error_code_default", "code", codeDef)
	emitPairs(b, "pb_detail_table", "sentinel * detail", pbTab, "adapter/errors.errorToPbError")
	emitDef(b, "pb_detail_default", "detail", pbDef)
	emitPairs(b, "details_table", "detail * cshape", detTab, "adapter/errors.detailsToError (no case: next detail / nil)")
	b.WriteString("\n")
	emitPairs(b, "client_code_table", "code * cshape", cliTab, "adapter/errors.ClientError: switch st.Code()")
	emitDef(b, "client_code_default", "cshape", cliDef)
	return nil
}

func (g *gen) genLevels(root string, plevels []enumVal, b *strings.Builder) error {
	path := filepath.Join(root, "internal", "adapter", "iso_level", "convert.go")
	f, err := g.parse(path)
	if err != nil {
		return err
	}
	plevel := func(e ast.Expr) (string, error) {
		n, ok := sel(e, "store")
		if !ok || !enumHas(plevels, n) {
			return "", g.errAt(e, "expected store.TxIsoLevel_<…> declared in store_service.pb.go")
		}
		return n, nil
	}
	one := func(name string, key, val func(ast.Expr) (string, error)) ([]pair, string, error) {
		fd := funcDecl(f, name)
		if fd == nil {
			return nil, "", fmt.Errorf("%s: func %s not found", path, name)
		}
		if len(fd.Body.List) != 1 {
			return nil, "", g.errAt(fd, "%s: body must be a single switch", name)
		}
		sw, ok := fd.Body.List[0].(*ast.SwitchStmt)
		if !ok || sw.Init != nil || !isIdent(sw.Tag, "level") {
			return nil, "", g.errAt(fd, "%s: expected `switch level`", name)
		}
		tab, def, err := g.tagSwitch(sw, key, func(cc *ast.CaseClause) (string, error) {
			if len(cc.Body) != 1 {
				return "", g.errAt(cc, "%s: case body must be one return", name)
			}
			rs, ok := cc.Body[0].(*ast.ReturnStmt)
			if !ok || len(rs.Results) != 1 {
				return "", g.errAt(cc, "%s: case body must be one return", name)
			}
			return val(rs.Results[0])
		})
		if err != nil {
			return nil, "", err
		}
		if def == "" {
			return nil, "", g.errAt(sw, "%s: switch without default", name)
		}
		return tab, def, nil
	}
	conv, convDef, err := one("Convert", plevel, g.level)
	if err != nil {
		return err
	}
	back, backDef, err := one("ConvertToGrpc", g.level, plevel)
	if err != nil {
		return err
	}
	emitPairs(b, "convert_table", "plevel * mlevel", conv, "adapter/iso_level.Convert")
	emitDef(b, "convert_default", "mlevel", convDef)
	emitPairs(b, "to_grpc_table", "mlevel * plevel", back, "adapter/iso_level.ConvertToGrpc")
	emitDef(b, "to_grpc_default", "plevel", backDef)
	return nil
}

func emitPairs(b *strings.Builder, name, typ string, tab []pair, comment string) {
	fmt.Fprintf(b, "(* %s *)\nDefinition %s : list (%s) :=\n  [", comment, name, typ)
	for i, p := range tab {
		if i > 0 {
			b.WriteString(";\n   ")
		}
		fmt.Fprintf(b, "(%s, %s)", p.a, p.b)
	}
	b.WriteString("].\n")
}

func emitDef(b *strings.Builder, name, typ, val string) {
	fmt.Fprintf(b, "Definition %s : %s := %s.\n\n", name, typ, val)
}

func emitList(b *strings.Builder, name, typ string, l []string, comment string) {
	fmt.Fprintf(b, "(* %s *)\nDefinition %s : list %s :=\n  [%s].\n\n", comment, name, typ, strings.Join(l, "; "))
}

func emitEnum(b *strings.Builder, name, typ string, vals []enumVal, comment string) {
	fmt.Fprintf(b, "(* %s *)\nDefinition %s : list (%s * nat) :=\n  [", comment, name, typ)
	for i, v := range vals {
		if i > 0 {
			b.WriteString("; ")
		}
		fmt.Fprintf(b, "(%s, %d)", v.name, v.val)
	}
	b.WriteString("].\n\n")
}

func genErrMap(root string) (string, error) {
	g := &gen{fset: token.NewFileSet()}
	if err := g.readSentinels(root); err != nil {
		return "", err
	}
	if err := g.readLevels(root); err != nil {
		return "", err
	}
	details, err := g.readEnum(filepath.Join(root, "internal", "proto", "error.pb.go"), "ErrorCode")
	if err != nil {
		return "", err
	}
	plevels, err := g.readEnum(filepath.Join(root, "internal", "proto", "store_service.pb.go"), "TxIsoLevel")
	if err != nil {
		return "", err
	}

	var b strings.Builder
	b.WriteString("(* GENERATED by `fsdbh gen-errmap <repo root>` (harness/gen_errmap.go) from the Go AST of\n" +
		"     errors.go, db.go, internal/proto/error.pb.go, internal/proto/store_service.pb.go,\n" +
		"     internal/adapter/errors/error.go, internal/adapter/iso_level/convert.go.\n" +
		"   DO NOT EDIT: ./check C11 regenerates this file from the working tree on every run and\n" +
		"   re-checks the theorems of ErrMapProofs.v / Properties/C11.v against it.\n" +
		"   Only tables: every entry is a constructor of a type declared in ErrMap.v, in source order. *)\n" +
		"From Coq Require Import List.\nFrom FsDb Require Import ErrMap.\nImport ListNotations.\n\n")
	emitList(&b, "declared_sentinels", "sentinel", g.sentinels, "errors.go: every `Err… = errors.New(…)`, declaration order")
	var al []string
	for a := range g.alias {
		al = append(al, a)
	}
	sort.Strings(al)
	var at []string
	for _, a := range al {
		at = append(at, fmt.Sprintf("(* %s *) %s", a, g.alias[a]))
	}
	emitList(&b, "alias_targets", "sentinel", at, "errors.go: backward-compatibility names (sorted), each is the very same value as its target")
	emitList(&b, "declared_levels", "mlevel", g.levels, "db.go: model.TxIsoLevel(iota) block; position = numeric value")
	emitEnum(&b, "detail_numbers", "detail", details, "internal/proto/error.pb.go: ErrorCode constants with their wire numbers")
	emitEnum(&b, "plevel_numbers", "plevel", plevels, "internal/proto/store_service.pb.go: TxIsoLevel constants with their wire numbers")
	if err := g.genErrors(root, details, &b); err != nil {
		return "", err
	}
	if err := g.genLevels(root, plevels, &b); err != nil {
		return "", err
	}
	return b.String(), nil
}
