package main

// Translator for C20 (DESIGN.md section 3, "Translator"): reads config/config.go with
// go/parser and prints coq/ConfigGen.v:
//   * every constant of the file's const blocks (integers as Z, strings as Coq strings),
//   * the os.LookupEnv calls in execution order, starting at (*Config).ParseEnv and following
//     calls to methods of the receiver's struct fields in source order,
//   * the defaultConfig composite literal flattened to (field path, Go expression) pairs.
// It does not interpret anything else.

import (
	"bytes"
	"fmt"
	"go/ast"
	"go/parser"
	"go/printer"
	"go/token"
	"go/types"
	"math/big"
	"os"
	"strconv"
	"strings"
	"unicode"
)

type gval struct {
	isStr bool
	s     string
	n     *big.Int
}

var timeUnits = map[string]int64{
	"Nanosecond": 1, "Microsecond": 1e3, "Millisecond": 1e6, "Second": 1e9, "Minute": 60e9, "Hour": 3600e9,
}

func snake(id string) string {
	r := []rune(id)
	var b strings.Builder
	for i, c := range r {
		if unicode.IsUpper(c) && i > 0 {
			prevLower := !unicode.IsUpper(r[i-1])
			nextLower := i+1 < len(r) && unicode.IsLower(r[i+1])
			if prevLower || nextLower {
				b.WriteByte('_')
			}
		}
		b.WriteRune(unicode.ToLower(c))
	}
	return b.String()
}

func coqString(s string) string { return `"` + strings.ReplaceAll(s, `"`, `""`) + `"` }

type genState struct {
	consts  map[string]gval
	order   []string
	structs map[string]map[string]string // struct type -> field -> type name
	methods map[string]*ast.FuncDecl     // "Type.Method"
}

func (g *genState) eval(e ast.Expr) (gval, error) {
	switch x := e.(type) {
	case *ast.BasicLit:
		switch x.Kind {
		case token.INT:
			n, ok := new(big.Int).SetString(strings.ReplaceAll(x.Value, "_", ""), 0)
			if !ok {
				return gval{}, fmt.Errorf("bad integer literal %s", x.Value)
			}
			return gval{n: n}, nil
		case token.STRING:
			s, err := strconv.Unquote(x.Value)
			if err != nil {
				return gval{}, err
			}
			return gval{isStr: true, s: s}, nil
		}
	case *ast.Ident:
		if v, ok := g.consts[x.Name]; ok {
			return v, nil
		}
	case *ast.ParenExpr:
		return g.eval(x.X)
	case *ast.SelectorExpr:
		if p, ok := x.X.(*ast.Ident); ok && p.Name == "time" {
			if u, ok := timeUnits[x.Sel.Name]; ok {
				return gval{n: big.NewInt(u)}, nil
			}
		}
	case *ast.UnaryExpr:
		v, err := g.eval(x.X)
		if err == nil && !v.isStr && x.Op == token.SUB {
			return gval{n: new(big.Int).Neg(v.n)}, nil
		}
		if err == nil && !v.isStr && x.Op == token.ADD {
			return v, nil
		}
	case *ast.BinaryExpr:
		a, err1 := g.eval(x.X)
		b, err2 := g.eval(x.Y)
		if err1 == nil && err2 == nil && !a.isStr && !b.isStr {
			switch x.Op {
			case token.MUL:
				return gval{n: new(big.Int).Mul(a.n, b.n)}, nil
			case token.ADD:
				return gval{n: new(big.Int).Add(a.n, b.n)}, nil
			case token.SUB:
				return gval{n: new(big.Int).Sub(a.n, b.n)}, nil
			}
		}
		if err1 == nil && err2 == nil && a.isStr && b.isStr && x.Op == token.ADD {
			return gval{isStr: true, s: a.s + b.s}, nil
		}
	case *ast.CallExpr: // conversions such as time.Duration(5) / uint64(7)
		if len(x.Args) == 1 {
			switch f := x.Fun.(type) {
			case *ast.SelectorExpr:
				if p, ok := f.X.(*ast.Ident); ok && p.Name == "time" && f.Sel.Name == "Duration" {
					return g.eval(x.Args[0])
				}
			case *ast.Ident:
				switch f.Name {
				case "int", "int64", "uint64", "uint", "int32", "uint32":
					return g.eval(x.Args[0])
				}
			}
		}
	}
	return gval{}, fmt.Errorf("cannot evaluate constant expression %s", types.ExprString(e))
}

func exprText(e ast.Expr) string {
	var b bytes.Buffer
	if err := printer.Fprint(&b, token.NewFileSet(), e); err != nil {
		return types.ExprString(e)
	}
	return strings.Join(strings.Fields(b.String()), " ")
}

func recvType(fd *ast.FuncDecl) string {
	if fd.Recv == nil || len(fd.Recv.List) != 1 {
		return ""
	}
	t := fd.Recv.List[0].Type
	if s, ok := t.(*ast.StarExpr); ok {
		t = s.X
	}
	if id, ok := t.(*ast.Ident); ok {
		return id.Name
	}
	return ""
}

func recvName(fd *ast.FuncDecl) string {
	if fd.Recv == nil || len(fd.Recv.List) != 1 || len(fd.Recv.List[0].Names) != 1 {
		return ""
	}
	return fd.Recv.List[0].Names[0].Name
}

// lookups appends the constants passed to os.LookupEnv, in execution order.
func (g *genState) lookups(key string, seen map[string]bool, out *[]string) error {
	fd := g.methods[key]
	if fd == nil || fd.Body == nil {
		return fmt.Errorf("method %s not found", key)
	}
	if seen[key] {
		return fmt.Errorf("recursive call of %s", key)
	}
	seen[key] = true
	defer delete(seen, key)
	typ, self := recvType(fd), recvName(fd)
	var err error
	ast.Inspect(fd.Body, func(n ast.Node) bool {
		c, ok := n.(*ast.CallExpr)
		if !ok || err != nil {
			return err == nil
		}
		sel, ok := c.Fun.(*ast.SelectorExpr)
		if !ok {
			return true
		}
		if p, ok := sel.X.(*ast.Ident); ok && p.Name == "os" && (sel.Sel.Name == "LookupEnv" || sel.Sel.Name == "Getenv") {
			if sel.Sel.Name != "LookupEnv" || len(c.Args) != 1 {
				err = fmt.Errorf("unsupported environment access %s", types.ExprString(c))
				return false
			}
			id, ok := c.Args[0].(*ast.Ident)
			if !ok {
				err = fmt.Errorf("os.LookupEnv argument is not a named constant: %s", types.ExprString(c.Args[0]))
				return false
			}
			if _, ok := g.consts[id.Name]; !ok {
				err = fmt.Errorf("os.LookupEnv argument %s is not a constant of this file", id.Name)
				return false
			}
			*out = append(*out, id.Name)
			return true
		}
		// self.Field.Method(...)  /  self.Method(...)
		switch x := sel.X.(type) {
		case *ast.SelectorExpr:
			if p, ok := x.X.(*ast.Ident); ok && p.Name == self {
				if ft, ok := g.structs[typ][x.Sel.Name]; ok {
					if _, ok := g.methods[ft+"."+sel.Sel.Name]; ok {
						err = g.lookups(ft+"."+sel.Sel.Name, seen, out)
					}
				}
			}
		case *ast.Ident:
			if x.Name == self {
				if _, ok := g.methods[typ+"."+sel.Sel.Name]; ok {
					err = g.lookups(typ+"."+sel.Sel.Name, seen, out)
				}
			}
		}
		return err == nil
	})
	return err
}

func (g *genState) flatten(prefix string, cl *ast.CompositeLit, out *[][2]string) {
	for _, el := range cl.Elts {
		kv, ok := el.(*ast.KeyValueExpr)
		if !ok {
			*out = append(*out, [2]string{prefix + "?", types.ExprString(el)})
			continue
		}
		name := types.ExprString(kv.Key)
		if sub, ok := kv.Value.(*ast.CompositeLit); ok {
			if id, ok := sub.Type.(*ast.Ident); ok {
				if _, ok := g.structs[id.Name]; ok {
					g.flatten(prefix+name+".", sub, out)
					continue
				}
			}
		}
		*out = append(*out, [2]string{prefix + name, exprText(kv.Value)})
	}
}

func genConfig(args []string) int {
	if len(args) < 1 {
		fmt.Fprintln(os.Stderr, "usage: fsdbh gen-config <path to config.go>")
		return 2
	}
	fset := token.NewFileSet()
	file, err := parser.ParseFile(fset, args[0], nil, 0)
	if err != nil {
		fmt.Fprintln(os.Stderr, "gen-config:", err)
		return 1
	}
	g := &genState{consts: map[string]gval{}, structs: map[string]map[string]string{}, methods: map[string]*ast.FuncDecl{}}
	var defaults [][2]string
	haveDefaults := false
	for _, d := range file.Decls {
		switch x := d.(type) {
		case *ast.FuncDecl:
			if t := recvType(x); t != "" {
				g.methods[t+"."+x.Name.Name] = x
			}
		case *ast.GenDecl:
			for _, sp := range x.Specs {
				switch s := sp.(type) {
				case *ast.TypeSpec:
					if st, ok := s.Type.(*ast.StructType); ok {
						fs := map[string]string{}
						for _, f := range st.Fields.List {
							tn := types.ExprString(f.Type)
							for _, n := range f.Names {
								fs[n.Name] = tn
							}
						}
						g.structs[s.Name.Name] = fs
					}
				case *ast.ValueSpec:
					if x.Tok == token.CONST {
						if len(s.Values) != len(s.Names) {
							fmt.Fprintf(os.Stderr, "gen-config: constant %s has no explicit value (iota/implicit repetition is not supported)\n", s.Names[0].Name)
							return 1
						}
						for i, n := range s.Names {
							v, err := g.eval(s.Values[i])
							if err != nil {
								fmt.Fprintf(os.Stderr, "gen-config: constant %s: %v\n", n.Name, err)
								return 1
							}
							g.consts[n.Name] = v
							g.order = append(g.order, n.Name)
						}
					}
				}
			}
		}
	}
	// defaultConfig is declared before the struct types in the file: second pass
	for _, d := range file.Decls {
		x, ok := d.(*ast.GenDecl)
		if !ok || x.Tok != token.VAR {
			continue
		}
		for _, sp := range x.Specs {
			s := sp.(*ast.ValueSpec)
			for i, n := range s.Names {
				if n.Name == "defaultConfig" && i < len(s.Values) {
					if cl, ok := s.Values[i].(*ast.CompositeLit); ok {
						g.flatten("", cl, &defaults)
						haveDefaults = true
					}
				}
			}
		}
	}
	if !haveDefaults {
		fmt.Fprintln(os.Stderr, "gen-config: var defaultConfig = Config{...} not found")
		return 1
	}
	var order []string
	if err := g.lookups("Config.ParseEnv", map[string]bool{}, &order); err != nil {
		fmt.Fprintln(os.Stderr, "gen-config:", err)
		return 1
	}

	var b strings.Builder
	b.WriteString("(* GENERATED by `fsdbh gen-config <repo>/config/config.go` - do not edit.\n")
	b.WriteString("   Constants, os.LookupEnv order and defaultConfig wiring of config/config.go.\n")
	b.WriteString("   Regenerated and compared on every run of ./check C20. *)\n")
	b.WriteString("From Coq Require Import ZArith String List.\nImport ListNotations.\nOpen Scope string_scope.\n\n")
	for _, n := range g.order {
		v := g.consts[n]
		if v.isStr {
			fmt.Fprintf(&b, "Definition %s : string := %s.\n", snake(n), coqString(v.s))
		} else {
			fmt.Fprintf(&b, "Definition %s : Z := (%s)%%Z.\n", snake(n), v.n.String())
		}
	}
	b.WriteString("\n(* arguments of the os.LookupEnv calls, in execution order from Config.ParseEnv *)\n")
	names := make([]string, len(order))
	for i, n := range order {
		names[i] = snake(n)
	}
	fmt.Fprintf(&b, "Definition env_lookup_order : list string :=\n  [%s].\n", strings.Join(names, "; "))
	b.WriteString("\n(* var defaultConfig = Config{...}: field path -> Go expression *)\n")
	b.WriteString("Definition default_config_fields : list (string * string) :=\n  [")
	for i, p := range defaults {
		if i > 0 {
			b.WriteString(";\n   ")
		}
		fmt.Fprintf(&b, "(%s, %s)", coqString(p[0]), coqString(p[1]))
	}
	b.WriteString("].\n")
	fmt.Print(b.String())
	return 0
}
