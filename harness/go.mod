module verifharness

go 1.23.0

require (
	github.com/glebziz/fs_db v0.0.0
	github.com/google/uuid v1.6.0
)

require (
	github.com/cespare/xxhash v1.1.0 // indirect
	github.com/cespare/xxhash/v2 v2.3.0 // indirect
	github.com/dgraph-io/badger/v3 v3.2103.5 // indirect
	github.com/dgraph-io/ristretto v0.2.0 // indirect
	github.com/dustin/go-humanize v1.0.1 // indirect
	github.com/gogo/protobuf v1.3.2 // indirect
	github.com/golang/groupcache v0.0.0-20210331224755-41bb18bfe9da // indirect
	github.com/golang/protobuf v1.5.4 // indirect
	github.com/golang/snappy v0.0.4 // indirect
	github.com/google/flatbuffers v24.3.25+incompatible // indirect
	github.com/klauspost/compress v1.17.11 // indirect
	github.com/pkg/errors v0.9.1 // indirect
	go.opencensus.io v0.24.0 // indirect
	golang.org/x/net v0.31.0 // indirect
	golang.org/x/sys v0.27.0 // indirect
	google.golang.org/protobuf v1.35.2 // indirect
)

replace github.com/glebziz/fs_db => /repo
