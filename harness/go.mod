module verifharness

go 1.23.0

require github.com/glebziz/fs_db v0.0.0

replace github.com/glebziz/fs_db => /repo
