module verifharness

go 1.23.0

require github.com/glebziz/fs_db v0.0.0

replace github.com/glebziz/fs_db => /repo

require (
	github.com/brianvoe/gofakeit/v6 v6.28.0 // indirect
	github.com/dgraph-io/badger/v3 v3.2103.5 // indirect
	github.com/glebziz/containers v1.0.2 // indirect
	github.com/google/uuid v1.6.0
	github.com/mattn/go-sqlite3 v1.14.24 // indirect
	github.com/pressly/goose/v3 v3.22.1 // indirect
	github.com/samber/lo v1.47.0 // indirect
	github.com/shirou/gopsutil v3.21.11+incompatible // indirect
	github.com/stretchr/testify v1.9.0 // indirect
	go.uber.org/mock v0.5.0 // indirect
	google.golang.org/grpc v1.68.0 // indirect
	google.golang.org/protobuf v1.35.2 // indirect
	gopkg.in/yaml.v2 v2.4.0 // indirect
)

require (
	github.com/cespare/xxhash v1.1.0 // indirect
	github.com/cespare/xxhash/v2 v2.3.0 // indirect
	github.com/davecgh/go-spew v1.1.1 // indirect
	github.com/dgraph-io/ristretto v0.2.0 // indirect
	github.com/dustin/go-humanize v1.0.1 // indirect
	github.com/go-ole/go-ole v1.3.0 // indirect
	github.com/gogo/protobuf v1.3.2 // indirect
	github.com/golang/groupcache v0.0.0-20210331224755-41bb18bfe9da // indirect
	github.com/golang/protobuf v1.5.4 // indirect
	github.com/golang/snappy v0.0.4 // indirect
	github.com/google/flatbuffers v24.3.25+incompatible // indirect
	github.com/klauspost/compress v1.17.11 // indirect
	github.com/mfridman/interpolate v0.0.2 // indirect
	github.com/pkg/errors v0.9.1 // indirect
	github.com/pmezard/go-difflib v1.0.0 // indirect
	github.com/sethvargo/go-retry v0.3.0 // indirect
	github.com/yusufpapurcu/wmi v1.2.4 // indirect
	go.opencensus.io v0.24.0 // indirect
	go.uber.org/multierr v1.11.0 // indirect
	golang.org/x/net v0.31.0 // indirect
	golang.org/x/sync v0.9.0 // indirect
	golang.org/x/sys v0.27.0 // indirect
	golang.org/x/text v0.20.0 // indirect
	google.golang.org/genproto/googleapis/rpc v0.0.0-20241118233622-e639e219e697 // indirect
	gopkg.in/yaml.v3 v3.0.1 // indirect
)
