package main

// C20 — configuration precedence and validation.
//
//   fsdbh config <casefile>        one result line per case; every parse case runs the real
//                                  config.ParseConfig + Storage.Valid in a CHILD process
//                                  (environment variables are process state)
//   fsdbh config-child <conffile>  the child: prints one canonical result (no id)
//   fsdbh gen-config <config.go>   translator: constants / LookupEnv order / defaultConfig
//                                  wiring of config.go as a Coq file (coq/ConfigGen.v)
//
// Case lines (settings always in the order port dbPath maxDirCount rootDirs gcPeriod
// numWorkers sendDuration):
//   <id> P <gomaxprocs> <N|M|E|F> f0..f6 e0..e6
//        file mode: N no file given, M file named but missing, E empty file, F file with entries
//        file token: -  absent | !k malformed (variant k) | =VAL
//        env  token: -  unset  | e set to "" | !k malformed (variant k) | =VAL
//        VAL: decimal integer (durations: nanoseconds) | xHEX string | list: '-' (empty) or xHEX,xHEX,...
//        (ROOT_DIRS in the environment is one raw string xHEX; the code splits it on ';')
//   <id> V <db xHEX> <maxDirCount> <rootDirs list> <gcPeriod>     Storage.Valid only (in process)

import (
	"bufio"
	"bytes"
	"encoding/hex"
	"errors"
	"fmt"
	"os"
	"os/exec"
	"path/filepath"
	"runtime"
	"strconv"
	"strings"
	"sync"
	"time"

	fs_db "github.com/glebziz/fs_db"
	"github.com/glebziz/fs_db/config"
)

func init() {
	commands["config"] = configCmd
	commands["config-child"] = configChild
	commands["gen-config"] = genConfig
}

// The DOCUMENTED names (doc comments of config.Storage / WPool / Config): the spec side.
var docEnv = [7]string{"PORT", "DB_PATH", "DIR_COUNT", "ROOT_DIRS", "GC_PERIOD", "NUM_WORKERS", "SEND_DURATION"}

type skind int

const (
	kInt skind = iota
	kUint
	kDur
	kStr
	kList
)

var settingKind = [7]skind{kInt, kStr, kUint, kList, kDur, kInt, kDur}

// malformed texts, per kind; every entry must be rejected by the decoder / parser in question
var badFile = map[skind][]string{
	// (yaml.v2 coerces `1.5` to 1 for integer fields and a bare `5` to 5ns for durations: those are
	// values for the decoder, not malformed, and are not used here)
	kInt:  {"abc", `"12x"`, "[1]", "{a: 1}", "12x"},
	kUint: {"abc", "-1", "[1]", "7up"},
	kDur:  {"xyz", "[1s]", "1h1", `"5 s"`},
	kStr:  {"[1, 2]", "{a: b}"},
	kList: {"abc", "{a: b}", "[[a]]"},
}
var badEnv = map[skind][]string{
	kInt:  {"abc", "1.5", "12x", "0x10", " 5", "9223372036854775808"},
	kUint: {"abc", "-1", "1.5", "18446744073709551616"},
	kDur:  {"xyz", "5", "1h1", "5 s"},
}

func xstr(tok string) string {
	if !strings.HasPrefix(tok, "x") {
		panic("bad string token " + tok)
	}
	b, err := hex.DecodeString(tok[1:])
	if err != nil {
		panic(err)
	}
	return string(b)
}

func xenc(s string) string { return "x" + hex.EncodeToString([]byte(s)) }

func xlist(tok string) []string {
	if tok == "-" {
		return []string{}
	}
	var out []string
	for _, t := range strings.Split(tok, ",") {
		out = append(out, xstr(t))
	}
	return out
}

func xlistEnc(l []string) string {
	if len(l) == 0 {
		return "-"
	}
	p := make([]string, len(l))
	for i, s := range l {
		p[i] = xenc(s)
	}
	return strings.Join(p, ",")
}

func variant(tok string, n int) int {
	k := 0
	if len(tok) > 1 {
		k, _ = strconv.Atoi(tok[1:])
	}
	return k % n
}

// YAML double-quoted scalar (strconv.Quote's escapes are a subset of YAML's for ASCII input)
func yq(s string) string { return strconv.Quote(s) }

func fileText(kind skind, tok string) (string, bool) {
	switch {
	case tok == "-":
		return "", false
	case tok[0] == '!':
		l := badFile[kind]
		return l[variant(tok, len(l))], true
	case tok[0] == '=':
		v := tok[1:]
		switch kind {
		case kInt, kUint:
			return v, true
		case kDur:
			return v + "ns", true
		case kStr:
			return yq(xstr(v)), true
		case kList:
			items := xlist(v)
			q := make([]string, len(items))
			for i, s := range items {
				q[i] = yq(s)
			}
			return "[" + strings.Join(q, ", ") + "]", true
		}
	}
	panic("bad file token " + tok)
}

func envText(kind skind, tok string) (string, bool) {
	switch {
	case tok == "-":
		return "", false
	case tok == "e":
		return "", true
	case tok[0] == '!':
		l := badEnv[kind]
		if len(l) == 0 {
			panic("no malformed environment value exists for a string setting")
		}
		return l[variant(tok, len(l))], true
	case tok[0] == '=':
		v := tok[1:]
		switch kind {
		case kInt, kUint:
			return v, true
		case kDur:
			return v + "ns", true
		case kStr, kList:
			return xstr(v), true
		}
	}
	panic("bad env token " + tok)
}

func yamlOf(f []string) string {
	var b strings.Builder
	line := func(ind, key string, i int) {
		if txt, ok := fileText(settingKind[i], f[i]); ok {
			fmt.Fprintf(&b, "%s%s: %s\n", ind, key, txt)
		}
	}
	line("", "port", 0)
	if f[1] != "-" || f[2] != "-" || f[3] != "-" || f[4] != "-" {
		b.WriteString("storage:\n")
		line("  ", "dbPath", 1)
		line("  ", "maxDirCount", 2)
		line("  ", "rootDirs", 3)
		line("  ", "gcPeriod", 4)
	}
	if f[5] != "-" || f[6] != "-" {
		b.WriteString("wPool:\n")
		line("  ", "numWorkers", 5)
		line("  ", "sendDuration", 6)
	}
	if b.Len() == 0 {
		return "{}\n" // a file is given and is a (non-empty) document without any setting
	}
	return b.String()
}

func validResult(st config.Storage) string {
	err := st.Valid()
	switch {
	case err == nil:
		return fmt.Sprintf("ok/%s/%d/%s/%d", xenc(st.DbPath), st.MaxDirCount, xlistEnc(st.RootDirs), int64(st.GCPeriod))
	case errors.Is(err, fs_db.ErrEmptyDbPath):
		return "ErrEmptyDbPath"
	case errors.Is(err, fs_db.ErrEmptyRootDirs):
		return "ErrEmptyRootDirs"
	}
	return "ErrOther"
}

func configChild(args []string) (rc int) {
	defer func() {
		if r := recover(); r != nil {
			fmt.Println("PANIC", strings.ReplaceAll(fmt.Sprint(r), "\n", " "))
			rc = 0
		}
	}()
	path := ""
	if len(args) > 0 {
		path = args[0]
	}
	if os.Getenv("FSDBH_PRELUDE") == "1" {
		// ParseConfig is a function of the file and the environment: an EARLIER call in the same process, under another
		// environment, must not change what this one returns (no hidden state, no shared default values)
		saved := map[string]string{}
		for _, n := range docEnv {
			if v, ok := os.LookupEnv(n); ok {
				saved[n] = v
			}
			os.Unsetenv(n)
		}
		pre := map[string]string{"ROOT_DIRS": "/mnt/prelude", "PORT": "1", "DB_PATH": "prelude_db", "DIR_COUNT": "7", "GC_PERIOD": "7s",
			"NUM_WORKERS": "7", "SEND_DURATION": "7ms"}
		for _, n := range docEnv {
			if v, ok := pre[n]; ok {
				os.Setenv(n, v)
			}
		}
		_, _ = config.ParseConfig("")
		_, _ = config.ParseConfig(path)
		for _, n := range docEnv {
			os.Unsetenv(n)
		}
		for n, v := range saved {
			os.Setenv(n, v)
		}
	}
	conf, err := config.ParseConfig(path)
	if err != nil {
		fmt.Println("err parse")
		return 0
	}
	fmt.Printf("ok p=%d db=%s dc=%d rd=%s gc=%d nw=%d sd=%d valid=%s\n",
		conf.Port, xenc(conf.Storage.DbPath), conf.Storage.MaxDirCount, xlistEnc(conf.Storage.RootDirs),
		int64(conf.Storage.GCPeriod), conf.WPool.NumWorkers, int64(conf.WPool.SendDuration),
		validResult(conf.Storage))
	return 0
}

func parseCase(self, scratch string, t []string) string {
	if len(t) != 18 {
		return "BADCASE"
	}
	g, mode, f, e := t[2], t[3], t[4:11], t[11:18]
	dir, err := os.MkdirTemp(scratch, "c")
	if err != nil {
		return "HARNESS " + err.Error()
	}
	defer os.RemoveAll(dir)
	path := ""
	switch mode {
	case "N":
	case "M":
		path = filepath.Join(dir, "missing.yaml")
	case "E":
		path = filepath.Join(dir, "conf.yaml")
		if err := os.WriteFile(path, nil, 0o600); err != nil {
			return "HARNESS " + err.Error()
		}
	case "F":
		path = filepath.Join(dir, "conf.yaml")
		if err := os.WriteFile(path, []byte(yamlOf(f)), 0o600); err != nil {
			return "HARNESS " + err.Error()
		}
	default:
		return "BADCASE"
	}
	cmd := exec.Command(self, "config-child", path)
	env := []string{"GOMAXPROCS=" + g} // nothing is inherited from the harness's own environment
	for i := 0; i < 7; i++ {
		if txt, ok := envText(settingKind[i], e[i]); ok {
			env = append(env, docEnv[i]+"="+txt)
		}
	}
	cmd.Env = env
	var out, errb bytes.Buffer
	cmd.Stdout, cmd.Stderr = &out, &errb
	if err := cmd.Run(); err != nil {
		return "CHILDFAIL " + strings.ReplaceAll(err.Error()+" "+errb.String(), "\n", " ")
	}
	res := strings.TrimSpace(out.String())
	// the same case once more in a process that has already parsed a configuration under another environment
	cmd2 := exec.Command(self, "config-child", path)
	cmd2.Env = append(append([]string{}, env...), "FSDBH_PRELUDE=1")
	var out2 bytes.Buffer
	cmd2.Stdout = &out2
	if err := cmd2.Run(); err != nil {
		return "CHILDFAIL(prelude) " + err.Error()
	}
	if r2 := strings.TrimSpace(out2.String()); r2 != res {
		return "STATEFUL " + r2 + " <> " + res
	}
	return res
}

func validCase(t []string) (res string) {
	defer func() {
		if r := recover(); r != nil {
			res = "PANIC " + fmt.Sprint(r)
		}
	}()
	if len(t) != 6 {
		return "BADCASE"
	}
	dc, err := strconv.ParseUint(t[3], 10, 64)
	if err != nil {
		return "BADCASE"
	}
	gc, err := strconv.ParseInt(t[5], 10, 64)
	if err != nil {
		return "BADCASE"
	}
	st := config.Storage{DbPath: xstr(t[2]), MaxDirCount: dc, RootDirs: xlist(t[4]), GCPeriod: time.Duration(gc)}
	return "valid=" + validResult(st)
}

func configCmd(args []string) int {
	if len(args) < 1 {
		fmt.Fprintln(os.Stderr, "usage: fsdbh config <casefile>")
		return 2
	}
	self, err := os.Executable()
	if err != nil {
		fmt.Fprintln(os.Stderr, err)
		return 2
	}
	in, err := os.Open(args[0])
	if err != nil {
		fmt.Fprintln(os.Stderr, err)
		return 2
	}
	defer in.Close()
	var lines []string
	sc := bufio.NewScanner(in)
	sc.Buffer(make([]byte, 1<<20), 1<<28)
	for sc.Scan() {
		l := strings.TrimSpace(sc.Text())
		if l == "" || l[0] == '#' {
			continue
		}
		lines = append(lines, l)
	}
	scratch, err := os.MkdirTemp("", "fsdbh-config-")
	if err != nil {
		fmt.Fprintln(os.Stderr, err)
		return 2
	}
	defer os.RemoveAll(scratch)
	res := make([]string, len(lines))
	var wg sync.WaitGroup
	next := make(chan int)
	for w := 0; w < runtime.NumCPU(); w++ {
		wg.Add(1)
		go func() {
			defer wg.Done()
			for k := range next {
				t := strings.Fields(lines[k])
				var r string
				func() {
					defer func() {
						if p := recover(); p != nil {
							r = "BADCASE " + fmt.Sprint(p)
						}
					}()
					switch {
					case len(t) >= 2 && t[1] == "P":
						r = parseCase(self, scratch, t)
					case len(t) >= 2 && t[1] == "V":
						r = validCase(t)
					default:
						r = "BADCASE"
					}
				}()
				res[k] = t[0] + " " + r
			}
		}()
	}
	for k := range lines {
		next <- k
	}
	close(next)
	wg.Wait()
	out := bufio.NewWriter(os.Stdout)
	defer out.Flush()
	for _, r := range res {
		fmt.Fprintln(out, r)
	}
	return 0
}
