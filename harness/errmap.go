package main

import (
	"fmt"
	"strconv"
	"strings"

	"github.com/glebziz/fs_db/pkg/verifapi"
)

func init() { perLine("errmap", errmapCase) }

// parseTree reads a prefix-notation error tree:
//
//	L<Sentinel> | O | W <tree> | J<n> <tree>*n      (n >= 1)
func parseTree(toks []string, pos int) (*verifapi.ErrTree, int, error) {
	if pos >= len(toks) {
		return nil, pos, fmt.Errorf("tree ends early")
	}
	t := toks[pos]
	switch t[0] {
	case 'L':
		return &verifapi.ErrTree{Kind: 'L', Sentinel: t[1:]}, pos + 1, nil
	case 'O':
		return &verifapi.ErrTree{Kind: 'O'}, pos + 1, nil
	case 'W':
		k, p, err := parseTree(toks, pos+1)
		if err != nil {
			return nil, p, err
		}
		return &verifapi.ErrTree{Kind: 'W', Kids: []*verifapi.ErrTree{k}}, p, nil
	case 'J':
		n, err := strconv.Atoi(t[1:])
		if err != nil || n < 1 {
			return nil, pos, fmt.Errorf("bad join arity %q", t)
		}
		j := &verifapi.ErrTree{Kind: 'J'}
		p := pos + 1
		for i := 0; i < n; i++ {
			var k *verifapi.ErrTree
			k, p, err = parseTree(toks, p)
			if err != nil {
				return nil, p, err
			}
			j.Kids = append(j.Kids, k)
		}
		return j, p, nil
	}
	return nil, pos, fmt.Errorf("bad token %q", t)
}

func set(l []string) string {
	if len(l) == 0 {
		return "-"
	}
	return strings.Join(l, ",")
}

// case lines:
//
//	<id> e <tree>            -> <id> e <code> <detail> in=<set> full=<set> code=<set>
//	<id> w <code#> <detail#|-> -> <id> w <set>          (client side alone on an arbitrary status)
//	<id> l <n>               -> <id> l <ConvertToGrpc n> <Convert of that>
//	<id> p <n>               -> <id> p <Convert n> <ConvertToGrpc of that>
//	<id> a                   -> <id> a ok | <id> a BAD <names>
func errmapCase(line string) (res string) {
	t := strings.Fields(line)
	id := t[0]
	defer func() {
		if r := recover(); r != nil {
			res = id + " PANIC " + fmt.Sprint(r)
		}
	}()
	if len(t) < 2 {
		return id + " ?"
	}
	switch t[1] {
	case "e":
		tree, end, err := parseTree(t, 2)
		if err != nil || end != len(t) {
			return id + " BADCASE"
		}
		e, err := verifapi.BuildErr(tree)
		if err != nil {
			return id + " BADCASE " + err.Error()
		}
		r, err := verifapi.ErrRoundTrip(e)
		if err != nil {
			return id + " WIRE-ERR " + err.Error()
		}
		if set(r.Direct) != set(r.Full) {
			return id + " WIRE-MISMATCH direct=" + set(r.Direct) + " wire=" + set(r.Full)
		}
		return fmt.Sprintf("%s e %s %s in=%s full=%s code=%s", id, r.Code, r.Detail, set(r.Input), set(r.Full), set(r.CodeOnly))
	case "w":
		c, err := strconv.ParseUint(t[2], 10, 32)
		if err != nil {
			return id + " BADCASE"
		}
		var d int64
		with := t[3] != "-"
		if with {
			if d, err = strconv.ParseInt(t[3], 10, 32); err != nil {
				return id + " BADCASE"
			}
		}
		cl, err := verifapi.ClientFromWire(uint32(c), with, int32(d))
		if err != nil {
			return id + " BADCASE " + err.Error()
		}
		return id + " w " + set(cl)
	case "l":
		n, err := strconv.ParseUint(t[2], 10, 8)
		if err != nil {
			return id + " BADCASE"
		}
		g := verifapi.IsoToGrpc(uint8(n))
		return fmt.Sprintf("%s l %d %d", id, g, verifapi.IsoFromGrpc(g))
	case "p":
		n, err := strconv.ParseInt(t[2], 10, 32)
		if err != nil {
			return id + " BADCASE"
		}
		m := verifapi.IsoFromGrpc(int32(n))
		return fmt.Sprintf("%s p %d %d", id, m, verifapi.IsoToGrpc(m))
	case "a":
		var bad []string
		for _, a := range verifapi.Aliases {
			if a.Alias != a.Target {
				bad = append(bad, a.Name)
			}
		}
		if len(bad) > 0 {
			return id + " a BAD " + strings.Join(bad, ",")
		}
		return id + " a ok"
	}
	return id + " ?"
}
