package main

// pool.go — C16: the worker pool (internal/utils/wpool).
//
//	fsdbh pool <casefile> [-quiet MS] [-arrive MS] [-settle MS] [-senddur US]
//	  schedule replay through the pause points, ONE case at a time (goroutines spawned by
//	  the pool — workers, flushers — are adopted as controller threads when they reach
//	  their first pause point; with one case at a time the adoption is unambiguous; the
//	  check runs several fsdbh processes in parallel instead).
//	  case:   <id> <var> <nw> <run> <lprogs> <sprogs> <sched>      (see ocaml/driver.ml, pool_case)
//	  output: <id> <ev>* ; end=<quiet|open|panic|deadlock> log=<executions in order|-> acc=<jobs|-> chan=<n> def=<0|1>
//	          flock=<0|1> live=<0|1> stranded=<0|1> panic=<none|text> counts=<j:n,...|-> tail=<...>
//	  After the schedule the controller lets every thread run freely and waits (by counting
//	  hook events, not by sleeping) until nothing can move any more.
//	fsdbh pool-rand <casefile> [-senddur US]
//	  randomized Send/Stop/Run programs under the real scheduler, no pauses.
//	  case:   <id> <seed> <nw> <senders> <jobsPerSender> <lifecycle ops: string over T,R or -> <gatedPercent>
//	  output: <id> ok|BAD <details>
//
// A fatal runtime error (e.g. "sync: unlock of unlocked mutex") kills the process; every
// output line is flushed as soon as it is complete and the current case's events are
// written to stderr as they happen, so the caller can tell which case died and where.

import (
	"bufio"
	"context"
	"flag"
	"fmt"
	"math/rand"
	"os"
	"sort"
	"strconv"
	"strings"
	"sync"
	"sync/atomic"
	"time"

	"github.com/glebziz/fs_db/pkg/verifapi"
)

func init() {
	commands["pool"] = poolCmd
	commands["pool-rand"] = poolRandCmd
}

// ---------------------------------------------------------------------------
// process-wide observation state of the current case (one case at a time)

type poolAdoptee struct {
	th    *Thread
	kind  byte // 'F' or 'W'
	named chan struct{}
}

type poolCase struct {
	free    atomic.Bool // no pausing, no adoption: only count
	adoptCh chan *poolAdoptee

	mu        sync.Mutex
	jobOf     map[int64]int // goroutine id of a sender -> job it is sending
	accepted  map[int]int   // job -> times enqueued/deferred by Send
	log       []int         // executions in order
	counts    map[int]int
	flushers  map[int64]bool
	workers   map[int64]bool
	begins    int
	ends      int
	enq       int // channel enqueues (Send + flusher)
	foreign   map[int64]*Thread
	afterStop []int // jobs that started while the harness knew the pool was stopped
	stopped   atomic.Bool
	running   atomic.Int64 // jobs inside Fn
}

var poolCur atomic.Pointer[poolCase]

// points that never pause (observation only)
var poolObsOnly = map[string]bool{
	"wpool.send.accepted":    true,
	"wpool.send.enqueued":    true,
	"wpool.lazy.pushed":      true,
	"wpool.flusher.enqueued": true,
}

func newPoolCase() *poolCase {
	return &poolCase{
		adoptCh:  make(chan *poolAdoptee, 64),
		jobOf:    map[int64]int{},
		accepted: map[int]int{},
		counts:   map[int]int{},
		flushers: map[int64]bool{},
		workers:  map[int64]bool{},
		foreign:  map[int64]*Thread{},
	}
}

// poolAt is the process-wide pause handler of the pool commands.
func poolAt(point string) {
	pc := poolCur.Load()
	if pc == nil {
		return
	}
	id := curGoid()
	// bookkeeping first (all goroutines)
	switch point {
	case "wpool.send.enqueued", "wpool.lazy.pushed":
		pc.mu.Lock()
		if j, ok := pc.jobOf[id]; ok {
			pc.accepted[j]++
		}
		if point == "wpool.send.enqueued" {
			pc.enq++
		}
		pc.mu.Unlock()
		return
	case "wpool.flusher.enqueued":
		pc.mu.Lock()
		pc.enq++
		pc.mu.Unlock()
		return
	case "wpool.send.accepted":
		return
	case "wpool.exec.begin":
		pc.mu.Lock()
		pc.begins++
		pc.mu.Unlock()
	case "wpool.exec.end":
		pc.mu.Lock()
		pc.ends++
		pc.mu.Unlock()
	case "wpool.run.afterTryLock":
		// a new channel is about to be made: what the old one still held is gone
		pc.mu.Lock()
		pc.enq = pc.begins
		pc.mu.Unlock()
	case "wpool.flusher.loop":
		pc.mu.Lock()
		pc.flushers[id] = true
		pc.mu.Unlock()
	case "wpool.worker.start":
		pc.mu.Lock()
		pc.workers[id] = true
		pc.mu.Unlock()
	case "wpool.flusher.exited", "wpool.worker.exited":
		pc.mu.Lock()
		delete(pc.flushers, id)
		delete(pc.workers, id)
		th := pc.foreign[id]
		delete(pc.foreign, id)
		pc.mu.Unlock()
		if th != nil {
			schedRegistry.Delete(id)
			select {
			case th.events <- Event{Thread: th.name, Kind: EvDone}:
			default:
			}
		}
		return
	}
	if pc.free.Load() {
		return
	}
	if v, ok := schedRegistry.Load(id); ok {
		v.(*Thread).At(point)
		return
	}
	// a goroutine spawned by the pool reaches its first pause point: adopt it
	var kind byte
	switch point {
	case "wpool.flusher.loop":
		kind = 'F'
	case "wpool.worker.start":
		kind = 'W'
	default:
		return
	}
	th := &Thread{
		events:  make(chan Event, 4),
		release: make(chan struct{}, 1),
		gone:    make(chan struct{}),
	}
	th.goid.Store(id)
	ad := &poolAdoptee{th: th, kind: kind, named: make(chan struct{})}
	pc.mu.Lock()
	pc.foreign[id] = th
	pc.mu.Unlock()
	schedRegistry.Store(id, th)
	pc.adoptCh <- ad
	select {
	case <-ad.named:
	case <-th.gone:
		return
	}
	th.At(point)
}

// ---------------------------------------------------------------------------
// replay of one case

type poolSpec struct {
	id      string
	variant string
	nw      int
	run     bool
	lprogs  [][]byte // 'T' | 'R'
	sprogs  [][]int
	sched   []poolStep
}

type poolStep struct {
	name        string
	expectBlock bool
}

func poolParse(line string) (poolSpec, error) {
	t := strings.Fields(line)
	var c poolSpec
	if len(t) > 0 {
		c.id = t[0]
	}
	if len(t) != 7 {
		return c, fmt.Errorf("want 7 fields, got %d", len(t))
	}
	c.variant = t[1]
	var err error
	if c.nw, err = strconv.Atoi(t[2]); err != nil || c.nw < 1 {
		return c, fmt.Errorf("bad nw %q", t[2])
	}
	c.run = t[3] == "1"
	if t[4] != "-" {
		for _, cl := range strings.Split(t[4], "|") {
			if cl == "e" {
				c.lprogs = append(c.lprogs, nil)
				continue
			}
			for _, ch := range cl {
				if ch != 'T' && ch != 'R' {
					return c, fmt.Errorf("bad lifecycle op %q", ch)
				}
			}
			c.lprogs = append(c.lprogs, []byte(cl))
		}
	}
	if t[5] != "-" {
		for _, cl := range strings.Split(t[5], "|") {
			var jobs []int
			if cl != "e" {
				for _, f := range strings.Split(cl, ",") {
					j, err := strconv.Atoi(f)
					if err != nil {
						return c, fmt.Errorf("bad job %q", f)
					}
					jobs = append(jobs, j)
				}
			}
			c.sprogs = append(c.sprogs, jobs)
		}
	}
	if t[6] != "-" {
		for _, tok := range strings.Split(t[6], ".") {
			tok = strings.TrimSuffix(tok, "!")
			if len(tok) < 2 {
				return c, fmt.Errorf("bad schedule token %q", tok)
			}
			st := poolStep{name: strings.ToUpper(tok[:1]) + tok[1:]}
			st.expectBlock = tok[0] >= 'a' && tok[0] <= 'z'
			switch st.name[0] {
			case 'L', 'S', 'F', 'W':
			default:
				return c, fmt.Errorf("bad schedule token %q", tok)
			}
			c.sched = append(c.sched, st)
		}
	}
	return c, nil
}

type poolRun struct {
	pc       *poolCase
	ctl      *Controller
	opts     SchedOpts
	foreign  map[string]*Thread
	pendF    []*poolAdoptee
	pendW    []*poolAdoptee
	nF       int
	nW       int
	nwPerRun int
}

// next adoptee of the given kind (waits at most limit)
func (r *poolRun) adopt(kind byte, limit time.Duration) *poolAdoptee {
	take := func() *poolAdoptee {
		q := &r.pendF
		if kind == 'W' {
			q = &r.pendW
		}
		if len(*q) == 0 {
			return nil
		}
		a := (*q)[0]
		*q = (*q)[1:]
		return a
	}
	deadline := time.After(limit)
	for {
		if a := take(); a != nil {
			return a
		}
		select {
		case a := <-r.pc.adoptCh:
			if a.kind == 'F' {
				r.pendF = append(r.pendF, a)
			} else {
				r.pendW = append(r.pendW, a)
			}
		case <-deadline:
			return nil
		}
	}
}

func (r *poolRun) step(st poolStep) Event {
	name := st.name
	kind := name[0]
	if kind == 'L' || kind == 'S' {
		if r.ctl.byName[name] == nil {
			return Event{Thread: name, Kind: EvBlocked, Point: "none"}
		}
		return r.ctl.Step(name, st.expectBlock)
	}
	th := r.foreign[name]
	idx, _ := strconv.Atoi(name[1:])
	needNew := th == nil || (th.state == tsDone && kind == 'W')
	if kind == 'F' && th == nil && idx != r.nF {
		return Event{Thread: name, Kind: EvBlocked, Point: "none"}
	}
	if needNew {
		// a worker name is re-used by the goroutine the next Run spawns
		limit := 500 * time.Millisecond
		a := r.adopt(kind, limit)
		if a == nil {
			if th != nil {
				return r.ctl.step(th, r.opts.Quiet, 0)
			}
			return Event{Thread: name, Kind: EvBlocked, Point: "none"}
		}
		a.th.name = name
		a.th.ctl = r.ctl
		a.th.state = tsInFlight
		r.foreign[name] = a.th
		if kind == 'F' {
			r.nF++
		}
		close(a.named)
		th = a.th
	}
	if st.expectBlock {
		return r.ctl.step(th, r.opts.Quiet, 0)
	}
	return r.ctl.step(th, r.opts.Arrive, r.opts.FastHold)
}

// poolEvString renders an event like the model does.
func poolEvString(e Event) string {
	if e.Kind == EvBlocked && e.Point == "none" {
		return e.Thread + ":none"
	}
	return e.String()
}

func poolJobs(l []int) string {
	if len(l) == 0 {
		return "-"
	}
	s := make([]string, len(l))
	for i, j := range l {
		s[i] = strconv.Itoa(j)
	}
	return strings.Join(s, ",")
}

func poolReplay(line string, opts SchedOpts, sendDur, settle time.Duration) (res string) {
	c, err := poolParse(line)
	if err != nil {
		return c.id + " BADCASE " + err.Error()
	}
	pc := newPoolCase()
	poolCur.Store(pc)
	defer poolCur.Store(nil)

	p := verifapi.NewPool(c.nw, sendDur)
	bg := context.Background()
	ctl := NewController(opts)
	verifapi.SetHandlers(poolAt, nil) // NewController installs schedAt once; the pool handler wraps it
	r := &poolRun{pc: pc, ctl: ctl, opts: opts, foreign: map[string]*Thread{}}

	jobFn := func(j int) func(ctx context.Context) error {
		return func(ctx context.Context) error {
			pc.mu.Lock()
			pc.log = append(pc.log, j)
			pc.counts[j]++
			pc.mu.Unlock()
			return nil
		}
	}
	if c.run {
		p.Run(bg) // on this (uncontrolled) goroutine: the workers park at wpool.worker.start until adopted
	}
	for i, prog := range c.lprogs {
		prog := prog
		ctl.Thread(fmt.Sprintf("L%d", i), func(*Thread) string {
			for _, op := range prog {
				if op == 'T' {
					p.Stop()
				} else {
					p.Run(bg)
				}
			}
			return "ok"
		})
	}
	for i, jobs := range c.sprogs {
		jobs := jobs
		name := fmt.Sprintf("S%d", i)
		ctl.Thread(name, func(*Thread) string {
			id := curGoid()
			for _, j := range jobs {
				pc.mu.Lock()
				pc.jobOf[id] = j
				pc.mu.Unlock()
				verifapi.PoolSend(bg, p, name, jobFn(j))
			}
			return "ok"
		})
	}

	var evs []string
	note := func(e Event) {
		s := poolEvString(e)
		evs = append(evs, s)
		fmt.Fprintf(os.Stderr, "%s ", s)
	}
	fmt.Fprintf(os.Stderr, "\ncase %s: ", c.id)
	for _, e := range ctl.Start() {
		note(e)
	}
	for _, st := range c.sched {
		note(r.step(st))
	}

	// free run: nobody pauses any more; wait until nothing moves
	pc.free.Store(true)
	ctl.Abandon()
	drainAdopt := func() {
		for {
			select {
			case a := <-pc.adoptCh:
				a.th.abandoned.Store(true)
				close(a.th.gone)
			default:
				return
			}
		}
	}
	for _, a := range append(r.pendF, r.pendW...) {
		a.th.abandoned.Store(true)
		close(a.th.gone)
	}
	for _, th := range r.foreign {
		if !th.abandoned.Swap(true) {
			close(th.gone)
		}
	}
	drainAdopt()

	clientsDone := func() (bool, string) {
		for _, th := range ctl.threads {
			if th.state == tsDone {
				continue
			}
			select {
			case ev := <-th.events:
				if ev.Kind == EvDone {
					th.state = tsDone
					th.result = ev.Result
					continue
				}
			default:
			}
			if th.state != tsDone {
				return false, th.name
			}
		}
		return true, ""
	}
	end := "quiet"
	tail := "none"
	deadline := time.Now().Add(settle)
	stable := 0
	for {
		drainAdopt()
		done, who := clientsDone()
		pc.mu.Lock()
		idle := len(pc.flushers) == 0 && pc.begins == pc.ends && (len(pc.workers) == 0 || pc.enq == pc.begins)
		pc.mu.Unlock()
		if done && idle {
			stable++
			if stable >= 3 {
				break
			}
		} else {
			stable = 0
		}
		if time.Now().After(deadline) {
			if !done {
				end = "deadlock"
				tail = "stuck:" + who
			} else {
				end = "open"
			}
			break
		}
		time.Sleep(500 * time.Microsecond)
	}

	panicText := "none"
	for _, th := range ctl.threads {
		if th.state == tsDone && strings.HasPrefix(th.result, "PANIC: ") {
			panicText = th.name + ":" + strings.ReplaceAll(strings.TrimPrefix(th.result, "PANIC: "), " ", "_")
			end = "panic"
			break
		}
	}
	snap := verifapi.PoolSnapshot(p)
	pc.mu.Lock()
	log := append([]int(nil), pc.log...)
	var acc []int
	for j := range pc.accepted {
		acc = append(acc, j)
	}
	sort.Ints(acc)
	var cs []string
	var keys []int
	for j := range pc.counts {
		keys = append(keys, j)
	}
	sort.Ints(keys)
	for _, j := range keys {
		cs = append(cs, fmt.Sprintf("%d:%d", j, pc.counts[j]))
	}
	nfl, nwk := len(pc.flushers), len(pc.workers)
	pc.mu.Unlock()
	counts := "-"
	if len(cs) > 0 {
		counts = strings.Join(cs, ",")
	}
	b := func(x bool) int {
		if x {
			return 1
		}
		return 0
	}
	live := nwk > 0
	res = fmt.Sprintf("%s %s ; end=%s log=%s acc=%s chan=%d def=%d flock=%d live=%d stranded=%d panic=%s counts=%s tail=%s",
		c.id, strings.Join(evs, " "), end, poolJobs(log), poolJobs(acc), snap.ChanLen, b(snap.Deferred), b(snap.FlusherLocked),
		b(live), b(snap.Deferred && nfl == 0), panicText, counts, tail)

	// leave no goroutines behind: stop the pool if it is still running (best effort)
	if live && end != "deadlock" {
		func() {
			defer func() { _ = recover() }()
			p.Stop()
		}()
	}
	return res
}

func poolReadLines(file string) ([]string, error) {
	in, err := os.Open(file)
	if err != nil {
		return nil, err
	}
	defer in.Close()
	var lines []string
	sc := bufio.NewScanner(in)
	sc.Buffer(make([]byte, 1<<20), 1<<28)
	for sc.Scan() {
		l := strings.TrimSpace(sc.Text())
		if l == "" || l[0] == '#' {
			continue
		}
		lines = append(lines, l)
	}
	return lines, nil
}

func poolCmd(args []string) int {
	fs := flag.NewFlagSet("pool", flag.ContinueOnError)
	quiet := fs.Int("quiet", 300, "ms without an event before an expected block is reported")
	arrive := fs.Int("arrive", 3000, "ms without an event before an unexpected block is reported")
	settle := fs.Int("settle", 2000, "ms budget of the free run after the schedule")
	senddur := fs.Int("senddur", 1000, "SendDuration in microseconds")
	hold := fs.Int("hold", 50, "ms a wait state must persist when progress was expected")
	var pos []string
	rest := args
	for len(rest) > 0 {
		if err := fs.Parse(rest); err != nil {
			return 2
		}
		rest = fs.Args()
		if len(rest) > 0 {
			pos = append(pos, rest[0])
			rest = rest[1:]
		}
	}
	if len(pos) == 0 {
		fmt.Fprintln(os.Stderr, "usage: fsdbh pool <casefile> [-quiet MS] [-arrive MS] [-settle MS] [-senddur US] [-hold MS]")
		return 2
	}
	lines, err := poolReadLines(pos[0])
	if err != nil {
		fmt.Fprintln(os.Stderr, err)
		return 2
	}
	opts := DefaultSchedOpts()
	opts.Quiet = time.Duration(*quiet) * time.Millisecond
	opts.Arrive = time.Duration(*arrive) * time.Millisecond
	opts.FastHold = time.Duration(*hold) * time.Millisecond
	w := bufio.NewWriter(os.Stdout)
	for _, l := range lines {
		fmt.Fprintln(w, poolReplay(l, opts, time.Duration(*senddur)*time.Microsecond, time.Duration(*settle)*time.Millisecond))
		w.Flush()
	}
	return 0
}

// ---------------------------------------------------------------------------
// randomized programs under the real scheduler

func poolRandCase(line string, sendDur time.Duration) string {
	t := strings.Fields(line)
	if len(t) != 7 {
		return t[0] + " BADCASE"
	}
	id := t[0]
	seed, _ := strconv.ParseInt(t[1], 10, 64)
	nw, _ := strconv.Atoi(t[2])
	nsend, _ := strconv.Atoi(t[3])
	per, _ := strconv.Atoi(t[4])
	life := t[5]
	if life == "-" {
		life = ""
	}
	gated, _ := strconv.Atoi(t[6])
	rng := rand.New(rand.NewSource(seed))

	pc := newPoolCase()
	pc.free.Store(true)
	poolCur.Store(pc)
	defer poolCur.Store(nil)
	verifapi.SetHandlers(poolAt, nil)

	p := verifapi.NewPool(nw, sendDur)
	bg := context.Background()
	var problems []string
	var pmu sync.Mutex
	bad := func(f string, a ...any) {
		pmu.Lock()
		if len(problems) < 6 {
			problems = append(problems, strings.ReplaceAll(fmt.Sprintf(f, a...), " ", "_"))
		}
		pmu.Unlock()
	}

	total := nsend * per
	gates := make([]chan struct{}, total)
	isGated := make([]bool, total)
	for j := range gates {
		gates[j] = make(chan struct{})
		isGated[j] = rng.Intn(100) < gated
	}
	reqScoped := make([]bool, total)
	for j := range reqScoped {
		reqScoped[j] = rng.Intn(3) == 0
	}
	var epoch atomic.Int64           // incremented by every Run the harness issues
	accEpoch := make([]int64, total) // epoch in which the job was accepted (0 = never)
	var accMu sync.Mutex
	jobFn := func(j int) func(ctx context.Context) error {
		return func(ctx context.Context) error {
			if pc.stopped.Load() {
				bad("job %d started after Stop had returned", j)
			}
			pc.running.Add(1)
			pc.mu.Lock()
			pc.counts[j]++
			pc.mu.Unlock()
			if isGated[j] {
				select {
				case <-gates[j]:
				case <-ctx.Done():
					time.Sleep(200 * time.Microsecond) // Stop must wait for this
				}
			}
			pc.running.Add(-1)
			return nil
		}
	}

	p.Run(bg)
	epoch.Store(1)
	var wg sync.WaitGroup
	var maxSend atomic.Int64
	var slow atomic.Int64
	sendersDone := make(chan struct{})
	for i := 0; i < nsend; i++ {
		i := i
		delays := make([]time.Duration, per)
		for k := range delays {
			delays[k] = time.Duration(rng.Intn(300)) * time.Microsecond
		}
		wg.Add(1)
		go func() {
			defer wg.Done()
			defer func() {
				if r := recover(); r != nil {
					bad("panic in Send: %v", r)
				}
			}()
			id := curGoid()
			for k := 0; k < per; k++ {
				j := i*per + k
				time.Sleep(delays[k])
				pc.mu.Lock()
				pc.jobOf[id] = j
				before := pc.accepted[j]
				pc.mu.Unlock()
				ep := epoch.Load()
				t0 := time.Now()
				if reqScoped[j] {
					// a request-scoped context, cancelled as soon as Send has returned (what a gRPC handler passes):
					// the job was accepted and must still be executed
					sctx, cancel := context.WithCancel(bg)
					verifapi.PoolSend(sctx, p, "rand", jobFn(j))
					cancel()
				} else {
					verifapi.PoolSend(bg, p, "rand", jobFn(j))
				}
				d := time.Since(t0)
				if int64(d) > maxSend.Load() {
					maxSend.Store(int64(d))
				}
				if d > 100*time.Millisecond {
					slow.Add(1)
				}
				pc.mu.Lock()
				got := pc.accepted[j] > before
				pc.mu.Unlock()
				if got && ep == epoch.Load() && !pc.stopped.Load() {
					accMu.Lock()
					accEpoch[j] = ep
					accMu.Unlock()
				}
			}
		}()
	}
	go func() { wg.Wait(); close(sendersDone) }()

	// gate opener: opens gates in random order with small delays
	openerDone := make(chan struct{})
	order := rng.Perm(total)
	gdel := make([]time.Duration, total)
	for k := range gdel {
		gdel[k] = time.Duration(rng.Intn(400)) * time.Microsecond
	}
	go func() {
		defer close(openerDone)
		for k, j := range order {
			time.Sleep(gdel[k])
			close(gates[j])
		}
	}()

	// lifecycle thread
	lifeDone := make(chan struct{})
	ldel := make([]time.Duration, len(life))
	for k := range ldel {
		ldel[k] = time.Duration(rng.Intn(1500)) * time.Microsecond
	}
	runningNow := true
	go func() {
		defer close(lifeDone)
		defer func() {
			if r := recover(); r != nil {
				bad("panic in Stop/Run: %v", r)
			}
		}()
		for k, op := range life {
			time.Sleep(ldel[k])
			if op == 'T' {
				p.Stop()
				if runningNow {
					if n := pc.running.Load(); n != 0 {
						bad("Stop returned while %d jobs were still running", n)
					}
					pc.stopped.Store(true)
					runningNow = false
				}
			} else {
				if !runningNow {
					pc.stopped.Store(false)
					epoch.Add(1)
					runningNow = true
				}
				p.Run(bg)
			}
		}
	}()

	wait := func(ch chan struct{}, what string) bool {
		select {
		case <-ch:
			return true
		case <-time.After(5 * time.Second):
			bad("%s did not return within 5s (deadlock)", what)
			return false
		}
	}
	okS := wait(sendersDone, "Send")
	okL := wait(lifeDone, "Stop/Run")
	wait(openerDone, "gate opener")
	if okS && okL {
		if runningNow {
			// quiescence by counting: no flusher alive, every accepted job of this epoch executed
			deadline := time.Now().Add(3 * time.Second)
			for {
				pc.mu.Lock()
				idle := len(pc.flushers) == 0 && pc.begins == pc.ends && pc.enq == pc.begins
				missing := -1
				accMu.Lock()
				for j, ep := range accEpoch {
					if ep == epoch.Load() && pc.counts[j] == 0 {
						missing = j
						break
					}
				}
				accMu.Unlock()
				pc.mu.Unlock()
				if idle && missing < 0 {
					break
				}
				if time.Now().After(deadline) {
					snap := verifapi.PoolSnapshot(p)
					bad("accepted job %d not executed although the pool is idle (chan=%d deferred=%v flusherLock=%v idle=%v)",
						missing, snap.ChanLen, snap.Deferred, snap.FlusherLocked, idle)
					break
				}
				time.Sleep(200 * time.Microsecond)
			}
		}
		pc.mu.Lock()
		for j, n := range pc.counts {
			if n > 1 {
				bad("job %d executed %d times", j, n)
			}
		}
		pc.mu.Unlock()
		if runningNow {
			stopDone := make(chan struct{})
			go func() {
				defer close(stopDone)
				defer func() {
					if r := recover(); r != nil {
						bad("panic in final Stop: %v", r)
					}
				}()
				p.Stop()
			}()
			wait(stopDone, "final Stop")
		}
	}
	pc.mu.Lock()
	nacc, nexec := 0, 0
	for _, n := range pc.accepted {
		nacc += n
	}
	for _, n := range pc.counts {
		nexec += n
	}
	nflush := pc.enq
	pc.mu.Unlock()
	verdict := "ok"
	if len(problems) > 0 {
		verdict = "BAD " + strings.Join(problems, " ")
	}
	return fmt.Sprintf("%s %s accepted=%d executed=%d enq=%d maxsend_us=%d slow=%d", id, verdict, nacc, nexec, nflush,
		maxSend.Load()/1000, slow.Load())
}

func poolRandCmd(args []string) int {
	fs := flag.NewFlagSet("pool-rand", flag.ContinueOnError)
	senddur := fs.Int("senddur", 1000, "SendDuration in microseconds")
	var pos []string
	rest := args
	for len(rest) > 0 {
		if err := fs.Parse(rest); err != nil {
			return 2
		}
		rest = fs.Args()
		if len(rest) > 0 {
			pos = append(pos, rest[0])
			rest = rest[1:]
		}
	}
	if len(pos) == 0 {
		fmt.Fprintln(os.Stderr, "usage: fsdbh pool-rand <casefile> [-senddur US]")
		return 2
	}
	lines, err := poolReadLines(pos[0])
	if err != nil {
		fmt.Fprintln(os.Stderr, err)
		return 2
	}
	w := bufio.NewWriter(os.Stdout)
	for _, l := range lines {
		fmt.Fprintf(os.Stderr, "\ncase %s ", strings.Fields(l)[0])
		fmt.Fprintln(w, poolRandCase(l, time.Duration(*senddur)*time.Microsecond))
		w.Flush()
	}
	return 0
}
