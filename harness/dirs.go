package main

import (
	"bufio"
	"context"
	"fmt"
	"math/rand"
	"net"
	"os"
	"path/filepath"
	"sort"
	"strconv"
	"strings"
	"time"

	fs_db "github.com/glebziz/fs_db"
	"github.com/glebziz/fs_db/config"
	"github.com/glebziz/fs_db/pkg/verifapi"
	"github.com/google/uuid"
)

// ---------------------------------------------------------------------------
// dirs runner: drives Set/Delete/tx/gc/reopen and reports, after every op, the
// on-disk directory layout next to the directory repository's own view.

func init() {
	commands["dirs"] = func(args []string) int {
		if len(args) < 1 {
			fmt.Fprintln(os.Stderr, "usage: fsdbh dirs <casefile> [inline|server]")
			return 2
		}
		mode := ""
		if len(args) > 1 {
			mode = args[1]
		}
		return dirsMain(args[0], mode)
	}
}

type dirsEnv struct {
	mode string
	dir  string
	cfg  config.Config
	h    *verifapi.Handle
	txs  []fs_db.Tx       // handle number -> tx (index 0 unused, nil = invalid)
	idx  []map[string]int // per root: directory name -> index (first appearance)
	prev map[string][2]int
}

var dirsPortCtr int

// freePort picks a port from a window owned by this process (parallel harness
// processes must not collide: a failed OpenServer leaves Badger locked) that is
// below the ephemeral range and currently free.
func freePort() int {
	for try := 0; try < 200; try++ {
		port := 20000 + (os.Getpid()%500)*24 + dirsPortCtr%24
		dirsPortCtr++
		l, err := net.Listen("tcp", fmt.Sprintf(":%d", port))
		if err != nil {
			continue
		}
		l.Close()
		return port
	}
	return 20000 + rand.Intn(12000)
}

func (e *dirsEnv) open() error {
	var err error
	ctx := context.Background()
	if e.mode != "server" {
		e.h, err = verifapi.OpenInline(ctx, e.cfg)
		return err
	}
	e.cfg.Port = freePort()
	e.h, err = verifapi.OpenServer(ctx, e.cfg)
	return err
}

func (e *dirsEnv) step(t []string) (res string) {
	defer func() {
		if r := recover(); r != nil {
			res = strings.ReplaceAll(fmt.Sprintf("PANIC %v", r), "|", "/")
		}
	}()
	ctx := context.Background()
	atoi := func(s string) int { n, _ := strconv.Atoi(s); return n }
	tx := func(h int) fs_db.Tx {
		if h > 0 && h < len(e.txs) {
			return e.txs[h]
		}
		return nil
	}
	switch op := t[0]; op {
	case "set", "del":
		var st fs_db.Store = e.h.DB
		if h := atoi(t[1]); h != 0 {
			x := tx(h)
			if x == nil {
				return op + " BAD-HANDLE"
			}
			st = x
		}
		k := atoi(t[2])
		if op == "set" {
			return "set " + errClass(st.Set(ctx, "k"+strconv.Itoa(k), []byte{byte(k)}))
		}
		return "del " + errClass(st.Delete(ctx, "k"+strconv.Itoa(k)))
	case "begin":
		x, err := e.h.DB.Begin(ctx)
		if err != nil {
			e.txs = append(e.txs, nil)
			return "begin " + errClass(err)
		}
		e.txs = append(e.txs, x)
		return "begin h " + strconv.Itoa(len(e.txs)-1)
	case "commit", "rollback":
		x := tx(atoi(t[1]))
		if x == nil {
			return op + " BAD-HANDLE"
		}
		if op == "commit" {
			return "commit " + errClass(x.Commit(ctx))
		}
		return "rollback " + errClass(x.Rollback(ctx))
	case "gc":
		if !drainPool() {
			return "gc DRAIN-TIMEOUT"
		}
		return "gc " + errClass(e.h.GC(ctx))
	case "reopen":
		to := ""
		if !drainPool() {
			to = " DRAIN-TIMEOUT"
		}
		for i := range e.txs {
			e.txs[i] = nil
		}
		cerr := e.h.Close()
		if oerr := e.open(); oerr != nil {
			e.h = nil
			return "reopen open-" + errClass(oerr) + to
		}
		if cerr != nil {
			return "reopen close-" + errClass(cerr) + to
		}
		return "reopen ok" + to
	}
	return "BAD-OP " + t[0]
}

func joinOr(s []string, sep string) string {
	if len(s) == 0 {
		return "-"
	}
	return strings.Join(s, sep)
}

// walk scans the roots and returns the " | "-joined new/freed/roots/shape fields.
func (e *dirsEnv) walk() string {
	shape := "ok"
	bad := func(why string) {
		if shape == "ok" {
			shape = "BAD:" + why
		}
	}
	cur := map[string][2]int{}
	onDisk := map[string][2]int{} // cleaned dir path -> (root, index)
	counts := make([][]string, len(e.idx))
	for r, root := range e.cfg.Storage.RootDirs {
		ents, err := os.ReadDir(root)
		if err != nil {
			bad("readroot" + strconv.Itoa(r))
		}
		seen := map[int]int{}
		for _, d := range ents {
			if !d.IsDir() {
				bad("root-entry-not-dir:" + strconv.Itoa(r))
				continue
			}
			if uuid.Validate(d.Name()) != nil {
				bad("dir-name-not-uuid:" + strconv.Itoa(r))
			}
			i, ok := e.idx[r][d.Name()]
			if !ok {
				i = len(e.idx[r])
				e.idx[r][d.Name()] = i
			}
			p := filepath.Join(root, d.Name())
			onDisk[p] = [2]int{r, i}
			files, ferr := os.ReadDir(p)
			if ferr != nil {
				bad(fmt.Sprintf("readdir:%d:%d", r, i))
			}
			seen[i] = len(files)
			for _, f := range files {
				if !f.Type().IsRegular() {
					bad(fmt.Sprintf("entry-not-regular:%d:%d", r, i))
				} else if uuid.Validate(f.Name()) != nil {
					bad(fmt.Sprintf("file-name-not-uuid:%d:%d", r, i))
				}
				cur[filepath.Join(p, f.Name())] = [2]int{r, i}
			}
		}
		for i := 0; i < len(e.idx[r]); i++ {
			if n, ok := seen[i]; ok {
				counts[r] = append(counts[r], strconv.Itoa(n))
			} else {
				counts[r] = append(counts[r], "x") // directory vanished from disk
			}
		}
	}
	diff := func(a, b map[string][2]int) string { // files in a and not in b
		var l [][2]int
		for p, ri := range a {
			if _, ok := b[p]; !ok {
				l = append(l, ri)
			}
		}
		sort.Slice(l, func(i, j int) bool { return l[i][0] < l[j][0] || l[i][0] == l[j][0] && l[i][1] < l[j][1] })
		s := make([]string, len(l))
		for i, ri := range l {
			s[i] = fmt.Sprintf("%d:%d", ri[0], ri[1])
		}
		return joinOr(s, ",")
	}
	fNew, fFreed := diff(cur, e.prev), diff(e.prev, cur)
	e.prev = cur

	act := make([][]int, len(e.idx))
	ctr := map[string]uint64{}
	if e.h != nil {
		for _, p := range e.h.DirActive() {
			if ri, ok := onDisk[filepath.Clean(p)]; ok && filepath.Clean(p) == p {
				act[ri[0]] = append(act[ri[0]], ri[1])
			} else {
				bad("active-not-on-disk:" + strings.ReplaceAll(filepath.Base(p), "|", "/"))
			}
		}
		rs, cs := e.h.DirCounts()
		for i, root := range rs {
			ctr[filepath.Clean(root)] = cs[i]
		}
	}
	var rootsOut []string
	for r, root := range e.cfg.Storage.RootDirs {
		sort.Ints(act[r])
		a := make([]string, len(act[r]))
		for i, v := range act[r] {
			a[i] = strconv.Itoa(v)
		}
		c := "?"
		if n, ok := ctr[filepath.Clean(root)]; ok {
			c = strconv.FormatUint(n, 10)
		}
		rootsOut = append(rootsOut, fmt.Sprintf("R%d counts=%s act=%s ctr=%s", r, joinOr(counts[r], ","), joinOr(a, ","), c))
	}
	return fmt.Sprintf("new=%s | freed=%s | %s | shape=%s", fNew, fFreed, strings.Join(rootsOut, ";"), shape)
}

func dirsMain(path, modeOverride string) int {
	in, err := os.Open(path)
	if err != nil {
		fmt.Fprintln(os.Stderr, err)
		return 2
	}
	defer in.Close()
	installCounters()
	sc := bufio.NewScanner(in)
	sc.Buffer(make([]byte, 1<<20), 1<<28)
	out := bufio.NewWriter(os.Stdout)
	defer out.Flush()
	var e *dirsEnv
	closeEnv := func() {
		if e != nil {
			drainPool()
			if e.h != nil {
				e.h.Close()
			}
			os.RemoveAll(e.dir)
			e = nil
		}
	}
	defer closeEnv()
	for sc.Scan() {
		l := strings.TrimSpace(sc.Text())
		if l == "" || l[0] == '#' {
			continue
		}
		if i := strings.Index(l, " #"); i >= 0 { // trailing comment
			l = l[:i]
		}
		t := strings.Fields(l)
		switch t[0] {
		case "case":
			closeEnv()
			dir, derr := os.MkdirTemp("", "fsdbh-dirs-")
			if derr != nil {
				fmt.Fprintln(os.Stderr, derr)
				return 2
			}
			id, roots, maxdir := "?", 1, 100
			rootform := "clean"
			if len(t) > 1 {
				id = t[1]
			}
			e = &dirsEnv{mode: "inline", dir: dir, txs: []fs_db.Tx{nil}, prev: map[string][2]int{}}
			for _, kv := range t[1:] {
				k, v, _ := strings.Cut(kv, "=")
				switch k {
				case "mode":
					e.mode = v
				case "roots":
					roots, _ = strconv.Atoi(v)
				case "maxdir":
					maxdir, _ = strconv.Atoi(v)
				case "rootform":
					rootform = v
				}
			}
			if modeOverride != "" {
				e.mode = modeOverride
			}
			if e.mode == "grpc" {
				e.mode = "server"
			}
			e.cfg.Storage.DbPath = filepath.Join(dir, "db")
			for i := 0; i < roots; i++ {
				rp := filepath.Join(dir, fmt.Sprintf("r%d", i))
				switch rootform {
				case "slash":
					rp += "/"
				case "dot":
					rp = dir + "/./" + fmt.Sprintf("r%d", i)
				}
				e.cfg.Storage.RootDirs = append(e.cfg.Storage.RootDirs, rp)
				e.idx = append(e.idx, map[string]int{})
			}
			e.cfg.Storage.MaxDirCount = uint64(maxdir)
			e.cfg.Storage.GCPeriod = time.Hour
			e.cfg.WPool.NumWorkers = 2
			e.cfg.WPool.SendDuration = time.Millisecond
			if oerr := e.open(); oerr != nil {
				fmt.Fprintln(out, "case", id, "OPEN-FAILED", oerr)
				e.h = nil
				continue
			}
			drainPool()
			e.walk() // initialise state only
			fmt.Fprintln(out, "case", id)
		case "end":
			fmt.Fprintln(out, "end")
			closeEnv()
		default:
			if e == nil || e.h == nil {
				fmt.Fprintln(out, "NO-DB")
				continue
			}
			st := e.step(t)
			if !drainPool() && !strings.HasSuffix(st, "DRAIN-TIMEOUT") {
				st += " DRAIN-TIMEOUT"
			}
			fmt.Fprintln(out, st+" | "+e.walk())
		}
		out.Flush()
	}
	return 0
}
