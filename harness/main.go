// fsdbh: correspondence harness — runs case files against the real fs_db code
// (built from /repo's working tree with -tags verif).
package main

import (
	"bufio"
	"fmt"
	"os"
	"strings"
)

type caseFn func(line string) string

var commands = map[string]func(args []string) int{}

// perLine registers a command that maps each non-comment case line to one output line.
func perLine(name string, f caseFn) {
	commands[name] = func(args []string) int {
		if len(args) < 1 {
			fmt.Fprintln(os.Stderr, "usage: fsdbh", name, "<casefile>")
			return 2
		}
		in, err := os.Open(args[0])
		if err != nil {
			fmt.Fprintln(os.Stderr, err)
			return 2
		}
		defer in.Close()
		sc := bufio.NewScanner(in)
		sc.Buffer(make([]byte, 1<<20), 1<<28)
		out := bufio.NewWriter(os.Stdout)
		defer out.Flush()
		for sc.Scan() {
			l := strings.TrimSpace(sc.Text())
			if l == "" || l[0] == '#' {
				continue
			}
			fmt.Fprintln(out, f(l))
		}
		return 0
	}
}

func main() {
	if len(os.Args) < 2 {
		fmt.Fprintln(os.Stderr, "usage: fsdbh <command> ...")
		os.Exit(2)
	}
	c, ok := commands[os.Args[1]]
	if !ok {
		fmt.Fprintln(os.Stderr, "unknown command", os.Args[1])
		os.Exit(2)
	}
	os.Exit(c(os.Args[2:]))
}
