package main

import (
	"bufio"
	"bytes"
	"context"
	"crypto/sha256"
	"encoding/binary"
	"encoding/hex"
	"errors"
	"fmt"
	"io"
	"os"
	"path/filepath"
	"sort"
	"strconv"
	"strings"
	"sync"
	"sync/atomic"
	"time"

	fs_db "github.com/glebziz/fs_db"
	"github.com/glebziz/fs_db/config"
	"github.com/glebziz/fs_db/pkg/verifapi"
)

// ---------------------------------------------------------------------------
// history runner: executes case files (DESIGN.md appendix B) against the real
// inline or gRPC client.

func init() {
	commands["hist"] = func(args []string) int {
		mode := "inline"
		if len(args) > 1 {
			mode = args[1]
		}
		return histMain(args[0], mode)
	}
}

var (
	poolAccepted atomic.Int64
	poolFinished atomic.Int64

	// crash-child mode: die before the crashAt-th persistent mutation (0 = never); log the events
	crashAt   int64
	mutCount  atomic.Int64
	childMode bool
	mutLog    = make(chan string, 1<<16)
)

func mutClass(kind, arg string) string {
	switch kind {
	case "kv.set", "kv.delete":
		if i := strings.IndexByte(arg, '/'); i > 0 {
			return kind + ":" + arg[:i]
		}
	}
	return kind
}

func installCounters() {
	var mut func(kind, arg string)
	if childMode {
		mut = func(kind, arg string) {
			n := mutCount.Add(1)
			if crashAt > 0 && n == crashAt {
				fmt.Printf("CRASH %d %s\n", n, mutClass(kind, arg))
				os.Stdout.Sync()
				os.Exit(3)
			}
			select {
			case mutLog <- mutClass(kind, arg):
			default:
			}
		}
	} else {
		// scripted schedules may park a thread right BEFORE a persistent mutation: arm mut:<class> <n>
		mut = func(kind, arg string) { schedPause("mut:" + mutClass(kind, arg)) }
	}
	verifapi.SetHandlers(func(p string) {
		switch p {
		case "wpool.send.accepted":
			poolAccepted.Add(1)
		case "wpool.exec.end":
			poolFinished.Add(1)
		default:
			parPause(p)
			schedPause(p)
		}
	}, mut)
}

// ---- "par a || b || c": the operations run concurrently; every one that reaches the pause point
// commit.afterCheck waits there until all the others have reached it too, have finished, or a quiet
// period has passed (a thread blocked on a lock never arrives) ----
var (
	parMu      sync.Mutex
	parActive  bool
	parWaiting int
	parDone    int
	parTotal   int
	parCond    = sync.NewCond(&parMu)
)

func parPause(point string) {
	if point != "commit.afterCheck" {
		return
	}
	parMu.Lock()
	defer parMu.Unlock()
	if !parActive {
		return
	}
	parWaiting++
	parCond.Broadcast()
	deadline := time.Now().Add(300 * time.Millisecond)
	for parActive && parWaiting+parDone < parTotal && time.Now().Before(deadline) {
		// wake up periodically: sync.Cond has no timed wait
		parMu.Unlock()
		time.Sleep(2 * time.Millisecond)
		parMu.Lock()
	}
}

// ---- scripted schedules: "arm <point> <n>" makes the n-th arrival at <point> block; "go <id> <op>" runs an
// operation in the background; "await <point>" waits until a thread is blocked there; "release <point>"
// lets it continue; "wait <id>" joins the background operation and prints its result ----
type armed struct {
	nth     int
	arrived int
	blocked bool
	release chan struct{}
}

var (
	schedMu  sync.Mutex
	armedPts = map[string]*armed{}
	bgRes    = map[string]chan string{}
)

func schedPause(point string) {
	// an armed entry is named <point> or <point>#<tag> (several entries may watch one point, each counting the
	// arrivals since it was armed)
	schedMu.Lock()
	var ch chan struct{}
	for name, a := range armedPts {
		base := name
		if i := strings.IndexByte(name, '#'); i >= 0 {
			base = name[:i]
		}
		if base != point || a.blocked {
			continue
		}
		a.arrived++
		if a.arrived == a.nth && ch == nil {
			a.blocked = true
			ch = a.release
		}
	}
	schedMu.Unlock()
	if ch == nil {
		return
	}
	select {
	case <-ch:
	case <-time.After(10 * time.Second):
	}
}

func (e *histEnv) schedOp(t []string) (string, bool) {
	switch t[0] {
	case "arm":
		n, _ := strconv.Atoi(t[2])
		schedMu.Lock()
		armedPts[t[1]] = &armed{nth: n, release: make(chan struct{})}
		schedMu.Unlock()
		return "ok", true
	case "go":
		ch := make(chan string, 1)
		bgRes[t[1]] = ch
		op := append([]string{}, t[2:]...)
		go func() { ch <- e.step(op) }()
		return "ok", true
	case "await":
		deadline := time.Now().Add(5 * time.Second)
		for time.Now().Before(deadline) {
			schedMu.Lock()
			a, ok := armedPts[t[1]]
			b := ok && a.blocked
			schedMu.Unlock()
			if b {
				return "ok", true
			}
			time.Sleep(time.Millisecond)
		}
		return "AWAIT-TIMEOUT", true
	case "release":
		schedMu.Lock()
		if a, ok := armedPts[t[1]]; ok {
			close(a.release)
			delete(armedPts, t[1])
		}
		schedMu.Unlock()
		return "ok", true
	case "poll":
		// poll <thread> <ms>: the thread's result if it finished within <ms>, else RUNNING (the result stays available)
		ch, ok := bgRes[t[1]]
		if !ok {
			return "NO-SUCH-THREAD", true
		}
		ms, _ := strconv.Atoi(t[2])
		select {
		case r := <-ch:
			ch <- r
			return r, true
		case <-time.After(time.Duration(ms) * time.Millisecond):
			return "RUNNING", true
		}
	case "wait":
		ch, ok := bgRes[t[1]]
		if !ok {
			return "NO-SUCH-THREAD", true
		}
		select {
		case r := <-ch:
			return r, true
		case <-time.After(5 * time.Second):
			return "WAIT-TIMEOUT", true
		}
	}
	return "", false
}

func (e *histEnv) runPar(groups [][]string) string {
	parMu.Lock()
	parActive, parWaiting, parDone, parTotal = true, 0, 0, len(groups)
	parMu.Unlock()
	res := make([]string, len(groups))
	var wg sync.WaitGroup
	for i, g := range groups {
		wg.Add(1)
		go func(i int, g []string) {
			defer wg.Done()
			res[i] = e.step(g)
			parMu.Lock()
			parDone++
			parCond.Broadcast()
			parMu.Unlock()
		}(i, g)
	}
	wg.Wait()
	parMu.Lock()
	parActive = false
	parMu.Unlock()
	return strings.Join(res, " || ")
}

func init() {
	commands["crash-child"] = func(args []string) int {
		childMode = true
		n, _ := strconv.ParseInt(args[1], 10, 64)
		crashAt = n
		return histMain(args[0], "inline")
	}
}

// drainPool waits until every accepted pool job has finished.
func drainPool() bool {
	deadline := time.Now().Add(20 * time.Second)
	for poolFinished.Load() < poolAccepted.Load() {
		if time.Now().After(deadline) {
			return false
		}
		time.Sleep(50 * time.Microsecond)
	}
	return true
}

func contentBytes(v uint64, n int) []byte {
	out := make([]byte, 0, n+32)
	var ctr uint64
	for len(out) < n {
		var b [16]byte
		binary.LittleEndian.PutUint64(b[:8], v)
		binary.LittleEndian.PutUint64(b[8:], ctr)
		h := sha256.Sum256(b[:])
		out = append(out, h[:]...)
		ctr++
	}
	return out[:n]
}

func errClass(err error) string {
	switch {
	case err == nil:
		return "ok"
	case errors.Is(err, fs_db.ErrNotFound):
		return "err NotFound"
	case errors.Is(err, fs_db.ErrEmptyKey):
		return "err EmptyKey"
	case errors.Is(err, fs_db.ErrTxNotFound):
		return "err TxNotFound"
	case errors.Is(err, fs_db.ErrTxSerialization):
		return "err TxSerialization"
	case errors.Is(err, fs_db.ErrNoFreeSpace):
		return "err NoFreeSpace"
	case errors.Is(err, fs_db.ErrHeaderNotFound):
		return "err HeaderNotFound"
	case errors.Is(err, fs_db.ErrTxAlreadyExists):
		return "err TxAlreadyExists"
	case errors.Is(err, fs_db.ErrUnknown):
		return "err Unknown"
	default:
		return "err other"
	}
}

// writeScratch writes p the way io.Copy or a scratch-buffer loop does: from a buffer the caller refills as soon as Write
// has returned (io.Writer: "Write must not retain p").  A writer that keeps the slice sees garbage instead of the content.
func writeScratch(w io.Writer, p []byte) (int, error) {
	b := make([]byte, len(p))
	copy(b, p)
	n, err := w.Write(b)
	for i := range b {
		b[i] = 0xEE
	}
	return n, err
}

type chunkReader struct {
	b     []byte
	chunk int
}

func (r *chunkReader) Read(p []byte) (int, error) {
	if len(r.b) == 0 {
		return 0, io.EOF
	}
	n := len(p)
	if r.chunk > 0 && n > r.chunk {
		n = r.chunk
	}
	if n > len(r.b) {
		n = len(r.b)
	}
	copy(p, r.b[:n])
	r.b = r.b[n:]
	return n, nil
}

// abortReader yields the first `at` bytes, then fails (after cancelling the caller's context, if asked to)
type abortReader struct {
	b      []byte
	at     int
	off    int
	cancel context.CancelFunc
	ctx    context.Context
}

func (r *abortReader) Read(p []byte) (int, error) {
	if r.off >= r.at || r.off >= len(r.b) {
		if r.cancel != nil {
			r.cancel()
			time.Sleep(20 * time.Millisecond) // let the cancellation reach the transport
			return 0, r.ctx.Err()
		}
		return 0, errors.New("source reader failed")
	}
	n := len(p)
	if n > 2048 {
		n = 2048
	}
	if n > r.at-r.off {
		n = r.at - r.off
	}
	if n > len(r.b)-r.off {
		n = len(r.b) - r.off
	}
	copy(p, r.b[r.off:r.off+n])
	r.off += n
	return n, nil
}

type histEnv struct {
	mode    string
	dir     string
	cfg     config.Config
	h       *verifapi.Handle
	keys    []string // id -> key string (0 = "")
	keyIds  map[string]int
	txs     []fs_db.Tx // handle number -> tx (index 0 unused)
	shas    map[[32]byte]uint64
	closed  bool // closed by "closedb", to be opened again at its next use
	txMu    sync.Mutex
	heldMu  sync.Mutex
	held    []heldGet
	readers map[string]io.ReadCloser
}

func (e *histEnv) open() error {
	var err error
	ctx := context.Background()
	if e.mode == "grpc" {
		// a failed OpenServer leaves Badger locked, so pick a port that is known to be free first
		e.cfg.Port = freePort()
		e.h, err = verifapi.OpenServer(ctx, e.cfg)
		return err
	}
	e.h, err = verifapi.OpenInline(ctx, e.cfg)
	return err
}

func (e *histEnv) store(h int) (fs_db.Store, bool) {
	if h == 0 {
		return e.h.DB, true
	}
	e.txMu.Lock()
	defer e.txMu.Unlock()
	if h < len(e.txs) && e.txs[h] != nil {
		return e.txs[h], true
	}
	return nil, false
}

type heldGet struct {
	key  string
	data []byte
	sum  [32]byte
}

// reqCtx: case option ctx=req
var reqCtx bool

func (e *histEnv) step(t []string) (res string) {
	defer func() {
		if r := recover(); r != nil {
			res = fmt.Sprintf("PANIC %v", r)
		}
	}()
	ctx := context.Background()
	if reqCtx {
		// a request-scoped context: cancelled as soon as the call has returned (what a gRPC handler or an HTTP
		// handler passes down); nothing the call started in the background may depend on it
		c, cancel := context.WithCancel(ctx)
		ctx = c
		defer cancel()
	}
	atoi := func(s string) int { n, _ := strconv.Atoi(s); return n }
	switch t[0] {
	case "begin":
		var tx fs_db.Tx
		var err error
		switch t[1] {
		case "DEF":
			tx, err = e.h.DB.Begin(ctx)
		case "RU":
			tx, err = e.h.DB.Begin(ctx, fs_db.IsoLevelReadUncommitted)
		case "RC":
			tx, err = e.h.DB.Begin(ctx, fs_db.IsoLevelReadCommitted)
		case "RR":
			tx, err = e.h.DB.Begin(ctx, fs_db.IsoLevelRepeatableRead)
		default:
			tx, err = e.h.DB.Begin(ctx, fs_db.IsoLevelSerializable)
		}
		e.txMu.Lock()
		defer e.txMu.Unlock()
		if err != nil {
			e.txs = append(e.txs, nil)
			return errClass(err)
		}
		e.txs = append(e.txs, tx)
		return "h " + strconv.Itoa(len(e.txs)-1)
	case "set":
		st, ok := e.store(atoi(t[1]))
		if !ok {
			return "BAD-HANDLE"
		}
		key := e.keys[atoi(t[2])]
		v, _ := strconv.ParseUint(t[3], 10, 64)
		data := contentBytes(v, atoi(t[4]))
		via := "s"
		if len(t) > 5 {
			via = t[5]
		}
		switch via[0] {
		case 's':
			return errClass(st.Set(ctx, key, data))
		case 'r':
			return errClass(st.SetReader(ctx, key, &chunkReader{b: data, chunk: atoi(via[1:])}))
		case 'c', 'd':
			// c<sizes>: Create, Write*, Close; d<sizes>: the same, and when Close reports a failed store a SECOND Close
			// (e.g. a deferred one after an explicit one) must report it too
			f, err := st.Create(ctx, key)
			if err != nil {
				return errClass(err)
			}
			var werr error
			rest := data
			if len(via) > 1 {
				for _, ws := range strings.Split(via[1:], ",") {
					n := atoi(ws)
					if n > len(rest) {
						n = len(rest)
					}
					if _, err = writeScratch(f, rest[:n]); err != nil && werr == nil {
						werr = err
					}
					rest = rest[n:]
				}
			}
			if len(rest) > 0 {
				if _, err = writeScratch(f, rest); err != nil && werr == nil {
					werr = err
				}
			}
			cerr := f.Close()
			if via[0] == 'd' && cerr != nil {
				// the store failed: every Close reports it (after a successful Close a second one is outside the property)
				cerr2 := f.Close()
				if cerr2 == nil { // it must not turn into a success; which error class a repeated Close carries is not the property's business
					return "SECOND-CLOSE-DIFFERS(" + errClass(cerr) + " then " + errClass(cerr2) + ")"
				}
			}
			if cerr != nil {
				return errClass(cerr)
			}
			return errClass(werr)
		}
		return "BAD-VIA"
	case "setabort":
		// setabort <h> <k> <v> <len> <at> <cancel|fail>: the source fails (or the caller cancels) after <at> bytes
		st, ok := e.store(atoi(t[1]))
		if !ok {
			return "BAD-HANDLE"
		}
		key := e.keys[atoi(t[2])]
		v, _ := strconv.ParseUint(t[3], 10, 64)
		data := contentBytes(v, atoi(t[4]))
		cctx, cancel := context.WithCancel(ctx)
		defer cancel()
		r := &abortReader{b: data, at: atoi(t[5]), cancel: nil}
		if t[6] == "cancel" {
			r.cancel = cancel
			r.ctx = cctx
		}
		err := st.SetReader(cctx, key, r)
		if e.mode == "grpc" {
			// the caller is gone, the server-side handler may still be running: let it finish
			// before the next read looks at the key
			time.Sleep(150 * time.Millisecond)
		}
		if err == nil {
			return "ok"
		}
		c := errClass(err)
		if c == "err other" || c == "err Unknown" {
			return "err foreign"
		}
		return c
	case "del":
		st, ok := e.store(atoi(t[1]))
		if !ok {
			return "BAD-HANDLE"
		}
		return errClass(st.Delete(ctx, e.keys[atoi(t[2])]))
	case "get":
		st, ok := e.store(atoi(t[1]))
		if !ok {
			return "BAD-HANDLE"
		}
		key := e.keys[atoi(t[2])]
		var data []byte
		var err error
		if len(t) > 3 && t[3] == "r" {
			var rc io.ReadCloser
			rc, err = st.GetReader(ctx, key)
			if err == nil {
				data, err = io.ReadAll(rc)
				rc.Close()
			}
		} else {
			data, err = st.Get(ctx, key)
		}
		if err != nil {
			return errClass(err)
		}
		s := sha256.Sum256(data)
		// "Get returns exactly the stored bytes": the caller owns what was returned.  The slices of the last few
		// Gets are kept and looked at again after every later Get: if one changed, the implementation handed out
		// memory it went on using (a pooled or shared buffer).
		e.heldMu.Lock()
		corrupted := ""
		for _, h := range e.held {
			if sha256.Sum256(h.data) != h.sum {
				corrupted = h.key
			}
		}
		if len(t) <= 3 || t[3] != "r" {
			e.held = append(e.held, heldGet{key: key, data: data, sum: s})
			if len(e.held) > 4 {
				e.held = e.held[1:]
			}
		}
		e.heldMu.Unlock()
		if corrupted != "" {
			return fmt.Sprintf("val %d:%s RETURNED-SLICE-OF-EARLIER-GET-CHANGED(%s)", len(data), hex.EncodeToString(s[:6]), hex.EncodeToString([]byte(corrupted)))
		}
		return fmt.Sprintf("val %d:%s", len(data), hex.EncodeToString(s[:6]))
	case "openr":
		// openr <name> <h> <k>: GetReader, the reader is kept open (consumed later by readr)
		st, ok := e.store(atoi(t[2]))
		if !ok {
			return "BAD-HANDLE"
		}
		rc, err := st.GetReader(ctx, e.keys[atoi(t[3])])
		if err != nil {
			return errClass(err)
		}
		e.heldMu.Lock()
		if e.readers == nil {
			e.readers = map[string]io.ReadCloser{}
		}
		e.readers[t[1]] = rc
		e.heldMu.Unlock()
		return "ok"
	case "readr":
		// readr <name>: consume and close a reader obtained earlier
		e.heldMu.Lock()
		rc := e.readers[t[1]]
		delete(e.readers, t[1])
		e.heldMu.Unlock()
		if rc == nil {
			return "NO-SUCH-READER"
		}
		data, err := io.ReadAll(rc)
		rc.Close()
		if err != nil {
			return errClass(err)
		}
		sum := sha256.Sum256(data)
		return fmt.Sprintf("val %d:%s", len(data), hex.EncodeToString(sum[:6]))
	case "hasmain":
		// is the committed (main) version store registered? (it must be from the moment Open returns: commits that
		// find none would each create their own)
		if e.h.HasCommittedStore() {
			return "yes"
		}
		return "no"
	case "keys":
		st, ok := e.store(atoi(t[1]))
		if !ok {
			return "BAD-HANDLE"
		}
		ks, err := st.GetKeys(ctx)
		if err != nil {
			return errClass(err)
		}
		if !sort.StringsAreSorted(ks) {
			return "keys UNSORTED"
		}
		out := []string{"keys"}
		for _, k := range ks {
			id, ok := e.keyIds[k]
			if !ok {
				out = append(out, "?"+hex.EncodeToString([]byte(k)))
			} else {
				out = append(out, strconv.Itoa(id))
			}
		}
		return strings.Join(out, " ")
	case "commit":
		h := atoi(t[1])
		e.txMu.Lock()
		if h <= 0 || h >= len(e.txs) || e.txs[h] == nil {
			e.txMu.Unlock()
			return "BAD-HANDLE"
		}
		txh := e.txs[h]
		e.txMu.Unlock()
		return errClass(txh.Commit(ctx))
	case "rollback":
		h := atoi(t[1])
		e.txMu.Lock()
		if h <= 0 || h >= len(e.txs) || e.txs[h] == nil {
			e.txMu.Unlock()
			return "BAD-HANDLE"
		}
		txh := e.txs[h]
		e.txMu.Unlock()
		return errClass(txh.Rollback(ctx))
	case "gc":
		if !drainPoolOK() {
			return "DRAIN-TIMEOUT"
		}
		if err := e.h.GC(ctx); err != nil {
			return "gc-" + errClass(err)
		}
		return "ok"
	case "drain":
		if !drainPool() {
			return "DRAIN-TIMEOUT"
		}
		return "ok"
	case "reopen":
		if !drainPool() {
			return "DRAIN-TIMEOUT"
		}
		if err := e.h.Close(); err != nil {
			return "close-" + errClass(err)
		}
		if err := e.open(); err != nil {
			return "open-" + errClass(err) + " " + err.Error()
		}
		return "ok"
	case "disk":
		// content files present under the roots: count, and how many of them hold a known value
		if !drainPool() {
			return "DRAIN-TIMEOUT"
		}
		return e.diskLine()
	}
	return "BAD-OP " + t[0]
}

// gc in the model is atomic w.r.t. queued jobs only if they are not racing: we
// do not drain before gc (the model keeps the queue), but pool jobs running
// concurrently with the collector are a concurrency matter (C06), so wait for
// idleness of *running* jobs only when nothing is queued by the case itself.
func drainPoolOK() bool { return drainPool() }

func (e *histEnv) diskLine() string {
	var vals []string
	other := 0
	for _, root := range e.cfg.Storage.RootDirs {
		_ = filepath.Walk(root, func(p string, info os.FileInfo, err error) error {
			if err != nil || info.IsDir() {
				return nil
			}
			data, rerr := os.ReadFile(p)
			if rerr != nil {
				other++
				return nil
			}
			s := sha256.Sum256(data)
			vals = append(vals, fmt.Sprintf("%d:%s", len(data), hex.EncodeToString(s[:6])))
			return nil
		})
	}
	sort.Strings(vals)
	return strings.TrimSpace(fmt.Sprintf("disk other=%d vals %s", other, strings.Join(vals, " ")))
}

func histMain(path, mode string) int {
	in, err := os.Open(path)
	if err != nil {
		fmt.Fprintln(os.Stderr, err)
		return 2
	}
	defer in.Close()
	installCounters()
	sc := bufio.NewScanner(in)
	sc.Buffer(make([]byte, 1<<20), 1<<28)
	out := bufio.NewWriter(os.Stdout)
	defer out.Flush()
	// several database instances per case: a line may start with "@<n>" to address instance n
	// (default 0); each instance lives in <base>/<n> and is opened at its first use
	var (
		envs   map[int]*histEnv
		base   string
		keep   bool
		keys   []string
		keyIds map[string]int
		roots  int
		maxdir int
	)
	closeAll := func() {
		if envs == nil {
			return
		}
		drainPool()
		for _, e := range envs {
			if e.h != nil {
				e.h.Close()
			}
		}
		if !keep {
			os.RemoveAll(base)
		}
		envs = nil
	}
	defer closeAll()
	getEnv := func(n int) (*histEnv, error) {
		if e, ok := envs[n]; ok {
			if e.h == nil && e.closed {
				e.closed = false
				if oerr := e.open(); oerr != nil {
					return e, oerr
				}
			}
			return e, nil
		}
		dir := filepath.Join(base, strconv.Itoa(n))
		e := &histEnv{mode: mode, dir: dir, keys: keys, keyIds: keyIds, txs: []fs_db.Tx{nil}, shas: map[[32]byte]uint64{}}
		e.cfg.Storage.DbPath = filepath.Join(dir, "db")
		for i := 0; i < roots; i++ {
			e.cfg.Storage.RootDirs = append(e.cfg.Storage.RootDirs, filepath.Join(dir, fmt.Sprintf("r%d", i)))
		}
		e.cfg.Storage.MaxDirCount = uint64(maxdir)
		e.cfg.Storage.GCPeriod = time.Hour
		e.cfg.WPool.NumWorkers = 2
		if childMode {
			e.cfg.WPool.NumWorkers = 1 // one cleaner job at a time: the order of mutations is deterministic
		}
		e.cfg.WPool.SendDuration = time.Millisecond
		envs[n] = e
		if oerr := e.open(); oerr != nil {
			e.h = nil
			return e, oerr
		}
		return e, nil
	}
	for sc.Scan() {
		l := strings.TrimSpace(sc.Text())
		if l == "" || l[0] == '#' {
			continue
		}
		t := strings.Fields(l)
		inst := 0
		if t[0][0] == '@' {
			inst, _ = strconv.Atoi(t[0][1:])
			t = t[1:]
		}
		switch t[0] {
		case "case":
			closeAll()
			roots, maxdir, keep, base = 1, 100, false, ""
			reqCtx = false
			for _, kv := range t[2:] {
				if kv == "ctx=req" {
					reqCtx = true
				}
				if strings.HasPrefix(kv, "roots=") {
					roots, _ = strconv.Atoi(kv[6:])
				}
				if strings.HasPrefix(kv, "maxdir=") {
					maxdir, _ = strconv.Atoi(kv[7:])
				}
				if strings.HasPrefix(kv, "dir=") {
					base, keep = kv[4:], true
				}
			}
			if base == "" {
				dir, derr := os.MkdirTemp("", "fsdbh-")
				if derr != nil {
					fmt.Fprintln(os.Stderr, derr)
					return 2
				}
				base = dir
			}
			envs = map[int]*histEnv{}
			keys = []string{""}
			keyIds = map[string]int{"": 0}
			fmt.Fprintln(out, "case", t[1])
		case "keytab":
			for _, hxs := range t[1:] {
				b, _ := hex.DecodeString(hxs)
				keyIds[string(b)] = len(keys)
				keys = append(keys, string(b))
			}
		case "end":
			fmt.Fprintln(out, "end")
			closeAll()
		case "closedb":
			// close an instance without reopening it
			if e, ok := envs[inst]; ok && e.h != nil {
				drainPool()
				if cerr := e.h.Close(); cerr != nil {
					fmt.Fprintln(out, "close-"+errClass(cerr))
				} else {
					fmt.Fprintln(out, "ok")
				}
				e.h = nil
				e.closed = true
			} else {
				fmt.Fprintln(out, "ok")
			}
		default:
			if envs == nil {
				fmt.Fprintln(out, "NO-DB")
				continue
			}
			e, oerr := getEnv(inst)
			if oerr != nil || e.h == nil {
				fmt.Fprintln(out, "OPEN-FAILED", oerr)
				continue
			}
			e.keys, e.keyIds = keys, keyIds
			if r, ok := e.schedOp(t); ok {
				fmt.Fprintln(out, r)
				continue
			}
			if t[0] == "par" {
				var groups [][]string
				cur := []string{}
				for _, tok := range t[1:] {
					if tok == "||" {
						groups = append(groups, cur)
						cur = []string{}
					} else {
						cur = append(cur, tok)
					}
				}
				groups = append(groups, cur)
				fmt.Fprintln(out, e.runPar(groups))
				continue
			}
			if childMode {
				res := e.step(t)
				drainPool()
				evs := []string{}
			loop:
				for {
					select {
					case ev := <-mutLog:
						evs = append(evs, ev)
					default:
						break loop
					}
				}
				fmt.Fprintf(out, "ACK %s | %s\n", res, strings.Join(evs, " "))
				out.Flush()
				continue
			}
			fmt.Fprintln(out, e.step(t))
		}
	}
	return 0
}

var _ = bytes.Equal
