package main

// fsdbh faults <casefile>: C10 (inline part) — writes under injected faults.
//
// One case per line:  <id> roots=N free=f0,f1,.. fault=F0,F1,.. len=L seed=S form=FORM rfail=R prev=P
//   free   reported free space per root (disk.Usage override)
//   fault  per root "-" (none) or "<cap>:<keep>" (the file created below that root can hold cap
//          bytes; the Write that would go past it stores min(cap-offset, keep) bytes and fails ENOSPC)
//   len/seed  the source bytes (LCG, see srcBytes)
//   form   set | rdr:<chunk> | crt:<w1>.<w2>...   (Set, SetReader over a chunked reader, Create+Write*+Close)
//   rfail  "-" or the offset at which the source reader fails (rdr form only)
//   prev   "-" or the length of the value stored under the key before (no faults active)
//   want   "-" or the roots that must be visited first (the case is repeated, at most tries= times, default 60)
//
// Output, one line per case, fields separated by " | ":
//   <id> | order=<roots in which a content file was created, in order> | err=<class> | get=<src|prev|notfound|other L:md5>
//        | disk=<root>:<L:md5>,..;<root>:.. (content files below each root that are neither the previous value's file)
//        | fd=<files created during the write>/<closed during the write> | w=<first file's write sizes>
// Fault plans are process-global: one case at a time per process.

import (
	"context"
	"crypto/md5"
	"encoding/hex"
	"errors"
	"fmt"
	"io"
	"os"
	"path/filepath"
	"sort"
	"strconv"
	"strings"
	"sync"
	"time"

	"github.com/glebziz/fs_db/config"
	"github.com/glebziz/fs_db/pkg/verifapi"
)

func init() { perLine("faults", faultsCase) }

// srcBytes: byte i of source (seed) — a 31-bit LCG; the OCaml driver and python compute the same.
func srcBytes(seed uint64, n int) []byte {
	x := (seed*1000003 + 12345) & 0x7fffffff
	out := make([]byte, n)
	for i := range out {
		x = (x*1103515245 + 12345) & 0x7fffffff
		out[i] = byte(x >> 16)
	}
	return out
}

func ident(b []byte) string {
	s := md5.Sum(b)
	return fmt.Sprintf("%d:%s", len(b), hex.EncodeToString(s[:6]))
}

var errInjectedRead = errors.New("verif: injected source reader failure")

// failReader hands out b in chunks of at most chunk bytes and fails at offset failAt (if >= 0).
type failReader struct {
	b      []byte
	off    int
	chunk  int
	failAt int
}

func (r *failReader) Read(p []byte) (int, error) {
	if r.failAt >= 0 && r.off >= r.failAt {
		return 0, errInjectedRead
	}
	if r.off >= len(r.b) {
		return 0, io.EOF
	}
	n := len(p)
	if r.chunk > 0 && n > r.chunk {
		n = r.chunk
	}
	if n > len(r.b)-r.off {
		n = len(r.b) - r.off
	}
	if r.failAt >= 0 && n > r.failAt-r.off {
		n = r.failAt - r.off
	}
	copy(p, r.b[r.off:r.off+n])
	r.off += n
	return n, nil
}

func faultErrClass(err error) string {
	c := errClass(err)
	if c == "err other" {
		switch {
		case errors.Is(err, errInjectedRead):
			return "err other:reader"
		case errors.Is(err, os.ErrClosed):
			return "err other:closed"
		}
	}
	return c
}

type faultObs struct {
	sync.Mutex
	on      bool
	created []string         // paths in creation order
	writes  map[string][]int // path -> sizes handed to Write
	closes  int
}

func (o *faultObs) mut(kind, arg string) {
	o.Lock()
	defer o.Unlock()
	if !o.on {
		return
	}
	switch kind {
	case "create":
		o.created = append(o.created, arg)
	case "os.write":
		t := strings.Fields(arg)
		n, _ := strconv.Atoi(t[len(t)-1])
		p := strings.Join(t[:len(t)-2], " ")
		o.writes[p] = append(o.writes[p], n)
	case "os.close":
		o.closes++
	}
}

// faultsCase runs the case; with want=<r,r,..> it is repeated (fresh database each time) until the
// roots visited start with that sequence (the candidate order is a random shuffle inside fs_db).
func faultsCase(line string) string {
	want, tries := "", 60
	for _, f := range strings.Fields(line)[1:] {
		if strings.HasPrefix(f, "want=") {
			want = f[5:]
		}
		if strings.HasPrefix(f, "tries=") {
			tries, _ = strconv.Atoi(f[6:])
		}
	}
	res := ""
	for try := 0; try < tries; try++ {
		res = faultsOnce(line)
		if want == "" || want == "-" || !strings.Contains(res, " | order=") {
			return res
		}
		o := strings.SplitN(strings.SplitN(res, " | order=", 2)[1], " ", 2)[0]
		if o == want || strings.HasPrefix(o, want+",") {
			return res
		}
	}
	return strings.Fields(line)[0] + " | ORDER-NOT-REACHED last: " + res
}

func faultsOnce(line string) (res string) {
	t := strings.Fields(line)
	id := t[0]
	defer func() {
		if r := recover(); r != nil {
			res = id + " | PANIC " + fmt.Sprint(r)
		}
	}()
	kv := map[string]string{}
	for _, f := range t[1:] {
		if i := strings.IndexByte(f, '='); i > 0 {
			kv[f[:i]] = f[i+1:]
		}
	}
	atoi := func(s string) int { n, _ := strconv.Atoi(s); return n }
	nroots := atoi(kv["roots"])
	dir, err := os.MkdirTemp("", "fsdbh-c10-")
	if err != nil {
		return id + " | HARNESS-ERROR " + err.Error()
	}
	defer os.RemoveAll(dir)

	var cfg config.Config
	cfg.Storage.DbPath = filepath.Join(dir, "db")
	var roots []string
	for i := 0; i < nroots; i++ {
		roots = append(roots, filepath.Join(dir, fmt.Sprintf("r%d", i))+string(filepath.Separator))
		cfg.Storage.RootDirs = append(cfg.Storage.RootDirs, filepath.Join(dir, fmt.Sprintf("r%d", i)))
	}
	cfg.Storage.MaxDirCount = 100
	cfg.Storage.GCPeriod = time.Hour
	cfg.WPool.NumWorkers = 2
	cfg.WPool.SendDuration = time.Millisecond

	obs := &faultObs{writes: map[string][]int{}}
	verifapi.SetWriteFaults(nil)
	verifapi.SetReportedFree(nil)
	verifapi.SetHandlers(func(p string) {
		switch p {
		case "wpool.send.accepted":
			poolAccepted.Add(1)
		case "wpool.exec.end":
			poolFinished.Add(1)
		}
	}, obs.mut)
	defer verifapi.SetHandlers(nil, nil)
	defer verifapi.SetWriteFaults(nil)
	defer verifapi.SetReportedFree(nil)

	ctx := context.Background()
	h, err := verifapi.OpenInline(ctx, cfg)
	if err != nil {
		return id + " | OPEN-FAILED " + err.Error()
	}
	defer func() {
		drainPool()
		h.Close()
	}()

	const key = "k"
	var prev []byte
	havePrev := kv["prev"] != "-" && kv["prev"] != ""
	if havePrev {
		prev = srcBytes(uint64(atoi(kv["seed"]))+1000, atoi(kv["prev"]))
		if err := h.DB.Set(ctx, key, prev); err != nil {
			return id + " | SETUP-FAILED " + err.Error()
		}
	}
	prevFiles := map[string]bool{}
	for _, r := range roots {
		_ = filepath.Walk(r, func(p string, info os.FileInfo, err error) error {
			if err == nil && !info.IsDir() {
				prevFiles[p] = true
			}
			return nil
		})
	}

	// arm the faults
	free := map[string]uint64{}
	for i, f := range strings.Split(kv["free"], ",") {
		if i < nroots {
			v, _ := strconv.ParseUint(f, 10, 64)
			free[strings.TrimSuffix(roots[i], string(filepath.Separator))] = v
		}
	}
	var plan []verifapi.WriteFault
	for i, f := range strings.Split(kv["fault"], ",") {
		if i < nroots && f != "-" {
			ck := strings.Split(f, ":")
			c, _ := strconv.ParseInt(ck[0], 10, 64)
			k, _ := strconv.ParseInt(ck[1], 10, 64)
			plan = append(plan, verifapi.WriteFault{Prefix: roots[i], Cap: c, Keep: k})
		}
	}
	verifapi.SetReportedFree(free)
	verifapi.SetWriteFaults(plan)
	obs.Lock()
	obs.on = true
	obs.Unlock()

	src := srcBytes(uint64(atoi(kv["seed"])), atoi(kv["len"]))
	form := strings.SplitN(kv["form"], ":", 2)
	var werr error
	switch form[0] {
	case "set":
		werr = h.DB.Set(ctx, key, src)
	case "rdr":
		failAt := -1
		if kv["rfail"] != "-" && kv["rfail"] != "" {
			failAt = atoi(kv["rfail"])
		}
		werr = h.DB.SetReader(ctx, key, &failReader{b: src, chunk: atoi(form[1]), failAt: failAt})
	case "crt":
		f, cerr := h.DB.Create(ctx, key)
		if cerr != nil {
			werr = cerr
			break
		}
		rest := src
		var firstW error
		if len(form) > 1 && form[1] != "" {
			for _, ws := range strings.Split(form[1], ".") {
				n := atoi(ws)
				if n > len(rest) {
					n = len(rest)
				}
				if n == 0 {
					continue
				}
				if _, e := writeScratch(f, rest[:n]); e != nil && firstW == nil {
					firstW = e
				}
				rest = rest[n:]
			}
		}
		if len(rest) > 0 {
			if _, e := writeScratch(f, rest); e != nil && firstW == nil {
				firstW = e
			}
		}
		werr = f.Close()
		if werr == nil {
			werr = firstW
		}
	default:
		return id + " | BAD-FORM"
	}

	obs.Lock()
	obs.on = false
	created := append([]string(nil), obs.created...)
	closes := obs.closes
	var w1 []string
	if len(created) > 0 {
		for _, n := range obs.writes[created[0]] {
			w1 = append(w1, strconv.Itoa(n))
		}
	}
	obs.Unlock()
	verifapi.SetWriteFaults(nil)
	verifapi.SetReportedFree(nil)

	rootOf := func(p string) int {
		for i, r := range roots {
			if strings.HasPrefix(p, r) {
				return i
			}
		}
		return -1
	}
	var order []string
	for _, p := range created {
		order = append(order, strconv.Itoa(rootOf(p)))
	}

	// what a reader sees afterwards
	var get string
	data, gerr := h.DB.Get(ctx, key)
	switch {
	case gerr != nil:
		if errClass(gerr) == "err NotFound" {
			get = "notfound"
		} else {
			get = "geterr " + errClass(gerr)
		}
	case string(data) == string(src) && havePrev && string(prev) == string(src):
		get = "src=prev " + ident(data)
	case string(data) == string(src):
		get = "src " + ident(data)
	case havePrev && string(data) == string(prev):
		get = "prev " + ident(data)
	default:
		get = "other " + ident(data)
	}

	// files below the roots (after the pool drained), the previous value's file excluded
	if !drainPool() {
		return id + " | DRAIN-TIMEOUT"
	}
	var disk []string
	for i, r := range roots {
		var fs []string
		_ = filepath.Walk(r, func(p string, info os.FileInfo, err error) error {
			if err != nil || info.IsDir() || prevFiles[p] {
				return nil
			}
			b, rerr := os.ReadFile(p)
			if rerr != nil {
				fs = append(fs, "unreadable")
				return nil
			}
			fs = append(fs, ident(b))
			return nil
		})
		sort.Strings(fs)
		if len(fs) > 0 {
			disk = append(disk, fmt.Sprintf("%d:%s", i, strings.Join(fs, ",")))
		}
	}
	prevLeft := 0
	for p := range prevFiles {
		if _, e := os.Stat(p); e == nil {
			prevLeft++
		}
	}
	dash := func(s string) string {
		if s == "" {
			return "-"
		}
		return s
	}
	return strings.Join([]string{id,
		"order=" + dash(strings.Join(order, ",")),
		"err=" + strings.TrimPrefix(faultErrClass(werr), "err "),
		"get=" + get,
		"disk=" + dash(strings.Join(disk, ";")),
		fmt.Sprintf("fd=%d/%d", len(created), closes),
		fmt.Sprintf("prevfiles=%d/%d", prevLeft, len(prevFiles)),
		"w=" + dash(strings.Join(w1, ",")),
	}, " | ")
}
