package main

import (
	"bytes"
	"errors"
	"io"
	"strconv"
	"strings"

	"github.com/glebziz/fs_db/pkg/verifapi"
)

// fsdbh sreader <casefile>: the gRPC server's upload reader (streamreader.Read) over a scripted stream.
//
//	case line: <id> <aborted 0|1> <chunk lengths|-> <read buffer lengths|->
//	output:    <id> <d<len>|eof|err|other>,...|- <ok|BAD>     (ok: the data results, concatenated, are the first bytes of the upload)
func init() { perLine("sreader", sreaderCase) }

func sreaderCase(line string) (res string) {
	t := strings.Fields(line)
	id := t[0]
	defer func() {
		if r := recover(); r != nil {
			res = id + " PANIC"
		}
	}()
	if len(t) != 4 {
		return id + " BADCASE"
	}
	cl, err1 := rwSizes(t[2])
	sizes, err2 := rwSizes(t[3])
	if err1 != nil || err2 != nil || (t[1] != "0" && t[1] != "1") {
		return id + " BADCASE"
	}
	var chunks [][]byte
	var all []byte
	off := 0
	for _, n := range cl {
		c := rwPattern(off, n)
		off += n
		chunks = append(chunks, c)
		all = append(all, c...)
	}
	rs := verifapi.StreamReads(chunks, t[1] == "1", sizes)
	var got []byte
	out := make([]string, len(rs))
	for i, r := range rs {
		switch {
		case r.Err == nil:
			out[i] = "d" + strconv.Itoa(len(r.Data))
		case r.Err == io.EOF && len(r.Data) == 0:
			out[i] = "eof"
		case errors.Is(r.Err, verifapi.ErrStreamAborted) && len(r.Data) == 0:
			out[i] = "err"
		default:
			out[i] = "other"
		}
		got = append(got, r.Data...)
	}
	verdict := "ok"
	if len(got) > len(all) || !bytes.Equal(got, all[:len(got)]) {
		verdict = "BAD"
	}
	l := "-"
	if len(out) > 0 {
		l = strings.Join(out, ",")
	}
	return id + " " + l + " " + verdict
}
