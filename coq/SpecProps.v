(* Properties of the abstract machine (Spec.v) in the vocabulary of the
   property texts, and their transfer to the model through Refine.v. *)
From Coq Require Import List NArith Bool Lia Sorted Permutation.
From FsDb Require Import VList VListProofs Core Spec CoreLemmas CoreInv Refine.
Import ListNotations.
Open Scope N_scope.

(* ---------- sort_keys ---------- *)
Lemma In_insert_sorted k x l : In k (insert_sorted x l) <-> k = x \/ In k l.
Proof.
  induction l as [|y l IH]; cbn [insert_sorted]; [cbn; intuition|].
  destruct (N.leb x y); cbn [In]; [intuition|]. rewrite IH. intuition.
Qed.

Lemma In_sort_keys k l : In k (sort_keys l) <-> In k l.
Proof.
  induction l as [|x l IH]; [reflexivity|].
  cbn [sort_keys fold_right]. fold (sort_keys l). rewrite In_insert_sorted, IH. cbn. intuition.
Qed.

Lemma insert_sorted_sorted x l : Sorted N.le l -> Sorted N.le (insert_sorted x l).
Proof.
  induction l as [|y l IH]; intros Hs; cbn [insert_sorted]; [repeat constructor|].
  destruct (N.leb_spec x y) as [Hle|Hgt].
  - constructor; [exact Hs | constructor; exact Hle].
  - inversion Hs as [|? ? Hs' Hhd]; subst. constructor; [exact (IH Hs')|].
    destruct l as [|z l]; cbn [insert_sorted]; [constructor; lia|].
    destruct (N.leb x z); constructor; [lia|]. inversion Hhd; subst. assumption.
Qed.

Lemma sort_keys_sorted l : Sorted N.le (sort_keys l).
Proof.
  induction l as [|x l IH]; [constructor|]. cbn [sort_keys fold_right]. fold (sort_keys l).
  apply insert_sorted_sorted. exact IH.
Qed.

Lemma insert_sorted_perm x l : Permutation (x :: l) (insert_sorted x l).
Proof.
  induction l as [|y l IH]; cbn [insert_sorted]; [reflexivity|].
  destruct (N.leb x y); [reflexivity|].
  transitivity (y :: x :: l); [apply perm_swap | apply perm_skip; exact IH].
Qed.

Lemma sort_keys_perm l : Permutation l (sort_keys l).
Proof.
  induction l as [|x l IH]; [reflexivity|]. cbn [sort_keys fold_right]. fold (sort_keys l).
  transitivity (x :: sort_keys l); [apply perm_skip; exact IH | apply insert_sorted_perm].
Qed.

Lemma sort_keys_NoDup l : NoDup l -> NoDup (sort_keys l).
Proof. intros H. eapply Permutation_NoDup; [apply sort_keys_perm | exact H]. Qed.

(* GetKeys lists, sorted and without duplicates, exactly the keys whose Get succeeds *)
Lemma akeys_spec a t k :
  NoDup (map fst (a_vers a)) ->
  Sorted N.le (akeys a t) /\ NoDup (akeys a t) /\
  (In k (akeys a t) <-> In k (map fst (a_vers a)) /\ exists v, aread a t k = Some v).
Proof.
  intros Hnd. unfold akeys. split; [apply sort_keys_sorted|]. split.
  - apply sort_keys_NoDup. apply NoDup_filter. exact Hnd.
  - rewrite In_sort_keys, filter_In. split; intros [H1 H2]; split; try exact H1.
    + destruct (aread a t k) as [v|]; [eauto | discriminate].
    + destruct H2 as [v ->]. reflexivity.
Qed.

(* a key without entries reads as not found at every level *)
Lemma aread_unknown_key a t k :
  alget (a_vers a) k = [] -> snap_val t k = None -> aread a t k = None.
Proof.
  intros E Hs. unfold aread. rewrite E. destruct (t_lvl t); cbn; try reflexivity; exact Hs.
Qed.

(* ---------- C13: operations through a handle that is not open ---------- *)
Lemma late_ops_spec a h :
  h <> 0 -> aopen_find a h = None ->
  (forall k v, astep a (OSet h k v) = (a, OutErr ETxNotFound)) /\
  (forall k, astep a (ODel h k) = (a, OutErr ETxNotFound)) /\
  (forall k, astep a (OGet h k) = (a, OutErr ETxNotFound)) /\
  astep a (OKeys h) = (a, OutErr ETxNotFound) /\
  astep a (OCommit h) = (a, OutErr ETxNotFound) /\
  astep a (ORollback h) = (a, OutUnit).
Proof.
  intros Hh Hf.
  assert (Er : areader a h = None).
  { unfold areader. destruct (N.eqb_spec h 0); [contradiction | exact Hf]. }
  repeat split; intros; cbn [astep]; rewrite ?Er, ?Hf; reflexivity.
Qed.

(* ---------- C09: the collector and draining are the identity of the spec ---------- *)
Definition is_gc (o : op) : bool := match o with OGC | ODrain => true | _ => false end.
Definition strip_gc (ops : list op) : list op := filter (fun o => negb (is_gc o)) ops.

(* outputs at the positions of the non-collector operations *)
Fixpoint outs_nongc (ops : list op) (outs : list out) : list out :=
  match ops, outs with
  | o :: r, x :: xs => if is_gc o then outs_nongc r xs else x :: outs_nongc r xs
  | _, _ => []
  end.

Lemma arun_strip_gc ops : forall a,
  outs_nongc ops (arun_from a ops) = arun_from a (strip_gc ops).
Proof.
  induction ops as [|o ops IH]; intros a; [reflexivity|].
  cbn [arun_from strip_gc filter].
  destruct (astep a o) as [a' x] eqn:E. cbn [outs_nongc].
  destruct (is_gc o) eqn:Eg; cbn [negb].
  - assert (a' = a) by (destruct o; try discriminate; cbn in E; congruence). subst a'. apply IH.
  - cbn [arun_from]. rewrite E. f_equal. apply IH.
Qed.

Lemma no_late_writes_strip ops : forall a,
  no_late_writes_from a ops = true -> no_late_writes_from a (strip_gc ops) = true.
Proof.
  induction ops as [|o ops IH]; intros a H; [reflexivity|].
  cbn [no_late_writes_from] in H. apply andb_true_iff in H. destruct H as [H1 H2].
  cbn [strip_gc filter]. destruct (is_gc o) eqn:Eg; cbn [negb].
  - assert (fst (astep a o) = a) by (destruct o; try discriminate; reflexivity).
    apply IH. congruence.
  - cbn [no_late_writes_from]. rewrite H1. cbn [andb]. apply IH. exact H2.
Qed.

Lemma has_reopen_strip ops : has_reopen ops = false -> has_reopen (strip_gc ops) = false.
Proof.
  unfold has_reopen, strip_gc. induction ops as [|o ops IH]; [reflexivity|].
  cbn [existsb filter]. intros H. apply orb_false_iff in H. destruct H as [H1 H2].
  destruct (negb (is_gc o)); cbn [existsb]; [rewrite H1|]; apply IH; exact H2.
Qed.

Theorem gc_transparent ops :
  no_late_writes ops = true -> has_reopen ops = false ->
  outs_nongc ops (mrun ops) = mrun (strip_gc ops).
Proof.
  intros Hl Hr.
  rewrite (model_refines_spec ops Hl Hr).
  rewrite (model_refines_spec (strip_gc ops) (no_late_writes_strip ops a_init Hl) (has_reopen_strip ops Hr)).
  apply arun_strip_gc.
Qed.

Lemma NoDup_map_filter_fst {V} (p : N * V -> bool) (s : list (N * V)) :
  NoDup (map fst s) -> NoDup (map fst (filter p s)).
Proof.
  induction s as [|x s IH]; intros H; [constructor|].
  cbn [map] in H. inversion H as [|? ? Hn Hnd]; subst. cbn [filter].
  destruct (p x); cbn [map]; [|exact (IH Hnd)].
  constructor; [|exact (IH Hnd)]. intros Hin. apply Hn.
  apply in_map_iff in Hin. destruct Hin as (y & E & Hy). apply filter_In in Hy.
  apply in_map_iff. exists y. tauto.
Qed.

(* ---------- C03: commit / rollback on the spec ---------- *)
Lemma committed_drop_owner h s k :
  h <> 0 -> committed_val (alget (drop_owner h s) k) = committed_val (alget s k).
Proof.
  intros Hh. unfold drop_owner.
  rewrite (alget_map_snd (fun _ l => filter (fun e => negb (owned_by h e)) l)) by reflexivity.
  unfold committed_val. f_equal. rewrite filter_filter. apply filter_ext. intros e.
  unfold owned_by, committed. destruct (N.eqb_spec (a_owner e) 0) as [->|]; [|apply andb_false_r].
  destruct (N.eqb_spec 0 h); [congruence | reflexivity].
Qed.

(* the conflict rule *)
Lemma acommit_conflict_iff a t :
  snd (acommit a t) = OutErr ETxSerialization <->
  is_snapshot (t_lvl t) = true /\
  exists k, In k (written_keys a (t_id t)) /\ In k (t_dirty t).
Proof.
  unfold acommit.
  destruct (is_snapshot (t_lvl t)) eqn:El; cbn [andb].
  - destruct (existsb (fun k => existsb (N.eqb k) (t_dirty t)) (written_keys a (t_id t))) eqn:Ex; cbn [snd].
    + split; [intros _|reflexivity]. split; [reflexivity|].
      apply existsb_exists in Ex. destruct Ex as (k & Hk & Hd). apply existsb_eqb_In in Hd. eauto.
    + split; [discriminate|]. intros (_ & k & Hk & Hd). exfalso.
      assert (E : existsb (fun k0 => existsb (N.eqb k0) (t_dirty t)) (written_keys a (t_id t)) = true).
      { apply existsb_exists. exists k. split; [exact Hk | apply existsb_eqb_In; exact Hd]. }
      congruence.
  - cbn [snd]. split; [discriminate | intros [H _]; discriminate].
Qed.

Lemma acommit_out a t : snd (acommit a t) = OutUnit \/ snd (acommit a t) = OutErr ETxSerialization.
Proof.
  unfold acommit.
  destruct (is_snapshot (t_lvl t) && existsb _ (written_keys a (t_id t))); cbn [snd]; auto.
Qed.

(* rollback and a failed commit leave the committed value of every key as it was *)
Lemma rollback_keeps_committed a h k :
  h <> 0 ->
  committed_val (alget (a_vers (fst (astep a (ORollback h)))) k) = committed_val (alget (a_vers a) k).
Proof.
  intros Hh. cbn [astep]. destruct (aopen_find a h); cbn [fst a_vers]; [|reflexivity].
  apply committed_drop_owner. exact Hh.
Qed.

Lemma failed_commit_keeps_committed a t k :
  t_id t <> 0 -> snd (acommit a t) = OutErr ETxSerialization ->
  committed_val (alget (a_vers (fst (acommit a t))) k) = committed_val (alget (a_vers a) k).
Proof.
  intros Hh. unfold acommit.
  destruct (is_snapshot (t_lvl t) && existsb _ (written_keys a (t_id t))); cbn [fst snd a_vers]; [|discriminate].
  intros _. apply committed_drop_owner. exact Hh.
Qed.

(* an autocommit-style write installs exactly that value as the committed value of k and touches no other key *)
Lemma awrite0_committed a k v k' :
  committed_val (alget (a_vers (awrite a 0 k v)) k') =
  if N.eqb k' k then v else committed_val (alget (a_vers a) k').
Proof.
  rewrite awrite_vers. cbn [N.eqb]. destruct (N.eqb k' k); [|reflexivity].
  unfold committed_val. rewrite filter_app. cbn [filter committed a_owner N.eqb].
  unfold last_val. rewrite last_opt_snoc. reflexivity.
Qed.

Lemma fold_awrite0_committed (f : N -> option N) ks : forall a k',
  NoDup ks ->
  committed_val (alget (a_vers (fold_left (fun s k => awrite s 0 k (f k)) ks a)) k') =
  if existsb (N.eqb k') ks then f k' else committed_val (alget (a_vers a) k').
Proof.
  induction ks as [|k ks IH]; intros a k' Hnd; [reflexivity|].
  inversion Hnd as [|? ? Hn Hnd']; subst. cbn [fold_left existsb].
  rewrite (IH _ k' Hnd'). rewrite awrite0_committed.
  destruct (existsb (N.eqb k') ks) eqn:Ex; [rewrite orb_true_r; reflexivity|]. rewrite orb_false_r.
  destruct (N.eqb_spec k' k) as [->|]; reflexivity.
Qed.

(* a successful commit makes the last value the transaction gave each key it wrote the
   committed value of that key — all of them — and changes no other key's committed value *)
Lemma commit_installs a t k :
  t_id t <> 0 -> NoDup (map fst (a_vers a)) -> snd (acommit a t) = OutUnit ->
  committed_val (alget (a_vers (fst (acommit a t))) k) =
  if existsb (N.eqb k) (written_keys a (t_id t))
  then last_val (filter (owned_by (t_id t)) (alget (a_vers a) k))
  else committed_val (alget (a_vers a) k).
Proof.
  intros Hh Hnd. unfold acommit.
  destruct (is_snapshot (t_lvl t) && existsb _ (written_keys a (t_id t))); cbn [fst snd]; [discriminate|].
  intros _. rewrite fold_awrite0_committed.
  - cbn [a_vers]. rewrite committed_drop_owner by exact Hh. reflexivity.
  - unfold written_keys. apply NoDup_map_filter_fst. exact Hnd.
Qed.

(* ---------- C01: outside transactions the spec is a key-value map ---------- *)
Lemma NoDup_keys_aset {V} (s : list (N * V)) k v : NoDup (map fst s) -> NoDup (map fst (aset s k v)).
Proof.
  intros H. rewrite keys_aset. destruct (existsb (N.eqb k) (map fst s)) eqn:E; [exact H|].
  apply NoDup_snoc; [exact H|]. intros Hin. apply existsb_eqb_In in Hin. congruence.
Qed.

Lemma keys_filter_val {V} (f : V -> bool) (s : list (N * V)) :
  NoDup (map fst s) ->
  map fst (filter (fun p => f (snd p)) s) =
  filter (fun k => match aget s k with Some v => f v | None => false end) (map fst s).
Proof.
  induction s as [|[k v] s IH]; intros Hnd; [reflexivity|].
  cbn [map fst] in Hnd. inversion Hnd as [|? ? Hn Hnd']; subst.
  cbn [filter map fst snd aget]. rewrite N.eqb_refl.
  assert (E : filter (fun k0 => match (if N.eqb k0 k then Some v else aget s k0) with Some v0 => f v0 | None => false end) (map fst s)
            = filter (fun k0 => match aget s k0 with Some v0 => f v0 | None => false end) (map fst s)).
  { apply filter_ext_in. intros k0 Hk0. destruct (N.eqb_spec k0 k) as [->|]; [contradiction | reflexivity]. }
  destruct (f v); cbn [map fst]; rewrite (IH Hnd'), E; reflexivity.
Qed.

Definition kv_entry (o : option (option N)) : list aver :=
  match o with Some v => [mkaver 0 v] | None => [] end.

Record KV (a : astate) (s : kvstate) : Prop := mkKV {
  kv_open : a_open a = [];
  kv_keys : map fst (a_vers a) = map fst s;
  kv_nodup : NoDup (map fst s);
  kv_vers : forall k, alget (a_vers a) k = kv_entry (aget s k)
}.

Definition is_auto (o : op) : bool :=
  match o with
  | OSet h _ _ | ODel h _ | OGet h _ | OKeys h => N.eqb h 0
  | OBegin _ | OCommit _ | ORollback _ | OReopen => false
  | OGC | ODrain => true
  end.

Lemma kv_read a s k : KV a s ->
  aread a (mkatx 0 RC [] []) k = match aget s k with Some (Some v) => Some v | _ => None end.
Proof.
  intros K. unfold aread. cbn [t_lvl t_id]. rewrite (kv_vers a s K k).
  destruct (aget s k) as [[v|]|]; reflexivity.
Qed.

Lemma kv_step a s o : KV a s -> is_auto o = true ->
  snd (astep a o) = snd (kvstep s o) /\ KV (fst (astep a o)) (fst (kvstep s o)).
Proof.
  intros K Ha. destruct o as [l|h k v|h k|h k|h|h|h| | |]; cbn [is_auto] in Ha; try discriminate;
    try (apply N.eqb_eq in Ha; subst h); cbn [astep kvstep areader N.eqb].
  - (* Set *)
    destruct (N.eqb_spec k 0); [split; [reflexivity | exact K]|]. cbn [fst snd]. split; [reflexivity|].
    constructor.
    + cbn. rewrite (kv_open a s K). reflexivity.
    + unfold awrite, install_committed. cbn [N.eqb a_vers]. apply keys_aset_mem. apply (kv_keys a s K).
    + apply NoDup_keys_aset. apply (kv_nodup a s K).
    + intros k'. rewrite awrite_vers, aget_aset. cbn [N.eqb]. destruct (N.eqb k' k); [|apply (kv_vers a s K)].
      rewrite (kv_vers a s K k). destruct (aget s k); reflexivity.
  - (* Delete *)
    cbn [fst snd]. split; [reflexivity|]. constructor.
    + cbn. rewrite (kv_open a s K). reflexivity.
    + unfold awrite, install_committed. cbn [N.eqb a_vers]. apply keys_aset_mem. apply (kv_keys a s K).
    + apply NoDup_keys_aset. apply (kv_nodup a s K).
    + intros k'. rewrite awrite_vers, aget_aset. cbn [N.eqb]. destruct (N.eqb k' k); [|apply (kv_vers a s K)].
      rewrite (kv_vers a s K k). destruct (aget s k); reflexivity.
  - (* Get *)
    cbn [fst snd]. split; [|exact K]. rewrite (kv_read a s k K).
    destruct (aget s k) as [[v|]|]; reflexivity.
  - (* Keys *)
    cbn [fst snd]. split; [|exact K]. f_equal. unfold akeys. f_equal.
    rewrite (kv_keys a s K).
    rewrite (keys_filter_val (fun o => match o with Some _ => true | None => false end) s (kv_nodup a s K)).
    apply filter_ext. intros k. rewrite (kv_read a s k K).
    destruct (aget s k) as [[v|]|]; reflexivity.
  - split; [reflexivity | exact K].
  - split; [reflexivity | exact K].
Qed.

Lemma kv_run ops : forall a s,
  KV a s -> forallb is_auto ops = true -> arun_from a ops = kvrun_from s ops.
Proof.
  induction ops as [|o ops IH]; intros a s K H; [reflexivity|].
  cbn [forallb] in H. apply andb_true_iff in H. destruct H as [H1 H2].
  destruct (kv_step a s o K H1) as [Eo K'].
  cbn [arun_from kvrun_from]. destruct (astep a o) as [a' x], (kvstep s o) as [s' y]. cbn [fst snd] in *.
  subst y. f_equal. apply IH; assumption.
Qed.

Lemma KV_init : KV a_init [].
Proof. constructor; try reflexivity. constructor. Qed.

Lemma auto_no_late ops : forall a,
  forallb is_auto ops = true -> no_late_writes_from a ops = true /\ has_reopen ops = false.
Proof.
  induction ops as [|o ops IH]; intros a H; [split; reflexivity|].
  cbn [forallb] in H. apply andb_true_iff in H. destruct H as [H1 H2].
  destruct (IH (fst (astep a o)) H2) as [E1 E2]. split.
  - cbn [no_late_writes_from]. rewrite E1, andb_true_r.
    destruct o; cbn [is_auto] in H1; try discriminate; cbn [write_handle]; try reflexivity.
    + apply N.eqb_eq in H1. subst h. destruct (N.eqb k 0); reflexivity.
    + apply N.eqb_eq in H1. subst h. reflexivity.
  - unfold has_reopen in *. cbn [existsb]. rewrite E2, orb_false_r.
    destruct o; cbn [is_auto] in H1; try discriminate; reflexivity.
Qed.

Theorem kv_refinement ops : forallb is_auto ops = true -> mrun ops = kvrun ops.
Proof.
  intros H. destruct (auto_no_late ops a_init H) as [H1 H2].
  rewrite (model_refines_spec ops H1 H2). unfold arun, kvrun. apply kv_run; [exact KV_init | exact H].
Qed.

(* an ended transaction leaves no entry behind *)
Lemma awrite0_no_owner a k0 v h :
  h <> 0 -> (forall k e, In e (alget (a_vers a) k) -> a_owner e <> h) ->
  forall k e, In e (alget (a_vers (awrite a 0 k0 v)) k) -> a_owner e <> h.
Proof.
  intros Hh H k e He. rewrite awrite_vers in He. cbn [N.eqb] in He.
  destruct (N.eqb k k0); [|exact (H k e He)].
  apply in_app_or in He. destruct He as [He|[<-|[]]].
  - apply filter_In in He. exact (H k0 e (proj1 He)).
  - cbn. intros E. apply Hh. symmetry. exact E.
Qed.

Lemma fold_awrite0_no_owner (f : N -> option N) ks h : forall a,
  h <> 0 -> (forall k e, In e (alget (a_vers a) k) -> a_owner e <> h) ->
  forall k e, In e (alget (a_vers (fold_left (fun s k0 => awrite s 0 k0 (f k0)) ks a)) k) -> a_owner e <> h.
Proof.
  induction ks as [|k0 ks IH]; intros a Hh H k e He; [exact (H k e He)|].
  cbn [fold_left] in He. apply (IH (awrite a 0 k0 (f k0)) Hh (awrite0_no_owner a k0 (f k0) h Hh H) k e He).
Qed.

Lemma drop_owner_no_owner h s k e :
  In e (alget (drop_owner h s) k) -> a_owner e <> h.
Proof.
  unfold drop_owner.
  rewrite (alget_map_snd (fun _ l => filter (fun e0 => negb (owned_by h e0)) l)) by reflexivity.
  intros He. apply filter_In in He. destruct He as [_ He]. unfold owned_by in He.
  destruct (N.eqb_spec (a_owner e) h); [discriminate | assumption].
Qed.

Lemma commit_leaves_no_entries a t k e :
  t_id t <> 0 -> In e (alget (a_vers (fst (acommit a t))) k) -> a_owner e <> t_id t.
Proof.
  intros Hh. unfold acommit.
  destruct (is_snapshot (t_lvl t) && existsb _ (written_keys a (t_id t))); cbn [fst].
  - cbn [a_vers]. apply drop_owner_no_owner.
  - apply fold_awrite0_no_owner; [exact Hh|]. intros k' e'. cbn [a_vers]. apply drop_owner_no_owner.
Qed.
