(* ErrMapProofs: proofs about the error-class and isolation-level mapping, over the
   tables GENERATED from the Go source (ErrMapGen.v via ErrMapInst.v).

   Method.  What the server does with an error value e depends on e only through
   the function [is e : sentinel -> bool] ("which sentinels does errors.Is
   report").  Every such function agrees, on all ten sentinels, with the
   membership function of one of the 1024 sub-lists of [all_sentinels], and each
   of those is realised by an actual error value (a Join of leaves).  A statement
   about all error trees is therefore decided by evaluating a boolean check on
   the 1024 sub-lists with the generated tables as data ([vm_compute]); the
   lemmas below make that reduction once.  If a case of a Go switch is edited the
   generated tables change and the [vm_compute] steps stop proving [true]. *)
From Coq Require Import List Bool.
From FsDb Require Import ErrMap ErrMapGen ErrMapInst.
Import ListNotations.

(* ---- decidable equality on sentinels ------------------------------------------ *)
Lemma sentinel_beq_eq : forall a b, sentinel_beq a b = true <-> a = b.
Proof.
  intros a b. split.
  - apply internal_sentinel_dec_bl.
  - apply internal_sentinel_dec_lb.
Qed.

Lemma sentinel_beq_refl : forall a, sentinel_beq a a = true.
Proof. intros a. apply sentinel_beq_eq. reflexivity. Qed.

Lemma all_sentinels_complete : forall s, In s all_sentinels.
Proof. intros s. destruct s; simpl; tauto. Qed.

(* the hand-written enumeration is the declaration list of errors.go *)
Lemma declared_sentinels_are_all : declared_sentinels = all_sentinels.
Proof. reflexivity. Qed.

(* ---- error trees: induction principle, meaning of [is] -------------------------- *)
Section ErrInd.
  Variable P : errv -> Prop.
  Hypothesis HLeaf : forall s, P (Leaf s).
  Hypothesis HOther : P Other.
  Hypothesis HWrap : forall e, P e -> P (Wrap e).
  Hypothesis HJoin : forall es, Forall P es -> P (Join es).

  Fixpoint err_ind' (e : errv) : P e :=
    match e with
    | Leaf s => HLeaf s
    | Other => HOther
    | Wrap e' => HWrap e' (err_ind' e')
    | Join es =>
      HJoin es ((fix go (l : list errv) : Forall P l :=
                   match l with
                   | [] => Forall_nil P
                   | x :: r => Forall_cons x (err_ind' x) (go r)
                   end) es)
    end.
End ErrInd.

Lemma is_Join : forall es S, is (Join es) S = existsb (fun x => is x S) es.
Proof. intros es S. induction es as [|x r IH]; simpl; [reflexivity|]. simpl in IH. rewrite IH. reflexivity. Qed.

Lemma leaves_Join : forall es, leaves (Join es) = flat_map leaves es.
Proof. intros es. induction es as [|x r IH]; simpl; [reflexivity|]. simpl in IH. rewrite IH. reflexivity. Qed.

(* errors.Is(e, S) holds exactly when the value S occurs somewhere in the tree,
   under any depth of wrapping and joining *)
Lemma is_leaves : forall e S, is e S = true <-> In S (leaves e).
Proof.
  intros e S. induction e as [s| |e IH|es IH] using err_ind'.
  - simpl. rewrite sentinel_beq_eq. split; [intros ->; left; reflexivity|intros [H|[]]; exact H].
  - simpl. split; [discriminate|intros []].
  - simpl. exact IH.
  - rewrite is_Join, leaves_Join, existsb_exists, in_flat_map.
    rewrite Forall_forall in IH.
    split; intros [x [Hx H]]; exists x; (split; [exact Hx|]); apply (IH x Hx); exact H.
Qed.

(* ---- reduction to the 1024 match sets ------------------------------------------ *)
Definition mset_of (l : list sentinel) (s : sentinel) : bool :=
  existsb (fun x => sentinel_beq x s) l.

Fixpoint subsets {A : Type} (l : list A) : list (list A) :=
  match l with
  | [] => [[]]
  | x :: r => map (cons x) (subsets r) ++ subsets r
  end.

Lemma filter_in_subsets : forall (A : Type) (f : A -> bool) (l : list A), In (filter f l) (subsets l).
Proof.
  intros A f l. induction l as [|x r IH]; simpl; [left; reflexivity|].
  apply in_or_app. destruct (f x).
  - left. apply in_map. exact IH.
  - right. exact IH.
Qed.

Definition canon (m : sentinel -> bool) : list sentinel := filter m all_sentinels.

Lemma mset_filter : forall (m : sentinel -> bool) l s,
  mset_of (filter m l) s = m s && mset_of l s.
Proof.
  intros m l s. unfold mset_of. induction l as [|x r IH]; simpl.
  - rewrite andb_false_r. reflexivity.
  - destruct (m x) eqn:Mx; simpl; rewrite IH; destruct (sentinel_beq x s) eqn:E; simpl.
    + apply sentinel_beq_eq in E. subst x. rewrite Mx. reflexivity.
    + reflexivity.
    + apply sentinel_beq_eq in E. subst x. rewrite Mx. reflexivity.
    + reflexivity.
Qed.

Lemma mset_all : forall s, mset_of all_sentinels s = true.
Proof. intros s. destruct s; reflexivity. Qed.

Lemma mset_canon : forall m s, mset_of (canon m) s = m s.
Proof. intros m s. unfold canon. rewrite mset_filter, mset_all, andb_true_r. reflexivity. Qed.

Lemma canon_in_subsets : forall m, In (canon m) (subsets all_sentinels).
Proof. intros m. apply filter_in_subsets. Qed.

(* every match set is the match set of a real error value *)
Definition tree_of (l : list sentinel) : errv := Join (map Leaf l).
Lemma tree_of_is : forall l s, is (tree_of l) s = mset_of l s.
Proof.
  intros l s. unfold tree_of, mset_of. rewrite is_Join.
  induction l as [|x r IH]; simpl; [reflexivity|]. rewrite IH. reflexivity.
Qed.

Lemma first_match_ext : forall (B : Type) (m m' : sentinel -> bool) (t : list (sentinel * B)) d,
  (forall s, m s = m' s) -> first_match m t d = first_match m' t d.
Proof.
  intros B m m' t d H. induction t as [|[s b] r IH]; simpl; [reflexivity|].
  rewrite H, IH. reflexivity.
Qed.

Lemma server_m_ext : forall T m m', (forall s, m s = m' s) -> server_m T m = server_m T m'.
Proof.
  intros T m m' H. unfold server_m.
  rewrite (first_match_ext _ m m' _ _ H), (first_match_ext _ m m' (t_pb T) _ H). reflexivity.
Qed.

Lemma primary_m_ext : forall T m m', (forall s, m s = m' s) -> primary_m T m = primary_m T m'.
Proof. intros T m m' H. unfold primary_m. apply first_match_ext. exact H. Qed.

Lemma reduce : forall e, exists l,
  In l (subsets all_sentinels) /\
  (forall s, is e s = mset_of l s) /\
  server e = server_m go_tables (mset_of l) /\
  primary e = primary_m go_tables (mset_of l).
Proof.
  intros e. exists (canon (is e)).
  assert (H : forall s, is e s = mset_of (canon (is e)) s) by (intros s; symmetry; apply mset_canon).
  split; [apply canon_in_subsets|]. split; [exact H|]. split.
  - apply server_m_ext. exact H.
  - apply primary_m_ext. exact H.
Qed.

(* ---- "r matches exactly the class S" ------------------------------------------- *)
Definition exactly (r : errv) (S : sentinel) : bool :=
  forallb (fun S' => eqb (is r S') (sentinel_beq S' S)) all_sentinels.

Lemma exactly_spec : forall r S, exactly r S = true ->
  is r S = true /\ forall S', is r S' = true -> S' = S.
Proof.
  intros r S H. unfold exactly in H. rewrite forallb_forall in H.
  assert (K : forall S', is r S' = sentinel_beq S' S).
  { intros S'. apply eqb_prop. apply H. apply all_sentinels_complete. }
  split.
  - rewrite K. apply sentinel_beq_refl.
  - intros S' H'. rewrite K in H'. apply sentinel_beq_eq. exact H'.
Qed.

(* ---- (1) the class survives the round trip -------------------------------------- *)
Definition chk_class (l : list sentinel) : bool :=
  let m := mset_of l in
  exactly (client (server_m go_tables m)) (primary_m go_tables m).

Lemma chk_class_all : forallb chk_class (subsets all_sentinels) = true.
Proof. vm_compute. reflexivity. Qed.

Theorem class_preserved : forall e,
  let S := primary e in
  is (client (server e)) S = true /\ forall S', is (client (server e)) S' = true -> S' = S.
Proof.
  intros e. destruct (reduce e) as (l & Hin & _ & Hs & Hp). cbv zeta.
  rewrite Hs, Hp. apply exactly_spec.
  exact (proj1 (forallb_forall _ _) chk_class_all l Hin).
Qed.

(* ---- (2) the announced class is a class the error really has --------------------- *)
Definition chk_primary (l : list sentinel) : bool :=
  let m := mset_of l in
  let S := primary_m go_tables m in
  if existsb (fun s => specific_class s && m s) all_sentinels
  then specific_class S && m S
  else sentinel_beq S ErrUnknown.

Lemma chk_primary_all : forallb chk_primary (subsets all_sentinels) = true.
Proof. vm_compute. reflexivity. Qed.

Theorem primary_spec : forall e,
  ((exists S, specific_class S = true /\ is e S = true) ->
     specific_class (primary e) = true /\ is e (primary e) = true) /\
  ((forall S, specific_class S = true -> is e S = false) -> primary e = ErrUnknown).
Proof.
  intros e. destruct (reduce e) as (l & Hin & Hm & _ & Hp).
  pose proof (proj1 (forallb_forall _ _) chk_primary_all l Hin) as C.
  unfold chk_primary in C. cbv zeta in C. rewrite <- Hp in C.
  destruct (existsb (fun s => specific_class s && mset_of l s) all_sentinels) eqn:E.
  - split.
    + intros _. apply andb_true_iff in C. destruct C as [C1 C2]. rewrite Hm. split; assumption.
    + intros H. apply existsb_exists in E. destruct E as (s & _ & Hs).
      apply andb_true_iff in Hs. destruct Hs as [Hs1 Hs2].
      rewrite <- Hm in Hs2. rewrite (H s Hs1) in Hs2. discriminate.
  - split.
    + intros (S & HS1 & HS2). exfalso.
      assert (X : existsb (fun s => specific_class s && mset_of l s) all_sentinels = true).
      { apply existsb_exists. exists S. split; [apply all_sentinels_complete|].
        rewrite <- Hm, HS1, HS2. reflexivity. }
      rewrite X in E. discriminate.
    + intros _. apply sentinel_beq_eq. exact C.
Qed.

(* corollaries in table-free vocabulary *)
Theorem single_class_exact : forall e S,
  specific_class S = true -> is e S = true ->
  (forall S', specific_class S' = true -> is e S' = true -> S' = S) ->
  forall S', is (client (server e)) S' = true <-> S' = S.
Proof.
  intros e S HS HeS Huniq S'.
  destruct (proj1 (primary_spec e) (ex_intro _ S (conj HS HeS))) as [P1 P2].
  pose proof (Huniq _ P1 P2) as EQ.
  destruct (class_preserved e) as [C1 C2]. cbv zeta in C1, C2. rewrite EQ in C1, C2.
  split; [apply C2|intros ->; exact C1].
Qed.

Theorem no_class_is_unknown : forall e,
  (forall S, specific_class S = true -> is e S = false) ->
  forall S', is (client (server e)) S' = true <-> S' = ErrUnknown.
Proof.
  intros e H S'. pose proof (proj2 (primary_spec e) H) as EQ.
  destruct (class_preserved e) as [C1 C2]. cbv zeta in C1, C2. rewrite EQ in C1, C2.
  split; [apply C2|intros ->; exact C1].
Qed.

Theorem config_errors_become_unknown : forall e,
  (forall S, is e S = true -> config_error S = true) ->
  forall S', is (client (server e)) S' = true <-> S' = ErrUnknown.
Proof.
  intros e H. apply no_class_is_unknown. intros S HS.
  destruct (is e S) eqn:E; [|reflexivity].
  pose proof (H S E) as Hc. destruct S; simpl in HS, Hc; discriminate.
Qed.

(* errors.Is-set equality with the server-side error does NOT hold in general *)
Theorem class_set_refuted :
  (exists e S, exported_class S = true /\ is e S = true /\ is (client (server e)) S = false) /\
  (exists e S, exported_class S = true /\ is e S = false /\ is (client (server e)) S = true).
Proof.
  split.
  - exists (Join [Leaf ErrNotFound; Leaf ErrEmptyKey]), ErrEmptyKey. vm_compute. repeat split.
  - exists Other, ErrUnknown. vm_compute. repeat split.
Qed.

(* ---- (3) status code and detail agree -------------------------------------------- *)
Definition chk_code (l : list sentinel) : bool :=
  let m := mset_of l in
  let S := primary_m go_tables m in
  let r := client (drop_detail (server_m go_tables m)) in
  if sentinel_beq S ErrHeaderNotFound then negb (is r ErrHeaderNotFound) else exactly r S.

Lemma chk_code_all : forallb chk_code (subsets all_sentinels) = true.
Proof. vm_compute. reflexivity. Qed.

Theorem code_consistent : forall e,
  primary e <> ErrHeaderNotFound ->
  let r := client (drop_detail (server e)) in
  is r (primary e) = true /\ forall S', is r S' = true -> S' = primary e.
Proof.
  intros e Hne. destruct (reduce e) as (l & Hin & _ & Hs & Hp). cbv zeta.
  pose proof (proj1 (forallb_forall _ _) chk_code_all l Hin) as C.
  unfold chk_code in C. cbv zeta in C. rewrite <- Hs, <- Hp in C.
  destruct (sentinel_beq (primary e) ErrHeaderNotFound) eqn:E.
  - apply sentinel_beq_eq in E. contradiction.
  - apply exactly_spec. exact C.
Qed.

Theorem code_header_exception : forall e,
  primary e = ErrHeaderNotFound ->
  is (client (drop_detail (server e))) ErrHeaderNotFound = false.
Proof.
  intros e He. destruct (reduce e) as (l & Hin & _ & Hs & Hp).
  pose proof (proj1 (forallb_forall _ _) chk_code_all l Hin) as C.
  unfold chk_code in C. cbv zeta in C. rewrite <- Hs, <- Hp, He in C. simpl in C.
  apply negb_true_iff. exact C.
Qed.

(* per case of Error's switch: the client's switch on the code leads back *)
Lemma code_cases_all :
  forallb (fun p => exactly (client_by_code (snd p)) (fst p)) error_code_table = true.
Proof. vm_compute. reflexivity. Qed.

Theorem code_case_consistent : forall S c,
  In (S, c) error_code_table ->
  is (client_by_code c) S = true /\ forall S', is (client_by_code c) S' = true -> S' = S.
Proof.
  intros S c H. apply exactly_spec.
  exact (proj1 (forallb_forall _ _) code_cases_all (S, c) H).
Qed.

(* a status code that no case of Error produces is read as ErrUnknown *)
Theorem unused_code_is_unknown : forall c,
  ~ In c (map snd error_code_table) ->
  forall S', is (client_by_code c) S' = true <-> S' = ErrUnknown.
Proof.
  intros c H S'.
  destruct c; try (exfalso; apply H; simpl; tauto);
    destruct S'; vm_compute; split; intros E; try reflexivity; discriminate E.
Qed.

Theorem code_case_exists : forall S,
  specific_class S = true -> S <> ErrHeaderNotFound -> In S (map fst error_code_table).
Proof. intros S H1 H2. destruct S; simpl in *; try discriminate; try tauto. Qed.

Theorem header_not_found_has_no_code :
  ~ In ErrHeaderNotFound (map fst error_code_table) /\
  server (Leaf ErrHeaderNotFound) = (codes_Internal, Some ErrorCode_ErrHeaderNotFound) /\
  classes (client (server (Leaf ErrHeaderNotFound))) = [ErrHeaderNotFound] /\
  classes (client (drop_detail (server (Leaf ErrHeaderNotFound)))) = [ErrUnknown].
Proof.
  split; [|vm_compute; repeat split].
  simpl. intros H. repeat (destruct H as [H|H]; [discriminate|]). exact H.
Qed.

(* ---- (4) isolation levels --------------------------------------------------------- *)
Definition named_level (l : mlevel) : Prop := l <> IsoLevelOther.
Definition named_plevel (p : plevel) : Prop := p <> TxIsoLevel_Other.

Theorem level_roundtrip : forall l, named_level l -> convert (to_grpc l) = l.
Proof. intros l H. destruct l; try reflexivity. exfalso. apply H. reflexivity. Qed.

Theorem plevel_roundtrip : forall p, named_plevel p -> to_grpc (convert p) = p.
Proof. intros p H. destruct p; try reflexivity. exfalso. apply H. reflexivity. Qed.

Theorem level_injective : forall l1 l2, named_level l1 -> named_level l2 -> to_grpc l1 = to_grpc l2 -> l1 = l2.
Proof.
  intros l1 l2 H1 H2 E. rewrite <- (level_roundtrip l1 H1), <- (level_roundtrip l2 H2), E. reflexivity.
Qed.

Theorem level_out_of_range :
  to_grpc IsoLevelOther = TxIsoLevel_ISO_LEVEL_READ_COMMITTED /\
  convert TxIsoLevel_Other = IsoLevelReadCommitted.
Proof. split; reflexivity. Qed.

(* the numbering used on the wire is the declared one *)
Lemma level_numbers_tied :
  map nat_of_level declared_levels = [Some 0; Some 1; Some 2; Some 3] /\
  map (fun p => nat_of_plevel (fst p)) plevel_numbers = map (fun p => Some (snd p)) plevel_numbers /\
  map fst plevel_numbers = [TxIsoLevel_ISO_LEVEL_READ_UNCOMMITTED; TxIsoLevel_ISO_LEVEL_READ_COMMITTED;
                            TxIsoLevel_ISO_LEVEL_REPEATABLE_READ; TxIsoLevel_ISO_LEVEL_SERIALIZABLE] /\
  map fst detail_numbers = [ErrorCode_ErrUnknown; ErrorCode_ErrNoFreeSpace; ErrorCode_ErrNotFound;
                            ErrorCode_ErrEmptyKey; ErrorCode_ErrHeaderNotFound; ErrorCode_ErrTxNotFound;
                            ErrorCode_ErrTxAlreadyExists; ErrorCode_ErrTxSerialization].
Proof. vm_compute. repeat split. Qed.
