(* Executable case runner for the VList model (used by the OCaml driver through
   extraction and by the in-Coq vm_compute cross-check). *)
From Coq Require Import List NArith Bool.
From FsDb Require Import VList.
Import ListNotations.

Inductive vtok :=
| TPush (s : N) | TPopFront | TPopBack | TCollect (h : N) | TLookup (s : N) | TLatest.

Inductive vres :=
| RUnit | RNone | RSome (s : N) | RList (l : list N) | RFuel.

Definition idN (x : N) : N := x.

Definition ropt (o : option N) : vres := match o with None => RNone | Some x => RSome x end.

(* the model: list + array mirror + binary search + collector loop *)
Definition vtok_step (k : kstore N) (t : vtok) : kstore N * vres :=
  match t with
  | TPush s => (push_back k s, RUnit)
  | TPopFront => let (r, k') := pop_front k in (k', ropt r)
  | TPopBack => let (r, k') := pop_back k in (k', ropt r)
  | TCollect h => let (d, k') := collect idN k h in (k', RList d)
  | TLookup s => (k, match last_before idN k s with None => RFuel | Some r => ropt r end)
  | TLatest => (k, ropt (latest k))
  end.

Fixpoint vrun_from (k : kstore N) (ts : list vtok) : list vres :=
  match ts with
  | [] => []
  | t :: r => let (k', o) := vtok_step k t in o :: vrun_from k' r
  end.
Definition vrun (ts : list vtok) : list vres := vrun_from ks_empty ts.

(* the spec: a plain list, linear scans, filter-style collection *)
Definition vtok_step_spec (l : list N) (t : vtok) : list N * vres :=
  match t with
  | TPush s => (l ++ [s], RUnit)
  | TPopFront => match l with [] => (l, RNone) | x :: r => (r, RSome x) end
  | TPopBack => match last_opt l with None => (l, RNone) | Some x => (removelast l, RSome x) end
  | TCollect h => (collect_spec_keep idN l h, RList (collect_spec_del idN l h))
  | TLookup s => (l, ropt (last_before_spec idN l s))
  | TLatest => (l, ropt (last_opt l))
  end.

Fixpoint vrun_spec_from (l : list N) (ts : list vtok) : list vres :=
  match ts with
  | [] => []
  | t :: r => let (l', o) := vtok_step_spec l t in o :: vrun_spec_from l' r
  end.
Definition vrun_spec (ts : list vtok) : list vres := vrun_spec_from [] ts.

(* equality of results, for the in-Coq cross-check *)
Fixpoint list_N_eqb (a b : list N) : bool :=
  match a, b with
  | [], [] => true
  | x :: a', y :: b' => N.eqb x y && list_N_eqb a' b'
  | _, _ => false
  end.
Definition vres_eqb (a b : vres) : bool :=
  match a, b with
  | RUnit, RUnit | RNone, RNone | RFuel, RFuel => true
  | RSome x, RSome y => N.eqb x y
  | RList x, RList y => list_N_eqb x y
  | _, _ => false
  end.
Fixpoint vres_list_eqb (a b : list vres) : bool :=
  match a, b with
  | [], [] => true
  | x :: a', y :: b' => vres_eqb x y && vres_list_eqb a' b'
  | _, _ => false
  end.

(* indices of the cases whose expected result list differs from the model's *)
Fixpoint vmismatch_from (i : nat) (cs : list (list vtok * list vres)) : list nat :=
  match cs with
  | [] => []
  | (ts, ex) :: r =>
    if vres_list_eqb (vrun ts) ex then vmismatch_from (S i) r else i :: vmismatch_from (S i) r
  end.
Definition vmismatches := vmismatch_from 0.
