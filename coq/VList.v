(* VList: one key's version list (internal/model/core/file.go, list.go, node.go).

   Model of `file` = { l : List[model.File]; arr : []*Node } restricted to what
   usecase/core uses: PushBack, PopBack, PopFront, Latest, LastBefore
   (binarySearch over the array mirror) and the DeleteOld loop
   (IterateBeforeSeq + PopFront).  Elements are abstract (type A) with a
   sequence number [seq : A -> N].  This file holds executable definitions
   only; proofs live in VListProofs.v. *)
From Coq Require Import List NArith Arith Bool.
Import ListNotations.

Section VList.
  Variable A : Type.
  Variable seq : A -> N.

  (* the linked list [ks_list] (oldest first) and the array mirror [ks_arr]
     that binarySearch runs on *)
  Record kstore := { ks_list : list A; ks_arr : list A }.

  Definition ks_empty : kstore := {| ks_list := []; ks_arr := [] |}.

  (* file.PushBack: append to both *)
  Definition push_back (k : kstore) (x : A) : kstore :=
    {| ks_list := ks_list k ++ [x]; ks_arr := ks_arr k ++ [x] |}.

  Definition last_opt (l : list A) : option A :=
    match rev l with [] => None | x :: _ => Some x end.

  (* file.PopBack: n := l.PopBack(); if n != nil { arr = arr[:len-1] } *)
  Definition pop_back (k : kstore) : option A * kstore :=
    match last_opt (ks_list k) with
    | None => (None, k)
    | Some x => (Some x, {| ks_list := removelast (ks_list k);
                            ks_arr := removelast (ks_arr k) |})
    end.

  (* file.PopFront: n := l.PopFront(); if n != nil { copy(arr, arr[1:]); arr = arr[:len-1] } *)
  Definition pop_front (k : kstore) : option A * kstore :=
    match ks_list k with
    | [] => (None, k)
    | x :: r => (Some x, {| ks_list := r; ks_arr := tl (ks_arr k) |})
    end.

  (* file.Latest: l.Back().V() *)
  Definition latest (k : kstore) : option A := last_opt (ks_list k).

  (* binarySearch (file.go:124-142), branch for branch.  [None] = out of fuel. *)
  Fixpoint bsearch (fuel : nat) (arr : list A) (s : N) : option (option A) :=
    match arr with
    | [] => Some None                       (* loop condition len(arr) > 0 fails: return nil *)
    | _ :: _ =>
      match fuel with
      | O => None
      | S f =>
        let n := Nat.div (length arr) 2 in
        match nth_error arr n with
        | None => None                      (* index out of range: Go would panic *)
        | Some x =>
          if negb (N.ltb (seq x) s)         (* !arr[n].v.Seq.Before(seq) *)
          then bsearch f (firstn n arr) s   (* arr = arr[:n] *)
          else
            if Nat.eqb n (length arr - 1)
            then Some (Some x)
            else match nth_error arr (n + 1) with
                 | None => None
                 | Some y =>
                   if negb (N.ltb (seq y) s) then Some (Some x)
                   else bsearch f (skipn (n + 1) arr) s   (* arr = arr[n+1:] *)
                 end
        end
      end
    end.

  (* file.LastBefore: on the array mirror *)
  Definition last_before (k : kstore) (s : N) : option (option A) :=
    match ks_arr k with
    | [] => Some None
    | _ => bsearch (length (ks_arr k)) (ks_arr k) s
    end.

  (* usecase/core/delete_old.go inner loop for one file: IterateBeforeSeq(h)
     yields the front node while its successor exists (non-root, Seq != 0) and is
     not after h; the loop body pops the front. Works on the list; the array
     follows through pop_front. *)
  Fixpoint collect_list (l : list A) (h : N) : list A * list A :=
    match l with
    | x :: ((y :: _) as r) =>
      if negb (N.eqb (seq y) 0 || N.ltb h (seq y))
      then let (d, keep) := collect_list r h in (x :: d, keep)
      else ([], l)
    | _ => ([], l)
    end.

  Definition collect (k : kstore) (h : N) : list A * kstore :=
    let (d, keep) := collect_list (ks_list k) h in
    (d, {| ks_list := keep; ks_arr := skipn (length d) (ks_arr k) |}).

  (* ---------- specifications (what C18 says) ---------- *)

  (* newest element with seq < s, by linear scan; None if there is none *)
  Definition last_before_spec (l : list A) (s : N) : option A :=
    fold_left (fun acc x => if N.ltb (seq x) s then Some x else acc) l None.

  (* x (at position i) has a successor whose seq is <= h *)
  Fixpoint collect_spec_del (l : list A) (h : N) : list A :=
    match l with
    | x :: ((y :: _) as r) =>
      if N.leb (seq y) h then x :: collect_spec_del r h else collect_spec_del r h
    | _ => []
    end.
  Fixpoint collect_spec_keep (l : list A) (h : N) : list A :=
    match l with
    | x :: ((y :: _) as r) =>
      if N.leb (seq y) h then collect_spec_keep r h else x :: collect_spec_keep r h
    | _ => l
    end.

  (* operations on one list, for the interleaving theorem and the harness *)
  Inductive vop :=
  | VPush (x : A) | VPopFront | VPopBack | VCollect (h : N).

  Definition vstep (k : kstore) (o : vop) : kstore :=
    match o with
    | VPush x => push_back k x
    | VPopFront => snd (pop_front k)
    | VPopBack => snd (pop_back k)
    | VCollect h => snd (collect k h)
    end.

End VList.

Arguments ks_list {A}.
Arguments ks_arr {A}.
Arguments ks_empty {A}.
Arguments push_back {A}.
Arguments last_opt {A}.
Arguments pop_back {A}.
Arguments pop_front {A}.
Arguments latest {A}.
Arguments bsearch {A}.
Arguments last_before {A}.
Arguments collect_list {A}.
Arguments collect {A}.
Arguments last_before_spec {A}.
Arguments collect_spec_del {A}.
Arguments collect_spec_keep {A}.
Arguments VPush {A}.
Arguments VPopFront {A}.
Arguments VPopBack {A}.
Arguments VCollect {A}.
Arguments vstep {A}.
