(* Proofs about the fault model of the write path (Faults.v); statements of C10 are in Properties/C10.v. *)
From Coq Require Import List NArith Bool Lia.
From FsDb Require Import Core Faults.
Import ListNotations.
Open Scope N_scope.

(* ---------- chunking ---------- *)
Lemma chunks_aux_concat n cur room bs :
  concat (chunks_aux n cur room bs) = rev cur ++ bs.
Proof.
  revert cur room. induction bs as [|b tl IH]; intros cur room; simpl.
  - destruct cur as [|c cur']; [reflexivity|]. simpl concat. rewrite rev_append_rev, !app_nil_r. reflexivity.
  - destruct room as [|r].
    + simpl concat. rewrite IH, rev_append_rev, app_nil_r. simpl. reflexivity.
    + rewrite IH. simpl. rewrite <- app_assoc. reflexivity.
Qed.

Lemma chunks_of_concat n bs : concat (chunks_of n bs) = bs.
Proof. unfold chunks_of. rewrite chunks_aux_concat. reflexivity. Qed.

(* ---------- what a stream still has to deliver ---------- *)
Definition item_bytes (it : item) : bytes :=
  match it with IData bs => bs | IFail => [] | IFile _ bs => bs end.
Definition stream_bytes (its : list item) : bytes := flat_map item_bytes its.
Definition item_fails (it : item) : bool := match it with IFail => true | _ => false end.
Definition stream_fails (its : list item) : bool := existsb item_fails its.

Lemma stream_bytes_app a b : stream_bytes (a ++ b) = stream_bytes a ++ stream_bytes b.
Proof. unfold stream_bytes. apply flat_map_app. Qed.
Lemma stream_fails_app a b : stream_fails (a ++ b) = stream_fails a || stream_fails b.
Proof. unfold stream_fails. apply existsb_app. Qed.

Lemma flat_map_map_concat (A : Type) (f : bytes -> A) (g : A -> bytes) (l : list bytes) :
  (forall x, g (f x) = x) -> flat_map g (map f l) = concat l.
Proof.
  intros H. induction l as [|x l IH]; simpl; [reflexivity|]. rewrite H, IH. reflexivity.
Qed.

Lemma file_items_bytes buf id c : stream_bytes (file_items buf id c) = c.
Proof.
  unfold file_items. rewrite stream_bytes_app. unfold stream_bytes at 1.
  rewrite (flat_map_map_concat item (IFile id) item_bytes); [|reflexivity].
  rewrite chunks_of_concat. simpl. rewrite app_nil_r. reflexivity.
Qed.
Lemma mem_items_bytes buf c : stream_bytes (mem_items buf c) = c.
Proof.
  unfold mem_items, stream_bytes.
  rewrite (flat_map_map_concat item IData item_bytes); [|reflexivity].
  apply chunks_of_concat.
Qed.
Lemma existsb_map_false (A B : Type) (f : A -> B) (p : B -> bool) (l : list A) :
  (forall x, p (f x) = false) -> existsb p (map f l) = false.
Proof. intros H. induction l as [|x l IH]; simpl; [reflexivity|]. rewrite H, IH. reflexivity. Qed.
Lemma file_items_fails buf id c : stream_fails (file_items buf id c) = false.
Proof.
  unfold file_items. rewrite stream_fails_app. unfold stream_fails at 1.
  rewrite existsb_map_false; [reflexivity|reflexivity].
Qed.
Lemma mem_items_fails buf c : stream_fails (mem_items buf c) = false.
Proof. unfold mem_items, stream_fails. apply existsb_map_false. reflexivity. Qed.

Lemma src_items_bytes src : stream_bytes (map src_item src) = src_bytes src.
Proof.
  unfold stream_bytes, src_bytes. induction src as [|r src IH]; simpl; [reflexivity|].
  rewrite IH. destruct r; reflexivity.
Qed.
Lemma src_items_fails src : stream_fails (map src_item src) = src_fails src.
Proof.
  unfold stream_fails, src_fails. induction src as [|r src IH]; simpl; [reflexivity|].
  rewrite IH. destruct r; reflexivity.
Qed.

(* ---------- write_chunk ---------- *)
Lemma write_chunk_ok f off p w : write_chunk f off p = (w, true) -> w = p.
Proof.
  unfold write_chunk. destruct f as [|cap keep].
  - intros H. inversion H. reflexivity.
  - destruct (off + N.of_nat (length p) <=? cap); intros H; inversion H. reflexivity.
Qed.
Lemma write_chunk_fail f off p w :
  write_chunk f off p = (w, false) -> exists k, w = firstn k p.
Proof.
  unfold write_chunk. destruct f as [|cap keep].
  - intros H. inversion H.
  - destruct (off + N.of_nat (length p) <=? cap); intros H; inversion H. eexists. reflexivity.
Qed.
Lemma write_chunk_nofault off p : write_chunk NoFault off p = (p, true).
Proof. reflexivity. Qed.
Lemma write_chunk_ok_cap cap keep off p w :
  write_chunk (EnospcAt cap keep) off p = (w, true) -> off + N.of_nat (length p) <= cap.
Proof.
  unfold write_chunk. destruct (off + N.of_nat (length p) <=? cap) eqn:E; intros H; [|inversion H].
  apply N.leb_le. exact E.
Qed.
(* all-or-nothing plans write nothing of the failing chunk *)
Definition all_or_nothing (f : fault) : Prop :=
  match f with NoFault => True | EnospcAt _ keep => keep = 0 end.
Lemma write_chunk_fail_aon f off p w :
  all_or_nothing f -> write_chunk f off p = (w, false) -> w = [].
Proof.
  unfold write_chunk. destruct f as [|cap keep]; simpl.
  - intros _ H. inversion H.
  - intros -> . destruct (off + N.of_nat (length p) <=? cap); intros H; inversion H.
    rewrite N.min_0_r. reflexivity.
Qed.

Lemma firstn_skipn_len (A : Type) k (l : list A) : firstn k l ++ skipn (length (firstn k l)) l = l.
Proof.
  revert l. induction k as [|k IH]; intros l; simpl; [reflexivity|].
  destruct l as [|x l]; simpl; [reflexivity|]. rewrite IH. reflexivity.
Qed.

(* ---------- copy ---------- *)
Arguments write_chunk : simpl never.
Lemma read_item_bytes closed it bs :
  read_item closed it = RBytes bs -> item_bytes it = bs /\ item_fails it = false.
Proof.
  destruct it as [b| |id b]; simpl; intros R.
  - inversion R. split; reflexivity.
  - discriminate.
  - destruct (mem_nat id closed); [discriminate|]. inversion R. split; reflexivity.
Qed.

Lemma copy_done f closed file its file' :
  copy f closed file its = CDone file' ->
  file' = file ++ stream_bytes its /\ stream_fails its = false.
Proof.
  revert file. induction its as [|it tl IH]; intros file H; simpl in H.
  - inversion H. simpl. rewrite app_nil_r. split; reflexivity.
  - destruct (read_item closed it) as [bs|c] eqn:R; [|discriminate].
    destruct (read_item_bytes _ _ _ R) as [Hb Hf]. simpl. rewrite Hb, Hf. simpl.
    destruct bs as [|b0 bs'].
    + apply IH in H. exact H.
    + destruct (write_chunk f (N.of_nat (length file)) (b0 :: bs')) as [w ok] eqn:W.
      destruct ok; [|discriminate].
      apply IH in H. destruct H as [H1 H2]. split; [|exact H2].
      rewrite H1. rewrite <- app_assoc. reflexivity.
Qed.

Lemma copy_nospace f closed file its file' part chunk rest :
  copy f closed file its = CNoSpace file' part chunk rest ->
  file' ++ chunk ++ stream_bytes rest = file ++ stream_bytes its /\
  stream_fails its = stream_fails rest /\
  (exists k, part = firstn k chunk) /\
  (all_or_nothing f -> part = []).
Proof.
  revert file. induction its as [|it tl IH]; intros file H; simpl in H; [discriminate|].
  destruct (read_item closed it) as [bs|c] eqn:R; [|discriminate].
  destruct (read_item_bytes _ _ _ R) as [Hb Hf]. simpl. rewrite Hb, Hf. simpl.
  destruct bs as [|b0 bs'].
  - apply IH in H. exact H.
  - destruct (write_chunk f (N.of_nat (length file)) (b0 :: bs')) as [w ok] eqn:W.
    destruct ok.
    + apply IH in H. destruct H as (H1 & H2 & H3 & H4). repeat split; try assumption.
      rewrite H1. rewrite <- app_assoc. reflexivity.
    + inversion H; subst. repeat split.
      * exact (write_chunk_fail _ _ _ _ W).
      * intros A. exact (write_chunk_fail_aon _ _ _ _ A W).
Qed.

(* a Read can only fail on IFail or on a closed file *)
Lemma copy_readerr_open f file its c file' :
  copy f [] file its = CReadErr c file' -> stream_fails its = true.
Proof.
  revert file. induction its as [|it tl IH]; intros file H; simpl in H; [discriminate|].
  destruct it as [b| |id b]; simpl in H.
  - simpl. destruct b as [|b0 b'].
    + exact (IH _ H).
    + destruct (write_chunk f (N.of_nat (length file)) (b0 :: b')) as [w ok].
      destruct ok; [exact (IH _ H)|discriminate].
  - reflexivity.
  - simpl. destruct b as [|b0 b'].
    + exact (IH _ H).
    + destruct (write_chunk f (N.of_nat (length file)) (b0 :: b')) as [w ok].
      destruct ok; [exact (IH _ H)|discriminate].
Qed.

Lemma copy_nofault_open file its :
  stream_fails its = false -> copy NoFault [] file its = CDone (file ++ stream_bytes its).
Proof.
  revert file. induction its as [|it tl IH]; intros file Hf; simpl.
  - rewrite app_nil_r. reflexivity.
  - simpl in Hf. apply orb_false_iff in Hf. destruct Hf as [Hi Ht].
    destruct it as [b| |id b]; simpl in *; try discriminate.
    + destruct b as [|b0 b']; [apply IH; exact Ht|].
      rewrite IH by exact Ht. rewrite <- app_assoc. reflexivity.
    + destruct b as [|b0 b']; [apply IH; exact Ht|].
      rewrite IH by exact Ht. rewrite <- app_assoc. reflexivity.
Qed.

(* under a capacity, a completed copy wrote at most cap bytes (or nothing at all) *)
Lemma copy_done_cap cap keep closed file its file' :
  copy (EnospcAt cap keep) closed file its = CDone file' ->
  stream_bytes its = [] \/ N.of_nat (length file') <= cap.
Proof.
  revert file. induction its as [|it tl IH]; intros file H; simpl in H.
  - left. reflexivity.
  - destruct (read_item closed it) as [bs|c] eqn:R; [|discriminate].
    destruct (read_item_bytes _ _ _ R) as [Hb Hf]. simpl. rewrite Hb.
    destruct bs as [|b0 bs'].
    + simpl. exact (IH _ H).
    + destruct (write_chunk (EnospcAt cap keep) (N.of_nat (length file)) (b0 :: bs')) as [w ok] eqn:W.
      destruct ok; [|discriminate]. right.
      pose proof (write_chunk_ok_cap _ _ _ _ _ W) as Hc.
      destruct (IH _ H) as [E|L]; [|exact L].
      apply copy_done in H. destruct H as [H _]. rewrite H, E, app_nil_r.
      rewrite app_length. lia.
Qed.

(* ---------- the stream handed to the next root ---------- *)
Definition next_stream (P : params) (vis : nat) (file part chunk : bytes) (rest : list item) : list item :=
  file_items (p_buf P) vis (file ++ part) ++
  mem_items (p_buf P) (if p_dedup P then skipn (length part) chunk else chunk) ++ rest.

Lemma next_stream_same P vis f closed its file part chunk rest :
  copy f closed [] its = CNoSpace file part chunk rest ->
  p_dedup P = true \/ all_or_nothing f ->
  stream_bytes (next_stream P vis file part chunk rest) = stream_bytes its /\
  stream_fails (next_stream P vis file part chunk rest) = stream_fails its.
Proof.
  intros H Hex. apply copy_nospace in H. destruct H as (H1 & H2 & [k H3] & H4).
  unfold next_stream. rewrite !stream_bytes_app, !stream_fails_app.
  rewrite file_items_bytes, mem_items_bytes, file_items_fails, mem_items_fails. simpl.
  split; [|symmetry; exact H2].
  simpl in H1. rewrite <- H1. rewrite <- app_assoc. f_equal. rewrite app_assoc. f_equal.
  destruct Hex as [D|A].
  - rewrite D, H3. apply firstn_skipn_len.
  - rewrite (H4 A). simpl. destruct (p_dedup P); reflexivity.
Qed.

Lemma set_loop_unfold_nospace P r tl vis minSize closed opened its orph visited file part chunk rest :
  (r_free r <=? minSize) = false ->
  copy (r_fault r) closed [] its = CNoSpace file part chunk rest ->
  set_loop P (r :: tl) vis minSize closed opened its orph visited =
  set_loop P tl (S vis) (r_free r)
           (if p_lateclose P then closed else opened ++ closed)
           (if p_lateclose P then opened ++ [vis] else [vis])
           (next_stream P vis file part chunk rest)
           (orph ++ [(r_id r, file ++ part)]) (visited ++ [r_id r]).
Proof. intros Hs Hc. simpl. rewrite Hs, Hc. reflexivity. Qed.

(* ---------- exactness ---------- *)
(* the repaired Store, or the original one when every ENOSPC is all-or-nothing *)
Definition exact_ok (P : params) (order : list root) : Prop :=
  p_dedup P = true \/ Forall (fun r => all_or_nothing (r_fault r)) order.

Lemma exact_ok_tail P r tl : exact_ok P (r :: tl) -> exact_ok P tl.
Proof. intros [D|A]; [left; exact D|right; inversion A; assumption]. Qed.
Lemma exact_ok_head P r tl : exact_ok P (r :: tl) -> p_dedup P = true \/ all_or_nothing (r_fault r).
Proof. intros [D|A]; [left; exact D|right; inversion A; assumption]. Qed.

Lemma set_loop_exact P order : forall vis minSize closed opened its orph visited at_root content,
  exact_ok P order ->
  res_out (set_loop P order vis minSize closed opened its orph visited) = Stored at_root content ->
  content = stream_bytes its /\ stream_fails its = false.
Proof.
  induction order as [|r tl IH]; intros vis minSize closed opened its orph visited at_root content Hex H.
  - simpl in H. discriminate.
  - destruct (r_free r <=? minSize) eqn:Hs.
    + simpl in H. rewrite Hs in H. exact (IH _ _ _ _ _ _ _ _ _ (exact_ok_tail _ _ _ Hex) H).
    + destruct (copy (r_fault r) closed [] its) as [file|c file|file part chunk rest] eqn:Hc.
      * simpl in H. rewrite Hs, Hc in H. simpl in H. inversion H; subst.
        apply copy_done in Hc. simpl in Hc. exact Hc.
      * simpl in H. rewrite Hs, Hc in H. simpl in H. discriminate.
      * rewrite (set_loop_unfold_nospace _ _ _ _ _ _ _ _ _ _ _ _ _ _ Hs Hc) in H.
        apply IH in H; [|exact (exact_ok_tail _ _ _ Hex)].
        destruct (next_stream_same P vis _ _ _ _ _ _ _ Hc (exact_ok_head _ _ _ Hex)) as [E1 E2].
        rewrite E1, E2 in H. exact H.
Qed.

Theorem set_run_exact P order src at_root content :
  exact_ok P order ->
  res_out (set_run P order src) = Stored at_root content ->
  content = src_bytes src /\ src_fails src = false.
Proof.
  intros Hex H. unfold set_run in H. apply set_loop_exact in H; [|exact Hex].
  rewrite src_items_bytes, src_items_fails in H. exact H.
Qed.

(* ---------- continuation on another root ---------- *)
Lemma set_loop_continues P : p_lateclose P = true ->
  forall pre c post vis minSize opened its orph visited,
  stream_fails its = false ->
  minSize < r_free c ->
  (forall d, In d pre -> r_free d < r_free c) ->
  r_fault c = NoFault ->
  exists at_root content,
    res_out (set_loop P (pre ++ c :: post) vis minSize [] opened its orph visited) = Stored at_root content.
Proof.
  intros HL pre c post. induction pre as [|d pre IH]; intros vis minSize opened its orph visited Hf Hm Hpre Hc.
  - simpl. assert (Hs : (r_free c <=? minSize) = false) by (apply N.leb_gt; exact Hm).
    rewrite Hs, Hc, (copy_nofault_open [] its Hf). simpl. eauto.
  - assert (Hpre' : forall d0, In d0 pre -> r_free d0 < r_free c) by (intros d0 Hd; apply Hpre; right; exact Hd).
    destruct (r_free d <=? minSize) eqn:Hs.
    + simpl. rewrite Hs. apply IH; assumption.
    + destruct (copy (r_fault d) [] [] its) as [file|cf file|file part chunk rest] eqn:Hcp.
      * simpl. rewrite Hs, Hcp. simpl. eauto.
      * apply copy_readerr_open in Hcp. rewrite Hcp in Hf. discriminate.
      * change ((d :: pre) ++ c :: post) with (d :: (pre ++ c :: post)).
        rewrite (set_loop_unfold_nospace _ _ _ _ _ _ _ _ _ _ _ _ _ _ Hs Hcp). rewrite HL.
        apply IH; try assumption.
        -- pose proof (copy_nospace _ _ _ _ _ _ _ _ Hcp) as (_ & H2 & _ & _).
           unfold next_stream. rewrite !stream_fails_app, file_items_fails, mem_items_fails. simpl.
           rewrite <- H2. exact Hf.
        -- apply Hpre. left. reflexivity.
Qed.

Theorem set_run_continues P pre c post src :
  p_lateclose P = true ->
  src_fails src = false ->
  0 < r_free c ->
  (forall d, In d pre -> r_free d < r_free c) ->
  r_fault c = NoFault ->
  exists at_root content, res_out (set_run P (pre ++ c :: post) src) = Stored at_root content.
Proof.
  intros HL Hf H0 Hpre Hc. unfold set_run. apply set_loop_continues; try assumption.
  rewrite src_items_fails. exact Hf.
Qed.

(* ---------- no room anywhere ---------- *)
Definition no_room (total : nat) (r : root) : Prop :=
  r_free r = 0 \/ exists cap keep, r_fault r = EnospcAt cap keep /\ cap < N.of_nat total.

Lemma set_loop_no_room P : p_lateclose P = true ->
  forall order vis minSize opened its orph visited,
  exact_ok P order ->
  stream_fails its = false ->
  Forall (no_room (length (stream_bytes its))) order ->
  res_out (set_loop P order vis minSize [] opened its orph visited) = Err ENoFreeSpace.
Proof.
  intros HL order. induction order as [|r tl IH]; intros vis minSize opened its orph visited Hex Hf Hall.
  - reflexivity.
  - inversion Hall as [|r' tl' Hr Htl]; subst.
    destruct (r_free r <=? minSize) eqn:Hs.
    + simpl. rewrite Hs. apply IH; try assumption. exact (exact_ok_tail _ _ _ Hex).
    + destruct Hr as [H0|(cap & keep & Hfl & Hcap)].
      { rewrite H0 in Hs. apply N.leb_gt in Hs. lia. }
      destruct (copy (r_fault r) [] [] its) as [file|cf file|file part chunk rest] eqn:Hcp.
      * exfalso. rewrite Hfl in Hcp. pose proof (copy_done_cap _ _ _ _ _ _ Hcp) as Hd.
        apply copy_done in Hcp. destruct Hcp as [Hfile _]. simpl in Hfile. subst file.
        destruct Hd as [E|L]; [rewrite E in Hcap; simpl in Hcap; lia|lia].
      * apply copy_readerr_open in Hcp. rewrite Hcp in Hf. discriminate.
      * rewrite (set_loop_unfold_nospace _ _ _ _ _ _ _ _ _ _ _ _ _ _ Hs Hcp). rewrite HL.
        destruct (next_stream_same P vis _ _ _ _ _ _ _ Hcp (exact_ok_head _ _ _ Hex)) as [E1 E2].
        apply IH.
        -- exact (exact_ok_tail _ _ _ Hex).
        -- rewrite E2. exact Hf.
        -- rewrite E1. exact Htl.
Qed.

Theorem set_run_no_room P order src :
  p_lateclose P = true -> exact_ok P order ->
  src_fails src = false ->
  Forall (no_room (length (src_bytes src))) order ->
  res_out (set_run P order src) = Err ENoFreeSpace.
Proof.
  intros HL Hex Hf Hall. unfold set_run. apply set_loop_no_room; try assumption.
  - rewrite src_items_fails. exact Hf.
  - rewrite src_items_bytes. exact Hall.
Qed.

(* ---------- two candidates: the literal reading of the property text ---------- *)
Theorem set_run_two_roots P c1 c2 cap keep src :
  p_dedup P = true \/ keep = 0 ->
  src_fails src = false ->
  0 < r_free c1 -> r_free c1 < r_free c2 ->
  r_fault c1 = EnospcAt cap keep -> cap < N.of_nat (length (src_bytes src)) ->   (* c1 runs out mid-write *)
  r_fault c2 = NoFault ->
  res_out (set_run P [c1; c2] src) = Stored (r_id c2) (src_bytes src) /\
  res_visited (set_run P [c1; c2] src) = [r_id c1; r_id c2].
Proof.
  intros Hex Hf H0 H12 Hf1 Hcap Hf2. unfold set_run.
  assert (Hs1 : (r_free c1 <=? 0) = false) by (apply N.leb_gt; exact H0).
  assert (Hs2 : (r_free c2 <=? r_free c1) = false) by (apply N.leb_gt; exact H12).
  pose proof (src_items_fails src) as Sf. rewrite Hf in Sf.
  pose proof (src_items_bytes src) as Sb.
  destruct (copy (r_fault c1) [] [] (map src_item src)) as [file|cf file|file part chunk rest] eqn:Hcp.
  - exfalso. rewrite Hf1 in Hcp. pose proof (copy_done_cap _ _ _ _ _ _ Hcp) as Hd.
    apply copy_done in Hcp. destruct Hcp as [Hfile _]. simpl in Hfile. subst file.
    rewrite Sb in Hd. destruct Hd as [E|L]; [rewrite E in Hcap; simpl in Hcap; lia|lia].
  - apply copy_readerr_open in Hcp. rewrite Hcp in Sf. discriminate.
  - rewrite (set_loop_unfold_nospace _ _ _ _ _ _ _ _ _ _ _ _ _ _ Hs1 Hcp).
    assert (Hcl : (if p_lateclose P then @nil nat else [] ++ []) = []) by (destruct (p_lateclose P); reflexivity).
    rewrite Hcl.
    assert (Hex' : p_dedup P = true \/ all_or_nothing (r_fault c1)).
    { destruct Hex as [D|K]; [left; exact D|right; rewrite Hf1; exact K]. }
    destruct (next_stream_same P 0 _ _ _ _ _ _ _ Hcp Hex') as [E1 E2].
    simpl. rewrite Hs2, Hf2. rewrite copy_nofault_open by (rewrite E2; exact Sf).
    simpl. rewrite E1, Sb. split; reflexivity.
Qed.

(* the repaired loop closes every Start file on every exit *)
Lemma set_loop_no_leak P : p_lateclose P = true ->
  forall order vis minSize closed opened its orph visited,
  res_leaked (set_loop P order vis minSize closed opened its orph visited) = O.
Proof.
  intros HL order. induction order as [|r tl IH]; intros vis minSize closed opened its orph visited.
  - simpl. unfold leaks. rewrite HL. reflexivity.
  - simpl. destruct (r_free r <=? minSize); [apply IH|].
    destruct (copy (r_fault r) closed [] its); simpl; try reflexivity.
    + unfold leaks. rewrite HL. reflexivity.
    + apply IH.
Qed.

(* ---------- what is left behind ---------- *)
Definition is_prefix (a b : bytes) : Prop := exists c, b = a ++ c.

Lemma copy_readerr_prefix f closed file its c file' :
  copy f closed file its = CReadErr c file' -> exists x, file ++ stream_bytes its = file' ++ x.
Proof.
  revert file. induction its as [|it tl IH]; intros file H; simpl in H; [discriminate|].
  destruct (read_item closed it) as [bs|c0] eqn:R.
  - destruct (read_item_bytes _ _ _ R) as [Hb _]. simpl. rewrite Hb.
    destruct bs as [|b0 bs'].
    + simpl. exact (IH _ H).
    + destruct (write_chunk f (N.of_nat (length file)) (b0 :: bs')) as [w ok].
      destruct ok; [|discriminate]. apply IH in H. destruct H as [x Hx].
      exists x. rewrite <- Hx, <- app_assoc. reflexivity.
  - inversion H; subst. eexists. reflexivity.
Qed.

(* every file the failed attempts leave behind holds a prefix of what the stream had to deliver *)
Lemma set_loop_orphans_prefix P order : forall vis minSize closed opened its orph visited,
  exact_ok P order ->
  Forall (fun o => is_prefix (snd o) (stream_bytes its)) orph ->
  Forall (fun o => is_prefix (snd o) (stream_bytes its))
         (res_orphans (set_loop P order vis minSize closed opened its orph visited)).
Proof.
  induction order as [|r tl IH]; intros vis minSize closed opened its orph visited Hex Ho.
  - exact Ho.
  - destruct (r_free r <=? minSize) eqn:Hs.
    + simpl. rewrite Hs. apply IH; [exact (exact_ok_tail _ _ _ Hex)|exact Ho].
    + destruct (copy (r_fault r) closed [] its) as [file|c file|file part chunk rest] eqn:Hc.
      * simpl. rewrite Hs, Hc. exact Ho.
      * simpl. rewrite Hs, Hc. simpl. apply Forall_app. split; [exact Ho|].
        constructor; [|constructor]. apply copy_readerr_prefix in Hc. destruct Hc as [x Hx].
        exists x. exact Hx.
      * rewrite (set_loop_unfold_nospace _ _ _ _ _ _ _ _ _ _ _ _ _ _ Hs Hc).
        destruct (next_stream_same P vis _ _ _ _ _ _ _ Hc (exact_ok_head _ _ _ Hex)) as [E1 _].
        pose proof (IH (S vis) (r_free r) (if p_lateclose P then closed else opened ++ closed)
                       (if p_lateclose P then opened ++ [vis] else [vis])
                       (next_stream P vis file part chunk rest)
                       (orph ++ [(r_id r, file ++ part)]) (visited ++ [r_id r])
                       (exact_ok_tail _ _ _ Hex)) as IH'.
        rewrite E1 in IH'. apply IH'.
        apply Forall_app. split; [exact Ho|]. constructor; [|constructor]. simpl.
        rewrite <- E1. unfold next_stream. rewrite stream_bytes_app, file_items_bytes.
        eexists. reflexivity.
Qed.

Theorem set_run_orphans_prefix P order src :
  exact_ok P order ->
  Forall (fun o => is_prefix (snd o) (src_bytes src)) (res_orphans (set_run P order src)).
Proof.
  intros Hex. unfold set_run. rewrite <- src_items_bytes.
  apply set_loop_orphans_prefix; [exact Hex|constructor].
Qed.

(* ---------- link to the Core machine ---------- *)
(* store.Set writes the content record (cfRepo.Store) and the version record (core.Store =
   push_version) only after the loop ended with a complete file; on an error it returns before both. *)
Definition apply_set (m : mstate) (h k v : N) (o : outcome) : mstate :=
  match o with
  | Stored _ _ => fst (mstep m (OSet h k v))
  | Err _ => m
  end.

Lemma apply_set_err m h k v e : apply_set m h k v (Err e) = m.
Proof. reflexivity. Qed.

Lemma apply_set_stored m h k v at_root content :
  k <> 0 ->
  apply_set m h k v (Stored at_root content) =
  push_version (set_cont (set_nextcid m (N.succ (m_nextcid m)))
                         (aset (m_cont m) (m_nextcid m) v)) h k (m_nextcid m).
Proof.
  intros Hk. unfold apply_set. cbn [mstep]. destruct (N.eqb_spec k 0) as [E|E]; [contradiction|].
  reflexivity.
Qed.
