(* Extraction of the executable models (ExtrOcamlBasic only; nat/N/Z/positive
   stay the extracted inductive types).  Run with coqc from /verif/ocaml/gen so
   the .ml lands there. *)
From Coq Require Import Extraction ExtrOcamlBasic.
From Coq Require Import List NArith.
From FsDb Require Import VList VListRun Codec Core Spec ErrMap ErrMapInst Config Dirs Faults RW Pool CodecRepo Client Stream.

Extraction Language OCaml.

Extraction "fsdb_model.ml"
  VListRun.vrun VListRun.vrun_spec
  Core.m_init Core.mstep Core.sort_keys Client.cstep
  Spec.a_init Spec.astep Spec.kvstep Spec.no_late_writes Spec.autocommit_only
  ErrMapInst.errmap_run_err ErrMapInst.errmap_run_wire ErrMapInst.errmap_run_level ErrMapInst.errmap_run_plevel
  Config.run_parse Config.run_valid
  Codec.run_marshal Codec.run_unmarshal Codec.uuid_format Codec.uuid_parse
  Dirs.dr_init Dirs.dr_step Dirs.dr_allowed Dirs.dr_get_phase
  Faults.run_faults Faults.src_bytes
  RW.rw_params RW.rw_init RW.rw_trace RW.rw_enum RW.rw_final RW.rw_stuck RW.rw_bound RW.rw_writes RW.rw_initial_obs RW.rw_outcome RW.sw_chunks
  CodecRepo.run_batch
  Stream.sr_run
  Pool.pl_mkpar Pool.pl_init Pool.pl_trace Pool.pl_enum Pool.pl_quiet Pool.pl_stranded Pool.pl_initial_obs Pool.pl_outcome Pool.pl_is_live Pool.pl_threads Pool.pl_enabled.
