(* The file repository around the codec (repository/file Set, GetAll): records are stored under their content id in a
   key-ordered store (Badger iterates "file/<uuid>" in byte order, which is the order of the id bytes) and GetAll
   decodes every value independently.  C19's round trip at the Set/GetAll observation point. *)
From Coq Require Import List NArith Bool Arith Lia.
From FsDb Require Import Base Codec CodecProofs.
Import ListNotations.
Open Scope N_scope.

Fixpoint bytes_ltb (a b : list N) : bool :=
  match a, b with
  | [], [] => false
  | [], _ :: _ => true
  | _ :: _, [] => false
  | x :: a', y :: b' => if x <? y then true else if y <? x then false else bytes_ltb a' b'
  end.

Fixpoint bytes_eqb (a b : list N) : bool :=
  match a, b with
  | [], [] => true
  | x :: a', y :: b' => (x =? y) && bytes_eqb a' b'
  | _, _ => false
  end.

Lemma bytes_eqb_eq a : forall b, bytes_eqb a b = true <-> a = b.
Proof.
  induction a as [|x a IH]; intros [|y b]; cbn [bytes_eqb]; split; intros H; try reflexivity; try discriminate.
  - apply andb_true_iff in H. destruct H as [H1 H2]. apply N.eqb_eq in H1. apply IH in H2. congruence.
  - injection H as -> ->. rewrite N.eqb_refl. cbn [andb]. apply IH. reflexivity.
Qed.

Definition kvstore := list (list N * list N).      (* content id -> value, ascending by id *)

Fixpoint kv_put (k v : list N) (m : kvstore) : kvstore :=
  match m with
  | [] => [(k, v)]
  | (k', v') :: r => if bytes_eqb k k' then (k, v) :: r
                     else if bytes_ltb k k' then (k, v) :: m
                     else (k', v') :: kv_put k v r
  end.

Definition repo_set (m : kvstore) (r : rec) : option kvstore :=
  match marshal r with Some b => Some (kv_put (r_cid r) b m) | None => None end.

Fixpoint repo_set_all (m : kvstore) (rs : list rec) : option kvstore :=
  match rs with
  | [] => Some m
  | r :: q => match repo_set m r with Some m' => repo_set_all m' q | None => None end
  end.

Fixpoint decode_all (vs : list (list N)) : option (list rec) :=
  match vs with
  | [] => Some []
  | v :: q => match unmarshal v, decode_all q with Some r, Some rs => Some (r :: rs) | _, _ => None end
  end.

Definition repo_get_all (m : kvstore) : option (list rec) := decode_all (map snd m).

(* runner for the correspondence *)
Definition run_batch (rs : list rec) : option (list rec) :=
  match repo_set_all [] rs with Some m => repo_get_all m | None => None end.

(* ---------------------------------------------------------------------------------------------- *)
(* every stored value is the encoding of a record with that content id *)
Definition kv_ok (m : kvstore) : Prop := Forall (fun kv => exists r, marshal r = Some (snd kv) /\ r_cid r = fst kv) m.

Lemma kv_put_ok k v m : kv_ok m -> (exists r, marshal r = Some v /\ r_cid r = k) -> kv_ok (kv_put k v m).
Proof.
  unfold kv_ok. intros Hm Hn. induction m as [|[k' v'] m IH]; cbn [kv_put].
  - constructor; [exact Hn|constructor].
  - inversion Hm as [|? ? H1 H2]; subst. destruct (bytes_eqb k k').
    + constructor; [exact Hn|exact H2].
    + destruct (bytes_ltb k k').
      * constructor; [exact Hn|exact Hm].
      * constructor; [exact H1|exact (IH H2)].
Qed.

Lemma repo_set_all_ok : forall rs m m', kv_ok m -> repo_set_all m rs = Some m' -> kv_ok m'.
Proof.
  induction rs as [|r rs IH]; intros m m' Hm H; cbn [repo_set_all] in H.
  - injection H as <-. exact Hm.
  - unfold repo_set in H. destruct (marshal r) as [b|] eqn:E; [|discriminate].
    apply (IH _ _ (kv_put_ok (r_cid r) b m Hm (ex_intro _ r (conj E eq_refl))) H).
Qed.

(* GetAll of such a store succeeds and returns, in key order, exactly the records whose encodings are stored *)
Theorem get_all_decodes m : kv_ok m ->
  exists rs, repo_get_all m = Some rs /\ map marshal rs = map (fun kv => Some (snd kv)) m /\ map r_cid rs = map fst m.
Proof.
  unfold repo_get_all, kv_ok. induction m as [|[k v] m IH]; intros H.
  - exists []. repeat split; reflexivity.
  - inversion H as [|? ? (r & Hr & Hk) H2]; subst. destruct (IH H2) as (rs & E & M1 & M2).
    cbn [map snd fst decode_all] in *. rewrite (unmarshal_marshal r v Hr), E.
    exists (r :: rs). cbn [map]. rewrite Hr, M1, M2, Hk. repeat split; reflexivity.
Qed.

(* membership in the store *)
Lemma kv_put_in k v m k0 v0 : In (k0, v0) (kv_put k v m) -> (k0 = k /\ v0 = v) \/ In (k0, v0) m.
Proof.
  induction m as [|[k' v'] m IH]; cbn [kv_put]; intros H.
  - destruct H as [H|[]]. injection H as <- <-. left. split; reflexivity.
  - destruct (bytes_eqb k k').
    + destruct H as [H|H]; [injection H as <- <-; left; split; reflexivity | right; right; exact H].
    + destruct (bytes_ltb k k').
      * destruct H as [H|H]; [injection H as <- <-; left; split; reflexivity | right; exact H].
      * destruct H as [H|H]; [right; left; exact H|]. destruct (IH H) as [E|E]; [left; exact E | right; right; exact E].
Qed.

Lemma kv_put_new k v m : In (k, v) (kv_put k v m).
Proof.
  induction m as [|[k' v'] m IH]; cbn [kv_put]; [left; reflexivity|].
  destruct (bytes_eqb k k'); [left; reflexivity|]. destruct (bytes_ltb k k'); [left; reflexivity | right; exact IH].
Qed.

Lemma kv_put_keeps k v m k0 v0 : In (k0, v0) m -> k0 <> k -> In (k0, v0) (kv_put k v m).
Proof.
  induction m as [|[k' v'] m IH]; cbn [kv_put]; intros H Hne; [destruct H|].
  destruct (bytes_eqb k k') eqn:E.
  - apply bytes_eqb_eq in E. subst k'. destruct H as [H|H]; [injection H as -> ->; congruence | right; exact H].
  - destruct (bytes_ltb k k'); [right; exact H|]. destruct H as [H|H]; [left; exact H | right; exact (IH H Hne)].
Qed.

Lemma marshal_inj r1 r2 b : marshal r1 = Some b -> marshal r2 = Some b -> r1 = r2.
Proof. intros H1 H2. apply unmarshal_marshal in H1. apply unmarshal_marshal in H2. congruence. Qed.

Lemma set_all_in : forall rs m m' k v, repo_set_all m rs = Some m' -> In (k, v) m' ->
  In (k, v) m \/ exists r, In r rs /\ r_cid r = k /\ marshal r = Some v.
Proof.
  induction rs as [|r rs IH]; intros m m' k v H Hin; cbn [repo_set_all] in H.
  - injection H as <-. left. exact Hin.
  - unfold repo_set in H. destruct (marshal r) as [b|] eqn:E; [|discriminate].
    destruct (IH _ _ k v H Hin) as [H1|(r' & Hr' & Hk & Hm)].
    + destruct (kv_put_in _ _ _ _ _ H1) as [[-> ->]|H2]; [right; exists r; repeat split; [left; reflexivity|exact E] | left; exact H2].
    + right. exists r'. repeat split; [right; exact Hr'|exact Hk|exact Hm].
Qed.

Lemma set_all_keeps : forall rs m m' k v, repo_set_all m rs = Some m' -> In (k, v) m -> ~ In k (map r_cid rs) -> In (k, v) m'.
Proof.
  induction rs as [|r rs IH]; intros m m' k v H Hin Hn; cbn [repo_set_all] in H.
  - injection H as <-. exact Hin.
  - unfold repo_set in H. destruct (marshal r) as [b|] eqn:E; [|discriminate]. cbn [map] in Hn.
    apply (IH _ _ k v H); [|intros X; apply Hn; right; exact X].
    apply kv_put_keeps; [exact Hin|]. intros ->. apply Hn. left. reflexivity.
Qed.

Lemma set_all_has : forall rs m m' r, NoDup (map r_cid rs) -> repo_set_all m rs = Some m' -> In r rs ->
  exists b, marshal r = Some b /\ In (r_cid r, b) m'.
Proof.
  induction rs as [|r0 rs IH]; intros m m' r Hnd H Hin; [destruct Hin|]. cbn [repo_set_all] in H.
  unfold repo_set in H. destruct (marshal r0) as [b|] eqn:E; [|discriminate]. cbn [map] in Hnd.
  inversion Hnd as [|? ? Hnot Hnd']; subst. destruct Hin as [->|Hin].
  - exists b. split; [exact E|]. apply (set_all_keeps rs _ m' _ _ H (kv_put_new _ _ _) Hnot).
  - exact (IH _ _ r Hnd' H Hin).
Qed.

(* the batch round trip: records with pairwise different content ids, stored in one transaction or one by one, are
   exactly what GetAll returns (as a set; in content-id order) *)
Theorem batch_roundtrip rs out : NoDup (map r_cid rs) -> run_batch rs = Some out ->
  (forall r, In r rs <-> In r out) /\ length out = length (map r_cid out).
Proof.
  unfold run_batch. intros Hnd H. destruct (repo_set_all [] rs) as [m|] eqn:E; [|discriminate].
  assert (Hok : kv_ok m) by (apply (repo_set_all_ok rs [] m); [constructor|exact E]).
  destruct (get_all_decodes m Hok) as (rs' & G & M1 & M2). rewrite G in H. injection H as <-.
  split; [|rewrite map_length; reflexivity]. intros r. split; intros Hin.
  - destruct (set_all_has rs [] m r Hnd E Hin) as (b & Hb & Hm).
    assert (X : In (Some b) (map marshal rs')).
    { rewrite M1. apply in_map_iff. exists (r_cid r, b). split; [reflexivity|exact Hm]. }
    apply in_map_iff in X. destruct X as (r' & Hr' & Hin'). rewrite (marshal_inj r r' b Hb Hr'). exact Hin'.
  - assert (X : In (marshal r) (map marshal rs')) by (apply in_map; exact Hin).
    rewrite M1 in X. apply in_map_iff in X. destruct X as ([k v] & Hv & Hkv). cbn [snd] in Hv.
    destruct (set_all_in rs [] m k v E Hkv) as [[]|(r' & Hr' & _ & Hm')].
    rewrite (marshal_inj r r' v (eq_sym Hv) Hm'). exact Hr'.
Qed.

(* the batch is defined exactly when every record can be encoded *)
Theorem batch_defined rs : forallb wf_rec rs = true -> exists out, run_batch rs = Some out.
Proof.
  intros Hwf. unfold run_batch.
  assert (X : forall q m, forallb wf_rec q = true -> exists m', repo_set_all m q = Some m').
  { induction q as [|r q IH]; intros m Hq; cbn [repo_set_all]; [eexists; reflexivity|].
    cbn [forallb] in Hq. apply andb_true_iff in Hq. destruct Hq as [Hr Hq]. unfold repo_set, marshal. rewrite Hr. apply IH. exact Hq. }
  destruct (X rs [] Hwf) as (m & E). rewrite E.
  destruct (get_all_decodes m (repo_set_all_ok rs [] m (Forall_nil _) E)) as (out & G & _). exists out. exact G.
Qed.
