(* Codec: persisted version records (internal/repository/file/conversion.go).
   Bytes are N values (< 256).  Executable definitions only. *)
From Coq Require Import List NArith Bool.
Import ListNotations.
Open Scope N_scope.

Record rec := { r_seq : N; r_tx : list N; r_cid : list N; r_key : list N }.

Definition uuid_len : nat := 16.
Definition time_len : nat := 8.
Definition header_len : nat := 40.   (* fileLenWithoutKey = 2*uuidLen + timeLen *)

(* binary.LittleEndian.PutUint64 *)
Fixpoint le_bytes (k : nat) (n : N) : list N :=
  match k with
  | O => []
  | S k' => (n mod 256) :: le_bytes k' (n / 256)
  end.
Definition le64 (n : N) : list N := le_bytes 8 n.

(* binary.LittleEndian.Uint64 *)
Fixpoint de_bytes (bs : list N) : N :=
  match bs with
  | [] => 0
  | b :: r => b + 256 * de_bytes r
  end.

(* marshalFile: only defined when the ids are 16 bytes (uuid.Parse succeeded)
   and the sequence fits 64 bits; otherwise ErrInvalidFileFormat *)
Definition wf_rec (r : rec) : bool :=
  (r_seq r <? 18446744073709551616) &&
  Nat.eqb (length (r_tx r)) uuid_len && Nat.eqb (length (r_cid r)) uuid_len.

Definition marshal (r : rec) : option (list N) :=
  if wf_rec r then Some (le64 (r_seq r) ++ r_tx r ++ r_cid r ++ r_key r) else None.

(* unmarshalFile *)
Definition unmarshal (bs : list N) : option rec :=
  if Nat.ltb (length bs) header_len then None
  else Some {| r_seq := de_bytes (firstn time_len bs);
               r_tx := firstn uuid_len (skipn time_len bs);
               r_cid := firstn uuid_len (skipn (time_len + uuid_len) bs);
               r_key := skipn header_len bs |}.

(* ---- canonical textual UUIDs (uuid.UUID.String / uuid.Parse, 36-char form) ---- *)
(* characters are N code points *)
Definition hex_digit (d : N) : N := if d <? 10 then 48 + d else 87 + d.   (* '0'.. / 'a'.. *)
Definition hex_val (c : N) : option N :=
  if (48 <=? c) && (c <=? 57) then Some (c - 48)
  else if (97 <=? c) && (c <=? 102) then Some (c - 87)
  else if (65 <=? c) && (c <=? 70) then Some (c - 55)
  else None.

Fixpoint hex_encode (bs : list N) : list N :=
  match bs with
  | [] => []
  | b :: r => hex_digit (b / 16) :: hex_digit (b mod 16) :: hex_encode r
  end.

Fixpoint hex_decode (fuel : nat) (cs : list N) : option (list N) :=
  match cs with
  | [] => Some []
  | h :: l :: r =>
    match fuel with
    | O => None
    | S f =>
      match hex_val h, hex_val l, hex_decode f r with
      | Some a, Some b, Some bs => Some (16 * a + b :: bs)
      | _, _, _ => None
      end
    end
  | _ => None
  end.

Definition dash : N := 45.
Definition uuid_format (b : list N) : list N :=
  hex_encode (firstn 4 b) ++ [dash] ++ hex_encode (firstn 2 (skipn 4 b)) ++ [dash] ++
  hex_encode (firstn 2 (skipn 6 b)) ++ [dash] ++ hex_encode (firstn 2 (skipn 8 b)) ++ [dash] ++
  hex_encode (skipn 10 b).

Definition uuid_parse (s : list N) : option (list N) :=
  if negb (Nat.eqb (length s) 36) then None else
  if negb (N.eqb (nth 8 s 0) dash && N.eqb (nth 13 s 0) dash &&
           N.eqb (nth 18 s 0) dash && N.eqb (nth 23 s 0) dash) then None else
  hex_decode 16 (firstn 8 s ++ firstn 4 (skipn 9 s) ++ firstn 4 (skipn 14 s) ++
                 firstn 4 (skipn 19 s) ++ skipn 24 s).

(* ---- runner for the correspondence ---- *)
Inductive cres := CBytes (bs : list N) | CRec (r : rec) | CErr.
Definition run_marshal (r : rec) : cres := match marshal r with Some b => CBytes b | None => CErr end.
Definition run_unmarshal (bs : list N) : cres := match unmarshal bs with Some r => CRec r | None => CErr end.
