(* Proofs about the configuration model (C20). *)
From Coq Require Import List ZArith NArith Bool String Ascii Lia.
From FsDb Require Import ConfigGen Config.
Import ListNotations.

(* ---------- small facts about the per-setting functions ---------- *)

Definition ebad {A} (e : envv A) : bool := match e with EBad => true | _ => false end.

Lemma ebad_true {A} (e : envv A) : ebad e = true <-> e = EBad.
Proof. destruct e; simpl; split; intros H; try discriminate; reflexivity. Qed.

Lemma ebad_false {A} (e : envv A) : ebad e = false <-> e <> EBad.
Proof.
  destruct e; simpl; split; intros H; try discriminate; try reflexivity.
  exfalso; apply H; reflexivity.
Qed.

Lemma fbad_true {A} (f : filev A) : fbad f = true <-> f = FBad.
Proof. destruct f; simpl; split; intros H; try discriminate; reflexivity. Qed.

Lemma enum_eff {A} (e : envv A) (f : filev A) (d v : A) :
  enum e (fget f d) = Some v -> v = eff_num e f d.
Proof. destruct e; simpl; intros H; inversion H; reflexivity. Qed.

Lemma enum_none {A} (e : envv A) (cur : A) : enum e cur = None <-> ebad e = true.
Proof. destruct e; simpl; split; intros H; try discriminate; reflexivity. Qed.

Lemma estr_eff (e : option (list N)) (f : filev (list N)) (d : list N) :
  estr e (fget f d) = eff_str e f d.
Proof. destruct e as [[|c r]|]; reflexivity. Qed.

Lemma eroots_eff (e : option (list N)) (f : filev (list (list N))) (d : list (list N)) :
  eroots e (fget f d) = eff_roots e f d.
Proof. destruct e as [[|c r]|]; reflexivity. Qed.

Lemma file_bad_iff (f : fileconf) : file_bad f = true <-> file_malformed f.
Proof.
  unfold file_bad, file_malformed.
  rewrite !orb_true_iff, !fbad_true. tauto.
Qed.

(* ---------- ParseEnv as a decision list ---------- *)

Definition env_applied (e : envconf) (c : config) : config :=
  {| c_port := match e_port e with EValue v => v | _ => c_port c end;
     c_storage :=
       {| s_db_path := estr (e_db e) (s_db_path (c_storage c));
          s_max_dir_count := match e_dc e with EValue v => v | _ => s_max_dir_count (c_storage c) end;
          s_root_dirs := eroots (e_rd e) (s_root_dirs (c_storage c));
          s_gc_period := match e_gc e with EValue v => v | _ => s_gc_period (c_storage c) end |};
     c_wpool :=
       {| w_num_workers := match e_nw e with EValue v => v | _ => w_num_workers (c_wpool c) end;
          w_send_duration := match e_sd e with EValue v => v | _ => w_send_duration (c_wpool c) end |} |}.

Lemma cpe_spec (e : envconf) (c : config) :
  config_parse_env e c =
  if ebad (e_port e) then PErr (EEnv SPort)
  else if ebad (e_dc e) then PErr (EEnv SDirCount)
  else if ebad (e_gc e) then PErr (EEnv SGCPeriod)
  else if ebad (e_nw e) then PErr (EEnv SNumWorkers)
  else if ebad (e_sd e) then PErr (EEnv SSendDuration)
  else POK (env_applied e c).
Proof.
  unfold config_parse_env, storage_parse_env, wpool_parse_env, env_applied.
  destruct (e_port e); simpl; try reflexivity;
  destruct (e_dc e); simpl; try reflexivity;
  destruct (e_gc e); simpl; try reflexivity;
  destruct (e_nw e); simpl; try reflexivity;
  destruct (e_sd e); simpl; reflexivity.
Qed.

Lemma env_bad_at_ebad (e : envconf) (s : setting) :
  env_bad_at e s <->
  match s with
  | SPort => ebad (e_port e) = true
  | SDirCount => ebad (e_dc e) = true
  | SGCPeriod => ebad (e_gc e) = true
  | SNumWorkers => ebad (e_nw e) = true
  | SSendDuration => ebad (e_sd e) = true
  | SDbPath | SRootDirs => False
  end.
Proof. destruct s; simpl; try rewrite ebad_true; tauto. Qed.

(* ---------- the file stage ---------- *)

Lemma load_file_ok (i : cinput) (c0 : config) :
  load_file (i_file i) (default_config (i_procs i)) = POK c0 ->
  c0 = overlay (file_of i) (default_config (i_procs i)) /\ file_ok i.
Proof.
  unfold load_file, file_of, file_ok. destruct (i_file i) as [| | |f] eqn:Hf; intros H.
  - inversion H. split; [reflexivity|]. split; [discriminate|]. intros f Hx; discriminate.
  - discriminate.
  - inversion H. split; [reflexivity|]. split; [discriminate|]. intros f Hx; discriminate.
  - unfold decode in H. destruct (file_bad f) eqn:Hb; [discriminate|].
    inversion H. split; [reflexivity|]. split; [discriminate|].
    intros f' Hx Hm. inversion Hx; subst f'.
    apply file_bad_iff in Hm. rewrite Hm in Hb. discriminate.
Qed.

Lemma load_file_of_ok (i : cinput) :
  file_ok i ->
  load_file (i_file i) (default_config (i_procs i)) = POK (overlay (file_of i) (default_config (i_procs i))).
Proof.
  unfold load_file, file_of, file_ok. intros [Hm Hf].
  destruct (i_file i) as [| | |f] eqn:Hi; try reflexivity.
  - exfalso; apply Hm; reflexivity.
  - unfold decode. destruct (file_bad f) eqn:Hb; [|reflexivity].
    exfalso. apply (Hf f eq_refl). apply file_bad_iff. exact Hb.
Qed.

Lemma load_file_err (i : cinput) (x : perr) :
  load_file (i_file i) (default_config (i_procs i)) = PErr x ->
  (x = EOpen /\ i_file i = MissingFile) \/
  (x = EDecode /\ exists f, i_file i = File f /\ file_malformed f).
Proof.
  unfold load_file. destruct (i_file i) as [| | |f] eqn:Hi; intros H; try discriminate.
  - inversion H. left; split; reflexivity.
  - unfold decode in H. destruct (file_bad f) eqn:Hb; [|discriminate].
    inversion H. right; split; [reflexivity|]. exists f; split; [reflexivity|].
    apply file_bad_iff; exact Hb.
Qed.

(* ---------- precedence ---------- *)

Theorem precedence (i : cinput) (c : config) :
  parse i = POK c ->
  c_port c = eff_num (e_port (i_env i)) (f_port (file_of i)) d_port /\
  s_db_path (c_storage c) = eff_str (e_db (i_env i)) (f_db (file_of i)) d_db_path /\
  s_max_dir_count (c_storage c) = eff_num (e_dc (i_env i)) (f_dc (file_of i)) d_dir_count /\
  s_root_dirs (c_storage c) = eff_roots (e_rd (i_env i)) (f_rd (file_of i)) d_root_dirs /\
  s_gc_period (c_storage c) = eff_num (e_gc (i_env i)) (f_gc (file_of i)) d_gc_period /\
  w_num_workers (c_wpool c) = eff_num (e_nw (i_env i)) (f_nw (file_of i)) (i_procs i) /\
  w_send_duration (c_wpool c) = eff_num (e_sd (i_env i)) (f_sd (file_of i)) d_send_duration.
Proof.
  unfold parse. intros H.
  destruct (load_file (i_file i) (default_config (i_procs i))) as [c0|x] eqn:Hl; [|discriminate].
  apply load_file_ok in Hl. destruct Hl as [Hc0 _]. subst c0.
  remember (file_of i) as f eqn:Ef. remember (i_env i) as e eqn:Ee.
  rewrite cpe_spec in H.
  destruct (ebad (e_port e)) eqn:B1; [discriminate|].
  destruct (ebad (e_dc e)) eqn:B2; [discriminate|].
  destruct (ebad (e_gc e)) eqn:B3; [discriminate|].
  destruct (ebad (e_nw e)) eqn:B4; [discriminate|].
  destruct (ebad (e_sd e)) eqn:B5; [discriminate|].
  inversion H as [Hc]. clear H Hc.
  unfold env_applied, overlay, default_config; simpl.
  rewrite estr_eff, eroots_eff.
  unfold eff_num.
  repeat split; reflexivity.
Qed.

(* ---------- errors ---------- *)

Lemma rank_values :
  rank SPort = 0 /\ rank SDbPath = 1 /\ rank SDirCount = 2 /\ rank SRootDirs = 3 /\
  rank SGCPeriod = 4 /\ rank SNumWorkers = 5 /\ rank SSendDuration = 6.
Proof. repeat split. Qed.

Theorem error_source (i : cinput) :
  (parse i = PErr EOpen <-> i_file i = MissingFile) /\
  (parse i = PErr EDecode <-> exists f, i_file i = File f /\ file_malformed f) /\
  (forall s, parse i = PErr (EEnv s) <->
     file_ok i /\ env_bad_at (i_env i) s /\
     forall s', rank s' < rank s -> ~ env_bad_at (i_env i) s').
Proof.
  destruct rank_values as (R0 & R1 & R2 & R3 & R4 & R5 & R6).
  unfold parse.
  destruct (load_file (i_file i) (default_config (i_procs i))) as [c0|x] eqn:Hl.
  - (* the file stage succeeded *)
    apply load_file_ok in Hl. destruct Hl as [_ Hok].
    remember (i_env i) as e eqn:Ee.
    assert (Hnot : forall y, config_parse_env e c0 = PErr y -> exists s, y = EEnv s).
    { intros y Hy. rewrite cpe_spec in Hy.
      destruct (ebad (e_port e)); [inversion Hy; eauto|].
      destruct (ebad (e_dc e)); [inversion Hy; eauto|].
      destruct (ebad (e_gc e)); [inversion Hy; eauto|].
      destruct (ebad (e_nw e)); [inversion Hy; eauto|].
      destruct (ebad (e_sd e)); [inversion Hy; eauto|]. discriminate. }
    split; [|split].
    + split.
      * intros H. apply Hnot in H. destruct H as [s Hs]; discriminate.
      * intros H. exfalso. apply (proj1 Hok). exact H.
    + split.
      * intros H. apply Hnot in H. destruct H as [s Hs]; discriminate.
      * intros [f [Hf Hm]]. exfalso. exact (proj2 Hok f Hf Hm).
    + intros s. rewrite cpe_spec. split.
      * intros H. split; [exact Hok|].
        destruct (ebad (e_port e)) eqn:B1.
        { inversion H; subst s. split; [apply ebad_true; exact B1|].
          intros s' Hlt. rewrite R0 in Hlt. lia. }
        destruct (ebad (e_dc e)) eqn:B2.
        { inversion H; subst s. split; [apply ebad_true; exact B2|].
          intros s' Hlt Hb. apply env_bad_at_ebad in Hb. rewrite R2 in Hlt.
          destruct s'; try (exfalso; lia); try exact Hb; congruence. }
        destruct (ebad (e_gc e)) eqn:B3.
        { inversion H; subst s. split; [apply ebad_true; exact B3|].
          intros s' Hlt Hb. apply env_bad_at_ebad in Hb. rewrite R4 in Hlt.
          destruct s'; try (exfalso; lia); try exact Hb; congruence. }
        destruct (ebad (e_nw e)) eqn:B4.
        { inversion H; subst s. split; [apply ebad_true; exact B4|].
          intros s' Hlt Hb. apply env_bad_at_ebad in Hb. rewrite R5 in Hlt.
          destruct s'; try (exfalso; lia); try exact Hb; congruence. }
        destruct (ebad (e_sd e)) eqn:B5.
        { inversion H; subst s. split; [apply ebad_true; exact B5|].
          intros s' Hlt Hb. apply env_bad_at_ebad in Hb. rewrite R6 in Hlt.
          destruct s'; try (exfalso; lia); try exact Hb; congruence. }
        discriminate.
      * intros (_ & Hbad & Hearly).
        assert (E : forall s', rank s' < rank s ->
                    match s' with
                    | SPort => ebad (e_port e) = false
                    | SDirCount => ebad (e_dc e) = false
                    | SGCPeriod => ebad (e_gc e) = false
                    | SNumWorkers => ebad (e_nw e) = false
                    | SSendDuration => ebad (e_sd e) = false
                    | SDbPath | SRootDirs => True
                    end).
        { intros s' Hlt. specialize (Hearly s' Hlt).
          destruct s'; try exact I; apply ebad_false; exact Hearly. }
        apply env_bad_at_ebad in Hbad.
        destruct s; try contradiction.
        { rewrite Hbad. reflexivity. }
        { rewrite (E SPort) by lia. rewrite Hbad. reflexivity. }
        { rewrite (E SPort), (E SDirCount) by lia. rewrite Hbad. reflexivity. }
        { rewrite (E SPort), (E SDirCount), (E SGCPeriod) by lia. rewrite Hbad. reflexivity. }
        { rewrite (E SPort), (E SDirCount), (E SGCPeriod), (E SNumWorkers) by lia.
          rewrite Hbad. reflexivity. }
  - (* the file stage failed: that error is returned, the environment is not looked at *)
    pose proof (load_file_err i x Hl) as Hx.
    split; [|split].
    + split.
      * intros H. inversion H; subst x.
        destruct Hx as [[_ Hm]|[Hd _]]; [exact Hm|discriminate].
      * intros H. destruct Hx as [[Hd _]|[_ [f [Hf _]]]]; [subst x; reflexivity|].
        rewrite H in Hf. discriminate.
    + split.
      * intros H. inversion H; subst x.
        destruct Hx as [[Hd _]|[_ Hm]]; [discriminate|exact Hm].
      * intros [f [Hf Hm]]. destruct Hx as [[_ Hmiss]|[Hd _]]; [|subst x; reflexivity].
        rewrite Hmiss in Hf. discriminate.
    + intros s. split.
      * intros H. inversion H; subst x.
        destruct Hx as [[Hd _]|[Hd _]]; discriminate.
      * intros (Hok & _). exfalso.
        destruct Hx as [[_ Hm]|[_ [f [Hf Hm]]]].
        { apply (proj1 Hok). exact Hm. }
        { exact (proj2 Hok f Hf Hm). }
Qed.

Theorem error_iff (i : cinput) :
  (exists x, parse i = PErr x) <->
  i_file i = MissingFile \/
  (exists f, i_file i = File f /\ file_malformed f) \/
  env_malformed (i_env i).
Proof.
  destruct (error_source i) as (Ho & Hd & He).
  split.
  - intros [x H]. destruct x as [| |s].
    + left. apply Ho. exact H.
    + right; left. apply Hd. exact H.
    + right; right. apply He in H. exists s. exact (proj1 (proj2 H)).
  - intros [H|[H|H]].
    + exists EOpen. apply Ho. exact H.
    + exists EDecode. apply Hd. exact H.
    + (* some environment value is malformed: whatever the file stage did, the result is an error *)
      unfold parse.
      destruct (load_file (i_file i) (default_config (i_procs i))) as [c0|x] eqn:Hl; [|eauto].
      rewrite cpe_spec. destruct H as [s Hs]. apply env_bad_at_ebad in Hs.
      destruct (ebad (e_port (i_env i))); [eauto|].
      destruct (ebad (e_dc (i_env i))); [eauto|].
      destruct (ebad (e_gc (i_env i))); [eauto|].
      destruct (ebad (e_nw (i_env i))); [eauto|].
      destruct (ebad (e_sd (i_env i))); [eauto|].
      destruct s; try contradiction; discriminate.
Qed.

(* parse is total (by construction) and never both *)
Lemma parse_total (i : cinput) : (exists c, parse i = POK c) \/ (exists x, parse i = PErr x).
Proof. destruct (parse i); eauto. Qed.

(* ---------- Valid ---------- *)

Lemma min_dc_value : min_dc = 100%N.
Proof. reflexivity. Qed.

Theorem valid_spec (s : storage) :
  (s_db_path s = [] -> valid s = VErr VErrEmptyDbPath) /\
  (s_db_path s <> [] -> s_root_dirs s = [] -> valid s = VErr VErrEmptyRootDirs) /\
  (s_db_path s <> [] -> s_root_dirs s <> [] ->
     valid s = VOK {| s_db_path := s_db_path s;
                      s_max_dir_count := N.max min_dc (s_max_dir_count s);
                      s_root_dirs := s_root_dirs s;
                      s_gc_period := s_gc_period s |}).
Proof.
  unfold valid. split; [|split].
  - intros H. rewrite H. reflexivity.
  - intros Hd Hr. destruct (s_db_path s) as [|a r]; [exfalso; apply Hd; reflexivity|].
    simpl. rewrite Hr. reflexivity.
  - intros Hd Hr. destruct (s_db_path s) as [|a r] eqn:Ed; [exfalso; apply Hd; reflexivity|].
    simpl. destruct (s_root_dirs s) as [|x l] eqn:Er; [exfalso; apply Hr; reflexivity|].
    f_equal. f_equal.
    destruct (N.ltb_spec (s_max_dir_count s) min_dc) as [Hlt|Hge].
    + rewrite N.max_l by lia. reflexivity.
    + rewrite N.max_r by lia. reflexivity.
Qed.

(* ---------- strings.Split ---------- *)

Lemma split_on_nonempty (sep : N) (s : list N) : split_on sep s <> [].
Proof.
  destruct s as [|c r]; simpl; [discriminate|].
  destruct (N.eqb c sep); [discriminate|].
  destruct (split_on sep r); discriminate.
Qed.

Theorem split_on_spec (sep : N) (s : list N) :
  split_on sep s <> [] /\
  join sep (split_on sep s) = s /\
  Forall (fun piece => ~ In sep piece) (split_on sep s).
Proof.
  split; [apply split_on_nonempty|].
  induction s as [|c r IH]; simpl.
  - split; [reflexivity|]. constructor; [intros H; exact H|constructor].
  - destruct IH as [IHj IHf].
    destruct (N.eqb_spec c sep) as [Heq|Hne].
    + subst c. split.
      * pose proof (split_on_nonempty sep r) as Hn.
        simpl. destruct (split_on sep r) as [|h t] eqn:Es; [exfalso; apply Hn; reflexivity|].
        simpl in *. rewrite IHj. reflexivity.
      * constructor; [intros H; exact H|exact IHf].
    + pose proof (split_on_nonempty sep r) as Hn.
      destruct (split_on sep r) as [|h t] eqn:Es; [exfalso; apply Hn; reflexivity|].
      split.
      * destruct t as [|h2 t2]; simpl in *; rewrite <- IHj; reflexivity.
      * inversion IHf as [|? ? Hh Ht]; subst.
        constructor; [|exact Ht].
        intros [Hc|Hin]; [apply Hne; exact Hc|exact (Hh Hin)].
Qed.

(* ---------- example data for the non-vacuity examples of Properties/C20.v ---------- *)
Definition ex_file : fileconf :=
  {| f_port := FValue 1111%Z; f_db := FValue (str "/f"); f_dc := FValue 50%N;
     f_rd := FAbsent; f_gc := FValue 5%Z; f_nw := FAbsent; f_sd := FValue 9%Z |}.
Definition ex_env : envconf :=
  {| e_port := EValue 2222%Z; e_db := Some []; e_dc := EEmpty; e_rd := Some (str "a;b");
     e_gc := EUnset; e_nw := EUnset; e_sd := EValue 10%Z |}.
