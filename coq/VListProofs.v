(* Proofs about VList (C18; reused by Core). *)
From Coq Require Import List NArith Arith Bool Lia Sorted.
From FsDb Require Import VList.
Import ListNotations.

Section Proofs.
  Variable A : Type.
  Variable seq : A -> N.

  Local Notation lt_seq := (fun a b : A => (seq a < seq b)%N).
  Definition sorted (l : list A) : Prop := StronglySorted lt_seq l.

  Lemma sorted_nil : sorted []. Proof. constructor. Qed.

  Lemma sorted_cons_inv x l : sorted (x :: l) -> sorted l /\ Forall (fun y => (seq x < seq y)%N) l.
  Proof. intros H; inversion H; subst; auto. Qed.

  Lemma sorted_app_inv l1 l2 :
    sorted (l1 ++ l2) ->
    sorted l1 /\ sorted l2 /\ (forall a b, In a l1 -> In b l2 -> (seq a < seq b)%N).
  Proof.
    induction l1 as [|x l1 IH]; simpl; intros H.
    - repeat split; [constructor | exact H | intros a b []].
    - apply sorted_cons_inv in H. destruct H as [Hs Hf].
      destruct (IH Hs) as (H1 & H2 & H3).
      rewrite Forall_app in Hf. destruct Hf as [Hf1 Hf2].
      repeat split.
      + constructor; assumption.
      + assumption.
      + intros a b [<-|Ha] Hb.
        * rewrite Forall_forall in Hf2. auto.
        * auto.
  Qed.

  Lemma sorted_app l1 l2 :
    sorted l1 -> sorted l2 -> (forall a b, In a l1 -> In b l2 -> (seq a < seq b)%N) ->
    sorted (l1 ++ l2).
  Proof.
    induction l1 as [|x l1 IH]; simpl; intros H1 H2 H3; [exact H2|].
    apply sorted_cons_inv in H1. destruct H1 as [Hs Hf].
    constructor.
    - apply IH; auto.
    - rewrite Forall_app; split; [exact Hf|].
      rewrite Forall_forall; intros b Hb. apply H3; auto.
  Qed.

  Lemma sorted_snoc l x :
    sorted l -> (forall a, In a l -> (seq a < seq x)%N) -> sorted (l ++ [x]).
  Proof.
    intros Hl Hx. apply sorted_app; [exact Hl | repeat constructor |].
    intros a b Ha [<-|[]]. auto.
  Qed.

  (* ---------- last_opt ---------- *)

  Lemma last_opt_nil : @last_opt A [] = None. Proof. reflexivity. Qed.

  Lemma last_opt_snoc (l : list A) x : last_opt (l ++ [x]) = Some x.
  Proof. unfold last_opt. rewrite rev_app_distr. reflexivity. Qed.

  Lemma last_opt_app (l1 l2 : list A) :
    last_opt (l1 ++ l2) = match last_opt l2 with Some z => Some z | None => last_opt l1 end.
  Proof.
    unfold last_opt. rewrite rev_app_distr.
    destruct (rev l2); reflexivity.
  Qed.

  Lemma last_opt_cons x (l : list A) :
    last_opt (x :: l) = match last_opt l with Some z => Some z | None => Some x end.
  Proof. change (x :: l) with ([x] ++ l). rewrite last_opt_app. reflexivity. Qed.

  Lemma last_opt_none (l : list A) : last_opt l = None -> l = [].
  Proof.
    unfold last_opt. intros H. destruct (rev l) eqn:E; [|discriminate].
    apply (f_equal (@rev A)) in E. rewrite rev_involutive in E. exact E.
  Qed.

  Lemma last_opt_some (l : list A) x : last_opt l = Some x -> l = removelast l ++ [x].
  Proof.
    unfold last_opt. intros H. destruct (rev l) eqn:E; [discriminate|].
    injection H as ->.
    apply (f_equal (@rev A)) in E. rewrite rev_involutive in E. simpl in E.
    subst l. rewrite removelast_last. reflexivity.
  Qed.

  Lemma last_opt_In (l : list A) x : last_opt l = Some x -> In x l.
  Proof. intros H. apply last_opt_some in H. rewrite H. apply in_or_app; right; left; reflexivity. Qed.

  (* ---------- last_before_spec ---------- *)

  Local Notation lbs := (last_before_spec seq).

  Lemma lbs_fold (l : list A) s acc :
    fold_left (fun acc x => if N.ltb (seq x) s then Some x else acc) l acc =
    match lbs l s with Some z => Some z | None => acc end.
  Proof.
    unfold last_before_spec. revert acc.
    induction l as [|x l IH]; simpl; intros acc; [reflexivity|].
    rewrite IH. rewrite (IH (if (seq x <? s)%N then Some x else None)).
    destruct (fold_left _ l None); [reflexivity|].
    destruct (seq x <? s)%N; reflexivity.
  Qed.

  Lemma lbs_nil s : lbs [] s = None. Proof. reflexivity. Qed.

  Lemma lbs_app l1 l2 s :
    lbs (l1 ++ l2) s = match lbs l2 s with Some z => Some z | None => lbs l1 s end.
  Proof.
    unfold last_before_spec at 1. rewrite fold_left_app.
    rewrite lbs_fold. reflexivity.
  Qed.

  Lemma lbs_cons x l s :
    lbs (x :: l) s =
    match lbs l s with Some z => Some z | None => if N.ltb (seq x) s then Some x else None end.
  Proof. change (x :: l) with ([x] ++ l). rewrite lbs_app. reflexivity. Qed.

  Lemma lbs_all_ge l s : Forall (fun y => (s <= seq y)%N) l -> lbs l s = None.
  Proof.
    induction 1 as [|y l Hy Hl IH]; [reflexivity|].
    rewrite lbs_cons, IH.
    destruct (N.ltb_spec (seq y) s); [lia | reflexivity].
  Qed.

  (* the characterisation the property uses: the result is an element with
     seq < s and every element with seq < s is not after it *)
  Lemma lbs_some_inv l s x :
    lbs l s = Some x -> In x l /\ (seq x < s)%N.
  Proof.
    induction l as [|y l IH]; [discriminate|].
    rewrite lbs_cons. destruct (lbs l s) eqn:E.
    - intros H; injection H as ->. destruct (IH eq_refl); split; [right|]; assumption.
    - destruct (N.ltb_spec (seq y) s) as [Hlt|Hge]; [|discriminate].
      intros H; injection H as ->. split; [left; reflexivity | assumption].
  Qed.

  Lemma lbs_none_inv l s : lbs l s = None -> Forall (fun y => (s <= seq y)%N) l.
  Proof.
    induction l as [|y l IH]; [constructor|].
    rewrite lbs_cons. destruct (lbs l s) eqn:E; [discriminate|].
    destruct (N.ltb_spec (seq y) s) as [Hlt|Hge]; [discriminate|].
    intros _. constructor; auto.
  Qed.

  Lemma lbs_is_newest l s x :
    sorted l -> lbs l s = Some x ->
    forall y, In y l -> (seq y < s)%N -> (seq y <= seq x)%N.
  Proof.
    induction l as [|z l IH]; [discriminate|].
    intros Hs. apply sorted_cons_inv in Hs. destruct Hs as [Hs Hf].
    rewrite lbs_cons. destruct (lbs l s) eqn:E.
    - intros H; injection H as ->. intros y [<-|Hy] Hlt.
      + destruct (lbs_some_inv _ _ _ E) as [Hin _].
        rewrite Forall_forall in Hf. specialize (Hf _ Hin). lia.
      + eapply IH; eauto.
    - destruct (N.ltb_spec (seq z) s) as [Hzlt|Hzge]; [|discriminate].
      intros H; injection H as ->. intros y [<-|Hy] Hlt; [lia|].
      apply lbs_none_inv in E. rewrite Forall_forall in E. specialize (E _ Hy). lia.
  Qed.

  (* ---------- binary search ---------- *)

  Lemma nth_error_split' (l : list A) n x :
    nth_error l n = Some x ->
    exists l1 l2, l = l1 ++ x :: l2 /\ length l1 = n /\ firstn n l = l1 /\ skipn (S n) l = l2.
  Proof.
    intros H. destruct (nth_error_split _ _ H) as (l1 & l2 & -> & Hlen).
    exists l1, l2. repeat split; [exact Hlen | |].
    - rewrite <- Hlen. rewrite firstn_app, Nat.sub_diag, firstn_all. simpl. apply app_nil_r.
    - rewrite <- Hlen.
      replace (S (length l1)) with (length l1 + 1) by lia.
      rewrite skipn_app. rewrite skipn_all2 by lia. simpl.
      replace (length l1 + 1 - length l1) with 1 by lia. reflexivity.
  Qed.

  Lemma bsearch_unfold f (arr : list A) s :
    arr <> [] ->
    bsearch seq (S f) arr s =
    match nth_error arr (Nat.div (length arr) 2) with
    | None => None
    | Some x =>
      if negb (N.ltb (seq x) s)
      then bsearch seq f (firstn (Nat.div (length arr) 2) arr) s
      else
        if Nat.eqb (Nat.div (length arr) 2) (length arr - 1)
        then Some (Some x)
        else match nth_error arr (Nat.div (length arr) 2 + 1) with
             | None => None
             | Some y =>
               if negb (N.ltb (seq y) s) then Some (Some x)
               else bsearch seq f (skipn (Nat.div (length arr) 2 + 1) arr) s
             end
    end.
  Proof. destruct arr; [congruence | reflexivity]. Qed.

  Theorem bsearch_correct fuel : forall arr s,
    length arr <= fuel -> sorted arr ->
    bsearch seq fuel arr s = Some (lbs arr s).
  Proof.
    induction fuel as [|f IH]; intros arr s Hlen Hs.
    - destruct arr; [reflexivity | simpl in Hlen; lia].
    - destruct arr as [|a0 arr0]; [reflexivity|].
      remember (a0 :: arr0) as arr eqn:Earr.
      assert (Hpos : 0 < length arr) by (subst; simpl; lia).
      rewrite bsearch_unfold by (subst; discriminate).
      set (n := Nat.div (length arr) 2).
      assert (Hn : n < length arr) by (apply Nat.div_lt; lia).
      destruct (nth_error arr n) as [x|] eqn:Ex;
        [|apply nth_error_None in Ex; lia].
      destruct (nth_error_split' _ _ _ Ex) as (l1 & l2 & Hsplit & Hl1 & Hfirst & Hskip).
      assert (Hsorted := Hs). rewrite Hsplit in Hsorted.
      apply sorted_app_inv in Hsorted. destruct Hsorted as (Hs1 & Hs2 & H12).
      apply sorted_cons_inv in Hs2. destruct Hs2 as [Hs2 Hx2].
      destruct (N.ltb_spec (seq x) s) as [Hlt|Hge]; cbn [negb].
      + (* x is before s *)
        assert (Hl1lt : lbs (l1 ++ [x]) s = Some x).
        { rewrite lbs_app. cbn. destruct (N.ltb_spec (seq x) s); [reflexivity|lia]. }
        destruct (Nat.eqb_spec n (length arr - 1)) as [Hlast|Hnl].
        * (* last element *)
          assert (H : l2 = []).
          { rewrite Hsplit in Hlast. rewrite app_length in Hlast. simpl in Hlast.
            destruct l2; [reflexivity | simpl in Hlast; lia]. }
          rewrite Hsplit, H, Hl1lt. reflexivity.
        * replace (n + 1) with (S n) by lia.
          destruct (nth_error arr (S n)) as [y|] eqn:Ey;
            [|apply nth_error_None in Ey; lia].
          assert (Hy : exists l3, l2 = y :: l3).
          { rewrite Hsplit in Ey. rewrite nth_error_app2 in Ey by lia.
            rewrite Hl1 in Ey. replace (S n - n) with 1 in Ey by lia.
            simpl in Ey. destruct l2; [discriminate|]. injection Ey as ->. eauto. }
          destruct Hy as [l3 ->].
          destruct (N.ltb_spec (seq y) s) as [Hylt|Hyge]; cbn [negb].
          -- (* continue right *)
             replace (n + 1) with (S n) by lia.
             rewrite Hskip. rewrite IH.
             ++ f_equal. rewrite Hsplit.
                replace (l1 ++ x :: y :: l3) with ((l1 ++ [x]) ++ y :: l3)
                  by (rewrite <- app_assoc; reflexivity).
                rewrite lbs_app.
                destruct (lbs (y :: l3) s) eqn:E; [reflexivity|].
                apply lbs_none_inv in E. inversion E; subst. lia.
             ++ rewrite Hsplit in Hlen. rewrite app_length in Hlen. simpl in *. lia.
             ++ exact Hs2.
          -- (* successor not before s: x is the answer *)
             f_equal. rewrite Hsplit.
             replace (l1 ++ x :: y :: l3) with ((l1 ++ [x]) ++ y :: l3)
               by (rewrite <- app_assoc; reflexivity).
             rewrite lbs_app. rewrite (lbs_all_ge (y :: l3)); [symmetry; exact Hl1lt|].
             constructor; [exact Hyge|].
             apply sorted_cons_inv in Hs2. destruct Hs2 as [_ Hy3].
             rewrite Forall_forall in Hy3 |- *. intros z Hz. specialize (Hy3 _ Hz). lia.
      + (* x not before s: go left *)
        rewrite Hfirst. rewrite IH.
        * f_equal. rewrite Hsplit. rewrite lbs_app.
          rewrite (lbs_all_ge (x :: l2)); [reflexivity|].
          constructor; [exact Hge|].
          rewrite Forall_forall in Hx2 |- *. intros z Hz. specialize (Hx2 _ Hz). lia.
        * rewrite Hsplit in Hlen. rewrite app_length in Hlen. simpl in *. lia.
        * exact Hs1.
  Qed.

  Corollary last_before_correct (k : kstore A) s :
    ks_arr k = ks_list k -> sorted (ks_list k) ->
    last_before seq k s = Some (lbs (ks_list k) s).
  Proof.
    intros Harr Hs. unfold last_before. rewrite Harr.
    destruct (ks_list k) eqn:E; [reflexivity|].
    rewrite <- E. apply bsearch_correct; [lia | rewrite E; exact Hs].
  Qed.

  (* ---------- collect ---------- *)

  Definition allpos (l : list A) : Prop := Forall (fun y => (0 < seq y)%N) l.

  Lemma collect_spec_del_stop x y r h :
    sorted (x :: y :: r) -> (h < seq y)%N ->
    collect_spec_del seq (x :: y :: r) h = [] /\
    collect_spec_keep seq (x :: y :: r) h = x :: y :: r.
  Proof.
    revert x y. induction r as [|z r IH]; intros x y Hs Hlt.
    - cbn. destruct (N.leb_spec (seq y) h); [lia|]. split; reflexivity.
    - apply sorted_cons_inv in Hs. destruct Hs as [Hs Hf].
      assert (Hz : (h < seq z)%N).
      { apply sorted_cons_inv in Hs. destruct Hs as [_ Hf2].
        inversion Hf2; subst. lia. }
      destruct (IH y z Hs Hz) as [Hd Hk].
      change (collect_spec_del seq (x :: y :: z :: r) h) with
          (if N.leb (seq y) h then x :: collect_spec_del seq (y :: z :: r) h
           else collect_spec_del seq (y :: z :: r) h).
      change (collect_spec_keep seq (x :: y :: z :: r) h) with
          (if N.leb (seq y) h then collect_spec_keep seq (y :: z :: r) h
           else x :: collect_spec_keep seq (y :: z :: r) h).
      destruct (N.leb_spec (seq y) h); [lia|].
      rewrite Hd, Hk. split; reflexivity.
  Qed.

  Theorem collect_list_exact l h :
    sorted l -> allpos l ->
    collect_list seq l h = (collect_spec_del seq l h, collect_spec_keep seq l h).
  Proof.
    induction l as [|x l IH]; intros Hs Hp; [reflexivity|].
    destruct l as [|y r]; [reflexivity|].
    assert (Hs' := Hs). apply sorted_cons_inv in Hs'. destruct Hs' as [Hsl _].
    assert (Hpl : allpos (y :: r)) by (inversion Hp; assumption).
    assert (Hy : (0 < seq y)%N) by (inversion Hpl; assumption).
    change (collect_list seq (x :: y :: r) h) with
        (if negb (N.eqb (seq y) 0 || N.ltb h (seq y))
         then let (d, keep) := collect_list seq (y :: r) h in (x :: d, keep)
         else ([], x :: y :: r)).
    destruct (N.eqb_spec (seq y) 0) as [E0|_]; [lia|]. cbn [orb].
    destruct (N.ltb_spec h (seq y)) as [Hlt|Hle]; cbn [negb].
    - destruct (collect_spec_del_stop x y r h Hs Hlt) as [-> ->]. reflexivity.
    - rewrite (IH Hsl Hpl).
      change (collect_spec_del seq (x :: y :: r) h) with
          (if N.leb (seq y) h then x :: collect_spec_del seq (y :: r) h
           else collect_spec_del seq (y :: r) h).
      change (collect_spec_keep seq (x :: y :: r) h) with
          (if N.leb (seq y) h then collect_spec_keep seq (y :: r) h
           else x :: collect_spec_keep seq (y :: r) h).
      destruct (N.leb_spec (seq y) h); [reflexivity | lia].
  Qed.

  (* "removes exactly the versions that have a successor not newer than h" *)
  Definition has_succ_le (l : list A) (h : N) (x : A) : Prop :=
    exists l1 y l2, l = l1 ++ x :: y :: l2 /\ (seq y <= h)%N.

  Lemma collect_spec_partition l h :
    exists d k, collect_spec_del seq l h = d /\ collect_spec_keep seq l h = k /\
                length d + length k = length l.
  Proof.
    induction l as [|x l IH]; [exists [], []; auto|].
    destruct l as [|y r]; [exists [], [x]; auto|].
    destruct IH as (d & k & Hd & Hk & Hl).
    change (collect_spec_del seq (x :: y :: r) h) with
        (if N.leb (seq y) h then x :: collect_spec_del seq (y :: r) h
         else collect_spec_del seq (y :: r) h).
    change (collect_spec_keep seq (x :: y :: r) h) with
        (if N.leb (seq y) h then collect_spec_keep seq (y :: r) h
         else x :: collect_spec_keep seq (y :: r) h).
    rewrite Hd, Hk.
    destruct (N.leb (seq y) h); eexists; eexists; repeat split; simpl in *; lia.
  Qed.

  Lemma collect_spec_del_In l h x :
    In x (collect_spec_del seq l h) <-> has_succ_le l h x.
  Proof.
    induction l as [|a l IH].
    - split; [intros [] | intros (l1 & y & l2 & H & _); destruct l1; discriminate].
    - destruct l as [|y r].
      + split; [intros [] | intros (l1 & y & l2 & H & _)].
        destruct l1 as [|? [|? ?]]; discriminate.
      + change (collect_spec_del seq (a :: y :: r) h) with
            (if N.leb (seq y) h then a :: collect_spec_del seq (y :: r) h
             else collect_spec_del seq (y :: r) h).
        destruct (N.leb_spec (seq y) h) as [Hle|Hgt].
        * split.
          -- intros [<-|Hin].
             ++ exists [], y, r. auto.
             ++ apply IH in Hin. destruct Hin as (l1 & y' & l2 & H & Hy').
                exists (a :: l1), y', l2. rewrite H. auto.
          -- intros (l1 & y' & l2 & H & Hy'). destruct l1 as [|b l1].
             ++ injection H as -> -> ->. left; reflexivity.
             ++ injection H as -> H. right. apply IH. exists l1, y', l2. auto.
        * split.
          -- intros Hin. apply IH in Hin. destruct Hin as (l1 & y' & l2 & H & Hy').
             exists (a :: l1), y', l2. rewrite H. auto.
          -- intros (l1 & y' & l2 & H & Hy'). destruct l1 as [|b l1].
             ++ injection H as -> -> ->. lia.
             ++ injection H as -> H. apply IH. exists l1, y', l2. auto.
  Qed.

  (* on a sorted list the removed part is a prefix and the kept part the matching suffix *)
  Lemma collect_list_split l h d k :
    collect_list seq l h = (d, k) -> l = d ++ k.
  Proof.
    revert d k. induction l as [|x l IH]; intros d k H.
    - injection H as <- <-. reflexivity.
    - destruct l as [|y r].
      + injection H as <- <-. reflexivity.
      + change (collect_list seq (x :: y :: r) h) with
            (if negb (N.eqb (seq y) 0 || N.ltb h (seq y))
             then let (d, keep) := collect_list seq (y :: r) h in (x :: d, keep)
             else ([], x :: y :: r)) in H.
        destruct (negb _).
        * destruct (collect_list seq (y :: r) h) as [d' k'] eqn:E.
          injection H as <- <-. rewrite (IH d' k' eq_refl). reflexivity.
        * injection H as <- <-. reflexivity.
  Qed.

  Lemma collect_list_keep_nonempty l h d k :
    collect_list seq l h = (d, k) -> l <> [] -> k <> [].
  Proof.
    revert d k. induction l as [|x l IH]; intros d k H Hne; [congruence|].
    destruct l as [|y r].
    - injection H as <- <-. discriminate.
    - change (collect_list seq (x :: y :: r) h) with
          (if negb (N.eqb (seq y) 0 || N.ltb h (seq y))
           then let (d, keep) := collect_list seq (y :: r) h in (x :: d, keep)
           else ([], x :: y :: r)) in H.
      destruct (negb _).
      + destruct (collect_list seq (y :: r) h) as [d' k'] eqn:E.
        injection H as <- <-. eapply IH; [reflexivity | discriminate].
      + injection H as <- <-. discriminate.
  Qed.

  (* every removed element, and the first kept element's predecessors, are <= h:
     the first kept element is the newest version with seq <= h when one exists *)
  Lemma collect_list_deleted_le l h d k :
    collect_list seq l h = (d, k) -> sorted l ->
    Forall (fun x => (seq x < h)%N \/ (seq x <= h)%N) d /\
    (d <> [] -> exists y k', k = y :: k' /\ (seq y <= h)%N).
  Proof.
    revert d k. induction l as [|x l IH]; intros d k H Hs.
    - injection H as <- <-. split; [constructor | congruence].
    - destruct l as [|y r].
      + injection H as <- <-. split; [constructor | congruence].
      + change (collect_list seq (x :: y :: r) h) with
            (if negb (N.eqb (seq y) 0 || N.ltb h (seq y))
             then let (d, keep) := collect_list seq (y :: r) h in (x :: d, keep)
             else ([], x :: y :: r)) in H.
        destruct (N.eqb_spec (seq y) 0) as [E0|E0]; cbn [orb negb] in H.
        { injection H as <- <-. split; [constructor | congruence]. }
        destruct (N.ltb_spec h (seq y)) as [Hlt|Hle]; cbn [negb] in H.
        { injection H as <- <-. split; [constructor | congruence]. }
        destruct (collect_list seq (y :: r) h) as [d' k'] eqn:E.
        injection H as <- <-.
        apply sorted_cons_inv in Hs. destruct Hs as [Hs Hf].
        destruct (IH d' k' eq_refl Hs) as [Hd Hk].
        split.
        * constructor; [|exact Hd]. inversion Hf; subst. left. lia.
        * intros _. destruct d' as [|z d''].
          -- (* y is the first kept *)
             apply collect_list_split in E. simpl in E. subst k'. eauto.
          -- apply Hk. discriminate.
  Qed.

  (* lookups at or after the horizon are unchanged by collection
     (strictly after; or at the horizon when the horizon is not a version number) *)
  Theorem collect_keeps_lookup l h s d k :
    sorted l -> collect_list seq l h = (d, k) ->
    (h < s)%N \/ (h = s /\ forall x, In x l -> seq x <> h) ->
    lbs k s = lbs l s.
  Proof.
    intros Hs H Hhs.
    assert (Hsplit := collect_list_split _ _ _ _ H).
    destruct (collect_list_deleted_le _ _ _ _ H Hs) as [Hd Hk].
    destruct d as [|d0 d']; [simpl in Hsplit; subst; reflexivity|].
    destruct Hk as (y & k' & -> & Hy); [discriminate|].
    rewrite Hsplit, lbs_app.
    destruct (lbs (y :: k') s) eqn:E; [reflexivity|].
    apply lbs_none_inv in E. inversion E; subst.
    destruct Hhs as [Hlt | [Heq Hne]]; [lia|].
    exfalso. apply (Hne y); [|lia].
    apply in_or_app; right; left; reflexivity.
  Qed.

  Theorem collect_keeps_latest l h d k :
    collect_list seq l h = (d, k) -> last_opt k = last_opt l.
  Proof.
    intros H. assert (Hsplit := collect_list_split _ _ _ _ H).
    destruct l as [|x l']; [simpl in H; injection H as <- <-; reflexivity|].
    assert (Hk : k <> []) by (eapply collect_list_keep_nonempty; [exact H | discriminate]).
    rewrite Hsplit, last_opt_app.
    destruct (last_opt k) eqn:E; [reflexivity|].
    apply last_opt_none in E. contradiction.
  Qed.

  (* ---------- the array mirror stays in step ---------- *)

  Definition mirror_ok (k : kstore A) : Prop := ks_arr k = ks_list k.

  Lemma removelast_snoc (l : list A) x : removelast (l ++ [x]) = l.
  Proof. apply removelast_last. Qed.

  Lemma mirror_step k o : mirror_ok k -> mirror_ok (vstep seq k o).
  Proof.
    unfold mirror_ok. destruct k as [l a]. cbn [ks_list ks_arr]. intros ->.
    destruct o as [x| | |h]; cbn [vstep].
    - reflexivity.
    - unfold pop_front. cbn [ks_list ks_arr]. destruct l; reflexivity.
    - unfold pop_back. cbn [ks_list ks_arr]. destruct (last_opt l); reflexivity.
    - unfold collect. cbn [ks_list ks_arr].
      destruct (collect_list seq l h) as [d keep] eqn:E.
      cbn [snd ks_list ks_arr]. rewrite (collect_list_split _ _ _ _ E) at 1.
      rewrite skipn_app, skipn_all, Nat.sub_diag. reflexivity.
  Qed.

  Theorem mirror_always ops k : mirror_ok k -> mirror_ok (fold_left (vstep seq) ops k).
  Proof.
    revert k. induction ops as [|o ops IH]; intros k H; [exact H|].
    simpl. apply IH. apply mirror_step. exact H.
  Qed.

  (* sortedness is kept by pops and collect, and by pushes of larger numbers *)
  Definition push_ok (k : kstore A) (o : vop A) : Prop :=
    match o with
    | VPush x => forall a, In a (ks_list k) -> (seq a < seq x)%N
    | _ => True
    end.

  Lemma sorted_removelast l : sorted l -> sorted (removelast l).
  Proof.
    intros H. destruct (last_opt l) eqn:E.
    - apply last_opt_some in E. rewrite E in H. apply sorted_app_inv in H. tauto.
    - apply last_opt_none in E. subst. exact H.
  Qed.

  Lemma sorted_step k o : sorted (ks_list k) -> push_ok k o -> sorted (ks_list (vstep seq k o)).
  Proof.
    destruct k as [l a]. cbn [ks_list]. intros Hs Hp.
    destruct o as [x| | |h]; cbn [vstep].
    - cbn [push_back ks_list]. apply sorted_snoc; assumption.
    - unfold pop_front. cbn [ks_list ks_arr]. destruct l; [exact Hs|].
      cbn [snd ks_list]. apply sorted_cons_inv in Hs. tauto.
    - unfold pop_back. cbn [ks_list ks_arr]. destruct (last_opt l); [|exact Hs].
      cbn [snd ks_list]. apply sorted_removelast. exact Hs.
    - unfold collect. cbn [ks_list ks_arr].
      destruct (collect_list seq l h) as [d keep] eqn:E. cbn [snd ks_list].
      rewrite (collect_list_split _ _ _ _ E) in Hs. apply sorted_app_inv in Hs. tauto.
  Qed.

  Fixpoint pushes_ok (k : kstore A) (ops : list (vop A)) : Prop :=
    match ops with
    | [] => True
    | o :: r => push_ok k o /\ pushes_ok (vstep seq k o) r
    end.

  Theorem sorted_mirror_always ops k :
    mirror_ok k -> sorted (ks_list k) -> pushes_ok k ops ->
    mirror_ok (fold_left (vstep seq) ops k) /\ sorted (ks_list (fold_left (vstep seq) ops k)).
  Proof.
    revert k. induction ops as [|o ops IH]; intros k Hm Hs Hp; [auto|].
    destruct Hp as [Hp1 Hp2]. simpl. apply IH; [apply mirror_step | apply sorted_step | ]; assumption.
  Qed.

End Proofs.
