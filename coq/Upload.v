(* Upload: a whole gRPC Create/SetReader - the client's stream writer (RW.writer_chunks, C12), the transport as
   a list of chunks, the server's upload reader (Stream.v) and the store's write path (Faults.v) - composed. *)
From Coq Require Import List Arith NArith Lia.
From FsDb Require Import Faults FaultsProofs RW RWProofs Stream StreamProofs.
Import ListNotations.
Local Open Scope nat_scope.

(* what the server stores for a completed external Create is the concatenation of the client's Writes, for
   every chunk size >= 1, every Read buffer length >= 1, every fault plan and candidate order *)
Theorem upload_stores_concat :
  forall cs (ws : list (list RW.byte)) n fuel src buf order r content,
    1 <= cs -> 0 < n ->
    sr_source false n fuel (sr_init (writer_chunks cs ws) false) = Some src ->
    res_out (set_run (store_fixed buf) order src) = Stored r content ->
    content = concat ws.
Proof.
  intros cs ws n fuel src buf order r content Hcs Hn Hs Hr.
  rewrite (grpc_upload_exact _ _ _ _ _ _ _ _ Hn Hs Hr).
  apply (proj1 (stream_concat cs ws Hcs)).
Qed.

(* and the server's loop over that stream ends: |content| + 1 Reads suffice *)
Theorem upload_reader_terminates :
  forall cs (ws : list (list RW.byte)) ab n fuel,
    1 <= cs -> 0 < n -> length (concat ws) < fuel ->
    exists src, sr_source false n fuel (sr_init (writer_chunks cs ws) ab) = Some src.
Proof.
  intros cs ws ab n fuel Hcs Hn Hl. apply grpc_reader_terminates; [exact Hn|].
  pose proof (proj1 (stream_concat cs ws Hcs)) as E. unfold RW.byte in *.
  rewrite E. exact Hl.
Qed.

(* a Create whose stream is cut after the chunks of any prefix of the Writes is not stored *)
Theorem upload_abort_not_stored :
  forall cs (ws : list (list RW.byte)) k n fuel src buf order,
    0 < n ->
    sr_source false n fuel (sr_init (firstn k (writer_chunks cs ws)) true) = Some src ->
    exists e, res_out (set_run (store_fixed buf) order src) = Err e.
Proof. intros cs ws k n fuel src buf order Hn Hs. eapply grpc_abort_never_stored; eauto. Qed.

(* the same content through both clients: an inline SetReader whose reader yields the pieces ws, and an external
   Create/SetReader that writes the same pieces, store the same bytes whenever both are stored - whatever the chunk
   size, the server's buffer length, the fault plans and root orders on either side *)
Theorem same_content_both_clients :
  forall cs (ws : list (list RW.byte)) n fuel src buf1 order1 r1 c1 buf2 order2 r2 c2,
    1 <= cs -> 0 < n ->
    res_out (set_run (store_fixed buf1) order1 (map Data ws)) = Stored r1 c1 ->
    sr_source false n fuel (sr_init (writer_chunks cs ws) false) = Some src ->
    res_out (set_run (store_fixed buf2) order2 src) = Stored r2 c2 ->
    c1 = c2.
Proof.
  intros cs ws n fuel src buf1 order1 r1 c1 buf2 order2 r2 c2 Hcs Hn H1 Hs H2.
  rewrite (upload_stores_concat _ _ _ _ _ _ _ _ _ Hcs Hn Hs H2).
  destruct (set_run_exact (store_fixed buf1) order1 (map Data ws) _ _ (or_introl eq_refl) H1) as [Hc _].
  rewrite Hc. unfold src_bytes. clear. induction ws as [|w ws IH]; simpl; [reflexivity|]. rewrite IH. reflexivity.
Qed.
