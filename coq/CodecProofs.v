From Coq Require Import List NArith Bool Lia Arith.
From Coq Require Import ZifyN ZifyNat ZifyBool.
From FsDb Require Import Base Codec.
Import ListNotations.
Open Scope N_scope.

Lemma le_bytes_length k n : length (le_bytes k n) = k.
Proof. revert n; induction k as [|k IH]; intros n; simpl; [reflexivity | rewrite IH; reflexivity]. Qed.

Lemma de_le_bytes k : forall n, de_bytes (le_bytes k n) = n mod (256 ^ N.of_nat k).
Proof.
  induction k as [|k IH]; intros n.
  - simpl. rewrite N.mod_1_r. reflexivity.
  - cbn [le_bytes de_bytes]. rewrite IH.
    rewrite Nat2N.inj_succ, N.pow_succ_r'.
    rewrite N.mod_mul_r by (try apply N.pow_nonzero; lia).
    lia.
Qed.

Lemma de_le64 n : n < 18446744073709551616 -> de_bytes (le64 n) = n.
Proof.
  intros H. unfold le64. rewrite de_le_bytes.
  apply N.mod_small. exact H.
Qed.

(* the i-th byte of the little-endian encoding is (n / 256^i) mod 256 *)
Lemma le_bytes_nth k : forall n i, (i < k)%nat ->
  nth i (le_bytes k n) 0 = (n / 256 ^ N.of_nat i) mod 256.
Proof.
  induction k as [|k IH]; intros n i Hi; [lia|].
  destruct i as [|i]; cbn [le_bytes nth].
  - simpl. rewrite N.div_1_r. reflexivity.
  - rewrite IH by lia. rewrite Nat2N.inj_succ, N.pow_succ_r'.
    rewrite N.div_div by (try apply N.pow_nonzero; lia). reflexivity.
Qed.

Lemma le_bytes_lt256 k : forall n, Forall (fun b => b < 256) (le_bytes k n).
Proof.
  induction k as [|k IH]; intros n; simpl; constructor; [|apply IH].
  apply N.mod_lt. lia.
Qed.

Lemma wf_rec_inv r : wf_rec r = true ->
  r_seq r < 18446744073709551616 /\ length (r_tx r) = 16%nat /\ length (r_cid r) = 16%nat.
Proof.
  unfold wf_rec, uuid_len. rewrite !andb_true_iff, N.ltb_lt, !Nat.eqb_eq. tauto.
Qed.

Theorem unmarshal_marshal r bs : marshal r = Some bs -> unmarshal bs = Some r.
Proof.
  unfold marshal. destruct (wf_rec r) eqn:W; [|discriminate].
  assert (L8 : length (le64 (r_seq r)) = 8%nat) by apply le_bytes_length.
  assert (D8 : r_seq r < 18446744073709551616 -> de_bytes (le64 (r_seq r)) = r_seq r) by apply de_le64.
  remember (le64 (r_seq r)) as hdr eqn:Ehdr. clear Ehdr.
  intros H; injection H as <-.
  apply wf_rec_inv in W. destruct W as (Hs & Ht & Hc).
  unfold unmarshal, header_len, time_len, uuid_len.
  rewrite !app_length, L8, Ht, Hc.
  destruct (Nat.ltb_spec (8 + (16 + (16 + length (r_key r)))) 40) as [Hl|_]; [lia|].
  f_equal.
  rewrite (firstn_app_exact _ _ 8 L8).
  rewrite (skipn_app_exact _ _ 8 L8).
  rewrite (skipn_add _ 8 16), (skipn_app_exact _ _ 8 L8), (skipn_app_exact _ _ 16 Ht).
  change 40%nat with (8 + (16 + 16))%nat.
  rewrite (skipn_add _ 8 (16 + 16)), (skipn_app_exact _ _ 8 L8).
  rewrite (skipn_add _ 16 16), (skipn_app_exact _ _ 16 Ht), (skipn_app_exact _ _ 16 Hc).
  rewrite (firstn_app_exact _ _ 16 Ht), (firstn_app_exact _ _ 16 Hc).
  rewrite D8 by exact Hs.
  destruct r; reflexivity.
Qed.

Lemma le_de_bytes bs : Forall (fun b => b < 256) bs -> le_bytes (length bs) (de_bytes bs) = bs.
Proof.
  induction 1 as [|b bs Hb Hbs IH]; [reflexivity|].
  cbn [length le_bytes de_bytes].
  assert (E1 : (b + 256 * de_bytes bs) mod 256 = b).
  { rewrite N.mul_comm, N.mod_add by lia. apply N.mod_small; exact Hb. }
  assert (E2 : (b + 256 * de_bytes bs) / 256 = de_bytes bs).
  { rewrite N.mul_comm, N.div_add by lia. rewrite N.div_small by exact Hb. reflexivity. }
  rewrite E1, E2, IH. reflexivity.
Qed.

Lemma de_bytes_bound bs : Forall (fun b => b < 256) bs -> de_bytes bs < 256 ^ N.of_nat (length bs).
Proof.
  induction 1 as [|b bs Hb Hbs IH]; [simpl; lia|].
  cbn [length de_bytes]. rewrite Nat2N.inj_succ, N.pow_succ_r'. lia.
Qed.

(* decoding is injective on byte strings: re-encoding what was decoded gives the same bytes *)
Theorem marshal_unmarshal bs r :
  Forall (fun b => b < 256) bs -> unmarshal bs = Some r -> marshal r = Some bs.
Proof.
  intros Hb. unfold unmarshal, header_len, time_len, uuid_len.
  destruct (Nat.ltb_spec (length bs) 40) as [|Hlen]; [discriminate|].
  assert (L1 : length (firstn 8 bs) = 8%nat) by (rewrite firstn_length; lia).
  assert (Hb8 : Forall (fun b => b < 256) (firstn 8 bs)) by (apply Forall_firstn'; exact Hb).
  assert (Hbound := de_bytes_bound _ Hb8). rewrite L1 in Hbound.
  change (256 ^ N.of_nat 8) with 18446744073709551616 in Hbound.
  assert (L2 : length (firstn 16 (skipn 8 bs)) = 16%nat) by (rewrite firstn_length, skipn_length; lia).
  assert (L3 : length (firstn 16 (skipn (8 + 16) bs)) = 16%nat) by (rewrite firstn_length, skipn_length; lia).
  assert (Hcat : firstn 8 bs ++ firstn 16 (skipn 8 bs) ++ firstn 16 (skipn (8 + 16) bs) ++ skipn 40 bs = bs).
  { change 40%nat with (8 + (16 + 16))%nat.
    rewrite (skipn_add bs 8 (16 + 16)), (skipn_add (skipn 8 bs) 16 16), (skipn_add bs 8 16).
    rewrite !firstn_skipn. reflexivity. }
  remember (firstn 8 bs) as f8 eqn:E8.
  remember (firstn 16 (skipn 8 bs)) as ftx eqn:Etx.
  remember (firstn 16 (skipn (8 + 16) bs)) as fcid eqn:Ecid.
  remember (skipn 40 bs) as fkey eqn:Ekey.
  clear E8 Etx Ecid Ekey.
  intros H; injection H as <-.
  unfold marshal, wf_rec, uuid_len. cbn [r_seq r_tx r_cid r_key].
  rewrite L2, L3.
  destruct (N.ltb_spec (de_bytes f8) 18446744073709551616) as [_|]; [|lia].
  cbn [Nat.eqb andb]. f_equal.
  unfold le64. rewrite <- L1 at 1. rewrite (le_de_bytes _ Hb8). exact Hcat.
Qed.

Theorem unmarshal_total bs :
  (length bs < 40 -> unmarshal bs = None)%nat /\
  (40 <= length bs -> exists r, unmarshal bs = Some r /\ r_key r = skipn 40 bs /\
                                length (r_tx r) = 16 /\ length (r_cid r) = 16)%nat.
Proof.
  unfold unmarshal, header_len, time_len, uuid_len. split; intros H.
  - destruct (Nat.ltb_spec (length bs) 40); [reflexivity | lia].
  - destruct (Nat.ltb_spec (length bs) 40); [lia|].
    eexists; split; [reflexivity|]. cbn [r_key r_tx r_cid].
    rewrite !firstn_length, !skipn_length. repeat split; lia.
Qed.

(* ---- textual UUIDs ---- *)
Lemma hex_val_digit d : d < 16 -> hex_val (hex_digit d) = Some d.
Proof.
  intros H. unfold hex_digit, hex_val.
  destruct (N.ltb_spec d 10).
  - destruct (N.leb_spec 48 (48 + d)); [|lia]. destruct (N.leb_spec (48 + d) 57); [|lia].
    cbn [andb]. f_equal. lia.
  - destruct (N.leb_spec 48 (87 + d)); [|lia]. destruct (N.leb_spec (87 + d) 57); [lia|].
    cbn [andb]. destruct (N.leb_spec 97 (87 + d)); [|lia]. destruct (N.leb_spec (87 + d) 102); [|lia].
    cbn [andb]. f_equal. lia.
Qed.

Lemma hex_decode_encode bs : forall fuel, (length bs <= fuel)%nat ->
  Forall (fun b => b < 256) bs -> hex_decode fuel (hex_encode bs) = Some bs.
Proof.
  induction bs as [|b bs IH]; intros fuel Hf Hb; [destruct fuel; reflexivity|].
  destruct fuel as [|f]; [simpl in Hf; lia|].
  inversion Hb as [|? ? Hb0 Hbs]; subst.
  cbn [hex_encode hex_decode].
  rewrite !hex_val_digit by (try apply N.mod_lt; try (apply N.div_lt_upper_bound); lia).
  rewrite IH by (simpl in Hf; try lia; assumption).
  f_equal. f_equal. rewrite (N.div_mod b 16) at 3 by lia. reflexivity.
Qed.

Theorem uuid_parse_format b :
  length b = 16%nat -> Forall (fun x => x < 256) b -> uuid_parse (uuid_format b) = Some b.
Proof.
  intros Hl Hb.
  do 16 (destruct b as [|? b]; [discriminate Hl|]). destruct b; [|discriminate Hl].
  unfold uuid_parse, uuid_format.
  cbn [hex_encode firstn skipn app length nth Nat.eqb negb].
  rewrite N.eqb_refl. cbn [andb negb].
  match goal with |- hex_decode 16 ?l = _ =>
    change l with (hex_encode [n; n0; n1; n2; n3; n4; n5; n6; n7; n8; n9; n10; n11; n12; n13; n14]) end.
  apply hex_decode_encode; [simpl; lia | exact Hb].
Qed.

Theorem marshal_layout r bs : marshal r = Some bs ->
    bs = le64 (r_seq r) ++ r_tx r ++ r_cid r ++ r_key r /\
    length bs = (40 + length (r_key r))%nat /\
    forall i, (i < 8)%nat -> nth i bs 0 = (r_seq r / 256 ^ N.of_nat i) mod 256.
Proof.
  unfold marshal. destruct (wf_rec r) eqn:W; [|discriminate].
  destruct (wf_rec_inv r W) as (_ & Ht & Hc).
  assert (L8 : length (le64 (r_seq r)) = 8%nat) by apply le_bytes_length.
  assert (Hn : forall i, (i < 8)%nat -> nth i (le64 (r_seq r)) 0 = (r_seq r / 256 ^ N.of_nat i) mod 256)
    by (intros i Hi; exact (le_bytes_nth 8 (r_seq r) i Hi)).
  remember (le64 (r_seq r)) as hdr eqn:E. clear E.
  intros H; injection H as <-.
  split; [reflexivity|]. split.
  - rewrite !app_length, Ht, Hc, L8. reflexivity.
  - intros i Hi. rewrite app_nth1 by (rewrite L8; exact Hi). exact (Hn i Hi).
Qed.
