(* Crash: the process dies at any point, between any two persistent mutations, also inside
   recovery; the database is reopened by a fresh process (C04). *)
From Coq Require Import List NArith Bool Lia.
From FsDb Require Import VList VListProofs Core Spec CoreLemmas CoreInv Refine SpecProps CoreInvK Durable.
Import ListNotations.
Open Scope N_scope.

(* what is needed to keep answering like the abstract machine (content leaks are not excluded:
   a crash in the middle of a write may leave an orphan content file behind) *)
Definition Sound (m : mstate) : Prop := Inv m /\ InvKV m.

Lemma Full_Sound m : Full m -> Sound m.
Proof. intros (I & KV & _). split; assumption. Qed.

Theorem step_refines_sound m a o :
  Sound m -> R m a -> op_wf' a o ->
  snd (mstep m o) = snd (astep a o) /\ R (fst (mstep m o)) (fst (astep a o)) /\ Sound (fst (mstep m o)).
Proof.
  intros (I & KV) HR Hw.
  assert (Hcase : o = OReopen \/ o <> OReopen) by (destruct o; (left; reflexivity) || (right; discriminate)).
  destruct Hcase as [->|Hne].
  - cbn [mstep astep fst snd]. split; [reflexivity|].
    assert (Id := drain_inv m I). assert (KVd := drain_invKV m I KV). assert (Rd := drain_sim m a I HR).
    split; [exact (reopen_sim (drain m) a Id KVd Rd) | exact (reopen_sound_gen _ (drain m) Id KVd)].
  - assert (W : op_wf a o) by (split; assumption).
    destruct (step_refines m a o I HR W) as (E1 & E2 & E3).
    split; [exact E1|]. split; [exact E2|].
    split; [exact E3 | exact (mstep_invKV m o I KV (op_ok_of_wf m a o HR W))].
Qed.

Theorem run_refines_sound ops : forall m a,
  Sound m -> R m a -> wf_from' a ops -> mrun_from m ops = arun_from a ops.
Proof.
  induction ops as [|o ops IH]; intros m a F HR Hwf; [reflexivity|].
  destruct Hwf as [Hw Hwf]. cbn [mrun_from arun_from].
  destruct (step_refines_sound m a o F HR Hw) as (Eo & R' & F').
  destruct (mstep m o) as [m' x] eqn:Em, (astep a o) as [a' y] eqn:Ea. cbn [fst snd] in *.
  subst y. f_equal. apply IH; assumption.
Qed.

(* ---------- recovery: Load in a fresh process (counter 0) from what is persisted ---------- *)
Definition recover (m : mstate) : mstate := reopen_with 0 m.

(* recovery reads only the persisted part of the state *)
Definition same_persistent (m1 m2 : mstate) : Prop :=
  m_kvf m1 = m_kvf m2 /\ m_cont m1 = m_cont m2 /\ m_nexttx m1 = m_nexttx m2 /\ m_nextcid m1 = m_nextcid m2.

Lemma recover_persistent m1 m2 : same_persistent m1 m2 -> recover m1 = recover m2.
Proof.
  intros (E1 & E2 & E3 & E4). unfold recover, reopen_with, reopen_gen, load_winners. rewrite E1, E2, E3, E4. reflexivity.
Qed.

(* a crash between two operations: acknowledged writes and commits are in effect, nothing
   uncommitted is visible, and the recovered state keeps behaving like the abstract machine *)
Theorem crash_at_boundary m a :
  Sound m -> R m a -> Sound (recover m) /\ R (recover m) (spec_reopen a).
Proof.
  intros (I & KV) HR. split; [exact (reopen_sound_gen 0 m I KV) | exact (reopen_sim_gen 0 m a I KV HR)].
Qed.

(* ---------- crash points inside an operation ---------- *)
(* the persisted records / contents lie between those before and after the physical deletions *)
Definition between (m0 m1 : mstate) (kvf' : list (N * ver)) (cont' : list (N * N)) : Prop :=
  (forall c r, aget kvf' c = Some r -> aget (m_kvf m0) c = Some r) /\
  (forall c r, aget (m_kvf m1) c = Some r -> aget kvf' c = Some r) /\
  NoDup (map fst kvf') /\
  (forall c x, aget cont' c = Some x -> aget (m_cont m0) c = Some x) /\
  (forall c x, aget (m_cont m1) c = Some x -> aget cont' c = Some x).

Definition with_persisted (m : mstate) (kvf' : list (N * ver)) (cont' : list (N * N)) : mstate :=
  set_kvf (set_cont m cont') kvf'.

Lemma Inv_with_persisted m kvf' cont' :
  Inv m -> (forall c x, aget cont' c = Some x -> c < m_nextcid m) -> Inv (with_persisted m kvf' cont').
Proof. intros I H. constructor; cbn; try apply I. exact H. Qed.

Lemma R_with_persisted m a kvf' cont' :
  R m a -> (forall k v, In v (lget (m_all m) k) -> aget cont' (v_cid v) = aget (m_cont m) (v_cid v)) ->
  R (with_persisted m kvf' cont') a.
Proof. intros HR H. apply (R_ext m); try reflexivity; [exact H | exact HR]. Qed.

(* the collector interrupted after any subset of its physical deletions *)
Theorem crash_in_gc m a kvf' cont' :
  Sound m -> R m a -> between m (gc m) kvf' cont' ->
  Sound (with_persisted (gc m) kvf' cont') /\ R (with_persisted (gc m) kvf' cont') a.
Proof.
  intros (I & KV) HR (B1 & B2 & B3 & B4 & B5).
  assert (Ig := gc_inv m I). assert (Rg := gc_sim m a I HR).
  destruct (gc_fields m) as (_ & _ & _ & _ & Enc & _).
  split; [split|].
  - apply Inv_with_persisted; [exact Ig|]. intros c x Hc. rewrite Enc. apply (inv_cont m I c x). exact (B4 c x Hc).
  - apply (InvKV_ext (set_kvf (gc m) kvf')); try reflexivity; try apply N.le_refl.
    apply gc_invKV_gen; try assumption.
    intros k v Hv. apply B2. exact (gc_kvf_listed m k v I KV Hv).
  - apply R_with_persisted; [exact Rg|]. intros k v Hv.
    assert (Hv' := Hv). rewrite (gc_all m k I) in Hv'. apply filter_In in Hv'. destruct Hv' as [Hv1 Hv2].
    assert (Ekept := gc_cont_kept m k v I Hv1 Hv2). rewrite Ekept.
    destruct (aget (m_cont m) (v_cid v)) as [x|] eqn:Ex.
    + apply B5. rewrite Ekept. reflexivity.
    + destruct (aget cont' (v_cid v)) as [y|] eqn:Ey; [|reflexivity]. apply B4 in Ey. congruence.
Qed.

(* the cleaner interrupted after any subset of the physical deletions of the queued jobs *)
Theorem crash_in_drain m a kvf' cont' :
  Sound m -> R m a -> between m (drain m) kvf' cont' ->
  Sound (with_persisted (drain m) kvf' cont') /\ R (with_persisted (drain m) kvf' cont') a.
Proof.
  intros (I & KV) HR (B1 & B2 & B3 & B4 & B5).
  assert (Id := drain_inv m I). assert (Rd := drain_sim m a I HR).
  assert (F := fold_clean_job_fields (m_q m) (set_q m [])). cbn zeta in F. fold (drain m) in F.
  destruct F as (_ & _ & _ & Ea & _ & _ & Enc). cbn [m_all m_nextcid set_q] in Ea, Enc.
  split; [split|].
  - apply Inv_with_persisted; [exact Id|]. intros c x Hc. rewrite Enc. apply (inv_cont m I c x). exact (B4 c x Hc).
  - apply (InvKV_ext (set_kvf (drain m) kvf')); try reflexivity; try apply N.le_refl.
    apply drain_invKV_gen; try assumption.
    intros k v Hv. apply B2. apply (k_listed (drain m) (drain_invKV m I KV) k v). rewrite Ea. exact Hv.
  - apply R_with_persisted; [exact Rd|]. intros k v Hv. rewrite Ea in Hv.
    assert (Ekept : aget (m_cont (drain m)) (v_cid v) = aget (m_cont (set_q m [])) (v_cid v)).
    { unfold drain. apply fold_clean_job_cont. intros j d Hj Hd E.
      destruct (inv_queue m I j d Hj Hd) as [_ Hne]. apply (Hne k v Hv). symmetry. exact E. }
    cbn [m_cont set_q] in Ekept.
    rewrite Ekept. destruct (aget (m_cont m) (v_cid v)) as [x|] eqn:Ex.
    + apply B5. rewrite Ekept. reflexivity.
    + destruct (aget cont' (v_cid v)) as [y|] eqn:Ey; [|reflexivity]. apply B4 in Ey. congruence.
Qed.

(* a write interrupted after the content file and its record were written but before the
   version record: nothing of it is visible *)
Theorem crash_in_set m a v :
  Sound m -> R m a ->
  let mc := set_cont (set_nextcid m (N.succ (m_nextcid m))) (aset (m_cont m) (m_nextcid m) v) in
  Sound mc /\ R mc a.
Proof.
  intros (I & KV) HR. cbn zeta. split; [split|].
  - exact (Inv_set_cont_fresh m v I).
  - apply alloc_invKV. exact KV.
  - exact (alloc_sim m a v I HR).
Qed.

(* every crash point of one operation *)
Inductive crash_point (m : mstate) : op -> mstate -> Prop :=
| cp_before o mc : same_persistent mc m -> crash_point m o mc
| cp_after o mc : same_persistent mc (fst (mstep m o)) -> crash_point m o mc
| cp_set h k v : k <> 0 ->
    crash_point m (OSet h k v) (set_cont (set_nextcid m (N.succ (m_nextcid m))) (aset (m_cont m) (m_nextcid m) v))
| cp_gc kvf' cont' : between m (gc m) kvf' cont' -> crash_point m OGC (with_persisted (gc m) kvf' cont')
| cp_drain kvf' cont' : between m (drain m) kvf' cont' -> crash_point m ODrain (with_persisted (drain m) kvf' cont')
| cp_close kvf' cont' : between m (drain m) kvf' cont' -> crash_point m OReopen (with_persisted (drain m) kvf' cont').

(* the operation in flight is visible completely or not at all *)
Theorem crash_during_operation m a o mc :
  Sound m -> R m a -> op_wf' a o -> crash_point m o mc ->
  exists ac, (ac = a \/ ac = fst (astep a o)) /\
             Sound (recover mc) /\ R (recover mc) (spec_reopen ac).
Proof.
  intros S HR W Hcp. destruct Hcp as [o mc Hp|o mc Hp|h k v Hk|kvf' cont' Hb|kvf' cont' Hb|kvf' cont' Hb].
  - exists a. split; [left; reflexivity|]. rewrite (recover_persistent mc m Hp). exact (crash_at_boundary m a S HR).
  - exists (fst (astep a o)). split; [right; reflexivity|]. rewrite (recover_persistent _ _ Hp).
    destruct (step_refines_sound m a o S HR W) as (_ & R' & S'). exact (crash_at_boundary _ _ S' R').
  - exists a. split; [left; reflexivity|]. destruct (crash_in_set m a v S HR) as [S1 R1]. exact (crash_at_boundary _ _ S1 R1).
  - exists a. split; [left; reflexivity|]. destruct (crash_in_gc m a kvf' cont' S HR Hb) as [S1 R1]. exact (crash_at_boundary _ _ S1 R1).
  - exists a. split; [left; reflexivity|]. destruct (crash_in_drain m a kvf' cont' S HR Hb) as [S1 R1]. exact (crash_at_boundary _ _ S1 R1).
  - exists a. split; [left; reflexivity|]. destruct (crash_in_drain m a kvf' cont' S HR Hb) as [S1 R1]. exact (crash_at_boundary _ _ S1 R1).
Qed.

(* acknowledged = the operation returned: only the "after" crash points remain *)
Theorem acknowledged_is_durable m a o mc :
  Sound m -> R m a -> op_wf' a o -> same_persistent mc (fst (mstep m o)) ->
  Sound (recover mc) /\ R (recover mc) (spec_reopen (fst (astep a o))).
Proof.
  intros S HR W Hp. rewrite (recover_persistent _ _ Hp).
  destruct (step_refines_sound m a o S HR W) as (_ & R' & S'). exact (crash_at_boundary _ _ S' R').
Qed.

(* reopening a second time, or crashing during recovery's own cleaning, gives the same committed state *)
Theorem recovery_idempotent m a :
  Sound m -> R m a ->
  Sound (recover (recover m)) /\ R (recover (recover m)) (spec_reopen (spec_reopen a)).
Proof.
  intros S HR. destruct (crash_at_boundary m a S HR) as [S1 R1]. exact (crash_at_boundary _ _ S1 R1).
Qed.

Theorem crash_during_recovery_cleaning m a kvf' cont' :
  Sound m -> R m a -> between (recover m) (drain (recover m)) kvf' cont' ->
  Sound (recover (with_persisted (drain (recover m)) kvf' cont')) /\
  R (recover (with_persisted (drain (recover m)) kvf' cont')) (spec_reopen (spec_reopen a)).
Proof.
  intros S HR Hb. destruct (crash_at_boundary m a S HR) as [S1 R1].
  destruct (crash_in_drain _ _ kvf' cont' S1 R1 Hb) as [S2 R2]. exact (crash_at_boundary _ _ S2 R2).
Qed.

(* on the abstract machine: operations other than an autocommit write or a Commit do not change any committed value *)
Lemma filter_committed_snoc_uncommitted (l : list aver) h v :
  h <> 0 -> filter committed (l ++ [mkaver h v]) = filter committed l.
Proof.
  intros Hh. rewrite filter_app. cbn [filter]. unfold committed at 2. cbn [a_owner].
  destruct (N.eqb_spec h 0); [contradiction | apply app_nil_r].
Qed.

Theorem uncommitted_changes_nothing_committed a o k :
  match o with
  | OSet h _ _ | ODel h _ | ORollback h => h <> 0
  | OCommit _ | OReopen => False
  | _ => True
  end ->
  committed_val (alget (a_vers (fst (astep a o))) k) = committed_val (alget (a_vers a) k).
Proof.
  intros Ho. destruct o as [l|h k0 v|h k0|h k0|h|h|h| | |]; cbn [astep]; try (destruct Ho; fail).
  - reflexivity.
  - destruct (areader a h); [|reflexivity]. destruct (N.eqb k0 0); [reflexivity|]. cbn [fst].
    rewrite awrite_vers. destruct (N.eqb_spec h 0); [contradiction|].
    destruct (N.eqb_spec k k0) as [->|]; [|reflexivity].
    unfold committed_val. rewrite filter_committed_snoc_uncommitted by assumption. reflexivity.
  - destruct (areader a h); [|reflexivity]. cbn [fst].
    rewrite awrite_vers. destruct (N.eqb_spec h 0); [contradiction|].
    destruct (N.eqb_spec k k0) as [->|]; [|reflexivity].
    unfold committed_val. rewrite filter_committed_snoc_uncommitted by assumption. reflexivity.
  - destruct (areader a h); reflexivity.
  - destruct (areader a h); reflexivity.
  - destruct (aopen_find a h) as [t|] eqn:E; [|reflexivity]. cbn [fst a_vers].
    apply committed_drop_owner. exact Ho.
  - reflexivity.
  - reflexivity.
Qed.
