(* C13 — A finished transaction is finished: later use fails and changes nothing. *)
From Coq Require Import List NArith Bool.
From FsDb Require Import VList Core Spec CoreInv Refine SpecProps Client.
Import ListNotations.
Open Scope N_scope.

(* what the property demands (the abstract machine): through a handle that is not open —
   ended by Commit, by Rollback, by a failed Commit, or never issued — every operation except
   Rollback fails with ErrTxNotFound, Rollback is a no-op, and the state does not change *)
Theorem C13_late_ops_fail_and_change_nothing :
  forall a h, h <> 0 -> aopen_find a h = None ->
    (forall k v, astep a (OSet h k v) = (a, OutErr ETxNotFound)) /\
    (forall k, astep a (ODel h k) = (a, OutErr ETxNotFound)) /\
    (forall k, astep a (OGet h k) = (a, OutErr ETxNotFound)) /\
    astep a (OKeys h) = (a, OutErr ETxNotFound) /\
    astep a (OCommit h) = (a, OutErr ETxNotFound) /\
    astep a (ORollback h) = (a, OutUnit).
Proof. exact late_ops_spec. Qed.

(* a handle is not open after Commit (successful or failed) or Rollback *)
Theorem C13_ended_is_not_open :
  forall a t h, NoDup (map t_id (a_open a)) -> aopen_find a h = Some t ->
    aopen_find (fst (acommit a t)) (t_id t) = None /\
    aopen_find (fst (astep a (ORollback h))) h = None.
Proof.
  intros a t h _ Hf.
  assert (Hdel : forall o i, aopen_find (mka (a_vers a) (aopen_del o i) 0) i = None).
  { intros o i. unfold aopen_find, aopen_del. cbn [a_open].
    destruct (find (fun t0 => N.eqb (t_id t0) i) (filter (fun t0 => negb (N.eqb (t_id t0) i)) o)) eqn:E; [|reflexivity].
    apply find_some in E. destruct E as [E1 E2]. apply filter_In in E1. destruct E1 as [_ E1].
    rewrite E2 in E1. discriminate. }
  assert (Hmark : forall ks o i, find (fun t0 => N.eqb (t_id t0) i) (mark_dirty ks o) = None <->
                                 find (fun t0 => N.eqb (t_id t0) i) o = None).
  { intros ks o i. unfold mark_dirty. induction o as [|y o IH]; [tauto|]. cbn [map find t_id].
    destruct (N.eqb (t_id y) i); [split; discriminate | exact IH]. }
  split.
  - unfold acommit.
    destruct (is_snapshot (t_lvl t) && existsb _ (written_keys a (t_id t))); cbn [fst].
    + exact (Hdel (a_open a) (t_id t)).
    + set (f := fun k => last_val (filter (owned_by (t_id t)) (alget (a_vers a) k))).
      assert (G : forall ks a0, aopen_find a0 (t_id t) = None ->
                  aopen_find (fold_left (fun s k => awrite s 0 k (f k)) ks a0) (t_id t) = None).
      { induction ks as [|k ks IH]; intros a0 H0; [exact H0|]. cbn [fold_left]. apply IH.
        unfold aopen_find. rewrite awrite_open. cbn [N.eqb]. apply Hmark. exact H0. }
      apply G. exact (Hdel (a_open a) (t_id t)).
  - cbn [astep]. rewrite Hf. cbn [fst]. exact (Hdel (a_open a) h).
Qed.

(* the model of the pinned tree: every late Get / GetKeys / Commit / Rollback behaves as demanded,
   with any number of other transactions of any level observing — provided no late WRITE occurs *)
Theorem C13_late_reads_commit_rollback_partial :
  forall ops, no_late_writes ops = true -> has_reopen ops = false -> mrun ops = arun ops.
Proof. exact model_refines_spec. Qed.

(* the full statement was false of the code before its repair (genuine defect D7, fixed by a fix: commit): at the
   use-case layer (mstep, what the server does) a Set through a committed transaction succeeds and a ReadUncommitted
   transaction sees it.  Kept as the witness; the handle now refuses the write itself (Client.cstep, below) *)
Theorem C13_late_write_refuted_orig :
  exists ops, has_reopen ops = false /\ mrun ops <> arun ops /\
              mrun ops = [OutHandle 1; OutUnit; OutUnit; OutHandle 2; OutUnit; OutVal 2] /\
              arun ops = [OutHandle 1; OutUnit; OutUnit; OutHandle 2; OutErr ETxNotFound; OutVal 1].
Proof.
  exists [OBegin RC; OSet 1 1 1; OCommit 1; OBegin RU; OSet 1 1 2; OGet 2 1].
  vm_compute. repeat split. discriminate.
Qed.

(* each Begin yields a fresh transaction: its id differs from every id issued before *)
Theorem C13_begin_fresh :
  forall a l, snd (astep a (OBegin l)) = OutHandle (a_nexttx a) /\
              a_nexttx (fst (astep a (OBegin l))) = N.succ (a_nexttx a).
Proof. intros a l. split; reflexivity. Qed.

Example C13_nonvacuous :
  let ops := [OBegin RR; OSet 1 1 1; OCommit 1; OGet 1 1; OKeys 1; OCommit 1; ORollback 1; OGet 7 1; OCommit 7; ORollback 7;
              OBegin SER; OSet 0 2 5; OSet 2 2 6; OCommit 2; OGet 2 2; OGet 0 2] in
  no_late_writes ops = true /\ has_reopen ops = false /\
  mrun ops = [OutHandle 1; OutUnit; OutUnit; OutErr ETxNotFound; OutErr ETxNotFound; OutErr ETxNotFound; OutUnit;
              OutErr ETxNotFound; OutErr ETxNotFound; OutUnit;
              OutHandle 2; OutUnit; OutUnit; OutErr ETxSerialization; OutErr ETxNotFound; OutVal 5].
Proof. vm_compute. repeat split. Qed.

(* with the handle's own guard (the repaired code): every sequential history whatsoever - operations through open,
   ended or never issued handles at all four levels, collections, drains, Close/Open at any position - behaves as the
   abstract machine does; no hypothesis about late writes is left *)
Theorem C13_every_history_refines :
  forall ops, crun ops = arun ops.
Proof. exact client_refines_spec. Qed.

(* the witness history of D7 on the repaired layer: the late Set fails and the ReadUncommitted reader sees the old value *)
Example C13_late_write_refused :
  crun [OBegin RC; OSet 1 1 1; OCommit 1; OBegin RU; OSet 1 1 2; OGet 2 1] =
  [OutHandle 1; OutUnit; OutUnit; OutHandle 2; OutErr ETxNotFound; OutVal 1].
Proof. vm_compute. reflexivity. Qed.

Print Assumptions C13_late_ops_fail_and_change_nothing.
Print Assumptions C13_ended_is_not_open.
Print Assumptions C13_late_reads_commit_rollback_partial.
Print Assumptions C13_late_write_refuted_orig.
Print Assumptions C13_begin_fresh.
Print Assumptions C13_every_history_refines.
