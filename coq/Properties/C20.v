(* C20 — Configuration: defaults < file < environment, with validation.
   Statements only; proofs are [exact <lemma of ConfigProofs>] or one line of computation.

   Vocabulary (coq/Config.v):  per setting the file says FAbsent | FValue v | FBad
   (malformed), the environment says EUnset | EEmpty | EValue v | EBad for the five
   numeric/duration settings and None | Some text for DB_PATH / ROOT_DIRS (Some [] is the
   empty string; no text is malformed for a string).  [file_of i] is all-FAbsent when no
   file is named or the file has no document.  [parse] is ParseConfig, [valid] is
   Storage.Valid.  Strings are lists of character codes ([str "..."]), durations are
   nanoseconds.  The literals below are the DOCUMENTED values (doc comments of
   config.Storage / WPool / Config); the model takes its constants from ConfigGen.v,
   which is regenerated from config/config.go on every run, so a changed constant in the
   Go source makes these statements fail to compile. *)
From Coq Require Import List ZArith NArith String.
From FsDb Require Import ConfigGen Config ConfigProofs.
Import ListNotations.
Open Scope string_scope.

(* each setting: environment value if set and non-empty, else file value if present,
   else the documented default *)
Theorem C20_precedence :
  forall i c, parse i = POK c ->
    c_port c = eff_num (e_port (i_env i)) (f_port (file_of i)) 8888%Z /\
    s_db_path (c_storage c) = eff_str (e_db (i_env i)) (f_db (file_of i)) (str "test_db") /\
    s_max_dir_count (c_storage c) = eff_num (e_dc (i_env i)) (f_dc (file_of i)) 1000000%N /\
    s_root_dirs (c_storage c) = eff_roots (e_rd (i_env i)) (f_rd (file_of i)) [str "./testStorage"] /\
    s_gc_period (c_storage c) = eff_num (e_gc (i_env i)) (f_gc (file_of i)) (60 * 1000000000)%Z /\
    w_num_workers (c_wpool c) = eff_num (e_nw (i_env i)) (f_nw (file_of i)) (i_procs i) /\
    w_send_duration (c_wpool c) = eff_num (e_sd (i_env i)) (f_sd (file_of i)) 1000000%Z.
Proof. exact precedence. Qed.

(* a malformed value is an error, never replaced silently; and nothing else is an error *)
Theorem C20_error_iff :
  forall i,
    (exists x, parse i = PErr x) <->
    i_file i = MissingFile \/
    (exists f, i_file i = File f /\ file_malformed f) \/
    env_malformed (i_env i).
Proof. exact error_iff. Qed.

(* which error: an unreadable or malformed file wins; otherwise the first malformed
   environment value in the order ParseEnv looks at them *)
Theorem C20_error_source :
  forall i,
    (parse i = PErr EOpen <-> i_file i = MissingFile) /\
    (parse i = PErr EDecode <-> exists f, i_file i = File f /\ file_malformed f) /\
    (forall s, parse i = PErr (EEnv s) <->
       file_ok i /\ env_bad_at (i_env i) s /\
       forall s', rank s' < rank s -> ~ env_bad_at (i_env i) s').
Proof. exact error_source. Qed.

(* Valid: empty database path first, then empty root list; otherwise only the directory
   limit changes, to max 100 *)
Theorem C20_valid :
  forall s,
    (s_db_path s = [] -> valid s = VErr VErrEmptyDbPath) /\
    (s_db_path s <> [] -> s_root_dirs s = [] -> valid s = VErr VErrEmptyRootDirs) /\
    (s_db_path s <> [] -> s_root_dirs s <> [] ->
       valid s = VOK {| s_db_path := s_db_path s;
                        s_max_dir_count := N.max 100 (s_max_dir_count s);
                        s_root_dirs := s_root_dirs s;
                        s_gc_period := s_gc_period s |}).
Proof. exact valid_spec. Qed.

(* ROOT_DIRS is split on ';': joining the pieces with ';' gives the text back, no piece
   contains ';', and there is at least one piece (so a non-empty ROOT_DIRS never yields
   an empty root list) *)
Theorem C20_root_dirs_split :
  forall s,
    split_on semicolon s <> [] /\
    join semicolon (split_on semicolon s) = s /\
    Forall (fun piece => ~ In semicolon piece) (split_on semicolon s).
Proof. exact (split_on_spec semicolon). Qed.

(* ---- the constants read from config/config.go are the documented ones ---- *)
Theorem C20_documented_defaults :
  default_port = 8888%Z /\
  default_db_path = "test_db" /\
  default_dir_count = 1000000%Z /\
  default_root_dir = "./testStorage" /\
  default_gc_period = (60 * 1000000000)%Z /\        (* 1m *)
  default_send_duration = 1000000%Z /\              (* 1ms *)
  min_dir_count = 100%Z.
Proof. repeat split. Qed.

Theorem C20_documented_env_names :
  env_name SPort = "PORT" /\ env_name SDbPath = "DB_PATH" /\ env_name SDirCount = "DIR_COUNT" /\
  env_name SRootDirs = "ROOT_DIRS" /\ env_name SGCPeriod = "GC_PERIOD" /\
  env_name SNumWorkers = "NUM_WORKERS" /\ env_name SSendDuration = "SEND_DURATION".
Proof. repeat split. Qed.

(* the model's lookup order is the order of the os.LookupEnv calls in the source *)
Theorem C20_env_order_is_source_order :
  map env_name env_order = env_lookup_order.
Proof. reflexivity. Qed.

(* var defaultConfig is wired to the default constants (NumWorkers to GOMAXPROCS) *)
Theorem C20_default_config_wiring :
  default_config_fields =
  [("Port", "defaultPort");
   ("Storage.DbPath", "defaultDbPath");
   ("Storage.MaxDirCount", "defaultDirCount");
   ("Storage.RootDirs", "[]string{defaultRootDir}");
   ("Storage.GCPeriod", "defaultGCPeriod");
   ("WPool.NumWorkers", "runtime.GOMAXPROCS(0)");
   ("WPool.SendDuration", "defaultSendDuration")].
Proof. reflexivity. Qed.

(* ---- non-vacuity (ex_file / ex_env: example data at the end of ConfigProofs.v) ---- *)
(* environment beats file (port, sendDuration), empty environment values are ignored
   (dbPath, maxDirCount), absent everywhere gives the default (numWorkers), and Valid then
   raises the limit 50 to 100 *)
Example C20_nonvacuous :
  parse {| i_file := File ex_file; i_env := ex_env; i_procs := 7%Z |} =
  POK {| c_port := 2222%Z;
        c_storage := {| s_db_path := str "/f"; s_max_dir_count := 50%N;
                        s_root_dirs := [str "a"; str "b"]; s_gc_period := 5%Z |};
        c_wpool := {| w_num_workers := 7%Z; w_send_duration := 10%Z |} |} /\
  run_parse {| i_file := File ex_file; i_env := ex_env; i_procs := 7%Z |} =
  CfgOk {| c_port := 2222%Z;
         c_storage := {| s_db_path := str "/f"; s_max_dir_count := 50%N;
                         s_root_dirs := [str "a"; str "b"]; s_gc_period := 5%Z |};
         c_wpool := {| w_num_workers := 7%Z; w_send_duration := 10%Z |} |}
      (VOK {| s_db_path := str "/f"; s_max_dir_count := 100%N;
              s_root_dirs := [str "a"; str "b"]; s_gc_period := 5%Z |}).
Proof. split; vm_compute; reflexivity. Qed.

(* a malformed DIR_COUNT is an error even though the file has a good value; and it is
   reported before a malformed GC_PERIOD *)
Example C20_nonvacuous_error :
  parse {| i_file := File ex_file;
           i_env := {| e_port := EUnset; e_db := None; e_dc := EBad; e_rd := None;
                       e_gc := EBad; e_nw := EUnset; e_sd := EUnset |};
           i_procs := 7%Z |} = PErr (EEnv SDirCount).
Proof. vm_compute. reflexivity. Qed.

Example C20_nonvacuous_defaults :
  forall g, parse {| i_file := NoFile;
                     i_env := {| e_port := EUnset; e_db := None; e_dc := EUnset; e_rd := None;
                                 e_gc := EUnset; e_nw := EUnset; e_sd := EUnset |};
                     i_procs := g |} =
  POK {| c_port := 8888%Z;
        c_storage := {| s_db_path := str "test_db"; s_max_dir_count := 1000000%N;
                        s_root_dirs := [str "./testStorage"]; s_gc_period := 60000000000%Z |};
        c_wpool := {| w_num_workers := g; w_send_duration := 1000000%Z |} |}.
Proof. intros g. reflexivity. Qed.

Print Assumptions C20_precedence.
Print Assumptions C20_error_iff.
Print Assumptions C20_error_source.
Print Assumptions C20_valid.
Print Assumptions C20_root_dirs_split.
Print Assumptions C20_documented_defaults.
Print Assumptions C20_documented_env_names.
Print Assumptions C20_env_order_is_source_order.
Print Assumptions C20_default_config_wiring.
