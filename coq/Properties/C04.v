(* C04 — A crash at any point loses nothing acknowledged, exposes nothing uncommitted. *)
From Coq Require Import List NArith Bool.
From FsDb Require Import VList Core Spec CoreInv Refine SpecProps CoreInvK Durable Crash.
Import ListNotations.
Open Scope N_scope.

(* Sound = the invariants of the in-memory lists and of the persisted version records;
   recover = Load in a fresh process from what is persisted; spec_reopen = the abstract
   machine's Reopen: committed values kept, open transactions and their writes gone. *)

(* killed between two operations: every acknowledged autocommit write and Commit is in effect,
   no write of an uncommitted transaction is visible, and the recovered database keeps
   behaving like the abstract machine *)
Theorem C04_crash_between_operations :
  forall m a, Sound m -> R m a -> Sound (recover m) /\ R (recover m) (spec_reopen a).
Proof. exact crash_at_boundary. Qed.

(* killed inside an operation, between any two of its persistent mutations (content written
   but no version record yet; any subset of the cleaner's / collector's physical deletions
   done; the single Badger transaction of Commit not yet / already applied): the state
   recovered is that of the acknowledged prefix, or of the prefix plus the WHOLE operation *)
Theorem C04_inflight_atomic :
  forall m a o mc, Sound m -> R m a -> op_wf' a o -> crash_point m o mc ->
    exists ac, (ac = a \/ ac = fst (astep a o)) /\ Sound (recover mc) /\ R (recover mc) (spec_reopen ac).
Proof. exact crash_during_operation. Qed.

Theorem C04_acknowledged_durable :
  forall m a o mc, Sound m -> R m a -> op_wf' a o -> same_persistent mc (fst (mstep m o)) ->
    Sound (recover mc) /\ R (recover mc) (spec_reopen (fst (astep a o))).
Proof. exact acknowledged_is_durable. Qed.

(* ... and only an autocommit write or a Commit can become visible: every other operation
   leaves all committed values of the abstract machine unchanged *)
Theorem C04_uncommitted_invisible :
  forall a o k,
    match o with
    | OSet h _ _ | ODel h _ | ORollback h => h <> 0
    | OCommit _ | OReopen => False
    | _ => True
    end ->
    committed_val (alget (a_vers (fst (astep a o))) k) = committed_val (alget (a_vers a) k).
Proof. exact uncommitted_changes_nothing_committed. Qed.

(* reopening a second time, and crashing during recovery's own cleaning, give the same committed state *)
Theorem C04_recovery_idempotent :
  forall m a, Sound m -> R m a ->
    Sound (recover (recover m)) /\ R (recover (recover m)) (spec_reopen (spec_reopen a)).
Proof. exact recovery_idempotent. Qed.

Theorem C04_crash_during_recovery :
  forall m a kvf' cont', Sound m -> R m a -> between (recover m) (drain (recover m)) kvf' cont' ->
    Sound (recover (with_persisted (drain (recover m)) kvf' cont')) /\
    R (recover (with_persisted (drain (recover m)) kvf' cont')) (spec_reopen (spec_reopen a)).
Proof. exact crash_during_recovery_cleaning. Qed.

(* every key GetKeys lists after recovery is readable and returns one complete stored content:
   in a state related to the abstract machine, GetKeys = the keys whose Get succeeds (C02), and
   Get returns the content the abstract machine holds for the version *)
Theorem C04_listed_keys_readable :
  forall m a k, Sound m -> R m a ->
    let m' := recover m in
    match snd (mstep m' (OKeys 0)) with
    | OutKeys ks => In k ks -> exists v, snd (mstep m' (OGet 0 k)) = OutVal v
    | _ => False
    end.
Proof.
  intros m a k S HR m'. destruct (crash_at_boundary m a S HR) as [S1 R1]. fold m' in S1, R1.
  assert (W1 : op_wf' (spec_reopen a) (OKeys 0)) by exact Logic.I.
  assert (W2 : op_wf' (spec_reopen a) (OGet 0 k)) by exact Logic.I.
  rewrite (proj1 (step_refines_sound m' _ _ S1 R1 W1)), (proj1 (step_refines_sound m' _ _ S1 R1 W2)).
  cbn [astep areader N.eqb snd]. intros Hin.
  assert (Hnd : NoDup (map fst (a_vers (spec_reopen a)))).
  { rewrite (r_keys m' _ R1). apply (inv_keys m' (proj1 S1)). }
  destruct (akeys_spec (spec_reopen a) (mkatx 0 RC [] []) k Hnd) as (_ & _ & Hiff).
  apply Hiff in Hin. destruct Hin as [_ [v Hv]]. rewrite Hv. eauto.
Qed.

(* the invariants hold along every history, so the theorems above apply at every crash point of every workload *)
Theorem C04_sound_along_histories :
  forall m a o, Sound m -> R m a -> op_wf' a o ->
    Sound (fst (mstep m o)) /\ R (fst (mstep m o)) (fst (astep a o)).
Proof. intros m a o S HR W. destruct (step_refines_sound m a o S HR W) as (_ & H1 & H2). auto. Qed.

Example C04_nonvacuous :
  let m := mstate_after m_init [OSet 0 1 1; OSet 0 2 4; OBegin RR; OSet 1 1 2; OSet 1 2 3] in
  let mc := set_cont (set_nextcid m (N.succ (m_nextcid m))) (aset (m_cont m) (m_nextcid m) 9) in
  snd (mstep (recover mc) (OGet 0 1)) = OutVal 1 /\ snd (mstep (recover mc) (OGet 0 2)) = OutVal 4 /\
  snd (mstep (recover mc) (OKeys 0)) = OutKeys [1; 2] /\
  snd (mstep (recover (fst (mstep m (OCommit 1)))) (OGet 0 1)) = OutVal 2 /\
  snd (mstep (recover (fst (mstep m (OCommit 1)))) (OGet 0 2)) = OutVal 3.
Proof. vm_compute. repeat split. Qed.

Print Assumptions C04_crash_between_operations.
Print Assumptions C04_inflight_atomic.
Print Assumptions C04_acknowledged_durable.
Print Assumptions C04_uncommitted_invisible.
Print Assumptions C04_recovery_idempotent.
Print Assumptions C04_crash_during_recovery.
Print Assumptions C04_listed_keys_readable.
Print Assumptions C04_sound_along_histories.
