(* C17 — Content files live in bounded sub-directories of the configured roots.
   Statements only; proofs are [exact <lemma of DirsProofs>].  The model (Dirs.v)
   renders repository/dir, usecase/dir.Get, the directory choice of store.Set and
   the re-activation done by the cleaner.  A directory is (root index, index in
   order of creation inside its root).  Histories are arbitrary lists of
     DAlloc spill c  one store.Set: the Get phase, then one entry in each directory
                     of spill ++ [c] that is a candidate (active after the Get phase)
                     and was not yet used by this call — the choice is an input, so
                     every theorem holds for every shuffle and every free-space filter;
     DOrphan d       a Set whose file stays without a content record (same tree effect);
     DFree d         the cleaner removed one content of d and re-activated d;
     DReopen         dir.New: every directory found on disk becomes active;
   for any number of roots and any limit >= 1. *)
From Coq Require Import List Arith Lia.
From FsDb Require Import Dirs DirsProofs.
Import ListNotations.

(* every root always offers a directory to write to: after the Get phase that every
   Set starts with, each configured root has an active directory with room *)
Theorem C17_every_root_offers :
  forall nroots max ops r, 1 <= max -> r < nroots ->
    let s := dr_get_phase (dr_run ops (dr_init nroots max)) in
    exists d c, fst d = r /\ In d (dr_active s) /\ dr_count_of (dr_disk s) d = Some c /\ c < max.
Proof. exact dr_offers_thm. Qed.

(* ... and the entries of a Set go exactly there: DAlloc is "Get phase, then put" *)
Theorem C17_alloc_is_get_then_put :
  forall s sp c, dr_step s (DAlloc sp c) =
    let s1 := dr_get_phase s in
    {| dr_max := dr_max s1; dr_disk := dr_put_each (dr_active s1) [] (sp ++ [c]) (dr_disk s1);
       dr_active := dr_active s1; dr_counts := dr_counts s1 |}.
Proof. reflexivity. Qed.

(* no directory ever holds more than the limit: every history, every limit >= 1 *)
Theorem C17_bounded :
  forall nroots max ops, 1 <= max ->
    forall d n, dr_count_of (dr_disk (dr_run ops (dr_init nroots max))) d = Some n -> n <= max.
Proof. exact dr_bounded_thm. Qed.

(* in particular for the limit the inline client uses (Storage.Valid raises it to >= 100) *)
Theorem C17_bounded_clamped :
  forall nroots configured ops d n,
    dr_count_of (dr_disk (dr_run ops (dr_init nroots (Nat.max configured 100)))) d = Some n ->
    n <= Nat.max configured 100.
Proof. intros nroots configured ops. apply dr_bounded_thm. lia. Qed.

(* also when the database is opened over any existing tree that satisfies the invariant
   (bounded directories, repository consistent with the disk) *)
Theorem C17_bounded_from_any_consistent_state :
  forall s ops, dr_inv s ->
    forall d n, dr_count_of (dr_disk (dr_run ops s)) d = Some n -> n <= dr_max s.
Proof. exact dr_bounded_from. Qed.

(* why: a chosen candidate had room after the Get phase and receives exactly one entry *)
Theorem C17_entry_goes_to_candidate_with_room :
  forall s c, dr_inv s -> dr_allowed s c = true ->
    exists n, dr_count_of (dr_disk (dr_get_phase s)) c = Some n /\ n < dr_max s /\
              dr_count_of (dr_disk (dr_step s (DAlloc [] c))) c = Some (S n).
Proof. exact dr_alloc_lands. Qed.

Theorem C17_entries_only_in_named_candidates :
  forall s sp c d, dr_inv s ->
    dr_count_of (dr_disk (dr_alloc sp c s)) d <> dr_count_of (dr_disk (dr_get_phase s)) d ->
    In d (dr_active (dr_get_phase s)) /\ In d (sp ++ [c]).
Proof. exact dr_alloc_only_candidates. Qed.

(* directories that regain room through deletions are used again: after the cleaner
   removed a content of d, d is active, has room, is a candidate of the next Set, and
   choosing it puts the new entry into d *)
Theorem C17_reuse :
  forall nroots max ops d, 1 <= max ->
    let s := dr_run ops (dr_init nroots max) in
    dr_count_of (dr_disk s) d <> None ->
    let s' := dr_free d s in
    In d (dr_active s') /\ dr_allowed s' d = true /\
    exists c, dr_count_of (dr_disk s') d = Some c /\ c < max /\
              dr_count_of (dr_disk (dr_step s' (DAlloc [] d))) d = Some (S c).
Proof. exact dr_reuse_thm. Qed.

(* the form asked for: from any consistent state, Free d makes d active, and whenever its
   count is below the limit it is among the allowed choices of the next Alloc *)
Theorem C17_reuse_whenever_room :
  forall s d, dr_inv s -> dr_count_of (dr_disk s) d <> None ->
    let s' := dr_free d s in
    In d (dr_active s') /\
    forall c, dr_count_of (dr_disk s') d = Some c -> c < dr_max s ->
      dr_allowed s' d = true /\
      dr_count_of (dr_disk (dr_step s' (DAlloc [] d))) d = Some (S c).
Proof. exact dr_reuse_from. Qed.

(* and it stays a candidate across any operation as long as it has room *)
Theorem C17_active_with_room_persists :
  forall s d c o, dr_inv s -> In d (dr_active s) ->
    dr_count_of (dr_disk s) d = Some c -> c < dr_max s -> In d (dr_active (dr_step s o)).
Proof. exact dr_active_persists. Qed.

(* placement: every directory that exists (hence every entry) and every active directory
   belongs to one of the configured roots *)
Theorem C17_placement :
  forall nroots max ops, 1 <= max ->
    let s := dr_run ops (dr_init nroots max) in
    dr_nroots s = nroots /\
    (forall d n, dr_count_of (dr_disk s) d = Some n -> fst d < nroots) /\
    (forall d, In d (dr_active s) -> fst d < nroots /\ dr_count_of (dr_disk s) d <> None).
Proof. exact dr_placement_thm. Qed.

(* Dir.Path = path.Join(root, name) and ParseDir are inverse (name without '/'), so the
   path the cleaner re-activates is the key under which the directory was created *)
Theorem C17_parse_join :
  forall root name, ~ In dr_slash name -> dr_parse (dr_join root name) = (root, name).
Proof. exact dr_parse_join. Qed.

(* repository invariants: no duplicates, active directories exist on disk, the per-root
   counter equals the number of active directories of that root *)
Theorem C17_repo_invariants :
  forall nroots max ops, 1 <= max ->
    let s := dr_run ops (dr_init nroots max) in
    NoDup (dr_active s) /\
    (forall d, In d (dr_active s) -> dr_count_of (dr_disk s) d <> None) /\
    (forall r, r < nroots -> nth r (dr_counts s) 0 = dr_nact r (dr_active s)).
Proof. exact dr_repo_invariants_thm. Qed.

(* the unsigned counter is never decremented at 0 *)
Theorem C17_counter_never_underflows :
  forall d s, dr_inv s -> In d (dr_active s) -> 1 <= nth (fst d) (dr_counts s) 0.
Proof. exact dr_remove_no_underflow. Qed.

(* ---- non-vacuity and behaviour worth seeing ---- *)

(* two roots, limit 2: five writes into root 0 rotate its directory twice *)
Example C17_rotation :
  let s := dr_run [DAlloc [] (0,0); DAlloc [] (0,0); DAlloc [] (0,1); DAlloc [] (0,1); DAlloc [] (0,2)]
                  (dr_init 2 2) in
  dr_disk s = [[2; 2; 1]; [0]] /\ dr_active s = [(1,0); (0,2)] /\ dr_counts s = [1; 1].
Proof. vm_compute. repeat split. Qed.

(* a write into a directory that is not a candidate (full, rotated out) puts nothing *)
Example C17_not_allowed :
  let s := dr_run [DAlloc [] (0,0); DAlloc [] (0,0)] (dr_init 1 2) in
  dr_allowed s (0,0) = false /\ dr_allowed s (0,1) = true /\
  dr_disk (dr_step s (DAlloc [] (0,0))) = [[2; 0]].
Proof. vm_compute. repeat split. Qed.

(* a freed directory comes back and takes the next entry *)
Example C17_reuse_example :
  let s := dr_run [DAlloc [] (0,0); DAlloc [] (0,0); DAlloc [] (0,1); DFree (0,0)] (dr_init 1 2) in
  dr_active s = [(0,1); (0,0)] /\ dr_counts s = [2] /\
  dr_disk (dr_step s (DAlloc [] (0,0))) = [[2; 1]].
Proof. vm_compute. repeat split. Qed.

(* one Set that ran out of space in (0,0) and (1,0) and succeeded in (2,0): an entry in each *)
Example C17_spill :
  dr_disk (dr_run [DAlloc [(0,0); (1,0); (0,0)] (2,0)] (dr_init 3 1)) = [[1]; [1]; [1]].
Proof. vm_compute. reflexivity. Qed.

(* behaviour of the real code the model reproduces: Reopen activates full directories too,
   and the next Get phase replaces each of them by a new empty directory — every
   reopen+write leaves one more empty directory per full directory (entries stay bounded) *)
Example C17_reopen_multiplies_empty_directories :
  let w := [DAlloc [] (0,0); DAlloc [] (0,0); DAlloc [] (0,1)] in
  dr_disk (dr_run (w ++ [DReopen; DAlloc [] (0,1); DReopen; DAlloc [] (0,2)]) (dr_init 1 2))
  = [[2; 2; 1; 0; 0]].
Proof. vm_compute. reflexivity. Qed.

Print Assumptions C17_every_root_offers.
Print Assumptions C17_alloc_is_get_then_put.
Print Assumptions C17_bounded.
Print Assumptions C17_bounded_clamped.
Print Assumptions C17_bounded_from_any_consistent_state.
Print Assumptions C17_entry_goes_to_candidate_with_room.
Print Assumptions C17_entries_only_in_named_candidates.
Print Assumptions C17_reuse.
Print Assumptions C17_reuse_whenever_room.
Print Assumptions C17_active_with_room_persists.
Print Assumptions C17_placement.
Print Assumptions C17_parse_join.
Print Assumptions C17_repo_invariants.
Print Assumptions C17_counter_never_underflows.
