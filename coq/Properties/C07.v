(* C07 — No lost update between concurrent snapshot transactions (first committer wins). *)
From Coq Require Import List NArith Bool.
From FsDb Require Import VList Core Spec CoreInv Refine SpecProps Conc07.
From FsDb Require LockSkel LockSkelGen LockSkelCheck.
Import ListNotations.
Open Scope N_scope.

(* With a commit that is ONE critical section (conflict test + publication; the repaired
   UpdateTx), concurrent commits take effect in some order, each atomically, so every execution
   is a sequential history of the abstract machine.  There: if two transactions that are open
   at the same time wrote a common key and one of them commits successfully, then the other —
   if it is RepeatableRead or Serializable — fails with ErrTxSerialization whenever it commits,
   whatever any number of other transactions and autocommit writers do in between (any ops that
   do not end it). *)
Theorem C07_first_committer_wins :
  forall a t1 t2 k ops,
    NoDup (map fst (a_vers a)) ->
    aopen_find a (t_id t1) = Some t1 -> aopen_find a (t_id t2) = Some t2 ->
    t_id t1 <> t_id t2 -> t_id t2 <> 0 -> is_snapshot (t_lvl t2) = true ->
    In k (written_keys a (t_id t1)) -> In k (written_keys a (t_id t2)) ->
    snd (acommit a t1) = OutUnit ->
    forallb (fun o => negb (ends o (t_id t2))) ops = true ->
    let a' := astate_after (fst (acommit a t1)) ops in
    exists t2', aopen_find a' (t_id t2) = Some t2' /\ snd (acommit a' t2') = OutErr ETxSerialization.
Proof. exact first_committer_wins. Qed.

(* the loser's writes never become visible: a failed commit leaves every committed value unchanged
   and no entry of the transaction behind *)
Theorem C07_loser_invisible :
  forall a t k e, t_id t <> 0 -> snd (acommit a t) = OutErr ETxSerialization ->
    committed_val (alget (a_vers (fst (acommit a t))) k) = committed_val (alget (a_vers a) k) /\
    (In e (alget (a_vers (fst (acommit a t))) k) -> a_owner e <> t_id t).
Proof.
  intros a t k e Hh Hc. split; [exact (failed_commit_keeps_committed a t k Hh Hc) | exact (commit_leaves_no_entries a t k e Hh)].
Qed.

(* the model's (atomic) commit is the abstract machine's *)
Theorem C07_model_commit_is_spec_commit :
  forall m a x t, Inv m -> R m a -> reg_find (m_reg m) (x_id x) = Some x -> tx_rel m x t ->
    snd (commit m x) = snd (acommit a t) /\ R (fst (commit m x)) (fst (acommit a t)).
Proof. exact commit_sim. Qed.

(* the pinned tree's two-phase commit (test under the read lock, publication later): both tests
   before either publication let both commits succeed and the first update is lost — defect D8,
   reproduced on the real code with a pause point and repaired by a fix: commit *)
Theorem C07_first_committer_wins_refuted_orig :
  let m := d8_state in
  exists x1 x2, reg_find (m_reg m) 1 = Some x1 /\ reg_find (m_reg m) 2 = Some x2 /\
    let f1 := conflict_flag m x1 in
    let f2 := conflict_flag m x2 in
    let (m1, o1) := commit_with_flag f1 m x1 in
    let (m2, o2) := commit_with_flag f2 m1 x2 in
    o1 = OutUnit /\ o2 = OutUnit /\ snd (mstep m2 (OGet 0 1)) = OutVal 12 /\
    snd (commit (fst (commit m x1)) x2) = OutErr ETxSerialization.
Proof. exact first_committer_wins_refuted_orig. Qed.

Example C07_nonvacuous :
  let ops := [OSet 0 1 1; OBegin RR; OBegin SER; OBegin RR; OSet 1 1 11; OSet 2 1 12; OSet 3 2 13; OSet 2 2 14;
              OCommit 1; OSet 0 3 5; OCommit 3; OCommit 2; OGet 0 1; OGet 0 2] in
  no_late_writes ops = true /\
  mrun ops = [OutUnit; OutHandle 1; OutHandle 2; OutHandle 3; OutUnit; OutUnit; OutUnit; OutUnit;
              OutUnit; OutUnit; OutUnit; OutErr ETxSerialization; OutVal 11; OutVal 13].
Proof. vm_compute. repeat split. Qed.

(* ---- tie of the step granularity to the source: the lock/effect skeleton of internal/usecase/core, regenerated
   from the Go source on every run (harness/lockskel.go -> LockSkelGen.v), satisfies the discipline of LockSkel.v *)
Theorem C07_lock_skeleton_ok :
  LockSkel.skeleton_ok LockSkelGen.skeleton = true /\ LockSkel.covers LockSkelGen.skeleton = true.
Proof. split; [exact LockSkelCheck.fsdb_skeleton_ok | exact LockSkelCheck.fsdb_skeleton_covers]. Qed.

(* what [path_ok] buys: a store that an operation enters at most once and needs at two of its events is held without
   interruption between them - the events are in ONE critical section (for UpdateTx and the committed store: the conflict
   test, the commit numbers, the records and the publication; for Store: number, record and both list appends) *)
Theorem C07_one_critical_section :
  forall r l p1 e1 p2 e2 p3 hend,
    LockSkel.run r [] (p1 ++ e1 :: p2 ++ e2 :: p3) = Some hend ->
    (LockSkel.count_acq l (p1 ++ e1 :: p2 ++ e2 :: p3) <= 1)%nat ->
    In l (LockSkel.r_need r e1) -> In l (LockSkel.r_need r e2) ->
    forall q1 w q2, p2 = q1 ++ LockSkel.Rel l w :: q2 -> False.
Proof. exact LockSkel.one_critical_section. Qed.

Print Assumptions C07_first_committer_wins.
Print Assumptions C07_loser_invisible.
Print Assumptions C07_model_commit_is_spec_commit.
Print Assumptions C07_first_committer_wins_refuted_orig.
Print Assumptions C07_lock_skeleton_ok.
Print Assumptions C07_one_critical_section.
