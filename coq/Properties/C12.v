(* C12 — A created file stores the concatenation of its writes and Close always returns.

   Statements only; proofs are [exact <lemma of RWProofs>].  The model (RW.v) is the
   transition system of internal/utils/async/read_writer.go with one step per stretch of
   code between two pause points: thread W = Write(w1) ... Write(wk); Close, thread R = the
   storing goroutine reading with a buffer of B bytes until EOF.  [rw_fixed] is the code
   after the repair (wait in a loop; closed+Broadcast under the mutex), [rw_orig] the code
   before it.  A schedule is any list of thread choices; [run] is undefined when a chosen
   thread is not enabled (blocked on the mutex, parked on the condition variable, or in
   wg.Wait before Done).  f = Some k makes the storing side fail at its k-th Read return.

   Quantification: ALL write lists (any number, any sizes, including empty writes), ALL
   buffer sizes B >= 1, ALL failure points, ALL schedules. *)
From Coq Require Import List Bool NArith Lia.
From FsDb Require Import Conc RW RWProofs Faults Stream StreamProofs Upload.
Close Scope N_scope.
Import ListNotations.
Open Scope bool_scope.

(* Close always returns:
   (1) deadlock freedom: no reachable state is stuck (non-final with no enabled thread);
   (2) every schedule is finite (explicit bound), so (1)+(2): every scheduler that keeps
       running enabled threads reaches the final state;
   (3) from every reachable state some continuation reaches the final state;
   (4) in the final state Close has returned. *)
Theorem C12_close_returns : forall B f ws, 1 <= B ->
  (forall sched s, run (rw_fixed B f) sched (init ws) = Some s ->
     final s = true \/ exists t, enabled (rw_fixed B f) s t = true) /\
  (forall sched s, run (rw_fixed B f) sched (init ws) = Some s -> length sched <= sched_bound ws) /\
  (forall sched s, run (rw_fixed B f) sched (init ws) = Some s ->
     exists sched' s', run (rw_fixed B f) sched' s = Some s' /\ final s' = true) /\
  (forall sched s, run (rw_fixed B f) sched (init ws) = Some s -> final s = true ->
     exists b, cres s = Some b).
Proof. exact fixed_close_returns. Qed.

(* a schedule that cannot be extended is complete: both threads finished, Close returned *)
Theorem C12_maximal_schedule_is_complete : forall B f ws sched s,
  run (rw_fixed B f) sched (init ws) = Some s ->
  (forall t, enabled (rw_fixed B f) s t = false) ->
  final s = true /\ exists b, cres s = Some b.
Proof. exact fixed_maximal_is_final. Qed.

(* whenever Close returned nil, the run is complete, every Write returned nil, and the
   published content is exactly the concatenation of the writes *)
Theorem C12_content_is_concat : forall B f ws sched s,
  run (rw_fixed B f) sched (init ws) = Some s -> cres s = Some true ->
  final s = true /\ published s = Some (concat ws) /\ Forall (fun b => b = true) (wres s).
Proof. exact fixed_content_is_concat. Qed.

(* error path: the error flag is set exactly when the storing side failed (at its k-th Read
   return); then Close returns the error and nothing is published; a Write returns an error
   only after that; without a failure Close returns nil and the content is published *)
Theorem C12_error_reported : forall B f ws sched s,
  run (rw_fixed B f) sched (init ws) = Some s -> final s = true ->
  (err s = true -> cres s = Some false /\ published s = None) /\
  (err s = false -> cres s = Some true /\ published s = Some (concat ws)) /\
  (In false (wres s) -> err s = true) /\
  (f = None -> err s = false) /\
  (forall k, f = Some k -> (err s = true <-> nreads s = S k)).
Proof. exact fixed_error_reported. Qed.

(* the invariant behind the two theorems (DESIGN.md: "reader parked => not closed and
   buffer empty, or a wake-up is pending"), stated on its own *)
Theorem C12_invariant : forall B f ws sched s,
  run (rw_fixed B f) sched (init ws) = Some s ->
  (rp s = RBeforeWait -> closed s = false /\ buf s = []) /\
  (rp s = RParked -> (closed s = false /\ buf s = []) \/ wp s = WSig \/ wp s = WStored) /\
  (mu s = Some R <-> (rp s = RBeforeWait \/ rp s = RAfterWake)) /\
  (mu s = Some W <-> wp s = WStored) /\
  (rp s <> RFail -> err s = false -> stored s ++ buf s ++ concat (todo s) = concat ws).
Proof.
  intros B f ws sched s H. destruct (fixed_inv B f ws sched s H).
  repeat split; tauto.
Qed.

(* ---- the original code: why the repair was needed (replayed on the real code) ---- *)

(* D2: Write(""); Write("hello"); Close with the reader parked first: Close = nil, both
   Writes nil, published content is empty *)
Theorem C12_content_refuted_orig :
  exists s, run (rw_orig 8 None) d2_sched (init d2_ws) = Some s /\ final s = true /\
            cres s = Some true /\ wres s = [true; true] /\
            published s = Some [] /\ concat d2_ws = hello.
Proof. exact orig_content_refuted. Qed.

(* D3: the reader tests, Close stores and broadcasts, the reader parks: nobody is enabled,
   Close has not returned *)
Theorem C12_close_returns_refuted_orig :
  exists s, run (rw_orig 8 None) d3_sched (init d3_ws) = Some s /\ final s = false /\
            (forall t, enabled (rw_orig 8 None) s t = false) /\ cres s = None.
Proof. exact orig_close_returns_refuted. Qed.

(* each half of the repair alone leaves one defect *)
Theorem C12_loop_only_refuted :
  exists s, run (rw_sys (mkParams (mkVariant true false) 8 None)) d3_sched (init d3_ws) = Some s /\
            stuck (mkParams (mkVariant true false) 8 None) s = true.
Proof. exact loop_only_still_deadlocks. Qed.

Theorem C12_lock_only_refuted :
  exists s, run (rw_sys (mkParams (mkVariant false true) 8 None)) d2_sched (init d2_ws) = Some s /\
            final s = true /\ cres s = Some true /\ published s = Some [].
Proof. exact lock_only_still_truncates. Qed.

(* ---- gRPC client: the stream writer is sequential ---- *)
Theorem C12_stream_concat : forall cs ws, 1 <= cs ->
  concat (writer_chunks cs ws) = concat ws /\
  Forall (fun c => 0 < length c <= cs) (writer_chunks cs ws).
Proof. exact stream_concat. Qed.

(* ---- gRPC client, end to end: stream writer -> chunks -> the server's upload reader -> store.Set ---- *)
(* a completed external Create stores the concatenation of its Writes: every chunk size, every Read buffer
   length of the server, every fault plan and candidate order of the roots *)
Theorem C12_grpc_create_stores_concat :
  forall cs (ws : list (list RW.byte)) n fuel src buf order r content,
    1 <= cs -> 0 < n ->
    sr_source false n fuel (sr_init (writer_chunks cs ws) false) = Some src ->
    res_out (set_run (store_fixed buf) order src) = Stored r content ->
    content = concat ws.
Proof. exact upload_stores_concat. Qed.

(* the server's read loop over that stream ends (the fuel is not a restriction) *)
Theorem C12_grpc_create_reader_terminates :
  forall cs (ws : list (list RW.byte)) ab n fuel,
    1 <= cs -> 0 < n -> length (concat ws) < fuel ->
    exists src, sr_source false n fuel (sr_init (writer_chunks cs ws) ab) = Some src.
Proof. exact upload_reader_terminates. Qed.

(* a Create whose stream is cut after any number of chunks is not stored *)
Theorem C12_grpc_create_abort_not_stored :
  forall cs (ws : list (list RW.byte)) k n fuel src buf order,
    0 < n ->
    sr_source false n fuel (sr_init (firstn k (writer_chunks cs ws)) true) = Some src ->
    exists e, res_out (set_run (store_fixed buf) order src) = Err e.
Proof. exact upload_abort_not_stored. Qed.

Example C12_grpc_create_example :
  sr_source false 3 9 (sr_init (writer_chunks 4 [[1; 2]; []; [3; 4; 5]]%N) false)
  = Some [Data [1; 2; 3]%N; Data [4; 5]%N].
Proof. vm_compute. reflexivity. Qed.

(* ---- non-vacuity ---- *)

(* the D2 choices on the repaired code (the woken reader re-tests and waits again; Close's
   last step has to wait for the reader): complete run, content = "hello" *)
Example C12_fixed_d2_sched_ok :
  exists s, run (rw_fixed 8 None) (firstn 11 d2_sched ++ [R; R; R; R; W]) (init d2_ws) = Some s /\
            final s = true /\ cres s = Some true /\ published s = Some hello.
Proof. eexists. vm_compute. repeat split. Qed.

(* the D3 choices are not a schedule of the repaired code: Close blocks on the mutex *)
Example C12_fixed_rejects_d3 : run (rw_fixed 8 None) d3_sched (init d3_ws) = None.
Proof. exact fixed_rejects_d3_sched. Qed.

(* an error run: the sink fails at its 2nd Read return; a later Write and Close report it *)
Example C12_error_run :
  exists s, run (rw_fixed 1 (Some 1)) [W; W; R; R; R; W; W; W; W; W]
                (init [[1%N; 2%N]; [3%N]]) = Some s /\
            final s = true /\ cres s = Some false /\ wres s = [false; true] /\ published s = None.
Proof. eexists. vm_compute. repeat split. Qed.

(* every complete schedule of a small instance, enumerated: all 2455 end final with the
   whole content (the theorem says so for every instance; this shows the enumeration used
   by the correspondence run is not empty and agrees) *)
Example C12_enum_small :
  let ws := writes_of_sizes 0 [2; 2; 2] in
  let p := mkParams fixed_code 1 None in
  let l := enum p false (sched_bound ws) 0 (init ws) [] in
  length l = 2455 /\
  forallb (fun sc => match run (rw_sys p) sc (init ws) with
                     | Some s => final s && match published s with Some c => Nat.eqb (length c) 6 | None => false end
                     | None => false end) l = true.
Proof. vm_compute. split; reflexivity. Qed.

Example C12_stream_example :
  map (@length byte) (writer_chunks 4 (writes_of_sizes 0 [0; 5; 3; 0; 1])) = [4; 4; 1].
Proof. vm_compute. reflexivity. Qed.

Print Assumptions C12_close_returns.
Print Assumptions C12_maximal_schedule_is_complete.
Print Assumptions C12_content_is_concat.
Print Assumptions C12_error_reported.
Print Assumptions C12_invariant.
Print Assumptions C12_content_refuted_orig.
Print Assumptions C12_close_returns_refuted_orig.
Print Assumptions C12_loop_only_refuted.
Print Assumptions C12_lock_only_refuted.
Print Assumptions C12_stream_concat.
Print Assumptions C12_grpc_create_stores_concat.
Print Assumptions C12_grpc_create_reader_terminates.
Print Assumptions C12_grpc_create_abort_not_stored.
