(* C08 — Snapshot transactions see one consistent, stable snapshot under concurrency. *)
From Coq Require Import List NArith Bool.
From FsDb Require Import VList Core Spec CoreInv Refine SpecProps Conc07 Conc08.
From FsDb Require LockSkel LockSkelGen LockSkelCheck.
Import ListNotations.
Open Scope N_scope.

(* When Begin, Commit and a collection pass each take effect atomically (every execution is then a
   sequential history of the abstract machine, which the model refines — C02/C05/C09):        *)

(* (1) all or nothing: the snapshot is the committed view of ONE state, the one Begin ran in, and a
       commit changes all its keys in one step (C03_commit_installs_last_values) *)
Theorem C08_snapshot_is_one_state :
  forall a l k,
    let a' := fst (astep a (OBegin l)) in
    exists t, In t (a_open a') /\ t_id t = a_nexttx a /\ t_lvl t = l /\
              snap_val t k = committed_val (alget (a_vers a) k).
Proof.
  intros a l k a'. eexists. split; [cbn; apply in_or_app; right; left; reflexivity|].
  split; [reflexivity|]. split; [reflexivity|]. unfold snap_val. cbn [t_snap].
  rewrite (CoreLemmas.aget_map_snd (fun _ l0 => committed_val l0)). unfold alget.
  destruct (aget (a_vers a) k); reflexivity.
Qed.

(* (2) repeatable: re-reading a key it has not written returns the same result for as long as the
       transaction is open, whatever commits, autocommit writes, Begins of others and collections
       (OGC/ODrain) happen in between *)
Theorem C08_repeatable :
  forall ops a h t k,
    h <> 0 -> aopen_find a h = Some t -> is_snapshot (t_lvl t) = true -> wrote a h k = false ->
    forallb (fun o => negb (ends o h) && negb (writes_through o h k)) ops = true ->
    exists t', aopen_find (astate_after a ops) h = Some t' /\ aread (astate_after a ops) t' k = aread a t k.
Proof. exact snapshot_reads_stable. Qed.

(* the model keeps the snapshot's version and content through every step, collection included *)
Theorem C08_model_keeps_snapshot :
  forall m a o, Inv m -> R m a -> op_wf a o ->
    R (fst (mstep m o)) (fst (astep a o)) /\ Inv (fst (mstep m o)).
Proof. intros m a o I HR W. destruct (step_refines m a o I HR W) as (_ & H1 & H2). auto. Qed.

(* The full statement is REFUTED for the faithful model, because Begin and the publication of a
   multi-key commit are not atomic in the code (genuine defects, recorded as known findings and
   reproduced on the real code with pause points on every run):                                 *)

(* D9: Begin draws its number between the per-key numbers of a commit: the snapshot sees the
       commit's write to key 1 but not its write to key 2 *)
Theorem C08_fractured_refuted :
  let m := d9_state in
  exists x f1 f2, reg_find (m_reg m) 1 = Some x /\ commit_kept m 1 = [f1; f2] /\
    let m0 := commit_m2 m 1 in
    let m1 := push_committed m0 f1 in
    let m2 := begin_state m1 RR in
    let m3 := push_committed m2 f2 in
    snd (mstep m3 (OGet 2 1)) = OutVal 11 /\ snd (mstep m3 (OGet 2 2)) = OutVal 20.
Proof. exact fractured_snapshot_refuted. Qed.

(* D10: the collector runs between Begin's draw and its registration, finds no transaction, draws a
        later horizon and removes the version the new snapshot needs *)
Theorem C08_gc_horizon_refuted :
  let m := d10_state in
  let b := N.succ (m_seq m) in
  let m1 := set_seq m b in
  let m2 := fst (mstep m1 (OSet 0 1 11)) in
  let m3 := gc m2 in
  let m4 := set_reg (set_nexttx m3 2) [mktx 1 RR b] in
  snd (mstep m (OGet 0 1)) = OutVal 10 /\ snd (mstep m2 (OGet 0 1)) = OutVal 11 /\
  snd (mstep m4 (OGet 1 1)) = OutErr ENotFound.
Proof. exact gc_horizon_refuted. Qed.

Example C08_nonvacuous :
  let ops := [OSet 0 1 10; OSet 0 2 20; OBegin RR; OBegin RC; OSet 2 1 11; OSet 2 2 21; OCommit 2; OGC; OSet 0 1 12; OGC; ODrain;
              OGet 1 1; OGet 1 2; OBegin SER; OGet 3 1; OGet 1 1] in
  no_late_writes ops = true /\
  mrun ops = [OutUnit; OutUnit; OutHandle 1; OutHandle 2; OutUnit; OutUnit; OutUnit; OutUnit; OutUnit; OutUnit; OutUnit;
              OutVal 10; OutVal 20; OutHandle 3; OutVal 12; OutVal 10].
Proof. vm_compute. repeat split. Qed.

(* ---- tie of the step granularity to the source: the lock/effect skeleton of internal/usecase/core, regenerated
   from the Go source on every run (harness/lockskel.go -> LockSkelGen.v), satisfies the discipline of LockSkel.v *)
Theorem C08_lock_skeleton_ok :
  LockSkel.skeleton_ok LockSkelGen.skeleton = true /\ LockSkel.covers LockSkelGen.skeleton = true.
Proof. split; [exact LockSkelCheck.fsdb_skeleton_ok | exact LockSkelCheck.fsdb_skeleton_covers]. Qed.

(* the extra requirement of an operation holds at each of its events (Store: the sequence number is drawn, the record
   written and both lists appended with the store's and the all-store's write locks held; UpdateTx: commit numbers are
   drawn inside the committed store's critical section) *)
Theorem C08_needs_held :
  forall r p q e h0 hend l,
    LockSkel.run r h0 (p ++ e :: q) = Some hend -> In l (LockSkel.r_need r e) ->
    exists h, LockSkel.run r h0 p = Some h /\ LockSkel.holds_w h l = true.
Proof. exact LockSkel.needs_held. Qed.

Print Assumptions C08_snapshot_is_one_state.
Print Assumptions C08_repeatable.
Print Assumptions C08_model_keeps_snapshot.
Print Assumptions C08_fractured_refuted.
Print Assumptions C08_gc_horizon_refuted.
Print Assumptions C08_lock_skeleton_ok.
Print Assumptions C08_needs_held.
