(* C18 — Snapshot lookup returns the last version before the snapshot point.
   Statements only; every proof is [exact <lemma of VListProofs>]. *)
From Coq Require Import List NArith Sorted.
From FsDb Require Import VList VListProofs.
Import ListNotations.

Section C18.
  Variable A : Type.          (* a version; fs_db: model.File *)
  Variable seq : A -> N.      (* its sequence number *)

  (* strictly increasing version numbers *)
  Definition strictly_increasing (l : list A) : Prop :=
    StronglySorted (fun a b => (seq a < seq b)%N) l.

  (* (1) the hand-rolled binary search over the array mirror never runs out of
     fuel and returns the newest version whose number is < s (None if none),
     for every strictly increasing list of any length and every probe s *)
  Theorem C18_bsearch_correct :
    forall (arr : list A) (s : N),
      strictly_increasing arr ->
      bsearch seq (length arr) arr s = Some (last_before_spec seq arr s).
  Proof. intros arr s H. exact (bsearch_correct A seq (length arr) arr s (le_n _) H). Qed.

  (* what [last_before_spec] means, in the property's words *)
  Theorem C18_lookup_is_newest_before :
    forall (l : list A) (s : N), strictly_increasing l ->
      match last_before_spec seq l s with
      | Some x => In x l /\ (seq x < s)%N /\
                  forall y, In y l -> (seq y < s)%N -> (seq y <= seq x)%N
      | None => forall y, In y l -> (s <= seq y)%N
      end.
  Proof.
    intros l s H. destruct (last_before_spec seq l s) as [x|] eqn:E.
    - destruct (lbs_some_inv A seq l s x E) as [H1 H2].
      exact (conj H1 (conj H2 (lbs_is_newest A seq l s x H E))).
    - exact (proj1 (Forall_forall _ _) (lbs_none_inv A seq l s E)).
  Qed.

  (* (2) the collector's loop removes exactly the versions that have a successor
     not newer than the horizon h, and keeps the others in order *)
  Theorem C18_collect_exact :
    forall (l : list A) (h : N),
      strictly_increasing l -> Forall (fun y => (0 < seq y)%N) l ->
      collect_list seq l h = (collect_spec_del seq l h, collect_spec_keep seq l h).
  Proof. exact (collect_list_exact A seq). Qed.

  Theorem C18_removed_iff_successor_not_newer :
    forall (l : list A) (h : N) (x : A),
      In x (collect_spec_del seq l h) <->
      exists l1 y l2, l = l1 ++ x :: y :: l2 /\ (seq y <= h)%N.
  Proof. exact (collect_spec_del_In A seq). Qed.

  (* (3) lookups after the horizon, and at the horizon when the horizon is not
     itself a version number (DESIGN.md C18, boundary reading), are unchanged *)
  Theorem C18_collect_keeps_lookups :
    forall (l : list A) (h s : N) (d k : list A),
      strictly_increasing l -> collect_list seq l h = (d, k) ->
      (h < s)%N \/ (h = s /\ forall x, In x l -> seq x <> h) ->
      last_before_spec seq k s = last_before_spec seq l s.
  Proof. exact (collect_keeps_lookup A seq). Qed.

  Theorem C18_collect_keeps_latest :
    forall (l : list A) (h : N) (d k : list A),
      collect_list seq l h = (d, k) -> last_opt k = last_opt l.
  Proof. exact (collect_keeps_latest A seq). Qed.

  (* (4) under any interleaving of append (of larger numbers), pop-front,
     pop-back and collect, the array mirror equals the list and stays sorted,
     so (1) applies to every reachable store *)
  Theorem C18_mirror_and_sorted_always :
    forall (ops : list (vop A)) (k : kstore A),
      ks_arr k = ks_list k -> strictly_increasing (ks_list k) -> pushes_ok A seq k ops ->
      let k' := fold_left (vstep seq) ops k in
      ks_arr k' = ks_list k' /\ strictly_increasing (ks_list k').
  Proof. exact (sorted_mirror_always A seq). Qed.

  Theorem C18_last_before_on_reachable :
    forall (ops : list (vop A)) (s : N),
      pushes_ok A seq ks_empty ops ->
      let k' := fold_left (vstep seq) ops ks_empty in
      last_before seq k' s = Some (last_before_spec seq (ks_list k') s).
  Proof.
    intros ops s H k'.
    destruct (sorted_mirror_always A seq ops ks_empty eq_refl (sorted_nil A seq) H) as [Hm Hs].
    exact (last_before_correct A seq k' s Hm Hs).
  Qed.
End C18.

(* the two clauses of the property conflict when the horizon is itself a version
   number and the probe equals the horizon: recorded, see DESIGN.md *)
Example C18_clauses_conflict_at_equal :
  let l := [1; 4; 6; 9]%N in
  collect_list (fun x => x) l 6 = ([1; 4]%N, [6; 9]%N) /\
  last_before_spec (fun x => x) l 6 = Some 4%N /\
  last_before_spec (fun x => x) [6; 9]%N 6 = None.
Proof. vm_compute. repeat split. Qed.

(* non-vacuity: the hypotheses are met by a concrete non-trivial history *)
Example C18_nonvacuous :
  let ops := [VPush 3; VPush 5; VPush 8; VCollect 6; VPush 11; VPopBack; VPush 12; VPopFront]%N in
  pushes_ok N (fun x => x) ks_empty ops /\
  ks_list (fold_left (vstep (fun x => x)) ops ks_empty) = [8; 12]%N.
Proof. vm_compute. repeat split; intros a H; repeat (destruct H as [<-|H]; [reflexivity|]); destruct H. Qed.

Print Assumptions C18_bsearch_correct.
Print Assumptions C18_lookup_is_newest_before.
Print Assumptions C18_collect_exact.
Print Assumptions C18_removed_iff_successor_not_newer.
Print Assumptions C18_collect_keeps_lookups.
Print Assumptions C18_collect_keeps_latest.
Print Assumptions C18_mirror_and_sorted_always.
Print Assumptions C18_last_before_on_reachable.
