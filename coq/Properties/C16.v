(* C16 — The worker pool executes every accepted job exactly once, Send never blocks on the
   workers, and Stop returns only after the in-flight jobs have finished.

   Statements only; proofs are [exact <lemma of PoolProofs>].  The model (Pool.v) is the
   transition system of internal/utils/wpool with one step per stretch of code between two
   pause points.  Threads: lifecycle clients (lists of Stop / Run calls), sender clients
   (lists of Send(j) calls), the deferred-send flushers spawned by lazySend, and the workers
   (re-spawned by every Run).  A label is a thread and a flag choosing the branch of a select
   in which both cases are ready.  [pl_fixed nw] is the repaired code, [pl_orig nw] the code
   before the repairs (D14: the flusher releases lazySendM under listM when it pops nil;
   D18: Run makes the new channel before it publishes the new context).  A schedule is any
   list of labels; [run] is undefined when a chosen thread is not enabled.  A panic stops
   the system.  [pl_init p running lprogs sprogs]: running = true is the state right after
   New and the first Run.

   Quantification: ALL numbers of workers, ALL sender programs (any number of senders),
   ALL schedules; exactly-once and send-never-blocks also ALL lifecycle programs of ANY
   number of lifecycle threads and both code variants.  The lifecycle theorems assume at
   most one thread calling Stop / Run ([length lprogs <= 1]); with two such threads the pool
   panics (witnesses below: known findings D15). *)
From Coq Require Import List Bool Arith Lia.
From FsDb Require Import Conc Pool PoolProofs.
Import ListNotations.
Open Scope bool_scope.

(* ---- exactly once: both variants, any clients ---- *)

(* jobs are pairwise distinct tokens; no job is executed twice, whatever Stop / Run /
   cancellation / deferral does in between *)
Theorem C16_exactly_once : forall p running lprogs sprogs, NoDup (concat sprogs) ->
  forall sched s, run (pl_sys p) sched (pl_init p running lprogs sprogs) = Some s ->
  forall j, pl_count s j <= 1.
Proof. exact plp_exactly_once. Qed.

(* a sender that has not finished always has an enabled step, or gets one after ONE step of
   another sender (the holder of the list lock, which is at its last pause point of
   lazySend); no step of a worker, flusher or lifecycle thread is ever needed *)
Theorem C16_send_never_blocks_on_workers : forall p running lprogs sprogs sched s,
  run (pl_sys p) sched (pl_init p running lprogs sprogs) = Some s -> pl_panic s = None ->
  forall i c, nth_error (pl_sns s) i = Some c -> (pl_spc_of c <> PsIdle \/ pl_sjobs c <> []) ->
  pl_enabled p s (PtS i, false) = true \/
  exists k, k <> i /\ pl_enabled p s (PtS k, false) = true /\
            pl_enabled p (pl_step p s (PtS k, false)) (PtS i, false) = true.
Proof. exact plp_send_never_blocks. Qed.

(* the invariant behind it: listM is held across a pause point exactly by the sender that
   failed the try-lock and has not yet returned from lazySend *)
Theorem C16_list_lock_invariant : forall p running lprogs sprogs sched s,
  run (pl_sys p) sched (pl_init p running lprogs sprogs) = Some s ->
  forall k, pl_listm s = Some k <-> exists j jobs, nth_error (pl_sns s) k = Some (PlSnd (PsLFail j) jobs).
Proof. exact plp_list_lock. Qed.

(* ---- lifecycle: at most one thread calls Stop / Run (both variants) ---- *)

(* the phase invariant; lpc = the pc of the lifecycle thread (PlIdle if there is none) *)
Theorem C16_phase_invariant : forall p running lprogs sprogs, length lprogs <= 1 ->
  forall sched s, run (pl_sys p) sched (pl_init p running lprogs sprogs) = Some s ->
  length (pl_lfs s) <= 1 /\ length (pl_wks s) = pl_nw p /\
  let lpc := pl_lpc0 s in
  (pl_cxs s = PxLive ->
     (lpc = PlIdle /\ pl_runm s = true /\ pl_chs s = PhOpen /\ pl_runwg s = pl_nw p) \/
     (lpc = PlRunSpawn /\ pl_runm s = true /\ pl_runwg s = 0 /\ (pl_fix p = true -> pl_chs s = PhOpen))) /\
  (lpc = PlIdle -> pl_runm s = true -> pl_cxs s = PxLive) /\
  ((lpc = PlIdle /\ pl_runm s = false) \/ lpc = PlStopHeld \/ lpc = PlRunInit ->
     pl_cxs s <> PxLive /\ (pl_cxs s = PxNil <-> pl_chs s = PhNil) /\
     pl_sendwg s = 0 /\ pl_runwg s = 0 /\ pl_def s = []) /\
  (lpc <> PlIdle -> pl_runm s = true) /\
  (lpc = PlStopWaitS \/ lpc = PlStopWaitR \/ lpc = PlStopClose -> pl_cxs s = PxCancelled /\ pl_chs s = PhOpen) /\
  (lpc = PlStopWaitR \/ lpc = PlStopClose -> pl_sendwg s = 0) /\
  (lpc = PlStopClose -> pl_runwg s = 0) /\
  (pl_chs s = PhClosed -> pl_runwg s = 0 /\ (pl_fix p = true -> pl_sendwg s = 0)).
Proof. exact plp_phase_invariant. Qed.

(* While the pool is stopped (run lock free: after a Stop returned and before the next Run)
   no worker, sender or flusher is alive, so no job is running and none can start:
   executions are logged only by the step of a live worker at PwBegin.  Stop's last step
   (close, clear, unlock, return) is taken from PlStopClose, where no worker is alive:
   in-flight jobs have finished. *)
Theorem C16_stop_clean : forall p running lprogs sprogs, length lprogs <= 1 ->
  forall sched s, run (pl_sys p) sched (pl_init p running lprogs sprogs) = Some s ->
  (pl_runm s = false -> pl_runwg s = 0 /\ pl_sendwg s = 0) /\
  (forall i c, nth_error (pl_lfs s) i = Some c -> pl_lpc_of c = PlStopClose -> pl_runwg s = 0 /\ pl_sendwg s = 0) /\
  (forall l s', pl_next p s l = Some s' -> pl_log s' <> pl_log s ->
     exists k j, fst l = PtW k /\ nth_error (pl_wks s) k = Some (PwBegin j)).
Proof. exact plp_stop_clean. Qed.

(* both variants, the first Run has returned: the only panic that can happen is D18's
   (original code only): a send on the closed channel while Run is between its two
   assignments *)
Theorem C16_no_panic_except_restart_partial : forall p lprogs sprogs, length lprogs <= 1 ->
  forall sched s, run (pl_sys p) sched (pl_init p true lprogs sprogs) = Some s ->
  pl_panic s = None \/ (pl_fix p = false /\ pl_panic s = Some PkSendClosed /\ pl_lpc0 s = PlRunSpawn).
Proof. exact plp_only_restart_panics. Qed.

(* ---- repaired code, one lifecycle thread, the first Run has returned ---- *)

Theorem C16_no_panic_partial : forall nw lprogs sprogs, length lprogs <= 1 ->
  forall sched s, run (pl_sys (pl_fixed nw)) sched (pl_init (pl_fixed nw) true lprogs sprogs) = Some s ->
  pl_panic s = None.
Proof. exact plp_no_panic. Qed.

Theorem C16_no_deadlock_partial : forall nw lprogs sprogs, 1 <= nw -> length lprogs <= 1 ->
  forall sched s, run (pl_sys (pl_fixed nw)) sched (pl_init (pl_fixed nw) true lprogs sprogs) = Some s ->
  pl_all_done s = true \/ exists l, pl_enabled (pl_fixed nw) s l = true.
Proof. exact plp_no_deadlock. Qed.

Theorem C16_no_panic_no_deadlock_partial : forall nw lprogs sprogs, 1 <= nw -> length lprogs <= 1 ->
  forall sched s, run (pl_sys (pl_fixed nw)) sched (pl_init (pl_fixed nw) true lprogs sprogs) = Some s ->
  pl_panic s = None /\ (pl_all_done s = true \/ exists l, pl_enabled (pl_fixed nw) s l = true).
Proof. exact plp_no_panic_no_deadlock. Qed.

(* "deferred list non-empty => the flusher lock is held by a flusher that has not yet seen
   nil under the list lock": the number of flushers at PfNew / PfLoop / PfHas is 1 if
   lazySendM is held and 0 otherwise *)
Theorem C16_flusher_invariant : forall nw running lprogs sprogs, length lprogs <= 1 ->
  forall sched s, run (pl_sys (pl_fixed nw)) sched (pl_init (pl_fixed nw) running lprogs sprogs) = Some s ->
  pl_sum pl_f_active (pl_fls s) = (if pl_flock s then 1 else 0) /\
  (pl_cxs s = PxLive -> pl_def s <> [] -> pl_flock s = true).
Proof. exact plp_flusher_invariant. Qed.

(* when nothing is enabled any more and the pool is live, every job accepted since the last
   Run (enqueued or deferred) has been executed, exactly once; nothing is left behind *)
Theorem C16_eventually_run : forall nw lprogs sprogs, 1 <= nw -> length lprogs <= 1 -> NoDup (concat sprogs) ->
  let p := pl_fixed nw in
  forall running sched s, run (pl_sys p) sched (pl_init p running lprogs sprogs) = Some s ->
  pl_quiet p s = true -> pl_cxs s = PxLive -> pl_panic s = None ->
  pl_chan s = [] /\ pl_def s = [] /\ forall j, In j (pl_acc s) -> pl_count s j = 1.
Proof. exact plp_eventually_run. Qed.

(* ---- the original code / unsupported uses: witnesses (replayed on the real code) ---- *)

(* D14: the flusher pops nil, a sender defers job 3 and fails the try-lock, the flusher
   exits: job 3 is accepted, never executed, the pool is quiet and live *)
Theorem C16_eventually_run_refuted_orig :
  exists s, run (pl_sys (pl_orig 1)) pl_d14_sched (pl_init (pl_orig 1) true [] [[0;1;2];[3]]) = Some s /\
            pl_quiet (pl_orig 1) s = true /\ pl_cxs s = PxLive /\ pl_panic s = None /\
            In 3 (pl_acc s) /\ pl_count s 3 = 0 /\ pl_def s = [3] /\ pl_stranded s = true.
Proof. exact plp_eventually_run_refuted_orig. Qed.

(* D15: two concurrent Stops close the channel twice *)
Theorem C16_no_panic_refuted_two_stops :
  exists s, run (pl_sys (pl_fixed 1)) pl_two_stops_sched (pl_init (pl_fixed 1) true [[PlStop];[PlStop]] []) = Some s /\
            pl_panic s = Some PkCloseClosed.
Proof. exact plp_two_stops. Qed.

(* D15: Send before the first Run *)
Theorem C16_no_panic_refuted_send_before_run :
  exists s, run (pl_sys (pl_fixed 1)) [(PtS 0, false)] (pl_init (pl_fixed 1) false [] [[0]]) = Some s /\
            pl_panic s = Some PkNilCtx.
Proof. exact plp_send_before_run. Qed.

(* D15: Stop while the first Run is between its try-lock and its initialisation *)
Theorem C16_no_panic_refuted_stop_during_run :
  exists s, run (pl_sys (pl_fixed 1)) [(PtL 0, false); (PtL 1, false)]
                (pl_init (pl_fixed 1) false [[PlRun];[PlStop]] []) = Some s /\
            pl_panic s = Some PkNilCancel.
Proof. exact plp_stop_during_run. Qed.

(* D18: one lifecycle thread restarts the pool (Stop; Run); a Send between Run's two
   assignments sees the live context and the closed channel of the previous epoch *)
Theorem C16_no_panic_refuted_restart_orig :
  exists s, run (pl_sys (pl_orig 1)) pl_restart_sched (pl_init (pl_orig 1) true [[PlStop; PlRun]] [[0]]) = Some s /\
            pl_panic s = Some PkSendClosed.
Proof. exact plp_restart_orig. Qed.

(* ---- non-vacuity ---- *)

Example C16_d14_sched_is :
  pl_d14_sched =
  [(PtW 0, false)] ++ repeat (PtS 0, false) 7 ++
  [(PtF 0, false); (PtF 0, false); (PtW 0, false); (PtW 0, false); (PtF 0, false); (PtF 0, false);
   (PtS 1, false); (PtS 1, false); (PtS 1, false); (PtS 1, false); (PtF 0, false); (PtF 0, false)] ++
  repeat (PtW 0, false) 8.
Proof. reflexivity. Qed.

(* the D14 choices are not a schedule of the repaired code: sender 1's try-lock succeeds *)
Example C16_fixed_rejects_d14 :
  run (pl_sys (pl_fixed 1)) pl_d14_sched (pl_init (pl_fixed 1) true [] [[0;1;2];[3]]) = None.
Proof. exact plp_fixed_rejects_d14. Qed.

(* the same first 17 choices on the repaired code, completed: sender 1's lazy step spawns
   flusher 1, which moves job 3; every job is executed once *)
Example C16_fixed_d14_prefix_ok :
  exists s, run (pl_sys (pl_fixed 1)) pl_d14_fixed_sched (pl_init (pl_fixed 1) true [] [[0;1;2];[3]]) = Some s /\
            firstn 17 pl_d14_fixed_sched = firstn 17 pl_d14_sched /\
            pl_quiet (pl_fixed 1) s = true /\ pl_cxs s = PxLive /\ pl_panic s = None /\
            pl_def s = [] /\ pl_chan s = [] /\ pl_all_done s = true /\ rev (pl_log s) = [0;1;2;3] /\
            map (pl_count s) [0;1;2;3] = [1;1;1;1] /\ pl_fls s = [PfGone; PfGone].
Proof. eexists. split; [vm_compute; reflexivity|]. vm_compute. repeat split. Qed.

(* a complete Stop / Run / Stop cycle with a sender: no panic, both jobs executed *)
Example C16_stop_run_cycle :
  exists s, run (pl_sys (pl_fixed 1)) pl_cycle_sched (pl_init (pl_fixed 1) true [[PlStop; PlRun; PlStop]] [[0;1]]) = Some s /\
            pl_all_done s = true /\ pl_panic s = None /\ rev (pl_log s) = [0;1] /\ pl_runm s = false /\
            pl_runwg s = 0 /\ pl_sendwg s = 0.
Proof. eexists. split; [vm_compute; reflexivity|]. vm_compute. repeat split. Qed.

(* the D18 choices on the repaired code: job 0 goes into the new channel *)
Example C16_fixed_restart_ok :
  exists s, run (pl_sys (pl_fixed 1)) pl_restart_sched (pl_init (pl_fixed 1) true [[PlStop; PlRun]] [[0]]) = Some s /\
            pl_panic s = None /\ pl_chan s = [0] /\ pl_chs s = PhOpen /\ pl_cxs s = PxLive.
Proof. eexists. split; [vm_compute; reflexivity|]. vm_compute. repeat split. Qed.

Print Assumptions C16_exactly_once.
Print Assumptions C16_send_never_blocks_on_workers.
Print Assumptions C16_list_lock_invariant.
Print Assumptions C16_phase_invariant.
Print Assumptions C16_no_panic_except_restart_partial.
Print Assumptions C16_stop_clean.
Print Assumptions C16_no_panic_partial.
Print Assumptions C16_no_deadlock_partial.
Print Assumptions C16_no_panic_no_deadlock_partial.
Print Assumptions C16_flusher_invariant.
Print Assumptions C16_eventually_run.
Print Assumptions C16_eventually_run_refuted_orig.
Print Assumptions C16_no_panic_refuted_two_stops.
Print Assumptions C16_no_panic_refuted_send_before_run.
Print Assumptions C16_no_panic_refuted_stop_during_run.
Print Assumptions C16_no_panic_refuted_restart_orig.
