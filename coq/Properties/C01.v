(* C01 — Key-value round trip: what was stored is exactly what is read. *)
From Coq Require Import List NArith Bool Sorted.
From FsDb Require Import VList Core Spec CoreLemmas CoreInv Refine SpecProps.
Import ListNotations.
Open Scope N_scope.

(* Outside transactions the model of fs_db behaves as a map from keys to values, for every
   sequence of Set/SetReader/Create-Close (OSet), Delete, Get/GetReader, GetKeys on any keys,
   with the collector and the cleaner at any position (key 0 is the empty key). *)
Theorem C01_kv_refinement :
  forall ops, forallb is_auto ops = true -> mrun ops = kvrun ops.
Proof. exact kv_refinement. Qed.

(* the map machine, in the property's words *)
Theorem C01_get_after_set :
  forall s h k v, k <> 0 ->
    let s' := fst (kvstep s (OSet h k v)) in
    snd (kvstep s (OSet h k v)) = OutUnit /\ snd (kvstep s' (OGet h k)) = OutVal v.
Proof.
  intros s h k v Hk. cbn [kvstep]. destruct (N.eqb_spec k 0); [contradiction|]. cbn [fst snd].
  rewrite aget_aset_eq. split; reflexivity.
Qed.

Theorem C01_get_after_delete :
  forall s h k, snd (kvstep (fst (kvstep s (ODel h k))) (OGet h k)) = OutErr ENotFound.
Proof. intros s h k. cbn [kvstep fst snd]. rewrite aget_aset_eq. reflexivity. Qed.

(* a value stays until the key is next written: reads, listings, the collector, and writes and
   deletes of OTHER keys do not change what Get k returns *)
Theorem C01_value_until_next_write :
  forall s o k h,
    (match o with OSet _ k' _ | ODel _ k' => k' <> k | _ => True end) ->
    snd (kvstep (fst (kvstep s o)) (OGet h k)) = snd (kvstep s (OGet h k)).
Proof.
  intros s o k h Ho. destruct o; cbn [kvstep fst snd]; try reflexivity.
  - destruct (N.eqb k0 0); cbn [fst]; [reflexivity|]. rewrite aget_aset_neq by congruence. reflexivity.
  - rewrite aget_aset_neq by congruence. reflexivity.
Qed.

(* a Set with the empty key fails with ErrEmptyKey, a Get of a never-written key fails with
   ErrNotFound, and neither changes anything *)
Theorem C01_empty_key_no_effect :
  forall s h v, kvstep s (OSet h 0 v) = (s, OutErr EEmptyKey).
Proof. reflexivity. Qed.

Theorem C01_missing_no_effect :
  forall s h k, aget s k = None -> kvstep s (OGet h k) = (s, OutErr ENotFound).
Proof. intros s h k E. cbn [kvstep]. rewrite E. reflexivity. Qed.

(* GetKeys returns, sorted and without duplicates, exactly the keys for which Get succeeds *)
Theorem C01_keys_sorted_nodup_exact :
  forall s h k, NoDup (map fst s) ->
    match snd (kvstep s (OKeys h)) with
    | OutKeys ks => Sorted N.le ks /\ NoDup ks /\
                    (In k ks <-> exists v, snd (kvstep s (OGet h k)) = OutVal v)
    | _ => False
    end.
Proof.
  intros s h k Hnd. cbn [kvstep snd]. split; [apply sort_keys_sorted|]. split.
  - apply sort_keys_NoDup. apply NoDup_map_filter_fst. exact Hnd.
  - rewrite In_sort_keys. split.
    + intros Hin. apply in_map_iff in Hin. destruct Hin as ([k' o] & E & Hin). cbn in E. subst k'.
      apply filter_In in Hin. destruct Hin as [Hin Ho]. cbn in Ho. destruct o as [v|]; [|discriminate].
      exists v. assert (Eg : aget s k = Some (Some v)).
      { clear Ho. induction s as [|[k0 o0] s IH]; [destruct Hin|]. cbn [map fst] in Hnd.
        inversion Hnd as [|? ? Hn Hnd']; subst. cbn [aget].
        destruct Hin as [E|Hin].
        - injection E as -> ->. rewrite N.eqb_refl. reflexivity.
        - destruct (N.eqb_spec k k0) as [->|]; [|exact (IH Hnd' Hin)].
          exfalso. apply Hn. apply (in_map fst) in Hin. exact Hin. }
      rewrite Eg. reflexivity.
    + intros [v Hv]. destruct (aget s k) as [[v'|]|] eqn:Eg; try discriminate.
      apply aget_In in Eg. apply in_map_iff. exists (k, Some v'). split; [reflexivity|].
      apply filter_In. split; [exact Eg | reflexivity].
Qed.

(* the map machine's key lists never contain duplicates, so the theorem above applies to every reachable state *)
Theorem C01_reachable_keys_nodup :
  forall ops s, NoDup (map fst s) ->
    NoDup (map fst (fold_left (fun s0 o => fst (kvstep s0 o)) ops s)).
Proof.
  induction ops as [|o ops IH]; intros s H; [exact H|]. cbn [fold_left]. apply IH.
  destruct o; cbn [kvstep fst]; try exact H.
  - destruct (N.eqb k 0); cbn [fst]; [exact H | apply NoDup_keys_aset; exact H].
  - apply NoDup_keys_aset. exact H.
Qed.

Example C01_nonvacuous :
  let ops := [OSet 0 2 7; OSet 0 1 8; OGet 0 2; OKeys 0; OSet 0 2 9; OGC; ODrain; OGet 0 2; ODel 0 2; OGet 0 2; OKeys 0;
              OSet 0 0 1; OGet 0 3; OSet 0 2 4; OGet 0 2] in
  forallb is_auto ops = true /\
  mrun ops = [OutUnit; OutUnit; OutVal 7; OutKeys [1; 2]; OutUnit; OutUnit; OutUnit; OutVal 9; OutUnit; OutErr ENotFound;
              OutKeys [1]; OutErr EEmptyKey; OutErr ENotFound; OutUnit; OutVal 4].
Proof. vm_compute. repeat split. Qed.

Print Assumptions C01_kv_refinement.
Print Assumptions C01_get_after_set.
Print Assumptions C01_get_after_delete.
Print Assumptions C01_value_until_next_write.
Print Assumptions C01_empty_key_no_effect.
Print Assumptions C01_missing_no_effect.
Print Assumptions C01_keys_sorted_nodup_exact.
Print Assumptions C01_reachable_keys_nodup.
