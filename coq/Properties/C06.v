(* C06 — Concurrent operations are individually atomic (linearizable), with no deadlock. *)
From Coq Require Import List NArith Bool.
From FsDb Require Import VList Core Spec CoreInv Refine SpecProps Conc07 Conc08.
From FsDb Require LockSkel LockSkelGen LockSkelCheck.
Import ListNotations.
Open Scope N_scope.

(* Atomic steps.  Every write (Store), commit (the repaired UpdateTx), rollback (DeleteTx) and
   collection (DeleteOld) of fs_db runs inside ONE critical section of the locks listed in
   [fsdb_lock_sequences]; the version look-up of a read runs under the read lock.  Treating a
   critical section as one step (assumption on sync.RWMutex, DESIGN section 3), every concurrent
   execution of these steps is a sequential history of [mstep], and the model refines the
   abstract machine on every such history: each operation takes effect atomically at its step,
   no acknowledged write is lost or resurrected.                                              *)
Theorem C06_atomic_steps_linearize :
  forall ops, no_late_writes ops = true -> has_reopen ops = false -> mrun ops = arun ops.
Proof. exact model_refines_spec. Qed.

(* No deadlock: whenever some thread waits for a lock, some thread that holds a lock is not
   waiting — for EVERY number of threads and every state in which each thread asks only for
   locks ranked above all the locks it holds ... *)
Theorem C06_no_deadlock :
  forall (rank : N -> nat) (bound : nat), (forall l, (rank l < bound)%nat) ->
  forall s, ordered rank s -> (exists i, blockedb s i = true) ->
    exists j tj, nth_error s j = Some tj /\ t_held tj <> [] /\ blockedb s j = false.
Proof. exact no_deadlock. Qed.

(* ... and fs_db's operations acquire their locks in strictly increasing rank
   (user transaction store < committed store < all-store) *)
Theorem C06_fsdb_lock_order : forallb strictly_increasing fsdb_lock_sequences = true.
Proof. exact fsdb_lock_order_strict. Qed.

(* Reads were NOT atomic before their repair: the version is resolved under the lock, the content record and the file
   are fetched afterwards with no lock or pin.  An overwrite plus a collection pass in between made the read fail
   although the key had a value throughout (defect D11, repaired for Get/GetReader by a fix: commit; witness kept) *)
Theorem C06_read_atomic_refuted_orig :
  let m0 := mstate_after m_init [OSet 0 1 10] in
  let m1 := gc (fst (mstep m0 (OSet 0 1 11))) in
  read m0 (mktx 0 RC 0) 1 = Some 10 /\ read m1 (mktx 0 RC 0) 1 = Some 11 /\
  read (fst (mstep m0 (OSet 0 1 11))) (mktx 0 RC 0) 1 = Some 11 /\
  read_two_step m0 m1 (mktx 0 RC 0) 1 = None.
Proof. exact read_atomic_refuted. Qed.

(* what holds of one attempt: if no physical deletion touches the resolved version between the two steps,
   the read returns what the atomic read at the moment of the look-up returns *)
Theorem C06_read_linearizable_partial :
  forall m m' x k,
    (forall v, find_version m x k = Some v -> aget (m_cont m') (v_cid v) = aget (m_cont m) (v_cid v)) ->
    read_two_step m m' x k = read m x k.
Proof. exact read_two_step_partial. Qed.

(* the repaired read resolves the version again when its content is gone: on the schedule of the witness it returns the
   new value, and in general (contents immutable; no deletion touches the RE-resolved version before it is fetched) it
   returns the atomic read at the first look-up or the atomic read at the second: it is linearizable *)
Theorem C06_read_retry_witness :
  let m0 := mstate_after m_init [OSet 0 1 10] in
  let m1 := gc (fst (mstep m0 (OSet 0 1 11))) in
  read_retry m0 m1 m1 (mktx 0 RC 0) 1 = Some 11 /\ read m1 (mktx 0 RC 0) 1 = Some 11.
Proof. exact read_retry_witness. Qed.

Theorem C06_read_retry_linearizable :
  forall m1 m2 m3 x k,
    (forall v, find_version m1 x k = Some v ->
       aget (m_cont m2) (v_cid v) = aget (m_cont m1) (v_cid v) \/ aget (m_cont m2) (v_cid v) = None) ->
    (forall v, find_version m2 x k = Some v -> aget (m_cont m3) (v_cid v) = aget (m_cont m2) (v_cid v)) ->
    read_retry m1 m2 m3 x k = read m1 x k \/ read_retry m1 m2 m3 x k = read m2 x k.
Proof. exact read_retry_linearizable. Qed.

(* GetKeys is built the same way and is NOT repaired (known finding D11b): a key that had a value throughout is missing
   from the listing when its version is superseded and collected between the look-up and the content test *)
Theorem C06_keys_atomic_refuted :
  let m0 := mstate_after m_init [OSet 0 1 10] in
  let m1 := gc (fst (mstep m0 (OSet 0 1 11))) in
  list_keys m0 (mktx 0 RC 0) = [1] /\ list_keys m1 (mktx 0 RC 0) = [1] /\
  keys_two_step m0 m1 (mktx 0 RC 0) = [].
Proof. exact keys_atomic_refuted. Qed.

Theorem C06_keys_linearizable_partial :
  forall m m' x,
    (forall k v, find_version m x k = Some v -> aget (m_cont m') (v_cid v) = aget (m_cont m) (v_cid v)) ->
    keys_two_step m m' x = list_keys m x.
Proof. exact keys_two_step_partial. Qed.

(* collection and cleaning never touch a version a read can still resolve — between operations *)
Theorem C06_gc_keeps_resolvable_versions :
  forall m a, Inv m -> R m a -> R (gc m) a /\ R (drain m) a.
Proof. intros m a I HR. split; [apply gc_sim | apply drain_sim]; assumption. Qed.

(* ---- tie of the step granularity to the source: the lock/effect skeleton of internal/usecase/core, regenerated
   from the Go source on every run (harness/lockskel.go -> LockSkelGen.v), satisfies the discipline of LockSkel.v *)
Theorem C06_lock_skeleton_ok :
  LockSkel.skeleton_ok LockSkelGen.skeleton = true /\ LockSkel.covers LockSkelGen.skeleton = true.
Proof. split; [exact LockSkelCheck.fsdb_skeleton_ok | exact LockSkelCheck.fsdb_skeleton_covers]. Qed.

(* every acquisition in a checked path asks for a store ranked above all it holds: the hypothesis [ordered] of
   C06_no_deadlock is a checked fact about the source, not a reading of it *)
Theorem C06_acquisitions_ordered :
  forall r p q l w h0 hend,
    LockSkel.run r h0 (p ++ LockSkel.Acq l w :: q) = Some hend ->
    exists h, LockSkel.run r h0 p = Some h /\ forall l' w', In (l', w') h -> (LockSkel.rank l' < LockSkel.rank l)%nat.
Proof. exact LockSkel.acquisitions_ordered. Qed.

(* what [path_ok] buys: a store that an operation enters at most once and needs at two of its events is held without
   interruption between them - the events are in ONE critical section (for UpdateTx and the committed store: the conflict
   test, the commit numbers, the records and the publication; for Store: number, record and both list appends) *)
Theorem C06_one_critical_section :
  forall r l p1 e1 p2 e2 p3 hend,
    LockSkel.run r [] (p1 ++ e1 :: p2 ++ e2 :: p3) = Some hend ->
    (LockSkel.count_acq l (p1 ++ e1 :: p2 ++ e2 :: p3) <= 1)%nat ->
    In l (LockSkel.r_need r e1) -> In l (LockSkel.r_need r e2) ->
    forall q1 w q2, p2 = q1 ++ LockSkel.Rel l w :: q2 -> False.
Proof. exact LockSkel.one_critical_section. Qed.

Print Assumptions C06_atomic_steps_linearize.
Print Assumptions C06_no_deadlock.
Print Assumptions C06_fsdb_lock_order.
Print Assumptions C06_read_atomic_refuted_orig.
Print Assumptions C06_read_linearizable_partial.
Print Assumptions C06_gc_keeps_resolvable_versions.
Print Assumptions C06_lock_skeleton_ok.
Print Assumptions C06_acquisitions_ordered.
Print Assumptions C06_one_critical_section.
Print Assumptions C06_read_retry_witness.
Print Assumptions C06_read_retry_linearizable.
Print Assumptions C06_keys_atomic_refuted.
Print Assumptions C06_keys_linearizable_partial.
