(* C05 — Reopening preserves the committed state and later writes keep winning. *)
From Coq Require Import List NArith Bool.
From FsDb Require Import VList Core Spec CoreInv Refine SpecProps CoreInvK Durable.
Import ListNotations.
Open Scope N_scope.

(* Every sequential history with Close/Open (OReopen) inserted at any positions, any number of
   times: the model answers exactly as the abstract machine, whose Reopen keeps the committed
   value of every key, forgets the open transactions and nothing else. *)
Theorem C05_histories_with_reopen :
  forall ops, no_late_writes ops = true -> mrun ops = arun ops.
Proof. exact model_refines_spec_reopen. Qed.

(* the abstract machine's Reopen, in the property's words *)
Theorem C05_reopen_preserves_committed :
  forall a k, NoDup (map fst (a_vers a)) ->
    committed_val (alget (a_vers (spec_reopen a)) k) = committed_val (alget (a_vers a) k).
Proof.
  intros a k Hnd. unfold spec_reopen. cbn [astep fst a_vers].
  set (M := map (fun p : N * list aver => (fst p, filter committed (snd p))) (a_vers a)).
  assert (HndM : NoDup (map fst M)) by (unfold M; rewrite map_map; exact Hnd).
  unfold alget. rewrite aget_sort_amap by (apply keys_filter_sub; exact HndM).
  rewrite (aget_filter_snd (fun l : list aver => match l with [] => false | _ :: _ => true end) M k HndM).
  unfold M. rewrite (CoreLemmas.aget_map_snd (fun _ l => filter committed l)).
  destruct (aget (a_vers a) k) as [l|]; [|reflexivity].
  unfold committed_val.
  destruct (filter committed l) as [|e r] eqn:E; [reflexivity|].
  rewrite <- E. rewrite CoreLemmas.filter_filter. f_equal. apply filter_ext. intros x. apply andb_diag.
Qed.

Theorem C05_open_handles_gone :
  forall a, a_open (spec_reopen a) = [] /\
            forall h, h <> 0 -> areader (spec_reopen a) h = None.
Proof.
  intros a. split; [reflexivity|]. intros h Hh. unfold areader, aopen_find.
  destruct (N.eqb_spec h 0); [contradiction | reflexivity].
Qed.

(* "whatever other database instances the same process has opened before or meanwhile": other
   instances only move the process-global sequence counter.  (1) at Open the counter may have
   ANY value: Load still reproduces the committed state and the invariants that make every
   later write win; (2) between two operations the counter may be raised arbitrarily. *)
Theorem C05_open_with_any_counter :
  forall g m a, Full m -> R m a ->
    Full (reopen_with g (drain m)) /\ R (reopen_with g (drain m)) (spec_reopen a).
Proof. exact reopen_any_counter. Qed.

Theorem C05_counter_raised_by_others :
  forall m a s, Full m -> R m a -> m_seq m <= s -> Full (set_seq m s) /\ R (set_seq m s) a.
Proof. exact bump_full. Qed.

(* ... and from such a state every later history refines the abstract machine again, so every
   acknowledged write supersedes all earlier data immediately and after every later reopen *)
Theorem C05_later_writes_win :
  forall ops m a, Full m -> R m a -> wf_from' a ops -> mrun_from m ops = arun_from a ops.
Proof. exact run_refines_full. Qed.

(* the pinned tree violated this (defect D1: sequence.Set was a compare-and-swap from 0): machine-checked
   witness on the model of the ORIGINAL Set; repaired in /repo by a fix: commit *)
Theorem C05_later_writes_win_refuted_orig :
  let m1 := reopen_with_orig 1 d1_prepared in
  let m2 := fst (mstep m1 (OSet 0 1 9)) in
  let m3 := reopen_with_orig (m_seq m2) (drain m2) in
  snd (mstep m2 (OGet 0 1)) = OutVal 9 /\ snd (mstep m3 (OGet 0 1)) = OutVal 3.
Proof. exact later_writes_win_refuted_orig. Qed.

Example C05_nonvacuous :
  let ops := [OSet 0 1 1; OBegin RR; OSet 1 2 2; OSet 0 2 3; OReopen; OGet 0 1; OGet 0 2; OKeys 0; OSet 0 1 4; ODel 0 2;
              OBegin RC; OSet 2 3 5; OCommit 2; OReopen; OReopen; OGet 0 1; OGet 0 2; OGet 0 3; OKeys 0] in
  no_late_writes ops = true /\
  mrun ops = [OutUnit; OutHandle 1; OutUnit; OutUnit; OutUnit; OutVal 1; OutVal 3; OutKeys [1; 2]; OutUnit; OutUnit;
              OutHandle 2; OutUnit; OutUnit; OutUnit; OutUnit; OutVal 4; OutErr ENotFound; OutVal 5; OutKeys [1; 3]].
Proof. vm_compute. repeat split. Qed.

Print Assumptions C05_histories_with_reopen.
Print Assumptions C05_reopen_preserves_committed.
Print Assumptions C05_open_handles_gone.
Print Assumptions C05_open_with_any_counter.
Print Assumptions C05_counter_raised_by_others.
Print Assumptions C05_later_writes_win.
Print Assumptions C05_later_writes_win_refuted_orig.
