(* C19 — Persisted version records round-trip and keep their on-disk format.
   Statements only; proofs are [exact <lemma of CodecProofs>]. Bytes are N < 256. *)
From Coq Require Import List NArith.
From FsDb Require Import Codec CodecProofs CodecRepo.
Import ListNotations.
Open Scope N_scope.

(* every well-formed record (any key bytes incl. empty, 16-byte ids, 64-bit sequence)
   decodes to exactly what was encoded *)
Theorem C19_roundtrip :
  forall r bs, marshal r = Some bs -> unmarshal bs = Some r.
Proof. exact unmarshal_marshal. Qed.

Theorem C19_marshal_defined_iff_wf :
  forall r, (exists bs, marshal r = Some bs) <->
            (r_seq r < 18446744073709551616 /\ length (r_tx r) = 16%nat /\ length (r_cid r) = 16%nat).
Proof.
  intros r. unfold marshal. split.
  - intros [bs H]. destruct (wf_rec r) eqn:W; [|discriminate]. exact (wf_rec_inv r W).
  - intros (H1 & H2 & H3). unfold wf_rec, uuid_len.
    rewrite (proj2 (N.ltb_lt _ _) H1), H2, H3. simpl. eauto.
Qed.

(* the on-disk layout: 8-byte little-endian sequence, tx id, content id, raw key *)
Theorem C19_layout :
  forall r bs, marshal r = Some bs ->
    bs = le64 (r_seq r) ++ r_tx r ++ r_cid r ++ r_key r /\
    length bs = (40 + length (r_key r))%nat /\
    forall i, (i < 8)%nat -> nth i bs 0 = (r_seq r / 256 ^ N.of_nat i) mod 256.
Proof. exact marshal_layout. Qed.

(* decoding is total, rejects exactly the strings shorter than the header, and takes the rest as key *)
Theorem C19_total_and_rejects_short :
  forall bs,
    (length bs < 40 -> unmarshal bs = None)%nat /\
    (40 <= length bs -> exists r, unmarshal bs = Some r /\ r_key r = skipn 40 bs /\
                                  length (r_tx r) = 16 /\ length (r_cid r) = 16)%nat.
Proof. exact unmarshal_total. Qed.

(* records written in this layout keep decoding to the same values: decode is the
   inverse of encode on byte strings too *)
Theorem C19_decode_then_encode :
  forall bs r, Forall (fun b => b < 256) bs -> unmarshal bs = Some r -> marshal r = Some bs.
Proof. exact marshal_unmarshal. Qed.

(* canonical textual ids: String() then Parse() is the identity on 16 bytes *)
Theorem C19_uuid_roundtrip :
  forall b, length b = 16%nat -> Forall (fun x => x < 256) b -> uuid_parse (uuid_format b) = Some b.
Proof. exact uuid_parse_format. Qed.

Example C19_nonvacuous :
  let r := {| r_seq := 18446744073709551615; r_tx := repeat 0 16; r_cid := repeat 255 16; r_key := [] |} in
  exists bs, marshal r = Some bs /\ length bs = 40%nat /\ unmarshal bs = Some r.
Proof. eexists. vm_compute. repeat split. Qed.

Example C19_golden :
  marshal {| r_seq := 258; r_tx := repeat 0 16; r_cid := [1;2;3;4;5;6;7;8;9;10;11;12;13;14;15;16]; r_key := [107; 49] |}
  = Some ([2;1;0;0;0;0;0;0] ++ repeat 0 16 ++ [1;2;3;4;5;6;7;8;9;10;11;12;13;14;15;16] ++ [107;49]).
Proof. vm_compute. reflexivity. Qed.

(* ---- the glue around the codec: repository/file Set and GetAll over the key-ordered store ---- *)
(* records with pairwise different content ids, stored one by one or inside one key-value transaction, are exactly what
   GetAll returns: nothing lost, nothing altered, nothing invented - for any number of records, any keys (empty included) *)
Theorem C19_set_getall_roundtrip :
  forall rs out, NoDup (map r_cid rs) -> run_batch rs = Some out ->
    (forall r, In r rs <-> In r out) /\ length out = length (map r_cid out).
Proof. exact batch_roundtrip. Qed.

Theorem C19_set_getall_defined : forall rs, forallb wf_rec rs = true -> exists out, run_batch rs = Some out.
Proof. exact batch_defined. Qed.

(* GetAll decodes every stored value independently of the others *)
Theorem C19_getall_decodes_each :
  forall m, kv_ok m -> exists rs, repo_get_all m = Some rs /\ map marshal rs = map (fun kv => Some (snd kv)) m /\ map r_cid rs = map fst m.
Proof. exact get_all_decodes. Qed.

Print Assumptions C19_roundtrip.
Print Assumptions C19_marshal_defined_iff_wf.
Print Assumptions C19_layout.
Print Assumptions C19_total_and_rejects_short.
Print Assumptions C19_decode_then_encode.
Print Assumptions C19_uuid_roundtrip.
Print Assumptions C19_set_getall_roundtrip.
Print Assumptions C19_set_getall_defined.
Print Assumptions C19_getall_decodes_each.
