(* C03 — Commit is all-or-nothing and fails exactly on a write-write conflict.
   Stated on the abstract machine; [C03_model_refines] transfers every statement to the
   model of fs_db for all sequential histories (any levels, write sets, overlaps). *)
From Coq Require Import List NArith Bool.
From FsDb Require Import VList Core Spec CoreInv Refine SpecProps.
Import ListNotations.
Open Scope N_scope.

Theorem C03_model_refines :
  forall ops, no_late_writes ops = true -> has_reopen ops = false -> mrun ops = arun ops.
Proof. exact model_refines_spec. Qed.

(* the committed state changes by commit exactly as the model's does: the simulation relation
   is kept by the model's two-phase commit (unregister, unlink, per-key re-sequencing, push) *)
Theorem C03_commit_simulates :
  forall m a x t, Inv m -> R m a -> reg_find (m_reg m) (x_id x) = Some x -> tx_rel m x t ->
    snd (commit m x) = snd (acommit a t) /\ R (fst (commit m x)) (fst (acommit a t)).
Proof. exact commit_sim. Qed.

(* Commit fails with ErrTxSerialization if and only if the transaction is RepeatableRead or
   Serializable and some key it wrote has had a value committed since it began *)
Theorem C03_conflict_iff :
  forall a t,
    snd (acommit a t) = OutErr ETxSerialization <->
    is_snapshot (t_lvl t) = true /\ exists k, In k (written_keys a (t_id t)) /\ In k (t_dirty t).
Proof. exact acommit_conflict_iff. Qed.

Theorem C03_RU_RC_never_conflict :
  forall a t, t_lvl t = RU \/ t_lvl t = RC -> snd (acommit a t) = OutUnit.
Proof.
  intros a t H. destruct (acommit_out a t) as [E|E]; [exact E|].
  apply acommit_conflict_iff in E. destruct E as [E _]. destruct H as [H|H]; rewrite H in E; discriminate.
Qed.

Theorem C03_commit_succeeds_or_conflicts :
  forall a t, snd (acommit a t) = OutUnit \/ snd (acommit a t) = OutErr ETxSerialization.
Proof. exact acommit_out. Qed.

(* a successful Commit makes the last value the transaction wrote to every key (deletions
   included: value None) the committed value of that key, all together, and changes the
   committed value of no other key *)
Theorem C03_commit_installs_last_values :
  forall a t k, t_id t <> 0 -> NoDup (map fst (a_vers a)) -> snd (acommit a t) = OutUnit ->
    committed_val (alget (a_vers (fst (acommit a t))) k) =
    if existsb (N.eqb k) (written_keys a (t_id t))
    then last_val (filter (owned_by (t_id t)) (alget (a_vers a) k))
    else committed_val (alget (a_vers a) k).
Proof. exact commit_installs. Qed.

(* Rollback, and a failed Commit, leave the committed state exactly as it was *)
Theorem C03_rollback_keeps_committed :
  forall a h k, h <> 0 ->
    committed_val (alget (a_vers (fst (astep a (ORollback h)))) k) = committed_val (alget (a_vers a) k).
Proof. exact rollback_keeps_committed. Qed.

Theorem C03_failed_commit_keeps_committed :
  forall a t k, t_id t <> 0 -> snd (acommit a t) = OutErr ETxSerialization ->
    committed_val (alget (a_vers (fst (acommit a t))) k) = committed_val (alget (a_vers a) k).
Proof. exact failed_commit_keeps_committed. Qed.

(* ... and discard all the transaction's writes: no entry of it remains, and it is not open any more *)
Theorem C03_ended_tx_leaves_no_entries :
  forall a t k e, t_id t <> 0 -> In e (alget (a_vers (fst (acommit a t))) k) -> a_owner e <> t_id t.
Proof. exact commit_leaves_no_entries. Qed.

(* non-vacuity: a conflicting and a non-conflicting snapshot commit, a delete inside a transaction *)
Example C03_nonvacuous :
  let ops := [OSet 0 1 10; OSet 0 2 20; OBegin SER; OBegin RR; OSet 1 1 11; ODel 1 2; OSet 2 1 12; OSet 2 3 30;
              OCommit 1; OGet 0 1; OGet 0 2; OCommit 2; OGet 0 1; OGet 0 3; OKeys 0] in
  no_late_writes ops = true /\ has_reopen ops = false /\
  mrun ops = [OutUnit; OutUnit; OutHandle 1; OutHandle 2; OutUnit; OutUnit; OutUnit; OutUnit;
              OutUnit; OutVal 11; OutErr ENotFound; OutErr ETxSerialization; OutVal 11; OutErr ENotFound; OutKeys [1]].
Proof. vm_compute. repeat split. Qed.

Print Assumptions C03_model_refines.
Print Assumptions C03_commit_simulates.
Print Assumptions C03_conflict_iff.
Print Assumptions C03_RU_RC_never_conflict.
Print Assumptions C03_commit_succeeds_or_conflicts.
Print Assumptions C03_commit_installs_last_values.
Print Assumptions C03_rollback_keeps_committed.
Print Assumptions C03_failed_commit_keeps_committed.
Print Assumptions C03_ended_tx_leaves_no_entries.
