(* C11 — The gRPC client is indistinguishable from the inline client.
   THIS REVISION: the error-class and isolation-level mapping (DESIGN.md C11 part (a)):
   "Every error the server can produce maps to the same sentinel on the client side",
   "all four isolation levels".  Streaming: C11_same_content_both_clients at the end of the file (models Stream.v,
   RW.v, Faults.v); whole client histories are compared by the correspondence run.

   Statements only; every proof is [exact <lemma of ErrMapProofs>].
   Vocabulary (coq/ErrMap.v, coq/ErrMapInst.v):
     errv                 an error value: Leaf s (the sentinel itself) | Other (foreign) |
                         Wrap e (fmt.Errorf("…%w", e)) | Join es (errors.Join) — any depth
     is e S = true       errors.Is(e, S)
     server e            what adapter/errors.Error puts on the wire: (status code, Some detail code)
     client w            the error adapter/errors.ClientError hands to the caller
     drop_detail w       the same status without its details
     primary e           the first sentinel, in the order of errorToPbError's switch, with is e S;
                         ErrUnknown when there is none
   server/client/primary/convert/to_grpc are instantiated with the tables of ErrMapGen.v, which
   ./check C11 regenerates from the Go source on every run. *)
From Coq Require Import List Bool.
From FsDb Require Import ErrMap ErrMapGen ErrMapInst ErrMapProofs.
Import ListNotations.

(* (1) For EVERY error value the server can be given — any wrapping, any joining — the
   client-side error matches the announced class and no other sentinel at all. *)
Theorem C11_class_preserved :
  forall e, let S := primary e in
    is (client (server e)) S = true /\
    forall S', is (client (server e)) S' = true -> S' = S.
Proof. exact class_preserved. Qed.

(* (2) [primary] is not an artefact of the tables: it is one of the specific exported classes
   (ErrNoFreeSpace, ErrNotFound, ErrEmptyKey, ErrHeaderNotFound, ErrTxNotFound,
   ErrTxAlreadyExists, ErrTxSerialization) that e itself matches whenever e matches any of
   them, and ErrUnknown exactly when e matches none.  (Dropping a case from errorToPbError
   breaks this one.) *)
Theorem C11_primary_is_a_class_of_e :
  forall e,
    ((exists S, specific_class S = true /\ is e S = true) ->
       specific_class (primary e) = true /\ is e (primary e) = true) /\
    ((forall S, specific_class S = true -> is e S = false) -> primary e = ErrUnknown).
Proof. exact primary_spec. Qed.

(* (1)+(2) without mentioning the tables: an error that carries exactly one specific class S
   is seen by the gRPC caller as S and nothing else … *)
Theorem C11_single_class_exact :
  forall e S,
    specific_class S = true -> is e S = true ->
    (forall S', specific_class S' = true -> is e S' = true -> S' = S) ->
    forall S', is (client (server e)) S' = true <-> S' = S.
Proof. exact single_class_exact. Qed.

(* … an error that carries none (a foreign error, ErrUnknown itself) is seen as ErrUnknown … *)
Theorem C11_no_class_is_unknown :
  forall e,
    (forall S, specific_class S = true -> is e S = false) ->
    forall S', is (client (server e)) S' = true <-> S' = ErrUnknown.
Proof. exact no_class_is_unknown. Qed.

(* … and so are the two configuration errors (they are returned by Open before there is a
   connection; if one ever reached the adapter it would arrive as ErrUnknown). *)
Theorem C11_config_errors_become_unknown :
  forall e,
    (forall S, is e S = true -> config_error S = true) ->
    forall S', is (client (server e)) S' = true <-> S' = ErrUnknown.
Proof. exact config_errors_become_unknown. Qed.

(* What does NOT hold: the set of sentinels matched by errors.Is is not preserved.  An error
   joining two classes keeps only the first one (by switch order), and a foreign error, which
   matches nothing on the server, matches ErrUnknown on the client. *)
Theorem C11_class_set_refuted :
  (exists e S, exported_class S = true /\ is e S = true /\ is (client (server e)) S = false) /\
  (exists e S, exported_class S = true /\ is e S = false /\ is (client (server e)) S = true).
Proof. exact class_set_refuted. Qed.

(* (3) The status code chosen by Error agrees with the detail: a client that only sees the
   status code (details dropped on the way) reaches the same class — for every error value
   whose announced class is not ErrHeaderNotFound. *)
Theorem C11_code_consistent :
  forall e, primary e <> ErrHeaderNotFound ->
    let r := client (drop_detail (server e)) in
    is r (primary e) = true /\ forall S', is r S' = true -> S' = primary e.
Proof. exact code_consistent. Qed.

(* per case of Error's switch, and which sentinels have a case *)
Theorem C11_code_case_consistent :
  forall S c, In (S, c) error_code_table ->
    is (client_by_code c) S = true /\ forall S', is (client_by_code c) S' = true -> S' = S.
Proof. exact code_case_consistent. Qed.

Theorem C11_code_case_exists :
  forall S, specific_class S = true -> S <> ErrHeaderNotFound -> In S (map fst error_code_table).
Proof. exact code_case_exists. Qed.

(* a status code that Error never chooses (one set by the transport, a proxy, …) is ErrUnknown *)
Theorem C11_unused_code_is_unknown :
  forall c, ~ In c (map snd error_code_table) ->
    forall S', is (client_by_code c) S' = true <-> S' = ErrUnknown.
Proof. exact unused_code_is_unknown. Qed.

(* The named exception: ErrHeaderNotFound has no status-code case.  It travels as Internal and
   is recognised through the detail only; by the code alone it is never ErrHeaderNotFound
   (bare: ErrUnknown).  This is why ClientError must look at the details first. *)
Theorem C11_code_header_exception :
  (forall e, primary e = ErrHeaderNotFound ->
     is (client (drop_detail (server e))) ErrHeaderNotFound = false) /\
  ~ In ErrHeaderNotFound (map fst error_code_table) /\
  server (Leaf ErrHeaderNotFound) = (codes_Internal, Some ErrorCode_ErrHeaderNotFound) /\
  classes (client (server (Leaf ErrHeaderNotFound))) = [ErrHeaderNotFound] /\
  classes (client (drop_detail (server (Leaf ErrHeaderNotFound)))) = [ErrUnknown].
Proof. exact (conj code_header_exception header_not_found_has_no_code). Qed.

(* (4) Isolation levels: the four levels survive client -> wire -> server, and back. *)
Theorem C11_level_roundtrip :
  forall l, l <> IsoLevelOther -> convert (to_grpc l) = l.
Proof. exact level_roundtrip. Qed.

Theorem C11_level_roundtrip_grpc :
  forall p, p <> TxIsoLevel_Other -> to_grpc (convert p) = p.
Proof. exact plevel_roundtrip. Qed.

(* any other number is turned into ReadCommitted (= IsoLevelDefault) on either side *)
Theorem C11_level_out_of_range :
  to_grpc IsoLevelOther = TxIsoLevel_ISO_LEVEL_READ_COMMITTED /\
  convert TxIsoLevel_Other = IsoLevelReadCommitted.
Proof. exact level_out_of_range. Qed.

(* [is] means what errors.Is means on these values: S occurs somewhere in the tree *)
Theorem C11_is_means_occurs :
  forall e S, is e S = true <-> In S (leaves e).
Proof. exact is_leaves. Qed.

(* ---- non-vacuity ------------------------------------------------------------------ *)
(* a deep value: wrap(join[foreign, wrap(join[ErrTxSerialization, ErrNotFound])]) *)
Example C11_deep_tree :
  let e := Wrap (Join [Other; Wrap (Join [Leaf ErrTxSerialization; Leaf ErrNotFound]); Leaf ErrEmptyRootDirs]) in
  primary e = ErrNotFound /\
  server e = (codes_NotFound, Some ErrorCode_ErrNotFound) /\
  client (server e) = Wrap (Leaf ErrNotFound) /\
  classes e = [ErrNotFound; ErrTxSerialization; ErrEmptyRootDirs] /\
  classes (client (server e)) = [ErrNotFound].
Proof. vm_compute. repeat split. Qed.

(* every specific class is reachable and preserved on its own; all 7 + ErrUnknown *)
Example C11_each_class :
  map (fun s => classes (client (server (Wrap (Leaf s))))) all_sentinels =
  [[ErrUnknown]; [ErrNoFreeSpace]; [ErrNotFound]; [ErrEmptyKey]; [ErrHeaderNotFound];
   [ErrTxNotFound]; [ErrTxAlreadyExists]; [ErrTxSerialization]; [ErrUnknown]; [ErrUnknown]].
Proof. vm_compute. reflexivity. Qed.

(* code and detail can disagree only around ErrHeaderNotFound: *)
Example C11_header_join :
  let e := Join [Leaf ErrHeaderNotFound; Leaf ErrTxNotFound] in
  server e = (codes_Aborted, Some ErrorCode_ErrHeaderNotFound) /\
  classes (client (server e)) = [ErrHeaderNotFound] /\
  classes (client (drop_detail (server e))) = [ErrTxNotFound].
Proof. vm_compute. repeat split. Qed.

(* the default branch of ClientError: errors.Join(nil, ErrUnknown) *)
Example C11_client_default_branch :
  client (codes_Unavailable, None) = Join [Leaf ErrUnknown] /\
  client (codes_Unavailable, Some ErrorCode_Other) = Join [Leaf ErrUnknown] /\
  client (codes_Unavailable, Some ErrorCode_ErrNotFound) = Wrap (Leaf ErrNotFound) /\
  classes (client (codes_Unavailable, None)) = [ErrUnknown].
Proof. vm_compute. repeat split. Qed.

Example C11_levels :
  map (fun l => convert (to_grpc l)) [IsoLevelReadUncommitted; IsoLevelReadCommitted; IsoLevelRepeatableRead; IsoLevelSerializable]
  = [IsoLevelReadUncommitted; IsoLevelReadCommitted; IsoLevelRepeatableRead; IsoLevelSerializable].
Proof. vm_compute. reflexivity. Qed.

Print Assumptions C11_class_preserved.
Print Assumptions C11_primary_is_a_class_of_e.
Print Assumptions C11_single_class_exact.
Print Assumptions C11_no_class_is_unknown.
Print Assumptions C11_config_errors_become_unknown.
Print Assumptions C11_class_set_refuted.
Print Assumptions C11_code_consistent.
Print Assumptions C11_code_case_consistent.
Print Assumptions C11_code_case_exists.
Print Assumptions C11_unused_code_is_unknown.
Print Assumptions C11_code_header_exception.
Print Assumptions C11_level_roundtrip.
Print Assumptions C11_level_roundtrip_grpc.
Print Assumptions C11_level_out_of_range.
Print Assumptions C11_is_means_occurs.

(* ---------- streaming: the same content through both clients ---------- *)
From Coq Require Import Arith NArith.
From FsDb Require Import Faults RW Stream StreamProofs Upload.
Close Scope N_scope.

(* an inline SetReader whose reader yields the pieces ws, and an external Create / SetReader that writes the same pieces
   (client stream writer with any chunk size cs, server upload reader with any buffer length n), store the same bytes
   whenever both are stored - whatever the fault plans and root orders on either side *)
Theorem C11_same_content_both_clients :
  forall cs (ws : list (list RW.byte)) n fuel src buf1 order1 r1 c1 buf2 order2 r2 c2,
    1 <= cs -> 0 < n ->
    res_out (set_run (store_fixed buf1) order1 (map Data ws)) = Stored r1 c1 ->
    sr_source false n fuel (sr_init (writer_chunks cs ws) false) = Some src ->
    res_out (set_run (store_fixed buf2) order2 src) = Stored r2 c2 ->
    c1 = c2.
Proof. exact same_content_both_clients. Qed.
Print Assumptions C11_same_content_both_clients.
