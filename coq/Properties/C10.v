(* C10 — A write that fails or is aborted leaves no trace; a write reported as successful is
   complete; when one root runs out of space mid-write and another reports more free space the write
   continues there and the stored bytes equal the source exactly.

   Inline client (usecase/store.Set reached through Set, SetReader, Create+Write*+Close):
   source-reader failures and no-space faults (all-or-nothing and partial writes) on any subset of
   the roots (model Faults.v).  gRPC client: the server's store use case reads the upload through
   streamreader.Read (model Stream.v, finding D4); the C10_grpc_* theorems compose that reader with
   the write path: an aborted stream is never stored, a stored upload holds exactly the chunks.

   Statements only; proofs are [exact <lemma of FaultsProofs>] or a few lines.  Model: Faults.v.
   [store_fixed buf] is the repaired write path, [store_orig buf] the pinned tree (findings D16, D17);
   buf is io.Copy's buffer size (32768 in the code) — every statement holds for every buf, every
   split of the source into Read results, every fault plan and every candidate order (the shuffle).

   Reading of "another root reports more free space": store.Set only tries a candidate whose
   reported free space is strictly larger than that of every root that already ran out (minSize), so
   the continuation theorem asks for a fault-free candidate that reports more than every candidate
   before it; [C10_minsize_example] shows the loop's answer when a later root reports less. *)
From Coq Require Import List NArith Bool Lia.
From FsDb Require Import Core Faults FaultsProofs Stream StreamProofs.
Import ListNotations.
Open Scope N_scope.

(* ---------- the repaired write path ---------- *)

(* a write reported as successful is complete: the stored bytes are exactly the bytes of the source,
   and the source did not fail *)
Theorem C10_success_is_exact :
  forall buf order src at_root content,
    res_out (set_run (store_fixed buf) order src) = Stored at_root content ->
    content = src_bytes src /\ src_fails src = false.
Proof. intros buf order src at_root content. apply set_run_exact. left. reflexivity. Qed.

(* hence: a source that fails anywhere makes Set fail *)
Theorem C10_reader_failure_fails :
  forall buf order src, src_fails src = true ->
    exists e, res_out (set_run (store_fixed buf) order src) = Err e.
Proof.
  intros buf order src Hf.
  destruct (res_out (set_run (store_fixed buf) order src)) as [r c|e] eqn:H; [|eauto].
  apply C10_success_is_exact in H. destruct H as [_ H]. rewrite H in Hf. discriminate.
Qed.

(* a failed Set writes neither the content record nor the version record (no push_version): the
   Core machine is in the state it had before, so every later operation answers as if the Set had
   never been issued; the files left below the roots (no record points to them: readers cannot see
   them) hold prefixes of the source; every file handle is closed *)
Theorem C10_failure_no_trace :
  forall buf order src e,
    res_out (set_run (store_fixed buf) order src) = Err e ->
    (forall m h k v, apply_set m h k v (res_out (set_run (store_fixed buf) order src)) = m) /\
    (forall m h k v ops,
        mrun_from (apply_set m h k v (res_out (set_run (store_fixed buf) order src))) ops = mrun_from m ops) /\
    Forall (fun o => is_prefix (snd o) (src_bytes src)) (res_orphans (set_run (store_fixed buf) order src)) /\
    res_leaked (set_run (store_fixed buf) order src) = O.
Proof.
  intros buf order src e H. rewrite H. repeat split.
  - apply set_run_orphans_prefix. left. reflexivity.
  - apply set_loop_no_leak. reflexivity.
Qed.

(* conversely a successful Set is exactly the Core machine's Set step (content record + push_version) *)
Theorem C10_success_writes_records :
  forall m h k v at_root content, k <> 0 ->
    apply_set m h k v (Stored at_root content) =
    push_version (set_cont (set_nextcid m (N.succ (m_nextcid m))) (aset (m_cont m) (m_nextcid m) v))
                 h k (m_nextcid m).
Proof. exact apply_set_stored. Qed.

(* the write continues on another root: a fault-free candidate that reports more free space than
   every candidate before it makes the write succeed, whatever the earlier candidates do
   (run out at any offset, fully or partially, or get skipped) *)
Theorem C10_continues_on_other_root :
  forall buf pre c post src,
    src_fails src = false ->
    0 < r_free c ->
    (forall d, In d pre -> r_free d < r_free c) ->
    r_fault c = NoFault ->
    exists at_root,
      res_out (set_run (store_fixed buf) (pre ++ c :: post) src) = Stored at_root (src_bytes src).
Proof.
  intros buf pre c post src Hf H0 Hpre Hc.
  destruct (set_run_continues (store_fixed buf) pre c post src eq_refl Hf H0 Hpre Hc) as (r & content & H).
  exists r. rewrite H. f_equal.
  apply C10_success_is_exact in H. exact (proj1 H).
Qed.

(* the property text literally, for two candidates: the first runs out mid-write (its file can hold
   fewer bytes than the source has; the failing write may be partial), the second reports strictly
   more free space and has room: the content ends up in the second root and equals the source *)
Theorem C10_continues_two_roots :
  forall buf c1 c2 cap keep src,
    src_fails src = false ->
    0 < r_free c1 -> r_free c1 < r_free c2 ->
    r_fault c1 = EnospcAt cap keep -> cap < N.of_nat (length (src_bytes src)) ->
    r_fault c2 = NoFault ->
    res_out (set_run (store_fixed buf) [c1; c2] src) = Stored (r_id c2) (src_bytes src) /\
    res_visited (set_run (store_fixed buf) [c1; c2] src) = [r_id c1; r_id c2].
Proof. intros buf c1 c2 cap keep src. apply set_run_two_roots. left. reflexivity. Qed.

(* no root has room (reports nothing free, or its file cannot hold the source): ErrNoFreeSpace *)
Theorem C10_no_room_anywhere :
  forall buf order src,
    src_fails src = false ->
    Forall (no_room (length (src_bytes src))) order ->
    res_out (set_run (store_fixed buf) order src) = Err ENoFreeSpace.
Proof. intros buf order src. apply set_run_no_room; [reflexivity|left; reflexivity]. Qed.

(* ---------- the pinned tree ---------- *)

(* D16: after a partial write the retry stream repeats the bytes that already reached the file:
   Set returns nil and the stored content is not the source *)
Theorem C10_success_is_exact_refuted_orig :
  exists buf order src at_root content,
    res_out (set_run (store_orig buf) order src) = Stored at_root content /\
    src_fails src = false /\ content <> src_bytes src.
Proof.
  exists 4%nat, [mkroot 0 1 (EnospcAt 3 9); mkroot 1 2 NoFault], [Data [1; 2]; Data [3; 4]], 1, [1; 2; 3; 3; 4].
  vm_compute. split; [reflexivity|]. split; [reflexivity|discriminate].
Qed.

(* what does hold on the pinned tree: exactness when every ENOSPC is all-or-nothing (keep = 0: no
   byte of the failing chunk reached the file) *)
Theorem C10_success_is_exact_partial_orig :
  forall buf order src at_root content,
    Forall (fun r => all_or_nothing (r_fault r)) order ->
    res_out (set_run (store_orig buf) order src) = Stored at_root content ->
    content = src_bytes src /\ src_fails src = false.
Proof. intros buf order src at_root content Ha. apply set_run_exact. right. exact Ha. Qed.

(* D17: store.Set closes the previous Start file as soon as a second root runs out, although the
   stream handed to the third root may still have to read from it: "file already closed" instead of
   success (with and without the repair of D16) *)
Theorem C10_continues_on_other_root_refuted_orig :
  exists buf pre c post src,
    src_fails src = false /\ 0 < r_free c /\ (forall d, In d pre -> r_free d < r_free c) /\
    r_fault c = NoFault /\
    res_out (set_run (store_orig buf) (pre ++ c :: post) src) = Err EClosed /\
    res_out (set_run (mkparams true false buf) (pre ++ c :: post) src) = Err EClosed.
Proof.
  exists 4%nat, [mkroot 0 1 (EnospcAt 5 0); mkroot 1 2 (EnospcAt 2 0)], (mkroot 2 3 NoFault), [],
         [Data [1; 2; 3; 4]; Data [5; 6; 7; 8]; Data [9]].
  split; [reflexivity|]. split; [reflexivity|]. split.
  - intros d [<-|[<-|[]]]; reflexivity.
  - split; [reflexivity|]. split; vm_compute; reflexivity.
Qed.

(* what does hold on the pinned tree for the continuation: two candidates, all-or-nothing ENOSPC *)
Theorem C10_continues_two_roots_partial_orig :
  forall buf c1 c2 cap src,
    src_fails src = false ->
    0 < r_free c1 -> r_free c1 < r_free c2 ->
    r_fault c1 = EnospcAt cap 0 -> cap < N.of_nat (length (src_bytes src)) ->
    r_fault c2 = NoFault ->
    res_out (set_run (store_orig buf) [c1; c2] src) = Stored (r_id c2) (src_bytes src) /\
    res_visited (set_run (store_orig buf) [c1; c2] src) = [r_id c1; r_id c2].
Proof. intros buf c1 c2 cap src. apply set_run_two_roots. right. reflexivity. Qed.

(* ---------- non-vacuity ---------- *)
(* a partial write in the first root, continuation in the second: stored = source, the first root
   keeps an orphan with the 3 bytes that fitted *)
Example C10_example_continue :
  set_run (store_fixed 4) [mkroot 0 1 (EnospcAt 3 9); mkroot 1 2 NoFault] [Data [1; 2]; Data [3; 4]]
  = mkres (Stored 1 [1; 2; 3; 4]) [(0, [1; 2; 3])] [0; 1] 0.
Proof. vm_compute. reflexivity. Qed.

(* three roots, the first two run out (the second while the first file is still being re-read) *)
Example C10_example_three_roots :
  res_out (set_run (store_fixed 4)
                   [mkroot 0 1 (EnospcAt 5 0); mkroot 1 2 (EnospcAt 2 0); mkroot 2 3 NoFault]
                   [Data [1; 2; 3; 4]; Data [5; 6; 7; 8]; Data [9]])
  = Stored 2 [1; 2; 3; 4; 5; 6; 7; 8; 9].
Proof. vm_compute. reflexivity. Qed.

(* the source fails after 2 bytes while the second root is being written: error, two orphans *)
Example C10_example_reader_failure :
  set_run (store_fixed 4) [mkroot 0 1 (EnospcAt 1 9); mkroot 1 2 NoFault] [Data [1; 2]; Fail; Data [3]]
  = mkres (Err EReader) [(0, [1]); (1, [1; 2])] [0; 1] 0.
Proof. vm_compute. reflexivity. Qed.

(* nobody has room; a root reporting the same free space as one that ran out is not tried *)
Example C10_example_no_room :
  set_run (store_fixed 4) [mkroot 0 7 (EnospcAt 1 0); mkroot 1 7 NoFault; mkroot 2 0 NoFault] [Data [1; 2]]
  = mkres (Err ENoFreeSpace) [(0, [])] [0] 0.
Proof. vm_compute. reflexivity. Qed.

(* minSize: after a root reporting 20 ran out, a fault-free root reporting 10 is not tried *)
Example C10_minsize_example :
  res_out (set_run (store_fixed 4)
                   [mkroot 0 5 (EnospcAt 0 0); mkroot 1 20 (EnospcAt 0 0); mkroot 2 10 NoFault] [Data [1]])
  = Err ENoFreeSpace.
Proof. vm_compute. reflexivity. Qed.

(* the hypotheses of C10_no_room_anywhere are satisfiable *)
Example C10_no_room_hyp :
  Forall (no_room (length (src_bytes [Data [1; 2]])))
         [mkroot 0 7 (EnospcAt 1 0); mkroot 2 0 NoFault].
Proof.
  constructor; [right; exists 1, 0; split; [reflexivity|reflexivity]|].
  constructor; [left; reflexivity|constructor].
Qed.

(* ---------- the gRPC upload path (Stream.v: streamreader.Read feeding store.Set) ---------- *)

(* an upload whose stream is aborted - after any chunks, read with any buffer length n, for every
   candidate order and every fault plan - is never stored; by C10_failure_no_trace it leaves no trace *)
Theorem C10_grpc_abort_never_stored :
  forall (cs : list (list N)) (n fuel : nat) src buf order, (0 < n)%nat ->
    sr_source false n fuel (sr_init cs true) = Some src ->
    exists e, res_out (set_run (store_fixed buf) order src) = Err e.
Proof. exact grpc_abort_never_stored. Qed.

(* an upload that ends cleanly and is reported as stored holds exactly the chunks that were sent, in order *)
Theorem C10_grpc_upload_exact :
  forall (cs : list (list N)) (n fuel : nat) src buf order r content, (0 < n)%nat ->
    sr_source false n fuel (sr_init cs false) = Some src ->
    res_out (set_run (store_fixed buf) order src) = Stored r content ->
    content = concat cs.
Proof. exact grpc_upload_exact. Qed.

(* the consumer's loop ends: every data result carries at least one byte (fuel is not a restriction) *)
Theorem C10_grpc_reader_terminates :
  forall (cs : list (list N)) ab (n fuel : nat), (0 < n)%nat -> (length (concat cs) < fuel)%nat ->
    exists src, sr_source false n fuel (sr_init cs ab) = Some src.
Proof. exact grpc_reader_terminates. Qed.

(* whatever the buffer lengths of the individual Reads, what has been delivered is a prefix of the upload *)
Theorem C10_grpc_reads_prefix :
  forall (cs : list (list N)) ab sizes,
    exists rest, concat cs = sr_delivered (sr_run false cs ab sizes) ++ rest.
Proof. intros cs ab sizes. exact (sr_reads_prefix sizes (sr_init cs ab)). Qed.

(* finding D4 (repaired by /repo 6fa21e9): the original reader turned an abort into a clean end *)
Theorem C10_grpc_abort_refuted_orig :
  exists (cs : list (list N)) n fuel src,
    sr_source true n fuel (sr_init cs true) = Some src /\ src_fails src = false /\ src_bytes src = concat cs.
Proof. exact grpc_abort_refuted_orig. Qed.

(* ... and only that: on every stream that ends cleanly the original reader is the same function as the repaired one
   (the _partial_orig form of the statements above: hypothesis "not aborted") *)
Theorem C10_grpc_upload_exact_partial_orig :
  forall n fuel (cs : list (list N)), sr_source true n fuel (sr_init cs false) = sr_source false n fuel (sr_init cs false).
Proof. intros n fuel cs. apply sr_source_orig_clean. reflexivity. Qed.

(* non-vacuity: a two-chunk upload aborted after the second chunk, read with 3-byte buffers *)
Example C10_grpc_example_abort :
  sr_source false 3 9 (sr_init [[1; 2]; [3; 4; 5]] true) = Some [Data [1; 2; 3]; Fail] /\
  sr_source false 3 9 (sr_init [[1; 2]; [3; 4; 5]] false) = Some [Data [1; 2; 3]; Data [4; 5]].
Proof. vm_compute. auto. Qed.

Print Assumptions C10_success_is_exact.
Print Assumptions C10_reader_failure_fails.
Print Assumptions C10_failure_no_trace.
Print Assumptions C10_success_writes_records.
Print Assumptions C10_continues_on_other_root.
Print Assumptions C10_continues_two_roots.
Print Assumptions C10_no_room_anywhere.
Print Assumptions C10_success_is_exact_refuted_orig.
Print Assumptions C10_success_is_exact_partial_orig.
Print Assumptions C10_continues_on_other_root_refuted_orig.
Print Assumptions C10_continues_two_roots_partial_orig.
Print Assumptions C10_grpc_abort_never_stored.
Print Assumptions C10_grpc_upload_exact.
Print Assumptions C10_grpc_reader_terminates.
Print Assumptions C10_grpc_reads_prefix.
Print Assumptions C10_grpc_abort_refuted_orig.
Print Assumptions C10_grpc_upload_exact_partial_orig.
