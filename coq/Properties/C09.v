(* C09 — Garbage collection and cleanup never change what anyone can read. *)
From Coq Require Import List NArith Bool.
From FsDb Require Import VList Core Spec CoreInv Refine SpecProps.
Import ListNotations.
Open Scope N_scope.

(* Running the collector (OGC) and the cleaner (ODrain) at any positions, any number of times,
   changes no result of any other operation of the history: the outputs at the positions of
   the other operations equal the outputs of the history with every OGC/ODrain removed. *)
Theorem C09_gc_transparent :
  forall ops, no_late_writes ops = true -> has_reopen ops = false ->
    outs_nongc ops (mrun ops) = mrun (strip_gc ops).
Proof. exact gc_transparent. Qed.

(* state level: a collection pass, and draining the cleaner queue, keep the model related to
   the SAME abstract state; hence every later read by every open transaction of every level
   and by autocommit callers is unchanged (C02_step_refines) *)
Theorem C09_gc_keeps_abstraction :
  forall m a, Inv m -> R m a -> R (gc m) a /\ Inv (gc m).
Proof. intros m a I HR. split; [apply gc_sim | apply gc_inv]; assumption. Qed.

Theorem C09_drain_keeps_abstraction :
  forall m a, Inv m -> R m a -> R (drain m) a /\ Inv (drain m).
Proof. intros m a I HR. split; [apply drain_sim | apply drain_inv]; assumption. Qed.

(* it never removes a content some permitted read could still return: in every related pair of
   states (in particular right after gc/drain, by the two theorems above) every read of the
   model finds the version and the content the abstract machine promises *)
Theorem C09_no_live_content_removed :
  forall m a x t k, Inv m -> R m a -> reader_rel m x t -> (x_id x = 0 -> x_lvl x = RC) ->
    read m x k = aread a t k.
Proof. exact read_refines. Qed.

Theorem C09_reads_after_gc :
  forall m a h k, Inv m -> R m a ->
    snd (mstep (gc m) (OGet h k)) = snd (astep a (OGet h k)) /\
    snd (mstep (drain (gc m)) (OGet h k)) = snd (astep a (OGet h k)) /\
    snd (mstep (gc m) (OKeys h)) = snd (astep a (OKeys h)).
Proof.
  intros m a h k I HR.
  destruct (C09_gc_keeps_abstraction m a I HR) as [R1 I1].
  destruct (C09_drain_keeps_abstraction (gc m) a I1 R1) as [R2 I2].
  assert (W1 : op_wf a (OGet h k)) by (split; [exact Logic.I | discriminate]).
  assert (W2 : op_wf a (OKeys h)) by (split; [exact Logic.I | discriminate]).
  split; [exact (proj1 (step_refines (gc m) a _ I1 R1 W1))|].
  split; [exact (proj1 (step_refines (drain (gc m)) a _ I2 R2 W1))|].
  exact (proj1 (step_refines (gc m) a _ I1 R1 W2)).
Qed.

(* the collector at every position of a history with snapshot transactions of different ages *)
Example C09_nonvacuous :
  let ops := [OSet 0 1 10; OBegin RR; OSet 0 1 11; OGC; OBegin SER; OSet 0 1 12; OGC; ODrain; OGet 1 1; OGet 2 1; OGet 0 1;
              OCommit 1; OGC; ODrain; OGet 2 1; OCommit 2; OGC; ODrain; OGet 0 1] in
  no_late_writes ops = true /\ has_reopen ops = false /\
  outs_nongc ops (mrun ops) =
    [OutUnit; OutHandle 1; OutUnit; OutHandle 2; OutUnit; OutVal 10; OutVal 11; OutVal 12; OutUnit; OutVal 11; OutUnit; OutVal 12].
Proof. vm_compute. repeat split. Qed.

Print Assumptions C09_gc_transparent.
Print Assumptions C09_gc_keeps_abstraction.
Print Assumptions C09_drain_keeps_abstraction.
Print Assumptions C09_no_live_content_removed.
Print Assumptions C09_reads_after_gc.
