(* C14 — Space of unreachable contents is reclaimed; the disk holds only live data. *)
From Coq Require Import List NArith Bool.
From FsDb Require Import VList Core Spec CoreInv Refine SpecProps CoreInvK Durable.
Import ListNotations.
Open Scope N_scope.

(* In every reachable state of a fault-free history (Full = the three invariants, preserved by
   every operation: C14_invariants_preserved), once all transactions have ended, after the
   background deletions have drained, one collection pass and another drain:
   - every key holds exactly its newest committed version and nothing else,
   - every remaining content belongs to the newest committed version of some key
     (overwritten, deleted, rolled-back, conflict-aborted and intra-transaction-superseded
      contents are gone),
   - the content of every newest committed version is still there, unchanged. *)
Theorem C14_quiescent_disk_exact :
  forall m, Full m -> m_reg m = [] ->
    let m' := drain (gc (drain m)) in
    (forall k, lget (m_all m') k = opt_list (latest_main m k)) /\
    (forall c x, aget (m_cont m') c = Some x ->
       exists k w, latest_main m k = Some w /\ v_cid w = c /\ aget (m_cont m) c = Some x) /\
    (forall k w x, latest_main m k = Some w -> aget (m_cont m) (v_cid w) = Some x ->
       aget (m_cont m') (v_cid w) = Some x).
Proof. exact quiescent_disk. Qed.

(* the same after a clean reopen, for everything that was pending at Close *)
Theorem C14_after_reopen :
  forall m, Full m ->
    let m1 := reopen (drain m) in
    let m' := drain (gc (drain m1)) in
    Full m1 /\ m_reg m1 = [] /\
    (forall c x, aget (m_cont m') c = Some x ->
       exists k w, latest_main m1 k = Some w /\ v_cid w = c /\ aget (m_cont m1) c = Some x).
Proof.
  intros m (I & KV & KC). cbn zeta.
  assert (Id := drain_inv m I). destruct (drain_invK m I KV KC) as [KVd KCd].
  assert (F1 : Full (reopen (drain m))) by exact (reopen_inv (drain m) Id KVd KCd).
  assert (Er : m_reg (reopen (drain m)) = []) by exact (proj1 (reopen_fields (m_seq (drain m)) (drain m))).
  split; [exact F1|]. split; [exact Er|].
  exact (proj1 (proj2 (quiescent_disk (reopen (drain m)) F1 Er))).
Qed.

Theorem C14_invariants_preserved :
  forall m a o, Full m -> R m a -> op_wf' a o -> Full (fst (mstep m o)).
Proof. intros m a o F HR W. exact (proj2 (proj2 (step_refines_full m a o F HR W))). Qed.

(* every content always belongs to a listed version or to a queued cleaner job: nothing leaks *)
Theorem C14_no_leak :
  forall m, Full m -> forall c x, aget (m_cont m) c = Some x ->
    (exists k v, In v (lget (m_all m) k) /\ v_cid v = c) \/
    (exists job d, In job (m_q m) /\ In d job /\ v_cid d = c).
Proof.
  intros m (_ & _ & KC) c x Hc. destruct (k_cont_live m [] KC c x Hc) as [H|[H|(d & [] & _)]]; auto.
Qed.

Example C14_nonvacuous :
  let ops := [OSet 0 1 1; OSet 0 1 2; OBegin RR; OSet 1 2 3; OSet 1 2 4; OBegin SER; OSet 2 1 5; OCommit 1; OCommit 2;
              OBegin RC; OSet 3 3 6; ORollback 3; ODel 0 2; OSet 0 3 7] in
  let m := mstate_after m_init ops in
  m_reg m = [] /\ map snd (m_cont (drain (gc (drain m)))) = [5; 7].
Proof. vm_compute. split; reflexivity. Qed.

Print Assumptions C14_quiescent_disk_exact.
Print Assumptions C14_after_reopen.
Print Assumptions C14_invariants_preserved.
Print Assumptions C14_no_leak.
