(* C15 — Concurrent use of one database is free of data races.
   A data race is a property of memory accesses in the compiled program; no executable model
   exhibits one.  What is logic is the locking discipline; that part is proved here, the rest is
   the Go race detector's (see the check and DESIGN.md C15).  PARTIAL by nature. *)
From Coq Require Import List NArith Bool String.
From FsDb Require Import Lockset.
From FsDb Require LockSkel LockSkelGen LockSkelCheck LockSkelConc.
Import ListNotations.
Open Scope N_scope.

(* the lock semantics never lets a writer share a lock with anyone *)
Theorem C15_mutual_exclusion :
  forall tr s, lrun [] tr = Some s ->
    forall a b, In a s -> In b s -> h_lock a = h_lock b -> h_tid a <> h_tid b -> h_mode a = MR /\ h_mode b = MR.
Proof. intros tr s H. exact (excl_reachable tr [] s excl_nil H). Qed.

(* for every assignment of locks to locations, every number of threads and every reachable state:
   two accesses made under the discipline (the thread holds the location's lock, in write mode for
   a write) never conflict *)
Theorem C15_lockset_sound :
  forall (L : N -> N) tr s a b,
    lrun [] tr = Some s -> protected L s a -> protected L s b -> ~ conflicting a b.
Proof. exact lockset_sound. Qed.

(* fs_db's access table (by reading) names a protection for every shared location class *)
Theorem C15_table_complete :
  forallb (fun x => existsb (fun p => N.eqb (fst p) x) fsdb_access_table) [1;2;3;4;5;6;7;8;9;10;11] = true.
Proof. exact every_location_class_is_listed. Qed.

Example C15_nonvacuous :
  exists s, lrun [] [EAcq 1 2 MR; EAcq 2 2 MR; EAcq 1 3 MW; ERel 2 2; ERel 1 2; EAcq 2 2 MW] = Some s /\
            lrun [] [EAcq 1 2 MR; EAcq 2 2 MW] = None.
Proof. eexists. split; reflexivity. Qed.

(* ---- tie of the step granularity to the source: the lock/effect skeleton of internal/usecase/core, regenerated
   from the Go source on every run (harness/lockskel.go -> LockSkelGen.v), satisfies the discipline of LockSkel.v *)
Theorem C15_lock_skeleton_ok :
  LockSkel.skeleton_ok LockSkelGen.skeleton = true /\ LockSkel.covers LockSkelGen.skeleton = true.
Proof. split; [exact LockSkelCheck.fsdb_skeleton_ok | exact LockSkelCheck.fsdb_skeleton_covers]. Qed.

(* in a checked path every mutation of a version store happens with its write lock held and every read with its lock
   held: the accesses of internal/usecase/core follow the discipline that C15_lockset_sound needs *)
Theorem C15_core_accesses_protected :
  forall r p q e h0 hend,
    LockSkel.run r h0 (p ++ e :: q) = Some hend ->
    exists h, LockSkel.run r h0 p = Some h /\
      match e with LockSkel.Wr l => LockSkel.holds_w h l = true | LockSkel.Rd l => LockSkel.holds h l = true | _ => True end.
Proof. exact LockSkel.accesses_protected. Qed.

(* from the per-operation discipline to threads: any number of threads, each running events that the discipline accepts
   for its own operation (rules rl t) on its own stores (sigma t maps the lock names of LockSkel to concrete stores; the
   all-store is shared), interleaved in ANY order that the lock semantics of Lockset.v allows: in every reachable
   configuration two different threads never have conflicting accesses (same concrete store, one of them a mutation)
   enabled together *)
Theorem C15_no_conflicting_accesses :
  forall (sigma : nat -> LockSkel.lk -> N) (rl : nat -> LockSkel.rules),
    (forall t l1 l2, sigma t l1 = sigma t l2 -> l1 = l2) ->
    forall tr g ta tb ea eb la lb wa wb,
      LockSkelConc.grun sigma rl LockSkelConc.ginit tr = Some g -> ta <> tb ->
      (exists g', LockSkelConc.gstep sigma rl g (ta, ea) = Some g') ->
      (exists g', LockSkelConc.gstep sigma rl g (tb, eb) = Some g') ->
      LockSkelConc.access_of ea = Some (la, wa) -> LockSkelConc.access_of eb = Some (lb, wb) ->
      sigma ta la = sigma tb lb -> wa = true \/ wb = true -> False.
Proof. intros sigma rl Hinj. exact (LockSkelConc.no_conflicting_accesses sigma Hinj rl). Qed.

Example C15_interleaving_nonvacuous :
  (forall t l1 l2, LockSkelConc.ex_sigma t l1 = LockSkelConc.ex_sigma t l2 -> l1 = l2) /\
  exists tr g, LockSkelConc.grun LockSkelConc.ex_sigma (fun _ => LockSkel.rules_of "Store"%string) LockSkelConc.ginit tr = Some g /\
               tr <> [] /\ fst g <> [].
Proof.
  split; [exact LockSkelConc.ex_sigma_inj|].
  exists [(1, LockSkel.Acq LockSkel.LTx true); (1, LockSkel.Acq LockSkel.LAll true); (2, LockSkel.Acq LockSkel.LTx true)]%nat.
  eexists. split; [vm_compute; reflexivity|]. split; discriminate.
Qed.

Print Assumptions C15_mutual_exclusion.
Print Assumptions C15_lockset_sound.
Print Assumptions C15_table_complete.
Print Assumptions C15_lock_skeleton_ok.
Print Assumptions C15_core_accesses_protected.
Print Assumptions C15_no_conflicting_accesses.
