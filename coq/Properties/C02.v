(* C02 — Each isolation level shows a transaction exactly the versions it promises.
   Statements only.  [mrun] is the faithful model of fs_db (Core.v), [arun] the
   abstract machine (Spec.v) whose read rules are the property's clauses. *)
From Coq Require Import List NArith Bool Sorted.
From FsDb Require Import VList VListProofs Core Spec CoreInv Refine SpecProps.
Import ListNotations.
Open Scope N_scope.

(* Every sequential interleaving of Begin/Set/Delete/Get/GetKeys/Commit/Rollback over any
   number of simultaneously open transactions of any levels plus autocommit callers, with the
   collector (OGC) and the cleaner (ODrain) at any position: the model answers exactly as the
   abstract machine.  Hypothesis: no write through a handle that is not open (that is C13's
   finding D7) and no Reopen (C05). *)
Theorem C02_reads_refine :
  forall ops, no_late_writes ops = true -> has_reopen ops = false -> mrun ops = arun ops.
Proof. exact model_refines_spec. Qed.

(* one step, from any reachable pair of states *)
Theorem C02_step_refines :
  forall m a o, Inv m -> R m a -> op_wf a o ->
    snd (mstep m o) = snd (astep a o) /\ R (fst (mstep m o)) (fst (astep a o)) /\ Inv (fst (mstep m o)).
Proof. exact step_refines. Qed.

(* the abstract machine's read rules, clause by clause *)
Theorem C02_RU_reads_latest_live :
  forall a t k, t_lvl t = RU -> aread a t k = last_val (alget (a_vers a) k).
Proof. intros a t k H. unfold aread. rewrite H. reflexivity. Qed.

Theorem C02_RC_reads_newer_of_own_and_committed :
  forall a t k, t_lvl t = RC ->
    aread a t k = last_val (filter (fun e => committed e || owned_by (t_id t) e) (alget (a_vers a) k)).
Proof. intros a t k H. unfold aread. rewrite H. reflexivity. Qed.

Theorem C02_RR_reads_own_else_snapshot :
  forall a t k, t_lvl t = RR \/ t_lvl t = SER ->
    aread a t k = match last_opt (filter (owned_by (t_id t)) (alget (a_vers a) k)) with
                  | Some e => a_val e
                  | None => snap_val t k
                  end.
Proof. intros a t k [H|H]; unfold aread; rewrite H; reflexivity. Qed.

(* the snapshot is the committed view at Begin *)
Theorem C02_snapshot_is_committed_view_at_begin :
  forall a l k,
    let a' := fst (astep a (OBegin l)) in
    exists t, In t (a_open a') /\ t_id t = a_nexttx a /\ t_lvl t = l /\
              snap_val t k = committed_val (alget (a_vers a) k).
Proof.
  intros a l k a'. eexists. split; [cbn; apply in_or_app; right; left; reflexivity|].
  split; [reflexivity|]. split; [reflexivity|]. unfold snap_val. cbn [t_snap].
  rewrite (CoreLemmas.aget_map_snd (fun _ l0 => committed_val l0)). unfold alget.
  destruct (aget (a_vers a) k); reflexivity.
Qed.

(* a deleted value (a version whose value is None) reads as not found, at every level,
   by the transaction that deleted it (autocommit callers read as ReadCommitted) *)
Theorem C02_deleted_is_notfound :
  forall a t k, (t_id t = 0 -> t_lvl t = RC) ->
    aread (awrite a (t_id t) k None) t k = None.
Proof.
  intros a t k Hauto. unfold aread. rewrite awrite_vers, N.eqb_refl.
  assert (L : forall (l : list aver) e, last_val (l ++ [e]) = a_val e).
  { intros l e. unfold last_val. rewrite (VListProofs.last_opt_snoc aver). reflexivity. }
  destruct (N.eqb_spec (t_id t) 0) as [E|E].
  - rewrite (Hauto E). rewrite filter_app. cbn [filter]. unfold committed at 2. cbn [a_owner N.eqb orb]. apply L.
  - destruct (t_lvl t).
    + apply L.
    + rewrite filter_app. cbn [filter]. unfold owned_by at 2. cbn [a_owner]. rewrite N.eqb_refl, orb_true_r. apply L.
    + rewrite filter_app. cbn [filter]. unfold owned_by at 2. cbn [a_owner]. rewrite N.eqb_refl.
      rewrite (VListProofs.last_opt_snoc aver). reflexivity.
    + rewrite filter_app. cbn [filter]. unfold owned_by at 2. cbn [a_owner]. rewrite N.eqb_refl.
      rewrite (VListProofs.last_opt_snoc aver). reflexivity.
Qed.

(* GetKeys lists, sorted and without duplicates, exactly the keys whose Get succeeds *)
Theorem C02_keys_agree_with_get :
  forall a t k, NoDup (map fst (a_vers a)) ->
    Sorted N.le (akeys a t) /\ NoDup (akeys a t) /\
    (In k (akeys a t) <-> In k (map fst (a_vers a)) /\ exists v, aread a t k = Some v).
Proof. exact akeys_spec. Qed.

Theorem C02_unknown_key_not_found :
  forall a t k, alget (a_vers a) k = [] -> snap_val t k = None -> aread a t k = None.
Proof. exact aread_unknown_key. Qed.

(* reads outside any transaction behave as ReadCommitted with no own writes *)
Theorem C02_autocommit_is_RC_without_writes :
  forall a, areader a 0 = Some (mkatx 0 RC [] []) /\
            forall k, aread a (mkatx 0 RC [] []) k = committed_val (alget (a_vers a) k).
Proof.
  intros a. split; [reflexivity|]. intros k. unfold aread, committed_val. cbn [t_lvl t_id].
  f_equal. apply filter_ext. intros e. unfold owned_by, committed. apply orb_diag.
Qed.

(* non-vacuity: a history with three levels, a delete, GC in the middle, meeting the hypotheses *)
Example C02_nonvacuous :
  let ops := [OSet 0 1 10; OBegin RR; OBegin RU; OBegin RC; OSet 3 1 11; OGC; OGet 1 1; OGet 2 1; OGet 3 1; OGet 0 1;
              ODel 0 2; OCommit 3; OGC; ODrain; OGet 1 1; OGet 2 1; OKeys 1; OKeys 0; OCommit 1] in
  no_late_writes ops = true /\ has_reopen ops = false /\
  mrun ops = [OutUnit; OutHandle 1; OutHandle 2; OutHandle 3; OutUnit; OutUnit; OutVal 10; OutVal 11; OutVal 11; OutVal 10;
              OutUnit; OutUnit; OutUnit; OutUnit; OutVal 10; OutVal 11; OutKeys [1]; OutKeys [1]; OutUnit].
Proof. vm_compute. repeat split. Qed.

Print Assumptions C02_reads_refine.
Print Assumptions C02_step_refines.
Print Assumptions C02_RU_reads_latest_live.
Print Assumptions C02_RC_reads_newer_of_own_and_committed.
Print Assumptions C02_RR_reads_own_else_snapshot.
Print Assumptions C02_snapshot_is_committed_view_at_begin.
Print Assumptions C02_deleted_is_notfound.
Print Assumptions C02_keys_agree_with_get.
Print Assumptions C02_unknown_key_not_found.
Print Assumptions C02_autocommit_is_RC_without_writes.
