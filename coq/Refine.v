(* Refinement: the Core model (Core.v) implements the abstract machine (Spec.v)
   on every sequential history without Reopen in which no write goes through a
   handle that is not open. *)
From Coq Require Import List NArith Bool Lia Sorted.
From FsDb Require Import VList VListProofs Core Spec CoreLemmas CoreInv.
Import ListNotations.
Open Scope N_scope.

(* ---------- the abstraction ---------- *)
Definition entry (m : mstate) (v : ver) : aver := mkaver (v_tx v) (aget (m_cont m) (v_cid v)).

(* keep the uncommitted versions and the newest committed one *)
Definition vkeep (l : list ver) (v : ver) : bool :=
  negb (is_main v) ||
  match last_opt (filter is_main l) with Some w => N.eqb (v_seq v) (v_seq w) | None => false end.
Definition vprune (l : list ver) : list ver := filter (vkeep l) l.

Definition absk (m : mstate) (k : N) : list aver := map (entry m) (vprune (lget (m_all m) k)).

Definition snap_of (m : mstate) (x : txrec) (k : N) : option N :=
  read_version m (last_before_spec v_seq (filter is_main (lget (m_all m) k)) (x_seq x)).

Definition dirty_of (m : mstate) (x : txrec) (k : N) : Prop :=
  exists w, last_opt (filter is_main (lget (m_all m) k)) = Some w /\ x_seq x < v_seq w.

Definition tx_rel (m : mstate) (x : txrec) (t : atx) : Prop :=
  t_id t = x_id x /\ t_lvl t = x_lvl x /\
  (forall k, snap_val t k = snap_of m x k) /\
  (forall k, existsb (N.eqb k) (t_dirty t) = true <-> dirty_of m x k).

Record R (m : mstate) (a : astate) : Prop := mkR {
  r_keys : map fst (a_vers a) = map fst (m_all m);
  r_vers : forall k, alget (a_vers a) k = absk m k;
  r_open : Forall2 (tx_rel m) (m_reg m) (a_open a);
  r_next : a_nexttx a = m_nexttx m
}.

(* ---------- list lemmas ---------- *)
Lemma filter_map_comm {A B} (f : A -> B) (p : B -> bool) (l : list A) :
  filter p (map f l) = map f (filter (fun x => p (f x)) l).
Proof.
  induction l as [|x l IH]; simpl; [reflexivity|].
  destruct (p (f x)); simpl; rewrite IH; reflexivity.
Qed.

Lemma last_filter_sub {A} (p q : A -> bool) (l : list A) :
  (forall v, last_opt (filter p l) = Some v -> q v = true) ->
  last_opt (filter p (filter q l)) = last_opt (filter p l).
Proof.
  induction l as [|x l IH] using rev_ind; intros H; [reflexivity|].
  rewrite (last_opt_filter_app p l x) in H. rewrite (last_opt_filter_app p l x).
  rewrite (filter_app q). cbn [filter].
  destruct (p x) eqn:Px.
  - rewrite (H x eq_refl). rewrite last_opt_filter_app, Px. reflexivity.
  - destruct (q x).
    + rewrite last_opt_filter_app, Px. apply IH. exact H.
    + rewrite app_nil_r. apply IH. exact H.
Qed.

Lemma sorted_snoc_inv (l : list ver) x :
  vsorted (l ++ [x]) -> vsorted l /\ forall y, In y l -> v_seq y < v_seq x.
Proof.
  intros H. apply sorted_app_inv in H. destruct H as (H1 & _ & H3).
  split; [exact H1|]. intros y Hy. apply H3; [exact Hy | left; reflexivity].
Qed.

Lemma last_filter_seq_lt (p : ver -> bool) (l : list ver) x y :
  (forall z, In z l -> v_seq z < v_seq x) -> last_opt (filter p l) = Some y -> v_seq y < v_seq x.
Proof.
  intros H E. apply last_opt_In in E. apply filter_In in E. apply H. tauto.
Qed.

(* the newer (by sequence) of the last p-element and the last q-element is the last (q or p)-element *)
Lemma ver_latest_merge (p q : ver -> bool) (l : list ver) :
  vsorted l ->
  ver_latest (last_opt (filter p l)) (last_opt (filter q l)) =
  last_opt (filter (fun v => q v || p v) l).
Proof.
  induction l as [|x l IH] using rev_ind; intros Hs; [reflexivity|].
  apply sorted_snoc_inv in Hs. destruct Hs as [Hs Hlt].
  rewrite !last_opt_filter_app.
  destruct (p x) eqn:Px, (q x) eqn:Qx; cbn [orb].
  - cbn [ver_latest]. rewrite N.ltb_irrefl. reflexivity.
  - destruct (last_opt (filter q l)) as [y|] eqn:E; cbn [ver_latest]; [|reflexivity].
    assert (Hy := last_filter_seq_lt q l x y Hlt E).
    destruct (N.ltb_spec (v_seq y) (v_seq x)); [reflexivity | lia].
  - destruct (last_opt (filter p l)) as [y|] eqn:E; cbn [ver_latest]; [|reflexivity].
    assert (Hy := last_filter_seq_lt p l x y Hlt E).
    destruct (N.ltb_spec (v_seq x) (v_seq y)); [lia | reflexivity].
  - apply IH. exact Hs.
Qed.

(* ---------- vprune ---------- *)
Lemma filter_main_sub (p : ver -> bool) (l : list ver) :
  (forall v, is_main v = true -> p v = true) -> filter is_main (filter p l) = filter is_main l.
Proof.
  intros H. rewrite filter_filter. apply filter_ext. intros v.
  destruct (is_main v) eqn:E; [rewrite (H v E); reflexivity | apply andb_false_r].
Qed.

Lemma vprune_last_filter (p : ver -> bool) (l : list ver) :
  (forall v, is_main v = true -> p v = true) ->
  last_opt (filter p (vprune l)) = last_opt (filter p l).
Proof.
  intros Hp. unfold vprune. apply last_filter_sub. intros v Hv.
  unfold vkeep. destruct (is_main v) eqn:Em; [|reflexivity]. cbn [negb orb].
  rewrite <- (filter_main_sub p l Hp).
  apply last_opt_some in Hv. rewrite Hv, last_opt_filter_app, Em, N.eqb_refl. reflexivity.
Qed.

Lemma vprune_last_filter_nonmain (p : ver -> bool) (l : list ver) :
  (forall v, p v = true -> is_main v = false) ->
  last_opt (filter p (vprune l)) = last_opt (filter p l).
Proof.
  intros Hp. unfold vprune. apply last_filter_sub. intros v Hv.
  apply last_opt_In in Hv. apply filter_In in Hv. destruct Hv as [_ Hv].
  unfold vkeep. rewrite (Hp v Hv). reflexivity.
Qed.

Lemma vprune_last (l : list ver) : last_opt (vprune l) = last_opt l.
Proof.
  assert (H := vprune_last_filter (fun _ => true) l (fun _ _ => eq_refl)).
  rewrite !filter_true in H by reflexivity. exact H.
Qed.

Lemma vkeep_ext (l l' : list ver) :
  last_opt (filter is_main l) = last_opt (filter is_main l') -> forall v, vkeep l v = vkeep l' v.
Proof. intros E v. unfold vkeep. rewrite E. reflexivity. Qed.

Lemma vprune_nonmain (l : list ver) :
  filter (fun v => negb (is_main v)) (vprune l) = filter (fun v => negb (is_main v)) l.
Proof.
  unfold vprune. rewrite filter_filter. apply filter_ext. intros v. unfold vkeep.
  destruct (is_main v); cbn; [apply andb_false_r | reflexivity].
Qed.

(* pushing a non-committed version *)
Lemma vprune_snoc_nonmain (l : list ver) x :
  is_main x = false -> vprune (l ++ [x]) = vprune l ++ [x].
Proof.
  intros Hx. unfold vprune. rewrite filter_app. cbn [filter].
  assert (E : last_opt (filter is_main (l ++ [x])) = last_opt (filter is_main l))
    by (rewrite last_opt_filter_app, Hx; reflexivity).
  rewrite (filter_ext _ _ (vkeep_ext _ _ E)).
  unfold vkeep at 2. rewrite Hx. reflexivity.
Qed.

(* pushing a committed version with a larger number than everything in the list *)
Lemma vprune_snoc_main (l : list ver) x :
  is_main x = true -> (forall y, In y l -> v_seq y < v_seq x) ->
  vprune (l ++ [x]) = filter (fun v => negb (is_main v)) l ++ [x].
Proof.
  intros Hx Hlt. unfold vprune. rewrite filter_app. cbn [filter].
  assert (E : last_opt (filter is_main (l ++ [x])) = Some x)
    by (rewrite last_opt_filter_app, Hx; reflexivity).
  f_equal.
  - apply filter_ext_in. intros v Hv. unfold vkeep. rewrite E.
    destruct (N.eqb_spec (v_seq v) (v_seq x)) as [Heq|]; [|apply orb_false_r].
    specialize (Hlt v Hv). lia.
  - unfold vkeep. rewrite E, N.eqb_refl, orb_true_r. reflexivity.
Qed.

(* removing versions of a non-main owner, or committed versions that are not the newest one *)
Lemma vprune_filter_keepmain (q : ver -> bool) (l : list ver) :
  last_opt (filter is_main (filter q l)) = last_opt (filter is_main l) ->
  vprune (filter q l) = filter q (vprune l).
Proof.
  intros E. unfold vprune. rewrite (filter_ext _ _ (vkeep_ext _ _ E)). apply filter_comm.
Qed.

(* ---------- aver-level accessors ---------- *)
Lemma alget_aset s k k' l : alget (aset s k l) k' = if N.eqb k' k then l else alget s k'.
Proof. unfold alget. rewrite aget_aset. destruct (N.eqb k' k); reflexivity. Qed.

Lemma alget_map_snd (f : N -> list aver -> list aver) s k :
  f k [] = [] ->
  alget (map (fun p => (fst p, f (fst p) (snd p))) s) k = f k (alget s k).
Proof.
  intros Hnil. unfold alget. rewrite aget_map_snd. destruct (aget s k); auto.
Qed.

Lemma entry_committed m v : committed (entry m v) = is_main v.
Proof. reflexivity. Qed.
Lemma entry_owned m h v : owned_by h (entry m v) = owned h v.
Proof. reflexivity. Qed.

Lemma last_val_map_entry m (l : list ver) :
  last_val (map (entry m) l) = read_version m (last_opt l).
Proof.
  unfold last_val. rewrite last_opt_map. destruct (last_opt l); reflexivity.
Qed.

(* ---------- reads ---------- *)
Definition reader_rel (m : mstate) (x : txrec) (t : atx) : Prop :=
  t_id t = x_id x /\ t_lvl t = x_lvl x /\
  (x_id x <> 0 -> In x (m_reg m) /\ forall k, snap_val t k = snap_of m x k).

Lemma read_refines m a x t k :
  Inv m -> R m a -> reader_rel m x t -> (x_id x = 0 -> x_lvl x = RC) ->
  read m x k = aread a t k.
Proof.
  intros I HR (Eid & Elvl & Hreg) Hauto.
  unfold read, aread, find_version. rewrite Elvl, Eid, (r_vers m a HR k). unfold absk.
  set (l := lget (m_all m) k).
  assert (Hs : vsorted l) by apply (inv_sorted m I).
  destruct (x_lvl x) eqn:El.
  - (* ReadUncommitted *)
    rewrite last_val_map_entry, vprune_last. reflexivity.
  - (* ReadCommitted *)
    rewrite !(inv_stores m I). fold l.
    change (owned 0) with is_main.
    rewrite (ver_latest_merge (owned (x_id x)) is_main l Hs).
    rewrite filter_map_comm. rewrite last_val_map_entry.
    f_equal. symmetry.
    apply (vprune_last_filter (fun v => committed (entry m v) || owned_by (x_id x) (entry m v))).
    intros v Hv. rewrite entry_committed, Hv. reflexivity.
  - (* RepeatableRead *)
    assert (Hid : x_id x <> 0) by (intros E; specialize (Hauto E); congruence).
    destruct (Hreg Hid) as [Hin Hsnap].
    rewrite !(inv_stores m I). fold l. change (owned 0) with is_main.
    rewrite filter_map_comm, last_opt_map.
    rewrite (vprune_last_filter_nonmain (fun v => owned_by (x_id x) (entry m v)) l).
    2:{ intros v Hv. rewrite entry_owned in Hv. unfold owned in Hv. unfold is_main.
        apply N.eqb_eq in Hv. rewrite Hv. apply N.eqb_neq. exact Hid. }
    change (fun v => owned_by (x_id x) (entry m v)) with (owned (x_id x)).
    destruct (last_opt (filter (owned (x_id x)) l)) as [v|] eqn:Eown.
    + assert (Hv := last_opt_In _ _ _ Eown). apply filter_In in Hv. destruct Hv as [Hv Ho].
      unfold owned in Ho. apply N.eqb_eq in Ho.
      destruct (inv_begin m I x k v Hin Hv) as [_ Hlt]. specialize (Hlt Ho).
      destruct (last_before_spec v_seq (filter is_main l) (x_seq x)) as [y|] eqn:Ey; cbn [ver_latest].
      * apply lbs_some_inv in Ey. destruct Ey as [_ Ey].
        destruct (N.ltb_spec (v_seq y) (v_seq v)); [reflexivity | lia].
      * reflexivity.
    + cbn [ver_latest]. rewrite Hsnap. reflexivity.
  - (* Serializable = RepeatableRead *)
    assert (Hid : x_id x <> 0) by (intros E; specialize (Hauto E); congruence).
    destruct (Hreg Hid) as [Hin Hsnap].
    rewrite !(inv_stores m I). fold l. change (owned 0) with is_main.
    rewrite filter_map_comm, last_opt_map.
    rewrite (vprune_last_filter_nonmain (fun v => owned_by (x_id x) (entry m v)) l).
    2:{ intros v Hv. rewrite entry_owned in Hv. unfold owned in Hv. unfold is_main.
        apply N.eqb_eq in Hv. rewrite Hv. apply N.eqb_neq. exact Hid. }
    change (fun v => owned_by (x_id x) (entry m v)) with (owned (x_id x)).
    destruct (last_opt (filter (owned (x_id x)) l)) as [v|] eqn:Eown.
    + assert (Hv := last_opt_In _ _ _ Eown). apply filter_In in Hv. destruct Hv as [Hv Ho].
      unfold owned in Ho. apply N.eqb_eq in Ho.
      destruct (inv_begin m I x k v Hin Hv) as [_ Hlt]. specialize (Hlt Ho).
      destruct (last_before_spec v_seq (filter is_main l) (x_seq x)) as [y|] eqn:Ey; cbn [ver_latest].
      * apply lbs_some_inv in Ey. destruct Ey as [_ Ey].
        destruct (N.ltb_spec (v_seq y) (v_seq v)); [reflexivity | lia].
      * reflexivity.
    + cbn [ver_latest]. rewrite Hsnap. reflexivity.
Qed.

(* ---------- transfer of R between model states ---------- *)
Lemma Forall2_impl_in {A B} (P Q : A -> B -> Prop) l l' :
  (forall x y, In x l -> In y l' -> P x y -> Q x y) -> Forall2 P l l' -> Forall2 Q l l'.
Proof.
  intros H F. induction F as [|x y l l' Hxy F IH]; constructor.
  - apply H; [left; reflexivity | left; reflexivity | exact Hxy].
  - apply IH. intros a b Ha Hb. apply H; right; assumption.
Qed.

Lemma In_vprune l v : In v (vprune l) -> In v l.
Proof. unfold vprune. intros H. apply filter_In in H. tauto. Qed.

Lemma lbs_In_main l b w :
  last_before_spec v_seq (filter is_main l) b = Some w -> In w l.
Proof. intros H. apply lbs_some_inv in H. destruct H as [H _]. apply filter_In in H. tauto. Qed.

Lemma R_ext m m' a :
  m_all m' = m_all m -> m_reg m' = m_reg m -> m_nexttx m' = m_nexttx m ->
  (forall k v, In v (lget (m_all m) k) -> aget (m_cont m') (v_cid v) = aget (m_cont m) (v_cid v)) ->
  R m a -> R m' a.
Proof.
  intros Ea Er En Ec HR. constructor.
  - rewrite Ea. apply (r_keys m a HR).
  - intros k. rewrite (r_vers m a HR k). unfold absk. rewrite Ea.
    apply map_ext_in. intros v Hv. apply In_vprune in Hv. unfold entry. rewrite (Ec k v Hv). reflexivity.
  - rewrite Er. eapply Forall2_impl_in; [|apply (r_open m a HR)].
    intros x t _ _ (H1 & H2 & H3 & H4). repeat split; try assumption.
    + intros k. rewrite (H3 k). unfold snap_of. rewrite Ea.
      destruct (last_before_spec v_seq (filter is_main (lget (m_all m) k)) (x_seq x)) as [w|] eqn:E; [|reflexivity].
      cbn [read_version]. symmetry. apply (Ec k). eapply lbs_In_main. exact E.
    + intros Hd. apply H4 in Hd. unfold dirty_of in *. rewrite Ea. exact Hd.
    + intros Hd. apply H4. unfold dirty_of in *. rewrite Ea in Hd. exact Hd.
  - rewrite En. apply (r_next m a HR).
Qed.

(* ---------- pushing a version = writing in the spec ---------- *)
Lemma keys_aset_mem {V W} (s : list (N * V)) (s' : list (N * W)) k v w :
  map fst s = map fst s' -> map fst (aset s k v) = map fst (aset s' k w).
Proof. intros E. rewrite !keys_aset, E. reflexivity. Qed.

Lemma awrite_keys a h k v :
  map fst (a_vers (awrite a h k v)) =
  if existsb (N.eqb k) (map fst (a_vers a)) then map fst (a_vers a) else map fst (a_vers a) ++ [k].
Proof.
  unfold awrite, install_committed. destruct (N.eqb h 0); cbn [a_vers]; apply keys_aset.
Qed.

Lemma awrite_vers a h k v k' :
  alget (a_vers (awrite a h k v)) k' =
  if N.eqb k' k
  then (if N.eqb h 0 then filter (fun e => negb (committed e)) (alget (a_vers a) k) ++ [mkaver 0 v]
        else alget (a_vers a) k ++ [mkaver h v])
  else alget (a_vers a) k'.
Proof.
  unfold awrite, install_committed. destruct (N.eqb h 0); cbn [a_vers]; rewrite alget_aset; reflexivity.
Qed.

Lemma awrite_open a h k v :
  a_open (awrite a h k v) = if N.eqb h 0 then mark_dirty [k] (a_open a) else a_open a.
Proof. unfold awrite. destruct (N.eqb h 0); reflexivity. Qed.

Lemma awrite_next a h k v : a_nexttx (awrite a h k v) = a_nexttx a.
Proof. unfold awrite. destruct (N.eqb h 0); reflexivity. Qed.

Lemma Forall2_map_r {A B C} (P : A -> C -> Prop) (g : B -> C) l l' :
  Forall2 (fun x y => P x (g y)) l l' -> Forall2 P l (map g l').
Proof. induction 1; constructor; assumption. Qed.

Lemma push_sim m a h k cid :
  Inv m -> R m a -> registered m h ->
  R (push_version m h k cid) (awrite a h k (aget (m_cont m) cid)).
Proof.
  intros I HR Hreg.
  set (nv := new_ver m h k cid).
  assert (Hlt : forall y, In y (lget (m_all m) k) -> v_seq y < v_seq nv).
  { intros y Hy. destruct (inv_range m I _ _ Hy) as (_ & Hle & _). cbn. lia. }
  assert (Hmain_nv : is_main nv = N.eqb h 0) by reflexivity.
  constructor.
  - rewrite awrite_keys, push_version_keys, (r_keys m a HR). reflexivity.
  - intros k'. rewrite awrite_vers. unfold absk. rewrite push_version_all.
    assert (Eentry : forall v, entry (push_version m h k cid) v = entry m v) by reflexivity.
    rewrite (map_ext _ _ Eentry).
    destruct (N.eqb_spec k' k) as [->|Hk]; [|apply (r_vers m a HR k')].
    fold nv. rewrite (r_vers m a HR k). unfold absk.
    destruct (N.eqb_spec h 0) as [Hh|Hh].
    + rewrite vprune_snoc_main by (first [exact Hlt | exact Hmain_nv]).
      rewrite map_app. cbn [map]. f_equal.
      * rewrite filter_map_comm. f_equal.
        rewrite <- (vprune_nonmain (lget (m_all m) k)). reflexivity.
      * unfold entry, nv. cbn. rewrite Hh. reflexivity.
    + rewrite vprune_snoc_nonmain by exact Hmain_nv.
      rewrite map_app. reflexivity.
  - (* open transactions *)
    rewrite awrite_open.
    assert (Hstep : forall x t, In x (m_reg m) -> tx_rel m x t ->
              tx_rel (push_version m h k cid)
                     x (if N.eqb h 0 then mkatx (t_id t) (t_lvl t) (t_snap t) ([k] ++ t_dirty t) else t)).
    { intros x t Hx (H1 & H2 & H3 & H4).
      destruct (inv_reg_range m I x Hx) as (_ & Hb & _).
      assert (Hsnap : forall k', snap_of (push_version m h k cid) x k' = snap_of m x k').
      { intros k'. unfold snap_of. rewrite push_version_all.
        destruct (N.eqb_spec k' k) as [->|]; [|reflexivity].
        rewrite filter_app, lbs_app. fold nv. cbn [filter].
        assert (Enone : last_before_spec v_seq (if is_main nv then [nv] else []) (x_seq x) = None).
        { destruct (is_main nv); [|reflexivity]. cbn.
          destruct (N.ltb_spec (N.succ (m_seq m)) (x_seq x)); [lia | reflexivity]. }
        rewrite Enone. reflexivity. }
      assert (Hdirty : forall k', dirty_of (push_version m h k cid) x k' <->
                                  ((h = 0 /\ k' = k) \/ dirty_of m x k')).
      { intros k'. unfold dirty_of. rewrite push_version_all.
        destruct (N.eqb_spec k' k) as [->|Hk'].
        - rewrite last_opt_filter_app. fold nv. rewrite Hmain_nv.
          destruct (N.eqb_spec h 0) as [Hh|Hh].
          + split; [intros _; left; auto|]. intros _. exists nv. split; [reflexivity|]. cbn. lia.
          + split; [intros H; right; exact H|]. intros [[Hc _]|H]; [contradiction | exact H].
        - split; [intros H; right; exact H|]. intros [[_ Hc]|H]; [contradiction | exact H]. }
      destruct (N.eqb_spec h 0) as [Hh|Hh].
      - repeat split; cbn [t_id t_lvl t_snap t_dirty]; try assumption.
        + intros k'. rewrite Hsnap. apply H3.
        + intros Hd. apply Hdirty. cbn [existsb app] in Hd. apply orb_true_iff in Hd.
          destruct Hd as [Hd|Hd]; [left; apply N.eqb_eq in Hd; auto | right; apply H4; exact Hd].
        + intros Hd. apply Hdirty in Hd. cbn [existsb app]. apply orb_true_iff.
          destruct Hd as [[_ ->]|Hd]; [left; apply N.eqb_refl | right; apply H4; exact Hd].
      - repeat split; try assumption.
        + intros k'. rewrite Hsnap. apply H3.
        + intros Hd. apply Hdirty. right. apply H4. exact Hd.
        + intros Hd. apply Hdirty in Hd. destruct Hd as [[Hc _]|Hd]; [contradiction | apply H4; exact Hd]. }
    change (m_reg (push_version m h k cid)) with (m_reg m).
    destruct (N.eqb h 0) eqn:Eh.
    + unfold mark_dirty. apply Forall2_map_r.
      eapply Forall2_impl_in; [|apply (r_open m a HR)].
      intros x t Hx _ Hrel. specialize (Hstep x t Hx Hrel). exact Hstep.
    + eapply Forall2_impl_in; [|apply (r_open m a HR)].
      intros x t Hx _ Hrel. specialize (Hstep x t Hx Hrel). exact Hstep.
  - rewrite awrite_next. apply (r_next m a HR).
Qed.

(* ---------- allocating a content id / storing content (Set, Delete) ---------- *)
Lemma alloc_sim m a v :
  Inv m -> R m a ->
  R (set_cont (set_nextcid m (N.succ (m_nextcid m))) (aset (m_cont m) (m_nextcid m) v)) a.
Proof.
  intros I HR. apply (R_ext m); try reflexivity; [|exact HR].
  intros k x Hx. cbn [m_cont set_cont]. rewrite aget_aset.
  destruct (inv_range m I _ _ Hx) as (_ & _ & _ & Hlt).
  destruct (N.eqb_spec (v_cid x) (m_nextcid m)); [lia | reflexivity].
Qed.

Lemma bump_sim m a : R m a -> R (set_nextcid m (N.succ (m_nextcid m))) a.
Proof. intros HR. apply (R_ext m); try reflexivity. exact HR. Qed.

(* ---------- begin ---------- *)
Lemma committed_val_absk m k :
  committed_val (absk m k) = read_version m (last_opt (filter is_main (lget (m_all m) k))).
Proof.
  unfold committed_val, absk. rewrite filter_map_comm, last_val_map_entry. f_equal.
  apply (vprune_last_filter (fun v => committed (entry m v))). intros v Hv. exact Hv.
Qed.

Lemma lbs_above_all (l : list ver) b :
  (forall y, In y l -> v_seq y < b) -> last_before_spec v_seq l b = last_opt l.
Proof.
  induction l as [|x l IH] using rev_ind; intros H; [reflexivity|].
  rewrite lbs_app, last_opt_snoc. cbn.
  destruct (N.ltb_spec (v_seq x) b) as [_|Hge]; [reflexivity|].
  assert (Hx : In x (l ++ [x])) by (apply in_or_app; right; left; reflexivity).
  specialize (H x Hx). lia.
Qed.

Lemma Forall2_snoc {A B} (P : A -> B -> Prop) l l' x y :
  Forall2 P l l' -> P x y -> Forall2 P (l ++ [x]) (l' ++ [y]).
Proof. intros F H. apply Forall2_app; [exact F | repeat constructor; exact H]. Qed.

Lemma begin_sim m a l :
  Inv m -> R m a ->
  R (begin_state m l)
    (mka (a_vers a)
         (a_open a ++ [mkatx (a_nexttx a) l (map (fun p => (fst p, committed_val (snd p))) (a_vers a)) []])
         (N.succ (a_nexttx a))).
Proof.
  intros I HR. constructor; cbn [a_vers a_open a_nexttx].
  - apply (r_keys m a HR).
  - intros k. rewrite (r_vers m a HR k). reflexivity.
  - cbn [begin_state m_reg set_reg set_nexttx set_seq].
    apply Forall2_snoc.
    + eapply Forall2_impl_in; [|apply (r_open m a HR)].
      intros x t _ _ (H1 & H2 & H3 & H4). repeat split; try assumption.
      * intros Hd. apply H4 in Hd. exact Hd.
      * intros Hd. apply H4. exact Hd.
    + repeat split; cbn [t_id t_lvl t_snap t_dirty x_id x_lvl x_seq].
      * apply (r_next m a HR).
      * intros k. unfold snap_val, snap_of. cbn [x_seq t_snap].
        change (lget (m_all (begin_state m l)) k) with (lget (m_all m) k).
        rewrite (aget_map_snd (fun _ l0 => committed_val l0)).
        rewrite lbs_above_all.
        2:{ intros y Hy. apply filter_In in Hy. destruct Hy as [Hy _].
            destruct (inv_range m I _ _ Hy) as (_ & Hle & _). lia. }
        assert (E := r_vers m a HR k). unfold alget in E.
        destruct (aget (a_vers a) k) as [l0|] eqn:Eg.
        -- rewrite E. rewrite committed_val_absk. reflexivity.
        -- (* key unknown to the spec: the model has no versions of it either *)
           symmetry in E. unfold absk in E. apply map_eq_nil in E.
           assert (Hl : lget (m_all m) k = []).
           { destruct (lget (m_all m) k) as [|y l1] eqn:El; [reflexivity|]. exfalso.
             assert (Hlast := vprune_last (y :: l1)). rewrite E in Hlast.
             rewrite last_opt_cons in Hlast. destruct (last_opt l1); discriminate. }
           rewrite Hl. reflexivity.
      * cbn. discriminate.
      * intros (w & Hw & Hlt). exfalso.
        change (lget (m_all (begin_state m l)) k) with (lget (m_all m) k) in Hw.
        apply last_opt_In in Hw. apply filter_In in Hw. destruct Hw as [Hw _].
        destruct (inv_range m I _ _ Hw) as (_ & Hle & _). cbn in Hlt. lia.
  - cbn. rewrite (r_next m a HR). reflexivity.
Qed.

(* ---------- ending a transaction: unregister + unlink = dropping its entries ---------- *)
Lemma Forall2_filter {A B} (P : A -> B -> Prop) (p : A -> bool) (q : B -> bool) l l' :
  (forall x y, P x y -> p x = q y) -> Forall2 P l l' -> Forall2 P (filter p l) (filter q l').
Proof.
  intros H F. induction F as [|x y l l' Hxy F IH]; [constructor|].
  cbn [filter]. rewrite (H x y Hxy). destruct (q y); [constructor|]; assumption.
Qed.

Lemma unlink_sim m m1 a h :
  Inv m -> R m a -> h <> 0 ->
  m_all m1 = m_all m -> m_tx m1 = m_tx m -> m_reg m1 = reg_del (m_reg m) h ->
  m_cont m1 = m_cont m -> m_nexttx m1 = m_nexttx m ->
  R (unlink_tx m1 h) (mka (drop_owner h (a_vers a)) (aopen_del (a_open a) h) (a_nexttx a)).
Proof.
  intros I HR Hh Ea Et Er Ec En.
  assert (A := fun k => unlink_all m m1 h k I Ea Et).
  assert (Hmain : forall k, filter is_main (lget (m_all (unlink_tx m1 h)) k) = filter is_main (lget (m_all m) k)).
  { intros k. rewrite A. apply filter_main_sub. intros v Hv. unfold owned, is_main in *.
    apply N.eqb_eq in Hv. rewrite Hv. destruct (N.eqb_spec 0 h); [congruence | reflexivity]. }
  assert (Hcont : m_cont (unlink_tx m1 h) = m_cont m) by (unfold unlink_tx; cbn; exact Ec).
  constructor; cbn [a_vers a_open a_nexttx].
  - unfold drop_owner. rewrite map_map. cbn [fst]. rewrite unlink_keys, Ea. apply (r_keys m a HR).
  - intros k. unfold drop_owner.
    rewrite (alget_map_snd (fun _ l => filter (fun e => negb (owned_by h e)) l)) by reflexivity.
    rewrite (r_vers m a HR k). unfold absk. rewrite A.
    rewrite vprune_filter_keepmain.
    2:{ rewrite <- A. rewrite Hmain. reflexivity. }
    rewrite filter_map_comm. apply map_ext_in. intros v _. unfold entry. rewrite Hcont. reflexivity.
  - change (m_reg (unlink_tx m1 h)) with (m_reg m1). rewrite Er.
    unfold reg_del, aopen_del. apply Forall2_filter.
    + intros x t (H1 & _). rewrite H1. reflexivity.
    + eapply Forall2_impl_in; [|apply (r_open m a HR)].
      intros x t _ _ (H1 & H2 & H3 & H4). repeat split; try assumption.
      * intros k. rewrite (H3 k). unfold snap_of. rewrite Hmain.
        destruct (last_before_spec v_seq (filter is_main (lget (m_all m) k)) (x_seq x)); [|reflexivity].
        cbn [read_version]. rewrite Hcont. reflexivity.
      * intros Hd. apply H4 in Hd. unfold dirty_of in *. rewrite Hmain. exact Hd.
      * intros Hd. apply H4. unfold dirty_of in *. rewrite Hmain in Hd. exact Hd.
  - unfold unlink_tx. cbn [m_nexttx set_all set_tx]. rewrite En. apply (r_next m a HR).
Qed.

(* ---------- drain: queued jobs never touch a listed version ---------- *)
Lemma drain_sim m a : Inv m -> R m a -> R (drain m) a.
Proof.
  intros I HR. unfold drain.
  destruct (fold_clean_job_fields (m_q m) (set_q m [])) as (_ & Er & _ & Ea & _ & En & _).
  apply (R_ext m); [exact Ea | exact Er | exact En | | exact HR].
  intros k v Hv. rewrite fold_clean_job_cont; [reflexivity|].
  intros j d Hj Hd E. destruct (inv_queue m I j d Hj Hd) as [_ Hne]. apply (Hne k v Hv). symmetry. exact E.
Qed.

(* ---------- garbage collection is invisible ---------- *)
Lemma gc_main_filter (l : list ver) h0 :
  vsorted l ->
  filter is_main (filter (gc_keep l h0) l) = snd (collect_list v_seq (filter is_main l) h0).
Proof.
  intros Hs. rewrite filter_comm.
  destruct (collect_list v_seq (filter is_main l) h0) as [d keep] eqn:E. cbn [snd].
  assert (Hsplit := collect_list_split _ _ _ _ _ _ E).
  transitivity (filter (fun v => negb (existsb (ver_eqb v) d)) (filter is_main l)).
  - apply filter_ext. intros v. unfold gc_keep, gc_deleted_of. rewrite E. reflexivity.
  - rewrite Hsplit. apply filter_notin_app. rewrite <- Hsplit.
    apply sorted_NoDup. apply sorted_filter. exact Hs.
Qed.

Lemma gc_keeps_last_main (l : list ver) h0 :
  vsorted l ->
  last_opt (filter is_main (filter (gc_keep l h0) l)) = last_opt (filter is_main l).
Proof.
  intros Hs. rewrite (gc_main_filter l h0 Hs).
  destruct (collect_list v_seq (filter is_main l) h0) as [d keep] eqn:E. cbn [snd].
  eapply collect_keeps_latest. exact E.
Qed.

Lemma gc_keep_true (l : list ver) h0 v :
  vsorted l -> In v l -> vkeep l v = true -> gc_keep l h0 v = true.
Proof.
  intros Hs Hv Hk. unfold gc_keep, gc_deleted_of.
  destruct (collect_list v_seq (filter is_main l) h0) as [d keep] eqn:E. cbn [fst].
  destruct (existsb (ver_eqb v) d) eqn:Ex; [|reflexivity]. exfalso.
  apply existsb_ver_eqb_In in Ex.
  assert (Hsplit := collect_list_split _ _ _ _ _ _ E).
  assert (Hmain : is_main v = true).
  { assert (Hin : In v (filter is_main l)) by (rewrite Hsplit; apply in_or_app; left; exact Ex).
    apply filter_In in Hin. tauto. }
  unfold vkeep in Hk. rewrite Hmain in Hk. cbn [negb orb] in Hk.
  destruct (last_opt (filter is_main l)) as [w|] eqn:Ew; [|discriminate].
  apply N.eqb_eq in Hk.
  (* w is the last committed version; it is in keep, v is in d: both in a sorted list with equal numbers *)
  assert (Hnd : NoDup (d ++ keep)).
  { rewrite <- Hsplit. apply sorted_NoDup, sorted_filter. exact Hs. }
  assert (Hkeep : keep <> []).
  { eapply collect_list_keep_nonempty; [exact E|]. intros En. rewrite En in Ew. discriminate. }
  assert (Hw : In w keep).
  { rewrite Hsplit, last_opt_app in Ew. destruct (last_opt keep) as [z|] eqn:Ez.
    - injection Ew as <-. apply last_opt_In in Ez. exact Ez.
    - apply last_opt_none in Ez. contradiction. }
  assert (Hvw : v = w).
  { assert (Hsm : vsorted (filter is_main l)) by (apply sorted_filter; exact Hs).
    assert (Hv' : In v (filter is_main l)) by (rewrite Hsplit; apply in_or_app; left; exact Ex).
    assert (Hw' : In w (filter is_main l)) by (rewrite Hsplit; apply in_or_app; right; exact Hw).
    remember (filter is_main l) as ml eqn:Eml. clear -Hsm Hv' Hw' Hk.
    revert Hsm Hv' Hw'.
    induction ml as [|y ml IH]; intros Hsm Hv Hw; [destruct Hv|].
    apply sorted_cons_inv in Hsm. destruct Hsm as [Hsm Hf]. rewrite Forall_forall in Hf.
    destruct Hv as [->|Hv], Hw as [->|Hw]; [reflexivity | | | exact (IH Hsm Hv Hw)].
    - specialize (Hf w Hw). lia.
    - specialize (Hf v Hv). lia. }
  subst w. clear -Hnd Ex Hw.
  induction d as [|y d IH]; [destruct Ex|]. cbn in Hnd. inversion Hnd as [|? ? Hn Hnd']; subst.
  destruct Ex as [->|Ex]; [apply Hn; apply in_or_app; right; exact Hw | exact (IH Ex Hnd')].
Qed.

Lemma gc_cont_kept m k v :
  Inv m -> In v (lget (m_all m) k) -> gc_keep (lget (m_all m) k) (gc_horizon m) v = true ->
  aget (m_cont (gc m)) (v_cid v) = aget (m_cont m) (v_cid v).
Proof.
  intros I Hv Hk. rewrite (gc_cont m _ I).
  destruct (existsb (fun d => N.eqb (v_cid v) (v_cid d)) (gc_deleted m)) eqn:Ex; [|reflexivity].
  exfalso. apply existsb_exists in Ex. destruct Ex as (d & Hd & E). apply N.eqb_eq in E.
  apply (In_gc_deleted m d I) in Hd.
  assert (Hd' : In d (lget (m_all m) (v_key d))).
  { unfold gc_deleted_of in Hd.
    destruct (collect_list v_seq (filter is_main (lget (m_all m) (v_key d))) (gc_horizon m)) as [dd keep] eqn:Ec.
    apply collect_list_split in Ec. cbn in Hd.
    assert (H : In d (filter is_main (lget (m_all m) (v_key d)))) by (rewrite Ec; apply in_or_app; left; exact Hd).
    apply filter_In in H. tauto. }
  assert (v = d) by (eapply (inv_cid_inj m I); eassumption). subst d.
  destruct (inv_range m I _ _ Hv) as (_ & _ & Ek & _). rewrite Ek in Hd.
  unfold gc_keep in Hk. apply negb_true_iff in Hk.
  assert (Hin : existsb (ver_eqb v) (gc_deleted_of (lget (m_all m) k) (gc_horizon m)) = true)
    by (apply existsb_ver_eqb_In; exact Hd).
  congruence.
Qed.

Lemma gc_horizon_le m x k :
  Inv m -> In x (m_reg m) ->
  gc_horizon m < x_seq x \/
  (gc_horizon m = x_seq x /\ forall v, In v (filter is_main (lget (m_all m) k)) -> v_seq v <> gc_horizon m).
Proof.
  intros I Hx. unfold gc_horizon. assert (Hs := inv_reg_sorted m I).
  destruct (m_reg m) as [|x0 r] eqn:Er; [destruct Hx|].
  destruct Hx as [<-|Hx].
  - right. split; [reflexivity|]. intros v Hv. apply filter_In in Hv. destruct Hv as [Hv _].
    assert (Hin : In x0 (m_reg m)) by (rewrite Er; left; reflexivity).
    destruct (inv_begin m I x0 k v Hin Hv) as [Hne _]. exact Hne.
  - left. inversion Hs as [|? ? _ Hf]; subst. rewrite Forall_forall in Hf. destruct (Hf x Hx) as [H _]. exact H.
Qed.

Lemma gc_sim m a : Inv m -> R m a -> R (gc m) a.
Proof.
  intros I HR. destruct (gc_fields m) as (_ & Er & _ & Ent & _ & Ekeys).
  assert (A := fun k => gc_all m k I).
  assert (Hs := inv_sorted m I).
  constructor.
  - rewrite Ekeys. apply (r_keys m a HR).
  - intros k. rewrite (r_vers m a HR k). unfold absk. rewrite A.
    set (l := lget (m_all m) k).
    rewrite vprune_filter_keepmain by (apply gc_keeps_last_main; apply Hs).
    rewrite filter_true.
    2:{ intros v Hv. apply gc_keep_true; [apply Hs | apply In_vprune; exact Hv |].
        unfold vprune in Hv. apply filter_In in Hv. tauto. }
    apply map_ext_in. intros v Hv. unfold entry. f_equal. symmetry.
    apply (gc_cont_kept m k v I); [apply In_vprune; exact Hv|].
    apply gc_keep_true; [apply Hs | apply In_vprune; exact Hv |].
    unfold vprune in Hv. apply filter_In in Hv. tauto.
  - rewrite Er. eapply Forall2_impl_in; [|apply (r_open m a HR)].
    intros x t Hx _ (H1 & H2 & H3 & H4).
    assert (Hlast : forall k, last_opt (filter is_main (lget (m_all (gc m)) k)) =
                              last_opt (filter is_main (lget (m_all m) k))).
    { intros k. rewrite A. apply gc_keeps_last_main. apply Hs. }
    repeat split; try assumption.
    + intros k. rewrite (H3 k). unfold snap_of. rewrite A.
      set (l := lget (m_all m) k).
      rewrite (gc_main_filter l (gc_horizon m) (Hs k)).
      destruct (collect_list v_seq (filter is_main l) (gc_horizon m)) as [d keep] eqn:E. cbn [snd].
      assert (Hlbs : last_before_spec v_seq keep (x_seq x) = last_before_spec v_seq (filter is_main l) (x_seq x)).
      { eapply collect_keeps_lookup; [apply sorted_filter; apply Hs | exact E |].
        destruct (gc_horizon_le m x k I Hx) as [Hlt|[Heq Hne]]; [left; exact Hlt | right].
        split; [exact Heq | exact Hne]. }
      rewrite Hlbs.
      destruct (last_before_spec v_seq (filter is_main l) (x_seq x)) as [w|] eqn:Ew; [|reflexivity].
      cbn [read_version]. symmetry.
      assert (Hw : In w keep) by (apply lbs_some_inv in Hlbs; tauto).
      assert (Hwl : In w l) by (eapply lbs_In_main; exact Ew).
      apply (gc_cont_kept m k w I Hwl).
      (* w is kept by the collector: it is not among the deleted prefix *)
      unfold gc_keep, gc_deleted_of. fold l. rewrite E. cbn [fst].
      destruct (existsb (ver_eqb w) d) eqn:Ex; [|reflexivity]. exfalso.
      apply existsb_ver_eqb_In in Ex.
      assert (Hsplit := collect_list_split _ _ _ _ _ _ E).
      assert (Hnd : NoDup (d ++ keep)).
      { rewrite <- Hsplit. apply sorted_NoDup, sorted_filter, Hs. }
      clear -Hnd Ex Hw.
      induction d as [|y d IH]; [destruct Ex|]. cbn in Hnd. inversion Hnd as [|? ? Hn Hnd']; subst.
      destruct Ex as [->|Ex]; [apply Hn; apply in_or_app; right; exact Hw | exact (IH Ex Hnd')].
    + intros Hd. apply H4 in Hd. unfold dirty_of in *. rewrite Hlast. exact Hd.
    + intros Hd. apply H4. unfold dirty_of in *. rewrite Hlast in Hd. exact Hd.
  - rewrite Ent. apply (r_next m a HR).
Qed.

(* ---------- commit ---------- *)
Lemma enqueue_sim m a job : R m a -> R (enqueue m job) a.
Proof.
  intros HR. destruct (enqueue_fields m job) as (_ & Er & _ & Ea & Ec & En & _).
  apply (R_ext m); [exact Ea | exact Er | exact En | | exact HR]. intros k v _. rewrite Ec. reflexivity.
Qed.

Lemma fold_push_sim kept : forall m a,
  Inv m -> R m a -> NoDup (map v_cid kept) ->
  (forall f, In f kept -> v_cid f < m_nextcid m /\ cid_free m (v_cid f)) ->
  R (fold_left push_committed kept m)
    (fold_left (fun s f => awrite s 0 (v_key f) (aget (m_cont m) (v_cid f))) kept a).
Proof.
  induction kept as [|f kept IH]; intros m a I HR Hnd Hk; [exact HR|].
  cbn [fold_left]. inversion Hnd as [|? ? Hnotin Hnd']; subst.
  destruct (Hk f (or_introl eq_refl)) as [Hlt Hfree].
  assert (I' : Inv (push_committed m f)).
  { unfold push_committed. apply push_version_inv; [exact I | left; reflexivity | exact Hlt | exact Hfree]. }
  assert (R' : R (push_committed m f) (awrite a 0 (v_key f) (aget (m_cont m) (v_cid f)))).
  { unfold push_committed. apply push_sim; [exact I | exact HR | left; reflexivity]. }
  specialize (IH (push_committed m f) _ I' R' Hnd').
  change (m_cont (push_committed m f)) with (m_cont m) in IH. apply IH.
  intros g Hg. destruct (Hk g (or_intror Hg)) as [Hlt' Hfree']. split; [exact Hlt'|].
  apply push_committed_cid_free; [exact Hfree'|].
  intros E. apply Hnotin. rewrite E. apply in_map. exact Hg.
Qed.

Lemma fold_left_map {A B C} (f : A -> C -> A) (g : B -> C) (l : list B) (a : A) :
  fold_left f (map g l) a = fold_left (fun s x => f s (g x)) l a.
Proof. revert a. induction l as [|x l IH]; intros a; [reflexivity|]. cbn. apply IH. Qed.

Lemma keys_filter_snd {V} (f : list V -> bool) (s : list (N * list V)) :
  NoDup (map fst s) ->
  map fst (filter (fun p => f (snd p)) s) =
  filter (fun k => f (match aget s k with Some l => l | None => [] end)) (map fst s).
Proof.
  induction s as [|[k l] s IH]; intros Hnd; [reflexivity|].
  cbn [map fst] in Hnd. inversion Hnd as [|? ? Hn Hnd']; subst.
  cbn [filter map fst snd aget]. rewrite N.eqb_refl.
  assert (E : filter (fun k0 => f (match (if N.eqb k0 k then Some l else aget s k0) with Some l0 => l0 | None => [] end)) (map fst s)
            = filter (fun k0 => f (match aget s k0 with Some l0 => l0 | None => [] end)) (map fst s)).
  { apply filter_ext_in. intros k0 Hk0. destruct (N.eqb_spec k0 k) as [->|]; [contradiction | reflexivity]. }
  destruct (f l); cbn [map fst]; rewrite (IH Hnd'), E; reflexivity.
Qed.

Lemma existsb_owned_absk m h k :
  h <> 0 ->
  existsb (owned_by h) (absk m k) =
  match filter (owned h) (lget (m_all m) k) with [] => false | _ => true end.
Proof.
  intros Hh. unfold absk.
  assert (E : filter (owned h) (vprune (lget (m_all m) k)) = filter (owned h) (lget (m_all m) k)).
  { unfold vprune. rewrite filter_filter. apply filter_ext. intros v. unfold vkeep, owned, is_main.
    destruct (N.eqb_spec (v_tx v) h) as [->|]; [|apply andb_false_r].
    destruct (N.eqb_spec h 0); [contradiction | reflexivity]. }
  rewrite <- E. generalize (vprune (lget (m_all m) k)). clear.
  induction l as [|v l IH]; [reflexivity|]. cbn [map existsb filter].
  rewrite entry_owned. destruct (owned h v); [reflexivity | exact IH].
Qed.

Lemma tx_keys_written m a h :
  Inv m -> R m a -> h <> 0 -> tx_keys m h = written_keys a h.
Proof.
  intros I HR Hh. unfold tx_keys, written_keys.
  rewrite (keys_filter_snd (existsb (owned_by h))) by (rewrite (r_keys m a HR); apply (inv_keys m I)).
  rewrite (r_keys m a HR). apply filter_ext. intros k.
  change (match aget (a_vers a) k with Some l => l | None => [] end) with (alget (a_vers a) k).
  rewrite (r_vers m a HR k), (existsb_owned_absk m h k Hh), (inv_stores m I). reflexivity.
Qed.

Lemma existsb_ext' {A} (f g : A -> bool) (l : list A) :
  (forall x, f x = g x) -> existsb f l = existsb g l.
Proof. intros H. induction l as [|x l IH]; [reflexivity|]. cbn. rewrite H, IH. reflexivity. Qed.

Lemma bool_eq_iff (b1 b2 : bool) : (b1 = true <-> b2 = true) -> b1 = b2.
Proof. destruct b1, b2; intros [H1 H2]; try reflexivity; [symmetry; apply H1 | apply H2]; reflexivity. Qed.

Lemma map_flat_map_single {A B C} (F : A -> list B) (g : B -> C) (g' : A -> C) (l : list A) :
  (forall k, In k l -> exists v, F k = [v] /\ g v = g' k) ->
  map g (flat_map F l) = map g' l.
Proof.
  induction l as [|k l IH]; intros H; [reflexivity|].
  cbn [flat_map map]. destruct (H k (or_introl eq_refl)) as (v & -> & E).
  cbn [app map]. rewrite E, IH; [reflexivity|]. intros k' Hk'. apply H. right; exact Hk'.
Qed.

Lemma commit_sim m a x t :
  Inv m -> R m a -> reg_find (m_reg m) (x_id x) = Some x -> tx_rel m x t ->
  snd (commit m x) = snd (acommit a t) /\ R (fst (commit m x)) (fst (acommit a t)).
Proof.
  intros I HR Hfind (Hid & Hlvl & Hsnap & Hdirty).
  apply reg_find_In in Hfind. destruct Hfind as [Hx _].
  destruct (inv_reg_range m I x Hx) as (_ & _ & Hpos & _).
  assert (Hh : x_id x <> 0) by lia.
  set (h := x_id x) in *.
  rewrite commit_unfold. cbn zeta. fold h.
  destruct (commit_m0_kept m h) as [-> ->].
  change (tx_keys (set_reg m (reg_del (m_reg m) h)) h) with (tx_keys m h).
  unfold acommit. rewrite Hid, Hlvl.
  assert (Eks : tx_keys m h = written_keys a h) by (apply tx_keys_written; assumption).
  rewrite <- Eks.
  (* the two conflict tests agree *)
  assert (Econf :
    existsb (fun k => match last_opt (sget (m_tx (set_reg m (reg_del (m_reg m) h))) 0 k) with
                      | Some v => N.ltb (x_seq x) (v_seq v) | None => false end) (tx_keys m h) =
    existsb (fun k => existsb (N.eqb k) (t_dirty t)) (tx_keys m h)).
  { apply existsb_ext'. intros k. apply bool_eq_iff. rewrite (Hdirty k). unfold dirty_of.
    change (sget (m_tx (set_reg m (reg_del (m_reg m) h))) 0 k) with (sget (m_tx m) 0 k).
    rewrite (inv_stores m I). change (owned 0) with is_main.
    destruct (last_opt (filter is_main (lget (m_all m) k))) as [w|]; split.
    - intros H. exists w. split; [reflexivity | apply N.ltb_lt; exact H].
    - intros (w' & E & H). injection E as <-. apply N.ltb_lt. exact H.
    - discriminate.
    - intros (w' & E & _). discriminate. }
  rewrite Econf.
  (* after unregistering and unlinking *)
  assert (R2 : R (commit_m2 m h) (mka (drop_owner h (a_vers a)) (aopen_del (a_open a) h) (a_nexttx a))).
  { unfold commit_m2. apply (unlink_sim m); try reflexivity; assumption. }
  destruct (is_snapshot (x_lvl x) && existsb (fun k => existsb (N.eqb k) (t_dirty t)) (tx_keys m h)); cbn [fst snd].
  - split; [reflexivity|]. apply enqueue_sim. exact R2.
  - split; [reflexivity|]. apply enqueue_sim.
    assert (I2 := commit_m2_inv m h I Hh).
    assert (Hfold := fold_push_sim (commit_kept m h) (commit_m2 m h) _ I2 R2 (commit_kept_cids_NoDup m h I)).
    change (m_cont (commit_m2 m h)) with (m_cont m) in Hfold.
    (* the spec folds over the written keys, the model over the kept versions: same writes *)
    assert (Emap : map (fun f => (v_key f, aget (m_cont m) (v_cid f))) (commit_kept m h) =
                   map (fun k => (k, last_val (filter (owned_by h) (alget (a_vers a) k)))) (tx_keys m h)).
    { unfold commit_kept. apply map_flat_map_single. intros k Hk.
      unfold tx_keys in Hk. apply filter_In in Hk. destruct Hk as [_ Hne].
      rewrite (inv_stores m I) in *.
      destruct (last_opt (filter (owned h) (lget (m_all m) k))) as [v|] eqn:Ev.
      - exists v. split; [reflexivity|].
        assert (Hv := last_opt_In _ _ _ Ev). apply filter_In in Hv. destruct Hv as [Hv _].
        destruct (inv_range m I _ _ Hv) as (_ & _ & Ek & _). rewrite Ek. f_equal.
        rewrite (r_vers m a HR k). unfold absk. rewrite filter_map_comm, last_val_map_entry.
        rewrite (vprune_last_filter_nonmain (fun v0 => owned_by h (entry m v0))).
        + change (fun v0 => owned_by h (entry m v0)) with (owned h). rewrite Ev. reflexivity.
        + intros v0 Hv0. rewrite entry_owned in Hv0. unfold owned in Hv0. unfold is_main.
          apply N.eqb_eq in Hv0. rewrite Hv0. apply N.eqb_neq. exact Hh.
      - apply last_opt_none in Ev. rewrite Ev in Hne. discriminate. }
    assert (Efold : forall s,
      fold_left (fun s0 k => awrite s0 0 k (last_val (filter (owned_by h) (alget (a_vers a) k)))) (tx_keys m h) s =
      fold_left (fun s0 f => awrite s0 0 (v_key f) (aget (m_cont m) (v_cid f))) (commit_kept m h) s).
    { intros s.
      pose (F := fun (s0 : astate) (p : N * option N) => awrite s0 0 (fst p) (snd p)).
      transitivity (fold_left F (map (fun k => (k, last_val (filter (owned_by h) (alget (a_vers a) k)))) (tx_keys m h)) s).
      - symmetry. exact (fold_left_map F _ (tx_keys m h) s).
      - rewrite <- Emap. exact (fold_left_map F _ (commit_kept m h) s). }
    rewrite Efold. apply Hfold.
    intros f Hf. destruct (In_commit_kept m h f I Hf) as (H1 & H2 & _).
    change (m_nextcid (commit_m2 m h)) with (m_nextcid m). split.
    + destruct (inv_range m I _ _ H1) as (_ & _ & _ & H). exact H.
    + split.
      * intros k v Hv. exact (owned_excl_cid m h f k v I H1 H2 Hv).
      * intros job d Hj Hd E. change (m_q (commit_m2 m h)) with (m_q m) in Hj.
        destruct (inv_queue m I job d Hj Hd) as [_ Hne]. apply (Hne _ _ H1). symmetry. exact E.
Qed.

(* ---------- who is reading: registry vs open transactions ---------- *)
Lemma Forall2_find {A B} (P : A -> B -> Prop) (p : A -> bool) (q : B -> bool) l l' :
  Forall2 P l l' -> (forall x y, P x y -> p x = q y) ->
  match find p l, find q l' with
  | Some x, Some y => P x y
  | None, None => True
  | _, _ => False
  end.
Proof.
  intros F H. induction F as [|x y l l' Hxy F IH]; [exact I|].
  cbn [find]. rewrite (H x y Hxy). destruct (q y); [exact Hxy | exact IH].
Qed.

Lemma find_sim m a h :
  R m a ->
  match reg_find (m_reg m) h, aopen_find a h with
  | Some x, Some t => tx_rel m x t
  | None, None => True
  | _, _ => False
  end.
Proof.
  intros HR. unfold reg_find, aopen_find. apply Forall2_find; [apply (r_open m a HR)|].
  intros x t (H1 & _). rewrite H1. reflexivity.
Qed.

Lemma reader_sim m a h :
  R m a ->
  match tx_info m h, areader a h with
  | Some x, Some t => reader_rel m x t /\ (x_id x = 0 -> x_lvl x = RC)
  | None, None => True
  | _, _ => False
  end.
Proof.
  intros HR. unfold tx_info, areader. destruct (N.eqb_spec h 0) as [->|Hh].
  - split; [|intros _; reflexivity]. split; [reflexivity|]. split; [reflexivity|].
    intros Hc. exfalso. apply Hc. reflexivity.
  - assert (F := find_sim m a h HR).
    destruct (reg_find (m_reg m) h) as [x|] eqn:Ex, (aopen_find a h) as [t|]; try exact F.
    destruct F as (H1 & H2 & H3 & H4). apply reg_find_In in Ex. destruct Ex as [Hin Eid].
    split; [|intros E; congruence]. repeat split; try assumption.
Qed.

Lemma registered_of_reader m a h :
  R m a -> areader a h <> None -> registered m h.
Proof.
  intros HR Hr. assert (F := reader_sim m a h HR).
  unfold tx_info in F. unfold registered. destruct (N.eqb_spec h 0) as [->|Hh]; [left; reflexivity|].
  right. destruct (reg_find (m_reg m) h) as [x|] eqn:Ex.
  - apply reg_find_In in Ex. exists x. exact Ex.
  - destruct (areader a h); [destruct F | congruence].
Qed.

Lemma R_init : R m_init a_init.
Proof. constructor; try reflexivity. constructor. Qed.

(* ---------- one step ---------- *)
Definition op_wf (a : astate) (o : op) : Prop :=
  match write_handle o with Some h => areader a h <> None | None => True end /\ o <> OReopen.

Theorem step_refines m a o :
  Inv m -> R m a -> op_wf a o ->
  snd (mstep m o) = snd (astep a o) /\ R (fst (mstep m o)) (fst (astep a o)) /\ Inv (fst (mstep m o)).
Proof.
  intros I HR [Hw Hnr].
  assert (Hok : op_ok m o).
  { destruct o; cbn [op_ok write_handle] in *; try exact Logic.I.
    - intros Hk. eapply registered_of_reader; eassumption.
    - eapply registered_of_reader; eassumption.
    - apply Hnr. reflexivity. }
  split; [|split; [|apply mstep_inv; assumption]].
  - (* outputs *)
    destruct o as [l|h k v|h k|h k|h|h|h| | |]; cbn [mstep astep write_handle] in *.
    + cbn [snd]. rewrite (r_next m a HR). reflexivity.
    + destruct (areader a h); [|congruence]. destruct (N.eqb_spec k 0); reflexivity.
    + destruct (areader a h); [reflexivity | congruence].
    + assert (F := reader_sim m a h HR).
      destruct (tx_info m h) as [x|], (areader a h) as [t|]; try (destruct F; fail); [|reflexivity].
      destruct F as [Hrel Hauto]. cbn [snd]. rewrite (read_refines m a x t k I HR Hrel Hauto). reflexivity.
    + assert (F := reader_sim m a h HR).
      destruct (tx_info m h) as [x|], (areader a h) as [t|]; try (destruct F; fail); [|reflexivity].
      destruct F as [Hrel Hauto]. cbn [snd]. unfold list_keys, akeys. rewrite (r_keys m a HR).
      f_equal. f_equal. apply filter_ext. intros k. rewrite (read_refines m a x t k I HR Hrel Hauto). reflexivity.
    + assert (F := find_sim m a h HR).
      destruct (reg_find (m_reg m) h) as [x|] eqn:Ex, (aopen_find a h) as [t|]; try (destruct F; fail); [|reflexivity].
      assert (Eid := proj2 (reg_find_In _ _ _ Ex)). subst h.
      exact (proj1 (commit_sim m a x t I HR Ex F)).
    + destruct (aopen_find a h); reflexivity.
    + reflexivity.
    + reflexivity.
    + reflexivity.
  - (* states *)
    destruct o as [l|h k v|h k|h k|h|h|h| | |]; cbn [mstep astep write_handle] in *.
    + cbn [fst]. exact (begin_sim m a l I HR).
    + destruct (areader a h) eqn:Er; [|congruence].
      destruct (N.eqb_spec k 0); [exact HR|]. cbn [fst].
      assert (Hreg : registered m h) by (eapply registered_of_reader; [exact HR | congruence]).
      set (m2 := set_cont (set_nextcid m (N.succ (m_nextcid m))) (aset (m_cont m) (m_nextcid m) v)).
      assert (I2 : Inv m2) by exact (Inv_set_cont_fresh m v I).
      assert (R2 : R m2 a) by exact (alloc_sim m a v I HR).
      assert (P := push_sim m2 a h k (m_nextcid m) I2 R2 Hreg).
      change (aget (m_cont m2) (m_nextcid m)) with (aget (aset (m_cont m) (m_nextcid m) v) (m_nextcid m)) in P.
      rewrite aget_aset_eq in P. exact P.
    + destruct (areader a h) eqn:Er; [|congruence]. cbn [fst].
      assert (Hreg : registered m h) by (eapply registered_of_reader; [exact HR | congruence]).
      set (m1 := set_nextcid m (N.succ (m_nextcid m))).
      assert (I1 : Inv m1) by exact (Inv_bump_cid m I).
      assert (R1 : R m1 a) by exact (bump_sim m a HR).
      assert (P := push_sim m1 a h k (m_nextcid m) I1 R1 Hreg).
      change (m_cont m1) with (m_cont m) in P.
      assert (En : aget (m_cont m) (m_nextcid m) = None).
      { destruct (aget (m_cont m) (m_nextcid m)) eqn:E; [|reflexivity].
        apply (inv_cont m I) in E. lia. }
      rewrite En in P. exact P.
    + destruct (tx_info m h), (areader a h); exact HR.
    + destruct (tx_info m h), (areader a h); exact HR.
    + assert (F := find_sim m a h HR).
      destruct (reg_find (m_reg m) h) as [x|] eqn:Ex, (aopen_find a h) as [t|]; try (destruct F; fail); [|exact HR].
      assert (Eid := proj2 (reg_find_In _ _ _ Ex)). subst h.
      exact (proj2 (commit_sim m a x t I HR Ex F)).
    + assert (F := find_sim m a h HR). unfold rollback.
      destruct (reg_find (m_reg m) h) as [x|] eqn:Ex, (aopen_find a h) as [t|]; try (destruct F; fail); [|exact HR].
      cbn [fst]. apply reg_find_In in Ex. destruct Ex as [Hx Eid].
      destruct (inv_reg_range m I x Hx) as (_ & _ & Hpos & _).
      apply enqueue_sim. apply (unlink_sim m); try reflexivity; try assumption. lia.
    + cbn [fst]. apply gc_sim; assumption.
    + cbn [fst]. apply drain_sim; assumption.
    + exfalso. apply Hnr. reflexivity.
Qed.

(* ---------- whole histories ---------- *)
Fixpoint wf_from (a : astate) (ops : list op) : Prop :=
  match ops with
  | [] => True
  | o :: r => op_wf a o /\ wf_from (fst (astep a o)) r
  end.

Theorem run_refines ops : forall m a,
  Inv m -> R m a -> wf_from a ops -> mrun_from m ops = arun_from a ops.
Proof.
  induction ops as [|o ops IH]; intros m a I HR Hwf; [reflexivity|].
  destruct Hwf as [Hw Hwf]. cbn [mrun_from arun_from].
  destruct (step_refines m a o I HR Hw) as (Eo & R' & I').
  destruct (mstep m o) as [m' x] eqn:Em, (astep a o) as [a' y] eqn:Ea. cbn [fst snd] in *.
  subst y. f_equal. apply IH; assumption.
Qed.

Lemma wf_from_bool ops : forall a,
  no_late_writes_from a ops = true -> has_reopen ops = false -> wf_from a ops.
Proof.
  induction ops as [|o ops IH]; intros a Hl Hr; [exact Logic.I|].
  cbn [no_late_writes_from] in Hl. apply andb_true_iff in Hl. destruct Hl as [Hl1 Hl2].
  unfold has_reopen in Hr. cbn [existsb] in Hr. apply orb_false_iff in Hr. destruct Hr as [Hr1 Hr2].
  split.
  - split.
    + destruct (write_handle o) as [h|]; [|exact Logic.I]. destruct (areader a h); [discriminate | discriminate].
    + intros ->. discriminate.
  - apply IH; assumption.
Qed.

Theorem model_refines_spec ops :
  no_late_writes ops = true -> has_reopen ops = false -> mrun ops = arun ops.
Proof.
  intros Hl Hr. unfold mrun, arun. apply run_refines; [exact Inv_init | exact R_init |].
  apply wf_from_bool; assumption.
Qed.
