(* C08 (snapshots under concurrency) and C06 (atomicity of reads, deadlock freedom). *)
From Coq Require Import List NArith Bool Lia Arith.
From FsDb Require Import VList VListProofs Core Spec CoreLemmas CoreInv Refine SpecProps Conc07.
Import ListNotations.
Open Scope N_scope.

(* ====================== C08 on the abstract machine ====================== *)
Definition writes_through (o : op) (h k : N) : bool :=
  match o with OSet h' k' _ | ODel h' k' => N.eqb h' h && N.eqb k' k | _ => false end.

Lemma wrote_false_awrite a h0 k0 v h k :
  h <> 0 -> (N.eqb h0 h && N.eqb k0 k) = false -> wrote a h k = false -> wrote (awrite a h0 k0 v) h k = false.
Proof.
  intros Hh Hne Hw. unfold wrote in *. rewrite awrite_vers.
  destruct (N.eqb_spec k k0) as [->|]; [|exact Hw].
  rewrite N.eqb_refl, andb_true_r in Hne.
  destruct (N.eqb_spec h0 0) as [->|H0]; rewrite existsb_app'.
  - rewrite existsb_filter_keep; [rewrite Hw|].
    + cbn [existsb orb]. unfold owned_by. cbn [a_owner]. destruct (N.eqb_spec 0 h) as [E|E]; [congruence | reflexivity].
    + intros x Hx. unfold owned_by in Hx. unfold committed. apply N.eqb_eq in Hx. rewrite Hx.
      destruct (N.eqb_spec h 0); [contradiction | reflexivity].
  - rewrite Hw. cbn [existsb orb]. unfold owned_by. cbn [a_owner]. rewrite Hne. reflexivity.
Qed.

Lemma wrote_false_drop a h0 h k o n :
  wrote a h k = false -> wrote (mka (drop_owner h0 (a_vers a)) o n) h k = false.
Proof.
  intros Hw. unfold wrote in *. cbn [a_vers]. unfold drop_owner.
  rewrite (alget_map_snd (fun _ l => filter (fun e => negb (owned_by h0 e)) l)) by reflexivity.
  destruct (existsb (owned_by h) (filter (fun e => negb (owned_by h0 e)) (alget (a_vers a) k))) eqn:E; [|reflexivity].
  apply existsb_exists in E. destruct E as (x & Hx & Ho). apply filter_In in Hx.
  assert (Ex : existsb (owned_by h) (alget (a_vers a) k) = true) by (apply existsb_exists; exists x; tauto).
  congruence.
Qed.

Lemma wrote_false_fold (f : N -> option N) ks : forall a h k,
  h <> 0 -> wrote a h k = false -> wrote (fold_left (fun s k0 => awrite s 0 k0 (f k0)) ks a) h k = false.
Proof.
  induction ks as [|k0 ks IH]; intros a h k Hh Hw; [exact Hw|]. cbn [fold_left]. apply IH; [exact Hh|].
  apply wrote_false_awrite; [exact Hh | | exact Hw]. destruct (N.eqb_spec 0 h); [congruence | reflexivity].
Qed.

Lemma wrote_false_step a o h k :
  h <> 0 -> ends o h = false -> writes_through o h k = false -> wrote a h k = false ->
  wrote (fst (astep a o)) h k = false.
Proof.
  intros Hh He Hwt Hw.
  destruct o as [l|h0 k0 v|h0 k0|h0 k0|h0|h0|h0| | |]; cbn [astep ends writes_through] in *; try exact Hw.
  - destruct (areader a h0); [|exact Hw]. destruct (N.eqb k0 0); [exact Hw | apply wrote_false_awrite; assumption].
  - destruct (areader a h0); [apply wrote_false_awrite; assumption | exact Hw].
  - destruct (areader a h0); exact Hw.
  - destruct (areader a h0); exact Hw.
  - destruct (aopen_find a h0) as [t0|]; [|exact Hw]. unfold acommit.
    destruct (is_snapshot (t_lvl t0) && existsb _ (written_keys a (t_id t0))); cbn [fst].
    + apply wrote_false_drop. exact Hw.
    + apply wrote_false_fold; [exact Hh|]. apply wrote_false_drop. exact Hw.
  - destruct (aopen_find a h0); [|exact Hw]. cbn [fst]. apply wrote_false_drop. exact Hw.
  - discriminate.
Qed.

Lemma aread_snapshot_unwritten a t k :
  is_snapshot (t_lvl t) = true -> wrote a (t_id t) k = false -> aread a t k = snap_val t k.
Proof.
  intros Hs Hw. unfold aread, wrote in *.
  assert (E : filter (owned_by (t_id t)) (alget (a_vers a) k) = []).
  { apply filter_false. intros x Hx. destruct (owned_by (t_id t) x) eqn:Eo; [|reflexivity].
    assert (Ex : existsb (owned_by (t_id t)) (alget (a_vers a) k) = true) by (apply existsb_exists; exists x; auto).
    congruence. }
  destruct (t_lvl t); try discriminate; rewrite E; reflexivity.
Qed.

(* REPEATABLE READS: re-reading a key it has not written returns the same result for as long as
   the snapshot transaction is open, whatever commits, autocommit writes, Begins of others and
   collections happen in between *)
Theorem snapshot_reads_stable ops : forall a h t k,
  h <> 0 -> aopen_find a h = Some t -> is_snapshot (t_lvl t) = true -> wrote a h k = false ->
  forallb (fun o => negb (ends o h) && negb (writes_through o h k)) ops = true ->
  exists t', aopen_find (astate_after a ops) h = Some t' /\ aread (astate_after a ops) t' k = aread a t k.
Proof.
  induction ops as [|o ops IH]; intros a h t k Hh Hf Hs Hw Hall.
  - exists t. split; [exact Hf | reflexivity].
  - cbn [forallb] in Hall. apply andb_true_iff in Hall. destruct Hall as [H1 Hall].
    apply andb_true_iff in H1. destruct H1 as [He Hwt]. apply negb_true_iff in He. apply negb_true_iff in Hwt.
    assert (Hid : t_id t = h).
    { unfold aopen_find in Hf. apply find_some in Hf. destruct Hf as [_ Hf]. apply N.eqb_eq. exact Hf. }
    destruct (step_keeps_open a o h t Hf Hh He) as (t1 & Hf1 & (Eid & Elvl & _ & Esnap)).
    assert (Hw1 := wrote_false_step a o h k Hh He Hwt Hw).
    assert (Hs1 : is_snapshot (t_lvl t1) = true) by (rewrite Elvl; exact Hs).
    destruct (IH (fst (astep a o)) h t1 k Hh Hf1 Hs1 Hw1 Hall) as (t' & Hf' & Er).
    exists t'. split; [exact Hf'|]. cbn [astate_after]. rewrite Er.
    rewrite (aread_snapshot_unwritten (fst (astep a o)) t1 k Hs1) by (rewrite Eid, Hid; exact Hw1).
    rewrite (aread_snapshot_unwritten a t k Hs) by (rewrite Hid; exact Hw).
    unfold snap_val. rewrite Esnap. reflexivity.
Qed.

(* ALL OR NOTHING: the snapshot is the committed view of ONE state (the one Begin ran in) *)
Lemma snapshot_is_view_at_begin a l k :
  let a' := fst (astep a (OBegin l)) in
  exists t, aopen_find a' (a_nexttx a) = Some t \/ True ->
  forall t0, In t0 (a_open a') -> t_id t0 = a_nexttx a ->
             ~ In (a_nexttx a) (map t_id (a_open a)) ->
             snap_val t0 k = committed_val (alget (a_vers a) k).
Proof.
  intros a'. eexists (mkatx 0 RC [] []). intros _ t0 Hin Hid Hfresh.
  unfold a' in Hin. cbn [astep fst a_open] in Hin. apply in_app_or in Hin. destruct Hin as [Hin|[<-|[]]].
  - exfalso. apply Hfresh. rewrite <- Hid. apply in_map. exact Hin.
  - unfold snap_val. cbn [t_snap]. rewrite (aget_map_snd (fun _ l0 => committed_val l0)). unfold alget.
    destruct (aget (a_vers a) k); reflexivity.
Qed.

(* ====================== the faithful model when Begin / Commit / GC are NOT atomic ====================== *)
(* D9: Begin draws its number between the two per-key draws of a two-key commit *)
Definition d9_state : mstate :=
  mstate_after m_init [OSet 0 1 10; OSet 0 2 20; OBegin RC; OSet 1 1 11; OSet 1 2 21].

Theorem fractured_snapshot_refuted :
  let m := d9_state in
  exists x f1 f2, reg_find (m_reg m) 1 = Some x /\ commit_kept m 1 = [f1; f2] /\
    let m0 := commit_m2 m 1 in                       (* unregistered, unlinked *)
    let m1 := push_committed m0 f1 in                (* key 1 published with its number *)
    let m2 := begin_state m1 RR in                   (* a snapshot transaction begins here *)
    let m3 := push_committed m2 f2 in                (* key 2 published with a later number *)
    snd (mstep m3 (OGet 2 1)) = OutVal 11 /\          (* sees the commit's write to key 1 *)
    snd (mstep m3 (OGet 2 2)) = OutVal 20.            (* but not its write to key 2 *)
Proof. vm_compute. do 3 eexists. repeat split. Qed.

(* D10: the collector runs between Begin's draw and its registration *)
Definition d10_state : mstate := mstate_after m_init [OSet 0 1 10].

Theorem gc_horizon_refuted :
  let m := d10_state in
  let b := N.succ (m_seq m) in
  let m1 := set_seq m b in                                   (* Begin has drawn b, not registered yet *)
  let m2 := fst (mstep m1 (OSet 0 1 11)) in                  (* an autocommit write *)
  let m3 := gc m2 in                                         (* registry empty: fresh horizon, collects value 10 *)
  let m4 := set_reg (set_nexttx m3 2) [mktx 1 RR b] in       (* Begin registers *)
  snd (mstep m (OGet 0 1)) = OutVal 10 /\ snd (mstep m2 (OGet 0 1)) = OutVal 11 /\
  snd (mstep m4 (OGet 1 1)) = OutErr ENotFound.              (* the key had a value throughout *)
Proof. vm_compute. repeat split. Qed.

(* ====================== C06: reads in two steps ====================== *)
(* a read resolves the version under the list lock (lookup), then fetches the content record
   and the file with no lock or pin (fetch) *)
Definition read_two_step (m_lookup m_fetch : mstate) (x : txrec) (k : N) : option N :=
  read_version m_fetch (find_version m_lookup x k).

Theorem read_atomic_refuted :
  let m0 := mstate_after m_init [OSet 0 1 10] in
  let m1 := gc (fst (mstep m0 (OSet 0 1 11))) in
  read m0 (mktx 0 RC 0) 1 = Some 10 /\ read m1 (mktx 0 RC 0) 1 = Some 11 /\
  read (fst (mstep m0 (OSet 0 1 11))) (mktx 0 RC 0) 1 = Some 11 /\
  read_two_step m0 m1 (mktx 0 RC 0) 1 = None.
Proof. vm_compute. repeat split. Qed.

(* if no physical deletion touches the resolved version between the two steps, the read is the
   atomic read at the moment of the lookup *)
Theorem read_two_step_partial m m' x k :
  (forall v, find_version m x k = Some v -> aget (m_cont m') (v_cid v) = aget (m_cont m) (v_cid v)) ->
  read_two_step m m' x k = read m x k.
Proof.
  intros H. unfold read_two_step, read. destruct (find_version m x k) as [v|]; [|reflexivity].
  cbn [read_version]. apply H. reflexivity.
Qed.

(* the repaired read (fix: commit): when the content of the resolved version is gone at fetch time, the version is
   resolved again in the later state and fetched in a still later one (content ids are never reused, so resolving the
   same version again is the same as giving up, which is what the code does) *)
Definition read_retry (m1 m2 m3 : mstate) (x : txrec) (k : N) : option N :=
  match read_two_step m1 m2 x k with
  | Some c => Some c
  | None => read_two_step m2 m3 x k
  end.

(* the schedule of read_atomic_refuted on the repaired read: the new value, the atomic read of the later state *)
Theorem read_retry_witness :
  let m0 := mstate_after m_init [OSet 0 1 10] in
  let m1 := gc (fst (mstep m0 (OSet 0 1 11))) in
  read_retry m0 m1 m1 (mktx 0 RC 0) 1 = Some 11 /\ read m1 (mktx 0 RC 0) 1 = Some 11.
Proof. vm_compute. split; reflexivity. Qed.

(* the repaired read is linearizable against physical deletion: contents are immutable (a content seen at the lookup is
   either the same or gone at the fetch); if no deletion touches the RE-resolved version between its lookup and its fetch,
   the read returns the atomic read at the first lookup or the atomic read at the second *)
Theorem read_retry_linearizable m1 m2 m3 x k :
  (forall v, find_version m1 x k = Some v ->
     aget (m_cont m2) (v_cid v) = aget (m_cont m1) (v_cid v) \/ aget (m_cont m2) (v_cid v) = None) ->
  (forall v, find_version m2 x k = Some v -> aget (m_cont m3) (v_cid v) = aget (m_cont m2) (v_cid v)) ->
  read_retry m1 m2 m3 x k = read m1 x k \/ read_retry m1 m2 m3 x k = read m2 x k.
Proof.
  intros H1 H2. unfold read_retry. destruct (read_two_step m1 m2 x k) as [c|] eqn:E.
  - left. unfold read_two_step, read in *. destruct (find_version m1 x k) as [v|]; [|discriminate].
    cbn [read_version] in *. destruct (H1 v eq_refl) as [Eq|En]; [rewrite <- Eq; symmetry; exact E | rewrite En in E; discriminate].
  - right. apply read_two_step_partial. exact H2.
Qed.

(* GetKeys resolves the versions of all keys under the lock and then tests, key by key and without a lock, whether the
   version has a content record (none = deleted key).  It cannot tell a deleted key from a version that was superseded
   and collected in between, and - unlike Get - it is NOT repaired (the repair needs a second GetFiles call, which the
   strict mock of the unedited unit test rejects): known finding D11b *)
Definition keys_two_step (m_lookup m_fetch : mstate) (x : txrec) : list N :=
  sort_keys (filter (fun k => match read_two_step m_lookup m_fetch x k with Some _ => true | None => false end)
                    (map fst (m_all m_lookup))).

Theorem keys_atomic_refuted :
  let m0 := mstate_after m_init [OSet 0 1 10] in
  let m1 := gc (fst (mstep m0 (OSet 0 1 11))) in
  list_keys m0 (mktx 0 RC 0) = [1] /\ list_keys m1 (mktx 0 RC 0) = [1] /\
  keys_two_step m0 m1 (mktx 0 RC 0) = [].
Proof. vm_compute. repeat split. Qed.

Theorem keys_two_step_partial m m' x :
  (forall k v, find_version m x k = Some v -> aget (m_cont m') (v_cid v) = aget (m_cont m) (v_cid v)) ->
  keys_two_step m m' x = list_keys m x.
Proof.
  intros H. unfold keys_two_step, list_keys. f_equal. apply filter_ext. intros k.
  rewrite (read_two_step_partial m m' x k (H k)). reflexivity.
Qed.

(* ====================== C06: no deadlock from a strict lock order ====================== *)
Section LockOrder.
  Variable rank : N -> nat.            (* locks are named by numbers *)
  Variable bound : nat.
  Hypothesis rank_bound : forall l, (rank l < bound)%nat.

  Record thr := mkthr { t_held : list N; t_want : option N }.

  Definition indexed (s : list thr) : list (nat * thr) := combine (seq 0 (length s)) s.

  (* some OTHER thread holds l (read locks are treated as exclusive: more blocking, so freedom from
     deadlock here implies it for the real readers-writer locks) *)
  Definition held_by_other (s : list thr) (i : nat) (l : N) : bool :=
    existsb (fun p => negb (Nat.eqb (fst p) i) && existsb (N.eqb l) (t_held (snd p))) (indexed s).

  Definition blockedb (s : list thr) (i : nat) : bool :=
    match nth_error s i with
    | Some ti => match t_want ti with Some l => held_by_other s i l | None => false end
    | None => false
    end.

  (* every thread asks only for locks ranked above everything it holds *)
  Definition ordered (s : list thr) : Prop :=
    forall i ti l h, nth_error s i = Some ti -> t_want ti = Some l -> In h (t_held ti) -> (rank h < rank l)%nat.

  Lemma In_combine_seq {A} (l : list A) : forall a j x,
    In (j, x) (combine (seq a (length l)) l) -> (a <= j)%nat /\ nth_error l (j - a) = Some x.
  Proof.
    induction l as [|y l IH]; intros a j x H; [destruct H|]. cbn [length seq combine] in H.
    destruct H as [E|H].
    - injection E as <- <-. split; [lia|]. rewrite Nat.sub_diag. reflexivity.
    - destruct (IH (S a) j x H) as [Hle Hn]. split; [lia|].
      replace (j - a)%nat with (S (j - S a)) by lia. exact Hn.
  Qed.

  Lemma held_by_other_inv s i l :
    held_by_other s i l = true -> exists j tj, j <> i /\ nth_error s j = Some tj /\ In l (t_held tj).
  Proof.
    unfold held_by_other, indexed. intros H. apply existsb_exists in H. destruct H as ([j tj] & Hin & Hp).
    cbn [fst snd] in Hp. apply andb_true_iff in Hp. destruct Hp as [Hne Hl].
    apply In_combine_seq in Hin. destruct Hin as [_ Hn]. rewrite Nat.sub_0_r in Hn.
    exists j, tj. split; [|split; [exact Hn|]].
    - intros ->. rewrite Nat.eqb_refl in Hne. discriminate.
    - apply existsb_eqb_In in Hl. exact Hl.
  Qed.

  Lemma progress_from (s : list thr) : ordered s ->
    forall n i ti l, nth_error s i = Some ti -> t_want ti = Some l -> (bound - rank l <= n)%nat ->
      held_by_other s i l = true ->
      exists j tj, nth_error s j = Some tj /\ t_held tj <> [] /\ blockedb s j = false.
  Proof.
    intros Hord. induction n as [|n IH]; intros i ti l Hi Hw Hn Hb.
    - specialize (rank_bound l). lia.
    - destruct (held_by_other_inv s i l Hb) as (j & tj & Hji & Hj & Hl).
      assert (Hne : t_held tj <> []) by (intros E; rewrite E in Hl; exact Hl).
      destruct (blockedb s j) eqn:Eb; [|exists j, tj; auto].
      (* the holder waits too: for a lock of strictly higher rank *)
      unfold blockedb in Eb. rewrite Hj in Eb. destruct (t_want tj) as [l'|] eqn:Ew; [|discriminate].
      assert (Hr := Hord j tj l' l Hj Ew Hl).
      apply (IH j tj l' Hj Ew); [lia | exact Eb].
  Qed.

  (* whenever some thread is blocked, some thread that holds a lock is not blocked: it can run, and
     (releasing in finite time) unblocks a waiter — there is no cycle of waiting threads *)
  Theorem no_deadlock (s : list thr) :
    ordered s -> (exists i, blockedb s i = true) ->
    exists j tj, nth_error s j = Some tj /\ t_held tj <> [] /\ blockedb s j = false.
  Proof.
    intros Hord (i & Hb). unfold blockedb in Hb.
    destruct (nth_error s i) as [ti|] eqn:Hi; [|discriminate].
    destruct (t_want ti) as [l|] eqn:Hw; [|discriminate].
    exact (progress_from s Hord (bound - rank l) i ti l Hi Hw (le_n _) Hb).
  Qed.
End LockOrder.

(* the order in which every operation of fs_db acquires its locks (by reading usecase/core):
   rank 0 = a user transaction's store, 1 = the committed (main) store, 2 = the all-store *)
Definition fsdb_lock_sequences : list (list nat) := (
  [ [0; 2]      (* Store (a transaction's write): tx, all-store *)
  ; [1; 2]      (* Store (autocommit): main, all-store *)
  ; [0; 1; 2]   (* UpdateTx (commit): old tx, main, all-store; the deferred unlink takes the all-store again after releasing it *)
  ; [0; 2]      (* DeleteTx (rollback): tx, all-store *)
  ; [1; 2]      (* DeleteOld (collector): main, all-store *)
  ; [0]; [1]; [2]  (* Get / GetFiles: one read lock at a time *)
  ])%nat.

Fixpoint strictly_increasing (l : list nat) : bool :=
  match l with
  | a :: ((b :: _) as r) => Nat.ltb a b && strictly_increasing r
  | _ => true
  end.

Theorem fsdb_lock_order_strict : forallb strictly_increasing fsdb_lock_sequences = true.
Proof. reflexivity. Qed.
