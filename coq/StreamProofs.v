(* StreamProofs: what the server's store use case reads from an upload stream (model: Stream.v).

   [sr_source] is the consumer's view: io.Copy (or any loop) reading with a buffer of n > 0 bytes until the
   first result that is not data; the result is a source in the sense of Faults.v (list of Read results,
   the end of the list = io.EOF), so the theorems of FaultsProofs apply to it. *)
From Coq Require Import List Arith Bool NArith Lia.
From FsDb Require Import Faults FaultsProofs Stream.
Import ListNotations.
Local Open Scope nat_scope.

Fixpoint sr_source (orig : bool) (n fuel : nat) (st : srst N) : option (list rd) :=
  match fuel with
  | O => None
  | S f =>
    match sr_read orig st n with
    | (st', SrData d) => option_map (cons (Data d)) (sr_source orig n f st')
    | (_, SrEof) => Some []
    | (_, SrErr) => Some [Fail]
    end
  end.

Section Generic.
Context {A : Type}.
Implicit Types (cs : list (list A)) (buf : list A) (st : srst A).

Lemma sr_fill_spec n cs : forall buf cs' buf' e,
  sr_fill n cs buf = (cs', buf', e) ->
  buf' ++ concat cs' = buf ++ concat cs /\
  (e = true -> cs' = [] /\ length buf' < n) /\
  (e = false -> n <= length buf').
Proof.
  induction cs as [|c cs IH]; intros buf cs' buf' e H; simpl in H.
  - destruct (n <=? length buf) eqn:Hn; inversion H; subst; clear H.
    + apply Nat.leb_le in Hn. repeat split; try discriminate; auto.
    + apply Nat.leb_gt in Hn. repeat split; try discriminate; auto.
  - destruct (n <=? length buf) eqn:Hn.
    + inversion H; subst; clear H. apply Nat.leb_le in Hn. repeat split; try discriminate; auto.
    + apply IH in H. destruct H as [H1 H2]. split; [|exact H2].
      rewrite H1. simpl. rewrite <- app_assoc. reflexivity.
Qed.

Lemma sr_read_data st n st' d :
  sr_read false st n = (st', SrData d) ->
  sr_pend st = d ++ sr_pend st' /\ sr_aborted st' = sr_aborted st /\ (0 < n -> d <> []).
Proof.
  unfold sr_read, sr_pend.
  destruct (sr_fill n (sr_chunks st) (sr_buf st)) as [[cs' buf'] e] eqn:Hf.
  apply sr_fill_spec in Hf. destruct Hf as [Hc [He Hne]].
  destruct (e && sr_aborted st && negb false); [discriminate|].
  destruct buf' as [|a l].
  - destruct (n =? 0) eqn:Hn; [|discriminate]. intros H; inversion H; subst; clear H. simpl.
    apply Nat.eqb_eq in Hn. repeat split; auto. lia.
  - intros H; inversion H; subst; clear H. simpl sr_buf. simpl sr_chunks. simpl sr_aborted.
    rewrite <- Hc. rewrite app_assoc. rewrite firstn_skipn. repeat split; auto.
    intros Hn. destruct n; [lia|]. simpl. discriminate.
Qed.

Lemma sr_read_eof st n st' :
  sr_read false st n = (st', SrEof) ->
  sr_pend st = [] /\ sr_aborted st = false /\ 0 < n.
Proof.
  unfold sr_read, sr_pend.
  destruct (sr_fill n (sr_chunks st) (sr_buf st)) as [[cs' buf'] e] eqn:Hf.
  apply sr_fill_spec in Hf. destruct Hf as [Hc [He Hne]].
  destruct (e && sr_aborted st && negb false) eqn:Hg; [discriminate|].
  destruct buf' as [|a l]; [|discriminate].
  destruct (n =? 0) eqn:Hn; [discriminate|]. intros _. apply Nat.eqb_neq in Hn.
  destruct e.
  - destruct (He eq_refl) as [Hcs _]. subst cs'. simpl in Hc. rewrite <- Hc.
    simpl in Hg. rewrite andb_true_r in Hg. repeat split; auto. lia.
  - specialize (Hne eq_refl). simpl in Hne. lia.
Qed.

Lemma sr_read_err st n st' :
  sr_read false st n = (st', SrErr) -> sr_aborted st = true.
Proof.
  unfold sr_read.
  destruct (sr_fill n (sr_chunks st) (sr_buf st)) as [[cs' buf'] e].
  destruct (e && sr_aborted st && negb false) eqn:Hg.
  - intros _. destruct e; simpl in Hg; [|discriminate]. rewrite andb_true_r in Hg. exact Hg.
  - destruct buf'; [destruct (n =? 0)|]; discriminate.
Qed.

(* the reads never deliver anything but the next bytes of the upload, in order, whatever the buffer lengths *)
Lemma sr_reads_prefix : forall sizes st,
  exists rest, sr_pend st = sr_delivered (sr_reads false st sizes) ++ rest.
Proof.
  induction sizes as [|n tl IH]; intros st; simpl.
  - exists (sr_pend st). reflexivity.
  - destruct (sr_read false st n) as [st' r] eqn:Hr. destruct r as [d| |]; simpl.
    + apply sr_read_data in Hr. destruct Hr as [Hp _]. destruct (IH st') as [rest Hrest].
      exists rest. rewrite Hp. rewrite Hrest at 1. rewrite <- app_assoc. reflexivity.
    + exists (sr_pend st). reflexivity.
    + exists (sr_pend st). reflexivity.
Qed.
End Generic.

(* ---------- the consumer's view is a source of the Faults model ---------- *)

Lemma sr_source_sound n : 0 < n -> forall fuel st src,
  sr_source false n fuel st = Some src ->
  (sr_aborted st = false -> src_bytes src = sr_pend st /\ src_fails src = false) /\
  (sr_aborted st = true -> src_fails src = true /\ is_prefix (src_bytes src) (sr_pend st)).
Proof.
  intros Hn. induction fuel as [|f IH]; intros st src H; simpl in H; [discriminate|].
  destruct (sr_read false st n) as [st' r] eqn:Hr. destruct r as [d| |].
  - destruct (sr_source false n f st') as [src'|] eqn:Hs; [|discriminate].
    simpl in H. inversion H; subst; clear H.
    apply sr_read_data in Hr. destruct Hr as [Hp [Hab _]].
    destruct (IH _ _ Hs) as [IH1 IH2]. rewrite Hab in IH1, IH2. split; intros Ha.
    + destruct (IH1 Ha) as [Hb Hf]. split.
      * unfold src_bytes in *. simpl. rewrite Hb. symmetry. exact Hp.
      * unfold src_fails in *. simpl. exact Hf.
    + destruct (IH2 Ha) as [Hf [c Hc]]. split.
      * unfold src_fails in *. simpl. exact Hf.
      * exists c. unfold src_bytes in *. simpl. rewrite Hp, Hc. rewrite app_assoc. reflexivity.
  - inversion H; subst; clear H. apply sr_read_eof in Hr. destruct Hr as [Hp [Hab _]].
    split; intros Ha; [|congruence]. split; [|reflexivity]. rewrite Hp. reflexivity.
  - inversion H; subst; clear H. apply sr_read_err in Hr.
    split; intros Ha; [congruence|]. split; [reflexivity|]. exists (sr_pend st). reflexivity.
Qed.

(* every data result carries at least one byte, so the consumer's loop ends within |upload| + 1 reads *)
Lemma sr_source_terminates n : 0 < n -> forall fuel st,
  length (sr_pend st) < fuel -> sr_source false n fuel st <> None.
Proof.
  intros Hn. induction fuel as [|f IH]; intros st Hl; [lia|]. simpl.
  destruct (sr_read false st n) as [st' r] eqn:Hr. destruct r as [d| |]; try discriminate.
  apply sr_read_data in Hr. destruct Hr as [Hp [_ Hd]]. specialize (Hd Hn).
  assert (Hlt : length (sr_pend st') < f).
  { rewrite Hp in Hl. rewrite app_length in Hl. destruct d; [congruence|]. simpl in Hl. lia. }
  specialize (IH st' Hlt). destruct (sr_source false n f st'); [discriminate|congruence].
Qed.

Lemma sr_init_pend (cs : list (list N)) ab : sr_pend (sr_init cs ab) = concat cs.
Proof. reflexivity. Qed.

(* ---------- composition with the store's write path ---------- *)

(* an upload whose stream is aborted (at any point, after any chunks, read with any buffer) is never stored *)
Theorem grpc_abort_never_stored :
  forall cs n fuel src buf order, 0 < n ->
    sr_source false n fuel (sr_init cs true) = Some src ->
    exists e, res_out (set_run (store_fixed buf) order src) = Err e.
Proof.
  intros cs n fuel src buf order Hn H.
  destruct (sr_source_sound n Hn _ _ _ H) as [_ H2]. destruct (H2 eq_refl) as [Hf _].
  destruct (res_out (set_run (store_fixed buf) order src)) as [r c|e] eqn:Hr; [|eauto].
  assert (Hx : c = src_bytes src /\ src_fails src = false) by (apply (set_run_exact (store_fixed buf) order src _ _ (or_introl eq_refl) Hr)).
  destruct Hx as [_ Hx]. congruence.
Qed.

(* an upload that ends cleanly and is reported as stored holds exactly the bytes of the chunks, in order *)
Theorem grpc_upload_exact :
  forall cs n fuel src buf order r content, 0 < n ->
    sr_source false n fuel (sr_init cs false) = Some src ->
    res_out (set_run (store_fixed buf) order src) = Stored r content ->
    content = concat cs.
Proof.
  intros cs n fuel src buf order r content Hn H Hr.
  destruct (sr_source_sound n Hn _ _ _ H) as [H1 _]. destruct (H1 eq_refl) as [Hb _].
  assert (Hx : content = src_bytes src /\ src_fails src = false) by (apply (set_run_exact (store_fixed buf) order src _ _ (or_introl eq_refl) Hr)).
  destruct Hx as [Hx _]. rewrite Hx, Hb. apply sr_init_pend.
Qed.

Theorem grpc_reader_terminates :
  forall cs ab n fuel, 0 < n -> length (concat cs) < fuel ->
    exists src, sr_source false n fuel (sr_init cs ab) = Some src.
Proof.
  intros cs ab n fuel Hn Hl.
  destruct (sr_source false n fuel (sr_init cs ab)) as [src|] eqn:H; [eauto|].
  exfalso. eapply sr_source_terminates; [exact Hn| |exact H]. rewrite sr_init_pend. exact Hl.
Qed.

(* D4: before the repair an aborted upload read as a complete one *)
Theorem grpc_abort_refuted_orig :
  exists cs n fuel src,
    sr_source true n fuel (sr_init cs true) = Some src /\ src_fails src = false /\ src_bytes src = concat cs.
Proof. exists [[1%N; 2%N]], 4, 3, [Data [1%N; 2%N]]. vm_compute. auto. Qed.

(* the defect D4 concerned aborted streams only: on a stream that ends cleanly the original reader and the repaired
   one are the same function *)
Lemma sr_read_orig_clean {A} (st : srst A) n :
  sr_aborted st = false -> sr_read true st n = sr_read false st n.
Proof.
  intros Hab. unfold sr_read. destruct (sr_fill n (sr_chunks st) (sr_buf st)) as [[cs' buf'] e].
  rewrite Hab. rewrite !andb_false_r. reflexivity.
Qed.

Lemma sr_read_keeps_aborted {A} orig (st st' : srst A) n r :
  sr_read orig st n = (st', r) -> sr_aborted st' = sr_aborted st.
Proof.
  unfold sr_read. destruct (sr_fill n (sr_chunks st) (sr_buf st)) as [[cs' buf'] e].
  destruct (e && sr_aborted st && negb orig); [intros H; inversion H; reflexivity|].
  destruct buf'; intros H; inversion H; reflexivity.
Qed.

Theorem sr_source_orig_clean n : forall fuel st,
  sr_aborted st = false -> sr_source true n fuel st = sr_source false n fuel st.
Proof.
  induction fuel as [|f IH]; intros st Hab; [reflexivity|]. simpl.
  rewrite (sr_read_orig_clean st n Hab).
  destruct (sr_read false st n) as [st' r] eqn:Hr. destruct r; try reflexivity.
  rewrite IH; [reflexivity|]. rewrite (sr_read_keeps_aborted _ _ _ _ _ Hr). exact Hab.
Qed.

