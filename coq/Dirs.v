(* Dirs — faithful executable model of the directory layer of fs_db (property C17).

   Sources (pinned tree):
     internal/repository/dir/{repository,get,get_roots,create,add,remove}.go
     internal/usecase/dir/get.go            (the "Get phase": create + rotate)
     internal/usecase/store/set.go          (choice of a directory among the candidates)
     internal/usecase/cleaner/delete_files.go (remove content, re-activate the parent)
     internal/model/dir.go                  (Path = path.Join(root, name), ParseDir)

   A directory is identified by (root index, index of the directory inside its
   root in order of creation).  The second component stands for the fresh UUID
   name: a new directory of root r gets the index "number of directories of r
   so far", which no existing directory of r has (directories are never
   deleted from disk).  All definitions are prefixed dr_ (flat extraction). *)
From Coq Require Import List Arith Bool PeanoNat.
Import ListNotations.

Definition dr_id := (nat * nat)%type.

Definition dr_eqb (a b : dr_id) : bool := (fst a =? fst b) && (snd a =? snd b).
Definition dr_mem (d : dr_id) (l : list dr_id) : bool := existsb (dr_eqb d) l.
Definition dr_rem (d : dr_id) (l : list dr_id) : list dr_id :=
  filter (fun x => negb (dr_eqb d x)) l.

(* update the n-th element (no-op when out of range) *)
Fixpoint dr_upd {A : Type} (n : nat) (f : A -> A) (l : list A) : list A :=
  match l, n with
  | [], _ => []
  | x :: t, 0 => f x :: t
  | x :: t, S k => x :: dr_upd k f t
  end.

(* the file system under the roots: per root, per directory (creation order), its entry count *)
Definition dr_disk_t := list (list nat).

Definition dr_dirs_of (disk : dr_disk_t) (r : nat) : list nat :=
  match nth_error disk r with Some l => l | None => [] end.

(* os.ReadDir(dir): Some (number of entries) | None = no such directory *)
Definition dr_count_of (disk : dr_disk_t) (d : dr_id) : option nat :=
  nth_error (dr_dirs_of disk (fst d)) (snd d).

Definition dr_ndirs (disk : dr_disk_t) (r : nat) : nat := length (dr_dirs_of disk r).

Definition dr_mkdir (r : nat) (disk : dr_disk_t) : dr_disk_t := dr_upd r (fun l => l ++ [0]) disk.
Definition dr_upd2 (f : nat -> nat) (d : dr_id) (disk : dr_disk_t) : dr_disk_t :=
  dr_upd (fst d) (dr_upd (snd d) f) disk.

(* Repo{roots, dirs (keys = paths), counts} + the configured limit *)
Record dr_state := {
  dr_max : nat;                (* usecase/dir.UseCase.maxCount *)
  dr_disk : dr_disk_t;         (* length = number of configured roots *)
  dr_active : list dr_id;      (* keys of Repo.dirs *)
  dr_counts : list nat         (* Repo.counts, by root index *)
}.

Definition dr_nroots (s : dr_state) : nat := length (dr_disk s).

(* dir.New over empty (or not yet existing) roots *)
Definition dr_init (nroots max : nat) : dr_state :=
  {| dr_max := max; dr_disk := repeat [] nroots; dr_active := []; dr_counts := repeat 0 nroots |}.

(* Repo.Create: MkdirAll; dirs[path] = dir; counts[root]++ (unconditionally) *)
Definition dr_create (r : nat) (s : dr_state) : dr_state :=
  {| dr_max := dr_max s;
     dr_disk := dr_mkdir r (dr_disk s);
     dr_active := dr_active s ++ [(r, dr_ndirs (dr_disk s) r)];
     dr_counts := dr_upd r S (dr_counts s) |}.

(* Repo.Remove: only when the path is a key of dirs: counts[root]--, delete *)
Definition dr_repo_remove (d : dr_id) (s : dr_state) : dr_state :=
  if dr_mem d (dr_active s) then
    {| dr_max := dr_max s; dr_disk := dr_disk s;
       dr_active := dr_rem d (dr_active s);
       dr_counts := dr_upd (fst d) pred (dr_counts s) |}
  else s.

(* Repo.Add: no-op when the path is a key of dirs; else counts[root]++, insert *)
Definition dr_repo_add (d : dr_id) (s : dr_state) : dr_state :=
  if dr_mem d (dr_active s) then s
  else {| dr_max := dr_max s; dr_disk := dr_disk s;
          dr_active := dr_active s ++ [d];
          dr_counts := dr_upd (fst d) S (dr_counts s) |}.

(* usecase/dir.Get, first loop: roots := GetRoots() (a snapshot of the counters);
   for every root whose counter is 0: Create a fresh directory *)
Definition dr_phase1 (s : dr_state) : dr_state :=
  let snap := dr_counts s in
  fold_left (fun st r => if nth r snap 0 =? 0 then dr_create r st else st)
            (seq 0 (dr_nroots s)) s.

(* second loop: dirs := Repo.Get() (snapshot of the active set, counts read from
   disk); for every one with Count >= maxCount: Remove it, Create a fresh one in
   the same root.  A ReadDir error would abort Get; it cannot happen (active
   directories exist on disk, DirsProofs.dr_inv). *)
Definition dr_rotate1 (max : nat) (disk0 : dr_disk_t) (st : dr_state) (d : dr_id) : dr_state :=
  match dr_count_of disk0 d with
  | Some n => if max <=? n then dr_create (fst d) (dr_repo_remove d st) else st
  | None => st
  end.

Definition dr_phase2 (s : dr_state) : dr_state :=
  fold_left (dr_rotate1 (dr_max s) (dr_disk s)) (dr_active s) s.

Definition dr_get_phase (s : dr_state) : dr_state := dr_phase2 (dr_phase1 s).

(* store.Set after dir.Get: every candidate (= active directory after the Get
   phase) is tried at most once; a file is created in each tried directory.
   [ds] = the directories in which this call created a file, in order: those
   that ran out of space (their partial file stays: NotEnoughSpaceError.Close
   only closes it), then the one that took the content.  The choice is an
   input; a directory that is not a candidate, or is named twice, gets nothing. *)
Fixpoint dr_put_each (allowed seen ds : list dr_id) (disk : dr_disk_t) : dr_disk_t :=
  match ds with
  | [] => disk
  | d :: ds' =>
    if dr_mem d allowed && negb (dr_mem d seen)
    then dr_put_each allowed (d :: seen) ds' (dr_upd2 S d disk)
    else dr_put_each allowed seen ds' disk
  end.

Definition dr_allowed (s : dr_state) (c : dr_id) : bool := dr_mem c (dr_active (dr_get_phase s)).

Definition dr_alloc (spill : list dr_id) (c : dr_id) (s : dr_state) : dr_state :=
  let s1 := dr_get_phase s in
  {| dr_max := dr_max s1;
     dr_disk := dr_put_each (dr_active s1) [] (spill ++ [c]) (dr_disk s1);
     dr_active := dr_active s1;
     dr_counts := dr_counts s1 |}.

(* cleaner.deleteFile: os.Remove of the content (a missing file is tolerated),
   then Repo.Add(ParseDir(parent)) — also when the directory is still full *)
Definition dr_free (d : dr_id) (s : dr_state) : dr_state :=
  match dr_count_of (dr_disk s) d with
  | None => s            (* content records only name directories that were created *)
  | Some _ =>
    dr_repo_add d {| dr_max := dr_max s; dr_disk := dr_upd2 pred d (dr_disk s);
                     dr_active := dr_active s; dr_counts := dr_counts s |}
  end.

(* dir.New: every UUID-named directory found under a root becomes active *)
Fixpoint dr_all_from (r : nat) (disk : dr_disk_t) : list dr_id :=
  match disk with
  | [] => []
  | l :: t => map (pair r) (seq 0 (length l)) ++ dr_all_from (S r) t
  end.

Definition dr_reopen (s : dr_state) : dr_state :=
  {| dr_max := dr_max s; dr_disk := dr_disk s;
     dr_active := dr_all_from 0 (dr_disk s);
     dr_counts := map (@length nat) (dr_disk s) |}.

Inductive dr_op :=
| DAlloc (spill : list dr_id) (c : dr_id)  (* one store.Set: Get phase, then entries (see dr_put_each) *)
| DOrphan (d : dr_id)                      (* one store.Set whose only file stays without a content record *)
| DFree (d : dr_id)                        (* cleaner removed one content of d *)
| DReopen.

(* on the directory tree an orphan is an Alloc whose content record is missing *)
Definition dr_step (s : dr_state) (o : dr_op) : dr_state :=
  match o with
  | DAlloc sp c => dr_alloc sp c s
  | DOrphan d => dr_alloc [] d s
  | DFree d => dr_free d s
  | DReopen => dr_reopen s
  end.

Definition dr_run (ops : list dr_op) (s : dr_state) : dr_state := fold_left dr_step ops s.

Definition dr_nact (r : nat) (l : list dr_id) : nat := length (filter (fun d => fst d =? r) l).

(* ---- paths: Dir.Path() = path.Join(root, name); ParseDir = (path.Dir, path.Base).
   Characters are numbers; roots are clean (repository.New applies path.Join to
   each root) and different from "/"; names are UUIDs (no slash). *)
Definition dr_slash : nat := 47.

Definition dr_join (root name : list nat) : list nat := root ++ dr_slash :: name.

Fixpoint dr_split_last (p : list nat) : option (list nat * list nat) :=
  match p with
  | [] => None
  | c :: t =>
    match dr_split_last t with
    | Some (d, b) => Some (c :: d, b)
    | None => if c =? dr_slash then Some ([], t) else None
    end
  end.

(* (root, name); a path without a slash has directory "." *)
Definition dr_parse (p : list nat) : list nat * list nat :=
  match dr_split_last p with Some x => x | None => ([46], p) end.
