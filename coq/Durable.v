(* Durable: Load / reopen (C05), and what is on disk at quiescence (C14). *)
From Coq Require Import List NArith Bool Lia Sorted Permutation.
From FsDb Require Import VList VListProofs Core Spec CoreLemmas CoreInv Refine SpecProps CoreInvK.
Import ListNotations.
Open Scope N_scope.

(* ---------- sort_amap ---------- *)
Section SortAMap.
  Context {V : Type}.
  Implicit Types (s : list (N * V)).

  Lemma keys_insert_amap k v s : map fst (insert_amap k v s) = insert_sorted k (map fst s).
  Proof.
    induction s as [|[k' v'] s IH]; [reflexivity|]. cbn [insert_amap map fst insert_sorted].
    destruct (N.leb k k'); cbn [map fst]; [reflexivity | rewrite IH; reflexivity].
  Qed.

  Lemma keys_sort_amap s : map fst (sort_amap s) = sort_keys (map fst s).
  Proof.
    induction s as [|[k v] s IH]; [reflexivity|]. cbn [sort_amap fold_right fst snd map sort_keys].
    fold (sort_amap s). fold (sort_keys (map fst s)). rewrite keys_insert_amap, IH. reflexivity.
  Qed.

  Lemma aget_insert_amap k v s k' :
    ~ In k (map fst s) -> aget (insert_amap k v s) k' = if N.eqb k' k then Some v else aget s k'.
  Proof.
    induction s as [|[k0 v0] s IH]; intros Hn; cbn [insert_amap aget]; [reflexivity|].
    destruct (N.leb k k0); cbn [aget]; [reflexivity|].
    rewrite IH by (intros H; apply Hn; right; exact H).
    destruct (N.eqb_spec k' k0) as [->|]; [|reflexivity].
    destruct (N.eqb_spec k0 k) as [->|]; [|reflexivity]. exfalso. apply Hn. left. reflexivity.
  Qed.

  Lemma aget_sort_amap s k : NoDup (map fst s) -> aget (sort_amap s) k = aget s k.
  Proof.
    induction s as [|[k0 v0] s IH]; intros Hnd; [reflexivity|].
    cbn [map fst] in Hnd. inversion Hnd as [|? ? Hn Hnd']; subst.
    cbn [sort_amap fold_right fst snd]. fold (sort_amap s).
    rewrite aget_insert_amap.
    - cbn [aget]. destruct (N.eqb k k0); [reflexivity | apply IH; exact Hnd'].
    - rewrite keys_sort_amap, In_sort_keys. exact Hn.
  Qed.
End SortAMap.

(* a strictly sorted list is determined by its elements *)
Lemma sorted_lt_unique (l l' : list N) :
  Sorted N.lt l -> Sorted N.lt l' -> (forall x, In x l <-> In x l') -> l = l'.
Proof.
  revert l'. induction l as [|a l IH]; intros l' Hs Hs' Heq.
  - destruct l' as [|b l']; [reflexivity|]. exfalso. apply (Heq b). left. reflexivity.
  - destruct l' as [|b l']; [exfalso; apply (Heq a); left; reflexivity|].
    apply Sorted_StronglySorted in Hs; [|intros x y z; apply N.lt_trans].
    apply Sorted_StronglySorted in Hs'; [|intros x y z; apply N.lt_trans].
    apply StronglySorted_inv in Hs. destruct Hs as [Hsl Hfa].
    apply StronglySorted_inv in Hs'. destruct Hs' as [Hsl' Hfb].
    rewrite Forall_forall in Hfa, Hfb.
    assert (E : a = b).
    { destruct (proj1 (Heq a) (or_introl eq_refl)) as [E|Ha]; [symmetry; exact E|].
      destruct (proj2 (Heq b) (or_introl eq_refl)) as [E|Hb]; [exact E|].
      specialize (Hfa b Hb). specialize (Hfb a Ha). lia. }
    subst b. f_equal. apply IH.
    + apply StronglySorted_Sorted. exact Hsl.
    + apply StronglySorted_Sorted. exact Hsl'.
    + intros x. split; intros Hx.
      * destruct (proj1 (Heq x) (or_intror Hx)) as [E|H]; [|exact H]. subst x. specialize (Hfa a Hx). lia.
      * destruct (proj2 (Heq x) (or_intror Hx)) as [E|H]; [|exact H]. subst x. specialize (Hfb a Hx). lia.
Qed.

Lemma sort_keys_sorted_lt l : NoDup l -> Sorted N.lt (sort_keys l).
Proof.
  intros Hnd. assert (Hs := sort_keys_sorted l). assert (Hn := sort_keys_NoDup l Hnd).
  induction (sort_keys l) as [|a r IH]; [constructor|].
  inversion Hs as [|? ? Hs' Hhd]; subst. inversion Hn as [|? ? Hnotin Hn']; subst.
  constructor; [exact (IH Hs' Hn')|].
  destruct r as [|b r]; constructor. inversion Hhd; subst.
  assert (a <> b) by (intros ->; apply Hnotin; left; reflexivity). lia.
Qed.

Lemma sort_keys_ext l l' :
  NoDup l -> NoDup l' -> (forall x, In x l <-> In x l') -> sort_keys l = sort_keys l'.
Proof.
  intros H1 H2 Heq. apply sorted_lt_unique; try (apply sort_keys_sorted_lt; assumption).
  intros x. rewrite !In_sort_keys. apply Heq.
Qed.

(* ---------- Load: the fold over the persisted version records ---------- *)
Definition load_inv (pre : list ver) (acc : list (N * ver) * list ver) : Prop :=
  NoDup (map fst (fst acc)) /\
  (forall k w, aget (fst acc) k = Some w ->
     In w pre /\ v_tx w = 0 /\ v_key w = k /\
     forall r, In r pre -> v_tx r = 0 -> v_key r = k -> v_seq r <= v_seq w) /\
  (forall k, aget (fst acc) k = None -> forall r, In r pre -> v_tx r = 0 -> v_key r <> k) /\
  (forall d, In d (snd acc) -> In d pre /\ forall k, aget (fst acc) k <> Some d) /\
  (forall r, In r pre -> (exists k, aget (fst acc) k = Some r) \/ In r (snd acc)).

Lemma load_step_inv pre acc f :
  ~ In f pre -> load_inv pre acc -> load_inv (pre ++ [f]) (load_step acc f).
Proof.
  intros Hnew (Hnd & Hwin & Hnone & Hdel & Hall). destruct acc as [win del]. cbn [fst snd] in *.
  assert (Hin_pre : forall r, In r pre -> In r (pre ++ [f])) by (intros r Hr; apply in_or_app; left; exact Hr).
  assert (Hin_f : In f (pre ++ [f])) by (apply in_or_app; right; left; reflexivity).
  assert (Hwin_ne : forall k w, aget win k = Some w -> w <> f).
  { intros k w Hw ->. apply Hnew. exact (proj1 (Hwin k f Hw)). }
  assert (Hsplit : forall r, In r (pre ++ [f]) -> In r pre \/ r = f).
  { intros r Hr. apply in_app_or in Hr. destruct Hr as [Hr|[<-|[]]]; auto. }
  (* the three outcomes of a step *)
  assert (Hdelete : (v_tx f <> 0 \/ exists w, aget win (v_key f) = Some w /\ v_seq f < v_seq w) ->
                    load_inv (pre ++ [f]) (win, del ++ [f])).
  { intros Hwhy. unfold load_inv. cbn [fst snd].
    split; [exact Hnd|]. split; [|split; [|split]].
    - intros k w Hw. destruct (Hwin k w Hw) as (H1 & H2 & H3 & H4).
      split; [apply Hin_pre; exact H1|]. split; [exact H2|]. split; [exact H3|].
      intros r Hr Hr0 Hrk. destruct (Hsplit r Hr) as [Hr'| ->]; [exact (H4 r Hr' Hr0 Hrk)|].
      destruct Hwhy as [Hnm|(w' & Hw' & Hlt)]; [contradiction|].
      rewrite Hrk in Hw'. rewrite Hw' in Hw. injection Hw as <-. lia.
    - intros k Hk r Hr Hr0. destruct (Hsplit r Hr) as [Hr'| ->]; [exact (Hnone k Hk r Hr' Hr0)|].
      destruct Hwhy as [Hnm|(w' & Hw' & _)]; [contradiction|]. intros E. rewrite E in Hw'. congruence.
    - intros d Hd. apply in_app_or in Hd. destruct Hd as [Hd|[<-|[]]].
      + split; [apply Hin_pre; exact (proj1 (Hdel d Hd)) | exact (proj2 (Hdel d Hd))].
      + split; [exact Hin_f|]. intros k E. exact (Hwin_ne k f E eq_refl).
    - intros r Hr. destruct (Hsplit r Hr) as [Hr'| ->].
      + destruct (Hall r Hr') as [H|H]; [left; exact H | right; apply in_or_app; left; exact H].
      + right. apply in_or_app. right. left. reflexivity. }
  assert (Hinstall : v_tx f = 0 ->
                     (forall r, In r pre -> v_tx r = 0 -> v_key r = v_key f -> v_seq r <= v_seq f) ->
                     load_inv (pre ++ [f])
                              (aset win (v_key f) f,
                               match aget win (v_key f) with Some w => del ++ [w] | None => del end)).
  { intros Hmain Hmax. unfold load_inv. cbn [fst snd].
    split; [apply NoDup_keys_aset'; exact Hnd|]. split; [|split; [|split]].
    - intros k w Hw. rewrite aget_aset in Hw. destruct (N.eqb_spec k (v_key f)) as [Ek|Hk]; [subst k|].
      + injection Hw as <-. split; [exact Hin_f|]. split; [exact Hmain|]. split; [reflexivity|].
        intros r Hr Hr0 Hrk. destruct (Hsplit r Hr) as [Hr'| ->]; [exact (Hmax r Hr' Hr0 Hrk) | lia].
      + destruct (Hwin k w Hw) as (H1 & H2 & H3 & H4).
        split; [apply Hin_pre; exact H1|]. split; [exact H2|]. split; [exact H3|].
        intros r Hr Hr0 Hrk. destruct (Hsplit r Hr) as [Hr'| ->]; [exact (H4 r Hr' Hr0 Hrk) | congruence].
    - intros k Hk r Hr Hr0. rewrite aget_aset in Hk. destruct (N.eqb_spec k (v_key f)) as [Ek|Hne]; [discriminate|].
      destruct (Hsplit r Hr) as [Hr'| ->]; [exact (Hnone k Hk r Hr' Hr0) | congruence].
    - intros d Hd.
      assert (Hd' : In d del \/ aget win (v_key f) = Some d).
      { destruct (aget win (v_key f)) as [w|]; [|left; exact Hd].
        apply in_app_or in Hd. destruct Hd as [Hd|[<-|[]]]; [left; exact Hd | right; reflexivity]. }
      destruct Hd' as [Hd'|Hd'].
      + split; [apply Hin_pre; exact (proj1 (Hdel d Hd'))|]. intros k. rewrite aget_aset.
        destruct (N.eqb_spec k (v_key f)) as [Ek|Hk]; [subst k|exact (proj2 (Hdel d Hd') k)].
        intros E. injection E as <-. apply Hnew. exact (proj1 (Hdel f Hd')).
      + destruct (Hwin _ _ Hd') as (H1 & _ & H3 & _). split; [apply Hin_pre; exact H1|].
        intros k. rewrite aget_aset. destruct (N.eqb_spec k (v_key f)) as [Ek|Hk]; [subst k|].
        * intros E. injection E as <-. exact (Hwin_ne _ _ Hd' eq_refl).
        * intros E. destruct (Hwin k d E) as (_ & _ & Hk' & _). congruence.
    - intros r Hr. destruct (Hsplit r Hr) as [Hr'| ->].
      + destruct (Hall r Hr') as [(k & Hk)|H].
        * destruct (N.eqb_spec k (v_key f)) as [Ek|Hne]; [subst k|].
          -- rewrite Hk. right. apply in_or_app. right. left. reflexivity.
          -- left. exists k. rewrite aget_aset. destruct (N.eqb_spec k (v_key f)); [contradiction | exact Hk].
        * right. destruct (aget win (v_key f)); [apply in_or_app; left; exact H | exact H].
      + left. exists (v_key f). rewrite aget_aset, N.eqb_refl. reflexivity. }
  unfold load_step.
  destruct (N.eqb_spec (v_tx f) 0) as [Hmain|Hnm]; cbn [negb].
  - destruct (aget win (v_key f)) as [w|] eqn:Ew.
    + destruct (Hwin _ _ Ew) as (Hw1 & Hw2 & Hw3 & Hw4).
      destruct (N.ltb_spec (v_seq f) (v_seq w)) as [Hlt|Hge].
      * apply Hdelete. right. exists w. auto.
      * specialize (Hinstall Hmain). apply Hinstall.
        intros r Hr Hr0 Hrk. specialize (Hw4 r Hr Hr0 Hrk). lia.
    + specialize (Hinstall Hmain). apply Hinstall.
      intros r Hr Hr0 Hrk. exfalso. exact (Hnone _ Ew r Hr Hr0 Hrk).
  - apply Hdelete. left. exact Hnm.
Qed.

Lemma load_fold_inv rest : forall pre acc,
  NoDup (pre ++ rest) -> load_inv pre acc -> load_inv (pre ++ rest) (fold_left load_step rest acc).
Proof.
  induction rest as [|f rest IH]; intros pre acc Hnd H; [rewrite app_nil_r; exact H|].
  cbn [fold_left]. replace (pre ++ f :: rest) with ((pre ++ [f]) ++ rest) by (rewrite <- app_assoc; reflexivity).
  apply IH.
  - rewrite <- app_assoc. exact Hnd.
  - apply load_step_inv; [|exact H]. apply NoDup_remove_2 in Hnd. intros Hin. apply Hnd. apply in_or_app. left. exact Hin.
Qed.

Lemma load_inv_nil : load_inv [] ([], []).
Proof.
  repeat split; cbn; try (intros; discriminate); try (intros; contradiction). constructor.
Qed.

(* ---------- the records Load sees, under the record invariant ---------- *)
Lemma In_amap_aget {V} (s : list (N * V)) c r :
  NoDup (map fst s) -> In (c, r) s -> aget s c = Some r.
Proof.
  induction s as [|[c0 r0] s IH]; intros Hnd Hin; [destruct Hin|].
  cbn [map fst] in Hnd. inversion Hnd as [|? ? Hn Hnd']; subst. cbn [aget].
  destruct Hin as [E|Hin].
  - injection E as -> ->. rewrite N.eqb_refl. reflexivity.
  - destruct (N.eqb_spec c c0) as [->|]; [|exact (IH Hnd' Hin)].
    exfalso. apply Hn. apply (in_map fst) in Hin. exact Hin.
Qed.

Lemma In_recs m r : InvKV m -> (In r (map snd (m_kvf m)) <-> aget (m_kvf m) (v_cid r) = Some r).
Proof.
  intros K. split.
  - intros Hin. apply in_map_iff in Hin. destruct Hin as ([c r'] & E & Hin). cbn in E. subst r'.
    assert (Hg := In_amap_aget _ c r (k_keys m K) Hin).
    destruct (k_record m K c r Hg) as (Hc & _). rewrite Hc. exact Hg.
  - intros Hg. apply aget_In in Hg. apply (in_map snd) in Hg. exact Hg.
Qed.

Lemma recs_NoDup m : InvKV m -> NoDup (map snd (m_kvf m)).
Proof.
  intros K. apply (NoDup_map_inv v_cid).
  assert (E : map v_cid (map snd (m_kvf m)) = map fst (m_kvf m)).
  { rewrite map_map. apply map_ext_in. intros [c r] Hin. cbn.
    assert (Hg := In_amap_aget _ c r (k_keys m K) Hin). exact (proj1 (k_record m K c r Hg)). }
  rewrite E. apply (k_keys m K).
Qed.

Lemma load_winners_inv m : InvKV m -> load_inv (map snd (m_kvf m)) (load_winners m).
Proof.
  intros K. unfold load_winners.
  apply (load_fold_inv (map snd (m_kvf m)) [] ([], [])); [exact (recs_NoDup m K) | exact load_inv_nil].
Qed.

(* the winner of a key is its newest committed version *)
Lemma winners_are_latest m k :
  Inv m -> InvKV m ->
  aget (fst (load_winners m)) k = last_opt (filter is_main (lget (m_all m) k)).
Proof.
  intros I K. destruct (load_winners_inv m K) as (_ & Hwin & Hnone & _ & _).
  assert (Hmain0 : forall v, is_main v = true <-> v_tx v = 0) by (intros v; unfold is_main; apply N.eqb_eq).
  destruct (last_opt (filter is_main (lget (m_all m) k))) as [w0|] eqn:E0.
  - assert (Hw0 := last_opt_In _ _ _ E0). apply filter_In in Hw0. destruct Hw0 as [Hw0 Hm0].
    destruct (inv_range m I _ _ Hw0) as (_ & _ & Hk0 & _).
    assert (Hrec0 : In w0 (map snd (m_kvf m))) by (apply (In_recs m w0 K); apply (k_listed m K k w0 Hw0)).
    destruct (aget (fst (load_winners m)) k) as [w|] eqn:Ew.
    + destruct (Hwin k w Ew) as (Hw1 & Hw2 & Hw3 & Hw4).
      assert (Hle : v_seq w0 <= v_seq w) by (apply Hw4; [exact Hrec0 | apply Hmain0; exact Hm0 | exact Hk0]).
      apply (In_recs m w K) in Hw1. destruct (k_record m K _ _ Hw1) as (_ & _ & _ & _ & Hw5).
      unfold stale in Hw5. rewrite Hw3 in Hw5.
      assert (Hge : v_seq w <= v_seq w0).
      { destruct Hw5 as [Hin|[Hnm|(w' & Hw' & Hm' & Hlt)]].
        - destruct (main_le_last _ w (inv_sorted m I k) Hin (proj2 (Hmain0 w) Hw2)) as (w1 & E1 & Hle1).
          rewrite E0 in E1. injection E1 as <-. exact Hle1.
        - contradiction.
        - destruct (main_le_last _ w' (inv_sorted m I k) Hw' Hm') as (w1 & E1 & Hle1).
          rewrite E0 in E1. injection E1 as <-. lia. }
      assert (Ec : v_cid w = v_cid w0).
      { apply (k_seq_inj m K _ _ w w0 Hw1 (k_listed m K k w0 Hw0)); [exact Hw2 | apply Hmain0; exact Hm0 | lia]. }
      rewrite Ec in Hw1. rewrite (k_listed m K k w0 Hw0) in Hw1. injection Hw1 as ->. reflexivity.
    + exfalso. apply (Hnone k Ew w0 Hrec0); [apply Hmain0; exact Hm0 | exact Hk0].
  - destruct (aget (fst (load_winners m)) k) as [w|] eqn:Ew; [|reflexivity]. exfalso.
    destruct (Hwin k w Ew) as (Hw1 & Hw2 & Hw3 & _).
    apply (In_recs m w K) in Hw1. destruct (k_record m K _ _ Hw1) as (_ & _ & _ & _ & Hw5).
    unfold stale in Hw5. rewrite Hw3 in Hw5. apply last_opt_none in E0.
    assert (Hno : forall v, In v (lget (m_all m) k) -> is_main v = true -> False).
    { intros v Hv Hm. assert (Hin : In v (filter is_main (lget (m_all m) k))) by (apply filter_In; auto).
      rewrite E0 in Hin. exact Hin. }
    destruct Hw5 as [Hin|[Hnm|(w' & Hw' & Hm' & _)]].
    + exact (Hno w Hin (proj2 (Hmain0 w) Hw2)).
    + contradiction.
    + exact (Hno w' Hw' Hm').
Qed.

(* ---------- the reopened state ---------- *)
Definition latest_main (m : mstate) (k : N) : option ver := last_opt (filter is_main (lget (m_all m) k)).
Definition opt_list {A} (o : option A) : list A := match o with Some x => [x] | None => [] end.

Lemma reopen_unfold g m :
  reopen_with g m =
  let win := fst (load_winners m) in
  let del := snd (load_winners m) in
  let maxseq := fold_left (fun a p => N.max a (v_seq (snd p))) win 1 in
  let stores := sort_amap (map (fun p => (fst p, [snd p])) win) in
  enqueue (mkm (N.max g maxseq) [] [(0, stores)] stores (m_cont m) (m_kvf m) []
               (m_nexttx m) (m_nextcid m)) del.
Proof. unfold reopen_with, reopen_gen, seq_set_fixed. destruct (load_winners m) as [win del]. reflexivity. Qed.

Lemma reopen_all g m k :
  Inv m -> InvKV m -> lget (m_all (reopen_with g m)) k = opt_list (latest_main m k).
Proof.
  intros I K. rewrite reopen_unfold. cbn zeta.
  match goal with |- lget (m_all (enqueue ?m1 ?d)) k = _ =>
    destruct (enqueue_fields m1 d) as (_ & _ & _ & -> & _) end.
  cbn [m_all]. unfold lget. rewrite aget_sort_amap.
  - rewrite (aget_map_snd (fun _ w => [w])). rewrite (winners_are_latest m k I K). unfold latest_main.
    destruct (last_opt (filter is_main (lget (m_all m) k))); reflexivity.
  - rewrite map_map. cbn [fst]. exact (proj1 (load_winners_inv m K)).
Qed.

Lemma reopen_tx g m h k :
  Inv m -> InvKV m ->
  sget (m_tx (reopen_with g m)) h k = if N.eqb h 0 then opt_list (latest_main m k) else [].
Proof.
  intros I K. assert (A := reopen_all g m k I K). rewrite reopen_unfold in *. cbn zeta in *.
  match goal with |- sget (m_tx (enqueue ?m1 ?d)) h k = _ =>
    destruct (enqueue_fields m1 d) as (_ & _ & Et & Ea & _) end.
  cbn zeta in Et, Ea. rewrite Et. rewrite Ea in A. cbn [m_tx m_all] in *.
  unfold sget. cbn [aget]. destruct (N.eqb h 0); [exact A | reflexivity].
Qed.

Lemma reopen_fields g m :
  let m' := reopen_with g m in
  m_reg m' = [] /\ m_cont m' = m_cont m /\ m_kvf m' = m_kvf m /\
  m_nexttx m' = m_nexttx m /\ m_nextcid m' = m_nextcid m /\
  m_seq m' = N.max g (fold_left (fun a p => N.max a (v_seq (snd p))) (fst (load_winners m)) 1) /\
  map fst (m_all m') = sort_keys (map fst (fst (load_winners m))) /\
  (forall j, In j (m_q m') -> j = snd (load_winners m)).
Proof.
  cbn zeta. rewrite reopen_unfold. cbn zeta.
  match goal with |- context [enqueue ?m1 ?d] =>
    destruct (enqueue_fields m1 d) as (E1 & E2 & E3 & E4 & E5 & E6 & E7);
    assert (Ekvf : m_kvf (enqueue m1 d) = m_kvf m1) by (unfold enqueue; destruct d; reflexivity);
    assert (Hq : forall j, In j (m_q (enqueue m1 d)) -> j = d)
      by (intros j Hj; apply In_enqueue in Hj; destruct Hj as [[]|Hj]; exact Hj)
  end.
  cbn zeta in *. rewrite E1, E2, E4, E5, E6, E7, Ekvf. cbn [m_seq m_reg m_all m_cont m_kvf m_nexttx m_nextcid].
  repeat split; try exact Hq.
  rewrite keys_sort_amap, map_map. reflexivity.
Qed.

Lemma latest_main_facts m k w :
  Inv m -> latest_main m k = Some w ->
  In w (lget (m_all m) k) /\ is_main w = true /\ v_key w = k.
Proof.
  intros I E. unfold latest_main in E. apply last_opt_In in E. apply filter_In in E. destruct E as [H1 H2].
  destruct (inv_range m I _ _ H1) as (_ & _ & H3 & _). auto.
Qed.

Lemma In_reopen_all g m k v :
  Inv m -> InvKV m -> In v (lget (m_all (reopen_with g m)) k) -> latest_main m k = Some v.
Proof.
  intros I K H. rewrite (reopen_all g m k I K) in H. destruct (latest_main m k) as [w|]; [|destruct H].
  destruct H as [<-|[]]. reflexivity.
Qed.

Lemma fold_max_ge (win : list (N * ver)) : forall a p,
  In p win -> v_seq (snd p) <= fold_left (fun a0 (p0 : N * ver) => N.max a0 (v_seq (snd p0))) win a.
Proof.
  assert (Hmono : forall (l : list (N * ver)) a, a <= fold_left (fun a0 (p0 : N * ver) => N.max a0 (v_seq (snd p0))) l a).
  { induction l as [|q l IH]; intros a; [apply N.le_refl|]. cbn [fold_left].
    specialize (IH (N.max a (v_seq (snd q)))). lia. }
  induction win as [|q win IH]; intros a p Hp; [destruct Hp|]. cbn [fold_left].
  destruct Hp as [->|Hp]; [|apply IH; exact Hp].
  specialize (Hmono win (N.max a (v_seq (snd p)))). lia.
Qed.

(* reopening keeps every invariant, whatever value [g] the process-global counter has *)
Lemma reopen_sound_gen g m :
  Inv m -> InvKV m ->
  Inv (reopen_with g m) /\ InvKV (reopen_with g m).
Proof.
  intros I KV.
  destruct (reopen_fields g m) as (Er & Ec & Ek & Ent & Enc & Eseq & Ekeys & Eq). cbn zeta in *.
  destruct (load_winners_inv m KV) as (Hnd & Hwin & Hnone & Hdel & Hall).
  assert (Hseq : forall c r, aget (m_kvf m) c = Some r -> v_tx r = 0 -> v_seq r <= m_seq (reopen_with g m)).
  { intros c r Hr Hm. destruct (k_record m KV c r Hr) as (Hc & _).
    assert (Hrec : In r (map snd (m_kvf m))) by (apply (In_recs m r KV); rewrite Hc; exact Hr).
    destruct (aget (fst (load_winners m)) (v_key r)) as [w|] eqn:Ew.
    - destruct (Hwin _ _ Ew) as (_ & _ & _ & W4). specialize (W4 r Hrec Hm eq_refl).
      apply aget_In in Ew. assert (Hge := fold_max_ge (fst (load_winners m)) 1 _ Ew). cbn [snd] in Hge.
      rewrite Eseq. lia.
    - exfalso. exact (Hnone _ Ew r Hrec Hm eq_refl). }
  assert (Hlat : forall k v, In v (lget (m_all (reopen_with g m)) k) ->
                 In v (lget (m_all m) k) /\ is_main v = true /\ v_key v = k /\ latest_main m k = Some v).
  { intros k v Hv. apply (In_reopen_all g m k v I KV) in Hv.
    destruct (latest_main_facts m k v I Hv) as (H1 & H2 & H3). auto. }
  split.
  - constructor.
    + intros k. rewrite (reopen_all g m k I KV). destruct (latest_main m k); repeat constructor.
    + intros k v Hv. destruct (Hlat k v Hv) as (H1 & H2 & H3 & _).
      destruct (inv_range m I _ _ H1) as (Hp & _ & _ & Hc). rewrite Enc.
      repeat split; try assumption. apply (Hseq (v_cid v) v); [apply (k_listed m KV k v H1)|].
      unfold is_main in H2. apply N.eqb_eq. exact H2.
    + intros h k. rewrite (reopen_tx g m h k I KV), (reopen_all g m k I KV).
      destruct (latest_main m k) as [w|] eqn:E; cbn [opt_list filter].
      * destruct (latest_main_facts m k w I E) as (_ & Hm & _). unfold owned, is_main in *.
        apply N.eqb_eq in Hm. rewrite Hm. rewrite (N.eqb_sym 0 h). destruct (N.eqb h 0); reflexivity.
      * destruct (N.eqb h 0); reflexivity.
    + rewrite Er. constructor.
    + rewrite Er. intros x [].
    + rewrite Er. intros x k v [].
    + intros k v Hv. left. destruct (Hlat k v Hv) as (_ & Hm & _). unfold is_main in Hm. apply N.eqb_eq. exact Hm.
    + intros k1 k2 v1 v2 H1 H2. destruct (Hlat k1 v1 H1) as (A1 & _). destruct (Hlat k2 v2 H2) as (A2 & _).
      apply (inv_cid_inj m I k1 k2); assumption.
    + intros job d Hj Hd. apply Eq in Hj. subst job. rewrite Enc.
      destruct (Hdel d Hd) as [Hpre Hnw]. apply (In_recs m d KV) in Hpre.
      destruct (k_record m KV _ _ Hpre) as (_ & _ & _ & Hlt & _). split; [exact Hlt|].
      intros k v Hv E. destruct (Hlat k v Hv) as (A1 & _ & _ & A4).
      assert (Hrv := k_listed m KV k v A1). rewrite E in Hrv. rewrite Hpre in Hrv. injection Hrv as ->.
      apply (Hnw k). rewrite (winners_are_latest m k I KV). exact A4.
    + intros c x. rewrite Ec, Enc. apply (inv_cont m I).
    + rewrite Ent. apply (inv_nexttx m I).
    + rewrite Ekeys. apply sort_keys_NoDup. exact Hnd.
  - constructor; unfold stale; rewrite ?Ek, ?Enc.
    + intros k v Hv. destruct (Hlat k v Hv) as (A1 & _). apply (k_listed m KV k v A1).
    + intros c r Hr. destruct (k_record m KV c r Hr) as (H1 & H2 & _ & H4 & _).
      split; [exact H1|]. split; [exact H2|]. split; [exact (Hseq c r Hr)|]. split; [exact H4|].
      assert (Hrec : In r (map snd (m_kvf m))) by (apply (In_recs m r KV); rewrite H1; exact Hr).
      destruct (N.eqb_spec (v_tx r) 0) as [Hm|Hnm]; [|right; left; exact Hnm].
      destruct (aget (fst (load_winners m)) (v_key r)) as [w|] eqn:Ew.
      * destruct (Hwin _ _ Ew) as (W1 & W2 & W3 & W4).
        assert (Hlm : latest_main m (v_key r) = Some w) by (unfold latest_main; rewrite <- (winners_are_latest m _ I KV); exact Ew).
        destruct (latest_main_facts m _ w I Hlm) as (L1 & L2 & L3).
        assert (Hin' : In w (lget (m_all (reopen_with g m)) (v_key r))).
        { rewrite (reopen_all g m _ I KV), Hlm. left. reflexivity. }
        destruct (N.eq_dec (v_seq r) (v_seq w)) as [Es|Ns].
        -- left. apply (In_recs m w KV) in W1.
           assert (Ecid : c = v_cid w) by (apply (k_seq_inj m KV c (v_cid w) r w Hr W1 Hm W2 Es)).
           rewrite Ecid in Hr. rewrite W1 in Hr. injection Hr as <-. exact Hin'.
        -- right. right. exists w. split; [exact Hin'|]. split; [exact L2|].
           specialize (W4 r Hrec Hm eq_refl). lia.
      * exfalso. exact (Hnone _ Ew r Hrec Hm eq_refl).
    + apply (k_seq_inj m KV).
    + apply (k_keys m KV).
Qed.

Lemma reopen_invKC_gen g m :
  Inv m -> InvKV m -> InvKC m -> InvKC (reopen_with g m).
Proof.
  intros I KV KC.
  destruct (reopen_fields g m) as (Er & Ec & Ek & Ent & Enc & Eseq & Ekeys & Eq). cbn zeta in *.
  destruct (load_winners_inv m KV) as (Hnd & Hwin & Hnone & Hdel & Hall).
  assert (Hseq : forall c r, aget (m_kvf m) c = Some r -> v_tx r = 0 -> v_seq r <= m_seq (reopen_with g m)).
  { intros c r Hr Hm. destruct (k_record m KV c r Hr) as (Hc & _).
    assert (Hrec : In r (map snd (m_kvf m))) by (apply (In_recs m r KV); rewrite Hc; exact Hr).
    destruct (aget (fst (load_winners m)) (v_key r)) as [w|] eqn:Ew.
    - destruct (Hwin _ _ Ew) as (_ & _ & _ & W4). specialize (W4 r Hrec Hm eq_refl).
      apply aget_In in Ew. assert (Hge := fold_max_ge (fst (load_winners m)) 1 _ Ew). cbn [snd] in Hge.
      rewrite Eseq. lia.
    - exfalso. exact (Hnone _ Ew r Hrec Hm eq_refl). }
  assert (Hlat : forall k v, In v (lget (m_all (reopen_with g m)) k) ->
                 In v (lget (m_all m) k) /\ is_main v = true /\ v_key v = k /\ latest_main m k = Some v).
  { intros k v Hv. apply (In_reopen_all g m k v I KV) in Hv.
    destruct (latest_main_facts m k v I Hv) as (H1 & H2 & H3). auto. }
  constructor; rewrite ?Ec, ?Ek.
  - apply (k_cont_rec m [] KC).
  - intros c x Hc. destruct (k_cont_rec m [] KC c x Hc) as [r Hr].
      destruct (k_record m KV c r Hr) as (H1 & _).
      assert (Hrec : In r (map snd (m_kvf m))) by (apply (In_recs m r KV); rewrite H1; exact Hr).
      destruct (Hall r Hrec) as [(k & Hk)|Hd].
      * left. exists k, r. split; [|exact H1]. rewrite (reopen_all g m k I KV).
        unfold latest_main. rewrite <- (winners_are_latest m k I KV), Hk. left. reflexivity.
      * right. left. exists (snd (load_winners m)), r. split; [|auto].
        rewrite reopen_unfold. cbn zeta. apply In_q_enqueue; [|right; reflexivity].
        intros En. rewrite En in Hd. exact Hd.
Qed.

Lemma reopen_inv_gen g m :
  Inv m -> InvKV m -> InvKC m ->
  Inv (reopen_with g m) /\ InvKV (reopen_with g m) /\ InvKC (reopen_with g m).
Proof.
  intros I KV KC. destruct (reopen_sound_gen g m I KV) as [H1 H2].
  split; [exact H1|]. split; [exact H2|]. exact (reopen_invKC_gen g m I KV KC).
Qed.

Lemma reopen_inv m : Inv m -> InvKV m -> InvKC m -> Inv (reopen m) /\ InvKV (reopen m) /\ InvKC (reopen m).
Proof. apply reopen_inv_gen. Qed.

(* ---------- reopen refines the spec's Reopen ---------- *)
Lemma aget_filter_snd {V} (f : V -> bool) (s : list (N * V)) k :
  NoDup (map fst s) ->
  aget (filter (fun p => f (snd p)) s) k =
  match aget s k with Some v => if f v then Some v else None | None => None end.
Proof.
  induction s as [|[k0 v0] s IH]; intros Hnd; [reflexivity|].
  cbn [map fst] in Hnd. inversion Hnd as [|? ? Hn Hnd']; subst. cbn [filter snd aget].
  destruct (f v0) eqn:Ef; cbn [aget].
  - destruct (N.eqb_spec k k0) as [->|]; [rewrite Ef; reflexivity | apply IH; exact Hnd'].
  - rewrite (IH Hnd'). destruct (N.eqb_spec k k0) as [->|]; [|reflexivity].
    rewrite Ef. destruct (aget s k0) eqn:E; [|reflexivity].
    exfalso. apply Hn. eapply aget_Some_in. exact E.
Qed.

Lemma keys_filter_sub {V} (p : N * V -> bool) (s : list (N * V)) :
  NoDup (map fst s) -> NoDup (map fst (filter p s)).
Proof. apply NoDup_map_filter_fst. Qed.

Lemma vprune_main (l : list ver) :
  vsorted l -> filter is_main (vprune l) = opt_list (last_opt (filter is_main l)).
Proof.
  intros Hs. unfold vprune. rewrite filter_filter.
  destruct (last_opt (filter is_main l)) as [w|] eqn:E.
  - (* exactly the last committed one *)
    assert (Hl := last_opt_some _ _ _ E).
    assert (Hsm : vsorted (filter is_main l)) by (apply sorted_filter; exact Hs).
    transitivity (filter (fun v => N.eqb (v_seq v) (v_seq w)) (filter is_main l)).
    + rewrite filter_filter. apply filter_ext. intros v. unfold vkeep. rewrite E.
      destruct (is_main v), (N.eqb (v_seq v) (v_seq w)); reflexivity.
    + rewrite Hl in Hsm |- *. rewrite filter_app. cbn [filter]. rewrite N.eqb_refl.
      rewrite filter_false; [reflexivity|].
      intros x Hx. apply sorted_app_inv in Hsm. destruct Hsm as (_ & _ & H).
      specialize (H x w Hx (or_introl eq_refl)). apply N.eqb_neq. lia.
  - cbn [opt_list]. apply filter_false. intros v _. unfold vkeep. rewrite E.
    destruct (is_main v); reflexivity.
Qed.

Lemma vprune_single_main w : is_main w = true -> vprune [w] = [w].
Proof.
  intros H. unfold vprune, vkeep. cbn [filter]. rewrite H. cbn [last_opt rev app].
  rewrite N.eqb_refl. reflexivity.
Qed.

Definition spec_reopen (a : astate) : astate := fst (astep a OReopen).

Lemma reopen_sim_gen g m a :
  Inv m -> InvKV m -> R m a -> R (reopen_with g m) (spec_reopen a).
Proof.
  intros I KV HR.
  destruct (reopen_fields g m) as (Er & Ec & _ & Ent & _ & _ & Ekeys & _). cbn zeta in *.
  assert (Hnda : NoDup (map fst (a_vers a))) by (rewrite (r_keys m a HR); apply (inv_keys m I)).
  set (S := filter (fun p : N * list aver => match snd p with [] => false | _ :: _ => true end)
                   (map (fun p => (fst p, filter committed (snd p))) (a_vers a))).
  assert (HndM : NoDup (map fst (map (fun p : N * list aver => (fst p, filter committed (snd p))) (a_vers a))))
    by (rewrite map_map; cbn [fst]; exact Hnda).
  assert (HndS : NoDup (map fst S)) by (apply keys_filter_sub; exact HndM).
  assert (Hvers : forall k, alget (a_vers (spec_reopen a)) k = map (entry m) (opt_list (latest_main m k))).
  { intros k. unfold spec_reopen. cbn [astep fst a_vers]. fold S. unfold alget.
    rewrite (aget_sort_amap S k HndS). unfold S.
    rewrite (aget_filter_snd (fun l : list aver => match l with [] => false | _ :: _ => true end) _ k HndM).
    rewrite (aget_map_snd (fun _ l => filter committed l)).
    assert (E := r_vers m a HR k). unfold alget in E.
    assert (Hf : filter committed (absk m k) = map (entry m) (opt_list (latest_main m k))).
    { unfold absk. rewrite filter_map_comm. f_equal.
      change (fun x => committed (entry m x)) with is_main. apply vprune_main. apply (inv_sorted m I). }
    destruct (aget (a_vers a) k) as [l|].
    - rewrite E, Hf. destruct (map (entry m) (opt_list (latest_main m k))); reflexivity.
    - rewrite <- Hf, <- E. reflexivity. }
  constructor.
  - (* same keys, in key order *)
    rewrite Ekeys. unfold spec_reopen. cbn [astep fst a_vers]. fold S. rewrite keys_sort_amap.
    apply sort_keys_ext; [exact HndS | exact (proj1 (load_winners_inv m KV)) |].
    intros k. split.
    + intros Hk. apply in_keys_aget in Hk. destruct Hk as [l Hl].
      assert (Ha : alget (a_vers (spec_reopen a)) k = l).
      { unfold spec_reopen. cbn [astep fst a_vers]. fold S. unfold alget. rewrite (aget_sort_amap S k HndS), Hl. reflexivity. }
      rewrite Hvers in Ha.
      assert (Hne : l <> []).
      { unfold S in Hl. rewrite (aget_filter_snd (fun l0 : list aver => match l0 with [] => false | _ :: _ => true end) _ k HndM) in Hl.
        destruct (aget (map (fun p : N * list aver => (fst p, filter committed (snd p))) (a_vers a)) k) as [l0|]; [|discriminate].
        destruct l0; [discriminate|]. injection Hl as <-. discriminate. }
      destruct (latest_main m k) as [w|] eqn:Ew; [|cbn in Ha; congruence].
      unfold latest_main in Ew. rewrite <- (winners_are_latest m k I KV) in Ew. eapply aget_Some_in. exact Ew.
    + intros Hk. apply in_keys_aget in Hk. destruct Hk as [w Hw].
      rewrite (winners_are_latest m k I KV) in Hw. fold (latest_main m k) in Hw.
      specialize (Hvers k). rewrite Hw in Hvers. cbn [opt_list map] in Hvers.
      unfold spec_reopen in Hvers. cbn [astep fst a_vers] in Hvers. fold S in Hvers.
      unfold alget in Hvers. rewrite (aget_sort_amap S k HndS) in Hvers.
      destruct (aget S k) eqn:Es; [eapply aget_Some_in; exact Es | discriminate].
  - intros k. rewrite Hvers. unfold absk. rewrite (reopen_all g m k I KV).
    destruct (latest_main m k) as [w|] eqn:Ew; cbn [opt_list]; [|reflexivity].
    destruct (latest_main_facts m k w I Ew) as (_ & Hm & _). rewrite (vprune_single_main w Hm).
    cbn [map]. unfold entry. rewrite Ec. reflexivity.
  - rewrite Er. unfold spec_reopen. cbn [astep fst a_open]. constructor.
  - rewrite Ent. unfold spec_reopen. cbn [astep fst a_nexttx]. apply (r_next m a HR).
Qed.

Lemma reopen_sim m a : Inv m -> InvKV m -> R m a -> R (reopen m) (spec_reopen a).
Proof. apply reopen_sim_gen. Qed.

(* ---------- all operations, Reopen included ---------- *)
Definition Full (m : mstate) : Prop := Inv m /\ InvKV m /\ InvKC m.

Lemma Full_init : Full m_init.
Proof. split; [exact Inv_init | exact InvK_init]. Qed.

Definition op_wf' (a : astate) (o : op) : Prop :=
  match write_handle o with Some h => areader a h <> None | None => True end.

Lemma op_ok_of_wf m a o : R m a -> op_wf a o -> op_ok m o.
Proof.
  intros HR [Hw Hnr]. destruct o; cbn [op_ok write_handle] in *; try exact Logic.I.
  - intros Hk. destruct (N.eqb_spec k 0); [contradiction|]. eapply registered_of_reader; eassumption.
  - eapply registered_of_reader; eassumption.
  - apply Hnr. reflexivity.
Qed.

Theorem step_refines_full m a o :
  Full m -> R m a -> op_wf' a o ->
  snd (mstep m o) = snd (astep a o) /\ R (fst (mstep m o)) (fst (astep a o)) /\ Full (fst (mstep m o)).
Proof.
  intros (I & KV & KC) HR Hw.
  assert (Hcase : o = OReopen \/ o <> OReopen) by (destruct o; (left; reflexivity) || (right; discriminate)).
  destruct Hcase as [->|Hne].
  - (* Reopen *)
    cbn [mstep astep fst snd]. split; [reflexivity|].
    assert (Id := drain_inv m I). destruct (drain_invK m I KV KC) as [KVd KCd].
    assert (Rd := drain_sim m a I HR).
    split.
    + exact (reopen_sim (drain m) a Id KVd Rd).
    + exact (reopen_inv (drain m) Id KVd KCd).
  - assert (W : op_wf a o) by (split; assumption).
    destruct (step_refines m a o I HR W) as (E1 & E2 & E3).
    split; [exact E1|]. split; [exact E2|].
    split; [exact E3 | exact (mstep_invK m o I KV KC (op_ok_of_wf m a o HR W))].
Qed.

Fixpoint wf_from' (a : astate) (ops : list op) : Prop :=
  match ops with
  | [] => True
  | o :: r => op_wf' a o /\ wf_from' (fst (astep a o)) r
  end.

Theorem run_refines_full ops : forall m a,
  Full m -> R m a -> wf_from' a ops -> mrun_from m ops = arun_from a ops.
Proof.
  induction ops as [|o ops IH]; intros m a F HR Hwf; [reflexivity|].
  destruct Hwf as [Hw Hwf]. cbn [mrun_from arun_from].
  destruct (step_refines_full m a o F HR Hw) as (Eo & R' & F').
  destruct (mstep m o) as [m' x] eqn:Em, (astep a o) as [a' y] eqn:Ea. cbn [fst snd] in *.
  subst y. f_equal. apply IH; assumption.
Qed.

Lemma wf_from_bool' ops : forall a, no_late_writes_from a ops = true -> wf_from' a ops.
Proof.
  induction ops as [|o ops IH]; intros a Hl; [exact Logic.I|].
  cbn [no_late_writes_from] in Hl. apply andb_true_iff in Hl. destruct Hl as [Hl1 Hl2]. split.
  - unfold op_wf'. destruct (write_handle o) as [h|]; [|exact Logic.I]. destruct (areader a h); [discriminate | discriminate].
  - apply IH. exact Hl2.
Qed.

(* the refinement theorem for every sequential history, Close/Open (same process) at any position *)
Theorem model_refines_spec_reopen ops : no_late_writes ops = true -> mrun ops = arun ops.
Proof.
  intros Hl. unfold mrun, arun. apply run_refines_full; [exact Full_init | exact R_init |].
  apply wf_from_bool'. exact Hl.
Qed.

(* ---------- the counter may be raised by other database instances at any time ---------- *)
Lemma bump_full m a s :
  Full m -> R m a -> m_seq m <= s -> Full (set_seq m s) /\ R (set_seq m s) a.
Proof.
  intros (I & KV & KC) HR Hs. split; [split; [|split]|].
  - constructor; cbn [m_all m_seq m_tx m_reg m_cont m_q m_nexttx m_nextcid set_seq]; try apply I.
    + intros k v Hv. destruct (inv_range m I _ _ Hv) as (H1 & H2 & H3 & H4). repeat split; try assumption; lia.
    + intros x Hx. destruct (inv_reg_range m I x Hx) as (H1 & H2 & H3 & H4). repeat split; try assumption; lia.
  - apply (InvKV_ext m); try reflexivity; [exact Hs | exact KV].
  - apply (InvKC_ext m); try reflexivity. exact KC.
  - apply (R_ext m); try reflexivity. exact HR.
Qed.

(* opening (Load) refines the spec's Reopen whatever the counter's value — with the repaired Set *)
Theorem reopen_any_counter g m a :
  Full m -> R m a -> Full (reopen_with g (drain m)) /\ R (reopen_with g (drain m)) (spec_reopen a).
Proof.
  intros (I & KV & KC) HR.
  assert (Id := drain_inv m I). destruct (drain_invK m I KV KC) as [KVd KCd].
  assert (Rd := drain_sim m a I HR).
  split; [exact (reopen_inv_gen g (drain m) Id KVd KCd) | exact (reopen_sim_gen g (drain m) a Id KVd Rd)].
Qed.

(* with the original Set (compare-and-swap from 0) a write acknowledged after reopening is lost
   at the next reopen: defect D1, repaired by a fix: commit *)
Definition d1_prepared : mstate := mstate_after m_init [OSet 0 1 1; OSet 0 1 2; OSet 0 1 3].

Theorem later_writes_win_refuted_orig :
  let m1 := reopen_with_orig 1 d1_prepared in        (* opened in a process whose counter is 1 *)
  let m2 := fst (mstep m1 (OSet 0 1 9)) in            (* acknowledged write of NEW *)
  let m3 := reopen_with_orig (m_seq m2) (drain m2) in (* Close; Open *)
  snd (mstep m2 (OGet 0 1)) = OutVal 9 /\ snd (mstep m3 (OGet 0 1)) = OutVal 3.
Proof. vm_compute. split; reflexivity. Qed.

Example later_writes_win_fixed_example :
  let m1 := reopen_with 1 d1_prepared in
  let m2 := fst (mstep m1 (OSet 0 1 9)) in
  let m3 := reopen_with (m_seq m2) (drain m2) in
  snd (mstep m2 (OGet 0 1)) = OutVal 9 /\ snd (mstep m3 (OGet 0 1)) = OutVal 9.
Proof. vm_compute. split; reflexivity. Qed.

(* ---------- C14: what is on disk at quiescence ---------- *)
Lemma collect_all (l : list ver) h :
  vsorted l -> (forall v, In v l -> 0 < v_seq v /\ v_seq v <= h) ->
  collect_list v_seq l h = (removelast l, opt_list (last_opt l)).
Proof.
  induction l as [|x l IH]; intros Hs Hb; [reflexivity|].
  destruct l as [|y r]; [reflexivity|].
  assert (Hs' := Hs). apply sorted_cons_inv in Hs'. destruct Hs' as [Hsl _].
  change (collect_list v_seq (x :: y :: r) h) with
      (if negb (N.eqb (v_seq y) 0 || N.ltb h (v_seq y))
       then let (d, keep) := collect_list v_seq (y :: r) h in (x :: d, keep)
       else ([], x :: y :: r)).
  destruct (Hb y (or_intror (or_introl eq_refl))) as [Hy1 Hy2].
  destruct (N.eqb_spec (v_seq y) 0); [lia|]. destruct (N.ltb_spec h (v_seq y)); [lia|]. cbn [orb negb].
  rewrite IH; [|exact Hsl | intros v Hv; apply Hb; right; exact Hv].
  f_equal. f_equal. rewrite (last_opt_cons ver x (y :: r)).
  destruct (last_opt (y :: r)) eqn:E; [reflexivity|]. apply last_opt_none in E. discriminate.
Qed.

Theorem quiescent_disk m :
  Full m -> m_reg m = [] ->
  let m' := drain (gc (drain m)) in
  (forall k, lget (m_all m') k = opt_list (latest_main m k)) /\
  (forall c x, aget (m_cont m') c = Some x ->
     exists k w, latest_main m k = Some w /\ v_cid w = c /\ aget (m_cont m) c = Some x) /\
  (forall k w x, latest_main m k = Some w -> aget (m_cont m) (v_cid w) = Some x ->
     aget (m_cont m') (v_cid w) = Some x).
Proof.
  intros (I & KV & KC) Hreg. cbn zeta.
  (* first drain *)
  set (m1 := drain m).
  assert (I1 : Inv m1) by exact (drain_inv m I). destruct (drain_invK m I KV KC) as [KV1 KC1].
  assert (E1 := fold_clean_job_fields (m_q m) (set_q m [])). cbn zeta in E1. fold (drain m) in E1. fold m1 in E1.
  destruct E1 as (_ & Er1 & _ & Ea1 & Eq1 & _).
  cbn [m_reg m_all m_q set_q] in Er1, Ea1, Eq1.
  (* every listed version is committed *)
  assert (Hmain : forall k v, In v (lget (m_all m1) k) -> is_main v = true).
  { intros k v Hv. destruct (inv_owner m1 I1 k v Hv) as [H|(x & Hx & _)]; [unfold is_main; rewrite H; reflexivity|].
    rewrite Er1, Hreg in Hx. destruct Hx. }
  (* collection with a fresh horizon keeps exactly the newest version of every key *)
  set (m2 := gc m1).
  assert (I2 : Inv m2) by exact (gc_inv m1 I1). destruct (gc_invK m1 I1 KV1 KC1) as [KV2 KC2].
  assert (A2 : forall k, lget (m_all m2) k = opt_list (last_opt (lget (m_all m1) k))).
  { intros k. unfold m2. rewrite (gc_all m1 k I1).
    set (l := lget (m_all m1) k).
    assert (Hfm : filter is_main l = l) by (apply filter_true; intros v Hv; exact (Hmain k v Hv)).
    assert (Hh : gc_horizon m1 = N.succ (m_seq m1)) by (unfold gc_horizon; rewrite Er1, Hreg; reflexivity).
    assert (Hd : gc_deleted_of l (gc_horizon m1) = removelast l).
    { unfold gc_deleted_of. rewrite Hfm, collect_all; [reflexivity | apply (inv_sorted m1 I1) |].
      intros v Hv. destruct (inv_range m1 I1 _ _ Hv) as (H1 & H2 & _). rewrite Hh. lia. }
    unfold gc_keep. rewrite Hd.
    destruct (last_opt l) as [w|] eqn:El.
    - assert (Hl := last_opt_some _ _ _ El). assert (Hnd : NoDup l) by (apply sorted_NoDup; apply (inv_sorted m1 I1)).
      remember (removelast l) as d eqn:Ed. clear Ed. cbn [opt_list]. rewrite Hl in Hnd |- *.
      apply filter_notin_app. exact Hnd.
    - apply last_opt_none in El. rewrite El. reflexivity. }
  assert (Q2 : m_q m2 = []) by (unfold m2; destruct (gc_fields m1) as (_ & _ & -> & _); exact Eq1).
  (* second drain: nothing queued *)
  assert (E3 : drain m2 = set_q m2 []) by (unfold drain; rewrite Q2; reflexivity).
  assert (Hlm : forall k, last_opt (lget (m_all m1) k) = latest_main m k).
  { intros k. unfold latest_main. rewrite <- Ea1. symmetry. f_equal.
    apply filter_true. intros v Hv. exact (Hmain k v Hv). }
  split; [|split].
  - intros k. rewrite E3. cbn [m_all set_q]. rewrite A2, Hlm. reflexivity.
  - intros c x Hc. rewrite E3 in Hc. cbn [m_cont set_q] in Hc.
    destruct (k_cont_live m2 [] KC2 c x Hc) as [(k & v & Hv & E)|[(j & d & Hj & _)|(d & [] & _)]].
    + rewrite A2, Hlm in Hv. destruct (latest_main m k) as [w|] eqn:Ew; [|destruct Hv].
      destruct Hv as [<-|[]]. exists k, w. split; [exact Ew|]. split; [exact E|].
      (* the content survived both steps unchanged *)
      unfold m2 in Hc. rewrite (gc_cont m1 c I1) in Hc.
      destruct (existsb _ (gc_deleted m1)); [discriminate|].
      unfold m1, drain in Hc.
      destruct (classic_queue m c) as [Hin|Hnot].
      * rewrite fold_clean_job_cont_none in Hc by exact Hin. discriminate.
      * rewrite fold_clean_job_cont in Hc; [exact Hc|]. intros j d Hj Hd Ed. apply Hnot. eauto.
    + rewrite Q2 in Hj. destruct Hj.
  - intros k w x Hw Hx. rewrite E3. cbn [m_cont set_q].
    destruct (latest_main_facts m k w I Hw) as (Hin & Hm & Hk).
    assert (Hc1 : aget (m_cont m1) (v_cid w) = Some x).
    { unfold m1, drain. rewrite fold_clean_job_cont; [exact Hx|].
      intros j d Hj Hd E. destruct (inv_queue m I j d Hj Hd) as [_ Hne]. apply (Hne k w Hin). symmetry. exact E. }
    unfold m2. rewrite (gc_cont_kept m1 k w I1); [exact Hc1 | rewrite Ea1; exact Hin |].
    apply gc_keep_true; [apply (inv_sorted m1 I1) | rewrite Ea1; exact Hin |].
    unfold vkeep. rewrite Ea1. fold (latest_main m k). rewrite Hw, N.eqb_refl. apply orb_true_r.
Qed.
