(* DirsProofs — invariants and theorems about the directory model (C17). *)
From Coq Require Import List Arith Bool PeanoNat Lia.
From FsDb Require Import Dirs.
Import ListNotations.

(* ------------------------------------------------------------------ *)
(* identifiers, membership *)

Lemma dr_eqb_true : forall a b, dr_eqb a b = true <-> a = b.
Proof.
  intros [a1 a2] [b1 b2]. unfold dr_eqb. simpl. rewrite andb_true_iff, !Nat.eqb_eq.
  split; [intros [H1 H2]; subst; reflexivity | intros H; inversion H; auto].
Qed.

Lemma dr_eqb_false : forall a b, dr_eqb a b = false <-> a <> b.
Proof.
  intros a b. split.
  - intros H E. apply dr_eqb_true in E. congruence.
  - intros H. destruct (dr_eqb a b) eqn:E; auto. apply dr_eqb_true in E. contradiction.
Qed.

Lemma dr_eqb_refl : forall a, dr_eqb a a = true.
Proof. intros a. apply dr_eqb_true. reflexivity. Qed.

Lemma dr_id_dec : forall a b : dr_id, {a = b} + {a <> b}.
Proof. intros a b. destruct (dr_eqb a b) eqn:E; [left; apply dr_eqb_true; auto | right; apply dr_eqb_false; auto]. Qed.

Lemma dr_mem_true : forall d l, dr_mem d l = true <-> In d l.
Proof.
  intros d l. unfold dr_mem. rewrite existsb_exists. split.
  - intros [x [Hx E]]. apply dr_eqb_true in E. subst. exact Hx.
  - intros H. exists d. split; auto. apply dr_eqb_refl.
Qed.

Lemma dr_mem_false : forall d l, dr_mem d l = false <-> ~ In d l.
Proof.
  intros d l. split.
  - intros H HI. apply dr_mem_true in HI. congruence.
  - intros H. destruct (dr_mem d l) eqn:E; auto. apply dr_mem_true in E. contradiction.
Qed.

Lemma dr_rem_in : forall d x l, In x (dr_rem d l) <-> In x l /\ x <> d.
Proof.
  intros d x l. unfold dr_rem. rewrite filter_In, negb_true_iff, dr_eqb_false.
  split; intros [H1 H2]; split; auto.
Qed.

Lemma dr_rem_nodup : forall d l, NoDup l -> NoDup (dr_rem d l).
Proof.
  intros d l H. unfold dr_rem. induction H as [|x l Hx Hn IH]; simpl.
  - constructor.
  - destruct (negb (dr_eqb d x)); auto. constructor; auto.
    intros HI. apply filter_In in HI. tauto.
Qed.

Lemma nodup_snoc : forall (x : dr_id) l, NoDup l -> ~ In x l -> NoDup (l ++ [x]).
Proof.
  intros x l H. induction H as [|y l Hy Hn IH]; intros Hx; simpl.
  - constructor; [intros []|constructor].
  - constructor.
    + rewrite in_app_iff. simpl. intros [H|[H|[]]]; [contradiction|]. subst. apply Hx. left. reflexivity.
    + apply IH. intros H. apply Hx. right. exact H.
Qed.

(* ------------------------------------------------------------------ *)
(* number of active directories of a root *)

Lemma dr_nact_app : forall r l1 l2, dr_nact r (l1 ++ l2) = dr_nact r l1 + dr_nact r l2.
Proof. intros. unfold dr_nact. rewrite filter_app, app_length. reflexivity. Qed.

Lemma dr_nact_one : forall r d, dr_nact r [d] = if fst d =? r then 1 else 0.
Proof. intros. unfold dr_nact. simpl. destruct (fst d =? r); reflexivity. Qed.

Lemma dr_nact_rem_other : forall r d l, fst d <> r -> dr_nact r (dr_rem d l) = dr_nact r l.
Proof.
  intros r d l Hne. unfold dr_nact, dr_rem. induction l as [|x l IH]; simpl; auto.
  destruct (dr_eqb d x) eqn:E; simpl.
  - apply dr_eqb_true in E. subst x. apply Nat.eqb_neq in Hne. rewrite Hne. exact IH.
  - destruct (fst x =? r); simpl; rewrite IH; reflexivity.
Qed.

Lemma dr_rem_notin : forall d l, ~ In d l -> dr_rem d l = l.
Proof.
  intros d l. unfold dr_rem. induction l as [|x l IH]; simpl; intros H; auto.
  destruct (dr_eqb d x) eqn:E.
  - apply dr_eqb_true in E. subst. exfalso. apply H. left. reflexivity.
  - simpl. rewrite IH; auto.
Qed.

Lemma dr_nact_rem_same : forall d l, NoDup l -> In d l ->
  S (dr_nact (fst d) (dr_rem d l)) = dr_nact (fst d) l.
Proof.
  intros d l Hn. induction Hn as [|x l Hx Hn IH]; intros Hin; [destruct Hin|].
  unfold dr_nact, dr_rem in *. simpl.
  destruct (dr_eqb d x) eqn:E; simpl.
  - apply dr_eqb_true in E. subst x. rewrite Nat.eqb_refl. simpl.
    fold (dr_rem d l). rewrite dr_rem_notin; auto.
  - destruct Hin as [Hin|Hin]; [subst; rewrite dr_eqb_refl in E; discriminate|].
    specialize (IH Hin). destruct (fst x =? fst d); simpl; rewrite <- IH; reflexivity.
Qed.

Lemma dr_nact_pos : forall d l, In d l -> 1 <= dr_nact (fst d) l.
Proof.
  intros d l H. unfold dr_nact. induction l as [|x l IH]; [destruct H|]. simpl.
  destruct H as [H|H].
  - subst. rewrite Nat.eqb_refl. simpl. lia.
  - specialize (IH H). destruct (fst x =? fst d); simpl; lia.
Qed.

Lemma dr_nact_ex : forall r l, 1 <= dr_nact r l -> exists d, In d l /\ fst d = r.
Proof.
  intros r l. unfold dr_nact. induction l as [|x l IH]; simpl; [lia|].
  destruct (fst x =? r) eqn:E.
  - intros _. exists x. apply Nat.eqb_eq in E. auto.
  - intros H. destruct (IH H) as [d [H1 H2]]. exists d. auto.
Qed.

(* ------------------------------------------------------------------ *)
(* dr_upd and the disk *)

Lemma dr_upd_length : forall A n (f : A -> A) l, length (dr_upd n f l) = length l.
Proof. intros A n f l. revert n. induction l as [|x l IH]; intros [|n]; simpl; auto. Qed.

Lemma nth_error_dr_upd : forall A n (f : A -> A) l m,
  nth_error (dr_upd n f l) m = if n =? m then option_map f (nth_error l m) else nth_error l m.
Proof.
  intros A n f l. revert n. induction l as [|x l IH]; intros n m.
  - destruct n; simpl; destruct m; simpl; try reflexivity; destruct (_ =? _); reflexivity.
  - destruct n as [|n]; destruct m as [|m]; simpl; try reflexivity. apply IH.
Qed.

Lemma nth_dr_upd : forall n f (l : list nat) m,
  nth m (dr_upd n f l) 0 = if (n =? m) && (n <? length l) then f (nth m l 0) else nth m l 0.
Proof.
  intros n f l. revert n. induction l as [|x l IH]; intros n m.
  - destruct n; simpl; destruct m; simpl; rewrite ?andb_false_r; reflexivity.
  - destruct n as [|n]; destruct m as [|m]; simpl; try reflexivity.
    rewrite IH. reflexivity.
Qed.

Lemma dr_dirs_of_upd : forall r g disk r',
  dr_dirs_of (dr_upd r g disk) r' =
  if (r =? r') && (r <? length disk) then g (dr_dirs_of disk r') else dr_dirs_of disk r'.
Proof.
  intros r g disk r'. unfold dr_dirs_of. rewrite nth_error_dr_upd.
  destruct (r =? r') eqn:E; simpl; auto.
  apply Nat.eqb_eq in E. subst r'.
  destruct (nth_error disk r) eqn:N; simpl.
  - assert (r < length disk) by (apply nth_error_Some; congruence).
    apply Nat.ltb_lt in H. rewrite H. reflexivity.
  - apply nth_error_None in N. destruct (r <? length disk) eqn:L; auto.
    apply Nat.ltb_lt in L. lia.
Qed.

Lemma dr_count_some : forall disk d, dr_count_of disk d <> None <->
  fst d < length disk /\ snd d < dr_ndirs disk (fst d).
Proof.
  intros disk [r i]. unfold dr_count_of, dr_ndirs, dr_dirs_of. simpl. rewrite nth_error_Some.
  destruct (nth_error disk r) eqn:N.
  - assert (r < length disk) by (apply nth_error_Some; congruence). tauto.
  - simpl. apply nth_error_None in N. lia.
Qed.

Lemma dr_count_fresh : forall disk r, dr_count_of disk (r, dr_ndirs disk r) = None.
Proof.
  intros disk r. destruct (dr_count_of disk (r, dr_ndirs disk r)) eqn:E; auto.
  assert (H : dr_count_of disk (r, dr_ndirs disk r) <> None) by congruence.
  apply dr_count_some in H. simpl in H. lia.
Qed.

Lemma dr_count_mkdir : forall r disk d, r < length disk ->
  dr_count_of (dr_mkdir r disk) d =
  if dr_eqb d (r, dr_ndirs disk r) then Some 0 else dr_count_of disk d.
Proof.
  intros r disk [r' i] Hr. unfold dr_count_of, dr_mkdir. simpl. rewrite dr_dirs_of_upd.
  apply Nat.ltb_lt in Hr. rewrite Hr, andb_true_r. unfold dr_eqb. simpl.
  destruct (r =? r') eqn:E.
  - apply Nat.eqb_eq in E. subst r'. rewrite Nat.eqb_refl. simpl. unfold dr_ndirs.
    destruct (i =? length (dr_dirs_of disk r)) eqn:E2.
    + apply Nat.eqb_eq in E2. subst i. rewrite nth_error_app2 by lia.
      rewrite Nat.sub_diag. reflexivity.
    + apply Nat.eqb_neq in E2.
      destruct (Nat.lt_ge_cases i (length (dr_dirs_of disk r))) as [L|L].
      * rewrite nth_error_app1 by exact L. reflexivity.
      * assert (N1 : nth_error (dr_dirs_of disk r ++ [0]) i = None)
          by (apply nth_error_None; rewrite app_length; simpl; lia).
        assert (N2 : nth_error (dr_dirs_of disk r) i = None) by (apply nth_error_None; lia).
        rewrite N1, N2. reflexivity.
  - rewrite Nat.eqb_sym, E. reflexivity.
Qed.

Lemma dr_count_upd2 : forall f d disk d',
  dr_count_of (dr_upd2 f d disk) d' =
  if dr_eqb d d' then option_map f (dr_count_of disk d') else dr_count_of disk d'.
Proof.
  intros f [r i] disk [r' i']. unfold dr_count_of, dr_upd2, dr_eqb. simpl. rewrite dr_dirs_of_upd.
  destruct (r =? r') eqn:E; simpl; auto.
  apply Nat.eqb_eq in E. subst r'.
  destruct (r <? length disk) eqn:L.
  - rewrite nth_error_dr_upd. reflexivity.
  - apply Nat.ltb_ge in L. unfold dr_dirs_of.
    assert (N : nth_error disk r = None) by (apply nth_error_None; exact L).
    rewrite N. destruct i'; simpl; destruct (i =? _); reflexivity.
Qed.

Lemma dr_mkdir_length : forall r disk, length (dr_mkdir r disk) = length disk.
Proof. intros. apply dr_upd_length. Qed.

Lemma dr_upd2_length : forall f d disk, length (dr_upd2 f d disk) = length disk.
Proof. intros. apply dr_upd_length. Qed.

(* ------------------------------------------------------------------ *)
(* the invariant *)

Definition dr_bounded (s : dr_state) : Prop :=
  forall d n, dr_count_of (dr_disk s) d = Some n -> n <= dr_max s.

Record dr_inv (s : dr_state) : Prop := {
  inv_max : 1 <= dr_max s;
  inv_len : length (dr_counts s) = length (dr_disk s);
  inv_nodup : NoDup (dr_active s);
  (* active directories exist on disk *)
  inv_exist : forall d, In d (dr_active s) -> dr_count_of (dr_disk s) d <> None;
  (* per-root counter = number of active directories of that root *)
  inv_ctr : forall r, r < length (dr_disk s) -> nth r (dr_counts s) 0 = dr_nact r (dr_active s);
  inv_bound : dr_bounded s
}.

(* how the disk evolves during the Get phase: directories are only added, empty *)
Definition dr_ext (s s' : dr_state) : Prop :=
  dr_max s' = dr_max s /\
  length (dr_disk s') = length (dr_disk s) /\
  (forall d, dr_count_of (dr_disk s) d <> None -> dr_count_of (dr_disk s') d = dr_count_of (dr_disk s) d) /\
  (forall d n, dr_count_of (dr_disk s') d = Some n ->
               dr_count_of (dr_disk s) d = Some n \/ (dr_count_of (dr_disk s) d = None /\ n = 0)).

Lemma dr_ext_refl : forall s, dr_ext s s.
Proof. intros s. repeat split; auto. Qed.

Lemma dr_ext_trans : forall a b c, dr_ext a b -> dr_ext b c -> dr_ext a c.
Proof.
  intros a b c (M1 & L1 & P1 & N1) (M2 & L2 & P2 & N2). repeat split; try congruence.
  - intros d H. rewrite P2; [apply P1; exact H|]. rewrite P1; exact H.
  - intros d n H. destruct (N2 d n H) as [H2|[H2 Hn]].
    + apply N1. exact H2.
    + right. split; auto. destruct (dr_count_of (dr_disk a) d) eqn:E; auto.
      assert (X : dr_count_of (dr_disk a) d <> None) by congruence.
      apply P1 in X. congruence.
Qed.

Lemma nth_repeat0 : forall n r, nth r (repeat 0 n) 0 = 0.
Proof. induction n; intros [|r]; simpl; auto. Qed.

Lemma dr_init_inv : forall nroots max, 1 <= max -> dr_inv (dr_init nroots max).
Proof.
  intros nroots max Hm. constructor; simpl.
  - exact Hm.
  - rewrite !repeat_length. reflexivity.
  - constructor.
  - intros d [].
  - intros r _. apply nth_repeat0.
  - intros [r i] n. unfold dr_count_of, dr_dirs_of. simpl.
    destruct (nth_error (repeat [] nroots) r) eqn:E.
    + apply nth_error_In, repeat_spec in E. subst. destruct i; discriminate.
    + destruct i; discriminate.
Qed.

Lemma dr_create_ext : forall r s, r < dr_nroots s -> dr_ext s (dr_create r s).
Proof.
  intros r s Hr. unfold dr_nroots in Hr. repeat split; simpl.
  - apply dr_mkdir_length.
  - intros d H. rewrite dr_count_mkdir by exact Hr.
    destruct (dr_eqb d (r, dr_ndirs (dr_disk s) r)) eqn:E; auto.
    apply dr_eqb_true in E. subst d. rewrite dr_count_fresh in H. congruence.
  - intros d n. rewrite dr_count_mkdir by exact Hr.
    destruct (dr_eqb d (r, dr_ndirs (dr_disk s) r)) eqn:E; auto.
    apply dr_eqb_true in E. subst d. rewrite dr_count_fresh. intros H. inversion H. auto.
Qed.

Lemma dr_create_fresh_count : forall r s, r < dr_nroots s ->
  dr_count_of (dr_disk (dr_create r s)) (r, dr_ndirs (dr_disk s) r) = Some 0.
Proof.
  intros r s Hr. simpl. rewrite dr_count_mkdir by exact Hr. rewrite dr_eqb_refl. reflexivity.
Qed.

Lemma dr_fresh_notin : forall r s, dr_inv s -> ~ In (r, dr_ndirs (dr_disk s) r) (dr_active s).
Proof. intros r s I H. apply (inv_exist s I) in H. apply H. apply dr_count_fresh. Qed.

Lemma dr_create_inv : forall r s, dr_inv s -> r < dr_nroots s -> dr_inv (dr_create r s).
Proof.
  intros r s I Hr. pose proof (dr_create_ext r s Hr) as (_ & EL & EP & EN).
  unfold dr_nroots in Hr. constructor.
  - simpl. apply (inv_max s I).
  - simpl. rewrite dr_upd_length, dr_mkdir_length. apply (inv_len s I).
  - simpl. apply nodup_snoc; [apply (inv_nodup s I)|apply dr_fresh_notin; exact I].
  - intros d Hd. simpl in Hd. apply in_app_iff in Hd. destruct Hd as [Hd|[Hd|[]]].
    + rewrite EP; apply (inv_exist s I); exact Hd.
    + subst d. rewrite dr_create_fresh_count by exact Hr. discriminate.
  - intros r' Hr'. simpl in *. rewrite dr_mkdir_length in Hr'.
    rewrite nth_dr_upd, dr_nact_app, dr_nact_one, (inv_len s I). simpl.
    apply Nat.ltb_lt in Hr. rewrite Hr, andb_true_r. rewrite (inv_ctr s I r' Hr').
    destruct (r =? r'); lia.
  - intros d n H. destruct (EN d n H) as [H1|[_ H1]].
    + simpl. apply (inv_bound s I d n H1).
    + subst n. lia.
Qed.

Lemma dr_repo_remove_disk : forall d s, dr_disk (dr_repo_remove d s) = dr_disk s.
Proof. intros. unfold dr_repo_remove. destruct (dr_mem d (dr_active s)); reflexivity. Qed.

Lemma dr_repo_remove_max : forall d s, dr_max (dr_repo_remove d s) = dr_max s.
Proof. intros. unfold dr_repo_remove. destruct (dr_mem d (dr_active s)); reflexivity. Qed.

Lemma dr_repo_remove_active : forall d s, dr_active (dr_repo_remove d s) = dr_rem d (dr_active s).
Proof.
  intros. unfold dr_repo_remove. destruct (dr_mem d (dr_active s)) eqn:E; simpl; auto.
  apply dr_mem_false in E. symmetry. apply dr_rem_notin. exact E.
Qed.

Lemma dr_repo_remove_inv : forall d s, dr_inv s -> dr_inv (dr_repo_remove d s).
Proof.
  intros d s I. unfold dr_repo_remove. destruct (dr_mem d (dr_active s)) eqn:E; auto.
  apply dr_mem_true in E. constructor; simpl.
  - apply (inv_max s I).
  - rewrite dr_upd_length. apply (inv_len s I).
  - apply dr_rem_nodup, (inv_nodup s I).
  - intros x Hx. apply dr_rem_in in Hx. apply (inv_exist s I). tauto.
  - intros r Hr. rewrite nth_dr_upd, (inv_len s I).
    destruct (fst d =? r) eqn:E1.
    + apply Nat.eqb_eq in E1. subst r. apply Nat.ltb_lt in Hr. rewrite Hr. simpl.
      apply Nat.ltb_lt in Hr. rewrite (inv_ctr s I _ Hr).
      pose proof (dr_nact_rem_same d _ (inv_nodup s I) E). lia.
    + simpl. rewrite (inv_ctr s I r Hr). symmetry. apply dr_nact_rem_other.
      apply Nat.eqb_neq. exact E1.
  - exact (inv_bound s I).
Qed.

(* the counter never underflows: Remove decrements only a counter >= 1 *)
Lemma dr_remove_no_underflow : forall d s, dr_inv s -> In d (dr_active s) ->
  1 <= nth (fst d) (dr_counts s) 0.
Proof.
  intros d s I H. pose proof (inv_exist s I d H) as E. apply dr_count_some in E.
  rewrite (inv_ctr s I) by tauto. apply dr_nact_pos. exact H.
Qed.

Lemma dr_repo_add_inv : forall d s, dr_inv s -> dr_count_of (dr_disk s) d <> None ->
  dr_inv (dr_repo_add d s).
Proof.
  intros d s I Hd. unfold dr_repo_add. destruct (dr_mem d (dr_active s)) eqn:E; auto.
  apply dr_mem_false in E. constructor; simpl.
  - apply (inv_max s I).
  - rewrite dr_upd_length. apply (inv_len s I).
  - apply nodup_snoc; [apply (inv_nodup s I)|exact E].
  - intros x Hx. apply in_app_iff in Hx. destruct Hx as [Hx|[Hx|[]]].
    + apply (inv_exist s I). exact Hx.
    + subst. exact Hd.
  - intros r Hr. rewrite nth_dr_upd, dr_nact_app, dr_nact_one, (inv_len s I), (inv_ctr s I r Hr).
    apply dr_count_some in Hd. destruct Hd as [Hd _]. apply Nat.ltb_lt in Hd. rewrite Hd, andb_true_r.
    destruct (fst d =? r); lia.
  - exact (inv_bound s I).
Qed.

Lemma dr_repo_add_active : forall d s, In d (dr_active (dr_repo_add d s)).
Proof.
  intros d s. unfold dr_repo_add. destruct (dr_mem d (dr_active s)) eqn:E.
  - apply dr_mem_true. exact E.
  - simpl. apply in_app_iff. right. left. reflexivity.
Qed.

Lemma dr_repo_add_keeps : forall d x s, In x (dr_active s) -> In x (dr_active (dr_repo_add d s)).
Proof.
  intros d x s H. unfold dr_repo_add. destruct (dr_mem d (dr_active s)); auto.
  simpl. apply in_app_iff. left. exact H.
Qed.

(* ------------------------------------------------------------------ *)
(* the Get phase, first loop *)

Definition dr_p1_step (snap : list nat) (st : dr_state) (r : nat) : dr_state :=
  if nth r snap 0 =? 0 then dr_create r st else st.

Record dr_p1 (s : dr_state) (k : nat) (st : dr_state) : Prop := {
  p1_inv : dr_inv st;
  p1_ext : dr_ext s st;
  p1_incl : forall d, In d (dr_active s) -> In d (dr_active st);
  p1_snap : forall r, k <= r -> nth r (dr_counts st) 0 = nth r (dr_counts s) 0;
  p1_has : forall r, r < k -> 1 <= dr_nact r (dr_active st)
}.

Lemma dr_p1_step_ok : forall s k st, k < dr_nroots s -> dr_p1 s k st ->
  dr_p1 s (S k) (dr_p1_step (dr_counts s) st k).
Proof.
  intros s k st Hk [I E Inc Sn Has]. unfold dr_p1_step.
  assert (Hk' : k < dr_nroots st) by (unfold dr_nroots in *; destruct E as (_ & L & _); lia).
  destruct (nth k (dr_counts s) 0 =? 0) eqn:Z.
  - constructor.
    + apply dr_create_inv; auto.
    + eapply dr_ext_trans; [exact E|apply dr_create_ext; exact Hk'].
    + intros d Hd. simpl. apply in_app_iff. left. auto.
    + intros r Hr. simpl. rewrite nth_dr_upd.
      assert (X : k =? r = false) by (apply Nat.eqb_neq; lia). rewrite X. simpl. apply Sn. lia.
    + intros r Hr. simpl. rewrite dr_nact_app, dr_nact_one. simpl.
      destruct (k =? r) eqn:X; [lia|]. apply Nat.eqb_neq in X.
      assert (r < k) by lia. specialize (Has r H). lia.
  - constructor; auto.
    + intros r Hr. apply Sn. lia.
    + intros r Hr. destruct (Nat.eq_dec r k) as [->|Hne]; [|apply Has; lia].
      apply Nat.eqb_neq in Z. unfold dr_nroots in Hk'.
      rewrite <- (inv_ctr st I k Hk'). rewrite Sn by lia. lia.
Qed.

Lemma dr_p1_fold : forall s m k st, k + m = dr_nroots s -> dr_p1 s k st ->
  dr_p1 s (k + m) (fold_left (dr_p1_step (dr_counts s)) (seq k m) st).
Proof.
  intros s m. induction m as [|m IH]; intros k st Hkm P; simpl.
  - rewrite Nat.add_0_r. exact P.
  - replace (k + S m) with (S k + m) by lia. apply IH; [lia|].
    apply dr_p1_step_ok; [lia|exact P].
Qed.

Lemma dr_phase1_ok : forall s, dr_inv s -> dr_p1 s (dr_nroots s) (dr_phase1 s).
Proof.
  intros s I. unfold dr_phase1. change (fun st r => if nth r (dr_counts s) 0 =? 0 then dr_create r st else st)
    with (dr_p1_step (dr_counts s)).
  apply (dr_p1_fold s (dr_nroots s) 0 s); [reflexivity|].
  constructor; auto using dr_ext_refl. intros r Hr. lia.
Qed.

(* ------------------------------------------------------------------ *)
(* the Get phase, second loop *)

Record dr_p2 (s1 : dr_state) (rest : list dr_id) (st : dr_state) : Prop := {
  p2_inv : dr_inv st;
  p2_ext : dr_ext s1 st;
  p2_nodup : NoDup rest;
  p2_rest : forall d, In d rest -> In d (dr_active st) /\ dr_count_of (dr_disk s1) d <> None;
  p2_has : forall r, r < dr_nroots s1 -> 1 <= dr_nact r (dr_active st);
  p2_room : forall d, In d (dr_active st) -> ~ In d rest ->
            exists c, dr_count_of (dr_disk st) d = Some c /\ c < dr_max s1;
  p2_keep : forall d c, In d (dr_active s1) -> dr_count_of (dr_disk s1) d = Some c -> c < dr_max s1 ->
            In d (dr_active st)
}.

Lemma dr_p2_step_ok : forall s1 d rest st, dr_p2 s1 (d :: rest) st ->
  dr_p2 s1 rest (dr_rotate1 (dr_max s1) (dr_disk s1) st d).
Proof.
  intros s1 d rest st [I E Nd Rs Has Room Keep].
  destruct (Rs d (or_introl eq_refl)) as [Hact Hex].
  inversion Nd as [|? ? Hnotin Nd']. subst.
  destruct E as (EM & EL & EP & EN).
  assert (Hroot : fst d < length (dr_disk s1)) by (apply dr_count_some in Hex; tauto).
  unfold dr_rotate1. destruct (dr_count_of (dr_disk s1) d) as [c|] eqn:C; [|congruence].
  assert (Cst : dr_count_of (dr_disk st) d = Some c) by (rewrite EP; congruence).
  destruct (dr_max s1 <=? c) eqn:Full.
  - apply Nat.leb_le in Full.
    set (st1 := dr_repo_remove d st).
    assert (I1 : dr_inv st1) by (apply dr_repo_remove_inv; exact I).
    assert (Hr : fst d < dr_nroots st1).
    { unfold dr_nroots, st1. rewrite dr_repo_remove_disk. lia. }
    assert (E1 : dr_ext st st1).
    { unfold st1. repeat split; rewrite ?dr_repo_remove_disk, ?dr_repo_remove_max; auto. }
    pose proof (dr_create_ext (fst d) st1 Hr) as E2.
    assert (E02 : dr_ext s1 (dr_create (fst d) st1)).
    { eapply dr_ext_trans; [|exact E2]. eapply dr_ext_trans; [|exact E1]. repeat split; auto. }
    assert (A2 : dr_active (dr_create (fst d) st1) =
                 dr_rem d (dr_active st) ++ [(fst d, dr_ndirs (dr_disk st1) (fst d))]).
    { simpl. unfold st1. rewrite dr_repo_remove_active. reflexivity. }
    constructor.
    + apply dr_create_inv; auto.
    + exact E02.
    + exact Nd'.
    + intros x Hx. destruct (Rs x (or_intror Hx)) as [Hx1 Hx2]. split; auto.
      rewrite A2. apply in_app_iff. left. apply dr_rem_in. split; auto.
      intros ->. contradiction.
    + intros r Hr'. rewrite A2, dr_nact_app, dr_nact_one. simpl.
      destruct (fst d =? r) eqn:X; [lia|]. apply Nat.eqb_neq in X.
      rewrite dr_nact_rem_other by exact X. specialize (Has r Hr'). lia.
    + intros x Hx Hnx. rewrite A2 in Hx. apply in_app_iff in Hx. destruct Hx as [Hx|[Hx|[]]].
      * apply dr_rem_in in Hx. destruct Hx as [Hx Hne].
        destruct (Room x Hx) as [cx [Cx Lx]].
        { intros [H|H]; [congruence|contradiction]. }
        exists cx. split; auto.
        destruct E2 as (_ & _ & EP2 & _). rewrite EP2; unfold st1; rewrite dr_repo_remove_disk; congruence.
      * subst x. exists 0. split; [apply dr_create_fresh_count; exact Hr|].
        pose proof (inv_max st I). lia.
    + intros x cx Hx Cx Lx. rewrite A2. apply in_app_iff. left. apply dr_rem_in.
      split; [eapply Keep; eauto|]. intros ->. rewrite C in Cx. inversion Cx. lia.
  - apply Nat.leb_gt in Full. constructor; auto.
    + repeat split; auto.
    + intros x Hx. apply Rs. right. exact Hx.
    + intros x Hx Hnx. destruct (dr_id_dec x d) as [->|Hne].
      * exists c. auto.
      * apply Room; auto. intros [H|H]; [congruence|contradiction].
Qed.

Lemma dr_p2_fold : forall s1 rest st, dr_p2 s1 rest st ->
  dr_p2 s1 [] (fold_left (dr_rotate1 (dr_max s1) (dr_disk s1)) rest st).
Proof.
  intros s1 rest. induction rest as [|d rest IH]; intros st P; simpl; auto.
  apply IH. apply dr_p2_step_ok. exact P.
Qed.

Lemma dr_phase2_ok : forall s1, dr_inv s1 -> (forall r, r < dr_nroots s1 -> 1 <= dr_nact r (dr_active s1)) ->
  dr_p2 s1 [] (dr_phase2 s1).
Proof.
  intros s1 I Has. unfold dr_phase2. apply dr_p2_fold. constructor; auto.
  - apply dr_ext_refl.
  - apply (inv_nodup s1 I).
  - intros d Hd. split; auto. apply (inv_exist s1 I d Hd).
  - intros d Hd Hn. contradiction.
Qed.

(* what the Get phase establishes *)
Record dr_got (s s2 : dr_state) : Prop := {
  got_inv : dr_inv s2;
  got_ext : dr_ext s s2;
  (* every root has an active directory *)
  got_has : forall r, r < dr_nroots s -> 1 <= dr_nact r (dr_active s2);
  (* every candidate has room *)
  got_room : forall d, In d (dr_active s2) -> exists c, dr_count_of (dr_disk s2) d = Some c /\ c < dr_max s;
  (* an active directory with room stays a candidate *)
  got_keep : forall d c, In d (dr_active s) -> dr_count_of (dr_disk s) d = Some c -> c < dr_max s ->
             In d (dr_active s2)
}.

Lemma dr_get_phase_ok : forall s, dr_inv s -> dr_got s (dr_get_phase s).
Proof.
  intros s I. unfold dr_get_phase.
  destruct (dr_phase1_ok s I) as [I1 E1 Inc1 _ Has1].
  assert (N1 : dr_nroots (dr_phase1 s) = dr_nroots s) by (unfold dr_nroots; destruct E1 as (_ & L & _); exact L).
  assert (M1 : dr_max (dr_phase1 s) = dr_max s) by (destruct E1 as (M & _); exact M).
  destruct (dr_phase2_ok (dr_phase1 s) I1) as [I2 E2 _ _ Has2 Room2 Keep2].
  { intros r Hr. apply Has1. lia. }
  constructor.
  - exact I2.
  - eapply dr_ext_trans; eauto.
  - intros r Hr. apply Has2. lia.
  - intros d Hd. rewrite <- M1. apply Room2; auto.
  - intros d c Hd C L. apply (Keep2 d c); auto; try lia.
    destruct E1 as (_ & _ & EP & _). rewrite EP; congruence.
Qed.

(* ------------------------------------------------------------------ *)
(* writing into the chosen candidates *)

Lemma dr_put_each_ok : forall max allowed ds seen disk,
  (forall d n, dr_count_of disk d = Some n -> n <= max) ->
  (forall d, In d allowed -> ~ In d seen -> exists c, dr_count_of disk d = Some c /\ c < max) ->
  let disk' := dr_put_each allowed seen ds disk in
  (forall d n, dr_count_of disk' d = Some n -> n <= max) /\
  length disk' = length disk /\
  (forall d, dr_count_of disk' d <> None <-> dr_count_of disk d <> None) /\
  (forall d, dr_mem d allowed && dr_mem d ds = false -> dr_count_of disk' d = dr_count_of disk d).
Proof.
  intros max allowed ds. induction ds as [|d ds IH]; intros seen disk B R; simpl.
  - split; [exact B|]. split; [reflexivity|]. split; [tauto|reflexivity].
  - destruct (dr_mem d allowed && negb (dr_mem d seen)) eqn:T.
    + apply andb_true_iff in T. destruct T as [Ta Ts].
      apply dr_mem_true in Ta. apply negb_true_iff, dr_mem_false in Ts.
      destruct (R d Ta Ts) as [c [C L]].
      assert (P1 : forall x n, dr_count_of (dr_upd2 S d disk) x = Some n -> n <= max).
      { intros x n. rewrite dr_count_upd2. destruct (dr_eqb d x) eqn:E.
        - apply dr_eqb_true in E. subst x. rewrite C. simpl. intros H. inversion H. lia.
        - apply B. }
      assert (P2 : forall x, In x allowed -> ~ In x (d :: seen) ->
                   exists c, dr_count_of (dr_upd2 S d disk) x = Some c /\ c < max).
      { intros x Hx Hs. rewrite dr_count_upd2. destruct (dr_eqb d x) eqn:E.
        - apply dr_eqb_true in E. subst x. exfalso. apply Hs. left. reflexivity.
        - apply R; auto. intros H. apply Hs. right. exact H. }
      specialize (IH (d :: seen) (dr_upd2 S d disk) P1 P2). simpl in IH.
      destruct IH as (B' & L' & X' & U').
      split; [exact B'|]. split; [rewrite L'; apply dr_upd2_length|]. split.
      * intros x. rewrite X', dr_count_upd2.
        destruct (dr_eqb d x); [|tauto]. destruct (dr_count_of disk x); simpl; split; congruence.
      * intros x Hx. rewrite U'.
        -- rewrite dr_count_upd2. destruct (dr_eqb d x) eqn:E; auto.
           apply dr_eqb_true in E. subst x. apply dr_mem_true in Ta. rewrite Ta in Hx.
           rewrite dr_eqb_refl in Hx. discriminate.
        -- destruct (dr_mem x allowed); auto. simpl in *.
           apply orb_false_iff in Hx. tauto.
    + specialize (IH seen disk B R). simpl in IH. destruct IH as (B' & L' & X' & U').
      split; [exact B'|]. split; [exact L'|]. split; [exact X'|].
      intros x Hx. apply U'. destruct (dr_mem x allowed); auto. simpl in *.
      apply orb_false_iff in Hx. tauto.
Qed.

Lemma dr_alloc_inv : forall sp c s, dr_inv s -> dr_inv (dr_alloc sp c s).
Proof.
  intros sp c s I. destruct (dr_get_phase_ok s I) as [I2 E2 Has Room Keep].
  destruct E2 as (M & _).
  pose proof (dr_put_each_ok (dr_max s) (dr_active (dr_get_phase s)) (sp ++ [c]) [] (dr_disk (dr_get_phase s))) as P.
  simpl in P.
  assert (P1 : forall d n, dr_count_of (dr_disk (dr_get_phase s)) d = Some n -> n <= dr_max s)
    by (rewrite <- M; apply (inv_bound _ I2)).
  assert (P2 : forall d, In d (dr_active (dr_get_phase s)) -> ~ False ->
               exists c, dr_count_of (dr_disk (dr_get_phase s)) d = Some c /\ c < dr_max s)
    by (intros d Hd _; apply Room; exact Hd).
  destruct (P P1 P2) as (B & L & X & U).
  unfold dr_alloc. constructor; simpl.
  - apply (inv_max _ I2).
  - rewrite L. apply (inv_len _ I2).
  - apply (inv_nodup _ I2).
  - intros d Hd. apply X. apply (inv_exist _ I2 d Hd).
  - intros r Hr. rewrite L in Hr. apply (inv_ctr _ I2 r Hr).
  - unfold dr_bounded. simpl. rewrite M. exact B.
Qed.

Lemma dr_free_inv : forall d s, dr_inv s -> dr_inv (dr_free d s).
Proof.
  intros d s I. unfold dr_free. destruct (dr_count_of (dr_disk s) d) as [c|] eqn:C; auto.
  apply dr_repo_add_inv.
  - constructor; simpl.
    + apply (inv_max s I).
    + rewrite dr_upd2_length. apply (inv_len s I).
    + apply (inv_nodup s I).
    + intros x Hx. rewrite dr_count_upd2. pose proof (inv_exist s I x Hx).
      destruct (dr_eqb d x); auto. destruct (dr_count_of (dr_disk s) x); simpl; congruence.
    + intros r Hr. rewrite dr_upd2_length in Hr. apply (inv_ctr s I r Hr).
    + intros x n. simpl. rewrite dr_count_upd2. destruct (dr_eqb d x).
      * destruct (dr_count_of (dr_disk s) x) as [m|] eqn:Cx; simpl; [|discriminate].
        intros H. inversion H. pose proof (inv_bound s I x m Cx). lia.
      * apply (inv_bound s I).
  - simpl. rewrite dr_count_upd2, dr_eqb_refl, C. simpl. discriminate.
Qed.

(* reopen: every directory on disk *)
Lemma dr_all_from_in : forall disk r a i,
  In (a, i) (dr_all_from r disk) <->
  r <= a /\ exists l, nth_error disk (a - r) = Some l /\ i < length l.
Proof.
  induction disk as [|l disk IH]; intros r a i; simpl.
  - split; [intros []|]. intros [_ [l [H _]]]. destruct (a - r); discriminate.
  - rewrite in_app_iff, in_map_iff, IH. split.
    + intros [[x [E Hx]]|[Hle [l' [N Li]]]].
      * inversion E. subst. apply in_seq in Hx. split; auto. exists l. rewrite Nat.sub_diag. simpl. split; auto. lia.
      * split; [lia|]. exists l'. replace (a - r) with (S (a - S r)) by lia. simpl. auto.
    + intros [Hle [l' [N Li]]]. destruct (Nat.eq_dec a r) as [->|Hne].
      * left. exists i. rewrite Nat.sub_diag in N. simpl in N. inversion N. subst. split; auto.
        apply in_seq. lia.
      * right. split; [lia|]. exists l'. replace (a - r) with (S (a - S r)) in N by lia. simpl in N. auto.
Qed.

Lemma dr_all_in : forall disk d, In d (dr_all_from 0 disk) <-> dr_count_of disk d <> None.
Proof.
  intros disk [a i]. rewrite dr_all_from_in, dr_count_some. simpl. rewrite Nat.sub_0_r.
  unfold dr_ndirs, dr_dirs_of. split.
  - intros [_ [l [N L]]]. rewrite N. split; auto. apply nth_error_Some. congruence.
  - intros [H1 H2]. split; [lia|]. destruct (nth_error disk a) eqn:N; simpl in H2; [eauto|lia].
Qed.

Lemma nodup_app_intro : forall (l1 l2 : list dr_id), NoDup l1 -> NoDup l2 ->
  (forall x, In x l1 -> ~ In x l2) -> NoDup (l1 ++ l2).
Proof.
  induction l1 as [|x l1 IH]; intros l2 N1 N2 D; simpl; auto.
  inversion N1; subst. constructor.
  - rewrite in_app_iff. intros [H|H]; [contradiction|]. apply (D x); [left; reflexivity|exact H].
  - apply IH; auto. intros y Hy. apply D. right. exact Hy.
Qed.

Lemma nodup_map_pair : forall (r : nat) (q : list nat), NoDup q -> NoDup (map (pair r) q).
Proof.
  intros r q H. induction H as [|x q Hx Hn IH]; simpl; constructor; auto.
  intros HI. apply in_map_iff in HI. destruct HI as [y [E Hy]]. inversion E. subst. contradiction.
Qed.

Lemma dr_all_from_nodup : forall disk r, NoDup (dr_all_from r disk).
Proof.
  induction disk as [|l disk IH]; intros r; simpl; [constructor|].
  apply nodup_app_intro.
  - apply nodup_map_pair, seq_NoDup.
  - apply IH.
  - intros [a i] H1 H2. apply in_map_iff in H1. destruct H1 as [x [E _]]. inversion E. subst.
    apply dr_all_from_in in H2. lia.
Qed.

Lemma dr_nact_map_pair : forall r a (q : list nat),
  dr_nact a (map (pair r) q) = if r =? a then length q else 0.
Proof.
  intros r a q. unfold dr_nact. induction q as [|x q IH]; simpl.
  - destruct (r =? a); reflexivity.
  - destruct (r =? a) eqn:E; simpl; rewrite IH; reflexivity.
Qed.

Lemma dr_nact_all_from : forall disk r a,
  dr_nact a (dr_all_from r disk) = if r <=? a then length (dr_dirs_of disk (a - r)) else 0.
Proof.
  induction disk as [|l disk IH]; intros r a; simpl.
  - unfold dr_dirs_of. destruct (a - r); destruct (r <=? a); reflexivity.
  - rewrite dr_nact_app, IH.
    assert (M : dr_nact a (map (pair r) (seq 0 (length l))) = if r =? a then length l else 0)
      by (rewrite dr_nact_map_pair, seq_length; reflexivity).
    rewrite M.
    destruct (r =? a) eqn:E1.
    + apply Nat.eqb_eq in E1. subst a.
      assert (X : S r <=? r = false) by (apply Nat.leb_gt; lia).
      rewrite X, Nat.leb_refl, Nat.sub_diag. unfold dr_dirs_of. simpl. lia.
    + apply Nat.eqb_neq in E1. destruct (r <=? a) eqn:E2.
      * apply Nat.leb_le in E2. assert (X : S r <=? a = true) by (apply Nat.leb_le; lia). rewrite X.
        replace (a - r) with (S (a - S r)) by lia. unfold dr_dirs_of. simpl. reflexivity.
      * apply Nat.leb_gt in E2. assert (X : S r <=? a = false) by (apply Nat.leb_gt; lia). rewrite X. reflexivity.
Qed.

Lemma nth_map_length : forall (disk : dr_disk_t) r, nth r (map (@length nat) disk) 0 = length (dr_dirs_of disk r).
Proof.
  unfold dr_dirs_of. induction disk as [|l disk IH]; intros [|r]; simpl; auto.
Qed.

Lemma dr_reopen_inv : forall s, dr_inv s -> dr_inv (dr_reopen s).
Proof.
  intros s I. constructor; simpl.
  - apply (inv_max s I).
  - apply map_length.
  - apply dr_all_from_nodup.
  - intros d Hd. apply dr_all_in. exact Hd.
  - intros r Hr. rewrite nth_map_length, dr_nact_all_from. simpl. rewrite Nat.sub_0_r. reflexivity.
  - exact (inv_bound s I).
Qed.

Lemma dr_step_inv : forall s o, dr_inv s -> dr_inv (dr_step s o).
Proof.
  intros s [sp c|d|d|] I; simpl.
  - apply dr_alloc_inv; exact I.
  - apply dr_alloc_inv; exact I.
  - apply dr_free_inv; exact I.
  - apply dr_reopen_inv; exact I.
Qed.

Lemma dr_run_inv : forall ops s, dr_inv s -> dr_inv (dr_run ops s).
Proof.
  induction ops as [|o ops IH]; intros s I; simpl; auto. apply IH, dr_step_inv, I.
Qed.

(* the limit and the number of roots never change *)
Lemma dr_step_static : forall s o, dr_inv s ->
  dr_max (dr_step s o) = dr_max s /\ dr_nroots (dr_step s o) = dr_nroots s.
Proof.
  intros s o I. unfold dr_nroots.
  assert (G : dr_max (dr_get_phase s) = dr_max s /\ length (dr_disk (dr_get_phase s)) = length (dr_disk s)).
  { destruct (dr_get_phase_ok s I) as [_ (M & L & _) _ _ _]. auto. }
  assert (A : forall sp c, dr_max (dr_alloc sp c s) = dr_max s /\
                           length (dr_disk (dr_alloc sp c s)) = length (dr_disk s)).
  { intros sp c. destruct (dr_get_phase_ok s I) as [I2 (M & L & _) _ Room _].
    pose proof (dr_put_each_ok (dr_max s) (dr_active (dr_get_phase s)) (sp ++ [c]) [] (dr_disk (dr_get_phase s))) as P.
    simpl in P.
    assert (P1 : forall d n, dr_count_of (dr_disk (dr_get_phase s)) d = Some n -> n <= dr_max s)
      by (rewrite <- M; apply (inv_bound _ I2)).
    assert (P2 : forall d, In d (dr_active (dr_get_phase s)) -> ~ False ->
                 exists c, dr_count_of (dr_disk (dr_get_phase s)) d = Some c /\ c < dr_max s)
      by (intros d Hd _; apply Room; exact Hd).
    destruct (P P1 P2) as (_ & L' & _).
    simpl. split; [exact M|]. rewrite L'. exact L. }
  destruct o as [sp c|d|d|].
  - apply A.
  - apply (A [] d).
  - simpl. unfold dr_free. destruct (dr_count_of (dr_disk s) d); auto.
    unfold dr_repo_add. simpl. destruct (dr_mem d (dr_active s)); simpl; rewrite dr_upd2_length; auto.
  - simpl. auto.
Qed.

Lemma dr_run_static : forall ops s, dr_inv s ->
  dr_max (dr_run ops s) = dr_max s /\ dr_nroots (dr_run ops s) = dr_nroots s.
Proof.
  induction ops as [|o ops IH]; intros s I; simpl; auto.
  destruct (dr_step_static s o I) as [M N]. destruct (IH (dr_step s o) (dr_step_inv s o I)) as [M' N'].
  split; congruence.
Qed.

(* ------------------------------------------------------------------ *)
(* theorems over arbitrary histories *)

Lemma dr_init_nroots : forall nroots max, dr_nroots (dr_init nroots max) = nroots.
Proof. intros. unfold dr_nroots. simpl. apply repeat_length. Qed.

Theorem dr_bounded_from : forall s ops, dr_inv s ->
  forall d n, dr_count_of (dr_disk (dr_run ops s)) d = Some n -> n <= dr_max s.
Proof.
  intros s ops I d n H. destruct (dr_run_static ops s I) as [M _]. rewrite <- M.
  apply (inv_bound _ (dr_run_inv ops s I) d n H).
Qed.

Theorem dr_bounded_thm : forall nroots max ops, 1 <= max ->
  forall d n, dr_count_of (dr_disk (dr_run ops (dr_init nroots max))) d = Some n -> n <= max.
Proof.
  intros nroots max ops Hm d n H.
  apply (dr_bounded_from (dr_init nroots max) ops (dr_init_inv nroots max Hm) d n H).
Qed.

Theorem dr_offers_from : forall s r, dr_inv s -> r < dr_nroots s ->
  exists d c, fst d = r /\ In d (dr_active (dr_get_phase s)) /\
              dr_count_of (dr_disk (dr_get_phase s)) d = Some c /\ c < dr_max s.
Proof.
  intros s r I Hr. destruct (dr_get_phase_ok s I) as [_ _ Has Room _].
  destruct (dr_nact_ex r _ (Has r Hr)) as [d [Hd Hf]].
  destruct (Room d Hd) as [c [C L]]. exists d, c. auto.
Qed.

Theorem dr_offers_thm : forall nroots max ops r, 1 <= max -> r < nroots ->
  let s := dr_get_phase (dr_run ops (dr_init nroots max)) in
  exists d c, fst d = r /\ In d (dr_active s) /\ dr_count_of (dr_disk s) d = Some c /\ c < max.
Proof.
  intros nroots max ops r Hm Hr. simpl.
  pose proof (dr_init_inv nroots max Hm) as I0.
  pose proof (dr_run_inv ops _ I0) as I.
  destruct (dr_run_static ops _ I0) as [M N]. simpl in M. rewrite dr_init_nroots in N.
  destruct (dr_offers_from _ r I) as [d [c H]]; [lia|]. exists d, c. rewrite M in H. exact H.
Qed.

(* every candidate of store.Set has room, and the chosen one receives exactly one entry *)
Theorem dr_alloc_lands : forall s c, dr_inv s -> dr_allowed s c = true ->
  exists n, dr_count_of (dr_disk (dr_get_phase s)) c = Some n /\ n < dr_max s /\
            dr_count_of (dr_disk (dr_step s (DAlloc [] c))) c = Some (S n).
Proof.
  intros s c I A. unfold dr_allowed in A.
  destruct (dr_get_phase_ok s I) as [_ _ _ Room _].
  destruct (Room c (proj1 (dr_mem_true _ _) A)) as [n [C L]].
  exists n. split; auto. split; auto.
  simpl. rewrite A. simpl. rewrite dr_count_upd2, dr_eqb_refl, C. reflexivity.
Qed.

(* entries appear only in candidates named by the call *)
Theorem dr_alloc_only_candidates : forall s sp c d, dr_inv s ->
  dr_count_of (dr_disk (dr_alloc sp c s)) d <> dr_count_of (dr_disk (dr_get_phase s)) d ->
  In d (dr_active (dr_get_phase s)) /\ In d (sp ++ [c]).
Proof.
  intros s sp c d I H. destruct (dr_get_phase_ok s I) as [I2 (M & _) _ Room _].
  pose proof (dr_put_each_ok (dr_max s) (dr_active (dr_get_phase s)) (sp ++ [c]) [] (dr_disk (dr_get_phase s))) as P.
  simpl in P.
  assert (P1 : forall d n, dr_count_of (dr_disk (dr_get_phase s)) d = Some n -> n <= dr_max s)
    by (rewrite <- M; apply (inv_bound _ I2)).
  assert (P2 : forall d, In d (dr_active (dr_get_phase s)) -> ~ False ->
               exists c, dr_count_of (dr_disk (dr_get_phase s)) d = Some c /\ c < dr_max s)
    by (intros x Hx _; apply Room; exact Hx).
  destruct (P P1 P2) as (_ & _ & _ & U).
  destruct (dr_mem d (dr_active (dr_get_phase s)) && dr_mem d (sp ++ [c])) eqn:T.
  - apply andb_true_iff in T. destruct T as [T1 T2]. split; apply dr_mem_true; assumption.
  - exfalso. apply H. simpl. apply U. exact T.
Qed.

Lemma dr_free_max : forall d s, dr_max (dr_free d s) = dr_max s.
Proof.
  intros. unfold dr_free. destruct (dr_count_of (dr_disk s) d); auto.
  unfold dr_repo_add. simpl. destruct (dr_mem d (dr_active s)); reflexivity.
Qed.

(* after the cleaner removed a content of d, d is active; when it has room it is a
   candidate of the next Set, and choosing it puts the new entry there *)
Theorem dr_reuse_from : forall s d, dr_inv s -> dr_count_of (dr_disk s) d <> None ->
  let s' := dr_free d s in
  In d (dr_active s') /\
  forall c, dr_count_of (dr_disk s') d = Some c -> c < dr_max s ->
    dr_allowed s' d = true /\
    dr_count_of (dr_disk (dr_step s' (DAlloc [] d))) d = Some (S c).
Proof.
  intros s d I Hd. simpl.
  assert (I' : dr_inv (dr_free d s)) by (apply dr_free_inv; exact I).
  assert (A : In d (dr_active (dr_free d s))).
  { unfold dr_free. destruct (dr_count_of (dr_disk s) d); [|congruence]. apply dr_repo_add_active. }
  split; auto. intros c C L.
  destruct (dr_get_phase_ok _ I') as [_ (_ & _ & EP & _) _ _ Keep].
  assert (Al : dr_allowed (dr_free d s) d = true).
  { unfold dr_allowed. apply dr_mem_true. apply (Keep d c); auto. rewrite dr_free_max. exact L. }
  split; auto.
  destruct (dr_alloc_lands _ d I' Al) as [n [Cn [_ R]]].
  rewrite EP in Cn by congruence. rewrite C in Cn. inversion Cn. subst n. exact R.
Qed.

(* an active directory with room stays active across every operation *)
Theorem dr_active_persists : forall s d c o, dr_inv s -> In d (dr_active s) ->
  dr_count_of (dr_disk s) d = Some c -> c < dr_max s -> In d (dr_active (dr_step s o)).
Proof.
  intros s d c o I A C L.
  assert (G : In d (dr_active (dr_get_phase s))).
  { destruct (dr_get_phase_ok s I) as [_ _ _ _ Keep]. apply (Keep d c); auto. }
  destruct o as [sp x|x|x|]; simpl; auto.
  - unfold dr_free. destruct (dr_count_of (dr_disk s) x); auto. apply dr_repo_add_keeps. exact A.
  - apply dr_all_in. congruence.
Qed.

(* placement: directories (hence entries) exist only under configured roots *)
Theorem dr_placement_thm : forall nroots max ops, 1 <= max ->
  let s := dr_run ops (dr_init nroots max) in
  dr_nroots s = nroots /\
  (forall d n, dr_count_of (dr_disk s) d = Some n -> fst d < nroots) /\
  (forall d, In d (dr_active s) -> fst d < nroots /\ dr_count_of (dr_disk s) d <> None).
Proof.
  intros nroots max ops Hm. simpl.
  pose proof (dr_init_inv nroots max Hm) as I0.
  pose proof (dr_run_inv ops _ I0) as I.
  destruct (dr_run_static ops _ I0) as [_ N]. rewrite dr_init_nroots in N.
  split; auto. unfold dr_nroots in N. split.
  - intros d n H. assert (X : dr_count_of (dr_disk (dr_run ops (dr_init nroots max))) d <> None) by congruence.
    apply dr_count_some in X. lia.
  - intros d H. pose proof (inv_exist _ I d H) as X. split; auto. apply dr_count_some in X. lia.
Qed.

(* repository invariants in every reachable state *)
Theorem dr_repo_invariants_thm : forall nroots max ops, 1 <= max ->
  let s := dr_run ops (dr_init nroots max) in
  NoDup (dr_active s) /\
  (forall d, In d (dr_active s) -> dr_count_of (dr_disk s) d <> None) /\
  (forall r, r < nroots -> nth r (dr_counts s) 0 = dr_nact r (dr_active s)).
Proof.
  intros nroots max ops Hm. simpl.
  pose proof (dr_init_inv nroots max Hm) as I0.
  pose proof (dr_run_inv ops _ I0) as I.
  destruct (dr_run_static ops _ I0) as [_ N]. rewrite dr_init_nroots in N. unfold dr_nroots in N.
  split; [apply (inv_nodup _ I)|]. split; [apply (inv_exist _ I)|].
  intros r Hr. apply (inv_ctr _ I). lia.
Qed.

(* paths *)
Lemma dr_split_last_none : forall n, ~ In dr_slash n -> dr_split_last n = None.
Proof.
  induction n as [|c n IH]; intros H; simpl; auto.
  rewrite IH by (intros X; apply H; right; exact X).
  destruct (c =? dr_slash) eqn:E; auto. apply Nat.eqb_eq in E. exfalso. apply H. left. auto.
Qed.

Theorem dr_parse_join : forall root name, ~ In dr_slash name ->
  dr_parse (dr_join root name) = (root, name).
Proof.
  intros root name H. unfold dr_parse, dr_join.
  assert (X : dr_split_last (root ++ dr_slash :: name) = Some (root, name)).
  { induction root as [|c root IH]; simpl.
    - rewrite dr_split_last_none by exact H. reflexivity.
    - rewrite IH. reflexivity. }
  rewrite X. reflexivity.
Qed.

(* in a reachable state a directory always has room after one of its contents was removed,
   so it is always a candidate of the next Set *)
Theorem dr_reuse_thm : forall nroots max ops d, 1 <= max ->
  let s := dr_run ops (dr_init nroots max) in
  dr_count_of (dr_disk s) d <> None ->
  let s' := dr_free d s in
  In d (dr_active s') /\ dr_allowed s' d = true /\
  exists c, dr_count_of (dr_disk s') d = Some c /\ c < max /\
            dr_count_of (dr_disk (dr_step s' (DAlloc [] d))) d = Some (S c).
Proof.
  intros nroots max ops d Hm. simpl. intros Hd.
  pose proof (dr_init_inv nroots max Hm) as I0.
  pose proof (dr_run_inv ops _ I0) as I.
  destruct (dr_run_static ops _ I0) as [M _]. simpl in M.
  set (s := dr_run ops (dr_init nroots max)) in *.
  destruct (dr_reuse_from s d I Hd) as [A R]. split; auto.
  destruct (dr_count_of (dr_disk s) d) as [c0|] eqn:C0; [|congruence].
  assert (C' : dr_count_of (dr_disk (dr_free d s)) d = Some (pred c0)).
  { unfold dr_free. rewrite C0. unfold dr_repo_add. simpl.
    destruct (dr_mem d (dr_active s)); simpl; rewrite dr_count_upd2, dr_eqb_refl, C0; reflexivity. }
  pose proof (inv_bound s I d c0 C0) as B. rewrite M in *.
  assert (L : pred c0 < max) by lia.
  destruct (R (pred c0) C' L) as [Al Cn]. split; auto. exists (pred c0). auto.
Qed.
