(* The locking discipline of internal/usecase/core, stated over the lock/effect skeleton that the translator
   harness/lockskel.go extracts from the Go source on every run (LockSkelGen.v).  This file is hand-written and does not
   depend on the generated one: it defines the events, the discipline ([path_ok]) and what the discipline guarantees.
   It is what the atomic-step models of C03/C06/C07/C08 and the access table of C15 ASSUME about the code; the generated
   skeleton is checked against it in LockSkelCheck.v. *)
From Coq Require Import List String Bool Arith Lia.
Import ListNotations.
Open Scope string_scope.
Open Scope list_scope.

Inductive lk := LTx | LNew | LAll | LSelf.   (* the store named tx, the commit target / second store, the all-store;
                                                 LSelf: the single mutex of a monitor type, taken by its own methods *)

Inductive ev :=
| Acq (l : lk) (w : bool) | Rel (l : lk) (w : bool)
| Rd (l : lk) | Wr (l : lk)
| SeqNext | KvSet | KvTxnBegin | KvTxnEnd
| Unknown.

Definition lk_eqb (a b : lk) : bool :=
  match a, b with LTx, LTx | LNew, LNew | LAll, LAll | LSelf, LSelf => true | _, _ => false end.
Lemma lk_eqb_spec a b : reflect (a = b) (lk_eqb a b).
Proof. destruct a, b; constructor; congruence. Qed.

(* the global acquisition order: a user transaction's store < the committed store < the all-store *)
Definition rank (l : lk) : nat := match l with LTx => 0 | LNew => 1 | LAll => 2 | LSelf => 3 end.

Definition held := list (lk * bool).
Definition holds (h : held) (l : lk) : bool := existsb (fun p => lk_eqb (fst p) l) h.
Definition holds_w (h : held) (l : lk) : bool := existsb (fun p => lk_eqb (fst p) l && snd p) h.
Definition release (h : held) (l : lk) : held := filter (fun p => negb (lk_eqb (fst p) l)) h.

(* per-operation requirements beyond the generic ones *)
Record rules := {
  r_exempt : bool;                       (* runs before the handle escapes (Load) *)
  r_max_acq : lk -> nat;                 (* a store is entered at most this often: 1 = ONE critical section *)
  r_need : ev -> list lk                 (* write locks that must be held at this event *)
}.

Definition no_rules : rules := {| r_exempt := false; r_max_acq := fun _ => 1; r_need := fun _ => [] |}.

Definition rules_of (f : string) : rules :=
  if String.eqb f "Load" then {| r_exempt := true; r_max_acq := fun _ => 0; r_need := fun _ => [] |}
  else if String.eqb f "Store" then
    (* one write = one critical section of its store AND the all-store: number drawn, record written, both lists appended *)
    {| r_exempt := false; r_max_acq := fun _ => 1;
       r_need := fun e => match e with SeqNext | KvSet | Wr _ => [LTx; LAll] | _ => [] end |}
  else if String.eqb f "UpdateTx" then
    (* commit: conflict test (Rd LNew), commit numbers, records and publication (Wr LNew) in ONE critical section of the
       committed store; the all-store is entered for the publication and once more for the unlink *)
    {| r_exempt := false; r_max_acq := fun l => match l with LAll => 2 | _ => 1 end;
       r_need := fun e => match e with
                          | Rd LNew | SeqNext => [LNew]
                          | KvSet | Wr LNew => [LNew; LAll]
                          | Wr LTx | Rd LTx => [LTx]
                          | _ => [] end |}
  else if String.eqb f "DeleteOld" || String.eqb f "DeleteTx" then
    {| r_exempt := false; r_max_acq := fun _ => 1;
       r_need := fun e => match e with Rd LTx | Wr LTx => [LTx] | _ => [] end |}
  else no_rules.

Definition count_acq (l : lk) (p : list ev) : nat :=
  List.length (filter (fun e => match e with Acq l' _ => lk_eqb l' l | _ => false end) p).

(* one step of the checker: None = the discipline is broken here *)
Definition step (r : rules) (h : held) (e : ev) : option held :=
  if negb (forallb (holds_w h) (r_need r e)) then None else
  match e with
  | Acq l w => if holds h l then None                                        (* no re-entry, no upgrade *)
               else if forallb (fun p => Nat.ltb (rank (fst p)) (rank l)) h   (* strictly increasing order *)
                    then Some ((l, w) :: h) else None
  | Rel l w => if existsb (fun p => lk_eqb (fst p) l && Bool.eqb (snd p) w) h then Some (release h l) else None
  | Rd l => if holds h l then Some h else None
  | Wr l => if holds_w h l then Some h else None
  | Unknown => None
  | _ => Some h
  end.

Fixpoint run (r : rules) (h : held) (p : list ev) : option held :=
  match p with
  | [] => Some h
  | e :: q => match step r h e with Some h' => run r h' q | None => None end
  end.

Definition path_ok (f : string) (p : list ev) : bool :=
  let r := rules_of f in
  r_exempt r ||
  (match run r [] p with Some [] => true | _ => false end
   && forallb (fun l => Nat.leb (count_acq l p) (r_max_acq r l)) [LTx; LNew; LAll; LSelf]).

Definition skeleton_ok (sk : list (string * list (list ev))) : bool :=
  forallb (fun fp => forallb (path_ok (fst fp)) (snd fp)) sk.

(* the operations the models rely on must be present in the skeleton (a renamed or removed operation is not "ok") *)
Definition covers (sk : list (string * list (list ev))) : bool :=
  forallb (fun f => existsb (fun fp => String.eqb (fst fp) f && negb (match snd fp with [] => true | _ => false end)) sk)
          ["Store"; "UpdateTx"; "DeleteOld"; "DeleteTx"; "Get"; "GetFiles";
           "core.Transactions.Get"; "core.Transactions.Put"; "core.Transactions.Delete"; "core.Pool.Acquire"; "core.Pool.Release";
           "dir.Repo.Add"; "dir.Repo.Create"; "dir.Repo.Get"; "dir.Repo.GetRoots"; "dir.Repo.Remove";
           "txrepo.Repo.Store"; "txrepo.Repo.Delete"; "txrepo.Repo.Oldest"; "di.lockedSource.Uint64"].

(* ------------------------------------------------------------------------------------------------ *)
(* what the discipline guarantees *)

Lemma run_app r p q h : run r h (p ++ q) = match run r h p with Some h' => run r h' q | None => None end.
Proof. revert h; induction p as [|e p IH]; intros h; cbn [app run]; [reflexivity|]. destruct (step r h e); [apply IH|reflexivity]. Qed.

(* every mutation of a store happens with its write lock held, every read with the lock held in some mode *)
Theorem accesses_protected r p q e h0 hend :
  run r h0 (p ++ e :: q) = Some hend ->
  exists h, run r h0 p = Some h /\
    match e with Wr l => holds_w h l = true | Rd l => holds h l = true | _ => True end.
Proof.
  rewrite run_app. destruct (run r h0 p) as [h|] eqn:E; [|discriminate]. cbn [run].
  destruct (step r h e) as [h'|] eqn:S; [|discriminate]. intros _. exists h. split; [reflexivity|].
  unfold step in S. destruct (negb (forallb (holds_w h) (r_need r e))); [discriminate|].
  destruct e as [l w|l w|l|l| | | | |]; try exact I.
  - destruct (holds h l); [reflexivity|discriminate].
  - destruct (holds_w h l); [reflexivity|discriminate].
Qed.

(* the extra requirement of an operation holds at each of its events *)
Theorem needs_held r p q e h0 hend l :
  run r h0 (p ++ e :: q) = Some hend -> In l (r_need r e) ->
  exists h, run r h0 p = Some h /\ holds_w h l = true.
Proof.
  rewrite run_app. destruct (run r h0 p) as [h|] eqn:E; [|discriminate]. cbn [run].
  destruct (step r h e) as [h'|] eqn:S; [|discriminate]. intros _ Hin. exists h. split; [reflexivity|].
  unfold step in S. destruct (forallb (holds_w h) (r_need r e)) eqn:F; cbn [negb] in S; [|discriminate].
  rewrite forallb_forall in F. exact (F l Hin).
Qed.

(* every acquisition asks for a lock ranked above everything held: the hypothesis [ordered] of C06_no_deadlock *)
Theorem acquisitions_ordered r p q l w h0 hend :
  run r h0 (p ++ Acq l w :: q) = Some hend ->
  exists h, run r h0 p = Some h /\ forall l' w', In (l', w') h -> rank l' < rank l.
Proof.
  rewrite run_app. destruct (run r h0 p) as [h|] eqn:E; [|discriminate]. cbn [run].
  destruct (step r h (Acq l w)) as [h'|] eqn:S; [|discriminate]. intros _. exists h. split; [reflexivity|].
  unfold step in S. destruct (negb (forallb (holds_w h) (r_need r (Acq l w)))); [discriminate|].
  destruct (holds h l); [discriminate|].
  destruct (forallb (fun p0 => Nat.ltb (rank (fst p0)) (rank l)) h) eqn:F; [|discriminate].
  rewrite forallb_forall in F. intros l' w' Hin. specialize (F (l', w') Hin). cbn [fst] in F.
  apply Nat.ltb_lt in F. exact F.
Qed.

(* a lock that is entered at most once and is needed by two events is held WITHOUT INTERRUPTION between them:
   the events belong to one critical section (this is the atomicity the step models assume) *)
Lemma holds_w_holds h l : holds_w h l = true -> holds h l = true.
Proof.
  unfold holds_w, holds. rewrite !existsb_exists. intros (x & Hin & Hx). exists x. split; [exact Hin|].
  apply andb_true_iff in Hx. tauto.
Qed.

Lemma count_acq_app l p q : count_acq l (p ++ q) = count_acq l p + count_acq l q.
Proof. unfold count_acq. rewrite filter_app, app_length. reflexivity. Qed.

Lemma holds_release_other h l l' : holds (release h l') l = true -> holds h l = true.
Proof.
  unfold holds, release. rewrite !existsb_exists. intros (x & Hin & Hx). apply filter_In in Hin. exists x. tauto.
Qed.

Lemma not_held_needs_acq r l : forall p h h',
  run r h p = Some h' -> holds h l = false -> holds h' l = true -> 1 <= count_acq l p.
Proof.
  induction p as [|e p IH]; intros h h' Hr Hn Hh; cbn [run] in Hr.
  - injection Hr as <-. congruence.
  - destruct (step r h e) as [h1|] eqn:S; [|discriminate].
    destruct (holds h1 l) eqn:H1.
    + (* e acquired l *)
      unfold step in S. destruct (negb (forallb (holds_w h) (r_need r e))); [discriminate|].
      destruct e as [l0 w|l0 w|l0|l0| | | | |]; try (injection S as <-; congruence).
      * destruct (holds h l0); [discriminate|]. destruct (forallb _ h); [|discriminate]. injection S as <-.
        unfold holds in H1. cbn [existsb fst] in H1. apply orb_true_iff in H1. destruct H1 as [H1|H1].
        -- unfold count_acq. cbn [filter]. rewrite H1. cbn [List.length]. lia.
        -- unfold holds in Hn. congruence.
      * destruct (existsb _ h); [|discriminate]. injection S as <-. apply holds_release_other in H1. congruence.
      * destruct (holds h l0); [injection S as <-; congruence|discriminate].
      * destruct (holds_w h l0); [injection S as <-; congruence|discriminate].
      * discriminate.
    + specialize (IH h1 h' Hr H1 Hh). unfold count_acq in *. cbn [filter]. destruct e; cbn [List.length]; try lia.
      destruct (lk_eqb l0 l); cbn [List.length]; lia.
Qed.

Lemma held_then_released_needs_rel r l : forall p h h',
  run r h p = Some h' -> holds h l = true -> holds h' l = false ->
  exists p1 w p2, p = p1 ++ Rel l w :: p2.
Proof.
  induction p as [|e p IH]; intros h h' Hr Hh Hn; cbn [run] in Hr.
  - injection Hr as <-. congruence.
  - destruct (step r h e) as [h1|] eqn:S; [|discriminate].
    destruct (holds h1 l) eqn:H1.
    + destruct (IH h1 h' Hr H1 Hn) as (p1 & w & p2 & ->). exists (e :: p1), w, p2. reflexivity.
    + unfold step in S. destruct (negb (forallb (holds_w h) (r_need r e))); [discriminate|].
      destruct e as [l0 w|l0 w|l0|l0| | | | |]; try (injection S as <-; congruence).
      * destruct (holds h l0); [discriminate|]. destruct (forallb _ h); [|discriminate]. injection S as <-.
        unfold holds in H1, Hh. cbn [existsb] in H1. apply orb_false_iff in H1. destruct H1 as [_ H1]. congruence.
      * destruct (lk_eqb_spec l0 l) as [->|Hne].
        -- exists [], w, p. reflexivity.
        -- destruct (existsb _ h); [|discriminate]. injection S as <-.
           exfalso. unfold holds, release in H1, Hh. rewrite existsb_exists in Hh. destruct Hh as (x & Hin & Hx).
           assert (existsb (fun p0 => lk_eqb (fst p0) l) (filter (fun p0 => negb (lk_eqb (fst p0) l0)) h) = true).
           { apply existsb_exists. exists x. split; [|exact Hx]. apply filter_In. split; [exact Hin|].
             destruct (lk_eqb_spec (fst x) l0) as [E|_]; [|reflexivity].
             destruct (lk_eqb_spec (fst x) l) as [E2|E2]; [congruence|discriminate]. }
           congruence.
      * destruct (holds h l0); [injection S as <-; congruence|discriminate].
      * destruct (holds_w h l0); [injection S as <-; congruence|discriminate].
      * discriminate.
Qed.

Theorem one_critical_section r l p1 e1 p2 e2 p3 hend :
  run r [] (p1 ++ e1 :: p2 ++ e2 :: p3) = Some hend ->
  count_acq l (p1 ++ e1 :: p2 ++ e2 :: p3) <= 1 ->
  In l (r_need r e1) -> In l (r_need r e2) ->
  (* between the two events the lock is never released *)
  forall q1 w q2, p2 = q1 ++ Rel l w :: q2 -> False.
Proof.
  intros Hrun Hcnt N1 N2 q1 w q2 ->.
  (* l is held (w) at e1, so it was acquired in p1; released inside p2; held again at e2, so acquired again: two acquisitions *)
  destruct (needs_held r p1 (((q1 ++ Rel l w :: q2) ++ e2 :: p3)) e1 [] hend l Hrun N1) as (h1 & R1 & H1).
  assert (A1 : 1 <= count_acq l p1).
  { apply (not_held_needs_acq r l p1 [] h1 R1); [reflexivity|apply holds_w_holds; exact H1]. }
  replace (p1 ++ e1 :: (q1 ++ Rel l w :: q2) ++ e2 :: p3) with ((p1 ++ e1 :: q1 ++ [Rel l w]) ++ q2 ++ e2 :: p3) in Hrun, Hcnt
    by (rewrite <- !app_assoc; cbn [app]; rewrite <- !app_assoc; reflexivity).
  rewrite run_app in Hrun. destruct (run r [] (p1 ++ e1 :: q1 ++ [Rel l w])) as [hm|] eqn:Rm; [|discriminate].
  assert (Hm : holds hm l = false).
  { replace (p1 ++ e1 :: q1 ++ [Rel l w]) with ((p1 ++ e1 :: q1) ++ [Rel l w]) in Rm by (rewrite <- app_assoc; reflexivity).
    rewrite run_app in Rm. destruct (run r [] (p1 ++ e1 :: q1)) as [hq|]; [|discriminate]. cbn [run] in Rm.
    destruct (step r hq (Rel l w)) as [hx|] eqn:S; [|discriminate]. injection Rm as <-.
    unfold step in S. destruct (negb (forallb (holds_w hq) (r_need r (Rel l w)))); [discriminate|].
    destruct (existsb _ hq); [|discriminate]. injection S as <-.
    unfold holds, release. destruct (existsb _ (filter _ hq)) eqn:X; [|reflexivity].
    apply existsb_exists in X. destruct X as (x & Hin & Hx). apply filter_In in Hin. destruct Hin as [_ Hneg].
    rewrite Hx in Hneg. discriminate. }
  destruct (needs_held r q2 p3 e2 hm hend l Hrun N2) as (h2 & R2 & H2).
  assert (A2 : 1 <= count_acq l q2).
  { apply (not_held_needs_acq r l q2 hm h2 R2 Hm). apply holds_w_holds. exact H2. }
  rewrite !count_acq_app in Hcnt. cbn [count_acq] in Hcnt. lia.
Qed.
