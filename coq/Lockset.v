(* Lockset discipline: if every shared location is only accessed while holding its lock (writes in
   write mode), no two conflicting accesses can be pending at the same time (C15, the part of
   data-race freedom that is logic).  Locks are readers-writer locks; a plain mutex is one that is
   only taken in write mode. *)
From Coq Require Import List Arith NArith Bool Lia.
Import ListNotations.
Open Scope N_scope.

Inductive lmode := MR | MW.
Record holding := mkh { h_tid : nat; h_lock : N; h_mode : lmode }.
Definition lstate := list holding.

(* two holders of one lock in different threads are both readers *)
Definition excl (s : lstate) : Prop :=
  forall a b, In a s -> In b s -> h_lock a = h_lock b -> h_tid a <> h_tid b -> h_mode a = MR /\ h_mode b = MR.

Definition compatible (m : lmode) (a : holding) : bool :=
  match m, h_mode a with MR, MR => true | _, _ => false end.

(* the lock semantics: an acquisition succeeds only if compatible with every other thread's holding *)
Definition can_acquire (s : lstate) (t : nat) (l : N) (m : lmode) : bool :=
  forallb (fun a => negb (N.eqb (h_lock a) l) || Nat.eqb (h_tid a) t || compatible m a) s.

Inductive levent := EAcq (t : nat) (l : N) (m : lmode) | ERel (t : nat) (l : N).

Definition lstep (s : lstate) (e : levent) : option lstate :=
  match e with
  | EAcq t l m => if can_acquire s t l m then Some (mkh t l m :: s) else None   (* blocked *)
  | ERel t l => Some (filter (fun a => negb (Nat.eqb (h_tid a) t && N.eqb (h_lock a) l)) s)
  end.

Fixpoint lrun (s : lstate) (tr : list levent) : option lstate :=
  match tr with
  | [] => Some s
  | e :: r => match lstep s e with Some s' => lrun s' r | None => None end
  end.

Lemma excl_nil : excl [].
Proof. intros a b []. Qed.

Lemma excl_step s e s' : excl s -> lstep s e = Some s' -> excl s'.
Proof.
  intros Hx. destruct e as [t l m|t l]; cbn [lstep].
  - destruct (can_acquire s t l m) eqn:Hc; [|discriminate]. intros H; injection H as <-.
    unfold can_acquire in Hc. rewrite forallb_forall in Hc.
    assert (Hnew : forall b, In b s -> h_lock b = l -> h_tid b <> t -> m = MR /\ h_mode b = MR).
    { intros b Hb Hl Ht. specialize (Hc b Hb). rewrite Hl, N.eqb_refl in Hc. cbn [negb orb] in Hc.
      destruct (Nat.eqb_spec (h_tid b) t); [contradiction|]. cbn [orb] in Hc.
      unfold compatible in Hc. destruct m, (h_mode b); try discriminate. auto. }
    intros a b [<-|Ha] [<-|Hb] Hl Ht; cbn [h_lock h_tid h_mode] in *.
    + congruence.
    + destruct (Hnew b Hb (eq_sym Hl) (fun E => Ht (eq_sym E))) as [-> ->]. auto.
    + destruct (Hnew a Ha Hl Ht) as [-> ->]. auto.
    + exact (Hx a b Ha Hb Hl Ht).
  - intros H; injection H as <-. intros a b Ha Hb. apply filter_In in Ha. apply filter_In in Hb.
    apply Hx; tauto.
Qed.

Theorem excl_reachable tr : forall s s', excl s -> lrun s tr = Some s' -> excl s'.
Proof.
  induction tr as [|e tr IH]; intros s s' Hx H; [injection H as <-; exact Hx|].
  cbn [lrun] in H. destruct (lstep s e) as [s1|] eqn:E; [|discriminate].
  exact (IH s1 s' (excl_step s e s1 Hx E) H).
Qed.

(* accesses *)
Record access := mkacc { a_tid : nat; a_loc : N; a_write : bool }.

(* the discipline: the accessing thread holds the location's lock, in write mode for a write *)
Definition protected (L : N -> N) (s : lstate) (a : access) : Prop :=
  exists hd, In hd s /\ h_tid hd = a_tid a /\ h_lock hd = L (a_loc a) /\ (a_write a = true -> h_mode hd = MW).

Definition conflicting (a b : access) : Prop :=
  a_tid a <> a_tid b /\ a_loc a = a_loc b /\ (a_write a = true \/ a_write b = true).

(* in every state the lock semantics can reach, two protected accesses never conflict: no data race *)
Theorem lockset_sound (L : N -> N) tr s a b :
  lrun [] tr = Some s -> protected L s a -> protected L s b -> ~ conflicting a b.
Proof.
  intros Hrun (ha & Ha & Ta & La & Ma) (hb & Hb & Tb & Lb & Mb) (Ht & Hl & Hw).
  assert (Hx := excl_reachable tr [] s excl_nil Hrun).
  assert (Hlock : h_lock ha = h_lock hb) by (rewrite La, Lb, Hl; reflexivity).
  assert (Htid : h_tid ha <> h_tid hb) by (rewrite Ta, Tb; exact Ht).
  destruct (Hx ha hb Ha Hb Hlock Htid) as [Ra Rb].
  destruct Hw as [Hw|Hw]; [specialize (Ma Hw) | specialize (Mb Hw)]; congruence.
Qed.

(* ---------- the access table of fs_db (by reading; cross-checked by the race detector) ---------- *)
(* lock ids *)
Definition lk_txs := 1.        (* core.Transactions.m  *)
Definition lk_tx := 2.         (* core.Transaction.m of one store (per store; one id stands for each) *)
Definition lk_all := 3.        (* the all-store's Transaction.m *)
Definition lk_pool := 4.       (* core.Pool.m *)
Definition lk_dirrepo := 5.    (* repository/dir Repo.m *)
Definition lk_txrepo := 6.     (* repository/transaction Repo.m (added by a fix: commit) + omap's own lock *)
Definition lk_rand := 7.       (* di lockedSource.m (added by a fix: commit) *)
Definition lk_wlist := 8.      (* wpool.Pool.listM *)
Definition lk_rw := 9.         (* async.readWriter.m / errM *)
Definition lk_none := 0.       (* no lock: published before the handle escapes, or atomic *)

(* location classes -> protecting lock *)
Definition fsdb_access_table : list (N * N) :=
  [ (1, lk_txs)      (* Transactions.store map *)
  ; (2, lk_tx)       (* Transaction.store map, file.l, file.arr, node fields of that store *)
  ; (3, lk_all)      (* all-store map, link nodes *)
  ; (4, lk_pool)     (* Pool.free *)
  ; (5, lk_dirrepo)  (* dir Repo.dirs, counts *)
  ; (6, lk_txrepo)   (* registry map and its list *)
  ; (7, lk_rand)     (* the shuffle generator's state *)
  ; (8, lk_wlist)    (* wpool.Pool.el *)
  ; (9, lk_rw)       (* readWriter.buf, err *)
  ; (10, lk_none)    (* di.Container fields: built in db.New / app.New before the handle escapes (fix: commit) *)
  ; (11, lk_none)    (* sequence.seq, readWriter.closed: atomic operations only *)
  ].

(* locations that had NO protection on the pinned tree (each reported by the race detector there and
   repaired by a fix: commit): container fields (first use), the shuffle generator, the registry
   list under Oldest, all-store links in UpdateTx's deferred unlink *)
Definition fsdb_unprotected_on_pinned_tree : list N := [10; 7; 6; 3].

Definition table_lock (x : N) : N :=
  match find (fun p => N.eqb (fst p) x) fsdb_access_table with Some p => snd p | None => lk_none end.

Theorem every_location_class_is_listed :
  forallb (fun x => existsb (fun p => N.eqb (fst p) x) fsdb_access_table) [1;2;3;4;5;6;7;8;9;10;11] = true.
Proof. reflexivity. Qed.
