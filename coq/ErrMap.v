(* ErrMap: how an error class travels from the server to the gRPC client
   (internal/adapter/errors/error.go) and how isolation levels are converted
   (internal/adapter/iso_level/convert.go).

   This file is hand-written: the finite types, Go's errors.Is on error trees and
   the table-driven control flow of the four Go functions.  The TABLES themselves
   (which case comes first, which constant it yields, the defaults) are not here:
   they are generated from the Go AST into ErrMapGen.v on every check and plugged
   in by ErrMapInst.v.  Executable definitions only. *)
From Coq Require Import List Bool.
Import ListNotations.

(* ---- finite types ------------------------------------------------------------ *)

(* errors.go: the exported sentinels (the backward-compatibility names SizeErr,
   NotFoundErr, … are the very same values, so they are not separate constructors) *)
Inductive sentinel :=
| ErrUnknown
| ErrNoFreeSpace | ErrNotFound | ErrEmptyKey | ErrHeaderNotFound
| ErrTxNotFound | ErrTxAlreadyExists | ErrTxSerialization
| ErrEmptyDbPath | ErrEmptyRootDirs.

(* google.golang.org/grpc/codes (numeric values 0..16); codes_Other = any other number on the wire *)
Inductive code :=
| codes_OK | codes_Canceled | codes_Unknown | codes_InvalidArgument | codes_DeadlineExceeded
| codes_NotFound | codes_AlreadyExists | codes_PermissionDenied | codes_ResourceExhausted
| codes_FailedPrecondition | codes_Aborted | codes_OutOfRange | codes_Unimplemented
| codes_Internal | codes_Unavailable | codes_DataLoss | codes_Unauthenticated
| codes_Other.

(* internal/proto: store.ErrorCode; ErrorCode_Other = a number with no declared constant *)
Inductive detail :=
| ErrorCode_ErrUnknown
| ErrorCode_ErrNoFreeSpace | ErrorCode_ErrNotFound | ErrorCode_ErrEmptyKey | ErrorCode_ErrHeaderNotFound
| ErrorCode_ErrTxNotFound | ErrorCode_ErrTxAlreadyExists | ErrorCode_ErrTxSerialization
| ErrorCode_Other.

(* model.TxIsoLevel (uint8): the four named levels; IsoLevelOther = any other value *)
Inductive mlevel :=
| IsoLevelReadUncommitted | IsoLevelReadCommitted | IsoLevelRepeatableRead | IsoLevelSerializable
| IsoLevelOther.

(* store.TxIsoLevel (proto enum, int32): the four declared values; TxIsoLevel_Other = any other number *)
Inductive plevel :=
| TxIsoLevel_ISO_LEVEL_READ_UNCOMMITTED | TxIsoLevel_ISO_LEVEL_READ_COMMITTED
| TxIsoLevel_ISO_LEVEL_REPEATABLE_READ | TxIsoLevel_ISO_LEVEL_SERIALIZABLE
| TxIsoLevel_Other.

Scheme Equality for sentinel.
Scheme Equality for code.
Scheme Equality for detail.
Scheme Equality for mlevel.
Scheme Equality for plevel.

Definition all_sentinels : list sentinel :=
  [ErrUnknown; ErrNoFreeSpace; ErrNotFound; ErrEmptyKey; ErrHeaderNotFound;
   ErrTxNotFound; ErrTxAlreadyExists; ErrTxSerialization; ErrEmptyDbPath; ErrEmptyRootDirs].

(* The classes a caller of the exported API is told to test with errors.Is.
   The two configuration errors are returned by Open before any connection
   exists; they never cross the wire. *)
Definition config_error (s : sentinel) : bool :=
  match s with ErrEmptyDbPath | ErrEmptyRootDirs => true | _ => false end.
Definition exported_class (s : sentinel) : bool := negb (config_error s).
(* an exported class other than the catch-all ErrUnknown *)
Definition specific_class (s : sentinel) : bool :=
  match s with ErrUnknown => false | _ => exported_class s end.

(* ---- error values and errors.Is ---------------------------------------------- *)

(* Leaf s   : the sentinel value itself
   Other    : any error that is not and does not wrap a sentinel (errors.New("x"), an OS error)
   Wrap e   : fmt.Errorf("…%w", e)            (Unwrap() error)
   Join es  : errors.Join(es…) / several %w   (Unwrap() []error); Join [] is not an error value in Go
              (errors.Join() = nil) — here it simply matches nothing *)
Inductive errv :=
| Leaf (s : sentinel)
| Other
| Wrap (e : errv)
| Join (es : list errv).

(* errors.Is(e, S) for a sentinel target S: pointer equality at the leaves,
   follow Unwrap, any child of a multi-error (depth first, left to right) *)
Fixpoint is (e : errv) (S : sentinel) {struct e} : bool :=
  match e with
  | Leaf s => sentinel_beq s S
  | Other => false
  | Wrap e' => is e' S
  | Join es => (fix any (l : list errv) : bool :=
                  match l with
                  | [] => false
                  | x :: r => is x S || any r
                  end) es
  end.

(* every sentinel value that occurs in the tree, left to right *)
Fixpoint leaves (e : errv) : list sentinel :=
  match e with
  | Leaf s => [s]
  | Other => []
  | Wrap e' => leaves e'
  | Join es => (fix go (l : list errv) : list sentinel :=
                  match l with
                  | [] => []
                  | x :: r => leaves x ++ go r
                  end) es
  end.

(* all sentinels S with errors.Is(e, S), in declaration order *)
Definition classes (e : errv) : list sentinel := filter (is e) all_sentinels.

(* ---- table-driven control flow ------------------------------------------------ *)

(* switch { case errors.Is(err, S1): v = b1 … default: v = d } *)
Fixpoint first_match {B : Type} (m : sentinel -> bool) (t : list (sentinel * B)) (d : B) : B :=
  match t with
  | [] => d
  | (s, b) :: r => if m s then b else first_match m r d
  end.

(* switch x { case K1: … } on constants *)
Fixpoint lookup {A B : Type} (eqb : A -> A -> bool) (a : A) (t : list (A * B)) : option B :=
  match t with
  | [] => None
  | (k, b) :: r => if eqb a k then Some b else lookup eqb a r
  end.

(* what the client-side switches return *)
Inductive cshape :=
| CWrap (s : sentinel)      (* fmt.Errorf("%s: %w", msg, s) *)
| CJoinNil (s : sentinel).  (* errors.Join(err, s) with err == nil *)

Definition shape_err (c : cshape) : errv :=
  match c with
  | CWrap s => Wrap (Leaf s)
  | CJoinNil s => Join [Leaf s]
  end.

Record tables := {
  t_code : list (sentinel * code);      t_code_default : code;      (* Error *)
  t_pb : list (sentinel * detail);      t_pb_default : detail;      (* errorToPbError *)
  t_details : list (detail * cshape);                               (* detailsToError *)
  t_client : list (code * cshape);      t_client_default : cshape;  (* ClientError *)
  t_conv : list (plevel * mlevel);       t_conv_default : mlevel;     (* iso_level.Convert *)
  t_grpc : list (mlevel * plevel);       t_grpc_default : plevel     (* iso_level.ConvertToGrpc *)
}.

(* what travels: the status code and the typed detail (None: a status without
   a *store.Error detail, e.g. produced by the transport or a proxy) *)
Definition wire : Type := code * option detail.

Section WithTables.
  Variable T : tables.

  (* server side, as a function of "which sentinels does errors.Is report" *)
  Definition server_m (m : sentinel -> bool) : wire :=
    (first_match m (t_code T) (t_code_default T),
     Some (first_match m (t_pb T) (t_pb_default T))).

  (* adapter/errors.Error *)
  Definition server (e : errv) : wire := server_m (is e).

  (* the class the server announces: first sentinel of errorToPbError's switch
     that matches, ErrUnknown when none does *)
  Definition primary_m (m : sentinel -> bool) : sentinel :=
    first_match m (map (fun p => (fst p, fst p)) (t_pb T)) ErrUnknown.
  Definition primary (e : errv) : sentinel := primary_m (is e).

  (* ClientError's switch on the status code *)
  Definition client_by_code (c : code) : errv :=
    shape_err (match lookup code_beq c (t_client T) with
               | Some s => s
               | None => t_client_default T
               end).

  (* adapter/errors.ClientError: details first, then the status code *)
  Definition client (w : wire) : errv :=
    match snd w with
    | Some d =>
      match lookup detail_beq d (t_details T) with
      | Some s => shape_err s
      | None => client_by_code (fst w)      (* detailsToError returned nil *)
      end
    | None => client_by_code (fst w)
    end.

  (* the same status after something on the way dropped the details *)
  Definition drop_detail (w : wire) : wire := (fst w, None).

  Definition convert (p : plevel) : mlevel :=
    match lookup plevel_beq p (t_conv T) with Some l => l | None => t_conv_default T end.
  Definition to_grpc (l : mlevel) : plevel :=
    match lookup mlevel_beq l (t_grpc T) with Some p => p | None => t_grpc_default T end.
End WithTables.

(* ---- numbers on the wire (for the correspondence run) ------------------------- *)
Definition code_numbers : list (code * nat) :=
  [(codes_OK, 0); (codes_Canceled, 1); (codes_Unknown, 2); (codes_InvalidArgument, 3);
   (codes_DeadlineExceeded, 4); (codes_NotFound, 5); (codes_AlreadyExists, 6);
   (codes_PermissionDenied, 7); (codes_ResourceExhausted, 8); (codes_FailedPrecondition, 9);
   (codes_Aborted, 10); (codes_OutOfRange, 11); (codes_Unimplemented, 12); (codes_Internal, 13);
   (codes_Unavailable, 14); (codes_DataLoss, 15); (codes_Unauthenticated, 16)].

Fixpoint of_number {A : Type} (t : list (A * nat)) (other : A) (n : nat) : A :=
  match t with
  | [] => other
  | (a, k) :: r => if Nat.eqb n k then a else of_number r other n
  end.

Fixpoint to_number {A : Type} (eqb : A -> A -> bool) (t : list (A * nat)) (a : A) : option nat :=
  match t with
  | [] => None
  | (b, k) :: r => if eqb a b then Some k else to_number eqb r a
  end.

Fixpoint index_of {A : Type} (eqb : A -> A -> bool) (l : list A) (a : A) : option nat :=
  match l with
  | [] => None
  | b :: r => if eqb a b then Some 0 else option_map S (index_of eqb r a)
  end.
