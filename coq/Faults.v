(* Faults: the write path of fs_db under injected faults (property C10, inline client).

   Faithful executable model of
     internal/usecase/store/set.go        (retry loop over the shuffled candidate dirs, minSize, closer)
     internal/repository/content/store.go (os.Create, io.Copy through bufWriter, ENOSPC => NotEnoughSpaceError)
     internal/model/errors.go             (Reader() = MultiReader(Start, Middle, End))
   including the defects found there:
     D16  after a PARTIAL write the retry stream is  file ++ failedChunk ++ rest  although  file  already
          holds the first j bytes of failedChunk                     (parameter p_dedup = false)
     D17  on a second ENOSPC the previous Start file is closed while the stream handed to the next root
          may still have to read from it (=> "file already closed"); on the error exits the last Start
          is never closed                                            (parameter p_lateclose = false)
   [store_orig] is the pinned tree, [store_fixed] the repaired one.

   Bytes are N (< 256 in practice; nothing depends on it).  The source is a list of Read results; the
   split into chunks is an input, so every theorem holds for every chunking.  The candidate order is an
   input as well (the code shuffles; theorems quantify over every order).  p_buf is io.Copy's buffer
   size (32768 in the code): a rewound file and the remembered chunk are re-read in pieces of that size.

   Executable definitions only; proofs are in FaultsProofs.v. *)
From Coq Require Import List NArith Bool.
Import ListNotations.
Open Scope N_scope.

Definition bytes := list N.

(* one Read of the source: some bytes (possibly none), or an error *)
Inductive rd := Data (bs : bytes) | Fail.

(* fault plan of the file created below one root: the file can hold [cap] bytes; the Write that would
   go past cap stores min (cap - offset) keep bytes of its chunk and returns ENOSPC
   (keep = 0: all-or-nothing; keep large: everything that fits, like a real full disk) *)
Inductive fault := NoFault | EnospcAt (cap keep : N).

Record root := mkroot { r_id : N; r_free : N; r_fault : fault }.

Record params := mkparams { p_dedup : bool; p_lateclose : bool; p_buf : nat }.
Definition store_orig (buf : nat) : params := mkparams false false buf.
Definition store_fixed (buf : nat) : params := mkparams true true buf.

(* ---------- the stream handed to content.Store ---------- *)
(* flattened MultiReader nest: one item = one Read result *)
Inductive item :=
| IData (bs : bytes)               (* from the source or from a remembered chunk (bytes.Reader) *)
| IFail                            (* the source fails *)
| IFile (id : nat) (bs : bytes).   (* from rewound file number id; bs = [] is the Read that finds EOF;
                                      fails if that file was closed in the meantime *)

Definition src_item (r : rd) : item :=
  match r with Data bs => IData bs | Fail => IFail end.

(* cut bs into pieces of n bytes (the last may be shorter); no empty pieces when n > 0;
   rev_append cur [] = rev cur, linear time *)
Fixpoint chunks_aux (n : nat) (cur : bytes) (room : nat) (bs : bytes) : list bytes :=
  match bs with
  | [] => match cur with [] => [] | _ => [rev_append cur []] end
  | b :: tl =>
    match room with
    | O => rev_append cur [] :: chunks_aux n [b] (n - 1) tl
    | S r => chunks_aux n (b :: cur) r tl
    end
  end.
Definition chunks_of (n : nat) (bs : bytes) : list bytes := chunks_aux n [] n bs.

Definition file_items (buf id : nat) (content : bytes) : list item :=
  map (IFile id) (chunks_of buf content) ++ [IFile id []].
Definition mem_items (buf : nat) (chunk : bytes) : list item :=
  map IData (chunks_of buf chunk).

(* ---------- (File).Write under a fault plan ---------- *)
(* returns the bytes that reached the file and whether the call succeeded *)
Definition write_chunk (f : fault) (off : N) (p : bytes) : bytes * bool :=
  match f with
  | NoFault => (p, true)
  | EnospcAt cap keep =>
    if off + N.of_nat (length p) <=? cap then (p, true)
    else (firstn (N.to_nat (N.min (cap - off) keep)) p, false)
  end.

(* ---------- content.Store: io.Copy through bufWriter ---------- *)
Inductive copy_res :=
| CDone (file : bytes)                                  (* EOF: file complete, closed *)
| CReadErr (closedfile : bool) (file : bytes)           (* a Read failed: file left behind, closed *)
| CNoSpace (file part chunk : bytes) (rest : list item). (* ENOSPC: whole chunks written, bytes of the
                                                           failing chunk that were written, that chunk
                                                           (bufWriter.buf), unread rest of the stream *)

Definition mem_nat (x : nat) (l : list nat) : bool := existsb (Nat.eqb x) l.

Inductive read_res := RBytes (bs : bytes) | RErr (closedfile : bool).
Definition read_item (closed : list nat) (it : item) : read_res :=
  match it with
  | IData bs => RBytes bs
  | IFail => RErr false
  | IFile id bs => if mem_nat id closed then RErr true else RBytes bs
  end.

Fixpoint copy (f : fault) (closed : list nat) (file : bytes) (its : list item) : copy_res :=
  match its with
  | [] => CDone file
  | it :: tl =>
    match read_item closed it with
    | RErr c => CReadErr c file
    | RBytes [] => copy f closed file tl                (* nr = 0: nothing to write *)
    | RBytes bs =>
      match write_chunk f (N.of_nat (length file)) bs with
      | (_, true) => copy f closed (file ++ bs) tl
      | (part, false) => CNoSpace file part bs tl
      end
    end
  end.

(* ---------- usecase/store.Set: the retry loop ---------- *)
Inductive eclass := ENoFreeSpace | EReader | EClosed.
Inductive outcome := Stored (at_root : N) (content : bytes) | Err (e : eclass).

Record result := mkres {
  res_out : outcome;
  res_orphans : list (N * bytes);   (* files left below the roots that no record points to *)
  res_visited : list N;             (* roots in which a file was created, in order *)
  res_leaked : nat }.               (* Start files never closed *)

Definition leaks (P : params) (opened : list nat) : nat :=
  if p_lateclose P then O else length opened.

(* vis: number of files created so far (= id of the next one); minSize; closed/opened: ids of the
   Start files already closed / still open; its: the stream; orph, visited: accumulated output *)
Fixpoint set_loop (P : params) (order : list root) (vis : nat) (minSize : N)
         (closed opened : list nat) (its : list item)
         (orph : list (N * bytes)) (visited : list N) : result :=
  match order with
  | [] => mkres (Err ENoFreeSpace) orph visited (leaks P opened)
  | r :: tl =>
    if r_free r <=? minSize then set_loop P tl vis minSize closed opened its orph visited
    else
      let visited' := visited ++ [r_id r] in
      match copy (r_fault r) closed [] its with
      | CDone file => mkres (Stored (r_id r) file) orph visited' O
      | CReadErr c file =>
        mkres (Err (if c then EClosed else EReader)) (orph ++ [(r_id r, file)]) visited' (leaks P opened)
      | CNoSpace file part chunk rest =>
        let disk := file ++ part in
        let middle := if p_dedup P then skipn (length part) chunk else chunk in
        let closed' := if p_lateclose P then closed else opened ++ closed in
        let opened' := if p_lateclose P then opened ++ [vis] else [vis] in
        set_loop P tl (S vis) (r_free r) closed' opened'
                 (file_items (p_buf P) vis disk ++ mem_items (p_buf P) middle ++ rest)
                 (orph ++ [(r_id r, disk)]) visited'
      end
  end.

Definition set_run (P : params) (order : list root) (src : list rd) : result :=
  set_loop P order O 0 [] [] (map src_item src) [] [].

(* the bytes a source delivers before it ends *)
Definition rd_bytes (r : rd) : bytes := match r with Data bs => bs | Fail => [] end.
Definition src_bytes (src : list rd) : bytes := flat_map rd_bytes src.
Definition is_fail (r : rd) : bool := match r with Fail => true | Data _ => false end.
Definition src_fails (src : list rd) : bool := existsb is_fail src.

(* entry point for the extracted driver *)
Definition run_faults (dedup lateclose : bool) (buf : nat) (order : list root) (src : list rd) : result :=
  set_run (mkparams dedup lateclose buf) order src.
