(* C07: first committer wins.  On the abstract machine (commits atomic) the second of two
   overlapping snapshot transactions that wrote a common key must fail; the original two-phase
   commit (conflict test under the read lock, publication later under the write lock) lets both
   succeed when the two tests run before either publication. *)
From Coq Require Import List NArith Bool Lia.
From FsDb Require Import VList VListProofs Core Spec CoreLemmas CoreInv Refine SpecProps.
Import ListNotations.
Open Scope N_scope.

(* ---------- dirty sets only grow, and a committed write marks every open transaction ---------- *)
Lemma find_mark_dirty ks o h :
  find (fun t => N.eqb (t_id t) h) (mark_dirty ks o) =
  match find (fun t => N.eqb (t_id t) h) o with
  | Some t => Some (mkatx (t_id t) (t_lvl t) (t_snap t) (ks ++ t_dirty t))
  | None => None
  end.
Proof.
  unfold mark_dirty. induction o as [|t o IH]; [reflexivity|]. cbn [map find t_id].
  destruct (N.eqb (t_id t) h); [reflexivity | exact IH].
Qed.

Lemma find_aopen_del o h h' :
  h' <> h ->
  find (fun t => N.eqb (t_id t) h') (aopen_del o h) = find (fun t => N.eqb (t_id t) h') o.
Proof.
  intros Hne. unfold aopen_del. induction o as [|t o IH]; [reflexivity|]. cbn [filter find].
  destruct (N.eqb_spec (t_id t) h) as [E|E]; cbn [negb find].
  - destruct (N.eqb_spec (t_id t) h'); [congruence | exact IH].
  - destruct (N.eqb (t_id t) h'); [reflexivity | exact IH].
Qed.

Lemma find_app' {A} (f : A -> bool) (l1 l2 : list A) :
  find f (l1 ++ l2) = match find f l1 with Some x => Some x | None => find f l2 end.
Proof. induction l1 as [|x l1 IH]; [reflexivity|]. cbn. destruct (f x); [reflexivity | exact IH]. Qed.

(* what can happen to an open transaction t2 in one step that does not end it *)
Definition ends (o : op) (h : N) : bool :=
  match o with OCommit h' | ORollback h' => N.eqb h' h | OReopen => true | _ => false end.

Definition tx_le (t t' : atx) : Prop :=
  t_id t' = t_id t /\ t_lvl t' = t_lvl t /\ incl (t_dirty t) (t_dirty t') /\ t_snap t' = t_snap t.

Lemma tx_le_refl t : tx_le t t.
Proof. repeat split. apply incl_refl. Qed.

Lemma tx_le_trans t1 t2 t3 : tx_le t1 t2 -> tx_le t2 t3 -> tx_le t1 t3.
Proof.
  intros (A1 & A2 & A3 & A4) (B1 & B2 & B3 & B4). repeat split; try congruence. eapply incl_tran; eassumption.
Qed.

Lemma fold_awrite0_open (f : N -> option N) ks : forall a h,
  aopen_find (fold_left (fun s k => awrite s 0 k (f k)) ks a) h =
  match aopen_find a h with
  | Some t => Some (mkatx (t_id t) (t_lvl t) (t_snap t) (rev ks ++ t_dirty t))
  | None => None
  end.
Proof.
  induction ks as [|k ks IH]; intros a h.
  - cbn. destruct (aopen_find a h) as [t|]; [destruct t|]; reflexivity.
  - cbn [fold_left]. rewrite IH. unfold aopen_find at 1. rewrite awrite_open. cbn [N.eqb].
    rewrite find_mark_dirty. fold (aopen_find a h).
    destruct (aopen_find a h) as [t|]; [|reflexivity]. cbn [t_id t_lvl t_snap t_dirty rev].
    rewrite <- app_assoc. reflexivity.
Qed.

Lemma step_keeps_open a o h t :
  aopen_find a h = Some t -> h <> 0 -> ends o h = false ->
  exists t', aopen_find (fst (astep a o)) h = Some t' /\ tx_le t t'.
Proof.
  intros Hf Hh He.
  assert (Hid : t_id t = h).
  { unfold aopen_find in Hf. apply find_some in Hf. destruct Hf as [_ Hf]. apply N.eqb_eq. exact Hf. }
  assert (Hself : exists t', aopen_find a h = Some t' /\ tx_le t t') by (exists t; split; [exact Hf | apply tx_le_refl]).
  assert (Hw : forall h0 k v, exists t', aopen_find (awrite a h0 k v) h = Some t' /\ tx_le t t').
  { intros h0 k v. unfold aopen_find. rewrite awrite_open. destruct (N.eqb h0 0); [|exact Hself].
    rewrite find_mark_dirty. fold (aopen_find a h). rewrite Hf. eexists. split; [reflexivity|].
    repeat split. cbn [t_dirty]. intros x Hx. apply in_or_app. right. exact Hx. }
  destruct o as [l|h0 k v|h0 k|h0 k|h0|h0|h0| | |]; cbn [astep ends] in *; try exact Hself.
  - (* begin *) cbn [fst]. unfold aopen_find in *. cbn [a_open]. rewrite find_app', Hf. exists t. split; [reflexivity | apply tx_le_refl].
  - destruct (areader a h0); [|exact Hself]. destruct (N.eqb k 0); [exact Hself | apply Hw].
  - destruct (areader a h0); [apply Hw | exact Hself].
  - destruct (areader a h0); exact Hself.
  - destruct (areader a h0); exact Hself.
  - (* commit of another transaction *)
    apply N.eqb_neq in He.
    destruct (aopen_find a h0) as [t0|] eqn:E0; [|exact Hself].
    assert (Hid0 : t_id t0 = h0).
    { unfold aopen_find in E0. apply find_some in E0. destruct E0 as [_ E0]. apply N.eqb_eq. exact E0. }
    unfold acommit. rewrite Hid0.
    destruct (is_snapshot (t_lvl t0) && existsb _ (written_keys a h0)); cbn [fst].
    + unfold aopen_find. cbn [a_open]. rewrite find_aopen_del by congruence. exact Hself.
    + rewrite fold_awrite0_open. unfold aopen_find at 1. cbn [a_open]. rewrite find_aopen_del by congruence.
      fold (aopen_find a h). rewrite Hf. eexists. split; [reflexivity|].
      repeat split. cbn [t_dirty]. intros x Hx. apply in_or_app. right. exact Hx.
  - (* rollback of another transaction *)
    apply N.eqb_neq in He.
    destruct (aopen_find a h0) as [t0|] eqn:E0; [|exact Hself]. cbn [fst].
    unfold aopen_find. cbn [a_open]. rewrite find_aopen_del by congruence. exact Hself.
  - discriminate.
Qed.

(* a successful commit marks every key it wrote dirty in every transaction that stays open *)
Lemma commit_marks_dirty a t1 h2 t2 k :
  aopen_find a h2 = Some t2 -> h2 <> t_id t1 -> snd (acommit a t1) = OutUnit ->
  In k (written_keys a (t_id t1)) ->
  exists t2', aopen_find (fst (acommit a t1)) h2 = Some t2' /\ tx_le t2 t2' /\ In k (t_dirty t2').
Proof.
  intros Hf Hne Hok Hk. unfold acommit in *.
  destruct (is_snapshot (t_lvl t1) && existsb _ (written_keys a (t_id t1))); cbn [fst snd] in *; [discriminate|].
  rewrite fold_awrite0_open. unfold aopen_find at 1. cbn [a_open]. rewrite find_aopen_del by exact Hne.
  fold (aopen_find a h2). rewrite Hf. eexists. split; [reflexivity|]. split.
  - repeat split. cbn [t_dirty]. intros x Hx. apply in_or_app. right. exact Hx.
  - cbn [t_dirty]. apply in_or_app. left. apply in_rev in Hk. exact Hk.
Qed.

(* the keys a transaction wrote stay written while it is open *)
Lemma In_written_keys a h k :
  In k (written_keys a h) <-> In k (map fst (a_vers a)) /\ exists l, In (k, l) (a_vers a) /\ existsb (owned_by h) l = true.
Proof.
  unfold written_keys. rewrite in_map_iff. split.
  - intros ([k' l] & E & Hin). cbn in E. subst k'. apply filter_In in Hin. destruct Hin as [Hin Hex].
    split; [apply (in_map fst) in Hin; exact Hin | eauto].
  - intros (_ & l & Hin & Hex). exists (k, l). split; [reflexivity|]. apply filter_In. auto.
Qed.

(* ---------- "wrote": an entry of the transaction for the key ---------- *)
Definition wrote (a : astate) (h k : N) : bool := existsb (owned_by h) (alget (a_vers a) k).

Lemma existsb_app' {A} (f : A -> bool) l1 l2 : existsb f (l1 ++ l2) = existsb f l1 || existsb f l2.
Proof. apply existsb_app. Qed.

Lemma existsb_filter_keep {A} (f p : A -> bool) (l : list A) :
  (forall x, f x = true -> p x = true) -> existsb f (filter p l) = existsb f l.
Proof.
  intros H. induction l as [|x l IH]; [reflexivity|]. cbn [filter existsb].
  destruct (p x) eqn:Px; cbn [existsb]; rewrite IH; [reflexivity|].
  destruct (f x) eqn:Fx; [|reflexivity]. rewrite (H x Fx) in Px. discriminate.
Qed.

Lemma wrote_awrite a h0 k0 v h k :
  h <> 0 -> wrote a h k = true -> wrote (awrite a h0 k0 v) h k = true.
Proof.
  intros Hh Hw. unfold wrote in *. rewrite awrite_vers.
  destruct (N.eqb_spec k k0) as [->|]; [|exact Hw].
  destruct (N.eqb h0 0); rewrite existsb_app'.
  - rewrite existsb_filter_keep; [rewrite Hw; reflexivity|].
    intros x Hx. unfold owned_by in Hx. unfold committed. apply N.eqb_eq in Hx. rewrite Hx.
    destruct (N.eqb_spec h 0); [contradiction | reflexivity].
  - rewrite Hw. reflexivity.
Qed.

Lemma wrote_drop_owner a h0 h k o n :
  h <> h0 -> wrote a h k = true -> wrote (mka (drop_owner h0 (a_vers a)) o n) h k = true.
Proof.
  intros Hne Hw. unfold wrote in *. cbn [a_vers]. unfold drop_owner.
  rewrite (alget_map_snd (fun _ l => filter (fun e => negb (owned_by h0 e)) l)) by reflexivity.
  rewrite existsb_filter_keep; [exact Hw|].
  intros x Hx. unfold owned_by in *. apply N.eqb_eq in Hx. rewrite Hx.
  destruct (N.eqb_spec h h0); [contradiction | reflexivity].
Qed.

Lemma wrote_fold_awrite0 (f : N -> option N) ks : forall a h k,
  h <> 0 -> wrote a h k = true -> wrote (fold_left (fun s k0 => awrite s 0 k0 (f k0)) ks a) h k = true.
Proof.
  induction ks as [|k0 ks IH]; intros a h k Hh Hw; [exact Hw|].
  cbn [fold_left]. apply IH; [exact Hh|]. apply wrote_awrite; assumption.
Qed.

Lemma wrote_step a o h k :
  h <> 0 -> ends o h = false -> wrote a h k = true -> wrote (fst (astep a o)) h k = true.
Proof.
  intros Hh He Hw.
  destruct o as [l|h0 k0 v|h0 k0|h0 k0|h0|h0|h0| | |]; cbn [astep ends] in *; try exact Hw.
  - destruct (areader a h0); [|exact Hw]. destruct (N.eqb k0 0); [exact Hw | apply wrote_awrite; assumption].
  - destruct (areader a h0); [apply wrote_awrite; assumption | exact Hw].
  - destruct (areader a h0); exact Hw.
  - destruct (areader a h0); exact Hw.
  - apply N.eqb_neq in He.
    destruct (aopen_find a h0) as [t0|] eqn:E0; [|exact Hw].
    assert (Hid0 : t_id t0 = h0).
    { unfold aopen_find in E0. apply find_some in E0. destruct E0 as [_ E0]. apply N.eqb_eq. exact E0. }
    unfold acommit. rewrite Hid0.
    destruct (is_snapshot (t_lvl t0) && existsb _ (written_keys a h0)); cbn [fst].
    + apply wrote_drop_owner; [congruence | exact Hw].
    + apply wrote_fold_awrite0; [exact Hh|]. apply wrote_drop_owner; [congruence | exact Hw].
  - apply N.eqb_neq in He.
    destruct (aopen_find a h0); [|exact Hw]. cbn [fst]. apply wrote_drop_owner; [congruence | exact Hw].
  - discriminate.
Qed.

(* conflict, in terms of [wrote] *)
Lemma conflict_of_wrote a t k :
  In k (map fst (a_vers a)) -> wrote a (t_id t) k = true -> In k (t_dirty t) -> is_snapshot (t_lvl t) = true ->
  NoDup (map fst (a_vers a)) ->
  snd (acommit a t) = OutErr ETxSerialization.
Proof.
  intros Hk Hw Hd Hs Hnd. apply acommit_conflict_iff. split; [exact Hs|]. exists k. split; [|exact Hd].
  unfold written_keys. rewrite (keys_filter_snd (existsb (owned_by (t_id t))) (a_vers a) Hnd).
  apply filter_In. split; [exact Hk | exact Hw].
Qed.

Lemma written_wrote a h k :
  NoDup (map fst (a_vers a)) -> In k (written_keys a h) -> In k (map fst (a_vers a)) /\ wrote a h k = true.
Proof.
  intros Hnd Hk. unfold written_keys in Hk. rewrite (keys_filter_snd (existsb (owned_by h)) (a_vers a) Hnd) in Hk.
  apply filter_In in Hk. exact Hk.
Qed.

(* keys are never forgotten and stay duplicate-free (without Reopen) *)
Lemma keys_step a o :
  NoDup (map fst (a_vers a)) -> o <> OReopen ->
  NoDup (map fst (a_vers (fst (astep a o)))) /\
  forall k, In k (map fst (a_vers a)) -> In k (map fst (a_vers (fst (astep a o)))).
Proof.
  intros Hnd Hne.
  assert (Hw : forall a0 h0 k0 v, NoDup (map fst (a_vers a0)) ->
            NoDup (map fst (a_vers (awrite a0 h0 k0 v))) /\
            forall k, In k (map fst (a_vers a0)) -> In k (map fst (a_vers (awrite a0 h0 k0 v)))).
  { intros a0 h0 k0 v H0. rewrite awrite_keys.
    destruct (existsb (N.eqb k0) (map fst (a_vers a0))) eqn:E; [auto|]. split.
    - apply NoDup_snoc; [exact H0|]. intros Hin. apply existsb_eqb_In in Hin. congruence.
    - intros k Hk. apply in_or_app. left. exact Hk. }
  assert (Hd : forall h0 o0 n, map fst (a_vers (mka (drop_owner h0 (a_vers a)) o0 n)) = map fst (a_vers a)).
  { intros. cbn [a_vers]. unfold drop_owner. rewrite map_map. reflexivity. }
  assert (Hf : forall (f : N -> option N) ks a0, NoDup (map fst (a_vers a0)) ->
            NoDup (map fst (a_vers (fold_left (fun s k0 => awrite s 0 k0 (f k0)) ks a0))) /\
            forall k, In k (map fst (a_vers a0)) -> In k (map fst (a_vers (fold_left (fun s k0 => awrite s 0 k0 (f k0)) ks a0)))).
  { intros f ks. induction ks as [|k0 ks IH]; intros a0 H0; [auto|]. cbn [fold_left].
    destruct (Hw a0 0 k0 (f k0) H0) as [N1 I1]. destruct (IH _ N1) as [N2 I2]. split; [exact N2 | auto]. }
  destruct o as [l|h0 k0 v|h0 k0|h0 k0|h0|h0|h0| | |]; cbn [astep]; try (split; [exact Hnd | auto]; fail).
  - destruct (areader a h0); [|auto]. destruct (N.eqb k0 0); [auto | apply Hw; exact Hnd].
  - destruct (areader a h0); [apply Hw; exact Hnd | auto].
  - destruct (areader a h0); auto.
  - destruct (areader a h0); auto.
  - destruct (aopen_find a h0) as [t0|]; [|auto]. unfold acommit.
    destruct (is_snapshot (t_lvl t0) && existsb _ (written_keys a (t_id t0))); cbn [fst].
    + rewrite Hd. auto.
    + assert (H1 : NoDup (map fst (a_vers (mka (drop_owner (t_id t0) (a_vers a)) (aopen_del (a_open a) (t_id t0)) (a_nexttx a)))))
        by (rewrite Hd; exact Hnd).
      destruct (Hf (fun k0 => last_val (filter (owned_by (t_id t0)) (alget (a_vers a) k0))) (written_keys a (t_id t0)) _ H1) as [N2 I2].
      split; [exact N2|]. intros k Hk. apply I2. rewrite Hd. exact Hk.
  - destruct (aopen_find a h0); [|auto]. cbn [fst]. rewrite Hd. auto.
  - contradiction.
Qed.

Fixpoint astate_after (a : astate) (ops : list op) : astate :=
  match ops with [] => a | o :: r => astate_after (fst (astep a o)) r end.

(* whatever happens in between (as long as t2 is not ended), t2 stays open, the key stays written
   by it and stays dirty for it *)
Lemma persists ops : forall a h2 t2 k,
  NoDup (map fst (a_vers a)) -> h2 <> 0 ->
  aopen_find a h2 = Some t2 -> In k (map fst (a_vers a)) -> wrote a h2 k = true -> In k (t_dirty t2) ->
  forallb (fun o => negb (ends o h2)) ops = true ->
  exists t2', aopen_find (astate_after a ops) h2 = Some t2' /\ tx_le t2 t2' /\
              NoDup (map fst (a_vers (astate_after a ops))) /\ In k (map fst (a_vers (astate_after a ops))) /\
              wrote (astate_after a ops) h2 k = true /\ In k (t_dirty t2').
Proof.
  induction ops as [|o ops IH]; intros a h2 t2 k Hnd Hh Hf Hk Hw Hd Hall.
  - exists t2. repeat split; try assumption. apply incl_refl.
  - cbn [forallb] in Hall. apply andb_true_iff in Hall. destruct Hall as [He Hall]. apply negb_true_iff in He.
    assert (Hne : o <> OReopen) by (intros ->; discriminate).
    destruct (step_keeps_open a o h2 t2 Hf Hh He) as (t2a & Hfa & Hle).
    destruct (keys_step a o Hnd Hne) as [Hnd' Hin'].
    assert (Hwa := wrote_step a o h2 k Hh He Hw).
    assert (Hda : In k (t_dirty t2a)) by (destruct Hle as (_ & _ & Hi & _); apply Hi; exact Hd).
    destruct (IH (fst (astep a o)) h2 t2a k Hnd' Hh Hfa (Hin' k Hk) Hwa Hda Hall) as (t2' & H1 & H2 & H3).
    exists t2'. split; [exact H1|]. split; [exact (tx_le_trans _ _ _ Hle H2) | exact H3].
Qed.

(* FIRST COMMITTER WINS, for atomic commits: if two transactions that are open at the same time
   wrote a common key and one commits successfully, then the other — if it is RepeatableRead or
   Serializable — fails with ErrTxSerialization whenever it commits, whatever happens in between *)
Theorem first_committer_wins a t1 t2 k ops :
  NoDup (map fst (a_vers a)) ->
  aopen_find a (t_id t1) = Some t1 -> aopen_find a (t_id t2) = Some t2 ->
  t_id t1 <> t_id t2 -> t_id t2 <> 0 -> is_snapshot (t_lvl t2) = true ->
  In k (written_keys a (t_id t1)) -> In k (written_keys a (t_id t2)) ->
  snd (acommit a t1) = OutUnit ->
  forallb (fun o => negb (ends o (t_id t2))) ops = true ->
  let a' := astate_after (fst (acommit a t1)) ops in
  exists t2', aopen_find a' (t_id t2) = Some t2' /\ snd (acommit a' t2') = OutErr ETxSerialization.
Proof.
  intros Hnd H1 H2 Hne Hz Hs Hk1 Hk2 Hok Hall a'.
  destruct (written_wrote a (t_id t2) k Hnd Hk2) as [Hkin Hw2].
  destruct (commit_marks_dirty a t1 (t_id t2) t2 k H2 (fun E => Hne (eq_sym E)) Hok Hk1) as (t2a & Hfa & Hle & Hda).
  assert (Hstep : fst (astep a (OCommit (t_id t1))) = fst (acommit a t1)) by (cbn [astep]; rewrite H1; reflexivity).
  assert (He : ends (OCommit (t_id t1)) (t_id t2) = false) by (cbn; apply N.eqb_neq; exact Hne).
  assert (Hnr : OCommit (t_id t1) <> OReopen) by discriminate.
  destruct (keys_step a (OCommit (t_id t1)) Hnd Hnr) as [Hnd1 Hin1]. rewrite Hstep in Hnd1, Hin1.
  assert (Hw1 := wrote_step a (OCommit (t_id t1)) (t_id t2) k Hz He Hw2). rewrite Hstep in Hw1.
  destruct (persists ops (fst (acommit a t1)) (t_id t2) t2a k Hnd1 Hz Hfa (Hin1 k Hkin) Hw1 Hda Hall)
    as (t2' & F1 & F2 & F3 & F4 & F5 & F6).
  exists t2'. split; [exact F1|].
  destruct F2 as (Eid & Elvl & _ & _). destruct Hle as (Eid' & Elvl' & _ & _).
  apply (conflict_of_wrote _ t2' k F4); [rewrite Eid, Eid'; exact F5 | exact F6 | rewrite Elvl, Elvl'; exact Hs | exact F3].
Qed.

(* ---------- the original two-phase commit: both conflict tests before either publication ---------- *)
Definition d8_state : mstate :=
  mstate_after m_init [OSet 0 1 1; OBegin RR; OBegin SER; OSet 1 1 11; OSet 2 1 12].

Theorem first_committer_wins_refuted_orig :
  let m := d8_state in
  exists x1 x2, reg_find (m_reg m) 1 = Some x1 /\ reg_find (m_reg m) 2 = Some x2 /\
    let f1 := conflict_flag m x1 in          (* T1 tests under the read lock *)
    let f2 := conflict_flag m x2 in          (* T2 tests under the read lock, before T1 publishes *)
    let (m1, o1) := commit_with_flag f1 m x1 in
    let (m2, o2) := commit_with_flag f2 m1 x2 in
    o1 = OutUnit /\ o2 = OutUnit /\ snd (mstep m2 (OGet 0 1)) = OutVal 12 /\
    (* with an atomic commit the second one fails *)
    snd (commit (fst (commit m x1)) x2) = OutErr ETxSerialization.
Proof. vm_compute. eexists. eexists. repeat split. Qed.
