(* RW — the asynchronous read-writer behind Create/Write*/Close (C12).

   Go source: internal/utils/async/read_writer.go, used by pkg/inline/db/create.go.
   Two threads share one pipe:
     W  the caller: Write(w1) ... Write(wk) then Close
     R  the storing goroutine (Store().Set -> io.Copy): Read(p) with |p| = B until
        EOF, appending what it read to the stored content, then publish and wg.Done;
        or the sink fails at some Read return: SetError and wg.Done.
   One model step = the code between two pause points (verifhook.At, Appendix A):

     W  WOp      rw.write.enter / rw.close.enter
                 Write:  [m.Lock; checkErr; buf.Write; m.Unlock]         -> WSig
                 Close:  orig  [closed.Store(true)]                      -> WStored
                         fixed [m.Lock; closed.Store(true)]  (keeps m)   -> WStored
        WSig     rw.write.beforeSignal   [cv.Signal; return; next call]  -> WOp
        WStored  rw.close.afterStore     [cv.Broadcast (; m.Unlock)]     -> WWait
        WWait    rw.close.beforeWait     [wg.Wait; return rw.err]        -> WDone   (enabled iff Done happened)
     R  REnter   rw.read.enter  [m.Lock; test]  wait needed: keeps m     -> RBeforeWait
                                                else buf.Read; m.Unlock  -> REnter | REof | RFail
        RBeforeWait rw.read.beforeWait  [cv.Wait part 1: enqueue+unlock] -> RParked
        RParked  (inside cv.Wait, not enabled; Signal/Broadcast moves it to RWoken)
        RWoken   (inside cv.Wait) [m.Lock]                               -> RAfterWake
        RAfterWake rw.read.afterWake  orig  [buf.Read; m.Unlock]
                                      fixed [re-test; wait again -> RBeforeWait | buf.Read; m.Unlock]
        REof     sink.eof   [publish; wg.Done]                           -> RDone
        RFail    sink.fail  [SetError; wg.Done]                          -> RDone

   The variant record selects the original code (if around Wait; Close without the
   mutex) or the repaired code (for; store+broadcast under the mutex). *)
From Coq Require Import List Bool Arith NArith Lia.
From FsDb Require Import Conc.
Import ListNotations.

Definition byte := N.

Inductive tid := W | R.
Inductive wpc := WOp | WSig | WStored | WWait | WDone.
Inductive rpc := REnter | RBeforeWait | RParked | RWoken | RAfterWake | REof | RFail | RDone.

Record variant := mkVariant { v_loop : bool; v_close_locked : bool }.
Definition orig_code := mkVariant false false.
Definition fixed_code := mkVariant true true.

Record params := mkParams {
  p_var : variant;
  p_B : nat;                 (* size of the storing side's read buffer (io.Copy: 32768) *)
  p_fail : option nat        (* Some k: the sink fails at its k-th Read return (0-based) *)
}.

Record st := mkSt {
  buf : list byte;           (* bytes.Buffer *)
  closed : bool;
  err : bool;                (* rw.err <> nil *)
  mu : option tid;           (* owner of rw.m *)
  rdone : bool;              (* WaitGroup counter reached 0 *)
  wp : wpc;
  todo : list (list byte);   (* writes still to be issued *)
  wres : list bool;          (* results of the Writes issued so far, latest first; true = nil error *)
  cres : option bool;        (* result of Close once it returned; Some true = nil *)
  rp : rpc;
  stored : list byte;        (* what the sink has written to the file so far *)
  nreads : nat;              (* Read calls that returned *)
  published : option (list byte)   (* Some c: the sink finished and published c *)
}.

Definition init (ws : list (list byte)) : st :=
  mkSt [] false false None false WOp ws [] None REnter [] 0 None.

Definition is_nil {A} (l : list A) : bool := match l with [] => true | _ => false end.
Definition must_wait (s : st) : bool := negb (closed s) && is_nil (buf s).
Definition mu_free (s : st) : bool := match mu s with None => true | Some _ => false end.

Definition fails (p : params) (n : nat) : bool :=
  match p_fail p with Some k => Nat.eqb n k | None => false end.

(* rw.buf.Read(p) with |p| = B, then unlock, then what the sink does with the result *)
Definition take (p : params) (s : st) : st :=
  let n := nreads s in
  if fails p n then
    mkSt (skipn (p_B p) (buf s)) (closed s) (err s) None (rdone s) (wp s) (todo s) (wres s) (cres s)
         RFail (stored s) (S n) (published s)
  else match buf s with
  | [] => mkSt [] (closed s) (err s) None (rdone s) (wp s) (todo s) (wres s) (cres s)
               REof (stored s) (S n) (published s)
  | _ => mkSt (skipn (p_B p) (buf s)) (closed s) (err s) None (rdone s) (wp s) (todo s) (wres s) (cres s)
              REnter (stored s ++ firstn (p_B p) (buf s)) (S n) (published s)
  end.

Definition set_r (s : st) (m : option tid) (r : rpc) : st :=
  mkSt (buf s) (closed s) (err s) m (rdone s) (wp s) (todo s) (wres s) (cres s) r (stored s) (nreads s) (published s).

Definition step_R (p : params) (s : st) : st :=
  match rp s with
  | REnter => if must_wait s then set_r s (Some R) RBeforeWait else take p s
  | RBeforeWait => set_r s None RParked
  | RParked => s
  | RWoken => set_r s (Some R) RAfterWake
  | RAfterWake => if v_loop (p_var p) && must_wait s then set_r s (Some R) RBeforeWait else take p s
  | REof => mkSt (buf s) (closed s) (err s) (mu s) true (wp s) (todo s) (wres s) (cres s)
                 RDone (stored s) (nreads s) (Some (stored s))
  | RFail => mkSt (buf s) (closed s) true (mu s) true (wp s) (todo s) (wres s) (cres s)
                  RDone (stored s) (nreads s) (published s)
  | RDone => s
  end.

Definition enabled_R (s : st) : bool :=
  match rp s with
  | REnter | RWoken => mu_free s
  | RBeforeWait | RAfterWake | REof | RFail => true
  | RParked | RDone => false
  end.

(* Signal / Broadcast with at most one waiter *)
Definition wake (s : st) : st :=
  match rp s with
  | RParked => set_r s (mu s) RWoken
  | _ => s
  end.

Definition set_w (s : st) (m : option tid) (w : wpc) : st :=
  mkSt (buf s) (closed s) (err s) m (rdone s) w (todo s) (wres s) (cres s) (rp s) (stored s) (nreads s) (published s).

Definition step_W (p : params) (s : st) : st :=
  match wp s with
  | WOp =>
    match todo s with
    | w :: rest =>
      if err s
      then mkSt (buf s) (closed s) (err s) (mu s) (rdone s) WSig rest (false :: wres s) (cres s)
                (rp s) (stored s) (nreads s) (published s)
      else mkSt (buf s ++ w) (closed s) (err s) (mu s) (rdone s) WSig rest (true :: wres s) (cres s)
                (rp s) (stored s) (nreads s) (published s)
    | [] =>
      mkSt (buf s) true (err s) (if v_close_locked (p_var p) then Some W else mu s) (rdone s) WStored
           (todo s) (wres s) (cres s) (rp s) (stored s) (nreads s) (published s)
    end
  | WSig => wake (set_w s (mu s) WOp)
  | WStored => wake (set_w s (if v_close_locked (p_var p) then None else mu s) WWait)
  | WWait => mkSt (buf s) (closed s) (err s) (mu s) (rdone s) WDone (todo s) (wres s) (Some (negb (err s)))
                  (rp s) (stored s) (nreads s) (published s)
  | WDone => s
  end.

Definition enabled_W (p : params) (s : st) : bool :=
  match wp s with
  | WOp => match todo s with
           | _ :: _ => mu_free s
           | [] => if v_close_locked (p_var p) then mu_free s else true
           end
  | WSig | WStored => true
  | WWait => rdone s
  | WDone => false
  end.

Definition rw_enabled (p : params) (s : st) (t : tid) : bool :=
  match t with W => enabled_W p s | R => enabled_R s end.
Definition rw_step (p : params) (s : st) (t : tid) : st :=
  match t with W => step_W p s | R => step_R p s end.

Definition rw_sys (p : params) : sys := mkSys st tid (rw_enabled p) (rw_step p).
Definition rw_orig (B : nat) (f : option nat) : sys := rw_sys (mkParams orig_code B f).
Definition rw_fixed (B : nat) (f : option nat) : sys := rw_sys (mkParams fixed_code B f).

Definition final (s : st) : bool :=
  match wp s, rp s with WDone, RDone => true | _, _ => false end.
Definition stuck (p : params) (s : st) : bool :=
  negb (final s) && negb (rw_enabled p s W) && negb (rw_enabled p s R).

(* ------------------------------------------------------------------ *)
(* what a schedule-replay controller observes                          *)

Inductive point :=
  | PWriteEnter | PWriteBeforeSignal | PCloseEnter | PCloseAfterStore | PCloseBeforeWait
  | PReadEnter | PReadBeforeWait | PReadAfterWake | PSinkEof | PSinkFail.

Inductive obs := OAt (pt : point) | OBlocked | OFinished.

Definition obs_W (s : st) : obs :=
  match wp s with
  | WOp => match todo s with _ :: _ => OAt PWriteEnter | [] => OAt PCloseEnter end
  | WSig => OAt PWriteBeforeSignal
  | WStored => OAt PCloseAfterStore
  | WWait => OAt PCloseBeforeWait
  | WDone => OFinished
  end.
Definition obs_R (s : st) : obs :=
  match rp s with
  | REnter => OAt PReadEnter
  | RBeforeWait => OAt PReadBeforeWait
  | RParked | RWoken => OBlocked
  | RAfterWake => OAt PReadAfterWake
  | REof => OAt PSinkEof
  | RFail => OAt PSinkFail
  | RDone => OFinished
  end.
Definition obs_of (s : st) (t : tid) : obs := match t with W => obs_W s | R => obs_R s end.

Definition tid_eqb (a b : tid) : bool :=
  match a, b with W, W | R, R => true | _, _ => false end.
Definition mem_tid (t : tid) (l : list tid) : bool := existsb (tid_eqb t) l.
Definition remove_tid (t : tid) (l : list tid) : list tid := filter (fun x => negb (tid_eqb t x)) l.

(* Replay semantics: choosing an enabled thread performs its step and yields where it
   stops next; choosing a thread that is not enabled is a *probe*: the real thread is
   released, must block, and stays "in flight" (it will move by itself as soon as it
   can).  [probed] is the set of probed threads. *)
Fixpoint trace (p : params) (sched : list tid) (s : st) (probed : list tid) : list (tid * obs) * st :=
  match sched with
  | [] => ([], s)
  | t :: r =>
    if rw_enabled p s t then
      let s' := rw_step p s t in
      let (evs, s'') := trace p r s' (remove_tid t probed) in
      ((t, obs_of s' t) :: evs, s'')
    else
      let (evs, s'') := trace p r s (t :: probed) in
      ((t, OBlocked) :: evs, s'')
  end.

(* a thread is "in flight" when the real thread is not sitting at a pause point: inside
   cv.Wait, or released by a probe and blocked in Lock / wg.Wait *)
Definition in_flight (s : st) (probed : list tid) (t : tid) : bool :=
  mem_tid t probed ||
  match t with
  | R => match rp s with RParked | RWoken => true | _ => false end
  | W => false
  end.

(* threads that move by themselves in the real code: in flight and enabled *)
Definition eager (p : params) (s : st) (probed : list tid) : list tid :=
  filter (fun t => in_flight s probed t && rw_enabled p s t) [W; R].

Definition at_point (s : st) (t : tid) : bool :=
  match obs_of s t with OAt _ => true | _ => false end.

(* Enumeration of complete schedules (depth-first, [fuel] bounds the length).
   eager_only = true keeps only schedules the pause-point controller can replay: a
   thread that is in flight and enabled goes next.  [probes] = number of probes that
   may still be inserted (a probe releases a thread that sits at a pause point and is
   not enabled). *)
Fixpoint enum (p : params) (eager_only : bool) (fuel probes : nat) (s : st) (probed : list tid)
  : list (list tid) :=
  match fuel with
  | 0 => [[]]
  | S f =>
    let en := filter (rw_enabled p s) [W; R] in
    let eg := eager p s probed in
    let cands := if eager_only then match eg with [] => en | _ => eg end else en in
    let moves := flat_map (fun t => map (cons t) (enum p eager_only f probes (rw_step p s t) (remove_tid t probed))) cands in
    let prb :=
      match probes, eg with
      | S k, [] =>
        flat_map (fun t =>
          if negb (rw_enabled p s t) && at_point s t && negb (mem_tid t probed)
          then map (cons t) (enum p eager_only f k s (t :: probed)) else []) [W; R]
      | _, _ => []
      end in
    match cands with
    | [] => [[]]
    | _ => moves ++ prb
    end
  end.

(* upper bound on the length of any schedule (see RWProofs.measure) *)
Definition sched_bound (ws : list (list byte)) : nat :=
  8 * (2 * length ws + 3) + 8 * length (concat ws) + 8.

(* contents used by the correspondence run: byte j of the whole stream is 'a' + j mod 26 *)
Fixpoint pattern (off n : nat) : list byte :=
  match n with 0 => [] | S k => N.of_nat (97 + off mod 26) :: pattern (S off) k end.
Fixpoint writes_of_sizes (off : nat) (sizes : list nat) : list (list byte) :=
  match sizes with [] => [] | n :: r => pattern off n :: writes_of_sizes (off + n) r end.

(* ------------------------------------------------------------------ *)
(* The gRPC variant: streamwriter (internal/utils/grpc/streamwriter/writer.go)
   is sequential.  Write appends to a buffer and sends chunkSize-byte chunks while at
   least chunkSize bytes are buffered; Close sends the non-empty tail. *)

Fixpoint drain (fuel cs : nat) (b : list byte) : list (list byte) * list byte :=
  match fuel with
  | 0 => ([], b)
  | S f =>
    if cs <=? length b
    then let (cks, rest) := drain f cs (skipn cs b) in (firstn cs b :: cks, rest)
    else ([], b)
  end.

Definition sw_write (cs : nat) (b w : list byte) : list (list byte) * list byte :=
  drain (S (length (b ++ w))) cs (b ++ w).

Fixpoint sw_writes (cs : nat) (b : list byte) (ws : list (list byte)) : list (list byte) * list byte :=
  match ws with
  | [] => ([], b)
  | w :: r =>
    let (c1, b1) := sw_write cs b w in
    let (c2, b2) := sw_writes cs b1 r in
    (c1 ++ c2, b2)
  end.

Definition sw_close (b : list byte) : list (list byte) :=
  match b with [] => [] | _ => [b] end.

(* all chunks sent for Write(w1) ... Write(wk); Close *)
Definition writer_chunks (cs : nat) (ws : list (list byte)) : list (list byte) :=
  let (c, b) := sw_writes cs [] ws in c ++ sw_close b.

(* ------------------------------------------------------------------ *)
(* entry points for the extracted driver (prefixed names: one flat OCaml module) *)
Definition rw_params (loop locked : bool) (B : nat) (f : option nat) : params :=
  mkParams (mkVariant loop locked) B f.
Definition rw_init := init.
Definition rw_trace := trace.
Definition rw_enum := enum.
Definition rw_final := final.
Definition rw_stuck := stuck.
Definition rw_bound := sched_bound.
Definition rw_writes := writes_of_sizes 0.
Definition rw_initial_obs (s : st) : list (tid * obs) := [(W, obs_of s W); (R, obs_of s R)].
Definition sw_chunks := writer_chunks.
Definition rw_outcome (s : st) : option bool * (list bool * (option (list byte) * list byte)) :=
  (cres s, (rev (wres s), (published s, stored s))).
