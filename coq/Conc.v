(* Conc — generic interleaving systems (DESIGN.md 6.5).
   A system is a state type, a thread-id type, an enabledness test and a step
   function.  A schedule is a list of thread choices; [run] is undefined as
   soon as a chosen thread is not enabled.  Used by RW (C12); meant to be
   reused by the other concurrency models (C06, C07, C08, C16). *)
From Coq Require Import List Bool Arith Lia.
Import ListNotations.

Record sys := mkSys {
  St : Type;
  Tid : Type;
  enabled : St -> Tid -> bool;
  step : St -> Tid -> St
}.

Fixpoint run (S : sys) (sched : list (Tid S)) (s : St S) : option (St S) :=
  match sched with
  | [] => Some s
  | t :: r => if enabled S s t then run S r (step S s t) else None
  end.

Definition reachable (S : sys) (s0 s : St S) : Prop := exists sched, run S sched s0 = Some s.

Definition always (S : sys) (s0 : St S) (P : St S -> Prop) : Prop :=
  forall sched s', run S sched s0 = Some s' -> P s'.

Lemma run_app : forall S a b s,
  run S (a ++ b) s = match run S a s with Some s' => run S b s' | None => None end.
Proof.
  intros S a. induction a as [|t a IH]; intros b s; simpl.
  - reflexivity.
  - destruct (enabled S s t); [apply IH | reflexivity].
Qed.

(* invariants are preserved along every schedule *)
Lemma always_ind : forall S s0 (P : St S -> Prop),
  P s0 ->
  (forall s t, P s -> enabled S s t = true -> P (step S s t)) ->
  always S s0 P.
Proof.
  intros S s0 P H0 Hstep sched. revert s0 H0.
  induction sched as [|t r IH]; intros s0 H0 s' Hrun; simpl in Hrun.
  - inversion Hrun. subst. exact H0.
  - destruct (enabled S s0 t) eqn:E; [|discriminate].
    apply (IH (step S s0 t)); [apply Hstep; assumption | exact Hrun].
Qed.

(* a measure that strictly decreases at every enabled step bounds the length of every schedule *)
Lemma run_length_bounded : forall S (m : St S -> nat),
  (forall s t, enabled S s t = true -> m (step S s t) < m s) ->
  forall sched s s', run S sched s = Some s' -> length sched + m s' <= m s.
Proof.
  intros S m Hdec sched. induction sched as [|t r IH]; intros s s' Hrun; simpl in Hrun.
  - inversion Hrun. subst. simpl. lia.
  - destruct (enabled S s t) eqn:E; [|discriminate].
    specialize (IH _ _ Hrun). specialize (Hdec _ _ E). simpl. lia.
Qed.

(* with such a measure, and an invariant [P] under which a non-final state always has
   an enabled thread, every state satisfying [P] can be driven to a final state *)
Lemma can_finish : forall S (m : St S -> nat) (P : St S -> Prop) (fin : St S -> bool),
  (forall s t, enabled S s t = true -> m (step S s t) < m s) ->
  (forall s t, P s -> enabled S s t = true -> P (step S s t)) ->
  (forall s, P s -> fin s = false -> exists t, enabled S s t = true) ->
  forall n s, m s <= n -> P s -> exists sched s', run S sched s = Some s' /\ fin s' = true /\ P s'.
Proof.
  intros S m P fin Hdec Hpres Hprog n. induction n as [|n IH]; intros s Hm HP.
  - destruct (fin s) eqn:F.
    + exists [], s. simpl. auto.
    + destruct (Hprog s HP F) as [t Et]. specialize (Hdec _ _ Et). lia.
  - destruct (fin s) eqn:F.
    + exists [], s. simpl. auto.
    + destruct (Hprog s HP F) as [t Et].
      assert (Hlt := Hdec _ _ Et).
      destruct (IH (step S s t)) as (sched & s' & Hr & Hf & HP'); [lia | apply Hpres; assumption |].
      exists (t :: sched), s'. simpl. rewrite Et. auto.
Qed.
