(* Small list utilities shared by the development. *)
From Coq Require Import List Arith Lia.
Import ListNotations.

Section Base.
  Variable A : Type.

  Lemma firstn_app_exact (l1 l2 : list A) n : length l1 = n -> firstn n (l1 ++ l2) = l1.
  Proof.
    intros <-. rewrite firstn_app, Nat.sub_diag, firstn_all. simpl. apply app_nil_r.
  Qed.

  Lemma skipn_app_exact (l1 l2 : list A) n : length l1 = n -> skipn n (l1 ++ l2) = l2.
  Proof.
    intros <-. rewrite skipn_app, Nat.sub_diag, skipn_all. reflexivity.
  Qed.

  Lemma skipn_add (l : list A) a b : skipn (a + b) l = skipn b (skipn a l).
  Proof.
    revert l. induction a as [|a IH]; intros l; [reflexivity|].
    destruct l; simpl; [rewrite skipn_nil; reflexivity | apply IH].
  Qed.
  Lemma Forall_firstn' (P : A -> Prop) n (l : list A) : Forall P l -> Forall P (firstn n l).
  Proof.
    intros H. rewrite Forall_forall in *. intros x Hx. apply H.
    rewrite <- (firstn_skipn n l). apply in_or_app; left; exact Hx.
  Qed.

  Lemma Forall_skipn' (P : A -> Prop) n (l : list A) : Forall P l -> Forall P (skipn n l).
  Proof.
    intros H. rewrite Forall_forall in *. intros x Hx. apply H.
    rewrite <- (firstn_skipn n l). apply in_or_app; right; exact Hx.
  Qed.
End Base.

Arguments firstn_app_exact {A}.
Arguments skipn_app_exact {A}.
Arguments skipn_add {A}.
Arguments Forall_firstn' {A}.
Arguments Forall_skipn' {A}.
