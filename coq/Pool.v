(* Pool — the worker pool behind the cleaner (C16).

   Go source: internal/utils/wpool/{pool,send,lazy_send,run,stop,sched}.go.
   Threads of the transition system (Conc.sys):
     PtL i  lifecycle client i: a list of Stop / Run calls
     PtS i  sender client i: a list of Send(j) calls (Sched is such a client)
     PtF n  the n-th deferred-send flusher goroutine that was ever spawned (lazyResend)
     PtW k  worker k (goroutine running Pool.run); re-spawned by every Run
   One model step = the code between two pause points (verifhook.At, DESIGN Appendix A):

     sender  PsIdle     wpool.send.enter        [sendWg.Add; ctx test]  nil ctx: panic | cancelled: return | -> PsSel
             PsSel j    wpool.send.beforeSelect [select]  room: enqueue, return | full & live: time-out -> PsLazy
                                                          cancelled: return (both ready: either, chosen by the label)
             PsLazy j   wpool.lazy.enter        [listM.Lock; push; lazySendM.TryLock]
                                                ok: spawn flusher; unlock; return | fail: keeps listM -> PsLFail
             PsLFail j  wpool.lazy.afterTryLockFail [listM.Unlock; return]
     flusher PfNew      (spawned, not yet at its first pause point)              -> PfLoop
             PfLoop     wpool.flusher.loop      [listM.Lock; PopBack; (repaired: nil => lazySendM.Unlock;) listM.Unlock]
                                                                                 -> PfHas j | PfNil
             PfHas j    wpool.flusher.afterPop  [select]  room: enqueue -> PfLoop | cancelled: (repaired: Unlock) -> PfExit
             PfNil      wpool.flusher.afterPopNil                                -> PfExit
             PfExit     wpool.flusher.beforeExit [(original: lazySendM.Unlock;) sendWg.Done]  -> PfGone
     worker  PwNew      (spawned)                                                -> PwStart
             PwStart    wpool.worker.start                                       -> PwIdle
             PwIdle     (inside select)  job: dequeue -> PwBegin j | cancelled: runWg.Done -> PwGone
             PwBegin j  wpool.exec.begin        [Fn runs: one execution of j is logged]        -> PwEnd j
             PwEnd j    wpool.exec.end                                           -> PwIdle
     Stop    PlIdle     wpool.stop.enter        [runM.TryLock]  ok (not running) -> PlStopHeld | fail: [cancel()] -> PlStopWaitS
             PlStopHeld wpool.stop.notRunning   [runM.Unlock; return]
             PlStopWaitS wpool.stop.afterCancel [sendWg.Wait]                    -> PlStopWaitR
             PlStopWaitR wpool.stop.afterSendWait [runWg.Wait]                   -> PlStopClose
             PlStopClose wpool.stop.beforeClose [close(ch); el.Clear; runM.Unlock; return]
     Run     PlIdle     wpool.run.enter         [runM.TryLock]  fail: return | ok -> PlRunInit
             PlRunInit  wpool.run.afterTryLock  original: [new ctx]   repaired: [new channel; new ctx]   -> PlRunSpawn
             PlRunSpawn wpool.run.afterCtx      original: [new channel; spawn workers; return]   repaired: [spawn workers; return]

   A label is a thread and a flag: the flag selects the "done" branch of a select in which
   both the done case and the channel case are ready (Go picks at random).  The time-out case
   of Send's select is enabled only when the channel is full.  The wait-group counters are
   derived: sendWg = senders inside Send + flushers alive, runWg = workers alive.
   [pl_fix] selects the original code (false) or the repaired code (true).  Two repairs: the
   flusher releases lazySendM while it still holds listM when it has popped nil (D14); Run makes
   the new channel before it publishes the new context, so a Send that sees the new context
   never sees the closed channel of the previous epoch (D18).
   A panic (or fatal error) stops the system: no thread is enabled afterwards. *)
From Coq Require Import List Bool Arith Lia.
From FsDb Require Import Conc.
Import ListNotations.
Open Scope bool_scope.

Definition pl_job := nat.
Inductive pl_lop := PlStop | PlRun.

Inductive pl_spc := PsIdle | PsSel (j : pl_job) | PsLazy (j : pl_job) | PsLFail (j : pl_job).
Inductive pl_lpc := PlIdle | PlStopHeld | PlStopWaitS | PlStopWaitR | PlStopClose | PlRunInit | PlRunSpawn.
Inductive pl_fpc := PfNew | PfLoop | PfHas (j : pl_job) | PfNil | PfExit | PfGone.
Inductive pl_wpc := PwGone | PwNew | PwStart | PwIdle | PwBegin (j : pl_job) | PwEnd (j : pl_job).
Inductive pl_cx := PxNil | PxLive | PxCancelled.
Inductive pl_ch := PhNil | PhOpen | PhClosed.
(* nil ctx in Send | nil cancel func in Stop | close of closed channel | close of nil channel |
   send on closed channel | zero Event received from a closed channel (nil ctx in exec) |
   unlock of unlocked runM (fatal) | two generations of workers alive: outside this model *)
Inductive pl_pk := PkNilCtx | PkNilCancel | PkCloseClosed | PkCloseNil | PkSendClosed | PkRecvClosed
                 | PkUnlock | PkOutOfModel.

Record pl_snd := PlSnd { pl_spc_of : pl_spc; pl_sjobs : list pl_job }.
Record pl_lcl := PlLcl { pl_lpc_of : pl_lpc; pl_lops : list pl_lop }.

Record pl_par := PlPar { pl_fix : bool; pl_nw : nat }.
Definition pl_cap (p : pl_par) : nat := 2 * pl_nw p.
Definition pl_orig (nw : nat) : pl_par := PlPar false nw.
Definition pl_fixed (nw : nat) : pl_par := PlPar true nw.

Record pl_st := PlSt {
  pl_chan : list pl_job;       (* buffered channel, head = oldest *)
  pl_chs : pl_ch;
  pl_def : list pl_job;        (* deferred list; PushBack appends, PopBack takes the last *)
  pl_flock : bool;             (* lazySendM *)
  pl_listm : option nat;       (* listM: the sender that holds it across a pause point *)
  pl_cxs : pl_cx;              (* p.ctx / p.cancel *)
  pl_runm : bool;              (* runM *)
  pl_log : list pl_job;        (* executions, latest first *)
  pl_acc : list pl_job;        (* ghost: jobs enqueued or deferred since the last Run *)
  pl_sns : list pl_snd;
  pl_lfs : list pl_lcl;
  pl_fls : list pl_fpc;
  pl_wks : list pl_wpc;
  pl_panic : option pl_pk
}.

Definition pl_set_chan s v := PlSt v (pl_chs s) (pl_def s) (pl_flock s) (pl_listm s) (pl_cxs s) (pl_runm s) (pl_log s) (pl_acc s) (pl_sns s) (pl_lfs s) (pl_fls s) (pl_wks s) (pl_panic s).
Definition pl_set_chs s v := PlSt (pl_chan s) v (pl_def s) (pl_flock s) (pl_listm s) (pl_cxs s) (pl_runm s) (pl_log s) (pl_acc s) (pl_sns s) (pl_lfs s) (pl_fls s) (pl_wks s) (pl_panic s).
Definition pl_set_def s v := PlSt (pl_chan s) (pl_chs s) v (pl_flock s) (pl_listm s) (pl_cxs s) (pl_runm s) (pl_log s) (pl_acc s) (pl_sns s) (pl_lfs s) (pl_fls s) (pl_wks s) (pl_panic s).
Definition pl_set_flock s v := PlSt (pl_chan s) (pl_chs s) (pl_def s) v (pl_listm s) (pl_cxs s) (pl_runm s) (pl_log s) (pl_acc s) (pl_sns s) (pl_lfs s) (pl_fls s) (pl_wks s) (pl_panic s).
Definition pl_set_listm s v := PlSt (pl_chan s) (pl_chs s) (pl_def s) (pl_flock s) v (pl_cxs s) (pl_runm s) (pl_log s) (pl_acc s) (pl_sns s) (pl_lfs s) (pl_fls s) (pl_wks s) (pl_panic s).
Definition pl_set_cxs s v := PlSt (pl_chan s) (pl_chs s) (pl_def s) (pl_flock s) (pl_listm s) v (pl_runm s) (pl_log s) (pl_acc s) (pl_sns s) (pl_lfs s) (pl_fls s) (pl_wks s) (pl_panic s).
Definition pl_set_runm s v := PlSt (pl_chan s) (pl_chs s) (pl_def s) (pl_flock s) (pl_listm s) (pl_cxs s) v (pl_log s) (pl_acc s) (pl_sns s) (pl_lfs s) (pl_fls s) (pl_wks s) (pl_panic s).
Definition pl_set_log s v := PlSt (pl_chan s) (pl_chs s) (pl_def s) (pl_flock s) (pl_listm s) (pl_cxs s) (pl_runm s) v (pl_acc s) (pl_sns s) (pl_lfs s) (pl_fls s) (pl_wks s) (pl_panic s).
Definition pl_set_acc s v := PlSt (pl_chan s) (pl_chs s) (pl_def s) (pl_flock s) (pl_listm s) (pl_cxs s) (pl_runm s) (pl_log s) v (pl_sns s) (pl_lfs s) (pl_fls s) (pl_wks s) (pl_panic s).
Definition pl_set_sns s v := PlSt (pl_chan s) (pl_chs s) (pl_def s) (pl_flock s) (pl_listm s) (pl_cxs s) (pl_runm s) (pl_log s) (pl_acc s) v (pl_lfs s) (pl_fls s) (pl_wks s) (pl_panic s).
Definition pl_set_lfs s v := PlSt (pl_chan s) (pl_chs s) (pl_def s) (pl_flock s) (pl_listm s) (pl_cxs s) (pl_runm s) (pl_log s) (pl_acc s) (pl_sns s) v (pl_fls s) (pl_wks s) (pl_panic s).
Definition pl_set_fls s v := PlSt (pl_chan s) (pl_chs s) (pl_def s) (pl_flock s) (pl_listm s) (pl_cxs s) (pl_runm s) (pl_log s) (pl_acc s) (pl_sns s) (pl_lfs s) v (pl_wks s) (pl_panic s).
Definition pl_set_wks s v := PlSt (pl_chan s) (pl_chs s) (pl_def s) (pl_flock s) (pl_listm s) (pl_cxs s) (pl_runm s) (pl_log s) (pl_acc s) (pl_sns s) (pl_lfs s) (pl_fls s) v (pl_panic s).
Definition pl_set_panic s (k : pl_pk) := PlSt (pl_chan s) (pl_chs s) (pl_def s) (pl_flock s) (pl_listm s) (pl_cxs s) (pl_runm s) (pl_log s) (pl_acc s) (pl_sns s) (pl_lfs s) (pl_fls s) (pl_wks s) (Some k).

Fixpoint pl_upd {A} (l : list A) (i : nat) (x : A) : list A :=
  match l, i with
  | [], _ => []
  | _ :: r, 0 => x :: r
  | y :: r, S k => y :: pl_upd r k x
  end.

Fixpoint pl_sum {A} (f : A -> nat) (l : list A) : nat :=
  match l with [] => 0 | x :: r => f x + pl_sum f r end.

Definition pl_is_nil {A} (l : list A) : bool := match l with [] => true | _ => false end.

Definition pl_pop_back (l : list pl_job) : option (list pl_job * pl_job) :=
  match rev l with [] => None | j :: r => Some (rev r, j) end.

(* derived wait-group counters *)
Definition pl_in_send (c : pl_snd) : nat := match pl_spc_of c with PsIdle => 0 | _ => 1 end.
Definition pl_f_alive (f : pl_fpc) : nat := match f with PfGone => 0 | _ => 1 end.
Definition pl_w_alive (w : pl_wpc) : nat := match w with PwGone => 0 | _ => 1 end.
Definition pl_sendwg (s : pl_st) : nat := pl_sum pl_in_send (pl_sns s) + pl_sum pl_f_alive (pl_fls s).
Definition pl_runwg (s : pl_st) : nat := pl_sum pl_w_alive (pl_wks s).

Definition pl_cancelled (s : pl_st) : bool := match pl_cxs s with PxCancelled => true | _ => false end.
(* the channel-send case of a select is ready: room in an open channel; a closed channel (panics) *)
Definition pl_can_enq (p : pl_par) (s : pl_st) : bool :=
  match pl_chs s with
  | PhOpen => length (pl_chan s) <? pl_cap p
  | PhClosed => true
  | PhNil => false
  end.
Definition pl_enq (s : pl_st) (j : pl_job) : pl_st :=
  match pl_chs s with
  | PhClosed => pl_set_panic s PkSendClosed
  | _ => pl_set_chan s (pl_chan s ++ [j])
  end.
(* the channel-receive case is ready *)
Definition pl_can_deq (s : pl_st) : bool :=
  negb (pl_is_nil (pl_chan s)) || match pl_chs s with PhClosed => true | _ => false end.

Inductive pl_tid := PtL (i : nat) | PtS (i : nat) | PtF (n : nat) | PtW (k : nat).
Definition pl_lab := (pl_tid * bool)%type.

Definition pl_step_s (p : pl_par) (s : pl_st) (i : nat) (alt : bool) : option pl_st :=
  match nth_error (pl_sns s) i with
  | None => None
  | Some c =>
    let put := fun (pc : pl_spc) (jobs : list pl_job) (s' : pl_st) =>
                 pl_set_sns s' (pl_upd (pl_sns s') i (PlSnd pc jobs)) in
    let jobs := pl_sjobs c in
    match pl_spc_of c with
    | PsIdle =>
      if alt then None else
      match jobs with
      | [] => None
      | j :: r =>
        match pl_cxs s with
        | PxNil => Some (pl_set_panic s PkNilCtx)
        | PxCancelled => Some (put PsIdle r s)
        | PxLive => Some (put (PsSel j) r s)
        end
      end
    | PsSel j =>
      if alt then (if pl_cancelled s && pl_can_enq p s then Some (put PsIdle jobs s) else None)
      else if pl_can_enq p s then Some (put PsIdle jobs (pl_set_acc (pl_enq s j) (j :: pl_acc s)))
      else if pl_cancelled s then Some (put PsIdle jobs s)
      else Some (put (PsLazy j) jobs s)
    | PsLazy j =>
      if alt then None else
      match pl_listm s with
      | Some _ => None
      | None =>
        let s1 := pl_set_acc (pl_set_def s (pl_def s ++ [j])) (j :: pl_acc s) in
        if pl_flock s then Some (put (PsLFail j) jobs (pl_set_listm s1 (Some i)))
        else Some (put PsIdle jobs (pl_set_fls (pl_set_flock s1 true) (pl_fls s ++ [PfNew])))
      end
    | PsLFail j => if alt then None else Some (put PsIdle jobs (pl_set_listm s None))
    end
  end.

Definition pl_step_l (p : pl_par) (s : pl_st) (i : nat) (alt : bool) : option pl_st :=
  match nth_error (pl_lfs s) i with
  | None => None
  | Some c =>
    let put := fun (pc : pl_lpc) (ops : list pl_lop) (s' : pl_st) =>
                 pl_set_lfs s' (pl_upd (pl_lfs s') i (PlLcl pc ops)) in
    let ops := pl_lops c in
    if alt then None else
    match pl_lpc_of c with
    | PlIdle =>
      match ops with
      | [] => None
      | PlStop :: r =>
        if pl_runm s then
          match pl_cxs s with
          | PxNil => Some (pl_set_panic s PkNilCancel)
          | _ => Some (put PlStopWaitS r (pl_set_cxs s PxCancelled))
          end
        else Some (put PlStopHeld r (pl_set_runm s true))
      | PlRun :: r =>
        if pl_runm s then Some (put PlIdle r s) else Some (put PlRunInit r (pl_set_runm s true))
      end
    | PlStopHeld =>
      if pl_runm s then Some (put PlIdle ops (pl_set_runm s false)) else Some (pl_set_panic s PkUnlock)
    | PlStopWaitS => if pl_sendwg s =? 0 then Some (put PlStopWaitR ops s) else None
    | PlStopWaitR => if pl_runwg s =? 0 then Some (put PlStopClose ops s) else None
    | PlStopClose =>
      match pl_chs s with
      | PhNil => Some (pl_set_panic s PkCloseNil)
      | PhClosed => Some (pl_set_panic s PkCloseClosed)
      | PhOpen =>
        if pl_runm s
        then Some (put PlIdle ops (pl_set_runm (pl_set_def (pl_set_chs s PhClosed) []) false))
        else Some (pl_set_panic s PkUnlock)
      end
    | PlRunInit =>
      if pl_runwg s =? 0
      then Some (put PlRunSpawn ops
                   (if pl_fix p
                    then pl_set_acc (pl_set_chan (pl_set_chs (pl_set_cxs s PxLive) PhOpen) []) []
                    else pl_set_cxs s PxLive))
      else Some (pl_set_panic s PkOutOfModel)
    | PlRunSpawn =>
      Some (put PlIdle ops
              (pl_set_wks (if pl_fix p then s else pl_set_acc (pl_set_chan (pl_set_chs s PhOpen) []) [])
                          (repeat PwNew (pl_nw p))))
    end
  end.

Definition pl_step_f (p : pl_par) (s : pl_st) (n : nat) (alt : bool) : option pl_st :=
  match nth_error (pl_fls s) n with
  | None => None
  | Some pc =>
    let put := fun (pc' : pl_fpc) (s' : pl_st) => pl_set_fls s' (pl_upd (pl_fls s') n pc') in
    let release := fun (s' : pl_st) => if pl_fix p then pl_set_flock s' false else s' in
    match pc with
    | PfNew => if alt then None else Some (put PfLoop s)
    | PfLoop =>
      if alt then None else
      match pl_listm s with
      | Some _ => None
      | None =>
        match pl_pop_back (pl_def s) with
        | None => Some (put PfNil (release s))
        | Some (d, j) => Some (put (PfHas j) (pl_set_def s d))
        end
      end
    | PfHas j =>
      if alt then (if pl_cancelled s && pl_can_enq p s then Some (put PfExit (release s)) else None)
      else if pl_can_enq p s then Some (put PfLoop (pl_enq s j))
      else if pl_cancelled s then Some (put PfExit (release s))
      else None
    | PfNil => if alt then None else Some (put PfExit s)
    | PfExit => if alt then None else Some (put PfGone (if pl_fix p then s else pl_set_flock s false))
    | PfGone => None
    end
  end.

Definition pl_step_w (p : pl_par) (s : pl_st) (k : nat) (alt : bool) : option pl_st :=
  match nth_error (pl_wks s) k with
  | None => None
  | Some pc =>
    let put := fun (pc' : pl_wpc) (s' : pl_st) => pl_set_wks s' (pl_upd (pl_wks s') k pc') in
    match pc with
    | PwGone => None
    | PwNew => if alt then None else Some (put PwStart s)
    | PwStart => if alt then None else Some (put PwIdle s)
    | PwIdle =>
      if alt then (if pl_cancelled s && pl_can_deq s then Some (put PwGone s) else None)
      else if pl_can_deq s then
        match pl_chan s with
        | j :: r => Some (put (PwBegin j) (pl_set_chan s r))
        | [] => Some (pl_set_panic s PkRecvClosed)
        end
      else if pl_cancelled s then Some (put PwGone s)
      else None
    | PwBegin j => if alt then None else Some (put (PwEnd j) (pl_set_log s (j :: pl_log s)))
    | PwEnd j => if alt then None else Some (put PwIdle s)
    end
  end.

Definition pl_next (p : pl_par) (s : pl_st) (l : pl_lab) : option pl_st :=
  match pl_panic s with
  | Some _ => None
  | None =>
    match fst l with
    | PtL i => pl_step_l p s i (snd l)
    | PtS i => pl_step_s p s i (snd l)
    | PtF n => pl_step_f p s n (snd l)
    | PtW k => pl_step_w p s k (snd l)
    end
  end.

Definition pl_enabled (p : pl_par) (s : pl_st) (l : pl_lab) : bool :=
  match pl_next p s l with Some _ => true | None => false end.
Definition pl_step (p : pl_par) (s : pl_st) (l : pl_lab) : pl_st :=
  match pl_next p s l with Some s' => s' | None => s end.

Definition pl_sys (p : pl_par) : sys := mkSys pl_st pl_lab (pl_enabled p) (pl_step p).

(* running = true: the state right after New + the first Run returned *)
Definition pl_init (p : pl_par) (running : bool) (lprogs : list (list pl_lop)) (sprogs : list (list pl_job)) : pl_st :=
  PlSt [] (if running then PhOpen else PhNil) [] false None (if running then PxLive else PxNil) running [] []
       (map (PlSnd PsIdle) sprogs) (map (PlLcl PlIdle) lprogs) []
       (repeat (if running then PwNew else PwGone) (pl_nw p)) None.

(* number of executions of job j *)
Definition pl_count (s : pl_st) (j : pl_job) : nat := count_occ Nat.eq_dec (pl_log s) j.

Definition pl_threads (s : pl_st) : list pl_tid :=
  map PtL (seq 0 (length (pl_lfs s))) ++ map PtS (seq 0 (length (pl_sns s))) ++
  map PtF (seq 0 (length (pl_fls s))) ++ map PtW (seq 0 (length (pl_wks s))).

(* no thread has an enabled step (idle workers with an empty channel are not enabled) *)
Definition pl_quiet (p : pl_par) (s : pl_st) : bool :=
  forallb (fun t => negb (pl_enabled p s (t, false)) && negb (pl_enabled p s (t, true))) (pl_threads s).

Definition pl_flushers_gone (s : pl_st) : bool :=
  forallb (fun f => match f with PfGone => true | _ => false end) (pl_fls s).
(* the D14 symptom: a deferred job with no flusher left to move it *)
Definition pl_stranded (s : pl_st) : bool := negb (pl_is_nil (pl_def s)) && pl_flushers_gone s.

(* every client has finished its program *)
Definition pl_all_done (s : pl_st) : bool :=
  forallb (fun c => match pl_spc_of c, pl_sjobs c with PsIdle, [] => true | _, _ => false end) (pl_sns s) &&
  forallb (fun c => match pl_lpc_of c, pl_lops c with PlIdle, [] => true | _, _ => false end) (pl_lfs s).

(* ------------------------------------------------------------------ *)
(* what a schedule-replay controller observes                          *)

Inductive pl_point :=
  | PpSendEnter | PpSendBeforeSelect | PpLazyEnter | PpLazyFail
  | PpStopEnter | PpStopNotRunning | PpStopAfterCancel | PpStopAfterSendWait | PpStopBeforeClose
  | PpRunEnter | PpRunAfterTryLock | PpRunAfterCtx
  | PpFlLoop | PpFlAfterPop | PpFlAfterPopNil | PpFlBeforeExit
  | PpWkStart | PpWkBegin | PpWkEnd.

Inductive pl_obs := PoAt (pt : pl_point) | PoBlocked | PoDone | PoNone.

Definition pl_obs_of (s : pl_st) (t : pl_tid) : pl_obs :=
  match t with
  | PtS i =>
    match nth_error (pl_sns s) i with
    | None => PoNone
    | Some c =>
      match pl_spc_of c with
      | PsIdle => match pl_sjobs c with [] => PoDone | _ => PoAt PpSendEnter end
      | PsSel _ => PoAt PpSendBeforeSelect
      | PsLazy _ => PoAt PpLazyEnter
      | PsLFail _ => PoAt PpLazyFail
      end
    end
  | PtL i =>
    match nth_error (pl_lfs s) i with
    | None => PoNone
    | Some c =>
      match pl_lpc_of c with
      | PlIdle => match pl_lops c with [] => PoDone | PlStop :: _ => PoAt PpStopEnter | PlRun :: _ => PoAt PpRunEnter end
      | PlStopHeld => PoAt PpStopNotRunning
      | PlStopWaitS => PoAt PpStopAfterCancel
      | PlStopWaitR => PoAt PpStopAfterSendWait
      | PlStopClose => PoAt PpStopBeforeClose
      | PlRunInit => PoAt PpRunAfterTryLock
      | PlRunSpawn => PoAt PpRunAfterCtx
      end
    end
  | PtF n =>
    match nth_error (pl_fls s) n with
    | None => PoNone
    | Some PfNew => PoBlocked
    | Some PfLoop => PoAt PpFlLoop
    | Some (PfHas _) => PoAt PpFlAfterPop
    | Some PfNil => PoAt PpFlAfterPopNil
    | Some PfExit => PoAt PpFlBeforeExit
    | Some PfGone => PoDone
    end
  | PtW k =>
    match nth_error (pl_wks s) k with
    | None => PoNone
    | Some PwGone => PoDone
    | Some PwNew => PoBlocked
    | Some PwStart => PoAt PpWkStart
    | Some PwIdle => PoBlocked
    | Some (PwBegin _) => PoAt PpWkBegin
    | Some (PwEnd _) => PoAt PpWkEnd
    end
  end.

(* not sitting at a pause point by itself: freshly spawned, or a worker inside its select *)
Definition pl_free_running (s : pl_st) (t : pl_tid) : bool :=
  match t with
  | PtF n => match nth_error (pl_fls s) n with Some PfNew => true | _ => false end
  | PtW k => match nth_error (pl_wks s) k with Some PwNew | Some PwIdle => true | _ => false end
  | _ => false
  end.

Definition pl_tid_eqb (a b : pl_tid) : bool :=
  match a, b with
  | PtL i, PtL j | PtS i, PtS j | PtF i, PtF j | PtW i, PtW j => Nat.eqb i j
  | _, _ => false
  end.
Definition pl_mem (t : pl_tid) (l : list pl_tid) : bool := existsb (pl_tid_eqb t) l.
Definition pl_remove (t : pl_tid) (l : list pl_tid) : list pl_tid := filter (fun x => negb (pl_tid_eqb t x)) l.

(* a released thread runs until its next pause point: free-running stretches that are
   enabled follow immediately (default branch of a select) *)
Fixpoint pl_settle (p : pl_par) (fuel : nat) (s : pl_st) (t : pl_tid) : pl_st :=
  match fuel with
  | 0 => s
  | S f => if pl_free_running s t && pl_enabled p s (t, false) then pl_settle p f (pl_step p s (t, false)) t else s
  end.

(* one controller step: release thread t (flag = which select branch the run takes) *)
Definition pl_cstep (p : pl_par) (s : pl_st) (l : pl_lab) : pl_st := pl_settle p 3 (pl_step p s l) (fst l).

(* Replay semantics (as RW.trace): choosing an enabled thread performs its controller step
   and yields where it stops next; choosing a thread that is not enabled is a probe: the
   real thread is released, must block, and stays in flight. *)
Fixpoint pl_trace (p : pl_par) (sched : list pl_lab) (s : pl_st) (probed : list pl_tid)
  : list (pl_tid * pl_obs) * pl_st :=
  match sched with
  | [] => ([], s)
  | l :: r =>
    if pl_enabled p s l then
      let s' := pl_cstep p s l in
      (* a thread whose step panics is gone *)
      let o := match pl_panic s' with Some _ => PoDone | None => pl_obs_of s' (fst l) end in
      let (evs, s'') := pl_trace p r s' (pl_remove (fst l) probed) in
      ((fst l, o) :: evs, s'')
    else
      let o := match pl_obs_of s (fst l) with PoDone => PoDone | PoNone => PoNone | _ => PoBlocked end in
      let (evs, s'') := pl_trace p r s (fst l :: probed) in
      ((fst l, o) :: evs, s'')
  end.

Definition pl_in_flight (s : pl_st) (probed : list pl_tid) (t : pl_tid) : bool :=
  pl_mem t probed || pl_free_running s t.

(* threads that move by themselves in the real code: in flight and enabled *)
Definition pl_eager (p : pl_par) (s : pl_st) (probed : list pl_tid) : list pl_tid :=
  filter (fun t => pl_in_flight s probed t && pl_enabled p s (t, false)) (pl_threads s).

Definition pl_at_point (s : pl_st) (t : pl_tid) : bool :=
  match pl_obs_of s t with PoAt _ => true | _ => false end.

(* Enumeration of complete controller schedules (depth-first; [fuel] bounds the length).
   eager_only = true keeps only the schedules a pause-point controller can replay: a thread
   that is in flight and enabled goes next.  [probes] = number of probes that may still be
   inserted (a probe releases a thread that sits at a pause point and is not enabled). *)
Fixpoint pl_enum (p : pl_par) (eager_only : bool) (fuel probes : nat) (s : pl_st) (probed : list pl_tid)
  : list (list pl_lab) :=
  match fuel with
  | 0 => [[]]
  | S f =>
    let ths := pl_threads s in
    let labs := flat_map (fun t => [(t, false); (t, true)]) ths in
    let en := filter (pl_enabled p s) labs in
    let eg := pl_eager p s probed in
    let cands := if eager_only
                 then match eg with [] => en | _ => filter (fun l => pl_mem (fst l) eg) en end
                 else en in
    let moves := flat_map (fun l => map (cons l) (pl_enum p eager_only f probes (pl_cstep p s l) (pl_remove (fst l) probed))) cands in
    let prb :=
      match probes, eg with
      | S k, [] =>
        flat_map (fun t =>
          if negb (pl_enabled p s (t, false)) && pl_at_point s t && negb (pl_mem t probed)
          then map (cons (t, false)) (pl_enum p eager_only f k s (t :: probed)) else []) ths
      | _, _ => []
      end in
    match cands with
    | [] => [[]]
    | _ => moves ++ prb
    end
  end.

(* ------------------------------------------------------------------ *)
(* entry points for the extracted driver *)
Definition pl_mkpar (fix_ : bool) (nw : nat) : pl_par := PlPar fix_ nw.
Definition pl_initial_obs (s : pl_st) : list (pl_tid * pl_obs) := map (fun t => (t, pl_obs_of s t)) (pl_threads s).
Definition pl_outcome (s : pl_st)
  : list pl_job * (list pl_job * (list pl_job * (list pl_job * (bool * option pl_pk)))) :=
  (rev (pl_log s), (pl_acc s, (pl_chan s, (pl_def s, (pl_flock s, pl_panic s))))).
Definition pl_is_live (s : pl_st) : bool := match pl_cxs s with PxLive => true | _ => false end.
