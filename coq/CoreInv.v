(* The invariant of the Core model and its preservation by every primitive
   transition (sequential histories; Reopen is treated in Durable). *)
From Coq Require Import List NArith Bool Lia Sorted.
From FsDb Require Import VList VListProofs Core CoreLemmas.
Import ListNotations.
Open Scope N_scope.

Definition owned (h : N) (v : ver) : bool := N.eqb (v_tx v) h.
Definition is_main (v : ver) : bool := N.eqb (v_tx v) 0.

Definition vsorted := sorted ver v_seq.

Record Inv (m : mstate) : Prop := mkInv {
  inv_sorted : forall k, vsorted (lget (m_all m) k);
  inv_range : forall k v, In v (lget (m_all m) k) ->
      0 < v_seq v /\ v_seq v <= m_seq m /\ v_key v = k /\ v_cid v < m_nextcid m;
  inv_stores : forall h k, sget (m_tx m) h k = filter (owned h) (lget (m_all m) k);
  inv_reg_sorted : StronglySorted (fun x y => x_seq x < x_seq y /\ x_id x < x_id y) (m_reg m);
  inv_reg_range : forall x, In x (m_reg m) ->
      0 < x_seq x /\ x_seq x <= m_seq m /\ 0 < x_id x /\ x_id x < m_nexttx m;
  inv_begin : forall x k v, In x (m_reg m) -> In v (lget (m_all m) k) ->
      v_seq v <> x_seq x /\ (v_tx v = x_id x -> x_seq x < v_seq v);
  inv_owner : forall k v, In v (lget (m_all m) k) ->
      v_tx v = 0 \/ exists x, In x (m_reg m) /\ x_id x = v_tx v;
  inv_cid_inj : forall k1 k2 v1 v2, In v1 (lget (m_all m) k1) -> In v2 (lget (m_all m) k2) ->
      v_cid v1 = v_cid v2 -> v1 = v2;
  inv_queue : forall job d, In job (m_q m) -> In d job ->
      v_cid d < m_nextcid m /\ forall k v, In v (lget (m_all m) k) -> v_cid v <> v_cid d;
  inv_cont : forall c x, aget (m_cont m) c = Some x -> c < m_nextcid m;
  inv_nexttx : 0 < m_nexttx m;
  inv_keys : NoDup (map fst (m_all m))
}.

Lemma Inv_init : Inv m_init.
Proof.
  constructor; simpl; try (intros; contradiction); try (intros; discriminate).
  - intros k. constructor.
  - intros h k. unfold sget. simpl. destruct (N.eqb h 0); reflexivity.
  - constructor.
  - lia.
  - constructor.
Qed.

(* a content id that occurs neither in the all-store nor in a queued job *)
Definition cid_free (m : mstate) (cid : N) : Prop :=
  (forall k v, In v (lget (m_all m) k) -> v_cid v <> cid) /\
  (forall job d, In job (m_q m) -> In d job -> v_cid d <> cid).

Definition registered (m : mstate) (h : N) : Prop :=
  h = 0 \/ exists x, In x (m_reg m) /\ x_id x = h.

Lemma NoDup_snoc {A} (l : list A) x : NoDup l -> ~ In x l -> NoDup (l ++ [x]).
Proof.
  induction l as [|a l IH]; simpl; intros Hl Hx; [repeat constructor; intros []|].
  inversion Hl as [|? ? Hn Hl']; subst. constructor.
  - intros Hin. apply in_app_or in Hin. destruct Hin as [Hin|[<-|[]]]; [exact (Hn Hin) | apply Hx; left; reflexivity].
  - apply IH; [exact Hl' | intros Hin; apply Hx; right; exact Hin].
Qed.

(* ---------- push_version ---------- *)
Definition new_ver (m : mstate) (h k cid : N) : ver := mkver (N.succ (m_seq m)) cid h k.

Lemma push_version_all m h k cid k' :
  lget (m_all (push_version m h k cid)) k' =
  if N.eqb k' k then lget (m_all m) k ++ [new_ver m h k cid] else lget (m_all m) k'.
Proof. unfold push_version. cbn [m_all set_all set_tx set_kvf set_seq]. rewrite lget_aset. reflexivity. Qed.

Lemma push_version_tx m h k cid h' k' :
  sget (m_tx (push_version m h k cid)) h' k' =
  if N.eqb h' h && N.eqb k' k then sget (m_tx m) h k ++ [new_ver m h k cid] else sget (m_tx m) h' k'.
Proof. unfold push_version. cbn [m_tx m_all set_all set_tx set_kvf set_seq]. rewrite sget_sset. reflexivity. Qed.

Lemma push_version_keys m h k cid :
  map fst (m_all (push_version m h k cid)) =
  if existsb (N.eqb k) (map fst (m_all m)) then map fst (m_all m) else map fst (m_all m) ++ [k].
Proof. unfold push_version. cbn [m_all set_all set_tx set_kvf set_seq]. apply keys_aset. Qed.

Lemma push_version_fields m h k cid :
  let m' := push_version m h k cid in
  m_seq m' = N.succ (m_seq m) /\ m_reg m' = m_reg m /\ m_cont m' = m_cont m /\
  m_q m' = m_q m /\ m_nexttx m' = m_nexttx m /\ m_nextcid m' = m_nextcid m.
Proof. cbn. repeat split. Qed.

Lemma In_push_all m h k cid k' v :
  In v (lget (m_all (push_version m h k cid)) k') ->
  In v (lget (m_all m) k') \/ (k' = k /\ v = new_ver m h k cid).
Proof.
  rewrite push_version_all. destruct (N.eqb_spec k' k) as [->|Hne]; [|auto].
  intros H. apply in_app_or in H. destruct H as [H|[<-|[]]]; auto.
Qed.

Lemma push_version_inv m h k cid :
  Inv m -> registered m h -> cid < m_nextcid m -> cid_free m cid ->
  Inv (push_version m h k cid).
Proof.
  intros I Hreg Hcid [Hfree Hfreeq].
  assert (F := push_version_fields m h k cid). cbn zeta in F.
  destruct F as (Fseq & Freg & Fcont & Fq & Fnt & Fnc).
  constructor.
  - (* sorted *)
    intros k'. rewrite push_version_all. destruct (N.eqb_spec k' k) as [->|]; [|apply (inv_sorted m I)].
    apply sorted_snoc; [apply (inv_sorted m I)|].
    intros a Ha. destruct (inv_range m I _ _ Ha) as (_ & Hle & _). cbn. lia.
  - (* range *)
    intros k' v Hv. rewrite Fseq, Fnc. apply In_push_all in Hv.
    destruct Hv as [Hv|[-> ->]].
    + destruct (inv_range m I _ _ Hv) as (H1 & H2 & H3 & H4). repeat split; try assumption; lia.
    + cbn. repeat split; try lia.
  - (* stores *)
    intros h' k'. rewrite push_version_tx, push_version_all.
    destruct (N.eqb_spec k' k) as [->|Hk]; rewrite ?andb_false_r, ?andb_true_r.
    + rewrite filter_app. cbn [filter].
      assert (E : owned h' (new_ver m h k cid) = N.eqb h' h).
      { unfold owned, new_ver. cbn. apply N.eqb_sym. }
      rewrite E.
      destruct (N.eqb_spec h' h) as [Heq|Hh].
      * rewrite Heq. rewrite (inv_stores m I). reflexivity.
      * rewrite app_nil_r. apply (inv_stores m I).
    + apply (inv_stores m I).
  - rewrite Freg. apply (inv_reg_sorted m I).
  - intros x Hx. rewrite Freg in Hx. rewrite Fseq, Fnt.
    destruct (inv_reg_range m I x Hx) as (H1 & H2 & H3 & H4). repeat split; try assumption; lia.
  - (* begin numbers *)
    intros x k' v Hx Hv. rewrite Freg in Hx. apply In_push_all in Hv.
    destruct Hv as [Hv|[-> ->]]; [eapply (inv_begin m I); eassumption|].
    destruct (inv_reg_range m I x Hx) as (_ & H2 & _). cbn. split; intros; lia.
  - (* owner *)
    intros k' v Hv. rewrite Freg. apply In_push_all in Hv.
    destruct Hv as [Hv|[-> ->]]; [apply (inv_owner m I _ _ Hv)|].
    cbn. exact Hreg.
  - (* cid injective *)
    intros k1 k2 v1 v2 H1 H2 E. apply In_push_all in H1. apply In_push_all in H2.
    destruct H1 as [H1|[-> ->]], H2 as [H2|[-> ->]].
    + eapply (inv_cid_inj m I); eassumption.
    + exfalso. apply (Hfree _ _ H1). rewrite E. reflexivity.
    + exfalso. apply (Hfree _ _ H2). rewrite <- E. reflexivity.
    + reflexivity.
  - (* queue *)
    intros job d Hj Hd. rewrite Fq in Hj. rewrite Fnc.
    destruct (inv_queue m I job d Hj Hd) as [Hlt Hne]. split; [exact Hlt|].
    intros k' v Hv. apply In_push_all in Hv. destruct Hv as [Hv|[-> ->]]; [eapply Hne; eassumption|].
    cbn. intros E. apply (Hfreeq _ _ Hj Hd). symmetry. exact E.
  - intros c x Hc. rewrite Fcont in Hc. rewrite Fnc. apply (inv_cont m I c x Hc).
  - rewrite Fnt. apply (inv_nexttx m I).
  - rewrite push_version_keys. destruct (existsb (N.eqb k) (map fst (m_all m))) eqn:E; [apply (inv_keys m I)|].
    apply NoDup_snoc; [apply (inv_keys m I)|].
    intros Hin. apply existsb_eqb_In in Hin. congruence.
Qed.

(* ---------- fresh content id (Set / Delete) ---------- *)
Lemma fresh_cid_free m : Inv m -> cid_free m (m_nextcid m).
Proof.
  intros I. split.
  - intros k v Hv E. destruct (inv_range m I _ _ Hv) as (_ & _ & _ & H). lia.
  - intros job d Hj Hd E. destruct (inv_queue m I _ _ Hj Hd) as [H _]. lia.
Qed.

Lemma Inv_set_cont_fresh m v :
  Inv m ->
  Inv (set_cont (set_nextcid m (N.succ (m_nextcid m))) (aset (m_cont m) (m_nextcid m) v)).
Proof.
  intros I. constructor; cbn; try apply I.
  - intros k x Hx. destruct (inv_range m I _ _ Hx) as (H1 & H2 & H3 & H4). repeat split; try assumption; lia.
  - intros job d Hj Hd. destruct (inv_queue m I _ _ Hj Hd) as [H1 H2]. split; [lia | exact H2].
  - intros c x. rewrite aget_aset. destruct (N.eqb_spec c (m_nextcid m)) as [->|]; [lia|].
    intros H. apply (inv_cont m I) in H. lia.
Qed.

Lemma Inv_bump_cid m :
  Inv m -> Inv (set_nextcid m (N.succ (m_nextcid m))).
Proof.
  intros I. constructor; cbn; try apply I.
  - intros k x Hx. destruct (inv_range m I _ _ Hx) as (H1 & H2 & H3 & H4). repeat split; try assumption; lia.
  - intros job d Hj Hd. destruct (inv_queue m I _ _ Hj Hd) as [H1 H2]. split; [lia | exact H2].
  - intros c x H. apply (inv_cont m I) in H. lia.
Qed.

(* ---------- begin ---------- *)
Lemma Forall_StronglySorted_snoc {A} (R : A -> A -> Prop) l x :
  StronglySorted R l -> (forall y, In y l -> R y x) -> StronglySorted R (l ++ [x]).
Proof.
  induction l as [|a l IH]; simpl; intros Hs Hx.
  - repeat constructor.
  - inversion Hs as [|? ? Hs' Hf]; subst. constructor.
    + apply IH; [exact Hs' | intros y Hy; apply Hx; right; exact Hy].
    + rewrite Forall_app. split; [exact Hf|]. repeat constructor. apply Hx. left; reflexivity.
Qed.

Definition begin_state (m : mstate) (l : level) : mstate :=
  let id := m_nexttx m in
  let s := N.succ (m_seq m) in
  let m1 := set_nexttx (set_seq m s) (N.succ id) in
  set_reg m1 (m_reg m1 ++ [mktx id l s]).

Lemma begin_inv m l : Inv m -> Inv (begin_state m l).
Proof.
  intros I. constructor; cbn; try apply I.
  - intros k v Hv. destruct (inv_range m I _ _ Hv) as (H1 & H2 & H3 & H4). repeat split; try assumption; lia.
  - apply Forall_StronglySorted_snoc; [apply (inv_reg_sorted m I)|].
    intros y Hy. destruct (inv_reg_range m I y Hy) as (H1 & H2 & H3 & H4). cbn. lia.
  - intros x Hx. apply in_app_or in Hx. destruct Hx as [Hx|[<-|[]]].
    + destruct (inv_reg_range m I x Hx) as (H1 & H2 & H3 & H4). repeat split; try assumption; lia.
    + cbn. assert (H0 := inv_nexttx m I). lia.
  - intros x k v Hx Hv. apply in_app_or in Hx. destruct Hx as [Hx|[<-|[]]].
    + eapply (inv_begin m I); eassumption.
    + destruct (inv_range m I _ _ Hv) as (H1 & H2 & H3 & H4). cbn. split; [lia|].
      intros E. exfalso. assert (H0 := inv_nexttx m I).
      destruct (inv_owner m I _ _ Hv) as [Hz|(y & Hy & Ey)]; [lia|].
      destruct (inv_reg_range m I y Hy) as (_ & _ & _ & Hlt). lia.
  - intros k v Hv. destruct (inv_owner m I _ _ Hv) as [H|(x & Hx & E)]; [left; exact H|].
    right. exists x. split; [apply in_or_app; left; exact Hx | exact E].
  - assert (H0 := inv_nexttx m I). lia.
Qed.

(* ---------- ending a transaction: unregister + unlink ---------- *)
Lemma StronglySorted_filter {A} (R : A -> A -> Prop) (p : A -> bool) l :
  StronglySorted R l -> StronglySorted R (filter p l).
Proof.
  induction 1 as [|a l Hs IH Hf]; simpl; [constructor|].
  destruct (p a); [|exact IH]. constructor; [exact IH|].
  rewrite Forall_forall in *. intros y Hy. apply filter_In in Hy. apply Hf. tauto.
Qed.

Lemma In_tx_versions m h d :
  Inv m -> (In d (tx_versions m h) <-> exists k, In d (lget (m_all m) k) /\ owned h d = true).
Proof.
  intros I. unfold tx_versions. rewrite in_flat_map. split.
  - intros (k & Hk & Hd). rewrite (inv_stores m I) in Hd. apply filter_In in Hd. exists k. exact Hd.
  - intros (k & Hd & Ho). exists k. split.
    + unfold tx_keys. apply filter_In. split.
      * apply lget_in_keys. intros E. rewrite E in Hd. exact Hd.
      * rewrite (inv_stores m I).
        assert (Hin : In d (filter (owned h) (lget (m_all m) k))) by (apply filter_In; auto).
        destruct (filter (owned h) (lget (m_all m) k)); [contradiction | reflexivity].
    + rewrite (inv_stores m I). apply filter_In. auto.
Qed.

Lemma unlink_all m m1 h k :
  Inv m -> m_all m1 = m_all m -> m_tx m1 = m_tx m ->
  lget (m_all (unlink_tx m1 h)) k = filter (fun v => negb (owned h v)) (lget (m_all m) k).
Proof.
  intros I Ea Et. unfold unlink_tx. cbn [m_all set_all set_tx].
  rewrite (lget_map_snd (fun _ l => remove_vers (tx_versions m1 h) l)) by reflexivity.
  rewrite Ea.
  assert (Etv : tx_versions m1 h = tx_versions m h).
  { unfold tx_versions, tx_keys. rewrite Ea, Et. reflexivity. }
  rewrite Etv. apply remove_vers_filter.
  intros v Hv. rewrite (In_tx_versions m h v I). split.
  - intros (k' & _ & Ho). rewrite Ho. reflexivity.
  - intros Ho. exists k. split; [exact Hv|]. destruct (owned h v); [reflexivity | discriminate].
Qed.

Lemma unlink_tx_store m1 h h' k :
  sget (m_tx (unlink_tx m1 h)) h' k = if N.eqb h' h then [] else sget (m_tx m1) h' k.
Proof. unfold unlink_tx. cbn [m_tx set_all set_tx]. apply sget_adel. Qed.

Lemma unlink_keys m1 h : map fst (m_all (unlink_tx m1 h)) = map fst (m_all m1).
Proof. unfold unlink_tx. cbn [m_all set_all set_tx]. rewrite map_map. reflexivity. Qed.

Lemma In_reg_del r h x : In x (reg_del r h) <-> In x r /\ x_id x <> h.
Proof.
  unfold reg_del. rewrite filter_In. split; intros [H1 H2]; split; try exact H1.
  - intros E. rewrite E, N.eqb_refl in H2. discriminate.
  - destruct (N.eqb_spec (x_id x) h); [contradiction | reflexivity].
Qed.

Lemma unlink_inv m m1 h :
  Inv m -> h <> 0 ->
  m_all m1 = m_all m -> m_tx m1 = m_tx m -> m_reg m1 = reg_del (m_reg m) h ->
  m_seq m <= m_seq m1 -> m_cont m1 = m_cont m -> m_q m1 = m_q m ->
  m_nexttx m1 = m_nexttx m -> m_nextcid m1 = m_nextcid m ->
  Inv (unlink_tx m1 h).
Proof.
  intros I Hh Ea Et Er Es Ec Eq Ent Enc.
  assert (A := fun k => unlink_all m m1 h k I Ea Et).
  assert (Hsub : forall k v, In v (lget (m_all (unlink_tx m1 h)) k) ->
                             In v (lget (m_all m) k) /\ v_tx v <> h).
  { intros k v Hv. rewrite A in Hv. apply filter_In in Hv. destruct Hv as [Hv Ho]. split; [exact Hv|].
    unfold owned in Ho. destruct (N.eqb_spec (v_tx v) h); [discriminate | assumption]. }
  constructor.
  - intros k. rewrite A. apply sorted_filter. apply (inv_sorted m I).
  - intros k v Hv. apply Hsub in Hv. destruct Hv as [Hv _].
    destruct (inv_range m I _ _ Hv) as (H1 & H2 & H3 & H4).
    unfold unlink_tx. cbn [m_seq m_nextcid set_all set_tx]. rewrite Enc. repeat split; try assumption; lia.
  - intros h' k. rewrite unlink_tx_store, A, Et, (inv_stores m I), filter_filter.
    destruct (N.eqb_spec h' h) as [->|Hne].
    + symmetry. apply filter_false. intros x _. destruct (owned h x); reflexivity.
    + apply filter_ext. intros x. unfold owned.
      destruct (N.eqb_spec (v_tx x) h'), (N.eqb_spec (v_tx x) h); try reflexivity; congruence.
  - unfold unlink_tx. cbn [m_reg set_all set_tx]. rewrite Er. apply StronglySorted_filter. apply (inv_reg_sorted m I).
  - intros x Hx. unfold unlink_tx in *. cbn [m_reg m_seq m_nexttx set_all set_tx] in *. rewrite Er in Hx.
    apply In_reg_del in Hx. destruct Hx as [Hx _].
    destruct (inv_reg_range m I x Hx) as (H1 & H2 & H3 & H4). rewrite Ent. repeat split; try assumption; lia.
  - intros x k v Hx Hv. apply Hsub in Hv. destruct Hv as [Hv _].
    unfold unlink_tx in Hx. cbn [m_reg set_all set_tx] in Hx. rewrite Er in Hx. apply In_reg_del in Hx.
    eapply (inv_begin m I); [apply Hx | exact Hv].
  - intros k v Hv. apply Hsub in Hv. destruct Hv as [Hv Hne].
    destruct (inv_owner m I _ _ Hv) as [H|(x & Hx & E)]; [left; exact H|].
    right. exists x. split; [|exact E].
    unfold unlink_tx. cbn [m_reg set_all set_tx]. rewrite Er. apply In_reg_del. split; [exact Hx | congruence].
  - intros k1 k2 v1 v2 H1 H2. apply Hsub in H1. apply Hsub in H2.
    apply (inv_cid_inj m I k1 k2); tauto.
  - intros job d Hj Hd. unfold unlink_tx in Hj |- *. cbn [m_q m_nextcid set_all set_tx] in Hj |- *.
    rewrite Eq in Hj. rewrite Enc. destruct (inv_queue m I job d Hj Hd) as [H1 H2]. split; [exact H1|].
    intros k v Hv. apply Hsub in Hv. apply (H2 k v). tauto.
  - intros c x. unfold unlink_tx. cbn [m_cont m_nextcid set_all set_tx]. rewrite Ec, Enc. apply (inv_cont m I).
  - unfold unlink_tx. cbn [m_nexttx set_all set_tx]. rewrite Ent. apply (inv_nexttx m I).
  - rewrite unlink_keys, Ea. apply (inv_keys m I).
Qed.

(* ---------- enqueue ---------- *)
Lemma enqueue_fields m job :
  let m' := enqueue m job in
  m_seq m' = m_seq m /\ m_reg m' = m_reg m /\ m_tx m' = m_tx m /\ m_all m' = m_all m /\
  m_cont m' = m_cont m /\ m_nexttx m' = m_nexttx m /\ m_nextcid m' = m_nextcid m.
Proof. unfold enqueue. destruct job; cbn; repeat split. Qed.

Lemma In_enqueue m job j : In j (m_q (enqueue m job)) -> In j (m_q m) \/ j = job.
Proof.
  unfold enqueue. destruct job; [auto|]. cbn. intros H. apply in_app_or in H.
  destruct H as [H|[<-|[]]]; auto.
Qed.

Lemma enqueue_inv m job :
  Inv m ->
  (forall d, In d job -> v_cid d < m_nextcid m /\ forall k v, In v (lget (m_all m) k) -> v_cid v <> v_cid d) ->
  Inv (enqueue m job).
Proof.
  intros I Hjob. destruct (enqueue_fields m job) as (E1 & E2 & E3 & E4 & E5 & E6 & E7).
  constructor; rewrite ?E1, ?E2, ?E3, ?E4, ?E5, ?E6, ?E7; try apply I.
  intros j d Hj Hd. apply In_enqueue in Hj. destruct Hj as [Hj| ->].
  - apply (inv_queue m I j d Hj Hd).
  - apply Hjob. exact Hd.
Qed.

(* ---------- second phase of commit: pushing the kept versions ---------- *)
Lemma push_committed_cid_free m f c :
  cid_free m c -> v_cid f <> c -> cid_free (push_committed m f) c.
Proof.
  intros [H1 H2] Hne. unfold push_committed. split.
  - intros k v Hv. apply In_push_all in Hv. destruct Hv as [Hv|[_ ->]]; [eapply H1; eassumption | exact Hne].
  - intros job d Hj Hd. eapply H2; eassumption.
Qed.

Lemma fold_push_committed_inv kept : forall m,
  Inv m -> NoDup (map v_cid kept) ->
  (forall f, In f kept -> v_cid f < m_nextcid m /\ cid_free m (v_cid f)) ->
  Inv (fold_left push_committed kept m).
Proof.
  induction kept as [|f kept IH]; intros m I Hnd Hk; [exact I|].
  cbn [fold_left]. inversion Hnd as [|? ? Hnotin Hnd']; subst.
  destruct (Hk f (or_introl eq_refl)) as [Hlt Hfree].
  apply IH.
  - unfold push_committed. apply push_version_inv; [exact I | left; reflexivity | exact Hlt | exact Hfree].
  - exact Hnd'.
  - intros g Hg. destruct (Hk g (or_intror Hg)) as [Hlt' Hfree']. split.
    + exact Hlt'.
    + apply push_committed_cid_free; [exact Hfree'|].
      intros E. apply Hnotin. rewrite E. apply in_map. exact Hg.
Qed.

(* ---------- cleaner ---------- *)
Lemma clean_ver_fields m v :
  let m' := clean_ver m v in
  m_seq m' = m_seq m /\ m_reg m' = m_reg m /\ m_tx m' = m_tx m /\ m_all m' = m_all m /\
  m_q m' = m_q m /\ m_nexttx m' = m_nexttx m /\ m_nextcid m' = m_nextcid m.
Proof. unfold clean_ver. destruct (aget (m_cont m) (v_cid v)); cbn; repeat split. Qed.

Lemma clean_ver_cont m v c :
  aget (m_cont (clean_ver m v)) c = if N.eqb c (v_cid v) then None else aget (m_cont m) c.
Proof.
  unfold clean_ver. destruct (aget (m_cont m) (v_cid v)) eqn:E; cbn [m_cont set_cont set_kvf].
  - apply aget_adel.
  - destruct (N.eqb_spec c (v_cid v)) as [->|]; [exact E | reflexivity].
Qed.

Lemma clean_ver_inv m v : Inv m -> Inv (clean_ver m v).
Proof.
  intros I. destruct (clean_ver_fields m v) as (E1 & E2 & E3 & E4 & E5 & E6 & E7).
  constructor; rewrite ?E1, ?E2, ?E3, ?E4, ?E5, ?E6, ?E7; try apply I.
  intros c x. rewrite clean_ver_cont. destruct (N.eqb c (v_cid v)); [discriminate | apply (inv_cont m I)].
Qed.

Lemma clean_job_fields job : forall m,
  let m' := clean_job m job in
  m_seq m' = m_seq m /\ m_reg m' = m_reg m /\ m_tx m' = m_tx m /\ m_all m' = m_all m /\
  m_q m' = m_q m /\ m_nexttx m' = m_nexttx m /\ m_nextcid m' = m_nextcid m.
Proof.
  induction job as [|v job IH]; intros m; [cbn; repeat split|].
  cbn [clean_job fold_left]. specialize (IH (clean_ver m v)). cbn zeta in IH. unfold clean_job in IH.
  destruct IH as (E1 & E2 & E3 & E4 & E5 & E6 & E7).
  destruct (clean_ver_fields m v) as (F1 & F2 & F3 & F4 & F5 & F6 & F7).
  cbn zeta. rewrite E1, E2, E3, E4, E5, E6, E7. repeat split; assumption.
Qed.

Lemma clean_job_cont job : forall m c,
  aget (m_cont (clean_job m job)) c =
  if existsb (fun d => N.eqb c (v_cid d)) job then None else aget (m_cont m) c.
Proof.
  induction job as [|v job IH]; intros m c; [reflexivity|].
  cbn [clean_job fold_left existsb]. fold (clean_job (clean_ver m v) job). rewrite IH, clean_ver_cont.
  destruct (N.eqb c (v_cid v)); cbn [orb]; [|reflexivity].
  destruct (existsb _ job); reflexivity.
Qed.

Lemma clean_job_inv job : forall m, Inv m -> Inv (clean_job m job).
Proof.
  induction job as [|v job IH]; intros m I; [exact I|].
  cbn [clean_job fold_left]. apply IH. apply clean_ver_inv. exact I.
Qed.

Lemma Inv_clear_queue m : Inv m -> Inv (set_q m []).
Proof. intros I. constructor; cbn; try apply I. intros job d []. Qed.

Lemma fold_clean_job_inv q : forall m, Inv m -> Inv (fold_left clean_job q m).
Proof.
  induction q as [|j q IH]; intros m I; [exact I|]. cbn. apply IH. apply clean_job_inv. exact I.
Qed.

Lemma drain_inv m : Inv m -> Inv (drain m).
Proof. intros I. unfold drain. apply fold_clean_job_inv. apply Inv_clear_queue. exact I. Qed.

Lemma fold_clean_job_fields q : forall m,
  let m' := fold_left clean_job q m in
  m_seq m' = m_seq m /\ m_reg m' = m_reg m /\ m_tx m' = m_tx m /\ m_all m' = m_all m /\
  m_q m' = m_q m /\ m_nexttx m' = m_nexttx m /\ m_nextcid m' = m_nextcid m.
Proof.
  induction q as [|j q IH]; intros m; [cbn; repeat split|].
  cbn [fold_left]. specialize (IH (clean_job m j)). cbn zeta in IH.
  destruct IH as (E1 & E2 & E3 & E4 & E5 & E6 & E7).
  destruct (clean_job_fields j m) as (F1 & F2 & F3 & F4 & F5 & F6 & F7).
  cbn zeta. rewrite E1, E2, E3, E4, E5, E6, E7. repeat split; assumption.
Qed.

Lemma fold_clean_job_cont q : forall m c,
  (forall j d, In j q -> In d j -> v_cid d <> c) ->
  aget (m_cont (fold_left clean_job q m)) c = aget (m_cont m) c.
Proof.
  induction q as [|j q IH]; intros m c H; [reflexivity|].
  cbn [fold_left]. rewrite IH by (intros j' d Hj Hd; apply (H j' d); [right; exact Hj | exact Hd]).
  rewrite clean_job_cont.
  destruct (existsb (fun d => N.eqb c (v_cid d)) j) eqn:E; [|reflexivity].
  apply existsb_exists in E. destruct E as (d & Hd & E). apply N.eqb_eq in E.
  exfalso. apply (H j d); [left; reflexivity | exact Hd | symmetry; exact E].
Qed.

(* ---------- garbage collection ---------- *)
Definition gc_horizon (m : mstate) : N :=
  match m_reg m with x :: _ => x_seq x | [] => N.succ (m_seq m) end.

Definition gc_deleted_of (l : list ver) (h0 : N) : list ver :=
  fst (collect_list v_seq (filter is_main l) h0).
Definition gc_keep (l : list ver) (h0 : N) (v : ver) : bool :=
  negb (existsb (ver_eqb v) (gc_deleted_of l h0)).

Lemma sorted_NoDup (l : list ver) : vsorted l -> NoDup l.
Proof.
  induction l as [|x l IH]; intros H; [constructor|].
  apply sorted_cons_inv in H. destruct H as [Hs Hf]. constructor; [|exact (IH Hs)].
  intros Hin. rewrite Forall_forall in Hf. specialize (Hf x Hin). lia.
Qed.

Lemma filter_notin_app (d k : list ver) :
  NoDup (d ++ k) -> filter (fun v => negb (existsb (ver_eqb v) d)) (d ++ k) = k.
Proof.
  intros Hnd. rewrite filter_app.
  rewrite (filter_false _ d).
  - simpl. apply filter_true. intros x Hx.
    destruct (existsb (ver_eqb x) d) eqn:E; [|reflexivity].
    apply existsb_ver_eqb_In in E. exfalso.
    revert Hnd E Hx. clear. induction d as [|a d IH]; simpl; intros Hnd E Hx; [contradiction|].
    inversion Hnd as [|? ? Hn Hnd']; subst. destruct E as [->|E].
    + apply Hn. apply in_or_app. right. exact Hx.
    + exact (IH Hnd' E Hx).
  - intros x Hx. assert (E : existsb (ver_eqb x) d = true) by (apply existsb_ver_eqb_In; exact Hx).
    rewrite E. reflexivity.
Qed.

Lemma gc_m0_fields m :
  let m0 := match m_reg m with x :: _ => m | [] => set_seq m (N.succ (m_seq m)) end in
  m_seq m <= m_seq m0 /\ m_reg m0 = m_reg m /\ m_tx m0 = m_tx m /\ m_all m0 = m_all m /\
  m_cont m0 = m_cont m /\ m_q m0 = m_q m /\ m_nexttx m0 = m_nexttx m /\ m_nextcid m0 = m_nextcid m /\
  m_kvf m0 = m_kvf m.
Proof.
  destruct (m_reg m) eqn:E; cbn [m_seq m_reg m_tx m_all m_cont m_q m_nexttx m_nextcid m_kvf set_seq];
    rewrite ?E; repeat split; try reflexivity; lia.
Qed.

Lemma gc_unfold m :
  gc m =
  let m0 := match m_reg m with x :: _ => m | [] => set_seq m (N.succ (m_seq m)) end in
  let horizon := gc_horizon m in
  let main := match aget (m_tx m0) 0 with Some s => s | None => [] end in
  let deleted := flat_map (fun k => fst (collect_list v_seq (sget (m_tx m0) 0 k) horizon))
                          (map fst (m_all m0)) in
  let main' := map (fun p => (fst p, snd (collect_list v_seq (snd p) horizon))) main in
  let m1 := set_tx m0 (aset (m_tx m0) 0 main') in
  let m2 := set_all m1 (map (fun p => (fst p, remove_vers deleted (snd p))) (m_all m1)) in
  clean_job m2 deleted.
Proof. unfold gc, gc_horizon. destruct (m_reg m); reflexivity. Qed.

Definition gc_deleted (m : mstate) : list ver :=
  flat_map (fun k => gc_deleted_of (lget (m_all m) k) (gc_horizon m)) (map fst (m_all m)).

Lemma In_gc_deleted m v :
  Inv m ->
  (In v (gc_deleted m) <-> In v (gc_deleted_of (lget (m_all m) (v_key v)) (gc_horizon m))).
Proof.
  intros I. unfold gc_deleted. rewrite in_flat_map. split.
  - intros (k & _ & Hv). assert (Hin : In v (lget (m_all m) k)).
    { unfold gc_deleted_of in Hv.
      destruct (collect_list v_seq (filter is_main (lget (m_all m) k)) (gc_horizon m)) as [d keep] eqn:E.
      apply collect_list_split in E. cbn in Hv.
      assert (H : In v (filter is_main (lget (m_all m) k))) by (rewrite E; apply in_or_app; left; exact Hv).
      apply filter_In in H. tauto. }
    destruct (inv_range m I _ _ Hin) as (_ & _ & -> & _). exact Hv.
  - intros Hv. exists (v_key v). split; [|exact Hv].
    apply lget_in_keys. intros E. unfold gc_deleted_of in Hv. rewrite E in Hv. cbn in Hv. exact Hv.
Qed.

Lemma gc_all m k :
  Inv m ->
  lget (m_all (gc m)) k = filter (gc_keep (lget (m_all m) k) (gc_horizon m)) (lget (m_all m) k).
Proof.
  intros I. rewrite gc_unfold. cbn zeta.
  destruct (gc_m0_fields m) as (_ & _ & Et & Ea & _). cbn zeta in Et, Ea.
  match goal with |- lget (m_all (clean_job ?m2 ?del)) k = _ =>
    destruct (clean_job_fields del m2) as (_ & _ & _ & -> & _) end.
  cbn [m_all set_all set_tx]. rewrite Ea, Et.
  rewrite (lget_map_snd (fun _ l => remove_vers _ l)) by reflexivity.
  apply remove_vers_filter. intros v Hv.
  assert (Edel : flat_map (fun k0 => fst (collect_list v_seq (sget (m_tx m) 0 k0) (gc_horizon m))) (map fst (m_all m))
                 = gc_deleted m).
  { unfold gc_deleted, gc_deleted_of. apply flat_map_ext. intros a. rewrite (inv_stores m I). reflexivity. }
  rewrite Edel, (In_gc_deleted m v I).
  destruct (inv_range m I _ _ Hv) as (_ & _ & -> & _).
  unfold gc_keep. rewrite <- existsb_ver_eqb_In.
  destruct (existsb (ver_eqb v) (gc_deleted_of (lget (m_all m) k) (gc_horizon m))); cbn; split; congruence.
Qed.

Lemma gc_tx m h k :
  Inv m ->
  sget (m_tx (gc m)) h k =
  if N.eqb h 0 then snd (collect_list v_seq (filter is_main (lget (m_all m) k)) (gc_horizon m))
  else sget (m_tx m) h k.
Proof.
  intros I. rewrite gc_unfold. cbn zeta.
  destruct (gc_m0_fields m) as (_ & _ & Et & Ea & _). cbn zeta in Et, Ea.
  match goal with |- sget (m_tx (clean_job ?m2 ?del)) h k = _ =>
    destruct (clean_job_fields del m2) as (_ & _ & -> & _) end.
  cbn [m_tx set_all set_tx]. rewrite Et.
  unfold sget at 1. rewrite aget_aset. destruct (N.eqb_spec h 0) as [->|Hne].
  - rewrite (lget_map_snd (fun _ l => snd (collect_list v_seq l (gc_horizon m)))) by reflexivity.
    change is_main with (owned 0). rewrite <- (inv_stores m I 0 k). unfold sget.
    destruct (aget (m_tx m) 0); reflexivity.
  - reflexivity.
Qed.

Lemma gc_fields m :
  m_seq m <= m_seq (gc m) /\ m_reg (gc m) = m_reg m /\ m_q (gc m) = m_q m /\
  m_nexttx (gc m) = m_nexttx m /\ m_nextcid (gc m) = m_nextcid m /\
  map fst (m_all (gc m)) = map fst (m_all m).
Proof.
  rewrite gc_unfold. cbn zeta.
  destruct (gc_m0_fields m) as (Es & Er & Et & Ea & Ec & Eq & Ent & Enc & _). cbn zeta in *.
  match goal with |- context [clean_job ?m2 ?del] =>
    destruct (clean_job_fields del m2) as (-> & -> & _ & -> & -> & -> & ->) end.
  cbn [m_seq m_reg m_q m_nexttx m_nextcid m_all set_all set_tx]. rewrite Ea, map_map. cbn [fst].
  repeat split; assumption.
Qed.

Lemma gc_cont m c :
  Inv m ->
  aget (m_cont (gc m)) c =
  if existsb (fun d => N.eqb c (v_cid d)) (gc_deleted m) then None else aget (m_cont m) c.
Proof.
  intros I. rewrite gc_unfold. cbn zeta.
  destruct (gc_m0_fields m) as (_ & _ & Et & Ea & Ec & _). cbn zeta in *.
  rewrite clean_job_cont. cbn [m_cont set_all set_tx]. rewrite Ec, Ea, Et.
  assert (Edel : flat_map (fun k0 => fst (collect_list v_seq (sget (m_tx m) 0 k0) (gc_horizon m))) (map fst (m_all m))
                 = gc_deleted m).
  { unfold gc_deleted, gc_deleted_of. apply flat_map_ext. intros a. rewrite (inv_stores m I). reflexivity. }
  rewrite Edel. reflexivity.
Qed.

Lemma gc_inv m : Inv m -> Inv (gc m).
Proof.
  intros I. destruct (gc_fields m) as (Es & Er & Eq & Ent & Enc & _).
  assert (A := fun k => gc_all m k I).
  assert (Hsub : forall k v, In v (lget (m_all (gc m)) k) -> In v (lget (m_all m) k)).
  { intros k v Hv. rewrite A in Hv. apply filter_In in Hv. tauto. }
  constructor.
  - intros k. rewrite A. apply sorted_filter. apply (inv_sorted m I).
  - intros k v Hv. apply Hsub in Hv. destruct (inv_range m I _ _ Hv) as (H1 & H2 & H3 & H4).
    rewrite Enc. repeat split; try assumption; lia.
  - intros h k. rewrite (gc_tx m h k I), A, filter_filter.
    destruct (N.eqb_spec h 0) as [->|Hne].
    + (* main: the kept suffix *)
      change (owned 0) with is_main.
      set (l := lget (m_all m) k).
      destruct (collect_list v_seq (filter is_main l) (gc_horizon m)) as [d keep] eqn:E.
      cbn [snd].
      assert (Hsplit := collect_list_split _ _ _ _ _ _ E).
      transitivity (filter (fun v => negb (existsb (ver_eqb v) d)) (filter is_main l)).
      * rewrite Hsplit. symmetry. apply filter_notin_app. rewrite <- Hsplit.
        apply sorted_NoDup. apply sorted_filter. apply (inv_sorted m I).
      * rewrite filter_filter. apply filter_ext. intros v. unfold gc_keep, gc_deleted_of. fold l. rewrite E.
        cbn [fst]. apply andb_comm.
    + rewrite (inv_stores m I). apply filter_ext_in. intros v Hv. unfold owned, gc_keep.
      destruct (N.eqb_spec (v_tx v) h) as [Ev|]; [|symmetry; apply andb_false_r]. rewrite andb_true_r.
      destruct (existsb (ver_eqb v) (gc_deleted_of (lget (m_all m) k) (gc_horizon m))) eqn:Ex; [|reflexivity].
      exfalso. apply existsb_ver_eqb_In in Ex. unfold gc_deleted_of in Ex.
      destruct (collect_list v_seq (filter is_main (lget (m_all m) k)) (gc_horizon m)) as [d keep] eqn:E.
      apply collect_list_split in E. cbn in Ex.
      assert (Hm : In v (filter is_main (lget (m_all m) k))) by (rewrite E; apply in_or_app; left; exact Ex).
      apply filter_In in Hm. destruct Hm as [_ Hm]. unfold is_main in Hm. apply N.eqb_eq in Hm. congruence.
  - rewrite Er. apply (inv_reg_sorted m I).
  - intros x Hx. rewrite Er in Hx. rewrite Ent.
    destruct (inv_reg_range m I x Hx) as (H1 & H2 & H3 & H4). repeat split; try assumption; lia.
  - intros x k v Hx Hv. rewrite Er in Hx. apply Hsub in Hv. eapply (inv_begin m I); eassumption.
  - intros k v Hv. rewrite Er. apply Hsub in Hv. apply (inv_owner m I _ _ Hv).
  - intros k1 k2 v1 v2 H1 H2. apply Hsub in H1. apply Hsub in H2. apply (inv_cid_inj m I k1 k2); assumption.
  - intros job d Hj Hd. rewrite Eq in Hj. rewrite Enc. destruct (inv_queue m I job d Hj Hd) as [H1 H2].
    split; [exact H1|]. intros k v Hv. apply Hsub in Hv. eapply H2; eassumption.
  - intros c x. rewrite (gc_cont m c I), Enc.
    destruct (existsb _ (gc_deleted m)); [discriminate | apply (inv_cont m I)].
  - rewrite Ent. apply (inv_nexttx m I).
  - destruct (gc_fields m) as (_ & _ & _ & _ & _ & ->). apply (inv_keys m I).
Qed.

(* ---------- commit / rollback ---------- *)
Lemma reg_find_In r h x : reg_find r h = Some x -> In x r /\ x_id x = h.
Proof.
  unfold reg_find. intros H. apply find_some in H. destruct H as [H1 H2].
  apply N.eqb_eq in H2. auto.
Qed.

Lemma reg_find_None r h : reg_find r h = None -> forall x, In x r -> x_id x <> h.
Proof.
  unfold reg_find. intros H x Hx E. apply (find_none _ _ H) in Hx. rewrite E, N.eqb_refl in Hx. discriminate.
Qed.

Definition commit_kept (m : mstate) (h : N) : list ver :=
  flat_map (fun k => match last_opt (sget (m_tx m) h k) with Some v => [v] | None => [] end) (tx_keys m h).
Definition commit_older (m : mstate) (h : N) : list ver :=
  flat_map (fun k => removelast (sget (m_tx m) h k)) (tx_keys m h).

Lemma In_commit_kept m h f :
  Inv m -> In f (commit_kept m h) ->
  In f (lget (m_all m) (v_key f)) /\ owned h f = true /\
  last_opt (filter (owned h) (lget (m_all m) (v_key f))) = Some f.
Proof.
  intros I. unfold commit_kept. rewrite in_flat_map. intros (k & _ & Hf).
  rewrite (inv_stores m I) in Hf.
  destruct (last_opt (filter (owned h) (lget (m_all m) k))) as [v|] eqn:E; [|contradiction].
  destruct Hf as [<-|[]]. assert (Hin := last_opt_In _ _ _ E). apply filter_In in Hin.
  destruct Hin as [Hin Ho]. destruct (inv_range m I _ _ Hin) as (_ & _ & Hk & _).
  rewrite Hk. auto.
Qed.

Lemma In_commit_older m h d :
  Inv m -> In d (commit_older m h) ->
  In d (lget (m_all m) (v_key d)) /\ owned h d = true /\
  exists f, last_opt (filter (owned h) (lget (m_all m) (v_key d))) = Some f /\ f <> d.
Proof.
  intros I. unfold commit_older. rewrite in_flat_map. intros (k & _ & Hd).
  rewrite (inv_stores m I) in Hd.
  set (l := filter (owned h) (lget (m_all m) k)) in *.
  destruct (last_opt l) as [f|] eqn:E.
  - assert (Hl := last_opt_some _ _ _ E).
    assert (Hin : In d l) by (rewrite Hl; apply in_or_app; left; exact Hd).
    unfold l in Hin. apply filter_In in Hin. destruct Hin as [Hin Ho].
    destruct (inv_range m I _ _ Hin) as (_ & _ & Hk & _). rewrite Hk. fold l.
    split; [exact Hin|]. split; [exact Ho|]. exists f. split; [exact E|].
    intros ->. assert (Hnd : NoDup l) by (apply sorted_NoDup, sorted_filter, (inv_sorted m I)).
    rewrite Hl in Hnd. apply NoDup_remove_2 in Hnd. rewrite app_nil_r in Hnd. exact (Hnd Hd).
  - apply last_opt_none in E. rewrite E in Hd. destruct Hd.
Qed.

Lemma commit_kept_keys_NoDup m h : Inv m -> NoDup (map v_key (commit_kept m h)).
Proof.
  intros I. unfold commit_kept, tx_keys.
  assert (Hnd := inv_keys m I).
  assert (Hkey : forall k v, last_opt (sget (m_tx m) h k) = Some v -> v_key v = k).
  { intros k v E. apply last_opt_In in E. rewrite (inv_stores m I) in E. apply filter_In in E.
    destruct E as [E _]. destruct (inv_range m I _ _ E) as (_ & _ & Hk & _). exact Hk. }
  induction (map fst (m_all m)) as [|k ks IH]; [constructor|].
  inversion Hnd as [|? ? Hn Hnd']; subst. cbn [filter].
  destruct (match sget (m_tx m) h k with [] => false | _ :: _ => true end); [|exact (IH Hnd')].
  cbn [flat_map].
  destruct (last_opt (sget (m_tx m) h k)) as [v|] eqn:E; [|exact (IH Hnd')].
  cbn [app map]. constructor; [|exact (IH Hnd')].
  rewrite (Hkey _ _ E). intros Hin. apply in_map_iff in Hin. destruct Hin as (f & Ef & Hf).
  apply in_flat_map in Hf. destruct Hf as (k' & Hk' & Hf).
  apply filter_In in Hk'. destruct Hk' as [Hk' _].
  destruct (last_opt (sget (m_tx m) h k')) as [w|] eqn:Ew; [|contradiction].
  destruct Hf as [<-|[]]. rewrite (Hkey _ _ Ew) in Ef. subst k'. exact (Hn Hk').
Qed.

Lemma commit_kept_cids_NoDup m h : Inv m -> NoDup (map v_cid (commit_kept m h)).
Proof.
  intros I. assert (Hk := commit_kept_keys_NoDup m h I).
  assert (Hin := fun f => In_commit_kept m h f I).
  induction (commit_kept m h) as [|f l IH]; [constructor|].
  inversion Hk as [|? ? Hn Hk']; subst. cbn [map]. constructor.
  - intros Hc. apply in_map_iff in Hc. destruct Hc as (g & Eg & Hg).
    destruct (Hin f (or_introl eq_refl)) as (Hf1 & _). destruct (Hin g (or_intror Hg)) as (Hg1 & _).
    assert (g = f) by (eapply (inv_cid_inj m I); eassumption). subst g.
    apply Hn. apply in_map. exact Hg.
  - apply IH; [exact Hk' | intros g Hg; apply Hin; right; exact Hg].
Qed.

Lemma In_fold_push_committed kept : forall m k v,
  In v (lget (m_all (fold_left push_committed kept m)) k) ->
  In v (lget (m_all m) k) \/ exists f, In f kept /\ v_cid v = v_cid f.
Proof.
  induction kept as [|f kept IH]; intros m k v Hv; [left; exact Hv|].
  cbn [fold_left] in Hv. apply IH in Hv. destruct Hv as [Hv|(g & Hg & E)].
  - unfold push_committed in Hv. apply In_push_all in Hv. destruct Hv as [Hv|[_ ->]]; [left; exact Hv|].
    right. exists f. split; [left; reflexivity | reflexivity].
  - right. exists g. split; [right; exact Hg | exact E].
Qed.

Lemma fold_push_committed_fields kept : forall m,
  let m' := fold_left push_committed kept m in
  m_reg m' = m_reg m /\ m_cont m' = m_cont m /\ m_q m' = m_q m /\
  m_nexttx m' = m_nexttx m /\ m_nextcid m' = m_nextcid m /\ m_seq m <= m_seq m'.
Proof.
  induction kept as [|f kept IH]; intros m; [cbn; repeat split; lia|].
  cbn [fold_left]. specialize (IH (push_committed m f)). cbn zeta in IH.
  destruct IH as (E1 & E2 & E3 & E4 & E5 & E6).
  destruct (push_version_fields m 0 (v_key f) (v_cid f)) as (F1 & F2 & F3 & F4 & F5 & F6).
  unfold push_committed in *. cbn zeta. rewrite E1, E2, E3, E4, E5. repeat split; try assumption. lia.
Qed.

Definition commit_m2 (m : mstate) (h : N) : mstate :=
  let m0 := set_reg m (reg_del (m_reg m) h) in
  unlink_tx (set_seq m0 (m_seq m0 + N.of_nat (length (commit_kept m0 h)))) h.

Lemma commit_unfold m x :
  commit m x =
  let h := x_id x in
  let m0 := set_reg m (reg_del (m_reg m) h) in
  let conflict :=
      is_snapshot (x_lvl x) &&
      existsb (fun k => match last_opt (sget (m_tx m0) 0 k) with
                        | Some v => N.ltb (x_seq x) (v_seq v)
                        | None => false end) (tx_keys m0 h) in
  if conflict then (enqueue (commit_m2 m h) (commit_older m0 h ++ commit_kept m0 h), OutErr ETxSerialization)
  else (enqueue (fold_left push_committed (commit_kept m0 h) (commit_m2 m h)) (commit_older m0 h), OutUnit).
Proof. reflexivity. Qed.

Lemma commit_m2_inv m h : Inv m -> h <> 0 -> Inv (commit_m2 m h).
Proof.
  intros I Hh. unfold commit_m2. apply (unlink_inv m); try reflexivity; [exact I | exact Hh |].
  cbn [m_seq set_seq set_reg]. lia.
Qed.

Lemma commit_m2_all m h k :
  Inv m -> lget (m_all (commit_m2 m h)) k = filter (fun v => negb (owned h v)) (lget (m_all m) k).
Proof. intros I. unfold commit_m2. apply unlink_all; [exact I | reflexivity | reflexivity]. Qed.

Lemma commit_m0_kept m h :
  commit_kept (set_reg m (reg_del (m_reg m) h)) h = commit_kept m h /\
  commit_older (set_reg m (reg_del (m_reg m) h)) h = commit_older m h.
Proof. split; reflexivity. Qed.

Lemma owned_excl_cid m h d k v :
  Inv m -> In d (lget (m_all m) (v_key d)) -> owned h d = true ->
  In v (lget (m_all (commit_m2 m h)) k) -> v_cid v <> v_cid d.
Proof.
  intros I Hd Ho Hv E. rewrite (commit_m2_all m h k I) in Hv. apply filter_In in Hv.
  destruct Hv as [Hv Hno].
  assert (v = d) by (eapply (inv_cid_inj m I); eassumption). subst v.
  rewrite Ho in Hno. discriminate.
Qed.

Lemma commit_inv m x :
  Inv m -> reg_find (m_reg m) (x_id x) = Some x -> Inv (fst (commit m x)).
Proof.
  intros I Hfind. apply reg_find_In in Hfind. destruct Hfind as [Hx _].
  destruct (inv_reg_range m I x Hx) as (_ & _ & Hpos & _).
  assert (Hh : x_id x <> 0) by lia.
  set (h := x_id x) in *.
  assert (I2 := commit_m2_inv m h I Hh).
  rewrite commit_unfold. cbn zeta. fold h.
  destruct (commit_m0_kept m h) as [-> ->].
  assert (Enc : m_nextcid (commit_m2 m h) = m_nextcid m) by reflexivity.
  assert (Eq : m_q (commit_m2 m h) = m_q m) by reflexivity.
  match goal with |- Inv (fst (if ?c then _ else _)) => destruct c end; cbn [fst].
  - (* conflict: everything is queued *)
    apply enqueue_inv; [exact I2|]. intros d Hd. rewrite Enc.
    assert (Hd' : In d (lget (m_all m) (v_key d)) /\ owned h d = true).
    { apply in_app_or in Hd. destruct Hd as [Hd|Hd].
      - destruct (In_commit_older m h d I Hd) as (H1 & H2 & _). auto.
      - destruct (In_commit_kept m h d I Hd) as (H1 & H2 & _). auto. }
    destruct Hd' as [Hd1 Hd2]. split.
    + destruct (inv_range m I _ _ Hd1) as (_ & _ & _ & H). exact H.
    + intros k v Hv. exact (owned_excl_cid m h d k v I Hd1 Hd2 Hv).
  - (* success *)
    assert (Ifold : Inv (fold_left push_committed (commit_kept m h) (commit_m2 m h))).
    { apply fold_push_committed_inv; [exact I2 | apply commit_kept_cids_NoDup; exact I |].
      intros f Hf. destruct (In_commit_kept m h f I Hf) as (H1 & H2 & _). rewrite Enc. split.
      - destruct (inv_range m I _ _ H1) as (_ & _ & _ & H). exact H.
      - split.
        + intros k v Hv. exact (owned_excl_cid m h f k v I H1 H2 Hv).
        + intros job d Hj Hd E. rewrite Eq in Hj.
          destruct (inv_queue m I job d Hj Hd) as [_ Hne]. apply (Hne _ _ H1). symmetry. exact E. }
    apply enqueue_inv; [exact Ifold|]. intros d Hd.
    destruct (fold_push_committed_fields (commit_kept m h) (commit_m2 m h)) as (_ & _ & _ & _ & -> & _).
    rewrite Enc. destruct (In_commit_older m h d I Hd) as (H1 & H2 & f & Hf & Hne).
    split.
    + destruct (inv_range m I _ _ H1) as (_ & _ & _ & H). exact H.
    + intros k v Hv. apply In_fold_push_committed in Hv. destruct Hv as [Hv|(g & Hg & E)].
      * exact (owned_excl_cid m h d k v I H1 H2 Hv).
      * rewrite E. intros Ec. destruct (In_commit_kept m h g I Hg) as (G1 & G2 & G3).
        assert (g = d) by (eapply (inv_cid_inj m I); eassumption). subst g.
        rewrite Hf in G3. injection G3 as ->. apply Hne. reflexivity.
Qed.

Lemma rollback_inv m h : Inv m -> Inv (rollback m h).
Proof.
  intros I. unfold rollback. destruct (reg_find (m_reg m) h) as [x|] eqn:Hfind; [|exact I].
  apply reg_find_In in Hfind. destruct Hfind as [Hx Ex].
  destruct (inv_reg_range m I x Hx) as (_ & _ & Hpos & _).
  assert (Hh : h <> 0) by lia.
  set (m0 := set_reg m (reg_del (m_reg m) h)).
  assert (I2 : Inv (unlink_tx m0 h)).
  { apply (unlink_inv m); try reflexivity; try assumption. }
  apply enqueue_inv; [exact I2|]. intros d Hd.
  change (tx_versions m0 h) with (tx_versions m h) in Hd.
  apply (In_tx_versions m h d I) in Hd. destruct Hd as (k & Hd & Ho).
  change (m_nextcid (unlink_tx m0 h)) with (m_nextcid m). split.
  - destruct (inv_range m I _ _ Hd) as (_ & _ & _ & H). exact H.
  - intros k' v Hv E. rewrite (unlink_all m m0 h k' I eq_refl eq_refl) in Hv. apply filter_In in Hv.
    destruct Hv as [Hv Hno].
    assert (v = d) by (eapply (inv_cid_inj m I); eassumption). subst v.
    rewrite Ho in Hno. discriminate.
Qed.

(* ---------- every operation except Reopen keeps the invariant ---------- *)
Definition op_ok (m : mstate) (o : op) : Prop :=
  match o with
  | OSet h k _ => k <> 0 -> registered m h
  | ODel h _ => registered m h
  | OReopen => False
  | _ => True
  end.

Theorem mstep_inv m o : Inv m -> op_ok m o -> Inv (fst (mstep m o)).
Proof.
  intros I Hok. destruct o as [l|h k v|h k|h k|h|h|h| | |]; cbn [mstep].
  - apply (begin_inv m l I).
  - destruct (N.eqb_spec k 0) as [->|Hk]; [exact I|]. cbn [fst].
    apply push_version_inv.
    + exact (Inv_set_cont_fresh m v I).
    + destruct (Hok Hk) as [->|(x & Hx & E)]; [left; reflexivity | right; exists x; auto].
    + cbn. lia.
    + destruct (fresh_cid_free m I) as [F1 F2]. split; assumption.
  - cbn [fst]. apply push_version_inv.
    + exact (Inv_bump_cid m I).
    + destruct Hok as [->|(x & Hx & E)]; [left; reflexivity | right; exists x; auto].
    + cbn. lia.
    + destruct (fresh_cid_free m I) as [F1 F2]. split; assumption.
  - destruct (tx_info m h); exact I.
  - destruct (tx_info m h); exact I.
  - destruct (reg_find (m_reg m) h) as [x|] eqn:E; [|exact I].
    assert (Ex := proj2 (reg_find_In _ _ _ E)). subst h. apply commit_inv; assumption.
  - apply rollback_inv. exact I.
  - apply gc_inv. exact I.
  - apply drain_inv. exact I.
  - destruct Hok.
Qed.
