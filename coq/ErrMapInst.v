(* ErrMapInst: the table-driven functions of ErrMap.v instantiated with the tables
   generated from the Go source (ErrMapGen.v), and the runners used by the
   correspondence run (extracted to OCaml, and evaluated with vm_compute). *)
From Coq Require Import List Bool.
From FsDb Require Import ErrMap ErrMapGen.
Import ListNotations.

Definition go_tables : tables := {|
  t_code := error_code_table;      t_code_default := error_code_default;
  t_pb := pb_detail_table;         t_pb_default := pb_detail_default;
  t_details := details_table;
  t_client := client_code_table;   t_client_default := client_code_default;
  t_conv := convert_table;         t_conv_default := convert_default;
  t_grpc := to_grpc_table;         t_grpc_default := to_grpc_default
|}.

(* adapter/errors.Error: the status code and the typed detail put on the wire *)
Definition server : errv -> wire := ErrMap.server go_tables.
(* adapter/errors.ClientError: the error value the caller of pkg/external receives *)
Definition client : wire -> errv := ErrMap.client go_tables.
Definition client_by_code : code -> errv := ErrMap.client_by_code go_tables.
(* the class the server announces for e *)
Definition primary : errv -> sentinel := ErrMap.primary go_tables.
(* iso_level.Convert / iso_level.ConvertToGrpc *)
Definition convert : plevel -> mlevel := ErrMap.convert go_tables.
Definition to_grpc : mlevel -> plevel := ErrMap.to_grpc go_tables.

(* ---- runners ---------------------------------------------------------------- *)
Record eres := {
  er_code : code;                 (* status code chosen by Error *)
  er_detail : option detail;      (* detail attached by Error *)
  er_in : list sentinel;          (* classes of the server-side error (what the inline client sees) *)
  er_full : list sentinel;        (* classes of ClientError(Error(e)) *)
  er_codeonly : list sentinel;    (* classes of ClientError when the details are dropped *)
  er_primary : sentinel
}.

Definition errmap_run_err (e : errv) : eres :=
  let w := server e in
  {| er_code := fst w; er_detail := snd w; er_in := classes e;
     er_full := classes (client w); er_codeonly := classes (client (drop_detail w));
     er_primary := primary e |}.

(* the client alone, on a status given by its numbers *)
Definition errmap_run_wire (c : nat) (d : option nat) : list sentinel :=
  classes (client (of_number code_numbers codes_Other c,
                   option_map (of_number detail_numbers ErrorCode_Other) d)).

Definition level_of_nat (n : nat) : mlevel := nth n declared_levels IsoLevelOther.
Definition nat_of_level (l : mlevel) : option nat := index_of mlevel_beq declared_levels l.
Definition plevel_of_nat (n : nat) : plevel := of_number plevel_numbers TxIsoLevel_Other n.
Definition nat_of_plevel (p : plevel) : option nat := to_number plevel_beq plevel_numbers p.

(* ConvertToGrpc n, then Convert of that — as numbers (None: not a declared constant) *)
Definition errmap_run_level (n : nat) : option nat * option nat :=
  let p := to_grpc (level_of_nat n) in (nat_of_plevel p, nat_of_level (convert p)).
(* Convert n (None = negative / undeclared number), then ConvertToGrpc of that *)
Definition errmap_run_plevel (n : option nat) : option nat * option nat :=
  let l := convert (match n with Some k => plevel_of_nat k | None => TxIsoLevel_Other end) in
  (nat_of_level l, nat_of_plevel (to_grpc l)).
