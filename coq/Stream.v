(* Stream: the receiving end of a gRPC upload (properties C10, C11; findings D4).

   Faithful executable model of
     internal/utils/grpc/streamreader/reader.go   (reader.Read: fill the buffer from Recv until it holds
                                                   len(p) bytes or the stream ends, then bytes.Buffer.Read)
   which is the io.Reader the server hands to usecase/store.Set for SetFile / the external Create.

   The stream is the list of chunks the client sent followed by its ending: a clean end (Recv answers
   io.EOF from then on) or an abort (cancelled context, broken transport: Recv answers that error from
   then on).  That Recv keeps giving the same answer after the end is gRPC's contract and is assumed
   (trusted base); the scripted stream of the correspondence run behaves that way.

   [orig = true] is the code before the repair of D4: every Recv error ended the loop like io.EOF, so an
   aborted upload looked like a complete one.

   The element type is a parameter (the extracted driver runs it on OCaml ints; the theorems that feed the
   Faults model instantiate it with N).  Executable definitions only; proofs are in StreamProofs.v. *)
From Coq Require Import List Arith Bool.
Import ListNotations.

Section Stream.
Context {A : Type}.

Record srst := mksr { sr_chunks : list (list A); sr_aborted : bool; sr_buf : list A }.
Inductive srres := SrData (d : list A) | SrEof | SrErr.

Definition sr_init (cs : list (list A)) (ab : bool) : srst := mksr cs ab [].

(* for len(p) > r.buf.Len() { resp, err := Recv(); if err != nil { ... break }; r.buf.Write(chunk) }
   third component: the loop left because Recv reported the end of the stream *)
Fixpoint sr_fill (n : nat) (cs : list (list A)) (buf : list A) : list (list A) * list A * bool :=
  if n <=? length buf then (cs, buf, false) else
  match cs with
  | [] => ([], buf, true)
  | c :: cs' => sr_fill n cs' (buf ++ c)
  end.

(* one Read(p) with len(p) = n *)
Definition sr_read (orig : bool) (st : srst) (n : nat) : srst * srres :=
  match sr_fill n (sr_chunks st) (sr_buf st) with
  | (cs', buf', ended) =>
    if ended && sr_aborted st && negb orig then (mksr cs' (sr_aborted st) buf', SrErr)   (* return 0, err *)
    else match buf' with                                                                 (* r.buf.Read(p) *)
         | [] => (mksr cs' (sr_aborted st) [], if n =? 0 then SrData [] else SrEof)
         | _ => (mksr cs' (sr_aborted st) (skipn n buf'), SrData (firstn n buf'))
         end
  end.

(* a sequence of Reads with the given buffer lengths *)
Fixpoint sr_reads (orig : bool) (st : srst) (sizes : list nat) : list srres :=
  match sizes with
  | [] => []
  | n :: tl => let (st', r) := sr_read orig st n in r :: sr_reads orig st' tl
  end.

Definition sr_run (orig : bool) (cs : list (list A)) (ab : bool) (sizes : list nat) : list srres :=
  sr_reads orig (sr_init cs ab) sizes.

(* the bytes a consumer has received when it stops at the first result that is not data *)
Fixpoint sr_delivered (l : list srres) : list A :=
  match l with SrData d :: tl => d ++ sr_delivered tl | _ => [] end.

(* what is still to be delivered *)
Definition sr_pend (st : srst) : list A := sr_buf st ++ concat (sr_chunks st).

End Stream.
Arguments srst : clear implicits.
Arguments srres : clear implicits.
