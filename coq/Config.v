(* Config: configuration parsing and validation (config/config.go).
   Executable definitions + the vocabulary the C20 statements are written in.

   Abstraction (DESIGN.md section 3): YAML decoding and strconv.Atoi / ParseUint /
   time.ParseDuration are abstracted to "well-formed value v | malformed"; strings are
   lists of character codes (N); integers and durations (nanoseconds) are Z, the
   directory limit (uint64) is N.  The constants come from ConfigGen.v, which is
   regenerated from the Go source on every run of the check. *)
From Coq Require Import List ZArith NArith Bool String Ascii.
From FsDb Require Import ConfigGen.
Import ListNotations.

Definition str (s : string) : list N := map N_of_ascii (list_ascii_of_string s).

(* ---- the seven settings ---- *)
Inductive setting :=
  SPort | SDbPath | SDirCount | SRootDirs | SGCPeriod | SNumWorkers | SSendDuration.

(* what the configuration file says about one setting *)
Inductive filev (A : Type) := FAbsent | FValue (v : A) | FBad.
Arguments FAbsent {A}. Arguments FValue {A} v. Arguments FBad {A}.

(* what the environment says about one numeric/duration setting (text abstracted) *)
Inductive envv (A : Type) := EUnset | EEmpty | EValue (v : A) | EBad.
Arguments EUnset {A}. Arguments EEmpty {A}. Arguments EValue {A} v. Arguments EBad {A}.
(* for the two string settings the environment is the raw text: None = unset,
   Some [] = set to the empty string; no text is malformed *)

Record fileconf := {
  f_port : filev Z; f_db : filev (list N); f_dc : filev N; f_rd : filev (list (list N));
  f_gc : filev Z; f_nw : filev Z; f_sd : filev Z }.

Inductive filearg :=
| NoFile                 (* ParseConfig("") *)
| MissingFile            (* a file is named but cannot be opened *)
| EmptyFile              (* the file has no document: Decode returns io.EOF, which is ignored *)
| File (f : fileconf).

Record envconf := {
  e_port : envv Z; e_db : option (list N); e_dc : envv N; e_rd : option (list N);
  e_gc : envv Z; e_nw : envv Z; e_sd : envv Z }.

(* i_procs is runtime.GOMAXPROCS(0), the default number of workers *)
Record cinput := { i_file : filearg; i_env : envconf; i_procs : Z }.

Record storage := { s_db_path : list N; s_max_dir_count : N; s_root_dirs : list (list N); s_gc_period : Z }.
Record wpool := { w_num_workers : Z; w_send_duration : Z }.
Record config := { c_port : Z; c_storage : storage; c_wpool : wpool }.

Inductive perr := EOpen | EDecode | EEnv (s : setting).
Inductive pres (A : Type) := POK (a : A) | PErr (e : perr).
Arguments POK {A} a. Arguments PErr {A} e.

(* ---- constants (from the generated file) ---- *)
Definition d_port : Z := Eval vm_compute in default_port.
Definition d_db_path : list N := Eval vm_compute in str default_db_path.
Definition d_dir_count : N := Eval vm_compute in Z.to_N default_dir_count.
Definition d_root_dirs : list (list N) := Eval vm_compute in [str default_root_dir].
Definition d_gc_period : Z := Eval vm_compute in default_gc_period.
Definition d_send_duration : Z := Eval vm_compute in default_send_duration.
Definition min_dc : N := Eval vm_compute in Z.to_N min_dir_count.

(* var defaultConfig *)
Definition default_config (procs : Z) : config :=
  {| c_port := d_port;
     c_storage := {| s_db_path := d_db_path; s_max_dir_count := d_dir_count;
                     s_root_dirs := d_root_dirs; s_gc_period := d_gc_period |};
     c_wpool := {| w_num_workers := procs; w_send_duration := d_send_duration |} |}.

(* ---- yaml.NewDecoder(f).Decode(&conf): present values overwrite, any type mismatch fails ---- *)
Definition fget {A} (f : filev A) (cur : A) : A :=
  match f with FValue v => v | _ => cur end.
Definition fbad {A} (f : filev A) : bool :=
  match f with FBad => true | _ => false end.

Definition file_bad (f : fileconf) : bool :=
  fbad (f_port f) || fbad (f_db f) || fbad (f_dc f) || fbad (f_rd f) ||
  fbad (f_gc f) || fbad (f_nw f) || fbad (f_sd f).

Definition overlay (f : fileconf) (c : config) : config :=
  {| c_port := fget (f_port f) (c_port c);
     c_storage :=
       {| s_db_path := fget (f_db f) (s_db_path (c_storage c));
          s_max_dir_count := fget (f_dc f) (s_max_dir_count (c_storage c));
          s_root_dirs := fget (f_rd f) (s_root_dirs (c_storage c));
          s_gc_period := fget (f_gc f) (s_gc_period (c_storage c)) |};
     c_wpool :=
       {| w_num_workers := fget (f_nw f) (w_num_workers (c_wpool c));
          w_send_duration := fget (f_sd f) (w_send_duration (c_wpool c)) |} |}.

Definition decode (f : fileconf) (c : config) : option config :=
  if file_bad f then None else Some (overlay f c).

(* ---- environment ---- *)
(* if env, ok := os.LookupEnv(X); ok && env != "" { field, err = parse(env); if err != nil { return } } *)
Definition enum {A} (e : envv A) (cur : A) : option A :=
  match e with
  | EUnset | EEmpty => Some cur
  | EValue v => Some v
  | EBad => None
  end.

(* if env, ok := os.LookupEnv(X); ok && env != "" { field = env } *)
Definition estr (e : option (list N)) (cur : list N) : list N :=
  match e with
  | Some (c :: r) => c :: r
  | _ => cur
  end.

(* strings.Split(s, ";") *)
Definition semicolon : N := 59.
Fixpoint split_on (sep : N) (s : list N) : list (list N) :=
  match s with
  | [] => [[]]
  | c :: r =>
    if N.eqb c sep then [] :: split_on sep r
    else match split_on sep r with
         | h :: t => (c :: h) :: t
         | [] => [[c]]
         end
  end.

Definition eroots (e : option (list N)) (cur : list (list N)) : list (list N) :=
  match e with
  | Some (c :: r) => split_on semicolon (c :: r)
  | _ => cur
  end.

(* func (s *Storage) ParseEnv *)
Definition storage_parse_env (e : envconf) (s : storage) : pres storage :=
  let db := estr (e_db e) (s_db_path s) in
  match enum (e_dc e) (s_max_dir_count s) with
  | None => PErr (EEnv SDirCount)
  | Some dc =>
    let rd := eroots (e_rd e) (s_root_dirs s) in
    match enum (e_gc e) (s_gc_period s) with
    | None => PErr (EEnv SGCPeriod)
    | Some gc => POK {| s_db_path := db; s_max_dir_count := dc; s_root_dirs := rd; s_gc_period := gc |}
    end
  end.

(* func (wp *WPool) ParseEnv *)
Definition wpool_parse_env (e : envconf) (w : wpool) : pres wpool :=
  match enum (e_nw e) (w_num_workers w) with
  | None => PErr (EEnv SNumWorkers)
  | Some nw =>
    match enum (e_sd e) (w_send_duration w) with
    | None => PErr (EEnv SSendDuration)
    | Some sd => POK {| w_num_workers := nw; w_send_duration := sd |}
    end
  end.

(* func (c *Config) ParseEnv *)
Definition config_parse_env (e : envconf) (c : config) : pres config :=
  match enum (e_port e) (c_port c) with
  | None => PErr (EEnv SPort)
  | Some p =>
    match storage_parse_env e (c_storage c) with
    | PErr x => PErr x
    | POK s =>
      match wpool_parse_env e (c_wpool c) with
      | PErr x => PErr x
      | POK w => POK {| c_port := p; c_storage := s; c_wpool := w |}
      end
    end
  end.

(* the first half of ParseConfig: conf := defaultConfig; open + decode when a file is named *)
Definition load_file (fa : filearg) (conf : config) : pres config :=
  match fa with
  | NoFile => POK conf
  | MissingFile => PErr EOpen
  | EmptyFile => POK conf
  | File f => match decode f conf with Some c => POK c | None => PErr EDecode end
  end.

(* func ParseConfig(confFile string) (Config, error) *)
Definition parse (i : cinput) : pres config :=
  match load_file (i_file i) (default_config (i_procs i)) with
  | PErr x => PErr x
  | POK c => config_parse_env (i_env i) c
  end.

(* ---- func (s *Storage) Valid() error ---- *)
Inductive verr := VErrEmptyDbPath | VErrEmptyRootDirs.
Inductive validres := VOK (s : storage) | VErr (e : verr).

Definition valid (s : storage) : validres :=
  match s_db_path s with
  | [] => VErr VErrEmptyDbPath
  | _ :: _ =>
    let s' := {| s_db_path := s_db_path s;
                 s_max_dir_count := if N.ltb (s_max_dir_count s) min_dc then min_dc else s_max_dir_count s;
                 s_root_dirs := s_root_dirs s;
                 s_gc_period := s_gc_period s |} in
    match s_root_dirs s' with
    | [] => VErr VErrEmptyRootDirs
    | _ :: _ => VOK s'
    end
  end.

(* ---- runners (extracted; also evaluated by vm_compute in the check) ---- *)
Inductive cfgres := CfgErr | CfgOk (c : config) (v : validres).

Definition run_parse (i : cinput) : cfgres :=
  match parse i with
  | PErr _ => CfgErr
  | POK c => CfgOk c (valid (c_storage c))
  end.

Definition run_valid (s : storage) : validres := valid s.

(* ======================================================================== *)
(* Vocabulary of the C20 statements (not used by the executable model above) *)

(* what the file says about each setting: nothing unless a file with a document is given *)
Definition file_of (i : cinput) : fileconf :=
  match i_file i with
  | File f => f
  | _ => {| f_port := FAbsent; f_db := FAbsent; f_dc := FAbsent; f_rd := FAbsent;
            f_gc := FAbsent; f_nw := FAbsent; f_sd := FAbsent |}
  end.

(* environment value if set, non-empty (and well-formed), else file value if present, else default *)
Definition eff_num {A} (env : envv A) (file : filev A) (default : A) : A :=
  match env with
  | EValue v => v
  | _ => match file with FValue v => v | _ => default end
  end.

Definition eff_str (env : option (list N)) (file : filev (list N)) (default : list N) : list N :=
  match env with
  | Some (c :: r) => c :: r
  | _ => match file with FValue v => v | _ => default end
  end.

Definition eff_roots (env : option (list N)) (file : filev (list (list N))) (default : list (list N))
  : list (list N) :=
  match env with
  | Some (c :: r) => split_on semicolon (c :: r)     (* ROOT_DIRS is a ';'-separated list *)
  | _ => match file with FValue v => v | _ => default end
  end.

Definition file_malformed (f : fileconf) : Prop :=
  f_port f = FBad \/ f_db f = FBad \/ f_dc f = FBad \/ f_rd f = FBad \/
  f_gc f = FBad \/ f_nw f = FBad \/ f_sd f = FBad.

(* the file stage of ParseConfig succeeds: no file, an empty one, or one without a malformed value *)
Definition file_ok (i : cinput) : Prop :=
  i_file i <> MissingFile /\ forall f, i_file i = File f -> ~ file_malformed f.

(* a set, non-empty, unparsable environment value of one setting *)
Definition env_bad_at (e : envconf) (s : setting) : Prop :=
  match s with
  | SPort => e_port e = EBad
  | SDirCount => e_dc e = EBad
  | SGCPeriod => e_gc e = EBad
  | SNumWorkers => e_nw e = EBad
  | SSendDuration => e_sd e = EBad
  | SDbPath | SRootDirs => False
  end.

Definition env_malformed (e : envconf) : Prop := exists s, env_bad_at e s.

(* the order in which ParseEnv looks at the environment *)
Definition env_order : list setting :=
  [SPort; SDbPath; SDirCount; SRootDirs; SGCPeriod; SNumWorkers; SSendDuration].

Definition env_name (s : setting) : string :=
  match s with
  | SPort => env_port | SDbPath => env_db_path | SDirCount => env_dir_count
  | SRootDirs => env_root_dirs | SGCPeriod => env_gc_period
  | SNumWorkers => env_num_workers | SSendDuration => env_send_duration
  end.

Definition setting_eqb (a b : setting) : bool :=
  match a, b with
  | SPort, SPort | SDbPath, SDbPath | SDirCount, SDirCount | SRootDirs, SRootDirs
  | SGCPeriod, SGCPeriod | SNumWorkers, SNumWorkers | SSendDuration, SSendDuration => true
  | _, _ => false
  end.

Fixpoint index_of (s : setting) (l : list setting) : nat :=
  match l with
  | [] => O
  | x :: r => if setting_eqb x s then O else S (index_of s r)
  end.

Definition rank (s : setting) : nat := index_of s env_order.

(* strings.Join, the inverse of strings.Split: used to state what split_on does *)
Fixpoint join (sep : N) (l : list (list N)) : list N :=
  match l with
  | [] => []
  | [x] => x
  | x :: r => x ++ sep :: join sep r
  end.
