(* Core: the sequential state machine of fs_db's version store, as the code
   implements it (usecase/core, usecase/store, usecase/transaction,
   usecase/cleaner, repository/transaction), including its defects:
   - writes never consult the transaction registry (late writes succeed),
   - commit re-sequences every key (two draws per key),
   - deletes are versions without a content record (tombstones),
   - the cleaner returns early on a missing content record.
   Keys, contents, transaction ids and content ids are N; key 0 is the empty
   key; transaction id 0 is the committed store ("main").  The harness maps
   real strings/UUIDs to these numbers (keys order-preservingly).
   Executable definitions only; proofs are in CoreInv.v / Refine.v.

   Lower layer replaced by its specification: per-key stores are plain lists
   and the snapshot lookup is [last_before_spec]; VListProofs.bsearch_correct
   and mirror/sortedness theorems justify this (C18). *)
From Coq Require Import List NArith Bool.
From FsDb Require Import VList.
Import ListNotations.
Open Scope N_scope.

(* ---------- association lists keyed by N ---------- *)
Section AMap.
  Context {V : Type}.
  Fixpoint aget (l : list (N * V)) (k : N) : option V :=
    match l with
    | [] => None
    | (k', v) :: r => if N.eqb k k' then Some v else aget r k
    end.
  Fixpoint aset (l : list (N * V)) (k : N) (v : V) : list (N * V) :=
    match l with
    | [] => [(k, v)]
    | (k', v') :: r => if N.eqb k k' then (k, v) :: r else (k', v') :: aset r k v
    end.
  Definition adel (l : list (N * V)) (k : N) : list (N * V) :=
    filter (fun p => negb (N.eqb (fst p) k)) l.
End AMap.

Inductive level := RU | RC | RR | SER.
Inductive err := ENotFound | EEmptyKey | ETxNotFound | ETxSerialization.

Record ver := mkver { v_seq : N; v_cid : N; v_tx : N; v_key : N }.
Record txrec := mktx { x_id : N; x_lvl : level; x_seq : N }.

Definition ver_eqb (a b : ver) : bool :=
  N.eqb (v_seq a) (v_seq b) && N.eqb (v_cid a) (v_cid b) &&
  N.eqb (v_tx a) (v_tx b) && N.eqb (v_key a) (v_key b).

Definition kstores := list (N * list ver).          (* key -> versions, oldest first *)

Record mstate := mkm {
  m_seq : N;                         (* sequence.seq, the process-global counter  *)
  m_reg : list txrec;                (* repository/transaction: insertion order   *)
  m_tx : list (N * kstores);         (* usecase/core txStore; 0 = main            *)
  m_all : kstores;                   (* usecase/core allStore (links), push order *)
  m_cont : list (N * N);             (* fileContent/<cid> record + content file   *)
  m_kvf : list (N * ver);            (* file/<cid> records                        *)
  m_q : list (list ver);             (* cleaner jobs sent to the pool, not yet run *)
  m_nexttx : N;                      (* id generators (UUIDs in the code)         *)
  m_nextcid : N }.

Definition m_init : mstate :=
  mkm 0 [] [(0, [])] [] [] [] [] 1 1.

Definition lget (s : kstores) (k : N) : list ver :=
  match aget s k with Some l => l | None => [] end.
Definition sget (t : list (N * kstores)) (h k : N) : list ver :=
  match aget t h with Some s => lget s k | None => [] end.
Definition sset (t : list (N * kstores)) (h k : N) (l : list ver) : list (N * kstores) :=
  aset t h (aset (match aget t h with Some s => s | None => [] end) k l).

Inductive op :=
| OBegin (l : level)
| OSet (h k v : N)          (* Set / SetReader / Create+Write*+Close: same at this layer *)
| ODel (h k : N)
| OGet (h k : N)            (* Get / GetReader *)
| OKeys (h : N)
| OCommit (h : N)
| ORollback (h : N)
| OGC                       (* cleaner.DeleteOld, run synchronously *)
| ODrain                    (* run every queued cleaner job *)
| OReopen.                  (* Close; Open (same process) *)

Inductive out :=
| OutUnit | OutHandle (h : N) | OutVal (v : N) | OutKeys (ks : list N) | OutErr (e : err).

(* ---------- small setters ---------- *)
Definition set_seq m s := mkm s (m_reg m) (m_tx m) (m_all m) (m_cont m) (m_kvf m) (m_q m) (m_nexttx m) (m_nextcid m).
Definition set_reg m r := mkm (m_seq m) r (m_tx m) (m_all m) (m_cont m) (m_kvf m) (m_q m) (m_nexttx m) (m_nextcid m).
Definition set_tx m t := mkm (m_seq m) (m_reg m) t (m_all m) (m_cont m) (m_kvf m) (m_q m) (m_nexttx m) (m_nextcid m).
Definition set_all m a := mkm (m_seq m) (m_reg m) (m_tx m) a (m_cont m) (m_kvf m) (m_q m) (m_nexttx m) (m_nextcid m).
Definition set_cont m c := mkm (m_seq m) (m_reg m) (m_tx m) (m_all m) c (m_kvf m) (m_q m) (m_nexttx m) (m_nextcid m).
Definition set_kvf m f := mkm (m_seq m) (m_reg m) (m_tx m) (m_all m) (m_cont m) f (m_q m) (m_nexttx m) (m_nextcid m).
Definition set_q m q := mkm (m_seq m) (m_reg m) (m_tx m) (m_all m) (m_cont m) (m_kvf m) q (m_nexttx m) (m_nextcid m).
Definition set_nexttx m n := mkm (m_seq m) (m_reg m) (m_tx m) (m_all m) (m_cont m) (m_kvf m) (m_q m) n (m_nextcid m).
Definition set_nextcid m n := mkm (m_seq m) (m_reg m) (m_tx m) (m_all m) (m_cont m) (m_kvf m) (m_q m) (m_nexttx m) n.

(* ---------- registry ---------- *)
Definition reg_find (r : list txrec) (h : N) : option txrec :=
  find (fun x => N.eqb (x_id x) h) r.
Definition reg_del (r : list txrec) (h : N) : list txrec :=
  filter (fun x => negb (N.eqb (x_id x) h)) r.

(* repository/transaction.Get: the main id is always found, level ReadCommitted *)
Definition tx_info (m : mstate) (h : N) : option txrec :=
  if N.eqb h 0 then Some (mktx 0 RC 0) else reg_find (m_reg m) h.

(* ---------- usecase/core.Store (push of a new version) ---------- *)
Definition push_version (m : mstate) (h k cid : N) : mstate :=
  let s := N.succ (m_seq m) in
  let v := mkver s cid h k in
  let m1 := set_seq m s in
  let m2 := set_kvf m1 (aset (m_kvf m1) cid v) in
  let m3 := set_tx m2 (sset (m_tx m2) h k (sget (m_tx m2) h k ++ [v])) in
  set_all m3 (aset (m_all m3) k (lget (m_all m3) k ++ [v])).

(* ---------- reads ---------- *)
(* model.File.Latest: f if f.Seq.After(o.Seq) else o; the zero File is None *)
Definition ver_latest (f o : option ver) : option ver :=
  match f, o with
  | Some x, Some y => if N.ltb (v_seq y) (v_seq x) then Some x else Some y
  | Some x, None => Some x
  | None, y => y
  end.

(* usecase/store.Get's filter + usecase/core.Get *)
Definition find_version (m : mstate) (x : txrec) (k : N) : option ver :=
  match x_lvl x with
  | RU => last_opt (lget (m_all m) k)
  | RC => ver_latest (last_opt (sget (m_tx m) (x_id x) k)) (last_opt (sget (m_tx m) 0 k))
  | RR | SER =>
    ver_latest (last_opt (sget (m_tx m) (x_id x) k))
               (last_before_spec v_seq (sget (m_tx m) 0 k) (x_seq x))
  end.

(* content-file record look-up then content: a miss is ErrNotFound (tombstone or cleaned) *)
Definition read_version (m : mstate) (o : option ver) : option N :=
  match o with
  | None => None
  | Some v => aget (m_cont m) (v_cid v)
  end.

Definition read (m : mstate) (x : txrec) (k : N) : option N :=
  read_version m (find_version m x k).

(* insertion sort on keys (sort.Strings; the harness numbers keys order-preservingly) *)
Fixpoint insert_sorted (k : N) (l : list N) : list N :=
  match l with
  | [] => [k]
  | x :: r => if N.leb k x then k :: l else x :: insert_sorted k r
  end.
Definition sort_keys (l : list N) : list N := fold_right insert_sorted [] l.

(* GetKeys: every key with an entry in the stores that the level reads (all of
   them have an entry in the all-store), whose version has a content record *)
Definition list_keys (m : mstate) (x : txrec) : list N :=
  sort_keys (filter (fun k => match read m x k with Some _ => true | None => false end)
                    (map fst (m_all m))).

(* ---------- ending a transaction ---------- *)
Definition remove_vers (del l : list ver) : list ver :=
  filter (fun v => negb (existsb (ver_eqb v) del)) l.

(* the keys transaction h has written (Go: the entries of its store map; map
   iteration order is unspecified in Go, the model uses the all-store's key order) *)
Definition tx_keys (m : mstate) (h : N) : list N :=
  filter (fun k => match sget (m_tx m) h k with [] => false | _ => true end) (map fst (m_all m)).

(* all versions of transaction h, per key *)
Definition tx_versions (m : mstate) (h : N) : list ver :=
  flat_map (fun k => sget (m_tx m) h k) (tx_keys m h).

(* txStore.Delete(h) + DeleteLink of every node of h *)
Definition unlink_tx (m : mstate) (h : N) : mstate :=
  let del := tx_versions m h in
  let m1 := set_all m (map (fun p => (fst p, remove_vers del (snd p))) (m_all m)) in
  set_tx m1 (adel (m_tx m1) h).

Definition enqueue (m : mstate) (job : list ver) : mstate :=
  match job with [] => m | _ => set_q m (m_q m ++ [job]) end.

(* second phase of UpdateTx for one kept version: draw, persist as main, push —
   the same as storing a version of the main transaction with the kept content id *)
Definition push_committed (m : mstate) (f : ver) : mstate :=
  push_version m 0 (v_key f) (v_cid f).

Definition is_snapshot (l : level) : bool :=
  match l with RR | SER => true | _ => false end.

(* first phase of UpdateTx: the conflict test, made under the READ lock of the main store *)
Definition conflict_flag (m : mstate) (x : txrec) : bool :=
  let h := x_id x in
  let m0 := set_reg m (reg_del (m_reg m) h) in
  is_snapshot (x_lvl x) &&
  existsb (fun k => match last_opt (sget (m_tx m0) 0 k) with
                    | Some v => N.ltb (x_seq x) (v_seq v)
                    | None => false end) (tx_keys m0 h).

(* the rest of commit, given the outcome of the conflict test *)
Definition commit_with_flag (conflict : bool) (m : mstate) (x : txrec) : mstate * out :=
  let h := x_id x in
  let m0 := set_reg m (reg_del (m_reg m) h) in
  let keys := tx_keys m0 h in
  (* per key: the last version is kept, the earlier ones are deleted *)
  let kept := flat_map (fun k => match last_opt (sget (m_tx m0) h k) with Some v => [v] | None => [] end) keys in
  let older := flat_map (fun k => removelast (sget (m_tx m0) h k)) keys in
  (* first phase draws one number per kept version (later overwritten) *)
  let m1 := set_seq m0 (m_seq m0 + N.of_nat (length kept)) in
  let m2 := unlink_tx m1 h in
  if conflict then (enqueue m2 (older ++ kept), OutErr ETxSerialization)
  else (enqueue (fold_left push_committed kept m2) older, OutUnit).

(* sequentially the test and the publication see the same state *)
Definition commit (m : mstate) (x : txrec) : mstate * out :=
  commit_with_flag (conflict_flag m x) m x.

Definition rollback (m : mstate) (h : N) : mstate :=
  match reg_find (m_reg m) h with
  | None => m
  | Some _ =>
    let m0 := set_reg m (reg_del (m_reg m) h) in
    let job := tx_versions m0 h in
    enqueue (unlink_tx m0 h) job
  end.

(* ---------- cleaner ---------- *)
(* cleaner.deleteFile: content record miss => nothing; else remove content,
   content record and version record *)
Definition clean_ver (m : mstate) (v : ver) : mstate :=
  match aget (m_cont m) (v_cid v) with
  | None => m
  | Some _ => set_kvf (set_cont m (adel (m_cont m) (v_cid v))) (adel (m_kvf m) (v_cid v))
  end.
Definition clean_job (m : mstate) (job : list ver) : mstate := fold_left clean_ver job m.

Definition drain (m : mstate) : mstate :=
  fold_left clean_job (m_q m) (set_q m []).

(* cleaner.DeleteOld + usecase/core.DeleteOld on the main store *)
Definition gc (m : mstate) : mstate :=
  let '(m0, horizon) :=
      match m_reg m with
      | x :: _ => (m, x_seq x)                       (* Oldest = first inserted *)
      | [] => let s := N.succ (m_seq m) in (set_seq m s, s)
      end in
  let main := match aget (m_tx m0) 0 with Some s => s | None => [] end in
  (* every key of the main store (Go map order is unspecified; the all-store's key order is used) *)
  let deleted := flat_map (fun k => fst (collect_list v_seq (sget (m_tx m0) 0 k) horizon))
                          (map fst (m_all m0)) in
  let main' := map (fun p => (fst p, snd (collect_list v_seq (snd p) horizon))) main in
  let m1 := set_tx m0 (aset (m_tx m0) 0 main') in
  let m2 := set_all m1 (map (fun p => (fst p, remove_vers deleted (snd p))) (m_all m1)) in
  clean_job m2 deleted.

(* ---------- Load (reopen) ---------- *)
Definition load_step (acc : list (N * ver) * list ver) (f : ver) : list (N * ver) * list ver :=
  let (win, del) := acc in
  if negb (N.eqb (v_tx f) 0) then (win, del ++ [f])
  else match aget win (v_key f) with
       | None => (aset win (v_key f) f, del)
       | Some w => if N.ltb (v_seq f) (v_seq w) then (win, del ++ [f])
                   else (aset win (v_key f) f, del ++ [w])
       end.

(* insertion sort of an association list by key: the order in which Load fills
   its Go maps is unspecified and unobservable; the model uses key order *)
Fixpoint insert_amap {V} (k : N) (v : V) (l : list (N * V)) : list (N * V) :=
  match l with
  | [] => [(k, v)]
  | (k', v') :: r => if N.leb k k' then (k, v) :: l else (k', v') :: insert_amap k v r
  end.
Definition sort_amap {V} (l : list (N * V)) : list (N * V) :=
  fold_right (fun p acc => insert_amap (fst p) (snd p) acc) [] l.

Definition load_winners (m : mstate) : list (N * ver) * list ver :=
  fold_left load_step (map snd (m_kvf m)) ([], []).

(* [g] is the value of the process-global counter found by Load.  sequence.Set raises the
   counter to the largest loaded sequence (fix for defect D1); the original code only set
   it when it was still 0 (compare-and-swap from 0). *)
Definition seq_set_fixed (g mx : N) : N := N.max g mx.
Definition seq_set_orig (g mx : N) : N := if N.eqb g 0 then mx else g.

Definition reopen_gen (setseq : N -> N -> N) (g : N) (m : mstate) : mstate :=
  let (win, del) := load_winners m in
  let maxseq := fold_left (fun a p => N.max a (v_seq (snd p))) win 1 in
  let stores := sort_amap (map (fun p => (fst p, [snd p])) win) in
  let m1 := mkm (setseq g maxseq)
                [] [(0, stores)] stores (m_cont m) (m_kvf m) [] (m_nexttx m) (m_nextcid m) in
  enqueue m1 del.

Definition reopen_with := reopen_gen seq_set_fixed.
Definition reopen_with_orig := reopen_gen seq_set_orig.

(* Close; Open in the same process: the counter keeps its value *)
Definition reopen (m : mstate) : mstate := reopen_with (m_seq m) m.

(* ---------- the step function ---------- *)
Definition mstep (m : mstate) (o : op) : mstate * out :=
  match o with
  | OBegin l =>
    let id := m_nexttx m in
    let s := N.succ (m_seq m) in
    let m1 := set_nexttx (set_seq m s) (N.succ id) in
    (set_reg m1 (m_reg m1 ++ [mktx id l s]), OutHandle id)
  | OSet h k v =>
    if N.eqb k 0 then (m, OutErr EEmptyKey)
    else
      let cid := m_nextcid m in
      let m1 := set_nextcid m (N.succ cid) in
      let m2 := set_cont m1 (aset (m_cont m1) cid v) in
      (push_version m2 h k cid, OutUnit)
  | ODel h k =>
    let cid := m_nextcid m in
    let m1 := set_nextcid m (N.succ cid) in
    (push_version m1 h k cid, OutUnit)
  | OGet h k =>
    match tx_info m h with
    | None => (m, OutErr ETxNotFound)
    | Some x => (m, match read m x k with Some v => OutVal v | None => OutErr ENotFound end)
    end
  | OKeys h =>
    match tx_info m h with
    | None => (m, OutErr ETxNotFound)
    | Some x => (m, OutKeys (list_keys m x))
    end
  | OCommit h =>
    match reg_find (m_reg m) h with
    | None => (m, OutErr ETxNotFound)
    | Some x => commit m x
    end
  | ORollback h => (rollback m h, OutUnit)
  | OGC => (gc m, OutUnit)
  | ODrain => (drain m, OutUnit)
  | OReopen => (reopen (drain m), OutUnit)
  end.

Fixpoint mrun_from (m : mstate) (ops : list op) : list out :=
  match ops with
  | [] => []
  | o :: r => let (m', x) := mstep m o in x :: mrun_from m' r
  end.
Definition mrun (ops : list op) : list out := mrun_from m_init ops.

Fixpoint mstate_after (m : mstate) (ops : list op) : mstate :=
  match ops with
  | [] => m
  | o :: r => mstate_after (fst (mstep m o)) r
  end.
