(* The skeleton extracted from the CURRENT source satisfies the discipline.  Re-checked on every run against the
   regenerated LockSkelGen.v (a finite object: the check by computation is a proof about exactly that object). *)
From Coq Require Import List String Bool.
From FsDb Require Import LockSkel LockSkelGen.
Import ListNotations.

Theorem fsdb_skeleton_ok : skeleton_ok skeleton = true.
Proof. vm_compute. reflexivity. Qed.

Theorem fsdb_skeleton_covers : covers skeleton = true.
Proof. vm_compute. reflexivity. Qed.

(* the failing (operation, path) pairs, for the report when the theorem above no longer checks *)
Definition failing : list (string * list ev) :=
  flat_map (fun fp => map (fun p => (fst fp, p)) (filter (fun p => negb (path_ok (fst fp) p)) (snd fp))) skeleton.
