(* RWProofs — proofs about the read-writer model (C12). *)
From Coq Require Import List Bool Arith NArith Lia.
From FsDb Require Import Conc RW.
Import ListNotations.

(* ------------------------------------------------------------------ *)
(* termination measure (valid for every variant)                       *)

Definition wrem (s : st) : nat :=
  match wp s with
  | WOp => 2 * length (todo s) + 3
  | WSig => 2 * length (todo s) + 4
  | WStored => 2
  | WWait => 1
  | WDone => 0
  end.

Definition rrank (s : st) : nat :=
  match rp s with
  | REnter => 6 | RWoken => 5 | RAfterWake => 4 | RBeforeWait => 3 | RParked => 2
  | REof => 1 | RFail => 1 | RDone => 0
  end.

Definition bytes_left (s : st) : nat := length (buf s) + length (concat (todo s)).

Definition measure (s : st) : nat := 8 * wrem s + 8 * bytes_left s + rrank s.

Lemma skipn_shorter : forall (B : nat) (l : list byte), 1 <= B -> l <> [] -> length (skipn B l) < length l.
Proof.
  intros B l HB Hl. rewrite skipn_length. destruct l as [|b l]; [congruence|].
  change (length (b :: l)) with (S (length l)). lia.
Qed.

Lemma skipn_le : forall (B : nat) (l : list byte), length (skipn B l) <= length l.
Proof. intros. rewrite skipn_length. lia. Qed.

Lemma measure_take : forall p s, 1 <= p_B p ->
  (rp s = REnter \/ rp s = RAfterWake) ->
  measure (take p s) < measure s.
Proof.
  intros p s HB Hr. unfold take.
  destruct (fails p (nreads s)).
  - unfold measure, wrem, rrank, bytes_left. simpl.
    pose proof (skipn_le (p_B p) (buf s)).
    destruct Hr as [Hr|Hr]; rewrite Hr; destruct (wp s); lia.
  - destruct (buf s) as [|b l] eqn:Eb.
    + unfold measure, wrem, rrank, bytes_left. simpl. rewrite Eb. simpl.
      destruct Hr as [Hr|Hr]; rewrite Hr; destruct (wp s); lia.
    + unfold measure, wrem, rrank, bytes_left. simpl.
      assert (Hs : length (skipn (p_B p) (buf s)) < length (buf s)).
      { apply skipn_shorter; [exact HB | rewrite Eb; discriminate]. }
      rewrite Eb in Hs. rewrite Eb.
      destruct Hr as [Hr|Hr]; rewrite Hr; destruct (wp s); lia.
Qed.

Lemma measure_wake : forall s, measure (wake s) <= measure s + 3.
Proof.
  intros s. unfold wake. destruct (rp s) eqn:E; try lia.
  unfold measure, wrem, rrank, bytes_left. simpl. rewrite E. lia.
Qed.

Lemma measure_step : forall p s t, 1 <= p_B p ->
  rw_enabled p s t = true -> measure (rw_step p s t) < measure s.
Proof.
  intros p s t HB E. destruct t; simpl in *.
  - unfold step_W, enabled_W in *. destruct (wp s) eqn:Ew.
    + destruct (todo s) as [|w rest] eqn:Et.
      * unfold measure, wrem, rrank, bytes_left. simpl. rewrite Ew, Et. simpl. lia.
      * destruct (err s); unfold measure, wrem, rrank, bytes_left; simpl; rewrite Ew, Et; simpl;
          rewrite ?app_length; lia.
    + eapply Nat.le_lt_trans; [apply measure_wake|].
      unfold measure, wrem, rrank, bytes_left. simpl. rewrite Ew. lia.
    + eapply Nat.le_lt_trans; [apply measure_wake|].
      unfold measure, wrem, rrank, bytes_left. simpl. rewrite Ew. lia.
    + unfold measure, wrem, rrank, bytes_left. simpl. rewrite Ew. lia.
    + discriminate.
  - unfold step_R, enabled_R in *. destruct (rp s) eqn:Er.
    + destruct (must_wait s).
      * unfold measure, wrem, rrank, bytes_left. simpl. rewrite Er. lia.
      * apply measure_take; auto.
    + unfold measure, wrem, rrank, bytes_left. simpl. rewrite Er. lia.
    + discriminate.
    + unfold measure, wrem, rrank, bytes_left. simpl. rewrite Er. lia.
    + destruct (v_loop (p_var p) && must_wait s).
      * unfold measure, wrem, rrank, bytes_left. simpl. rewrite Er. lia.
      * apply measure_take; auto.
    + unfold measure, wrem, rrank, bytes_left. simpl. rewrite Er. lia.
    + unfold measure, wrem, rrank, bytes_left. simpl. rewrite Er. lia.
    + discriminate.
Qed.

Lemma measure_init : forall ws, measure (init ws) <= sched_bound ws.
Proof.
  intros ws. unfold measure, sched_bound, wrem, rrank, bytes_left, init. simpl. lia.
Qed.

(* every schedule of every variant is finite, with an explicit bound *)
Lemma sched_length_bounded : forall p ws sched s, 1 <= p_B p ->
  run (rw_sys p) sched (init ws) = Some s -> length sched <= sched_bound ws.
Proof.
  intros p ws sched s HB Hr.
  pose proof (run_length_bounded (rw_sys p) measure (fun s t => measure_step p s t HB) sched _ _ Hr) as H.
  pose proof (measure_init ws). lia.
Qed.

(* ------------------------------------------------------------------ *)
(* the invariant of the repaired code                                   *)

Section Fixed.
Variable B : nat.
Variable f : option nat.
Let p := mkParams fixed_code B f.
Variable ws : list (list byte).

Record Inv (s : st) : Prop := mkInv {
  i_muR : mu s = Some R <-> (rp s = RBeforeWait \/ rp s = RAfterWake);
  i_muW : mu s = Some W <-> wp s = WStored;
  i_rdone : rdone s = true <-> rp s = RDone;
  i_closed : closed s = true <-> (wp s = WStored \/ wp s = WWait \/ wp s = WDone);
  i_closed_todo : closed s = true -> todo s = [];
  i_wdone : wp s = WDone -> rdone s = true;
  (* the invariant named in DESIGN.md: a reader that decided to wait, or is parked,
     has nothing to read and the pipe is open -- or a wake-up is on its way *)
  i_bw : rp s = RBeforeWait -> closed s = false /\ buf s = [];
  i_parked : rp s = RParked -> (closed s = false /\ buf s = []) \/ wp s = WSig \/ wp s = WStored;
  i_eof : rp s = REof -> closed s = true /\ buf s = [];
  i_err : err s = true -> rp s = RDone /\ published s = None;
  i_nofail : f = None -> err s = false /\ rp s <> RFail;
  i_content : rp s <> RFail -> err s = false -> stored s ++ buf s ++ concat (todo s) = concat ws;
  i_pub : forall c, published s = Some c -> c = stored s /\ rp s = RDone /\ closed s = true /\ buf s = [];
  i_done : rp s = RDone -> err s = true \/ published s = Some (stored s);
  i_cres1 : wp s = WDone -> cres s = Some (negb (err s));
  i_cres2 : forall b, cres s = Some b -> wp s = WDone;
  i_wres : In false (wres s) -> err s = true;
  (* the sink fails exactly at its k-th Read return *)
  i_f1 : forall k, f = Some k -> rp s <> RFail -> err s = false -> nreads s <= k;
  i_f2 : rp s = RFail \/ err s = true -> exists k, f = Some k /\ nreads s = S k
}.

Ltac fin := simpl in *; try tauto; try congruence; try discriminate;
            try solve [intuition (try congruence; try discriminate)].

Ltac fin2 :=
  try solve [ match goal with
              | Hpub : (forall c, published _ = Some c -> _) |- forall c, _ -> _ =>
                let c := fresh "c" in let Hp := fresh "Hp" in
                intros c Hp; destruct (Hpub c Hp) as (Hp1 & Hp2 & Hp3 & Hp4);
                try congruence; repeat split; congruence
              end ];
  try solve [ match goal with
              | Hc : (forall b, cres _ = Some b -> _) |- forall b, _ -> _ =>
                let b := fresh "b" in let Hb := fresh "Hb" in
                intros b Hb; pose proof (Hc b Hb); congruence
              end ];
  try solve [ intros [H|H]; (discriminate || congruence) ];
  try solve [ intros; lia ];
  try solve [ match goal with
              | Hf1 : (forall k, f = Some k -> _) |- forall k, _ -> _ =>
                let k := fresh "k" in intros k Hk H1 H2; simpl in *;
                first [ apply (Hf1 k Hk); (assumption || congruence) | lia ]
              end ];
  try solve [ match goal with
              | Hf2 : (_ \/ _ -> exists k, _) |- _ \/ _ -> _ =>
                let H := fresh "H" in intro H; apply Hf2; destruct H as [H|H]; (tauto || congruence || discriminate)
              end ].

Lemma inv_init : Inv (init ws).
Proof.
  constructor; unfold init; simpl; try (intuition (congruence || discriminate)); fin2.
Qed.

Lemma must_wait_true : forall s, must_wait s = true -> closed s = false /\ buf s = [].
Proof.
  intros s H. unfold must_wait in H. apply andb_true_iff in H. destruct H as [H1 H2].
  apply negb_true_iff in H1. split; [exact H1|]. destruct (buf s); [reflexivity | discriminate].
Qed.

Lemma must_wait_false : forall s, must_wait s = false -> closed s = true \/ buf s <> [].
Proof.
  intros s H. unfold must_wait in H. apply andb_false_iff in H. destruct H as [H|H].
  - left. apply negb_false_iff in H. exact H.
  - right. destruct (buf s); [discriminate | discriminate].
Qed.

Lemma mu_free_true : forall s, mu_free s = true -> mu s = None.
Proof. intros s H. unfold mu_free in H. destruct (mu s); [discriminate | reflexivity]. Qed.

(* the reader's buffer read, from a state in which it holds the mutex (or just took it) and
   does not have to wait *)
Lemma fails_true : forall n, fails p n = true -> f = Some n.
Proof.
  intros n H. unfold fails in H. simpl in H. destruct f as [k|]; [|discriminate].
  apply Nat.eqb_eq in H. congruence.
Qed.

Lemma fails_false : forall n k, fails p n = false -> f = Some k -> n <> k.
Proof.
  intros n k H Hk. unfold fails in H. simpl in H. rewrite Hk in H. apply Nat.eqb_neq in H. exact H.
Qed.

Lemma inv_take : forall s,
  Inv s -> (rp s = REnter /\ mu s = None \/ rp s = RAfterWake) ->
  must_wait s = false -> Inv (take p s).
Proof.
  intros s I Hr Hm.
  assert (Hrp : rp s = REnter \/ rp s = RAfterWake) by tauto.
  assert (HnW : wp s <> WStored).
  { intro Hw. apply (i_muW s I) in Hw. destruct Hr as [[_ Hr]|Hr]; [congruence|].
    assert (mu s = Some R) by (apply (i_muR s I); tauto). congruence. }
  assert (Herr : err s = false).
  { destruct (err s) eqn:E; [|reflexivity]. destruct (i_err s I E) as [Hd _]. destruct Hrp; congruence. }
  assert (Hpub : published s = None).
  { destruct (published s) as [c|] eqn:E; [|reflexivity]. destruct (i_pub s I c E) as (_ & Hd & _).
    destruct Hrp; congruence. }
  assert (Hrd : rdone s = false).
  { destruct (rdone s) eqn:E; [|reflexivity]. apply (i_rdone s I) in E. destruct Hrp; congruence. }
  assert (Hcont : stored s ++ buf s ++ concat (todo s) = concat ws).
  { apply (i_content s I); [destruct Hrp; congruence | exact Herr]. }
  unfold take. destruct (fails p (nreads s)) eqn:Ef.
  - (* the sink fails *)
    assert (Hf : f <> None).
    { unfold fails in Ef. simpl in Ef. destruct f; [discriminate | discriminate]. }
    constructor; simpl; try (destruct I; fin; fin2).
    intros _. exists (nreads s). split; [apply fails_true; exact Ef | reflexivity].
  - assert (Hk : forall k, f = Some k -> S (nreads s) <= k).
    { intros k Hk. pose proof (fails_false _ _ Ef Hk).
      assert (nreads s <= k); [|lia].
      apply (i_f1 s I k Hk); [destruct Hrp; congruence | exact Herr]. }
    destruct (buf s) as [|b0 l] eqn:Eb.
    + (* EOF *)
      assert (Hc : closed s = true).
      { destruct (must_wait_false s Hm) as [H|H]; [exact H | congruence]. }
      constructor; simpl; try (destruct I; fin; fin2).
      all: try solve [intros k Hk' _ _; apply Hk; exact Hk'].
    + (* a chunk *)
      constructor; simpl; try (destruct I; fin; fin2).
      all: try solve [intros k Hk' _ _; apply Hk; exact Hk'].
      intros _ _. rewrite <- Hcont.
      rewrite <- app_assoc. rewrite (app_assoc (firstn B (b0 :: l))).
      rewrite firstn_skipn. reflexivity.
Qed.

Lemma inv_step : forall s t, Inv s -> rw_enabled p s t = true -> Inv (rw_step p s t).
Proof.
  intros s t I E. destruct t; simpl in *.
  - (* writer *)
    unfold step_W, enabled_W in *. simpl in *. destruct (wp s) eqn:Ew.
    + destruct (todo s) as [|w rest] eqn:Et.
      * (* Close: lock, store *)
        apply mu_free_true in E.
        constructor; simpl; rewrite ?Ew, ?Et; try (destruct I; fin; fin2).
        intros H1 H2. pose proof (i_content0 H1 H2) as Hc. rewrite Et in Hc. simpl in Hc. exact Hc.
      * apply mu_free_true in E.
        destruct (err s) eqn:Ee.
        -- constructor; simpl; rewrite ?Ew, ?Et, ?Ee; try (destruct I; fin; fin2).
        -- constructor; simpl; rewrite ?Ew, ?Et, ?Ee; try (destruct I; fin; fin2).
           ++ intros H1 _. pose proof (i_content0 H1 Ee) as Hc. rewrite Et in Hc. simpl in Hc.
              rewrite <- Hc. rewrite <- app_assoc. reflexivity.
           ++ intros c Hp. destruct (i_pub0 c Hp) as (_ & _ & Hc & _). apply i_closed_todo0 in Hc. congruence.
    + (* signal *)
      unfold wake; simpl. destruct (rp s) eqn:Er;
      constructor; simpl; rewrite ?Ew, ?Er; try (destruct I; fin; fin2).
    + (* broadcast, unlock *)
      unfold wake; simpl. destruct (rp s) eqn:Er;
      constructor; simpl; rewrite ?Ew, ?Er; try (destruct I; fin; fin2).
    + (* wg.Wait returns *)
      constructor; simpl; rewrite ?Ew; try (destruct I; fin; fin2).
    + discriminate.
  - (* reader *)
    unfold step_R, enabled_R in *. simpl in *. destruct (rp s) eqn:Er.
    + apply mu_free_true in E. destruct (must_wait s) eqn:Em.
      * destruct (must_wait_true s Em) as [Hc Hb].
        constructor; simpl; rewrite ?Er; try (destruct I; fin; fin2).
      * apply inv_take; auto.
    + constructor; simpl; rewrite ?Er; try (destruct I; fin; fin2).
    + discriminate.
    + apply mu_free_true in E.
      constructor; simpl; rewrite ?Er; try (destruct I; fin; fin2).
    + destruct (must_wait s) eqn:Em.
      * destruct (must_wait_true s Em) as [Hc Hb].
        constructor; simpl; rewrite ?Er; try (destruct I; fin; fin2).
      * apply inv_take; auto.
    + constructor; simpl; rewrite ?Er; try (destruct I; fin; fin2).
    + constructor; simpl; rewrite ?Er; try (destruct I; fin; fin2).
      intros _. split; [reflexivity|]. destruct (published s) as [c|] eqn:Ep; [|reflexivity].
      destruct (i_pub0 c eq_refl) as (_ & Hd & _). congruence.
    + discriminate.
Qed.

Lemma inv_always : always (rw_sys p) (init ws) Inv.
Proof.
  apply always_ind; [exact inv_init | exact inv_step].
Qed.

(* deadlock freedom: under the invariant a non-final state has an enabled thread *)
Lemma inv_progress : forall s, Inv s -> final s = false -> exists t, rw_enabled p s t = true.
Proof.
  intros s I F. destruct I.
  destruct (mu s) as [[|]|] eqn:Em.
  - (* the closer holds the mutex: it can broadcast *)
    exists W. simpl. unfold enabled_W. assert (Hw : wp s = WStored) by tauto. rewrite Hw. reflexivity.
  - (* the reader holds the mutex *)
    exists R. simpl. unfold enabled_R.
    assert (Hr : rp s = RBeforeWait \/ rp s = RAfterWake) by tauto.
    destruct Hr as [Hr|Hr]; rewrite Hr; reflexivity.
  - assert (Hfree : mu_free s = true) by (unfold mu_free; rewrite Em; reflexivity).
    destruct (rp s) eqn:Er.
    + exists R. simpl. unfold enabled_R. rewrite Er. exact Hfree.
    + exists R. simpl. unfold enabled_R. rewrite Er. reflexivity.
    + (* parked: the writer side can always move *)
      exists W. simpl. unfold enabled_W.
      destruct (wp s) eqn:Ew.
      * destruct (todo s); [simpl; exact Hfree | exact Hfree].
      * reflexivity.
      * reflexivity.
      * exfalso. destruct (i_parked0 eq_refl) as [[Hc _]|[H|H]]; try discriminate.
        assert (closed s = true) by tauto. congruence.
      * exfalso. assert (rdone s = true) by tauto. assert (RParked = RDone) by tauto. discriminate.
    + exists R. simpl. unfold enabled_R. rewrite Er. exact Hfree.
    + exists R. simpl. unfold enabled_R. rewrite Er. reflexivity.
    + exists R. simpl. unfold enabled_R. rewrite Er. reflexivity.
    + exists R. simpl. unfold enabled_R. rewrite Er. reflexivity.
    + (* the reader is done *)
      assert (Hd : rdone s = true) by tauto.
      destruct (wp s) eqn:Ew.
      * exists W. simpl. unfold enabled_W. rewrite Ew. destruct (todo s); [simpl; exact Hfree | exact Hfree].
      * exists W. simpl. unfold enabled_W. rewrite Ew. reflexivity.
      * exists W. simpl. unfold enabled_W. rewrite Ew. reflexivity.
      * exists W. simpl. unfold enabled_W. rewrite Ew. exact Hd.
      * unfold final in F. rewrite Ew, Er in F. discriminate.
Qed.

Lemma inv_final_close : forall s, Inv s -> final s = true ->
  cres s = Some (negb (err s)) /\ rp s = RDone /\ wp s = WDone.
Proof.
  intros s I F. unfold final in F.
  destruct (wp s) eqn:Ew; try discriminate. destruct (rp s) eqn:Er; try discriminate.
  split; [apply (i_cres1 s I Ew) | auto].
Qed.

Lemma inv_ok_content : forall s, Inv s -> rp s = RDone -> err s = false ->
  published s = Some (concat ws) /\ Forall (fun b => b = true) (wres s).
Proof.
  intros s I Hd He. split.
  - destruct (i_done s I Hd) as [H|H]; [congruence|].
    destruct (i_pub s I _ H) as (_ & _ & Hc & Hb).
    pose proof (i_closed_todo s I Hc) as Ht.
    assert (Hne : rp s <> RFail) by congruence.
    pose proof (i_content s I Hne He) as Hcont. rewrite Hb, Ht in Hcont. simpl in Hcont.
    rewrite app_nil_r in Hcont. rewrite H. congruence.
  - apply Forall_forall. intros b Hin. destruct b; [reflexivity|].
    pose proof (i_wres s I Hin). congruence.
Qed.

Lemma inv_err_nothing : forall s, Inv s -> err s = true -> published s = None.
Proof. intros s I He. apply (i_err s I He). Qed.

End Fixed.

(* ------------------------------------------------------------------ *)
(* the statements used by Properties/C12.v                             *)

Lemma fixed_inv : forall B f ws sched s,
  run (rw_fixed B f) sched (init ws) = Some s -> Inv f ws s.
Proof. intros B f ws sched s H. exact (inv_always B f ws sched s H). Qed.

Lemma fixed_no_stuck : forall B f ws sched s,
  run (rw_fixed B f) sched (init ws) = Some s ->
  final s = true \/ exists t, enabled (rw_fixed B f) s t = true.
Proof.
  intros B f ws sched s H. destruct (final s) eqn:F; [left; reflexivity | right].
  exact (inv_progress B f ws s (fixed_inv _ _ _ _ _ H) F).
Qed.

Lemma fixed_can_finish : forall B f ws sched s, 1 <= B ->
  run (rw_fixed B f) sched (init ws) = Some s ->
  exists sched' s', run (rw_fixed B f) sched' s = Some s' /\ final s' = true.
Proof.
  intros B f ws sched s HB H.
  destruct (can_finish (rw_fixed B f) measure (Inv f ws) final) with (n := measure s) (s := s)
    as (sched' & s' & Hr & Hf & _).
  - intros s0 t E. apply (measure_step (mkParams fixed_code B f)); [exact HB | exact E].
  - intros s0 t I E. exact (inv_step B f ws s0 t I E).
  - intros s0 I F. exact (inv_progress B f ws s0 I F).
  - lia.
  - exact (fixed_inv _ _ _ _ _ H).
  - exists sched', s'. auto.
Qed.

Lemma fixed_close_returns : forall B f ws, 1 <= B ->
  (forall sched s, run (rw_fixed B f) sched (init ws) = Some s ->
     final s = true \/ exists t, enabled (rw_fixed B f) s t = true) /\
  (forall sched s, run (rw_fixed B f) sched (init ws) = Some s -> length sched <= sched_bound ws) /\
  (forall sched s, run (rw_fixed B f) sched (init ws) = Some s ->
     exists sched' s', run (rw_fixed B f) sched' s = Some s' /\ final s' = true) /\
  (forall sched s, run (rw_fixed B f) sched (init ws) = Some s -> final s = true ->
     exists b, cres s = Some b).
Proof.
  intros B f ws HB. repeat split.
  - intros sched s H. exact (fixed_no_stuck _ _ _ _ _ H).
  - intros sched s H. exact (sched_length_bounded (mkParams fixed_code B f) ws sched s HB H).
  - intros sched s H. exact (fixed_can_finish _ _ _ _ _ HB H).
  - intros sched s H F. destruct (inv_final_close f ws s (fixed_inv _ _ _ _ _ H) F) as [Hc _]. eauto.
Qed.

(* a schedule that cannot be extended has reached the final state, and Close returned *)
Lemma fixed_maximal_is_final : forall B f ws sched s,
  run (rw_fixed B f) sched (init ws) = Some s ->
  (forall t, enabled (rw_fixed B f) s t = false) ->
  final s = true /\ exists b, cres s = Some b.
Proof.
  intros B f ws sched s H Hmax.
  destruct (fixed_no_stuck _ _ _ _ _ H) as [F|[t Et]].
  - split; [exact F|]. destruct (inv_final_close f ws s (fixed_inv _ _ _ _ _ H) F) as [Hc _]. eauto.
  - rewrite Hmax in Et. discriminate.
Qed.

Lemma fixed_content_is_concat : forall B f ws sched s,
  run (rw_fixed B f) sched (init ws) = Some s -> cres s = Some true ->
  final s = true /\ published s = Some (concat ws) /\ Forall (fun b => b = true) (wres s).
Proof.
  intros B f ws sched s H Hc.
  pose proof (fixed_inv _ _ _ _ _ H) as I.
  pose proof (i_cres2 f ws s I true Hc) as Hw.
  pose proof (i_cres1 f ws s I Hw) as Hc'. rewrite Hc in Hc'.
  assert (He : err s = false) by (destruct (err s); [discriminate | reflexivity]).
  assert (Hd : rp s = RDone) by (apply (i_rdone f ws s I); apply (i_wdone f ws s I Hw)).
  split; [unfold final; rewrite Hw, Hd; reflexivity|].
  exact (inv_ok_content f ws s I Hd He).
Qed.

Lemma fixed_error_reported : forall B f ws sched s,
  run (rw_fixed B f) sched (init ws) = Some s -> final s = true ->
  (err s = true -> cres s = Some false /\ published s = None) /\
  (err s = false -> cres s = Some true /\ published s = Some (concat ws)) /\
  (In false (wres s) -> err s = true) /\
  (f = None -> err s = false) /\
  (forall k, f = Some k -> (err s = true <-> nreads s = S k)).
Proof.
  intros B f ws sched s H F.
  pose proof (fixed_inv _ _ _ _ _ H) as I.
  destruct (inv_final_close f ws s I F) as (Hc & Hd & Hw).
  repeat split.
  - rewrite Hc, H0. reflexivity.
  - exact (inv_err_nothing f ws s I H0).
  - rewrite Hc, H0. reflexivity.
  - exact (proj1 (inv_ok_content f ws s I Hd H0)).
  - exact (i_wres f ws s I).
  - intro Hn. exact (proj1 (i_nofail f ws s I Hn)).
  - intro He. destruct (i_f2 f ws s I (or_intror He)) as (k' & Hk' & Hn). congruence.
  - intro Hn. destruct (err s) eqn:He; [reflexivity|].
    assert (Hne : rp s <> RFail) by congruence.
    pose proof (i_f1 f ws s I k H0 Hne He). lia.
Qed.

(* ------------------------------------------------------------------ *)
(* why the repair was needed: witnesses against the original code       *)

Definition hello : list byte := [104; 101; 108; 108; 111]%N.
Definition d2_ws : list (list byte) := [[]; hello].
Definition d2_sched : list tid := [R; R; W; W; R; R; R; W; W; W; W; W].
Definition d3_ws : list (list byte) := [].
Definition d3_sched : list tid := [R; W; W; R].

Lemma orig_content_refuted :
  exists s, run (rw_orig 8 None) d2_sched (init d2_ws) = Some s /\ final s = true /\
            cres s = Some true /\ wres s = [true; true] /\
            published s = Some [] /\ concat d2_ws = hello.
Proof. eexists. vm_compute. repeat split. Qed.

Lemma orig_close_returns_refuted :
  exists s, run (rw_orig 8 None) d3_sched (init d3_ws) = Some s /\ final s = false /\
            (forall t, enabled (rw_orig 8 None) s t = false) /\ cres s = None.
Proof.
  eexists. split; [vm_compute; reflexivity|]. split; [reflexivity|]. split; [|reflexivity].
  intros [|]; reflexivity.
Qed.

(* each half of the repair alone is not enough *)
Lemma loop_only_still_deadlocks :
  exists s, run (rw_sys (mkParams (mkVariant true false) 8 None)) d3_sched (init d3_ws) = Some s /\
            stuck (mkParams (mkVariant true false) 8 None) s = true.
Proof. eexists. vm_compute. split; reflexivity. Qed.

Lemma lock_only_still_truncates :
  exists s, run (rw_sys (mkParams (mkVariant false true) 8 None)) d2_sched (init d2_ws) = Some s /\
            final s = true /\ cres s = Some true /\ published s = Some [].
Proof. eexists. vm_compute. repeat split. Qed.

(* on the repaired code the same choices are no schedule (D3: Close needs the mutex) or are
   harmless (D2: the woken reader re-tests and waits again) *)
Lemma fixed_rejects_d3_sched : run (rw_fixed 8 None) d3_sched (init d3_ws) = None.
Proof. vm_compute. reflexivity. Qed.

(* ------------------------------------------------------------------ *)
(* the stream writer (gRPC Create)                                      *)

Lemma drain_spec : forall fuel cs b cks rest, 1 <= cs -> length b < fuel ->
  drain fuel cs b = (cks, rest) ->
  concat cks ++ rest = b /\ Forall (fun c => length c = cs) cks /\ length rest < cs.
Proof.
  induction fuel as [|fuel IH]; intros cs b cks rest Hcs Hlen H.
  - lia.
  - simpl in H. destruct (cs <=? length b) eqn:E.
    + apply Nat.leb_le in E.
      destruct (drain fuel cs (skipn cs b)) as [c r] eqn:D.
      inversion H. subst cks rest. clear H.
      assert (Hl : length (skipn cs b) < fuel) by (rewrite skipn_length; lia).
      destruct (IH cs (skipn cs b) c r Hcs Hl D) as (H1 & H2 & H3).
      split; [|split].
      * simpl. rewrite <- app_assoc. rewrite H1. apply firstn_skipn.
      * constructor; [|exact H2]. rewrite firstn_length. lia.
      * exact H3.
    + apply Nat.leb_gt in E. inversion H. subst. simpl. auto.
Qed.

Lemma sw_writes_spec : forall cs ws b cks rest, 1 <= cs -> length b < cs ->
  sw_writes cs b ws = (cks, rest) ->
  concat cks ++ rest = b ++ concat ws /\ Forall (fun c => length c = cs) cks /\ length rest < cs.
Proof.
  intros cs ws. induction ws as [|w r IH]; intros b cks rest Hcs Hb H; simpl in H.
  - inversion H. subst. simpl. rewrite app_nil_r. auto.
  - unfold sw_write in H.
    destruct (drain (S (length (b ++ w))) cs (b ++ w)) as [c1 b1] eqn:D1.
    destruct (sw_writes cs b1 r) as [c2 b2] eqn:D2.
    inversion H. subst cks rest. clear H.
    destruct (drain_spec _ _ _ _ _ Hcs (Nat.lt_succ_diag_r _) D1) as (H1 & H2 & H3).
    destruct (IH b1 c2 b2 Hcs H3 D2) as (H4 & H5 & H6).
    split; [|split].
    + rewrite concat_app. rewrite <- app_assoc. rewrite H4. rewrite app_assoc. rewrite H1.
      simpl. rewrite app_assoc. reflexivity.
    + apply Forall_app. auto.
    + exact H6.
Qed.

Lemma stream_concat : forall cs ws, 1 <= cs ->
  concat (writer_chunks cs ws) = concat ws /\
  Forall (fun c => 0 < length c <= cs) (writer_chunks cs ws).
Proof.
  intros cs ws Hcs. unfold writer_chunks.
  destruct (sw_writes cs [] ws) as [c b] eqn:D.
  assert (H0 : length (@nil byte) < cs) by (simpl; lia).
  destruct (sw_writes_spec cs ws [] c b Hcs H0 D) as (H1 & H2 & H3). simpl in H1.
  split.
  - rewrite concat_app. unfold sw_close. destruct b; simpl in *.
    + rewrite app_nil_r in *. exact H1.
    + rewrite app_nil_r. exact H1.
  - apply Forall_app. split.
    + eapply Forall_impl; [|exact H2]. simpl. intros a Ha. lia.
    + unfold sw_close. destruct b as [|x b]; constructor; [|constructor]. simpl in *. lia.
Qed.
