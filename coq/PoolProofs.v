(* PoolProofs — proofs about the worker-pool model (C16). *)
From Coq Require Import List Bool Arith Lia.
From FsDb Require Import Conc Pool.
Import ListNotations.
Open Scope bool_scope.

(* ------------------------------------------------------------------ *)
(* P1: witnesses                                                        *)

Definition pl_w0 : pl_lab := (PtW 0, false).
Definition pl_s0 : pl_lab := (PtS 0, false).
Definition pl_s1 : pl_lab := (PtS 1, false).
Definition pl_f0 : pl_lab := (PtF 0, false).
Definition pl_f1 : pl_lab := (PtF 1, false).
Definition pl_l0 : pl_lab := (PtL 0, false).
Definition pl_l1 : pl_lab := (PtL 1, false).

Definition pl_d14_sprogs : list (list pl_job) := [[0;1;2];[3]].
Definition pl_d14_sched : list pl_lab :=
  [pl_w0] ++ repeat pl_s0 7 ++
  [pl_f0;pl_f0;pl_w0;pl_w0;pl_f0;pl_f0;pl_s1;pl_s1;pl_s1;pl_s1;pl_f0;pl_f0] ++ repeat pl_w0 8.
(* the same choices on the repaired code: sender 1's lazy step spawns flusher 1 *)
Definition pl_d14_fixed_sched : list pl_lab :=
  firstn 17 pl_d14_sched ++
  [pl_f0;pl_f0;pl_f1;pl_f1;pl_w0;pl_w0;pl_w0;pl_f1;pl_f1;pl_f1;pl_f1] ++ repeat pl_w0 8.
Definition pl_two_stops_sched : list pl_lab :=
  [pl_l0;pl_l1;pl_w0;pl_w0;pl_w0;pl_l0;pl_l0;pl_l0;pl_l1;pl_l1;pl_l1].
Definition pl_cycle_sched : list pl_lab :=
  [pl_s0;pl_s0;pl_w0;pl_w0;pl_w0;pl_w0;pl_w0; pl_l0; pl_w0; pl_l0;pl_l0;pl_l0; pl_l0;pl_l0;pl_l0;
   pl_s0;pl_s0; pl_w0;pl_w0;pl_w0;pl_w0;pl_w0; pl_l0;pl_w0;pl_l0;pl_l0;pl_l0].

(* D18: Stop; Run with a Send in between Run's two assignments *)
Definition pl_restart_sched : list pl_lab :=
  [pl_w0;pl_w0;pl_l0;pl_w0;pl_l0;pl_l0;pl_l0;pl_l0;pl_l0;pl_s0;pl_s0].

Lemma plp_restart_orig :
  exists s, run (pl_sys (pl_orig 1)) pl_restart_sched (pl_init (pl_orig 1) true [[PlStop; PlRun]] [[0]]) = Some s /\
            pl_panic s = Some PkSendClosed.
Proof. eexists. split; vm_compute; reflexivity. Qed.

Lemma plp_eventually_run_refuted_orig :
  exists s, run (pl_sys (pl_orig 1)) pl_d14_sched (pl_init (pl_orig 1) true [] pl_d14_sprogs) = Some s /\
            pl_quiet (pl_orig 1) s = true /\ pl_cxs s = PxLive /\ pl_panic s = None /\
            In 3 (pl_acc s) /\ pl_count s 3 = 0 /\ pl_def s = [3] /\ pl_stranded s = true.
Proof. eexists. split; [vm_compute; reflexivity|]. vm_compute. repeat split. left; reflexivity. Qed.

Lemma plp_fixed_rejects_d14 :
  run (pl_sys (pl_fixed 1)) pl_d14_sched (pl_init (pl_fixed 1) true [] pl_d14_sprogs) = None.
Proof. vm_compute. reflexivity. Qed.

Lemma plp_two_stops :
  exists s, run (pl_sys (pl_fixed 1)) pl_two_stops_sched (pl_init (pl_fixed 1) true [[PlStop];[PlStop]] []) = Some s /\
            pl_panic s = Some PkCloseClosed.
Proof. eexists. split; vm_compute; reflexivity. Qed.

Lemma plp_send_before_run :
  exists s, run (pl_sys (pl_fixed 1)) [pl_s0] (pl_init (pl_fixed 1) false [] [[0]]) = Some s /\
            pl_panic s = Some PkNilCtx.
Proof. eexists. split; vm_compute; reflexivity. Qed.

Lemma plp_stop_during_run :
  exists s, run (pl_sys (pl_fixed 1)) [pl_l0; pl_l1] (pl_init (pl_fixed 1) false [[PlRun];[PlStop]] []) = Some s /\
            pl_panic s = Some PkNilCancel.
Proof. eexists. split; vm_compute; reflexivity. Qed.

(* ------------------------------------------------------------------ *)
(* lists                                                                *)

Lemma plp_sum_app : forall A (f : A -> nat) a b, pl_sum f (a ++ b) = pl_sum f a + pl_sum f b.
Proof. intros A f a b. induction a; simpl; lia. Qed.

Lemma plp_sum_upd : forall A (f : A -> nat) l i y x, nth_error l i = Some y ->
  pl_sum f (pl_upd l i x) + f y = pl_sum f l + f x.
Proof.
  intros A f l. induction l as [|a l IH]; intros [|i] y x H; simpl in *; try discriminate.
  - inversion H; subst. lia.
  - specialize (IH _ _ x H). lia.
Qed.

Lemma plp_sum_ge : forall A (f : A -> nat) l i y, nth_error l i = Some y -> f y <= pl_sum f l.
Proof.
  intros A f l. induction l as [|a l IH]; intros [|i] y H; simpl in *; try discriminate.
  - inversion H; subst. lia.
  - specialize (IH _ _ H). lia.
Qed.

Lemma plp_sum_upd_eq : forall A (f : A -> nat) l i y x, nth_error l i = Some y ->
  pl_sum f (pl_upd l i x) = pl_sum f l + f x - f y.
Proof. intros. pose proof (plp_sum_upd A f l i y x H). lia. Qed.

Lemma plp_sum_repeat : forall A (f : A -> nat) x n, pl_sum f (repeat x n) = n * f x.
Proof. intros. induction n; simpl; lia. Qed.

Lemma plp_sum_pos : forall A (f : A -> nat) l, 0 < pl_sum f l -> exists i y, nth_error l i = Some y /\ 0 < f y.
Proof.
  intros A f l. induction l as [|a l IH]; simpl; intros H; [lia|].
  destruct (f a) eqn:E.
  - destruct (IH H) as (i & y & Hn & Hy). exists (S i), y. auto.
  - exists 0, a. simpl. split; [reflexivity | lia].
Qed.

Lemma plp_sum_zero : forall A (f : A -> nat) l, (forall i y, nth_error l i = Some y -> f y = 0) -> pl_sum f l = 0.
Proof.
  intros A f l. induction l as [|a l IH]; simpl; intros H; [reflexivity|].
  rewrite (H 0 a eq_refl). rewrite IH; [reflexivity|]. intros i y Hn. apply (H (S i) y Hn).
Qed.

Lemma plp_sum_full : forall A (f : A -> nat) l, (forall x, f x <= 1) -> pl_sum f l = length l ->
  forall i y, nth_error l i = Some y -> f y = 1.
Proof.
  intros A f l Hf. 
  assert (Hle : forall l, pl_sum f l <= length l).
  { induction l0 as [|a l0 IH]; simpl; [lia|]. specialize (Hf a). lia. }
  induction l as [|a l IH]; intros H [|i] y Hn; simpl in *; try discriminate.
  - inversion Hn; subst. specialize (Hf y). specialize (Hle l). lia.
  - apply (IH) with (i := i); [|exact Hn]. specialize (Hf a). specialize (Hle l). lia.
Qed.

Lemma plp_upd_length : forall A (l : list A) i x, length (pl_upd l i x) = length l.
Proof. intros A l. induction l as [|a l IH]; intros [|i] x; simpl; auto. Qed.

Lemma plp_upd_eq : forall A (l : list A) i x, i < length l -> nth_error (pl_upd l i x) i = Some x.
Proof.
  intros A l. induction l as [|a l IH]; intros [|i] x H; simpl in *; try lia; auto.
  apply IH. lia.
Qed.

Lemma plp_upd_neq : forall A (l : list A) i k x, k <> i -> nth_error (pl_upd l i x) k = nth_error l k.
Proof.
  intros A l. induction l as [|a l IH]; intros [|i] [|k] x H; simpl in *; auto; try congruence.
Qed.

Lemma plp_nth_lt : forall A (l : list A) i y, nth_error l i = Some y -> i < length l.
Proof. intros. apply nth_error_Some. congruence. Qed.

Lemma plp_pop_some : forall l d j, pl_pop_back l = Some (d, j) -> l = d ++ [j].
Proof.
  intros l d j H. unfold pl_pop_back in H. destruct (rev l) as [|x r] eqn:E; [discriminate|].
  inversion H; subst. rewrite <- (rev_involutive l), E. reflexivity.
Qed.

Lemma plp_pop_none : forall l, pl_pop_back l = None -> l = [].
Proof.
  intros l H. unfold pl_pop_back in H. destruct (rev l) as [|x r] eqn:E; [|discriminate].
  rewrite <- (rev_involutive l), E. reflexivity.
Qed.

Lemma plp_single : forall A (l : list A) i c, length l <= 1 -> nth_error l i = Some c -> l = [c] /\ i = 0.
Proof.
  intros A [|a [|b l]] [|i] c H Hn; simpl in *; try discriminate; try lia.
  - inversion Hn; auto.
  - destruct i; discriminate.
Qed.

Lemma plp_forallb_false : forall A (f : A -> bool) l, forallb f l = false ->
  exists i x, nth_error l i = Some x /\ f x = false.
Proof.
  intros A f l. induction l as [|a l IH]; simpl; intros H; [discriminate|].
  destruct (f a) eqn:E.
  - destruct (IH H) as (i & x & Hn & Hx). exists (S i), x. auto.
  - exists 0, a. auto.
Qed.

(* ------------------------------------------------------------------ *)
(* step analysis                                                        *)

Lemma plp_bridge : forall p s l, enabled (pl_sys p) s l = true ->
  exists s', pl_next p s l = Some s' /\ step (pl_sys p) s l = s'.
Proof.
  intros p s l H. simpl in *. unfold pl_enabled, pl_step in *.
  destruct (pl_next p s l) as [s'|]; [|discriminate]. exists s'. auto.
Qed.

Lemma plp_always : forall p s0 (P : pl_st -> Prop),
  P s0 -> (forall s l s', P s -> pl_next p s l = Some s' -> P s') ->
  forall sched s, run (pl_sys p) sched s0 = Some s -> P s.
Proof.
  intros p s0 P H0 Hs. apply (always_ind (pl_sys p) s0 P H0).
  intros s t HP He. destruct (plp_bridge p s t He) as (s' & Hn & Hst).
  rewrite Hst. exact (Hs s t s' HP Hn).
Qed.

Ltac pl_split1 H :=
  match type of H with
  | context[match ?x with _ => _ end] =>
    lazymatch x with context[match _ with _ => _ end] => fail | _ => idtac end;
    first [ is_var x; destruct x
          | let E := fresh "E" in (revert H; destruct x eqn:E; intro H) ];
    cbv beta iota in H
  end.
Ltac pl_split H := repeat (pl_split1 H; try discriminate H).

Ltac pl_simp :=
  cbn [pl_chan pl_chs pl_def pl_flock pl_listm pl_cxs pl_runm pl_log pl_acc pl_sns pl_lfs pl_fls pl_wks pl_panic
       pl_set_chan pl_set_chs pl_set_def pl_set_flock pl_set_listm pl_set_cxs pl_set_runm pl_set_log
       pl_set_acc pl_set_sns pl_set_lfs pl_set_fls pl_set_wks pl_set_panic
       pl_spc_of pl_sjobs pl_lpc_of pl_lops] in *.

Ltac pl_eqb :=
  repeat match goal with
  | E : (_ =? _) = true |- _ => apply Nat.eqb_eq in E
  | E : (_ =? _) = false |- _ => apply Nat.eqb_neq in E
  | E : (_ <? _) = true |- _ => apply Nat.ltb_lt in E
  | E : (_ <? _) = false |- _ => apply Nat.ltb_ge in E
  | E : pl_pop_back _ = Some _ |- _ => apply plp_pop_some in E
  | E : pl_pop_back _ = None |- _ => apply plp_pop_none in E
  end.

Ltac pl_rw := repeat match goal with E : ?f ?s = _ |- _ => is_var s; progress (rewrite E in * ) end.

(* H : pl_next p s l = Some s' *)
Ltac pl_cases H :=
  unfold pl_next in H;
  match type of H with context[fst ?l] => destruct l as [[?i|?i|?n|?k] ?alt] end;
  cbn [fst snd] in H;
  unfold pl_step_l, pl_step_s, pl_step_f, pl_step_w, pl_can_enq, pl_enq, pl_can_deq, pl_cancelled,
         pl_is_nil, andb, orb, negb in H;
  cbv beta zeta in H;
  pl_split H;
  injection H as H;
  repeat match goal with
  | c : pl_snd |- _ => destruct c as [?pc ?jobs]
  | c : pl_lcl |- _ => destruct c as [?pc ?ops]
  end;
  pl_simp; subst; pl_eqb; pl_simp; pl_rw.

(* ------------------------------------------------------------------ *)
(* P2: exactly once                                                     *)

Definition pl_cnt (j : pl_job) (l : list pl_job) : nat := count_occ Nat.eq_dec l j.
Definition pl_e (j k : pl_job) : nat := if Nat.eq_dec k j then 1 else 0.

Lemma plp_cnt_cons : forall j k l, pl_cnt j (k :: l) = pl_e j k + pl_cnt j l.
Proof. intros. unfold pl_cnt, pl_e. simpl. destruct (Nat.eq_dec k j); lia. Qed.
Lemma plp_cnt_nil : forall j, pl_cnt j [] = 0.
Proof. reflexivity. Qed.
Lemma plp_cnt_app : forall j a b, pl_cnt j (a ++ b) = pl_cnt j a + pl_cnt j b.
Proof. intros. unfold pl_cnt. apply count_occ_app. Qed.
Lemma plp_e_same : forall j, pl_e j j = 1.
Proof. intros. unfold pl_e. destruct (Nat.eq_dec j j); congruence. Qed.

Definition pl_fh (j : pl_job) (f : pl_fpc) : nat := match f with PfHas k => pl_e j k | _ => 0 end.
Definition pl_wh (j : pl_job) (w : pl_wpc) : nat := match w with PwBegin k => pl_e j k | _ => 0 end.
Definition pl_sh (j : pl_job) (c : pl_snd) : nat :=
  pl_cnt j (pl_sjobs c) + match pl_spc_of c with PsSel k | PsLazy k => pl_e j k | _ => 0 end.

(* copies of job j held by the pool (not by a sender) or already executed *)
Definition pl_held (j : pl_job) (s : pl_st) : nat :=
  pl_cnt j (pl_chan s) + pl_cnt j (pl_def s) + pl_sum (pl_fh j) (pl_fls s) + pl_sum (pl_wh j) (pl_wks s) +
  pl_count s j.
Definition pl_occ (j : pl_job) (s : pl_st) : nat := pl_held j s + pl_sum (pl_sh j) (pl_sns s).

Ltac pl_arith :=
  repeat match goal with
  | E : nth_error ?l ?i = Some ?y |- context[pl_sum ?f (pl_upd ?l ?i ?x)] =>
      rewrite (plp_sum_upd_eq _ f l i y x E); pose proof (plp_sum_ge _ f l i y E)
  end;
  rewrite ?plp_sum_app, ?plp_sum_repeat, ?plp_cnt_app, ?plp_cnt_cons, ?plp_cnt_nil in *;
  unfold pl_fh, pl_wh, pl_sh, pl_in_send, pl_f_alive, pl_w_alive in *;
  cbn [pl_sum pl_spc_of pl_sjobs pl_lpc_of pl_lops] in *;
  rewrite ?plp_cnt_app, ?plp_cnt_cons, ?plp_cnt_nil in *.

Lemma plp_occ_step : forall p j s l s', pl_next p s l = Some s' -> pl_occ j s' <= pl_occ j s.
Proof.
  intros p j s l s' H. unfold pl_occ, pl_held, pl_count. fold (pl_cnt j (pl_log s')) (pl_cnt j (pl_log s)).
  pl_cases H; pl_arith; lia.
Qed.

Lemma plp_occ_init : forall p running lprogs sprogs j,
  pl_occ j (pl_init p running lprogs sprogs) = pl_cnt j (concat sprogs).
Proof.
  intros. unfold pl_occ, pl_held, pl_count, pl_init. simpl.
  rewrite plp_sum_repeat. change (count_occ Nat.eq_dec [] j) with 0.
  assert (Hw : pl_wh j (if running then PwNew else PwGone) = 0) by (destruct running; reflexivity).
  rewrite Hw. replace (pl_nw p * 0) with 0 by lia. simpl.
  induction sprogs as [|a r IH]; simpl; [reflexivity|].
  rewrite plp_cnt_app, IH. unfold pl_sh. simpl. lia.
Qed.

Lemma plp_exactly_once : forall p running lprogs sprogs, NoDup (concat sprogs) ->
  forall sched s, run (pl_sys p) sched (pl_init p running lprogs sprogs) = Some s ->
  forall j, pl_count s j <= 1.
Proof.
  intros p running lprogs sprogs Hnd sched s Hrun j.
  assert (H : pl_occ j s <= pl_cnt j (concat sprogs)).
  { revert sched s Hrun. apply plp_always.
    - rewrite plp_occ_init. lia.
    - intros s l s' HP Hn. pose proof (plp_occ_step p j s l s' Hn). lia. }
  assert (pl_cnt j (concat sprogs) <= 1).
  { unfold pl_cnt. apply (proj1 (NoDup_count_occ Nat.eq_dec (concat sprogs)) Hnd). }
  unfold pl_occ, pl_held in H. lia.
Qed.

(* ------------------------------------------------------------------ *)
(* P3: the list lock is held across a pause point only by a sender at PsLFail *)

Definition pl_lm (s : pl_st) : Prop :=
  (forall k, pl_listm s = Some k -> exists j jobs, nth_error (pl_sns s) k = Some (PlSnd (PsLFail j) jobs)) /\
  (forall k j jobs, nth_error (pl_sns s) k = Some (PlSnd (PsLFail j) jobs) -> pl_listm s = Some k).

Lemma plp_lm_step : forall p s l s', pl_lm s -> pl_next p s l = Some s' -> pl_lm s'.
Proof.
  intros p s l s' [Ha Hb] H. unfold pl_lm. pl_cases H; try (split; assumption).
  all: match goal with E : nth_error (pl_sns _) ?i = Some _ |- _ =>
         pose proof (plp_nth_lt _ _ _ _ E) as Hlt;
         split; [intros k' Hk | intros k' j' jobs' Hk];
         (destruct (Nat.eq_dec k' i) as [->|Hne];
          [rewrite ?plp_upd_eq in * by assumption | rewrite ?plp_upd_neq in * by assumption])
       end.
  all: try discriminate; try congruence; eauto.
  all: try (destruct (Ha _ Hk) as (? & ? & Hx); congruence).
  all: apply Hb in Hk; try congruence.
  all: match goal with E : nth_error (pl_sns _) _ = Some _ |- _ => apply Hb in E end; congruence.
Qed.

Lemma plp_lm_init : forall p running lprogs sprogs, pl_lm (pl_init p running lprogs sprogs).
Proof.
  intros. split; simpl; [discriminate|].
  intros k j jobs H. exfalso. revert k H. induction sprogs as [|a r IH]; intros [|k] H; simpl in *; try discriminate.
  eapply IH; eauto.
Qed.

Lemma plp_lm_reach : forall p running lprogs sprogs sched s,
  run (pl_sys p) sched (pl_init p running lprogs sprogs) = Some s -> pl_lm s.
Proof.
  intros p running lprogs sprogs. apply plp_always; [apply plp_lm_init|].
  intros s l s' HP Hn. eapply plp_lm_step; eauto.
Qed.

Lemma plp_sender_progress : forall p s, pl_lm s -> pl_panic s = None ->
  forall i c, nth_error (pl_sns s) i = Some c -> (pl_spc_of c <> PsIdle \/ pl_sjobs c <> []) ->
  pl_enabled p s (PtS i, false) = true \/
  exists k, k <> i /\ pl_enabled p s (PtS k, false) = true /\
            pl_enabled p (pl_step p s (PtS k, false)) (PtS i, false) = true.
Proof.
  intros p s [Ha Hb] Hp i c Hn Hc.
  assert (Hen : forall s0 k, pl_panic s0 = None ->
            pl_enabled p s0 (PtS k, false) = match pl_step_s p s0 k false with Some _ => true | None => false end).
  { intros s0 k H0. unfold pl_enabled, pl_next. rewrite H0. reflexivity. }
  rewrite (Hen s i Hp). unfold pl_step_s at 1. rewrite Hn.
  destruct c as [pc jobs]. cbn [pl_spc_of pl_sjobs] in *. destruct pc as [|j|j|j].
  - destruct jobs as [|j r]; [destruct Hc; congruence|]. left. destruct (pl_cxs s); reflexivity.
  - left. destruct (pl_can_enq p s); [reflexivity|]. destruct (pl_cancelled s); reflexivity.
  - destruct (pl_listm s) as [k|] eqn:El.
    + right. exists k. destruct (Ha k eq_refl) as (j' & jobs' & Hk).
      assert (Hne : k <> i) by (intros ->; congruence).
      assert (Hs : pl_next p s (PtS k, false) =
                   Some (pl_set_sns (pl_set_listm s None) (pl_upd (pl_sns s) k (PlSnd PsIdle jobs')))).
      { unfold pl_next. rewrite Hp. cbn [fst snd]. unfold pl_step_s. rewrite Hk. reflexivity. }
      split; [exact Hne|]. split; [unfold pl_enabled; rewrite Hs; reflexivity|].
      unfold pl_step. rewrite Hs. rewrite Hen by exact Hp.
      unfold pl_step_s. pl_simp. rewrite plp_upd_neq by congruence. rewrite Hn. pl_simp.
      destruct (pl_flock s); reflexivity.
    + left. destruct (pl_flock s); reflexivity.
  - left. reflexivity.
Qed.

Lemma plp_send_never_blocks : forall p running lprogs sprogs sched s,
  run (pl_sys p) sched (pl_init p running lprogs sprogs) = Some s -> pl_panic s = None ->
  forall i c, nth_error (pl_sns s) i = Some c -> (pl_spc_of c <> PsIdle \/ pl_sjobs c <> []) ->
  pl_enabled p s (PtS i, false) = true \/
  exists k, k <> i /\ pl_enabled p s (PtS k, false) = true /\
            pl_enabled p (pl_step p s (PtS k, false)) (PtS i, false) = true.
Proof.
  intros p running lprogs sprogs sched s Hrun. apply plp_sender_progress.
  eapply plp_lm_reach; eauto.
Qed.

(* ------------------------------------------------------------------ *)
(* P4: lifecycle phases (at most one thread calls Stop / Run)           *)

Definition pl_lpc0 (s : pl_st) : pl_lpc := match pl_lfs s with c :: _ => pl_lpc_of c | [] => PlIdle end.

Definition pl_stopped (s : pl_st) : Prop :=
  ((pl_cxs s = PxNil /\ pl_chs s = PhNil) \/ (pl_cxs s = PxCancelled /\ pl_chs s = PhClosed)) /\
  pl_sendwg s = 0 /\ pl_runwg s = 0 /\ pl_def s = [].

Definition pl_linv (p : pl_par) (s : pl_st) : Prop :=
  length (pl_lfs s) <= 1 /\ length (pl_wks s) = pl_nw p /\
  match pl_lpc0 s with
  | PlIdle => if pl_runm s then pl_cxs s = PxLive /\ pl_chs s = PhOpen /\ pl_runwg s = pl_nw p
              else pl_stopped s
  | PlStopHeld | PlRunInit => pl_runm s = true /\ pl_stopped s
  | PlRunSpawn => pl_runm s = true /\ pl_cxs s = PxLive /\ pl_runwg s = 0 /\
                  (if pl_fix p then pl_chs s = PhOpen else True)
  | PlStopWaitS => pl_runm s = true /\ pl_cxs s = PxCancelled /\ pl_chs s = PhOpen
  | PlStopWaitR => pl_runm s = true /\ pl_cxs s = PxCancelled /\ pl_chs s = PhOpen /\ pl_sendwg s = 0
  | PlStopClose => pl_runm s = true /\ pl_cxs s = PxCancelled /\ pl_chs s = PhOpen /\ pl_sendwg s = 0 /\
                   pl_runwg s = 0
  end.

Ltac pl_fin := solve [ assumption | reflexivity | exact I | congruence | lia | split; pl_fin | left; pl_fin | right; pl_fin ].
Ltac pl_decomp :=
  repeat match goal with
  | H : _ /\ _ |- _ => destruct H
  | H : _ \/ _ |- _ => destruct H
  end.
Ltac pl_single Hl :=
  try match goal with E : nth_error (pl_lfs _) _ = Some _ |- _ =>
    let Hs := fresh "Hs" in
    destruct (plp_single _ _ _ _ Hl E) as [Hs ->]; rewrite Hs in *; clear Hs end.

Lemma plp_linv_step : forall p s l s', pl_linv p s -> pl_next p s l = Some s' -> pl_linv p s'.
Proof.
  intros p s l s' (Hl & Hw & HI) H.
  unfold pl_linv, pl_stopped, pl_lpc0, pl_sendwg, pl_runwg in *.
  pl_cases H; pl_single Hl.
  all: try match goal with |- context[pl_lfs ?s] => destruct (pl_lfs s) as [|[pc0 ops0] r]; [|destruct pc0] end.
  all: cbn [length pl_upd pl_lpc_of] in *; try destruct (pl_runm _) eqn:?.
  all: try match goal with |- context[if pl_fix ?p then _ else _] => destruct (pl_fix p) eqn:? end.
  all: pl_decomp; try congruence.
  all: pl_rw; try congruence.
  all: rewrite ?repeat_length, ?plp_upd_length; pl_arith.
  all: pl_fin.
Qed.

Lemma plp_sum_in_send_init : forall sprogs, pl_sum pl_in_send (map (PlSnd PsIdle) sprogs) = 0.
Proof. induction sprogs; simpl; auto. Qed.

Lemma plp_linv_init : forall p running lprogs sprogs, length lprogs <= 1 ->
  pl_linv p (pl_init p running lprogs sprogs).
Proof.
  intros p running lprogs sprogs Hl. unfold pl_linv, pl_stopped, pl_lpc0, pl_sendwg, pl_runwg, pl_init. pl_simp.
  rewrite map_length, repeat_length, plp_sum_repeat, plp_sum_in_send_init.
  split; [exact Hl|]. split; [reflexivity|].
  assert (Hpc : match map (PlLcl PlIdle) lprogs with c :: _ => pl_lpc_of c | [] => PlIdle end = PlIdle).
  { destruct lprogs; reflexivity. }
  rewrite Hpc. destruct running; simpl; repeat split; try lia. left; auto.
Qed.

Lemma plp_linv_reach : forall p running lprogs sprogs, length lprogs <= 1 ->
  forall sched s, run (pl_sys p) sched (pl_init p running lprogs sprogs) = Some s -> pl_linv p s.
Proof.
  intros p running lprogs sprogs Hl. apply plp_always; [apply plp_linv_init; exact Hl|].
  intros s l s' HP Hn. eapply plp_linv_step; eauto.
Qed.

Lemma plp_log_step : forall p s l s', pl_next p s l = Some s' -> pl_log s' <> pl_log s ->
  exists k j, fst l = PtW k /\ nth_error (pl_wks s) k = Some (PwBegin j).
Proof.
  intros p s l s' H. pl_cases H; intros Hne; try congruence.
  eexists _, _. split; [reflexivity|]. eassumption.
Qed.

Lemma plp_stop_clean : forall p running lprogs sprogs, length lprogs <= 1 ->
  forall sched s, run (pl_sys p) sched (pl_init p running lprogs sprogs) = Some s ->
  (pl_runm s = false -> pl_runwg s = 0 /\ pl_sendwg s = 0) /\
  (forall i c, nth_error (pl_lfs s) i = Some c -> pl_lpc_of c = PlStopClose -> pl_runwg s = 0 /\ pl_sendwg s = 0) /\
  (forall l s', pl_next p s l = Some s' -> pl_log s' <> pl_log s ->
     exists k j, fst l = PtW k /\ nth_error (pl_wks s) k = Some (PwBegin j)).
Proof.
  intros p running lprogs sprogs Hl sched s Hrun.
  destruct (plp_linv_reach p running lprogs sprogs Hl sched s Hrun) as (Hl1 & Hw & HI).
  unfold pl_stopped in HI. split; [|split].
  - intros Hr. rewrite Hr in HI. destruct (pl_lpc0 s); pl_decomp; try congruence; auto.
  - intros i c Hn Hc. destruct (plp_single _ _ _ _ Hl1 Hn) as [Hs ->]. unfold pl_lpc0 in HI. rewrite Hs, Hc in HI.
    pl_decomp; auto.
  - apply plp_log_step.
Qed.

(* no panic: repaired code, the first Run has returned *)
Definition pl_np (p : pl_par) (s : pl_st) : Prop := pl_linv p s /\ pl_cxs s <> PxNil /\ pl_panic s = None.

Ltac pl_ge :=
  try match goal with E : nth_error (pl_sns _) _ = Some _ |- _ => pose proof (plp_sum_ge _ pl_in_send _ _ _ E) end;
  try match goal with E : nth_error (pl_fls _) _ = Some _ |- _ => pose proof (plp_sum_ge _ pl_f_alive _ _ _ E) end;
  try match goal with E : nth_error (pl_wks _) _ = Some _ |- _ => pose proof (plp_sum_ge _ pl_w_alive _ _ _ E) end;
  unfold pl_in_send, pl_f_alive, pl_w_alive in *; cbn [pl_spc_of] in *.

Lemma plp_np_step : forall p s l s', pl_fix p = true -> pl_np p s -> pl_next p s l = Some s' -> pl_np p s'.
Proof.
  intros p s l s' Hfix (HL & Hc & Hp) H. split; [eapply plp_linv_step; eauto|].
  destruct HL as (Hl & Hw & HI). unfold pl_stopped, pl_lpc0, pl_sendwg, pl_runwg in *.
  pl_cases H; pl_single Hl; try congruence.
  all: (split; [congruence|]); try assumption.
  all: exfalso.
  all: try match goal with _ : context[match pl_lfs ?s with _ => _ end] |- _ => destruct (pl_lfs s) as [|[pc0 ops0] r]; [|destruct pc0] end.
  all: cbn [length pl_upd pl_lpc_of] in *; try destruct (pl_runm _) eqn:?.
  all: unfold pl_sendwg, pl_runwg in *; pl_decomp; pl_rw; pl_ge; try congruence; try lia.
Qed.

Lemma plp_no_panic : forall nw lprogs sprogs, length lprogs <= 1 ->
  forall sched s, run (pl_sys (pl_fixed nw)) sched (pl_init (pl_fixed nw) true lprogs sprogs) = Some s ->
  pl_panic s = None.
Proof.
  intros nw lprogs sprogs Hl sched s Hrun.
  assert (H : pl_np (pl_fixed nw) s).
  { revert sched s Hrun. apply plp_always.
    - split; [apply plp_linv_init; exact Hl|]. simpl. split; [discriminate|reflexivity].
    - intros s l s' HP Hn. eapply plp_np_step; eauto. }
  apply H.
Qed.

(* ------------------------------------------------------------------ *)
(* P5 *)
Definition pl_f_active (f : pl_fpc) : nat := match f with PfNew | PfLoop | PfHas _ => 1 | _ => 0 end.
Definition pl_fi (s : pl_st) : Prop :=
  pl_sum pl_f_active (pl_fls s) = (if pl_flock s then 1 else 0) /\
  (pl_cxs s = PxLive -> pl_def s <> [] -> pl_flock s = true).

Lemma plp_fi_step : forall p s l s', pl_fix p = true -> pl_linv p s -> pl_fi s -> pl_next p s l = Some s' -> pl_fi s'.
Proof.
  intros p s l s' Hfix (Hl & Hw & HI) (Hf1 & Hf2) H.
  unfold pl_fi, pl_stopped, pl_lpc0 in *.
  pl_cases H; pl_single Hl; cbn [length pl_upd pl_lpc_of] in *; try congruence.
  all: pl_decomp; pl_rw; destruct (pl_flock s) eqn:Efl; pl_arith; unfold pl_f_active in *.
  all: try (exfalso; lia).
  all: (split; [lia | intros Hlive Hdef; first [reflexivity | congruence | solve [auto] | idtac]]).
Qed.

Lemma plp_sum_le : forall A (f g : A -> nat) l, (forall x, f x <= g x) -> pl_sum f l <= pl_sum g l.
Proof. intros A f g l H. induction l as [|a l IH]; simpl; [lia|]. specialize (H a). lia. Qed.

Lemma plp_wh_le : forall j l, pl_sum (pl_wh j) l <= pl_sum pl_w_alive l.
Proof. intros. apply plp_sum_le. intros [| | | |k|k]; simpl; unfold pl_e; try lia. destruct (Nat.eq_dec k j); lia. Qed.

Definition pl_ai (s : pl_st) : Prop := pl_cxs s = PxLive -> forall j, In j (pl_acc s) -> 1 <= pl_held j s.

Lemma plp_ai_step : forall p s l s', pl_fix p = true -> pl_linv p s -> pl_ai s -> pl_next p s l = Some s' -> pl_ai s'.
Proof.
  intros p s l s' Hfix (Hl & Hw & HI) HA H Hlive j Hin.
  pose proof (plp_wh_le j (pl_wks s)) as Hwh.
  unfold pl_ai, pl_held, pl_count, pl_stopped, pl_lpc0, pl_runwg in *.
  fold (pl_cnt j (pl_log s')). 
  assert (HA' : pl_cxs s = PxLive -> In j (pl_acc s) ->
     1 <= pl_cnt j (pl_chan s) + pl_cnt j (pl_def s) + pl_sum (pl_fh j) (pl_fls s) +
          pl_sum (pl_wh j) (pl_wks s) + pl_cnt j (pl_log s)).
  { intros. apply HA; assumption. }
  clear HA.
  pl_cases H; pl_single Hl; cbn [length pl_upd pl_lpc_of] in *; try congruence.
  all: try discriminate Hlive.
  all: pl_decomp; pl_rw; try discriminate.
  all: try (destruct Hin as [->|Hin]; [rewrite ?plp_cnt_app, ?plp_cnt_cons, ?plp_e_same; lia|]).
  all: try (specialize (HA' eq_refl)); try (specialize (HA' Hlive)); try (specialize (HA' Hin)).
  all: try (simpl in Hin; contradiction).
  all: pl_arith; try lia.
  all: try (exfalso; destruct (pl_lfs s) as [|[[] ?] ?]; cbn [pl_lpc_of] in HI; try destruct (pl_runm s); pl_decomp; congruence).
Qed.

(* ------------------------------------------------------------------ *)
(* P5: a quiet live pool has executed every accepted job (repaired code) *)

Definition pl_p5inv (p : pl_par) (s : pl_st) : Prop := pl_linv p s /\ pl_fi s /\ pl_ai s.

Lemma plp_p5inv_reach : forall p running lprogs sprogs, pl_fix p = true -> length lprogs <= 1 ->
  forall sched s, run (pl_sys p) sched (pl_init p running lprogs sprogs) = Some s -> pl_p5inv p s.
Proof.
  intros p running lprogs sprogs Hfix Hl. apply plp_always.
  - split; [apply plp_linv_init; exact Hl|]. split.
    + split; simpl; [reflexivity|]. intros _ H; congruence.
    + intros _ j H. simpl in H. contradiction.
  - intros s l s' (H1 & H2 & H3) Hn. split; [|split].
    + eapply plp_linv_step; eauto.
    + eapply plp_fi_step; eauto.
    + eapply plp_ai_step; eauto.
Qed.

Lemma plp_flusher_invariant : forall nw running lprogs sprogs, length lprogs <= 1 ->
  forall sched s, run (pl_sys (pl_fixed nw)) sched (pl_init (pl_fixed nw) running lprogs sprogs) = Some s ->
  pl_sum pl_f_active (pl_fls s) = (if pl_flock s then 1 else 0) /\
  (pl_cxs s = PxLive -> pl_def s <> [] -> pl_flock s = true).
Proof.
  intros nw running lprogs sprogs Hl sched s Hrun.
  apply (plp_p5inv_reach (pl_fixed nw) running lprogs sprogs eq_refl Hl sched s Hrun).
Qed.

Lemma plp_quiet_In : forall p s t, pl_quiet p s = true -> In t (pl_threads s) -> pl_enabled p s (t, false) = false.
Proof.
  intros p s t Q Hin. unfold pl_quiet in Q. rewrite forallb_forall in Q. specialize (Q t Hin).
  destruct (pl_enabled p s (t, false)); simpl in Q; congruence.
Qed.

Lemma plp_in_seq0 : forall k n, k < n -> In k (seq 0 n).
Proof. intros. apply in_seq. lia. Qed.

Lemma plp_quiet_L : forall p s k, pl_quiet p s = true -> k < length (pl_lfs s) -> pl_enabled p s (PtL k, false) = false.
Proof. intros p s k Q H. apply plp_quiet_In; [exact Q|]. unfold pl_threads. rewrite !in_app_iff.
  left. apply in_map, plp_in_seq0, H. Qed.
Lemma plp_quiet_S : forall p s k, pl_quiet p s = true -> k < length (pl_sns s) -> pl_enabled p s (PtS k, false) = false.
Proof. intros p s k Q H. apply plp_quiet_In; [exact Q|]. unfold pl_threads. rewrite !in_app_iff.
  right; left. apply in_map, plp_in_seq0, H. Qed.
Lemma plp_quiet_F : forall p s k, pl_quiet p s = true -> k < length (pl_fls s) -> pl_enabled p s (PtF k, false) = false.
Proof. intros p s k Q H. apply plp_quiet_In; [exact Q|]. unfold pl_threads. rewrite !in_app_iff.
  right; right; left. apply in_map, plp_in_seq0, H. Qed.
Lemma plp_quiet_W : forall p s k, pl_quiet p s = true -> k < length (pl_wks s) -> pl_enabled p s (PtW k, false) = false.
Proof. intros p s k Q H. apply plp_quiet_In; [exact Q|]. unfold pl_threads. rewrite !in_app_iff.
  right; right; right. apply in_map, plp_in_seq0, H. Qed.

Lemma plp_quiet_final : forall p s, pl_fix p = true -> 1 <= pl_nw p ->
  pl_linv p s -> pl_fi s -> pl_lm s ->
  pl_quiet p s = true -> pl_cxs s = PxLive -> pl_panic s = None ->
  pl_chan s = [] /\ pl_def s = [] /\
  (forall j, pl_sum (pl_fh j) (pl_fls s) = 0) /\ (forall j, pl_sum (pl_wh j) (pl_wks s) = 0).
Proof.
  intros p s Hfix Hnw (Hl & Hw & HI) (Hf1 & Hf2) (Ha & Hb) Q Hlive Hp.
  assert (HL : pl_chs s = PhOpen /\ pl_runwg s = pl_nw p).
  { unfold pl_lpc0, pl_stopped in HI. destruct (pl_lfs s) as [|[pc ops] r] eqn:El; cbn [pl_lpc_of] in HI.
    - destruct (pl_runm s); pl_decomp; try congruence. auto.
    - destruct pc; try destruct (pl_runm s); pl_decomp; try congruence; auto.
      exfalso. assert (Hq := plp_quiet_L p s 0 Q). rewrite El in Hq. specialize (Hq ltac:(simpl; lia)).
      unfold pl_enabled, pl_next in Hq. rewrite Hp in Hq. cbn [fst snd] in Hq. unfold pl_step_l in Hq.
      rewrite El in Hq. cbn in Hq. discriminate. }
  destruct HL as [Hch Hrw]. unfold pl_runwg in Hrw. rewrite <- Hw in Hrw.
  assert (Halive := plp_sum_full _ pl_w_alive (pl_wks s) ltac:(intros []; simpl; lia) Hrw).
  assert (HW : forall k w, nth_error (pl_wks s) k = Some w -> w = PwIdle /\ pl_chan s = []).
  { intros k w Hn. specialize (Halive k w Hn).
    assert (Hq := plp_quiet_W p s k Q (plp_nth_lt _ _ _ _ Hn)).
    unfold pl_enabled, pl_next in Hq. rewrite Hp in Hq. cbn [fst snd] in Hq. unfold pl_step_w in Hq.
    rewrite Hn in Hq. destruct w; simpl in *; try discriminate.
    split; [reflexivity|]. unfold pl_can_deq, pl_cancelled in Hq. rewrite Hlive, Hch in Hq.
    destruct (pl_chan s); simpl in *; [reflexivity | discriminate]. }
  assert (Hchan : pl_chan s = []).
  { destruct (pl_wks s) as [|w r] eqn:Ew; [simpl in Hw; lia|]. apply (HW 0 w eq_refl). }
  assert (HF : forall n f, nth_error (pl_fls s) n = Some f -> f = PfGone).
  { intros n f Hn.
    assert (Hq := plp_quiet_F p s n Q (plp_nth_lt _ _ _ _ Hn)).
    unfold pl_enabled, pl_next in Hq. rewrite Hp in Hq. cbn [fst snd] in Hq. unfold pl_step_f in Hq.
    rewrite Hn in Hq. destruct f; simpl in *; try discriminate; try reflexivity.
    - destruct (pl_listm s) as [k|] eqn:Elm.
      + exfalso. destruct (Ha k eq_refl) as (j & jobs & Hk).
        assert (Hq2 := plp_quiet_S p s k Q (plp_nth_lt _ _ _ _ Hk)).
        unfold pl_enabled, pl_next in Hq2. rewrite Hp in Hq2. cbn [fst snd] in Hq2. unfold pl_step_s in Hq2.
        rewrite Hk in Hq2. simpl in Hq2. discriminate.
      + destruct (pl_pop_back (pl_def s)) as [[d j]|]; discriminate.
    - exfalso. unfold pl_can_enq, pl_cap in Hq. rewrite Hch, Hchan in Hq.
      assert (Hlt : (length (@nil pl_job) <? 2 * pl_nw p) = true) by (apply Nat.ltb_lt; simpl; lia).
      rewrite Hlt in Hq. discriminate. }
  assert (Hact : pl_sum pl_f_active (pl_fls s) = 0).
  { apply plp_sum_zero. intros n f Hn. rewrite (HF n f Hn). reflexivity. }
  assert (Hfl : pl_flock s = false) by (destruct (pl_flock s); [lia | reflexivity]).
  split; [exact Hchan|]. split.
  - destruct (pl_def s) eqn:Ed; [reflexivity|]. exfalso.
    assert (pl_flock s = true) by (apply Hf2; [exact Hlive | congruence]). congruence.
  - split; intros j; apply plp_sum_zero.
    + intros n f Hn. rewrite (HF n f Hn). reflexivity.
    + intros k w Hn. destruct (HW k w Hn) as [-> _]. reflexivity.
Qed.

Lemma plp_eventually_run : forall nw lprogs sprogs, 1 <= nw -> length lprogs <= 1 -> NoDup (concat sprogs) ->
  forall running sched s, run (pl_sys (pl_fixed nw)) sched (pl_init (pl_fixed nw) running lprogs sprogs) = Some s ->
  pl_quiet (pl_fixed nw) s = true -> pl_cxs s = PxLive -> pl_panic s = None ->
  pl_chan s = [] /\ pl_def s = [] /\ forall j, In j (pl_acc s) -> pl_count s j = 1.
Proof.
  intros nw lprogs sprogs Hnw Hl Hnd running sched s Hrun Q Hlive Hp.
  destruct (plp_p5inv_reach (pl_fixed nw) running lprogs sprogs eq_refl Hl sched s Hrun) as (H1 & H2 & H3).
  assert (Hlm := plp_lm_reach _ _ _ _ _ _ Hrun).
  destruct (plp_quiet_final (pl_fixed nw) s eq_refl Hnw H1 H2 Hlm Q Hlive Hp) as (Hc & Hd & Hfh & Hwh).
  split; [exact Hc|]. split; [exact Hd|]. intros j Hin.
  assert (Hle := plp_exactly_once _ _ _ _ Hnd _ _ Hrun j).
  specialize (H3 Hlive j Hin). unfold pl_held in H3. rewrite Hc, Hd, Hfh, Hwh in H3. simpl in H3.
  change (pl_cnt j []) with 0 in H3. lia.
Qed.

(* ------------------------------------------------------------------ *)
(* P6: no deadlock (repaired code, one lifecycle thread, started running) *)

Lemma plp_flusher_progress : forall p s, pl_lm s -> pl_panic s = None -> pl_cxs s = PxCancelled ->
  forall n f, nth_error (pl_fls s) n = Some f -> f <> PfGone -> exists l, pl_enabled p s l = true.
Proof.
  intros p s [Ha Hb] Hp Hc n f Hn Hf.
  assert (Hen : forall l, pl_enabled p s l = match (match fst l with
            | PtL i => pl_step_l p s i (snd l) | PtS i => pl_step_s p s i (snd l)
            | PtF n => pl_step_f p s n (snd l) | PtW k => pl_step_w p s k (snd l) end) with Some _ => true | None => false end).
  { intros l. unfold pl_enabled, pl_next. rewrite Hp. reflexivity. }
  destruct f; try congruence.
  - exists (PtF n, false). rewrite Hen. cbn [fst snd]. unfold pl_step_f. rewrite Hn. reflexivity.
  - destruct (pl_listm s) as [k|] eqn:El.
    + destruct (Ha k eq_refl) as (j & jobs & Hk). exists (PtS k, false). rewrite Hen. cbn [fst snd].
      unfold pl_step_s. rewrite Hk. reflexivity.
    + exists (PtF n, false). rewrite Hen. cbn [fst snd]. unfold pl_step_f. rewrite Hn, El.
      destruct (pl_pop_back (pl_def s)) as [[d j]|]; reflexivity.
  - exists (PtF n, false). rewrite Hen. cbn [fst snd]. unfold pl_step_f. rewrite Hn.
    unfold pl_cancelled. rewrite Hc. destruct (pl_can_enq p s); reflexivity.
  - exists (PtF n, false). rewrite Hen. cbn [fst snd]. unfold pl_step_f. rewrite Hn. reflexivity.
  - exists (PtF n, false). rewrite Hen. cbn [fst snd]. unfold pl_step_f. rewrite Hn. reflexivity.
Qed.

Lemma plp_worker_progress : forall p s, pl_panic s = None -> pl_cxs s = PxCancelled ->
  forall k w, nth_error (pl_wks s) k = Some w -> w <> PwGone -> pl_enabled p s (PtW k, false) = true.
Proof.
  intros p s Hp Hc k w Hn Hw. unfold pl_enabled, pl_next. rewrite Hp. cbn [fst snd]. unfold pl_step_w. rewrite Hn.
  destruct w; try congruence; try reflexivity.
  unfold pl_cancelled. rewrite Hc. destruct (pl_can_deq s); [destruct (pl_chan s)|]; reflexivity.
Qed.

Lemma plp_progress : forall p s, pl_linv p s -> pl_lm s -> pl_panic s = None ->
  pl_all_done s = true \/ exists l, pl_enabled p s l = true.
Proof.
  intros p s (Hl & Hw & HI) Hlm Hp.
  destruct (pl_all_done s) eqn:Hd; [left; reflexivity | right].
  unfold pl_all_done in Hd. apply andb_false_iff in Hd. destruct Hd as [Hd|Hd].
  - destruct (plp_forallb_false _ _ _ Hd) as (i & c & Hn & Hc).
    assert (Hc' : pl_spc_of c <> PsIdle \/ pl_sjobs c <> []).
    { destruct c as [[] []]; simpl in *; try discriminate; (left; discriminate) || (right; discriminate). }
    destruct (plp_sender_progress p s Hlm Hp i c Hn Hc') as [H|(k & _ & H & _)]; eauto.
  - destruct (plp_forallb_false _ _ _ Hd) as (i & c & Hn & Hc).
    destruct (plp_single _ _ _ _ Hl Hn) as [Hs ->]. unfold pl_lpc0, pl_stopped in HI. rewrite Hs in HI.
    destruct c as [pc ops]. cbn [pl_lpc_of pl_lops] in *.
    assert (Hen : pl_enabled p s (PtL 0, false) = match pl_step_l p s 0 false with Some _ => true | None => false end).
    { unfold pl_enabled, pl_next. rewrite Hp. reflexivity. }
    unfold pl_step_l in Hen. rewrite Hs in Hen. cbn [nth_error pl_lpc_of pl_lops] in Hen.
    destruct pc.
    + exists (PtL 0, false). rewrite Hen. destruct ops as [|[] r]; [discriminate| |];
        destruct (pl_runm s); try destruct (pl_cxs s); reflexivity.
    + exists (PtL 0, false). rewrite Hen. destruct (pl_runm s); reflexivity.
    + destruct (pl_sendwg s =? 0) eqn:E.
      * exists (PtL 0, false). rewrite Hen. reflexivity.
      * apply Nat.eqb_neq in E. unfold pl_sendwg in E.
        destruct (Nat.eq_dec (pl_sum pl_in_send (pl_sns s)) 0) as [E0|E0].
        -- assert (Hpos : 0 < pl_sum pl_f_alive (pl_fls s)) by lia.
           destruct (plp_sum_pos _ _ _ Hpos) as (n & f & Hnf & Hf).
           apply (plp_flusher_progress p s Hlm Hp (proj1 (proj2 HI)) n f Hnf).
           intros ->. simpl in Hf. lia.
        -- assert (Hpos : 0 < pl_sum pl_in_send (pl_sns s)) by lia.
           destruct (plp_sum_pos _ _ _ Hpos) as (k & c & Hnc & Hc2).
           assert (Hc' : pl_spc_of c <> PsIdle \/ pl_sjobs c <> []).
           { left. intros Hx. unfold pl_in_send in Hc2. rewrite Hx in Hc2. lia. }
           destruct (plp_sender_progress p s Hlm Hp k c Hnc Hc') as [H|(k' & _ & H & _)]; eauto.
    + destruct (pl_runwg s =? 0) eqn:E.
      * exists (PtL 0, false). rewrite Hen. reflexivity.
      * apply Nat.eqb_neq in E. unfold pl_runwg in E.
        assert (Hpos : 0 < pl_sum pl_w_alive (pl_wks s)) by lia.
        destruct (plp_sum_pos _ _ _ Hpos) as (k & w & Hnw & Hw2).
        exists (PtW k, false). apply (plp_worker_progress p s Hp (proj1 (proj2 HI)) k w Hnw).
        intros ->. simpl in Hw2. lia.
    + exists (PtL 0, false). rewrite Hen. destruct (pl_chs s); destruct (pl_runm s); reflexivity.
    + exists (PtL 0, false). rewrite Hen. destruct (pl_runwg s =? 0); reflexivity.
    + exists (PtL 0, false). rewrite Hen. reflexivity.
Qed.

Lemma plp_no_deadlock : forall nw lprogs sprogs, 1 <= nw -> length lprogs <= 1 ->
  forall sched s, run (pl_sys (pl_fixed nw)) sched (pl_init (pl_fixed nw) true lprogs sprogs) = Some s ->
  pl_all_done s = true \/ exists l, pl_enabled (pl_fixed nw) s l = true.
Proof.
  intros nw lprogs sprogs _ Hl sched s Hrun. apply plp_progress.
  - eapply plp_linv_reach; eauto.
  - eapply plp_lm_reach; eauto.
  - eapply plp_no_panic; eauto.
Qed.

Lemma plp_no_panic_no_deadlock : forall nw lprogs sprogs, 1 <= nw -> length lprogs <= 1 ->
  forall sched s, run (pl_sys (pl_fixed nw)) sched (pl_init (pl_fixed nw) true lprogs sprogs) = Some s ->
  pl_panic s = None /\ (pl_all_done s = true \/ exists l, pl_enabled (pl_fixed nw) s l = true).
Proof.
  intros nw lprogs sprogs Hnw Hl sched s Hrun. split.
  - eapply plp_no_panic; eauto.
  - eapply plp_no_deadlock; eauto.
Qed.

(* the phase invariant in readable form *)
Lemma plp_phase_invariant : forall p running lprogs sprogs, length lprogs <= 1 ->
  forall sched s, run (pl_sys p) sched (pl_init p running lprogs sprogs) = Some s ->
  length (pl_lfs s) <= 1 /\ length (pl_wks s) = pl_nw p /\
  let lpc := pl_lpc0 s in
  (pl_cxs s = PxLive ->
     (lpc = PlIdle /\ pl_runm s = true /\ pl_chs s = PhOpen /\ pl_runwg s = pl_nw p) \/
     (lpc = PlRunSpawn /\ pl_runm s = true /\ pl_runwg s = 0 /\ (pl_fix p = true -> pl_chs s = PhOpen))) /\
  (lpc = PlIdle -> pl_runm s = true -> pl_cxs s = PxLive) /\
  ((lpc = PlIdle /\ pl_runm s = false) \/ lpc = PlStopHeld \/ lpc = PlRunInit ->
     pl_cxs s <> PxLive /\ (pl_cxs s = PxNil <-> pl_chs s = PhNil) /\
     pl_sendwg s = 0 /\ pl_runwg s = 0 /\ pl_def s = []) /\
  (lpc <> PlIdle -> pl_runm s = true) /\
  (lpc = PlStopWaitS \/ lpc = PlStopWaitR \/ lpc = PlStopClose -> pl_cxs s = PxCancelled /\ pl_chs s = PhOpen) /\
  (lpc = PlStopWaitR \/ lpc = PlStopClose -> pl_sendwg s = 0) /\
  (lpc = PlStopClose -> pl_runwg s = 0) /\
  (pl_chs s = PhClosed -> pl_runwg s = 0 /\ (pl_fix p = true -> pl_sendwg s = 0)).
Proof.
  intros p running lprogs sprogs Hl sched s Hrun.
  destruct (plp_linv_reach p running lprogs sprogs Hl sched s Hrun) as (Hl1 & Hw & HI).
  split; [exact Hl1|]. split; [exact Hw|]. unfold pl_stopped in HI. cbv zeta.
  destruct (pl_lpc0 s); try destruct (pl_runm s) eqn:Er; try destruct (pl_fix p) eqn:Ef;
    intuition (try congruence; try lia).
Qed.

(* both variants: the only panic is D18's, inside Run's window *)
Definition pl_np2 (p : pl_par) (s : pl_st) : Prop :=
  pl_linv p s /\ pl_cxs s <> PxNil /\
  (pl_panic s = None \/ (pl_fix p = false /\ pl_panic s = Some PkSendClosed /\ pl_lpc0 s = PlRunSpawn)).

Lemma plp_np2_step : forall p s l s', pl_np2 p s -> pl_next p s l = Some s' -> pl_np2 p s'.
Proof.
  intros p s l s' (HL & Hc & _) H. split; [eapply plp_linv_step; eauto|].
  destruct HL as (Hl & Hw & HI). unfold pl_stopped, pl_lpc0, pl_sendwg, pl_runwg in *.
  pl_cases H; pl_single Hl.
  all: (split; [congruence|]); try (left; first [assumption | reflexivity]).
  all: try match goal with _ : context[match pl_lfs ?s with _ => _ end] |- _ =>
             destruct (pl_lfs s) as [|[pc0 ops0] r]; [|destruct pc0] end.
  all: cbn [length pl_upd pl_lpc_of] in *; try destruct (pl_runm _) eqn:?.
  all: unfold pl_sendwg, pl_runwg in *; pl_decomp; pl_rw; pl_ge; try (exfalso; congruence); try (exfalso; lia).
  all: destruct (pl_fix p) eqn:?; [exfalso; cbv iota in *; congruence | right; repeat split; reflexivity].
Qed.

Lemma plp_only_restart_panics : forall p lprogs sprogs, length lprogs <= 1 ->
  forall sched s, run (pl_sys p) sched (pl_init p true lprogs sprogs) = Some s ->
  pl_panic s = None \/ (pl_fix p = false /\ pl_panic s = Some PkSendClosed /\ pl_lpc0 s = PlRunSpawn).
Proof.
  intros p lprogs sprogs Hl sched s Hrun.
  assert (H : pl_np2 p s).
  { revert sched s Hrun. apply plp_always.
    - split; [apply plp_linv_init; exact Hl|]. simpl. split; [discriminate|left; reflexivity].
    - intros s l s' HP Hn. eapply plp_np2_step; eauto. }
  apply H.
Qed.

Lemma plp_list_lock : forall p running lprogs sprogs sched s,
  run (pl_sys p) sched (pl_init p running lprogs sprogs) = Some s ->
  forall k, pl_listm s = Some k <-> exists j jobs, nth_error (pl_sns s) k = Some (PlSnd (PsLFail j) jobs).
Proof.
  intros p running lprogs sprogs sched s Hrun k.
  destruct (plp_lm_reach _ _ _ _ _ _ Hrun) as [Ha Hb]. split.
  - apply Ha.
  - intros (j & jobs & H). eapply Hb; eauto.
Qed.
