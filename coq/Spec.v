(* Spec: the abstract machine that says what C01/C02/C03/C09/C13 say.
   No sequence numbers, no content ids, no files, no cleaner: garbage
   collection and draining are the identity.

   Per key the state is the list of *live* versions in installation order:
   at most one committed entry (owner 0, the current committed value; a
   deletion is a version with value None) and the uncommitted entries of the
   open transactions.  Installing a committed value (an autocommit write, or a
   commit — "a commit is a write of the committed keys at commit time")
   replaces the key's committed entry and appends.

     read RU      = the most recent entry of the key, whoever owns it
     read RC t    = the most recent entry among committed and t's own
     read RR/SER t= t's own most recent entry, else the value committed when t began
     commit t     fails iff t is RR/SER and some key it wrote has had a value
                  committed since t began (t_dirty)
   Operations through a handle that is not open: Rollback is a no-op, everything
   else fails with ETxNotFound and changes nothing. *)
From Coq Require Import List NArith Bool.
From FsDb Require Import VList Core.
Import ListNotations.
Open Scope N_scope.

Record aver := mkaver { a_owner : N; a_val : option N }.
Record atx := mkatx { t_id : N; t_lvl : level; t_snap : list (N * option N); t_dirty : list N }.
Record astate := mka { a_vers : list (N * list aver); a_open : list atx; a_nexttx : N }.

Definition a_init : astate := mka [] [] 1.

Definition alget (s : list (N * list aver)) (k : N) : list aver :=
  match aget s k with Some l => l | None => [] end.

Definition owned_by (h : N) (e : aver) : bool := N.eqb (a_owner e) h.
Definition committed (e : aver) : bool := N.eqb (a_owner e) 0.

Definition last_val (l : list aver) : option N :=
  match last_opt l with Some e => a_val e | None => None end.

(* the committed value of a key *)
Definition committed_val (l : list aver) : option N := last_val (filter committed l).

Definition aopen_find (a : astate) (h : N) : option atx :=
  find (fun t => N.eqb (t_id t) h) (a_open a).
Definition aopen_del (o : list atx) (h : N) : list atx :=
  filter (fun t => negb (N.eqb (t_id t) h)) o.

(* who is reading: autocommit callers read as ReadCommitted without own writes *)
Definition areader (a : astate) (h : N) : option atx :=
  if N.eqb h 0 then Some (mkatx 0 RC [] []) else aopen_find a h.

Definition snap_val (t : atx) (k : N) : option N :=
  match aget (t_snap t) k with Some v => v | None => None end.

Definition aread (a : astate) (t : atx) (k : N) : option N :=
  let l := alget (a_vers a) k in
  match t_lvl t with
  | RU => last_val l
  | RC => last_val (filter (fun e => committed e || owned_by (t_id t) e) l)
  | RR | SER =>
    match last_opt (filter (owned_by (t_id t)) l) with
    | Some e => a_val e
    | None => snap_val t k
    end
  end.

Definition akeys (a : astate) (t : atx) : list N :=
  sort_keys (filter (fun k => match aread a t k with Some _ => true | None => false end)
                    (map fst (a_vers a))).

Definition mark_dirty (ks : list N) (o : list atx) : list atx :=
  map (fun t => mkatx (t_id t) (t_lvl t) (t_snap t) (ks ++ t_dirty t)) o.

(* install a committed value for k: replace the committed entry, append *)
Definition install_committed (s : list (N * list aver)) (k : N) (v : option N) : list (N * list aver) :=
  aset s k (filter (fun e => negb (committed e)) (alget s k) ++ [mkaver 0 v]).

Definition awrite (a : astate) (h k : N) (v : option N) : astate :=
  if N.eqb h 0
  then mka (install_committed (a_vers a) k v) (mark_dirty [k] (a_open a)) (a_nexttx a)
  else mka (aset (a_vers a) k (alget (a_vers a) k ++ [mkaver h v])) (a_open a) (a_nexttx a).

Definition drop_owner (h : N) (s : list (N * list aver)) : list (N * list aver) :=
  map (fun p => (fst p, filter (fun e => negb (owned_by h e)) (snd p))) s.

Definition written_keys (a : astate) (h : N) : list N :=
  map fst (filter (fun p => existsb (owned_by h) (snd p)) (a_vers a)).

(* commit: discard the transaction's entries; unless it conflicts, write the last
   value it gave each key as a committed (autocommit-like) write *)
Definition acommit (a : astate) (t : atx) : astate * out :=
  let h := t_id t in
  let ks := written_keys a h in
  let conflict := is_snapshot (t_lvl t) && existsb (fun k => existsb (N.eqb k) (t_dirty t)) ks in
  let a1 := mka (drop_owner h (a_vers a)) (aopen_del (a_open a) h) (a_nexttx a) in
  if conflict then (a1, OutErr ETxSerialization)
  else
    (fold_left (fun s k => awrite s 0 k (last_val (filter (owned_by h) (alget (a_vers a) k)))) ks a1,
     OutUnit).

Definition astep (a : astate) (o : op) : astate * out :=
  match o with
  | OBegin l =>
    let id := a_nexttx a in
    let snap := map (fun p => (fst p, committed_val (snd p))) (a_vers a) in
    (mka (a_vers a) (a_open a ++ [mkatx id l snap []]) (N.succ id), OutHandle id)
  | OSet h k v =>
    match areader a h with
    | None => (a, OutErr ETxNotFound)
    | Some _ => if N.eqb k 0 then (a, OutErr EEmptyKey) else (awrite a h k (Some v), OutUnit)
    end
  | ODel h k =>
    match areader a h with
    | None => (a, OutErr ETxNotFound)
    | Some _ => (awrite a h k None, OutUnit)
    end
  | OGet h k =>
    match areader a h with
    | None => (a, OutErr ETxNotFound)
    | Some t => (a, match aread a t k with Some v => OutVal v | None => OutErr ENotFound end)
    end
  | OKeys h =>
    match areader a h with
    | None => (a, OutErr ETxNotFound)
    | Some t => (a, OutKeys (akeys a t))
    end
  | OCommit h =>
    match aopen_find a h with
    | None => (a, OutErr ETxNotFound)
    | Some t => acommit a t
    end
  | ORollback h =>
    match aopen_find a h with
    | None => (a, OutUnit)
    | Some _ => (mka (drop_owner h (a_vers a)) (aopen_del (a_open a) h) (a_nexttx a), OutUnit)
    end
  | OGC | ODrain => (a, OutUnit)
  | OReopen =>
    (* open transactions are gone; only committed values survive (key order is unobservable:
       keys that still have a committed entry, in key order) *)
    (mka (sort_amap (filter (fun p => match snd p with [] => false | _ => true end)
                            (map (fun p => (fst p, filter committed (snd p))) (a_vers a))))
         [] (a_nexttx a), OutUnit)
  end.

Fixpoint arun_from (a : astate) (ops : list op) : list out :=
  match ops with
  | [] => []
  | o :: r => let (a', x) := astep a o in x :: arun_from a' r
  end.
Definition arun (ops : list op) : list out := arun_from a_init ops.

(* the key-value machine of C01: a map from keys to values *)
Definition kvstate := list (N * option N).
Definition kvstep (s : kvstate) (o : op) : kvstate * out :=
  match o with
  | OSet _ k v => if N.eqb k 0 then (s, OutErr EEmptyKey) else (aset s k (Some v), OutUnit)
  | ODel _ k => (aset s k None, OutUnit)
  | OGet _ k => (s, match aget s k with Some (Some v) => OutVal v | _ => OutErr ENotFound end)
  | OKeys _ => (s, OutKeys (sort_keys (map fst (filter (fun p => match snd p with Some _ => true | None => false end) s))))
  | _ => (s, OutUnit)
  end.
Fixpoint kvrun_from (s : kvstate) (ops : list op) : list out :=
  match ops with
  | [] => []
  | o :: r => let (s', x) := kvstep s o in x :: kvrun_from s' r
  end.
Definition kvrun (ops : list op) : list out := kvrun_from [] ops.

(* hypothesis H of the refinement theorem: no write through a handle that is not open *)
Definition write_handle (o : op) : option N :=
  match o with OSet h _ _ => Some h | ODel h _ => Some h | _ => None end.
Fixpoint no_late_writes_from (a : astate) (ops : list op) : bool :=
  match ops with
  | [] => true
  | o :: r =>
    (match write_handle o with
     | Some h => match areader a h with Some _ => true | None => false end
     | None => true
     end) && no_late_writes_from (fst (astep a o)) r
  end.
Definition no_late_writes (ops : list op) : bool := no_late_writes_from a_init ops.

Definition has_reopen (ops : list op) : bool :=
  existsb (fun o => match o with OReopen => true | _ => false end) ops.
Definition autocommit_only (ops : list op) : bool :=
  forallb (fun o => match o with
                    | OSet h _ _ | ODel h _ | OGet h _ | OKeys h => N.eqb h 0
                    | OBegin _ | OCommit _ | ORollback _ => false
                    | _ => true end) ops.
