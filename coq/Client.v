(* The client layer: a transaction handle remembers that it ended (Commit returned, successfully or with a
   serialization error, or Rollback returned) and refuses further writes itself with ErrTxNotFound; reads and Commit
   through an ended handle are refused by the transaction registry (Core.v).  With this layer the refinement holds for
   EVERY sequential history - the hypothesis "no write through a handle that is not open" of model_refines_spec_reopen
   is discharged by the code (defect D7, repaired by a fix: commit in the root package's transaction handle). *)
From Coq Require Import List NArith Bool Lia.
From FsDb Require Import Base VList Core Spec CoreLemmas CoreInv Refine CoreInvK Durable.
Import ListNotations.
Open Scope N_scope.

Definition cstep (m : mstate) (o : op) : mstate * out :=
  match write_handle o with
  | Some h => match tx_info m h with
              | Some _ => mstep m o
              | None => (m, OutErr ETxNotFound)
              end
  | None => mstep m o
  end.

Fixpoint crun_from (m : mstate) (ops : list op) : list out :=
  match ops with
  | [] => []
  | o :: r => let (m', x) := cstep m o in x :: crun_from m' r
  end.
Definition crun (ops : list op) : list out := crun_from m_init ops.

Theorem cstep_refines m a o :
  Full m -> R m a ->
  snd (cstep m o) = snd (astep a o) /\ R (fst (cstep m o)) (fst (astep a o)) /\ Full (fst (cstep m o)).
Proof.
  intros F HR. unfold cstep. destruct (write_handle o) as [h|] eqn:Ew.
  - assert (Hs := reader_sim m a h HR).
    destruct (tx_info m h) as [x|] eqn:Et, (areader a h) as [t|] eqn:Ea; try (destruct Hs; fail).
    + apply step_refines_full; [exact F | exact HR |]. unfold op_wf'. rewrite Ew, Ea. discriminate.
    + (* the handle is not open: refused without touching the state, on both sides *)
      destruct o as [l|h0 k v|h0 k|h0 k|h0|h0|h0| | |]; cbn [write_handle] in Ew; try discriminate;
        injection Ew as ->; cbn [astep fst snd]; rewrite Ea; cbn [fst snd]; (split; [reflexivity | split; [exact HR | exact F]]).
  - apply step_refines_full; [exact F | exact HR |]. unfold op_wf'. rewrite Ew. exact Logic.I.
Qed.

Theorem crun_refines ops : forall m a, Full m -> R m a -> crun_from m ops = arun_from a ops.
Proof.
  induction ops as [|o ops IH]; intros m a F HR; [reflexivity|]. cbn [crun_from arun_from].
  destruct (cstep_refines m a o F HR) as (Eo & R' & F').
  destruct (cstep m o) as [m' x] eqn:Em, (astep a o) as [a' y] eqn:Ea. cbn [fst snd] in *.
  subst y. f_equal. apply IH; assumption.
Qed.

(* the refinement theorem for every sequential history whatsoever: writes, reads, commits and rollbacks through open,
   ended or never issued handles, collections, drains, Close/Open at any position - no hypothesis *)
Theorem client_refines_spec ops : crun ops = arun ops.
Proof. unfold crun, arun. apply crun_refines; [exact Full_init | exact R_init]. Qed.

(* on histories without late writes the client layer is invisible *)
Lemma cstep_is_mstep m a o : R m a -> op_wf' a o -> cstep m o = mstep m o.
Proof.
  intros HR Hw. unfold cstep, op_wf' in *. destruct (write_handle o) as [h|]; [|reflexivity].
  assert (Hs := reader_sim m a h HR). destruct (tx_info m h), (areader a h); try reflexivity; try (destruct Hs; fail). congruence.
Qed.
