(* Basic lemmas about association lists, last_opt/filter, and the store accessors of Core. *)
From Coq Require Import List NArith Bool Lia Sorted.
From FsDb Require Import VList VListProofs Core.
Import ListNotations.
Open Scope N_scope.

(* ---------- aget / aset / adel ---------- *)
Section AMapLemmas.
  Context {V : Type}.
  Implicit Types (l : list (N * V)) (k : N) (v : V).

  Lemma aget_aset_eq l k v : aget (aset l k v) k = Some v.
  Proof.
    induction l as [|[k' v'] l IH]; simpl.
    - rewrite N.eqb_refl. reflexivity.
    - destruct (N.eqb_spec k k') as [->|Hne]; simpl.
      + rewrite N.eqb_refl. reflexivity.
      + destruct (N.eqb_spec k k'); [contradiction|]. exact IH.
  Qed.

  Lemma aget_aset_neq l k k' v : k' <> k -> aget (aset l k v) k' = aget l k'.
  Proof.
    intros Hne. induction l as [|[k0 v0] l IH]; simpl.
    - destruct (N.eqb_spec k' k); [contradiction | reflexivity].
    - destruct (N.eqb_spec k k0) as [->|Hk]; simpl.
      + destruct (N.eqb_spec k' k0); [contradiction | reflexivity].
      + destruct (N.eqb_spec k' k0); [reflexivity | exact IH].
  Qed.

  Lemma aget_aset l k k' v : aget (aset l k v) k' = if N.eqb k' k then Some v else aget l k'.
  Proof.
    destruct (N.eqb_spec k' k) as [->|Hne]; [apply aget_aset_eq | apply aget_aset_neq; exact Hne].
  Qed.

  Lemma aget_In l k v : aget l k = Some v -> In (k, v) l.
  Proof.
    induction l as [|[k' v'] l IH]; simpl; [discriminate|].
    destruct (N.eqb_spec k k') as [->|Hne].
    - intros H; injection H as ->. left; reflexivity.
    - intros H. right. exact (IH H).
  Qed.

  Lemma aget_None_notin l k : aget l k = None -> ~ In k (map fst l).
  Proof.
    induction l as [|[k' v'] l IH]; simpl; [tauto|].
    destruct (N.eqb_spec k k') as [->|Hne]; [discriminate|].
    intros H [E|Hin]; [congruence | exact (IH H Hin)].
  Qed.

  Lemma aget_Some_in l k v : aget l k = Some v -> In k (map fst l).
  Proof. intros H. apply aget_In in H. apply (in_map fst) in H. exact H. Qed.

  Lemma in_keys_aget l k : In k (map fst l) -> exists v, aget l k = Some v.
  Proof.
    induction l as [|[k' v'] l IH]; simpl; [tauto|].
    destruct (N.eqb_spec k k') as [->|Hne]; [eauto|].
    intros [E|Hin]; [congruence | exact (IH Hin)].
  Qed.

  Lemma keys_aset l k v :
    map fst (aset l k v) = if existsb (N.eqb k) (map fst l) then map fst l else map fst l ++ [k].
  Proof.
    induction l as [|[k' v'] l IH]; simpl; [reflexivity|].
    destruct (N.eqb_spec k k') as [->|Hne]; simpl; [reflexivity|].
    rewrite IH. destruct (existsb (N.eqb k) (map fst l)); reflexivity.
  Qed.

  Lemma aget_adel l k k' : aget (adel l k) k' = if N.eqb k' k then None else aget l k'.
  Proof.
    unfold adel. induction l as [|[k0 v0] l IH]; simpl.
    - destruct (N.eqb k' k); reflexivity.
    - destruct (N.eqb_spec k0 k) as [->|Hk]; simpl.
      + rewrite IH. destruct (N.eqb_spec k' k); reflexivity.
      + rewrite IH. destruct (N.eqb_spec k' k0) as [->|]; [|reflexivity].
        destruct (N.eqb_spec k0 k); [contradiction | reflexivity].
  Qed.

  Lemma aget_map_snd {W} (f : N -> V -> W) l k :
    aget (map (fun p => (fst p, f (fst p) (snd p))) l) k =
    match aget l k with Some v => Some (f k v) | None => None end.
  Proof.
    induction l as [|[k' v'] l IH]; simpl; [reflexivity|].
    destruct (N.eqb_spec k k') as [->|]; [reflexivity | exact IH].
  Qed.

  Lemma keys_map_snd {W} (f : N * V -> W) l :
    map fst (map (fun p => (fst p, f p)) l) = map fst l.
  Proof. rewrite map_map. reflexivity. Qed.
End AMapLemmas.

Lemma existsb_eqb_In k (l : list N) : existsb (N.eqb k) l = true <-> In k l.
Proof.
  rewrite existsb_exists. split.
  - intros (x & Hx & E). apply N.eqb_eq in E. subst. exact Hx.
  - intros H. exists k. split; [exact H | apply N.eqb_refl].
Qed.

(* ---------- last_opt with filter / map ---------- *)
Lemma last_opt_map {A B} (f : A -> B) (l : list A) :
  last_opt (map f l) = match last_opt l with Some x => Some (f x) | None => None end.
Proof.
  unfold last_opt. rewrite <- map_rev. destruct (rev l); reflexivity.
Qed.

Lemma last_opt_filter_app {A} (p : A -> bool) (l : list A) x :
  last_opt (filter p (l ++ [x])) = if p x then Some x else last_opt (filter p l).
Proof.
  rewrite filter_app. simpl. destruct (p x).
  - apply last_opt_snoc.
  - rewrite app_nil_r. reflexivity.
Qed.

Lemma last_opt_singleton {A} (x : A) : last_opt [x] = Some x.
Proof. reflexivity. Qed.

Lemma removelast_app_last {A} (l : list A) x : last_opt l = Some x -> removelast l ++ [x] = l.
Proof. intros H. symmetry. apply last_opt_some. exact H. Qed.

(* ---------- lget / sget / sset ---------- *)
Lemma lget_aset s k k' l : lget (aset s k l) k' = if N.eqb k' k then l else lget s k'.
Proof. unfold lget. rewrite aget_aset. destruct (N.eqb k' k); reflexivity. Qed.

Lemma sget_sset t h k l h' k' :
  sget (sset t h k l) h' k' = if N.eqb h' h && N.eqb k' k then l else sget t h' k'.
Proof.
  unfold sget, sset. rewrite aget_aset.
  destruct (N.eqb_spec h' h) as [->|Hh]; simpl; [|reflexivity].
  rewrite lget_aset. destruct (N.eqb k' k); [reflexivity|].
  destruct (aget t h); reflexivity.
Qed.

Lemma sget_adel t h h' k : sget (adel t h) h' k = if N.eqb h' h then [] else sget t h' k.
Proof. unfold sget. rewrite aget_adel. destruct (N.eqb h' h); reflexivity. Qed.

Lemma lget_nil k : lget [] k = [].
Proof. reflexivity. Qed.

Lemma lget_in_keys s k : lget s k <> [] -> In k (map fst s).
Proof.
  unfold lget. destruct (aget s k) eqn:E; [|congruence].
  intros _. eapply aget_Some_in; eauto.
Qed.

Lemma lget_map_snd (f : N -> list ver -> list ver) s k :
  f k [] = [] ->
  lget (map (fun p => (fst p, f (fst p) (snd p))) s) k = f k (lget s k).
Proof.
  intros Hnil. unfold lget. rewrite aget_map_snd. destruct (aget s k); auto.
Qed.

(* ---------- ver_eqb ---------- *)
Lemma ver_eqb_eq a b : ver_eqb a b = true <-> a = b.
Proof.
  unfold ver_eqb. rewrite !andb_true_iff, !N.eqb_eq. destruct a, b; simpl. split.
  - intros [[[-> ->] ->] ->]. reflexivity.
  - intros H; injection H as -> -> -> ->. auto.
Qed.

Lemma ver_eqb_refl a : ver_eqb a a = true.
Proof. apply ver_eqb_eq. reflexivity. Qed.

Lemma existsb_ver_eqb_In v (l : list ver) : existsb (ver_eqb v) l = true <-> In v l.
Proof.
  rewrite existsb_exists. split.
  - intros (x & Hx & E). apply ver_eqb_eq in E. subst. exact Hx.
  - intros H. exists v. split; [exact H | apply ver_eqb_refl].
Qed.

Lemma remove_vers_filter (del l : list ver) (p : ver -> bool) :
  (forall v, In v l -> (In v del <-> p v = false)) ->
  remove_vers del l = filter p l.
Proof.
  intros H. unfold remove_vers. apply filter_ext_in. intros v Hv.
  destruct (existsb (ver_eqb v) del) eqn:E; simpl.
  - apply existsb_ver_eqb_In in E. apply (H v Hv) in E. rewrite E. reflexivity.
  - destruct (p v) eqn:Ep; [reflexivity|].
    apply (H v Hv) in Ep. apply existsb_ver_eqb_In in Ep. congruence.
Qed.

(* ---------- filter helpers ---------- *)
Lemma filter_filter {A} (p q : A -> bool) (l : list A) :
  filter p (filter q l) = filter (fun x => q x && p x) l.
Proof.
  induction l as [|x l IH]; simpl; [reflexivity|].
  destruct (q x); simpl; [destruct (p x)|]; rewrite ?IH; reflexivity.
Qed.

Lemma filter_comm {A} (p q : A -> bool) (l : list A) :
  filter p (filter q l) = filter q (filter p l).
Proof.
  rewrite !filter_filter. apply filter_ext. intros x. apply andb_comm.
Qed.

Lemma filter_true {A} (p : A -> bool) (l : list A) :
  (forall x, In x l -> p x = true) -> filter p l = l.
Proof.
  induction l as [|x l IH]; simpl; intros H; [reflexivity|].
  rewrite (H x (or_introl eq_refl)). f_equal. apply IH. intros y Hy. apply H. right; exact Hy.
Qed.

Lemma filter_false {A} (p : A -> bool) (l : list A) :
  (forall x, In x l -> p x = false) -> filter p l = [].
Proof.
  induction l as [|x l IH]; simpl; intros H; [reflexivity|].
  rewrite (H x (or_introl eq_refl)). apply IH. intros y Hy. apply H. right; exact Hy.
Qed.

Lemma sorted_filter (p : ver -> bool) (l : list ver) :
  sorted ver v_seq l -> sorted ver v_seq (filter p l).
Proof.
  induction l as [|x l IH]; simpl; intros H; [exact H|].
  apply sorted_cons_inv in H. destruct H as [Hs Hf].
  destruct (p x); [|exact (IH Hs)].
  constructor; [exact (IH Hs)|].
  rewrite Forall_forall in *. intros y Hy. apply filter_In in Hy. apply Hf. tauto.
Qed.
