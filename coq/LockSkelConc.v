(* From the per-operation discipline (LockSkel.path_ok) to the absence of conflicting accesses between threads:
   any number of threads, each running events accepted by LockSkel.step for its own operation, interleaved in any
   order that the lock semantics of Lockset.v allows.  In every reachable configuration no two threads have
   conflicting accesses to one store enabled at the same time. *)
From Coq Require Import List Bool Arith NArith Lia String.
From FsDb Require Import Lockset LockSkel.
Import ListNotations.

Definition md (w : bool) : lmode := if w then MW else MR.

Section Conc.
  Variable sigma : nat -> lk -> N.        (* which concrete store (= lock) a thread's lock name denotes *)
  Hypothesis sigma_inj : forall t l1 l2, sigma t l1 = sigma t l2 -> l1 = l2.
  Variable rl : nat -> rules.             (* the operation each thread runs *)

  Definition gstate := (lstate * (nat -> held))%type.
  Definition upd (hs : nat -> held) (t : nat) (h : held) : nat -> held := fun t' => if Nat.eqb t' t then h else hs t'.

  Definition gstep (g : gstate) (te : nat * ev) : option gstate :=
    let (s, hs) := g in let (t, e) := te in
    match step (rl t) (hs t) e with
    | None => None
    | Some h' =>
      match e with
      | Acq l w => match lstep s (EAcq t (sigma t l) (md w)) with Some s' => Some (s', upd hs t h') | None => None end
      | Rel l w => match lstep s (ERel t (sigma t l)) with Some s' => Some (s', upd hs t h') | None => None end
      | _ => Some (s, upd hs t h')
      end
    end.

  Fixpoint grun (g : gstate) (tr : list (nat * ev)) : option gstate :=
    match tr with
    | [] => Some g
    | te :: r => match gstep g te with Some g' => grun g' r | None => None end
    end.

  Definition ginit : gstate := ([], fun _ => []).

  (* what a thread believes it holds, it holds in the global lock state *)
  Definition cons (g : gstate) : Prop :=
    forall t l w, In (l, w) (snd g t) -> In (mkh t (sigma t l) (md w)) (fst g).

  Lemma step_shape r h e h' : step r h e = Some h' ->
    match e with
    | Acq l w => h' = (l, w) :: h
    | Rel l w => h' = release h l
    | _ => h' = h
    end.
  Proof.
    unfold step. destruct (negb (forallb (holds_w h) (r_need r e))); [discriminate|].
    destruct e as [l w|l w|l|l| | | | |]; intros H.
    - destruct (holds h l); [discriminate|]. destruct (forallb _ h); [|discriminate]. injection H as <-. reflexivity.
    - destruct (existsb _ h); [|discriminate]. injection H as <-. reflexivity.
    - destruct (holds h l); [injection H as <-; reflexivity|discriminate].
    - destruct (holds_w h l); [injection H as <-; reflexivity|discriminate].
    - injection H as <-; reflexivity.
    - injection H as <-; reflexivity.
    - injection H as <-; reflexivity.
    - injection H as <-; reflexivity.
    - discriminate.
  Qed.

  Lemma upd_same hs t h : upd hs t h t = h.
  Proof. unfold upd. rewrite Nat.eqb_refl. reflexivity. Qed.
  Lemma upd_other hs t h t' : t' <> t -> upd hs t h t' = hs t'.
  Proof. intros H. unfold upd. destruct (Nat.eqb_spec t' t); [contradiction|reflexivity]. Qed.

  Lemma cons_gstep g te g' : cons g -> gstep g te = Some g' -> cons g'.
  Proof.
    destruct g as [s hs], te as [t e]. unfold cons. cbn [fst snd gstep]. intros Hc H.
    destruct (step (rl t) (hs t) e) as [h'|] eqn:S; [|discriminate].
    pose proof (step_shape _ _ _ _ S) as Sh.
    destruct e as [l w|l w|l|l| | | | |].
    - (* acquire *)
      cbn [lstep] in H. destruct (can_acquire s t (sigma t l) (md w)); [|discriminate]. injection H as <-. subst h'.
      cbn [fst snd]. intros t' l' w' Hin. destruct (Nat.eq_dec t' t) as [->|Hne].
      + rewrite upd_same in Hin. destruct Hin as [E|Hin]; [injection E as <- <-; left; reflexivity | right; apply Hc; exact Hin].
      + rewrite upd_other in Hin by exact Hne. right. apply Hc. exact Hin.
    - (* release *)
      cbn [lstep] in H. injection H as <-. subst h'. cbn [fst snd]. intros t' l' w' Hin.
      apply filter_In. destruct (Nat.eq_dec t' t) as [->|Hne].
      + rewrite upd_same in Hin. unfold release in Hin. apply filter_In in Hin. destruct Hin as [Hin Hk]. cbn [fst] in Hk.
        split; [apply Hc; exact Hin|]. cbn [h_tid h_lock]. rewrite Nat.eqb_refl. cbn [andb].
        destruct (N.eqb_spec (sigma t l') (sigma t l)) as [E|_]; [|reflexivity].
        apply sigma_inj in E. subst l'. destruct (lk_eqb_spec l l) as [_|X]; [discriminate|congruence].
      + rewrite upd_other in Hin by exact Hne. split; [apply Hc; exact Hin|]. cbn [h_tid].
        destruct (Nat.eqb_spec t' t); [contradiction|reflexivity].
    - cbv beta iota in H. injection H as <-. subst h'. cbn [fst snd]. intros t' l' w' Hin. apply Hc.
      destruct (Nat.eq_dec t' t) as [->|Hne]; [rewrite upd_same in Hin|rewrite upd_other in Hin by exact Hne]; exact Hin.
    - cbv beta iota in H. injection H as <-. subst h'. cbn [fst snd]. intros t' l' w' Hin. apply Hc.
      destruct (Nat.eq_dec t' t) as [->|Hne]; [rewrite upd_same in Hin|rewrite upd_other in Hin by exact Hne]; exact Hin.
    - cbv beta iota in H. injection H as <-. subst h'. cbn [fst snd]. intros t' l' w' Hin. apply Hc.
      destruct (Nat.eq_dec t' t) as [->|Hne]; [rewrite upd_same in Hin|rewrite upd_other in Hin by exact Hne]; exact Hin.
    - cbv beta iota in H. injection H as <-. subst h'. cbn [fst snd]. intros t' l' w' Hin. apply Hc.
      destruct (Nat.eq_dec t' t) as [->|Hne]; [rewrite upd_same in Hin|rewrite upd_other in Hin by exact Hne]; exact Hin.
    - cbv beta iota in H. injection H as <-. subst h'. cbn [fst snd]. intros t' l' w' Hin. apply Hc.
      destruct (Nat.eq_dec t' t) as [->|Hne]; [rewrite upd_same in Hin|rewrite upd_other in Hin by exact Hne]; exact Hin.
    - cbv beta iota in H. injection H as <-. subst h'. cbn [fst snd]. intros t' l' w' Hin. apply Hc.
      destruct (Nat.eq_dec t' t) as [->|Hne]; [rewrite upd_same in Hin|rewrite upd_other in Hin by exact Hne]; exact Hin.
    - unfold step in S. destruct (negb (forallb (holds_w (hs t)) (r_need (rl t) Unknown))); discriminate.
  Qed.

  Lemma excl_gstep g te g' : excl (fst g) -> gstep g te = Some g' -> excl (fst g').
  Proof.
    destruct g as [s hs], te as [t e]. cbn [fst gstep]. intros Hx H.
    destruct (step (rl t) (hs t) e) as [h'|]; [|discriminate].
    destruct e as [l w|l w|l|l| | | | |]; cbv beta iota in H; try (injection H as <-; exact Hx); try discriminate.
    - destruct (lstep s (EAcq t (sigma t l) (md w))) as [s'|] eqn:L; [|discriminate]. injection H as <-. cbn [fst].
      exact (excl_step s _ s' Hx L).
    - destruct (lstep s (ERel t (sigma t l))) as [s'|] eqn:L; [|discriminate]. injection H as <-. cbn [fst].
      exact (excl_step s _ s' Hx L).
  Qed.

  Lemma reachable_inv : forall tr g g', cons g -> excl (fst g) -> grun g tr = Some g' -> cons g' /\ excl (fst g').
  Proof.
    induction tr as [|te tr IH]; intros g g' Hc Hx H; cbn [grun] in H.
    - injection H as <-. split; assumption.
    - destruct (gstep g te) as [g1|] eqn:S; [|discriminate].
      exact (IH g1 g' (cons_gstep g te g1 Hc S) (excl_gstep g te g1 Hx S) H).
  Qed.

  Definition access_of (e : ev) : option (lk * bool) :=
    match e with Wr l => Some (l, true) | Rd l => Some (l, false) | _ => None end.

  Lemma holds_w_in h l : holds_w h l = true -> In (l, true) h.
  Proof.
    unfold holds_w. rewrite existsb_exists. intros ([l' w'] & Hin & Hp). cbn [fst snd] in Hp.
    apply andb_true_iff in Hp. destruct Hp as [Hl Hw]. destruct (lk_eqb_spec l' l) as [->|]; [|discriminate]. subst w'. exact Hin.
  Qed.
  Lemma holds_in h l : holds h l = true -> exists w, In (l, w) h.
  Proof.
    unfold holds. rewrite existsb_exists. intros ([l' w'] & Hin & Hp). cbn [fst] in Hp.
    destruct (lk_eqb_spec l' l) as [->|]; [|discriminate]. exists w'. exact Hin.
  Qed.

  (* an enabled access means the thread holds the store's lock in the global state, in write mode for a mutation *)
  Lemma enabled_access_holds g t e l w : cons g -> (exists g', gstep g (t, e) = Some g') -> access_of e = Some (l, w) ->
    exists m, In (mkh t (sigma t l) m) (fst g) /\ (w = true -> m = MW).
  Proof.
    destruct g as [s hs]. intros Hc (g' & H) Ha. cbn [gstep] in H.
    destruct (step (rl t) (hs t) e) as [h'|] eqn:S; [|discriminate]. clear H.
    unfold step in S. destruct (negb (forallb (holds_w (hs t)) (r_need (rl t) e))); [discriminate|].
    destruct e as [l0 w0|l0 w0|l0|l0| | | | |]; cbn [access_of] in Ha; try discriminate; injection Ha as <- <-.
    - destruct (holds (hs t) l0) eqn:Hh; [|discriminate]. destruct (holds_in _ _ Hh) as (w1 & Hin).
      exists (md w1). split; [exact (Hc t l0 w1 Hin) | discriminate].
    - destruct (holds_w (hs t) l0) eqn:Hh; [|discriminate]. exists MW. split; [|reflexivity].
      exact (Hc t l0 true (holds_w_in _ _ Hh)).
  Qed.

  (* THE THEOREM: in every configuration reachable by any interleaving, two different threads never have conflicting
     accesses (same concrete store, at least one a mutation) enabled together *)
  Theorem no_conflicting_accesses tr g ta tb ea eb la lb wa wb :
    grun ginit tr = Some g -> ta <> tb ->
    (exists g', gstep g (ta, ea) = Some g') -> (exists g', gstep g (tb, eb) = Some g') ->
    access_of ea = Some (la, wa) -> access_of eb = Some (lb, wb) ->
    sigma ta la = sigma tb lb -> wa = true \/ wb = true -> False.
  Proof.
    intros Hrun Hne Ea Eb Aa Ab Hs Hw.
    assert (Hinit : cons ginit) by (intros t l w []).
    destruct (reachable_inv tr ginit g Hinit excl_nil Hrun) as [Hc Hx].
    destruct (enabled_access_holds g ta ea la wa Hc Ea Aa) as (ma & Ia & Ma).
    destruct (enabled_access_holds g tb eb lb wb Hc Eb Ab) as (mb & Ib & Mb).
    destruct (Hx _ _ Ia Ib Hs Hne) as [Ra Rb]. cbn [h_mode] in Ra, Rb.
    destruct Hw as [Hw|Hw]; [specialize (Ma Hw) | specialize (Mb Hw)]; congruence.
  Qed.
End Conc.

(* non-vacuity: two writers (thread 1 on store 10, thread 2 on store 11, both with the all-store 3) interleave;
   thread 2 can take its own store while thread 1 is inside its critical section, but not the all-store *)
Definition ex_sigma (t : nat) (l : lk) : N :=
  match l with LAll => 3%N | LSelf => 4%N | LTx => (10 + N.of_nat t)%N | LNew => (20 + N.of_nat t)%N end.

Example conc_example :
  let tr := [(1, Acq LTx true); (1, Acq LAll true); (1, SeqNext); (2, Acq LTx true); (1, KvSet); (1, Wr LTx); (1, Wr LAll)]%nat in
  (exists g, grun ex_sigma (fun _ => rules_of "Store"%string) ginit tr = Some g /\
             gstep ex_sigma (fun _ => rules_of "Store"%string) g (2%nat, Acq LAll true) = None /\
             exists g', gstep ex_sigma (fun _ => rules_of "Store"%string) g (1%nat, Rel LAll true) = Some g').
Proof. vm_compute. eexists. split; [reflexivity|]. split; [reflexivity|]. eexists. reflexivity. Qed.

Lemma ex_sigma_inj : forall t l1 l2, ex_sigma t l1 = ex_sigma t l2 -> l1 = l2.
Proof. intros t [] []; cbn [ex_sigma]; intros H; try reflexivity; lia. Qed.
